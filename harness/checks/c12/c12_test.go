// C12: the ledger recovers exactly after a crash at any persistence point.
//
// Mechanism (fault enumeration by real process kills): a child process (this test binary re-executed
// with C12_MODE set) opens a ledger directory with the real NewLedgerStore +
// InitLedgerStoreWithGenesisBlock, applies a deterministic block script through ExecuteBlock +
// SubmitBlock and is SIGKILLed by the ledgerstore.VerifCrashHook at crash point (site, height).
// Further children reopen the directory (optionally being killed again inside recoverStore), add
// the remaining blocks and reopen once more. Every child writes what it observed through the
// ledger's exported API; the parent compares with a crash-free reference run of the same script.
package c12

import (
	"crypto/sha256"
	"encoding/json"
	"fmt"
	"io/ioutil"
	"math/rand"
	"os"
	"os/exec"
	"path/filepath"
	"strconv"
	"strings"
	"sync"
	"syscall"
	"testing"

	"verifharness/kit"
	"verifharness/kit/pk"

	"github.com/polynetwork/poly/common"
	cstates "github.com/polynetwork/poly/core/states"
	"github.com/polynetwork/poly/core/store/ledgerstore"
	"github.com/polynetwork/poly/core/types"
	"github.com/polynetwork/poly/native"
	"github.com/polynetwork/poly/native/event"
)

// ---------------------------------------------------------------------------------------------
// a tiny scripted contract (registered into native.Contracts) so that blocks change state
// ---------------------------------------------------------------------------------------------

var scriptAddr = common.Address{0xC1, 0x2C, 0x12, 0x00, 0x00, 0x00, 0x00, 0x00, 0x00, 0x00, 0x00, 0x00, 0x00, 0x00, 0x00, 0x00, 0x00, 0x00, 0x00, 0x12}

const (
	opPut    = 1
	opDel    = 2
	opMerkle = 3 // store a record and commit it as a cross-state leaf
	opFail   = 4
	opInc    = 5 // read-modify-write counter: applying a block twice shows
	opNotify = 6
)

type op struct {
	Kind byte
	Key  string
	Val  string
}

func encodeOps(ops []op) []byte {
	sink := common.NewZeroCopySink(nil)
	sink.WriteVarUint(uint64(len(ops)))
	for _, o := range ops {
		sink.WriteByte(o.Kind)
		sink.WriteVarBytes([]byte(o.Key))
		sink.WriteVarBytes([]byte(o.Val))
	}
	return sink.Bytes()
}

func skey(k string) []byte { return append(append([]byte{}, scriptAddr[:]...), []byte(k)...) }

func runScript(s *native.NativeService) ([]byte, error) {
	src := common.NewZeroCopySource(s.GetInput())
	n, eof := src.NextVarUint()
	if eof {
		return nil, fmt.Errorf("bad script")
	}
	for i := uint64(0); i < n; i++ {
		kind, _ := src.NextByte()
		k, _ := src.NextVarBytes()
		v, eof := src.NextVarBytes()
		if eof {
			return nil, fmt.Errorf("bad script")
		}
		switch kind {
		case opPut:
			s.GetCacheDB().Put(skey(string(k)), cstates.GenRawStorageItem(v))
		case opDel:
			s.GetCacheDB().Delete(skey(string(k)))
		case opMerkle:
			s.GetCacheDB().Put(skey(string(k)), cstates.GenRawStorageItem(v))
			s.PutMerkleVal(v)
		case opFail:
			return nil, fmt.Errorf("scripted failure")
		case opInc:
			raw, err := s.GetCacheDB().Get(skey(string(k)))
			if err != nil {
				return nil, err
			}
			cur := 0
			if raw != nil {
				val, err := cstates.GetValueFromRawStorageItem(raw)
				if err != nil {
					return nil, err
				}
				cur, _ = strconv.Atoi(string(val))
			}
			s.GetCacheDB().Put(skey(string(k)), cstates.GenRawStorageItem([]byte(strconv.Itoa(cur+1))))
		case opNotify:
			s.AddNotify(&event.NotifyEventInfo{ContractAddress: scriptAddr, States: []interface{}{string(k), string(v)}})
		}
	}
	return []byte{1}, nil
}

func registerScript() {
	native.Contracts[scriptAddr] = func(s *native.NativeService) { s.Register("run", runScript) }
}

var keyUniverse = []string{"k0", "k1", "k2", "k3", "k4", "k5", "cnt", "cnt2", "m0", "m1", "m2", "m3"}

// blockTxs is a deterministic function of (seed, script, height).
func blockTxs(seed int64, script int, h uint32, chainID uint64) []*types.Transaction {
	hs := sha256.Sum256([]byte(fmt.Sprintf("c12/%d/%d/%d", seed, script, h)))
	var s int64
	for i := 0; i < 8; i++ {
		s = s<<8 | int64(hs[i])
	}
	rng := rand.New(rand.NewSource(s))
	if h%4 == 2 {
		return nil // a block without any transaction (recovery must replay it all the same)
	}
	shape := rng.Intn(8)
	var txs [][]op
	switch shape {
	case 0: // empty block
	case 1: // failing tx only
		txs = append(txs, []op{{opPut, "k0", "lost"}, {opFail, "", ""}})
	default:
		ntx := 1 + rng.Intn(3)
		for i := 0; i < ntx; i++ {
			var ops []op
			nop := 1 + rng.Intn(4)
			for j := 0; j < nop; j++ {
				k := fmt.Sprintf("k%d", rng.Intn(6))
				switch rng.Intn(6) {
				case 0:
					ops = append(ops, op{opDel, k, ""})
				case 1:
					ops = append(ops, op{opMerkle, fmt.Sprintf("m%d", rng.Intn(4)), fmt.Sprintf("rec-%d-%d-%d", h, i, j)})
				case 2:
					ops = append(ops, op{opNotify, k, "n"})
				default:
					ops = append(ops, op{opPut, k, fmt.Sprintf("v%d.%d.%d", h, i, rng.Intn(3))})
				}
			}
			if rng.Intn(5) == 0 {
				ops = append(ops, op{opFail, "", ""})
			}
			txs = append(txs, ops)
		}
	}
	if h%2 == 1 {
		// every odd height commits cross-chain leaves, so the cross-state root of a replayed block
		// is always part of what recovery must reproduce
		txs = append(txs, []op{{opMerkle, fmt.Sprintf("m%d", rng.Intn(4)), fmt.Sprintf("leaf-%d", h)}, {opMerkle, "m0", fmt.Sprintf("leaf2-%d", h)}})
	}
	if shape != 0 || rng.Intn(2) == 0 {
		txs = append(txs, []op{{opInc, "cnt", ""}})
	}
	if rng.Intn(3) == 0 {
		txs = append(txs, []op{{opInc, "cnt2", ""}, {opInc, "cnt", ""}})
	}
	var out []*types.Transaction
	for i, ops := range txs {
		out = append(out, pk.MakeTx(chainID, uint32(h)*100+uint32(i), pk.InvokeCode(scriptAddr, "run", encodeOps(ops))))
	}
	return out
}

// ---------------------------------------------------------------------------------------------
// observations written by the children
// ---------------------------------------------------------------------------------------------

type obs struct {
	Height     uint32 `json:"height"`
	Hash       string `json:"hash"`
	HeaderH    uint32 `json:"header_height"`
	StateRoot  string `json:"state_root"` // "ERR:..." when the record for Height is missing
	BlockRoot  string `json:"block_root"` // accumulator root over all block hashes up to Height
	CrossRoot  string `json:"cross_root"`
	Digest     string `json:"digest"` // contract state over the key universe
	Counter    string `json:"counter"`
	Containing bool   `json:"tip_block_readable"`
}

type childOut struct {
	OpenErr   string          `json:"open_err,omitempty"`
	AfterOpen *obs            `json:"after_open,omitempty"`
	PerHeight map[uint32]*obs `json:"per_height,omitempty"`
	AddErr    string          `json:"add_err,omitempty"`
	AddErrAt  uint32          `json:"add_err_at,omitempty"`
	Final     *obs            `json:"final,omitempty"`
	HookHits  []string        `json:"hook_hits,omitempty"`
}

func observe(c *pk.Chain) *obs {
	st := c.Store
	h := st.GetCurrentBlockHeight()
	hash := st.GetCurrentBlockHash()
	o := &obs{Height: h, Hash: hash.ToHexString(), HeaderH: st.GetCurrentHeaderHeight()}
	if r, err := st.GetStateMerkleRoot(h); err != nil {
		o.StateRoot = "ERR:" + err.Error()
	} else {
		o.StateRoot = r.ToHexString()
	}
	br := st.GetBlockRootWithPreBlockHashes(h+1, []common.Uint256{hash})
	o.BlockRoot = br.ToHexString()
	if cr, err := st.GetCrossStateRoot(h); err != nil {
		o.CrossRoot = "ERR:" + err.Error()
	} else {
		o.CrossRoot = cr.ToHexString()
	}
	d := sha256.New()
	for _, k := range keyUniverse {
		item, err := st.GetStorageItem(&cstates.StorageKey{ContractAddress: scriptAddr, Key: []byte(k)})
		if err != nil || item == nil {
			fmt.Fprintf(d, "%s=<absent>;", k)
			continue
		}
		fmt.Fprintf(d, "%s=%x;", k, item.Value)
		if k == "cnt" {
			o.Counter = string(item.Value)
		}
	}
	o.Digest = fmt.Sprintf("%x", d.Sum(nil)[:12])
	if b, err := st.GetBlockByHeight(h); err == nil && b != nil && b.Hash() == hash {
		o.Containing = true
	}
	return o
}

const netID = 7

func validators(seed int64) []*pk.Key {
	return pk.NewKeys(rand.New(rand.NewSource(seed*7919+13)), 4)
}

// TestC12Child is the child-process body; it is a no-op unless C12_MODE is set.
func TestC12Child(t *testing.T) {
	if os.Getenv("C12_MODE") == "" {
		t.Skip("child mode only")
	}
	dir := os.Getenv("C12_DIR")
	seed, _ := strconv.ParseInt(os.Getenv("C12_SEED"), 10, 64)
	script, _ := strconv.Atoi(os.Getenv("C12_SCRIPT"))
	upto64, _ := strconv.ParseUint(os.Getenv("C12_UPTO"), 10, 32)
	upto := uint32(upto64)
	outPath := os.Getenv("C12_OUT")
	crash := os.Getenv("C12_CRASH") // "site@height"
	out := &childOut{PerHeight: map[uint32]*obs{}}
	flush := func() {
		b, _ := json.Marshal(out)
		ioutil.WriteFile(outPath, b, 0644)
	}
	registerScript()
	var hits []string
	ledgerstore.VerifCrashHook = func(site string, height uint32) {
		tag := fmt.Sprintf("%s@%d", site, height)
		hits = append(hits, tag)
		if crash != "" && tag == crash {
			ioutil.WriteFile(outPath+".crashed", []byte(tag), 0644)
			syscall.Kill(os.Getpid(), syscall.SIGKILL)
			select {}
		}
	}
	c, err := pk.OpenChain(dir, netID, validators(seed))
	if err != nil {
		out.OpenErr = err.Error()
		out.HookHits = hits
		flush()
		return
	}
	out.AfterOpen = observe(c)
	for h := c.Store.GetCurrentBlockHeight() + 1; h <= upto; h++ {
		_, _, err := c.AddBlock(blockTxs(seed, script, h, c.ChainID), pk.BlockOpt{})
		if err != nil {
			out.AddErr = err.Error()
			out.AddErrAt = h
			break
		}
		out.PerHeight[h] = observe(c)
	}
	out.Final = observe(c)
	out.HookHits = hits
	c.Close()
	flush()
}

// ---------------------------------------------------------------------------------------------
// parent
// ---------------------------------------------------------------------------------------------

type childRes struct {
	Out     *childOut
	Killed  bool
	Crashed string // content of the .crashed marker
	Raw     string
}

func runChild(t *testing.T, dir string, seed int64, script int, upto uint32, crash string, tag string) *childRes {
	self := os.Getenv("VERIF_SELF")
	if self == "" {
		self = os.Args[0]
	}
	outPath := filepath.Join(dir, "..", filepath.Base(dir)+"."+tag+".json")
	os.Remove(outPath)
	os.Remove(outPath + ".crashed")
	cmd := exec.Command(self, "-test.run", "^TestC12Child$", "-test.count", "1", "-test.timeout", "300s")
	cmd.Env = append(os.Environ(), "C12_MODE=1", "C12_DIR="+dir, fmt.Sprintf("C12_SEED=%d", seed),
		fmt.Sprintf("C12_SCRIPT=%d", script), fmt.Sprintf("C12_UPTO=%d", upto), "C12_OUT="+outPath, "C12_CRASH="+crash)
	cmd.Dir = filepath.Dir(dir)
	b, err := cmd.CombinedOutput()
	res := &childRes{Raw: string(b)}
	if err != nil {
		if ee, ok := err.(*exec.ExitError); ok {
			if ws, ok := ee.Sys().(syscall.WaitStatus); ok && ws.Signaled() && ws.Signal() == syscall.SIGKILL {
				res.Killed = true
			}
		}
	}
	if m, err := ioutil.ReadFile(outPath + ".crashed"); err == nil {
		res.Crashed = string(m)
	}
	if jb, err := ioutil.ReadFile(outPath); err == nil {
		o := &childOut{}
		if json.Unmarshal(jb, o) == nil {
			res.Out = o
		}
	}
	os.Remove(outPath)
	os.Remove(outPath + ".crashed")
	return res
}

var submitSites = []string{"submit:before-block-commit", "submit:after-block-commit", "submit:after-event-commit", "submit:after-state-commit"}
var recoverSites = []string{"recover:before-event-commit", "recover:after-event-commit", "recover:after-state-commit"}

type crashCase struct {
	Script  int    `json:"script"`
	Site    string `json:"site"`
	Height  uint32 `json:"height"`
	Second  string `json:"second_crash_site,omitempty"`
	NBlocks uint32 `json:"blocks_in_script"`
}

func same(a, b *obs) []string {
	var d []string
	if a.Height != b.Height {
		d = append(d, fmt.Sprintf("height %d vs %d", a.Height, b.Height))
	}
	if a.Hash != b.Hash {
		d = append(d, "tip hash differs")
	}
	if a.StateRoot != b.StateRoot {
		d = append(d, fmt.Sprintf("state-merkle root %s vs %s", a.StateRoot, b.StateRoot))
	}
	if a.BlockRoot != b.BlockRoot {
		d = append(d, fmt.Sprintf("block-merkle root %s vs %s", a.BlockRoot, b.BlockRoot))
	}
	if a.Digest != b.Digest {
		d = append(d, fmt.Sprintf("contract state digest %s vs %s (counter %s vs %s)", a.Digest, b.Digest, a.Counter, b.Counter))
	}
	if a.CrossRoot != b.CrossRoot {
		d = append(d, "cross-state root differs")
	}
	return d
}

func TestC12(t *testing.T) {
	if os.Getenv("C12_MODE") != "" {
		t.Skip()
	}
	r := kit.Start(t, "C12", "fault_enumeration")
	defer r.Finish()
	r.Rule("grid {4 submitBlock persistence points} x {every block height of the script} x {no second crash, second crash at each of the 3 points inside recoverStore}; each case = real SIGKILL of a child process at the hook, then reopen / continue / reopen in further child processes, compared with a crash-free reference run; distinct = (script, site, height, second site)")
	r.Assume("crash model = process kill: completed LevelDB batch commits and file writes survive, in-flight state is lost (no torn writes, no fsync loss)")
	r.Assume("contract state is observed over the scripted contract's key universe (12 keys incl. two read-modify-write counters); roots are read through the ledger's exported API")
	base := pk.TempDir("c12")
	defer os.RemoveAll(base)

	nScripts := r.N(1, 6)
	nBlocks := uint32(r.N(6, 14))
	type job struct{ c crashCase }
	var jobs []crashCase
	refs := map[int]map[uint32]*obs{}
	for s := 0; s < nScripts; s++ {
		script := int(r.Seed)*100 + s
		dir := filepath.Join(base, fmt.Sprintf("ref-%d", s))
		res := runChild(t, dir, r.Seed, script, nBlocks, "", "ref")
		if res.Out == nil || res.Out.OpenErr != "" || res.Out.AddErr != "" || res.Out.Final.Height != nBlocks {
			r.Inconclusive(fmt.Sprintf("reference run of script %d failed: %+v %s", script, res.Out, tail(res.Raw)))
			return
		}
		refs[script] = res.Out.PerHeight
		// genesis observation is needed for crashes while persisting block 1
		gres := runChild(t, filepath.Join(base, fmt.Sprintf("gen-%d", s)), r.Seed, script, 0, "", "gen")
		if gres.Out == nil || gres.Out.Final == nil {
			r.Inconclusive("genesis reference failed")
			return
		}
		refs[script][0] = gres.Out.Final
		os.RemoveAll(dir)
		os.RemoveAll(filepath.Join(base, fmt.Sprintf("gen-%d", s)))
		// counters must actually move, otherwise double application would be invisible
		if refs[script][nBlocks].Counter == "" {
			r.Inconclusive("reference counter never written")
			return
		}
		for h := uint32(1); h <= nBlocks; h++ {
			if o := refs[script][h]; o != nil && o.CrossRoot != "" && strings.Trim(o.CrossRoot, "0") != "" && !strings.HasPrefix(o.CrossRoot, "ERR") {
				r.Count("reference_heights_with_cross_chain_leaves", 1)
			}
			for _, site := range submitSites {
				jobs = append(jobs, crashCase{Script: script, Site: site, Height: h, NBlocks: nBlocks})
				if r.Quick() && h%2 == 0 && s == 0 {
					// quick tier: second crashes on every other height
					continue
				}
				for _, rs := range recoverSites {
					jobs = append(jobs, crashCase{Script: script, Site: site, Height: h, Second: rs, NBlocks: nBlocks})
				}
			}
		}
		r.Sample(map[string]interface{}{"script": script, "reference_tip": refs[script][nBlocks]})
	}
	r.Exhaustive(true)
	r.Set("grid", map[string]interface{}{"scripts": nScripts, "blocks_per_script": nBlocks, "submit_sites": submitSites, "recover_sites": recoverSites, "cases": len(jobs)})

	var wg sync.WaitGroup
	ch := make(chan crashCase)
	workers := 12
	for w := 0; w < workers; w++ {
		wg.Add(1)
		go func(w int) {
			defer wg.Done()
			for c := range ch {
				runCase(t, r, base, refs[c.Script], c)
			}
		}(w)
	}
	for _, c := range jobs {
		ch <- c
	}
	close(ch)
	wg.Wait()
	for _, s := range submitSites {
		r.Require("crashed_at:"+s, 1)
	}
	r.Require("second_crash_hit", 1)
	r.Require("reference_heights_with_cross_chain_leaves", int(nBlocks)/2)
	r.Require("recovered_and_compared", len(jobs)/2)
}

func tail(s string) string {
	if len(s) > 1500 {
		return s[len(s)-1500:]
	}
	return s
}

func runCase(t *testing.T, r *kit.Run, base string, ref map[uint32]*obs, c crashCase) {
	dir := filepath.Join(base, fmt.Sprintf("case-%d-%s-%d-%s", c.Script, strings.Replace(c.Site, ":", "_", -1), c.Height, strings.Replace(c.Second, ":", "_", -1)))
	defer os.RemoveAll(dir)
	r.Eval(1)
	key := func(what string) string {
		k := fmt.Sprintf("crash@%s %s", c.Site, what)
		if c.Second != "" {
			k = fmt.Sprintf("crash@%s+%s %s", c.Site, c.Second, what)
		}
		return k
	}
	replay := func(extra interface{}) interface{} {
		return map[string]interface{}{"case": c, "detail": extra, "how": "child applies blockTxs(seed,script,h) for h=1..; SIGKILL at ledgerstore.VerifCrashHook(site,height); reopen with NewLedgerStore+InitLedgerStoreWithGenesisBlock"}
	}
	// 1. run until killed at (site, height)
	res := runChild(t, dir, r.Seed, c.Script, c.Height, fmt.Sprintf("%s@%d", c.Site, c.Height), "crash")
	if !res.Killed || res.Crashed == "" {
		r.Inconclusive(fmt.Sprintf("crash point %s@%d was not reached: %s", c.Site, c.Height, tail(res.Raw)))
		return
	}
	r.Count("crashed_at:"+c.Site, 1)
	// expected height right after recovery
	want := c.Height - 1
	if c.Site != "submit:before-block-commit" {
		want = c.Height
	}
	// 2. optional second crash inside recoverStore
	if c.Second != "" {
		res2 := runChild(t, dir, r.Seed, c.Script, 0, fmt.Sprintf("%s@%d", c.Second, c.Height), "crash2")
		if res2.Killed && res2.Crashed != "" {
			r.Count("second_crash_hit", 1)
			r.Distinct(c.Script, c.Site, c.Height, c.Second, "hit")
		} else {
			// recoverStore had nothing to redo (or did not reach this point): a plain reopen happened
			r.Count("second_crash_site_not_reached", 1)
			if res2.Out != nil && res2.Out.OpenErr != "" {
				r.Violation(key("reopen-fails"), fmt.Sprintf("reopen after crash failed: %s", res2.Out.OpenErr), replay(res2.Out))
				return
			}
		}
	}
	r.Distinct(c.Script, c.Site, c.Height, c.Second)
	// 3. reopen (recovery) and continue to the end of the script
	res3 := runChild(t, dir, r.Seed, c.Script, c.NBlocks, "", "cont")
	if res3.Out == nil {
		r.Violation(key("recovery-process-died"), "the recovering process died: "+tail(res3.Raw), replay(nil))
		return
	}
	if res3.Out.OpenErr != "" {
		r.Violation(key("reopen-fails"), "reopen after crash failed: "+res3.Out.OpenErr, replay(res3.Out))
		return
	}
	ao := res3.Out.AfterOpen
	if ao.Height != want {
		r.Violation(key("wrong-height-after-recovery"), fmt.Sprintf("block height after recovery %d, expected %d", ao.Height, want), replay(ao))
		return
	}
	if d := same(ao, ref[want]); len(d) > 0 {
		r.Violation(key("state-differs-after-recovery"), fmt.Sprintf("at height %d after recovery: %s", want, strings.Join(d, "; ")), replay(map[string]interface{}{"got": ao, "want": ref[want]}))
		return
	}
	if !ao.Containing {
		r.Violation(key("tip-block-unreadable"), "tip block not readable after recovery", replay(ao))
		return
	}
	if res3.Out.AddErr != "" {
		r.Violation(key("next-block-refused"), fmt.Sprintf("block %d refused after recovery: %s", res3.Out.AddErrAt, res3.Out.AddErr), replay(res3.Out))
		return
	}
	for h, o := range res3.Out.PerHeight {
		if d := same(o, ref[h]); len(d) > 0 {
			r.Violation(key("state-differs-after-continuing"), fmt.Sprintf("at height %d: %s", h, strings.Join(d, "; ")), replay(map[string]interface{}{"got": o, "want": ref[h]}))
			return
		}
	}
	// 4. final reopen
	res4 := runChild(t, dir, r.Seed, c.Script, 0, "", "final")
	if res4.Out == nil || res4.Out.OpenErr != "" {
		msg := tail(res4.Raw)
		if res4.Out != nil {
			msg = res4.Out.OpenErr
		}
		r.Violation(key("final-reopen-fails"), "final reopen failed: "+msg, replay(nil))
		return
	}
	if d := same(res4.Out.Final, ref[c.NBlocks]); len(d) > 0 {
		r.Violation(key("state-differs-after-final-reopen"), strings.Join(d, "; "), replay(map[string]interface{}{"got": res4.Out.Final, "want": ref[c.NBlocks]}))
		return
	}
	r.Count("recovered_and_compared", 1)
}
