// C33: once a pending request has been approved and applied it is no longer pending: no later
// approval round can apply it again without a fresh request.
//
// Observation: after the first application the scenarios make a re-application VISIBLE (the chain is
// re-registered by a fresh request, the relayer re-admitted, the validator has left the pool ...) and
// then run a complete second approval round for the OLD request without a new one. The reference
// model (verifharness/govmodel) knows the request was consumed and flags any effect.
package c33

import (
	"testing"

	"verifharness/govmodel"
	"verifharness/kit"
)

func TestC33(t *testing.T) {
	r := kit.Start(t, "C33", "exploration")
	defer r.Finish()
	r.Rule("(a) eight directed second-round scenarios and five RETURNING scenarios (the same validator key incl. a genesis validator / chain id / relayer / state validator goes through request-approval-removal twice, then a round of the second request without a fresh one) and four OVERLAPPING scenarios (two pending register / remove requests naming the same relayer or state validator: both approved, the subject removed / re-admitted by a regular request, then rounds of the old requests) (side-chain register/update/quit, relayer register/remove, NEO3 state-validator register/remove, " +
		"validator candidacy), each repeated over pool sizes 4..maxN with random approval orders and noise, each followed by random operations; " +
		"(b) random histories in which 35% of approval targets are requests that were already applied. Distinct = as in C32 (method, counts, pending/consumed state, caller class, verdict, effect)")
	cfg := govmodel.Config{Property: "C33", Histories: r.N(150, 8000), Ops: r.N(80, 110), MinN: 4, MaxN: r.N(10, 25),
		Wt:      govmodel.Weights{Node: 2, SideChain: 3, Relayer: 2, Neo3: 2, SecondRound: 35},
		Scripts: append(append(govmodel.SecondRoundScripts(), govmodel.ReturningScripts()...), govmodel.OverlappingScripts()...), ScriptReps: r.N(7, 132), RealSig: true}
	govmodel.Run(r, cfg)
	r.Require("approvals_of_applied_requests", r.N(1000, 10000))
	r.Require("scripted_histories", 17*r.N(7, 132))
	for _, k := range []string{govmodel.KApproveCandidate, govmodel.KApproveRegisterSC, govmodel.KApproveUpdateSC, govmodel.KApproveQuitSC,
		govmodel.KApproveRegRelayer, govmodel.KApproveRemRelayer, govmodel.KApproveRegSV, govmodel.KApproveRemSV} {
		r.Require("effect@"+k, r.N(7, 60))
	}
	r.Require("approvals_of_overlapping_requests_applied_earlier", r.N(100, 1500))
	r.Require("approvals_of_requests_whose_action_changes_nothing", r.N(50, 800))
	r.Require("approve_must_unobservable", r.N(25, 400))
	r.Require("approvals_in_returning_rounds", r.N(100, 1500))
	r.Assume("a request is identified by (approval method, id); 'applied' = the reference model saw its action take effect (or, when the action changed nothing visible, " +
		"every reading of C32 demanded the effect); a re-application that changes nothing visible is not judged")
	r.Assume("black/white-listing have no separate owner request (the approvers are the requesters) and are outside C33")
}
