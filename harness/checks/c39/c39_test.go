// C39: transaction signature validation is exact.
//
// The real validation.VerifyTransaction is driven with a matrix of signature-entry lists. Every
// signature in a case is produced by the harness and tagged with what it is (valid signature of
// listed key i over the tx hash / over another hash / by a foreign key / garbage / corrupted), so
// the oracle never calls a verifier: it decides from the tags, following the property statement.
package c39

import (
	"bytes"
	"crypto/ed25519"
	"crypto/elliptic"
	"crypto/sha256"
	"encoding/binary"
	"fmt"
	"math/big"
	"math/rand"
	"sort"
	"testing"

	"github.com/ontio/ontology-crypto/ec"
	"github.com/ontio/ontology-crypto/keypair"
	s "github.com/ontio/ontology-crypto/signature"
	"github.com/ontio/ontology-crypto/sm2"
	"golang.org/x/crypto/ripemd160"

	"github.com/polynetwork/poly/common"
	"github.com/polynetwork/poly/core/signature"
	"github.com/polynetwork/poly/core/types"
	"github.com/polynetwork/poly/core/validation"
	ontErrors "github.com/polynetwork/poly/errors"

	"verifharness/kit"
	"verifharness/kit/pk"
)

const (
	keyLimit   = 16 // "within the key limit"
	entryLimit = 16 // "the entry count is within limits"
)

// K is a key of any supported algorithm.
type K struct {
	id     int
	priv   keypair.PrivateKey
	pub    keypair.PublicKey
	scheme s.SignatureScheme
	algo   string
	ser    []byte // serialized public key (ontology-crypto, trusted)
	// sort attributes per the documented ordering of multi-sig programs
	ktype byte
	curve byte
	x, y  *big.Int
}

func (k *K) PrivKey() keypair.PrivateKey { return k.priv }
func (k *K) PubKey() keypair.PublicKey   { return k.pub }
func (k *K) Scheme() s.SignatureScheme   { return k.scheme }

func (k *K) sign(data []byte) []byte {
	sig, err := signature.Sign(k, data)
	if err != nil {
		panic(err)
	}
	return sig
}

func newECKey(rng *rand.Rand, curve elliptic.Curve, label byte, alg ec.ECAlgorithm, scheme s.SignatureScheme, name string) *K {
	size := (curve.Params().BitSize + 7) / 8
	d := make([]byte, size)
	for {
		rng.Read(d)
		d[0] &= 0x3f
		if new(big.Int).SetBytes(d).Sign() > 0 && new(big.Int).SetBytes(d).Cmp(curve.Params().N) < 0 {
			break
		}
	}
	priv := &ec.PrivateKey{Algorithm: alg, PrivateKey: ec.ConstructPrivateKey(d, curve)}
	pub := &ec.PublicKey{Algorithm: alg, PublicKey: &priv.PublicKey}
	kt := byte(keypair.PK_ECDSA)
	if alg == ec.SM2 {
		kt = byte(keypair.PK_SM2)
	}
	return &K{priv: priv, pub: pub, scheme: scheme, algo: name, ser: keypair.SerializePublicKey(pub), ktype: kt, curve: label, x: pub.X, y: pub.Y}
}

func newEdKey(rng *rand.Rand) *K {
	seed := make([]byte, 32)
	rng.Read(seed)
	priv := ed25519.NewKeyFromSeed(seed)
	pub := priv.Public().(ed25519.PublicKey)
	return &K{priv: priv, pub: pub, scheme: s.SHA512withEDDSA, algo: "ed25519", ser: keypair.SerializePublicKey(pub), ktype: byte(keypair.PK_EDDSA)}
}

func newKey(rng *rand.Rand, algo int) *K {
	switch algo {
	case 1:
		return newEdKey(rng)
	case 2:
		return newECKey(rng, elliptic.P384(), keypair.P384, ec.ECDSA, s.SHA384withECDSA, "p384")
	case 3:
		return newECKey(rng, sm2.SM2P256V1(), keypair.SM2P256V1, ec.SM2, s.SM3withSM2, "sm2")
	default:
		return newECKey(rng, elliptic.P256(), keypair.P256, ec.ECDSA, s.SHA256withECDSA, "p256")
	}
}

// keyLess is the documented ordering of keys inside a multi-signature program: by key type, then
// curve label, then x, then y; EdDSA keys by their bytes.
func keyLess(a, b *K) bool {
	if a.ktype != b.ktype {
		return a.ktype < b.ktype
	}
	if a.x == nil {
		return bytes.Compare(a.ser, b.ser) < 0
	}
	if a.curve != b.curve {
		return a.curve < b.curve
	}
	if c := a.x.Cmp(b.x); c != 0 {
		return c < 0
	}
	return a.y.Cmp(b.y) < 0
}

func hash160(b []byte) common.Address {
	h := sha256.Sum256(b)
	md := ripemd160.New()
	md.Write(h[:])
	var a common.Address
	copy(a[:], md.Sum(nil))
	return a
}

func varBytes(b []byte) []byte {
	if len(b) >= 0xfd {
		panic("unexpected key length")
	}
	return append([]byte{byte(len(b))}, b...)
}

// refAddress recomputes the address of an entry independently of poly: single key = hash160 of
// the serialized key; m-of-n = hash160 of the program (n, sorted keys, m).
func refAddress(keys []*K, m int) common.Address {
	if len(keys) == 1 {
		return hash160(keys[0].ser)
	}
	sorted := append([]*K{}, keys...)
	sort.SliceStable(sorted, func(i, j int) bool { return keyLess(sorted[i], sorted[j]) })
	var prog []byte
	u := make([]byte, 2)
	binary.LittleEndian.PutUint16(u, uint16(len(sorted)))
	prog = append(prog, u...)
	for _, k := range sorted {
		prog = append(prog, varBytes(k.ser)...)
	}
	binary.LittleEndian.PutUint16(u, uint16(m))
	prog = append(prog, u...)
	return hash160(prog)
}

// ---- case model ----------------------------------------------------------------------------

type sigSpec struct {
	kind string // valid | wronghash | foreign | garbage | corrupt | emptybytes
	key  int    // index into the entry's key list for valid (who signed)
	data []byte
}

type entry struct {
	keys  []*K
	m     int
	sigs  []sigSpec
	shape string
}

type verdict int

const (
	mustFail verdict = iota
	mustPass
	unjudged
)

// entryVerdict is the oracle for one entry, from the property statement. A case is judged only
// where the strict reading (every supplied signature is a valid signature of a distinct listed
// position and there are at least m) and the weak reading (some m supplied signatures are valid for
// m distinct listed positions) agree.
func entryVerdict(e *entry) (verdict, string) {
	n := len(e.keys)
	if n == 0 {
		return mustFail, "no key"
	}
	if n > keyLimit {
		return mustFail, "n over key limit"
	}
	// per listed key (by identity): multiplicity in the list, number of supplied valid signatures
	mult := map[int]int{}
	for _, k := range e.keys {
		mult[k.id]++
	}
	have := map[int]int{}
	allValid := true
	for _, sg := range e.sigs {
		if sg.kind == "valid" {
			have[e.keys[sg.key].id]++
		} else {
			allValid = false
		}
	}
	matchable := 0
	injective := true
	for id, h := range have {
		c := mult[id]
		if h > c {
			injective = false
			matchable += c
		} else {
			matchable += h
		}
	}
	if n == 1 {
		// single-key entry; only m == 1 is unambiguous
		if e.m != 1 {
			return unjudged, "single key with m != 1"
		}
		if matchable < 1 {
			return mustFail, "no valid signature of the key"
		}
		if allValid && injective {
			return mustPass, ""
		}
		return unjudged, "single key with surplus signatures"
	}
	if e.m < 1 || e.m > n {
		return mustFail, "m out of 1..n"
	}
	if matchable < e.m {
		return mustFail, "fewer than m valid signatures from distinct listed keys"
	}
	if allValid && injective && len(e.sigs) >= e.m {
		return mustPass, ""
	}
	return unjudged, "m valid signatures present together with surplus/invalid ones"
}

type txCase struct {
	entries []*entry
	shape   string
}

func txVerdict(c *txCase) (verdict, string) {
	if len(c.entries) > entryLimit {
		return mustFail, "entry count over limit"
	}
	if len(c.entries) == 0 {
		return unjudged, "no entries"
	}
	un := ""
	for i, e := range c.entries {
		v, why := entryVerdict(e)
		if v == mustFail {
			return mustFail, fmt.Sprintf("entry %d: %s", i, why)
		}
		if v == unjudged {
			un = fmt.Sprintf("entry %d: %s", i, why)
		}
	}
	if un != "" {
		return unjudged, un
	}
	return mustPass, ""
}

// ---- generators ----------------------------------------------------------------------------

type gen struct {
	rng     *rand.Rand
	pool    []*K // keys of all algorithms
	p256    []*K
	foreign []*K
	hash    common.Uint256
	other   common.Uint256
}

func (g *gen) pick(n int, mixed bool) []*K {
	src := g.p256
	if mixed {
		src = g.pool
	}
	idx := g.rng.Perm(len(src))[:n]
	out := make([]*K, n)
	for i, j := range idx {
		out[i] = src[j]
	}
	return out
}

func (g *gen) validSig(e *entry, i int) sigSpec {
	return sigSpec{kind: "valid", key: i, data: e.keys[i].sign(g.hash[:])}
}

func (g *gen) badSig(e *entry, kind string) sigSpec {
	i := 0
	if len(e.keys) > 0 {
		i = g.rng.Intn(len(e.keys))
	}
	switch kind {
	case "wronghash":
		return sigSpec{kind: kind, key: i, data: e.keys[i].sign(g.other[:])}
	case "foreign":
		f := g.foreign[g.rng.Intn(len(g.foreign))]
		return sigSpec{kind: kind, data: f.sign(g.hash[:])}
	case "corrupt":
		d := e.keys[i].sign(g.hash[:])
		// flip a bit inside the signature value (not the leading scheme byte)
		p := 1 + g.rng.Intn(len(d)-1)
		d[p] ^= 1 << uint(g.rng.Intn(8))
		return sigSpec{kind: kind, key: i, data: d}
	case "emptybytes":
		return sigSpec{kind: kind, data: []byte{}}
	default:
		d := make([]byte, 1+g.rng.Intn(70))
		g.rng.Read(d)
		return sigSpec{kind: "garbage", data: d}
	}
}

var badKinds = []string{"wronghash", "foreign", "corrupt", "emptybytes", "garbage"}

// multi builds an m-of-n entry of the given signature-set shape.
func (g *gen) multi(n, m int, shape string, mixed bool) *entry {
	e := &entry{m: m, shape: shape}
	if shape == "dup-listed" && n >= 2 {
		ks := g.pick(n-1, mixed)
		e.keys = append([]*K{ks[0]}, ks...) // ks[0] listed twice (positions 0 and 1)
	} else {
		e.keys = g.pick(n, mixed)
	}
	want := m
	if want < 0 {
		want = 0
	}
	if want > n {
		want = n
	}
	order := g.rng.Perm(n)
	switch shape {
	case "exact":
		for _, i := range order[:want] {
			e.sigs = append(e.sigs, g.validSig(e, i))
		}
	case "fewer":
		for _, i := range order[:maxi(want-1, 0)] {
			e.sigs = append(e.sigs, g.validSig(e, i))
		}
	case "fewer-padded":
		for _, i := range order[:maxi(want-1, 0)] {
			e.sigs = append(e.sigs, g.validSig(e, i))
		}
		bad := g.badSig(e, badKinds[g.rng.Intn(len(badKinds))])
		p := g.rng.Intn(len(e.sigs) + 1)
		e.sigs = append(e.sigs[:p], append([]sigSpec{bad}, e.sigs[p:]...)...)
	case "repeated":
		one := g.validSig(e, order[0])
		for i := 0; i < maxi(want, 1); i++ {
			e.sigs = append(e.sigs, sigSpec{kind: "valid", key: one.key, data: append([]byte{}, one.data...)})
		}
	case "same-key-twice":
		// two different signatures by one listed key + m-2 by others: only m-1 distinct keys
		e.sigs = append(e.sigs, g.validSig(e, order[0]), g.validSig(e, order[0]))
		for _, i := range order[1:maxi(want-1, 1)] {
			e.sigs = append(e.sigs, g.validSig(e, i))
		}
		g.rng.Shuffle(len(e.sigs), func(i, j int) { e.sigs[i], e.sigs[j] = e.sigs[j], e.sigs[i] })
	case "all-n":
		for _, i := range order {
			e.sigs = append(e.sigs, g.validSig(e, i))
		}
	case "extra-junk-after":
		for _, i := range order[:want] {
			e.sigs = append(e.sigs, g.validSig(e, i))
		}
		e.sigs = append(e.sigs, g.badSig(e, "garbage"))
	case "junk-first":
		e.sigs = append(e.sigs, g.badSig(e, "foreign"))
		for _, i := range order[:want] {
			e.sigs = append(e.sigs, g.validSig(e, i))
		}
	case "dup-listed":
		// positions 0 and 1 hold the same key: it signs twice, the rest is filled from others
		e.sigs = append(e.sigs, g.validSig(e, 0), g.validSig(e, 1))
		for i := 2; i < n && len(e.sigs) < want; i++ {
			e.sigs = append(e.sigs, g.validSig(e, i))
		}
		g.rng.Shuffle(len(e.sigs), func(i, j int) { e.sigs[i], e.sigs[j] = e.sigs[j], e.sigs[i] })
	case "none":
	}
	return e
}

func maxi(a, b int) int {
	if a > b {
		return a
	}
	return b
}

func (g *gen) single(kind string, mixed bool) *entry {
	e := &entry{m: 1, keys: g.pick(1, mixed), shape: "single-" + kind}
	switch kind {
	case "valid":
		e.sigs = []sigSpec{g.validSig(e, 0)}
	case "nosig":
	default:
		e.sigs = []sigSpec{g.badSig(e, kind)}
	}
	return e
}

func (g *gen) goodEntry(mixed bool) *entry {
	if g.rng.Intn(2) == 0 {
		return g.single("valid", mixed)
	}
	n := 2 + g.rng.Intn(4)
	m := 1 + g.rng.Intn(n)
	sh := []string{"exact", "all-n"}[g.rng.Intn(2)]
	return g.multi(n, m, sh, mixed)
}

func (g *gen) badEntry(mixed bool) *entry {
	switch g.rng.Intn(6) {
	case 0:
		return g.single(badKinds[g.rng.Intn(len(badKinds))], mixed)
	case 1:
		n := 2 + g.rng.Intn(4)
		return g.multi(n, 1+g.rng.Intn(n), "fewer-padded", mixed)
	case 2:
		n := 2 + g.rng.Intn(4)
		return g.multi(n, 2+g.rng.Intn(n-1), "repeated", mixed)
	case 3:
		n := 2 + g.rng.Intn(4)
		return g.multi(n, 0, "all-n", mixed)
	case 4:
		n := 2 + g.rng.Intn(4)
		return g.multi(n, n+1, "all-n", mixed)
	default:
		n := 2 + g.rng.Intn(4)
		return g.multi(n, 1+g.rng.Intn(n), "fewer", mixed)
	}
}

// ---- execution -----------------------------------------------------------------------------

func toSigs(c *txCase) []types.Sig {
	out := make([]types.Sig, len(c.entries))
	for i, e := range c.entries {
		sg := types.Sig{M: uint16(e.m)}
		for _, k := range e.keys {
			sg.PubKeys = append(sg.PubKeys, k.pub)
		}
		for _, x := range e.sigs {
			sg.SigData = append(sg.SigData, append([]byte{}, x.data...))
		}
		out[i] = sg
	}
	return out
}

func describe(c *txCase) map[string]interface{} {
	var es []interface{}
	for _, e := range c.entries {
		var ks []string
		for _, k := range e.keys {
			ks = append(ks, kit.Hex(k.ser))
		}
		var ss []interface{}
		for _, x := range e.sigs {
			ss = append(ss, map[string]interface{}{"kind": x.kind, "by_listed_position": x.key, "sig": kit.Hex(x.data)})
		}
		es = append(es, map[string]interface{}{"shape": e.shape, "m": e.m, "n": len(e.keys), "pubkeys": ks, "sigs": ss})
	}
	return map[string]interface{}{"shape": c.shape, "entries": es}
}

func fingerprint(c *txCase) string {
	var b bytes.Buffer
	fmt.Fprintf(&b, "%s|%d|", c.shape, len(c.entries))
	for _, e := range c.entries {
		fmt.Fprintf(&b, "(%s n=%d m=%d:", e.shape, len(e.keys), e.m)
		for _, k := range e.keys {
			b.WriteString(k.algo[:2])
		}
		b.WriteString(":")
		for _, x := range e.sigs {
			fmt.Fprintf(&b, "%s%d,", x.kind[:2], x.key)
		}
		b.WriteString(")")
	}
	return b.String()
}

func TestC39(t *testing.T) {
	r := kit.Start(t, "C39", "exploration")
	defer r.Finish()
	r.Rule("signature-entry lists built from tagged signatures: single-key {valid, other hash, foreign key, corrupted, empty, garbage, none}; m-of-n with n ∈ {2,3,5,15,16,17}+random, m ∈ {0,1,mid,n,n+1,65535} × " +
		"{exactly m distinct signers in any order, m-1, m-1 plus an invalid one, one signature repeated m times, one key signing twice, all n, surplus junk, duplicate listed key}; " +
		"transactions with 1..18 entries, all valid or exactly one invalid at a random position, keys of 4 algorithms; every judged case is validated on a fresh object and again on an object whose GetSignatureAddresses() was called first (the tx pool order); distinct = (shape, per entry n, m, key algorithms, signature tags in order)")
	r.Assume("'m distinct listed keys' is read per list position: a key listed twice counts as two positions (DESIGN §8); the address commits to the duplicated list")
	r.Assume("cases where the strict and the weak reading of an entry differ (surplus or invalid signatures next to m valid ones, single key with m != 1, zero entries) are executed and counted but not judged")
	r.Assume("SignedAddr is compared as a set (duplicate entries collapse)")
	r.Assume("ontology-crypto (key serialization, signing) and SHA-256/RIPEMD-160 are trusted; signature forgery is negligible")
	r.Assume("key ordering inside the m-of-n program follows the documented rule of the key library (key type, curve label, x, y / bytes), re-implemented here")

	rng := r.Rand("keys")
	g := &gen{rng: r.Rand("cases")}
	for i := 0; i < 40; i++ {
		k := newKey(rng, 0)
		g.p256 = append(g.p256, k)
		g.pool = append(g.pool, k)
	}
	for i := 0; i < 24; i++ {
		g.pool = append(g.pool, newKey(rng, 1+i%3))
	}
	for i := 0; i < 6; i++ {
		g.foreign = append(g.foreign, newKey(rng, i%4))
	}
	for i, k := range g.pool {
		k.id = i
	}
	for i, k := range g.foreign {
		k.id = 1000 + i
	}
	// sanity of the trusted base, so that "valid" tags mean something
	for _, k := range append(append([]*K{}, g.pool...), g.foreign...) {
		msg := []byte("c39-selfcheck")
		if err := signature.Verify(k.pub, msg, k.sign(msg)); err != nil {
			r.Inconclusive("harness key cannot verify its own signature: " + k.algo)
			return
		}
	}

	// the unsigned transaction whose hash is signed
	code := make([]byte, 40)
	rng.Read(code)
	base := pk.MakeTx(0, rng.Uint32(), code)
	g.hash = base.Hash()
	g.other = sha256.Sum256(g.hash[:])
	baseRaw := base.ToArray()

	var cases []*txCase
	add := func(shape string, es ...*entry) { cases = append(cases, &txCase{entries: es, shape: shape}) }

	// A. single-key entries
	for rep := 0; rep < r.N(30, 400); rep++ {
		for _, kind := range append([]string{"valid", "nosig"}, badKinds...) {
			add("one-single", g.single(kind, rep%2 == 1))
		}
		// single key, ambiguous M values / surplus signatures (observed only)
		e := g.single("valid", false)
		e.m = []int{0, 2, 65535}[rep%3]
		add("one-single-odd-m", e)
		e = g.single("valid", false)
		e.sigs = append(e.sigs, g.badSig(e, "garbage"))
		add("one-single-surplus", e)
	}
	// B. one multi entry: n × m × shape
	shapes := []string{"exact", "fewer", "fewer-padded", "repeated", "same-key-twice", "all-n", "extra-junk-after", "junk-first", "dup-listed", "none"}
	ns := []int{2, 3, 5, 15, 16, 17}
	reps := r.N(6, 100)
	for rep := 0; rep < reps; rep++ {
		nsx := append([]int{}, ns...)
		nsx = append(nsx, 4+g.rng.Intn(10))
		for _, n := range nsx {
			ms := []int{0, 1, n, n + 1, (n + 1) / 2}
			if rep%4 == 0 {
				ms = append(ms, 65535, n-1)
			}
			for _, m := range ms {
				for _, sh := range shapes {
					if (n >= 15 && rep > 2 && g.rng.Intn(3) != 0) || (n == 17 && g.rng.Intn(2) == 0 && rep > 0) {
						continue // keep the expensive 15..17-key entries bounded
					}
					add("one-multi", g.multi(n, m, sh, rep%2 == 1 && n <= 16))
				}
			}
		}
	}
	// C. several entries
	for rep := 0; rep < r.N(250, 5000); rep++ {
		cnts := []int{1, 2, 3, 15, 16, 17, 18}
		cnt := cnts[rep%len(cnts)]
		mixed := rep%3 == 0
		var es []*entry
		for i := 0; i < cnt; i++ {
			es = append(es, g.goodEntry(mixed))
		}
		add("all-valid", es...)
		es2 := make([]*entry, 0, cnt)
		for i := 0; i < cnt; i++ {
			es2 = append(es2, g.goodEntry(mixed))
		}
		es2[g.rng.Intn(cnt)] = g.badEntry(mixed)
		add("one-invalid", es2...)
		if rep%5 == 0 {
			// the same entry twice (same address twice)
			e := g.goodEntry(mixed)
			add("same-entry-twice", e, e, g.goodEntry(mixed))
		}
	}
	add("zero-entries")
	// limit cases spelled out: 16 and 17 single-key entries, 16-of-16 and 17 listed keys
	{
		var es []*entry
		for i := 0; i < 17; i++ {
			es = append(es, g.single("valid", false))
		}
		add("16-singles", es[:16]...)
		add("17-singles", es...)
		add("16-of-16", g.multi(16, 16, "exact", false))
		add("1-of-16", g.multi(16, 1, "exact", false))
		add("17-keys-all-sign", g.multi(17, 17, "all-n", false))
		add("1-of-17", g.multi(17, 1, "exact", false))
	}

	for ci, c := range cases {
		want, why := txVerdict(c)
		tx, err := types.TransactionFromRawBytes(append([]byte{}, baseRaw...))
		if err != nil {
			r.Inconclusive("cannot rebuild base tx: " + err.Error())
			return
		}
		tx.Sigs = toSigs(c)
		var code ontErrors.ErrCode
		if p := kit.Catch(func() { code = validation.VerifyTransaction(tx) }); p != nil {
			r.Violation("validator-panic:"+c.shape, fmt.Sprintf("%v", p), describe(c))
			continue
		}
		passed := code == ontErrors.ErrNoError
		r.Eval(1)
		r.Distinct(fingerprint(c))
		if ci%97 == 0 {
			r.Sample(map[string]interface{}{"fingerprint": fingerprint(c), "oracle": []string{"must-fail", "must-pass", "unjudged"}[want], "node_passed": passed})
		}
		switch want {
		case unjudged:
			r.Count("unjudged_cases", 1)
			if passed {
				r.Count("unjudged_passed", 1)
			} else {
				r.Count("unjudged_rejected", 1)
			}
			continue
		case mustFail:
			if passed {
				es := ""
				for _, e := range c.entries {
					if v, _ := entryVerdict(e); v == mustFail {
						es = e.shape
					}
				}
				if len(c.entries) > entryLimit {
					es = "entry-count-over-limit"
				}
				r.Violation("invalid-accepted:"+es, fmt.Sprintf("%s: %s — node accepted", c.shape, why), describe(c))
				continue
			}
			r.Count("invalid_rejected", 1)
			r.Count("rejected:"+c.shape, 1)
		case mustPass:
			if !passed {
				r.Violation("valid-rejected:"+c.shape+":"+c.entries[0].shape, fmt.Sprintf("%s: every entry fully valid, node returned %v", c.shape, code), describe(c))
				continue
			}
			r.Count("valid_accepted", 1)
			r.Count("accepted:"+c.shape, 1)
			// attributed signers == addresses of the entries (as a set)
			want := map[common.Address]bool{}
			for _, e := range c.entries {
				want[refAddress(e.keys, e.m)] = true
			}
			got := map[common.Address]bool{}
			for _, a := range tx.SignedAddr {
				got[a] = true
			}
			same := len(want) == len(got)
			for a := range want {
				if !got[a] {
					same = false
				}
			}
			if !same {
				r.Violation("signed-addr-differs:"+c.shape, fmt.Sprintf("attributed %d address(es), entries have %d", len(got), len(want)), describe(c))
				continue
			}
			r.Count("signed_addr_matches", 1)
			ga, err := tx.GetSignatureAddresses()
			if err != nil || len(ga) != len(tx.SignedAddr) {
				r.Violation("get-signature-addresses-differs", fmt.Sprintf("err=%v", err), describe(c))
			}
		}
		// the order the node uses for transactions from the network: the tx pool actor first asks
		// the transaction for its signature addresses (Transaction.GetSignatureAddresses fills the
		// attribution from the CLAIMED keys), then hands the same object to the stateless validator.
		{
			txa, _ := types.TransactionFromRawBytes(append([]byte{}, baseRaw...))
			txa.Sigs = toSigs(c)
			var codeA ontErrors.ErrCode
			if p := kit.Catch(func() {
				txa.GetSignatureAddresses()
				codeA = validation.VerifyTransaction(txa)
			}); p != nil {
				r.Violation("validator-panic-after-address-query:"+c.shape, fmt.Sprintf("%v", p), describe(c))
				continue
			}
			passedA := codeA == ontErrors.ErrNoError
			r.Eval(1)
			if want == mustFail && passedA {
				r.Violation("invalid-accepted-after-address-query:"+c.shape, fmt.Sprintf("%s: %s — GetSignatureAddresses() followed by VerifyTransaction on the same transaction accepted it", c.shape, why), describe(c))
				continue
			}
			if want == mustPass && !passedA {
				r.Violation("valid-rejected-after-address-query:"+c.shape, fmt.Sprintf("returned %v", codeA), describe(c))
				continue
			}
			if want == mustFail {
				r.Count("preattributed_invalid_rejected", 1)
			} else {
				wantA := map[common.Address]bool{}
				for _, e := range c.entries {
					wantA[refAddress(e.keys, e.m)] = true
				}
				gotA := map[common.Address]bool{}
				for _, a := range txa.SignedAddr {
					gotA[a] = true
				}
				sameA := len(wantA) == len(gotA)
				for a := range wantA {
					if !gotA[a] {
						sameA = false
					}
				}
				if !sameA {
					r.Violation("signed-addr-differs-after-address-query:"+c.shape, fmt.Sprintf("attributed %d address(es), entries have %d", len(gotA), len(wantA)), describe(c))
					continue
				}
				r.Count("preattributed_valid_accepted", 1)
			}
			r.Distinct("after-address-query", fingerprint(c))
		}
		// wire path for a third of the judged cases: the same entries after encode/decode
		if ci%3 == 0 && serializable(c) {
			tx2, _ := types.TransactionFromRawBytes(append([]byte{}, baseRaw...))
			tx2.Sigs = toSigs(c)
			sink := common.NewZeroCopySink(nil)
			if err := tx2.Serialization(sink); err != nil {
				continue
			}
			tx3, err := types.TransactionFromRawBytes(sink.Bytes())
			if err != nil {
				r.Count("wire_decode_refused", 1)
				if want == mustPass {
					r.Violation("valid-tx-undecodable", err.Error(), describe(c))
				}
				continue
			}
			p2 := validation.VerifyTransaction(tx3) == ontErrors.ErrNoError
			r.Eval(1)
			if p2 != passed {
				r.Violation("wire-verdict-differs:"+c.shape, fmt.Sprintf("in-memory passed=%v, after encode/decode passed=%v", passed, p2), describe(c))
			} else {
				r.Count("wire_same_verdict", 1)
			}
		}
	}
	r.Set("cases", len(cases))
	r.Require("preattributed_invalid_rejected", len(cases)/4)
	r.Require("preattributed_valid_accepted", len(cases)/20)
	r.Require("valid_accepted", len(cases)/20)
	r.Require("invalid_rejected", len(cases)/4)
	r.Require("signed_addr_matches", len(cases)/20)
	r.Require("rejected:17-singles", 1)
	r.Require("accepted:16-singles", 1)
	r.Require("accepted:16-of-16", 1)
	r.Require("rejected:17-keys-all-sign", 1)
	r.Require("rejected:1-of-17", 1)
	r.Require("wire_same_verdict", 10)
}

func serializable(c *txCase) bool {
	for _, e := range c.entries {
		if len(e.keys) == 0 {
			return false
		}
	}
	return true
}
