#!/usr/bin/env python3
"""keep_strengthened.py <seedout-dir> <reason> [<seedout-dir> <reason> ...] — re-confirm + re-try the given
seeds (process_seeds --keep --strengthened) and record why the first version of the check missed them."""
import json, os, subprocess, sys, shutil, tempfile
V = os.path.dirname(os.path.dirname(os.path.abspath(__file__)))
pairs = list(zip(sys.argv[1::2], sys.argv[2::2]))
before = set(os.listdir(os.path.join(V, "seeded")))
for d, reason in pairs:
    top = tempfile.mkdtemp(prefix="sel-", dir="/var/tmp")
    lr = os.path.join(d, "lead_result.txt")
    if os.path.exists(lr): os.remove(lr)
    os.symlink(d, os.path.join(top, os.path.basename(d)))
    out = subprocess.run([sys.executable, os.path.join(V, "lib", "process_seeds.py"), "--keep", "--strengthened", top], stdout=subprocess.PIPE, stderr=subprocess.STDOUT).stdout.decode()
    print(out.strip()[:160], flush=True)
    shutil.rmtree(top)
    now = set(os.listdir(os.path.join(V, "seeded")))
    for n in sorted(now - before):
        p = os.path.join(V, "seeded", n, "meta.json"); m = json.load(open(p))
        m["checks_run"]["caught"] = "strengthened (" + reason + ")"; json.dump(m, open(p, "w"), indent=1)
        print("kept as", n, flush=True)
    before = now
