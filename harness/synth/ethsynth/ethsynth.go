// Package ethsynth produces honest synthetic data for the Ethereum-family light clients and deposit
// proofs of polynetwork/poly, plus the plumbing to feed it through the REAL native contracts.
// It never copies poly logic: rules are transcribed from the public specifications
// (EIP-100/649/1234/2384/3554/4345, EIP-1559, yellow-paper RLP, Parlia / Congress / Clique rules).
// Used by checks C23, C27, C28, C29; meant to be reused by the replay/registry checks (C20-C22).
//
// API summary (import path verifharness/synth/ethsynth)
//
//	env.go      Env = nat.Env + governance validators (creating one costs ~0.1 s: host many side chains in one).
//	            NewEnv(rng, netID) *Env; (*Env).Use() re-selects the Env's network id in poly's global config
//	            (*Env).RegisterSideChain(chainID, router, name, blocksToWait, ccmc, extraInfo) error
//	                     registerSideChain + approveRegisterSideChain by the validators (real side_chain_manager)
//	            (*Env).SyncGenesis(chainID, genesisBytes) *nat.CallRecord      header_sync.syncGenesisHeader, operator-signed
//	            (*Env).SyncHeaders(chainID, headers...) *nat.CallRecord        header_sync.syncBlockHeader (one tx)
//	            (*Env).Import(chainID, height, proof, extra) *nat.CallRecord   cross_chain_manager.ImportOuterTransfer
//	            (*Env).ImportWith(..., headerOrCrossChainMsg)                  same with the extra payload
//	            (*Env).Stored(chainID) map[Hash]*StoredHeader   every HEADER_INDEX entry (raw storage, decoded; eth + PoSA routers)
//	            (*Env).Canon(chainID) (head, index map[height]Hash, ok)       CURRENT_HEADER_HEIGHT / MAIN_CHAIN
//	            (*Env).HSDigest() / HSDigestChain(chainID)                    digests of header-sync storage
//	            CheckChainInvariants(stored, head, index, rootHash) []string  structural invariants of C27 / C29
//
//	spec.go     independent transcriptions: SpecDifficulty(delay, time, parentTime, parentDiff, parentNumber, uncles),
//	            Forks{London, ArrowGlacier} / MainnetForks / RopstenForks / ForksFor(netID), (Forks).Delay(number),
//	            SpecBaseFee, SpecGasLimitOK, RLP encoder (RlpBytes, RlpUint, RlpBig, RlpList), Keccak.
//
//	ethchain.go Hdr = library-independent header (RLP, Hash, PoWSealHash, JSON, ToPoly, ToGeth, Copy);
//	            NewRoot(rng, forks, number, difficulty, gasLimit) trust root; Child(rng, forks, parent, ChildOpt) conforming
//	            child for the eth router (use with eth.VerifSealBypass = true); Violations(forks, parent, child) spec oracle.
//
//	posa.go     Flavor table: Bsc, Bytom (Parlia), Heco, Hsc, Pixie (Congress), Msc (Clique, fixed signer set);
//	            Validator keys (secp256k1), (*Flavor).SealHash / Seal / Sealer / GenesisJSON / ExtraInfoJSON[Epoch];
//	            PoSAModel: InEffect(parent), RecentlySealed, Judge(parent, header) (reasons from property C29, and chain
//	            rules outside it), Add, Honest(rng, parent, keys, HonestOpt); PoSAChain: NewPoSAChain(rng, flavor,
//	            sealChainID, v0, v1, maxV, aroundHeight) (simulator + genesis document), Next(rng, parent, HonestOpt), NextSet.
//
//	state.go    account + storage tries with go-ethereum v1.9.15 trie: NewState(rng, contract, nOthers), Clone,
//	            Commit(contract, slot, message) (stores keccak256(message)), Root(), Prove(addr, slot) *Proof (JSON shape
//	            of eth_getProof = poly's ETHProof and its bsc/heco/... copies; absence proofs for missing accounts/slots),
//	            TxParam / RandTxParam / Serialize (poly's MakeTxParam wire format).
//
// Typical use (deposit on a BSC-like chain):
//
//	e := ethsynth.NewEnv(rng, 3)
//	c, genesis := ethsynth.NewPoSAChain(rng, ethsynth.Bsc, 56, 3, 3, 3, 6000000)
//	e.RegisterSideChain(id, ethsynth.Bsc.Router, "bsc", 1, ccmc[:], ethsynth.Bsc.ExtraInfoJSONEpoch(56, c.Epoch))
//	e.SyncGenesis(id, genesis)
//	st := ethsynth.NewState(rng, ccmc, 8); msg := ethsynth.RandTxParam(rng, toChain).Serialize(); st.Commit(ccmc, slot, msg)
//	root := st.Root(); h := c.Next(rng, c.M.Root, ethsynth.HonestOpt{Root: &root}); e.SyncHeaders(id, h.JSON())
//	e.Import(id, uint32(h.Number), st.Prove(ccmc, slot).JSON(), msg)
package ethsynth
