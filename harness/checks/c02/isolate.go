package c02

import (
	"bufio"
	"bytes"
	"encoding/hex"
	"fmt"
	"os"
	"os/exec"
	"path/filepath"
	"regexp"
	"runtime/debug"
	"strconv"
	"strings"
	"sync/atomic"
)

// Case is one hostile input for a named decoder.
type Case struct {
	Kind  string // which decoder (key of the decoder table given to ChildMain)
	Label string // mutation class, e.g. "rewrite:tx.sig-count=2^32" (stable, no random bytes)
	Data  []byte
}

// Outcome of one isolated decode.
//   Status: "ok" (decoder returned a value), "err" (decoder returned an error), "panic" (a Go panic
//   was recovered inside the child), "fatal" (the child process died while decoding this input),
//   "skipped" (not executed: same label already killed the child MaxFatalPerLabel times).
//   Site:   for panic/fatal: innermost poly function on the stack + normalised reason, e.g.
//           "types.Transaction.Deserialization:makeslice-len-out-of-range" (stable: no addresses,
//           no line numbers, no input bytes).
type Outcome struct {
	Status string
	Site   string
	Detail string
}

// DecodeFunc runs one real decoder. It returns ok=true when the decoder accepted the input; note
// is free text for the evidence (e.g. an extra verdict computed inside the child).
type DecodeFunc func(data []byte) (ok bool, note string)

// MaxFatalPerLabel bounds child restarts caused by one mutation class.
const MaxFatalPerLabel = 3

// VLimitKB is the child's address-space limit (ulimit -v): an allocation request beyond it is a
// fatal "out of memory" exactly as on a machine with less than that much free memory.
const VLimitKB = 8000000

var isoSeq int32

// RunIsolated executes every case in a child process (re-exec of this test binary running
// childTest, which must call ChildMain) under ulimit -v, restarting after each process death.
func RunIsolated(childTest string, cases []Case) ([]Outcome, error) {
	self := os.Getenv("VERIF_SELF")
	if self == "" {
		var err error
		if self, err = os.Executable(); err != nil {
			return nil, err
		}
	}
	dir := os.Getenv("VERIF_TMP")
	if dir == "" {
		dir = os.TempDir()
	}
	n := atomic.AddInt32(&isoSeq, 1)
	in := filepath.Join(dir, fmt.Sprintf("iso-%d-%d.in", os.Getpid(), n))
	out := filepath.Join(dir, fmt.Sprintf("iso-%d-%d.out", os.Getpid(), n))
	defer os.Remove(in)
	defer os.Remove(out)

	res := make([]Outcome, len(cases))
	// the input file is written once; restarts tell the child where to resume and which labels to skip
	{
		f, err := os.Create(in)
		if err != nil {
			return nil, err
		}
		w := bufio.NewWriterSize(f, 1<<20)
		for i := range cases {
			fmt.Fprintf(w, "%d %s %s %s\n", i, cases[i].Kind, hex.EncodeToString([]byte(cases[i].Label)), hex.EncodeToString(cases[i].Data))
		}
		if err := w.Flush(); err != nil {
			f.Close()
			return nil, err
		}
		f.Close()
	}
	os.Remove(out)
	fatalByLabel := map[string]int{}
	var skipLabels []string
	from := 0
	for from < len(cases) {
		cmd := exec.Command("sh", "-c", fmt.Sprintf("ulimit -v %d; exec \"$0\" -test.run '^%s$' -test.count 1 -test.timeout 0", VLimitKB, childTest), self)
		skipHex := make([]string, len(skipLabels))
		for i, l := range skipLabels {
			skipHex[i] = hex.EncodeToString([]byte(l))
		}
		cmd.Env = append(os.Environ(), "C02_ISO_IN="+in, "C02_ISO_OUT="+out, fmt.Sprintf("C02_ISO_FROM=%d", from), "C02_ISO_SKIP="+strings.Join(skipHex, ","))
		var stderr bytes.Buffer
		cmd.Stdout = &stderr
		cmd.Stderr = &stderr
		runErr := cmd.Run()
		// the child appends "<idx>\t<status>\t<site>\t<detail>" per finished case ("skipped" for skipped labels)
		last := from - 1
		if f, err := os.Open(out); err == nil {
			sc := bufio.NewScanner(f)
			sc.Buffer(make([]byte, 1<<20), 1<<26)
			for sc.Scan() {
				parts := strings.SplitN(sc.Text(), "\t", 4)
				if len(parts) < 4 {
					continue // torn last line of a dying child
				}
				i, err := strconv.Atoi(parts[0])
				if err != nil || i < from || i >= len(cases) {
					continue
				}
				res[i] = Outcome{Status: parts[1], Site: parts[2], Detail: parts[3]}
				if i > last {
					last = i
				}
			}
			f.Close()
		}
		os.Remove(out)
		if last == len(cases)-1 {
			if runErr != nil {
				return res, fmt.Errorf("child finished all cases but exited with %v: %s", runErr, tail(stderr.String(), 2000))
			}
			break
		}
		killer := last + 1
		if runErr == nil {
			return res, fmt.Errorf("child exited 0 without processing case %d: %s", killer, tail(stderr.String(), 2000))
		}
		txt := stderr.String()
		reason, site := fatalSite(txt)
		if reason == "" {
			// no Go runtime report: cannot attribute the death to the decoder (e.g. the shell failed)
			return res, fmt.Errorf("child died (%v) without a Go fatal error / panic report: %s", runErr, tail(txt, 2000))
		}
		res[killer] = Outcome{Status: "fatal", Site: site + ":" + reason, Detail: fmt.Sprintf("child %v; %s", runErr, firstLines(txt, 6))}
		lab := cases[killer].Label
		fatalByLabel[lab]++
		if fatalByLabel[lab] == MaxFatalPerLabel && strings.Contains(lab, "rewrite:") {
			skipLabels = append(skipLabels, lab)
		}
		from = killer + 1
	}
	return res, nil
}

func tail(s string, n int) string {
	if len(s) > n {
		return s[len(s)-n:]
	}
	return s
}

func firstLines(s string, n int) string {
	ls := strings.Split(s, "\n")
	var keep []string
	for _, l := range ls {
		if strings.HasPrefix(l, "=== RUN") || strings.TrimSpace(l) == "" {
			continue
		}
		keep = append(keep, strings.TrimSpace(l))
		if len(keep) >= n {
			break
		}
	}
	return strings.Join(keep, " | ")
}

var frameRe = regexp.MustCompile(`(?m)^(github\.com/polynetwork/poly/[^\s(]+(?:\(\*?[A-Za-z0-9_]+\))?[^\s(]*)\(`)

// polySite returns the innermost poly function named in a Go stack trace, shortened to
// pkg.Type.Method.
func polySite(stack string) string {
	m := frameRe.FindStringSubmatch(stack)
	if m == nil {
		return "unknown-site"
	}
	fn := m[1]
	if i := strings.LastIndex(fn, "/"); i >= 0 {
		fn = fn[i+1:]
	}
	fn = strings.Replace(fn, "(*", "", -1)
	fn = strings.Replace(fn, ")", "", -1)
	fn = strings.Replace(fn, "(", "", -1)
	return fn
}

var nonWord = regexp.MustCompile(`[^a-z0-9]+`)

// reasonClass normalises a panic / fatal message to a stable slug (drops indices, sizes, addresses).
func reasonClass(msg string) string {
	msg = strings.ToLower(msg)
	msg = strings.TrimPrefix(msg, "runtime error: ")
	msg = strings.TrimPrefix(msg, "runtime: ")
	if i := strings.IndexAny(msg, "[0123456789"); i > 0 {
		msg = msg[:i]
	}
	msg = strings.Trim(nonWord.ReplaceAllString(msg, "-"), "-")
	if len(msg) > 48 {
		msg = msg[:48]
	}
	if msg == "" {
		msg = "panic"
	}
	return msg
}

func fatalSite(stderr string) (reason, site string) {
	for _, l := range strings.Split(stderr, "\n") {
		if strings.HasPrefix(l, "fatal error: ") {
			reason = reasonClass(strings.TrimPrefix(l, "fatal error: "))
			break
		}
		if strings.HasPrefix(l, "panic: ") {
			reason = reasonClass(strings.TrimPrefix(l, "panic: "))
			break
		}
		if strings.HasPrefix(l, "runtime: goroutine stack exceeds") {
			reason = "stack-overflow"
			break
		}
	}
	if reason == "" {
		return "", ""
	}
	return reason, polySite(stderr)
}

// CatchSite runs f; on panic it returns the panic value and the stable site string.
func CatchSite(f func()) (pan interface{}, site string) {
	defer func() {
		if e := recover(); e != nil {
			pan = e
			st := string(debug.Stack())
			// skip the frames of the recovery machinery: start after the runtime's panic frame
			if i := strings.LastIndex(st, "\npanic("); i >= 0 {
				st = st[i:]
			}
			site = polySite(st) + ":" + reasonClass(fmt.Sprint(e))
		}
	}()
	f()
	return nil, ""
}

// IsChild tells a helper test whether it was started by RunIsolated.
func IsChild() bool { return os.Getenv("C02_ISO_IN") != "" }

// ChildMain is the body of the helper test: decode every listed case with the real decoder,
// appending one line per finished case (unbuffered, so that a process death leaves all earlier
// verdicts on disk and the parent can name the killing input).
func ChildMain(decoders map[string]DecodeFunc) error {
	in, err := os.Open(os.Getenv("C02_ISO_IN"))
	if err != nil {
		return err
	}
	defer in.Close()
	out, err := os.OpenFile(os.Getenv("C02_ISO_OUT"), os.O_CREATE|os.O_WRONLY|os.O_APPEND, 0644)
	if err != nil {
		return err
	}
	defer out.Close()
	from, _ := strconv.Atoi(os.Getenv("C02_ISO_FROM"))
	skip := map[string]bool{}
	for _, l := range strings.Split(os.Getenv("C02_ISO_SKIP"), ",") {
		if l != "" {
			skip[l] = true
		}
	}
	sc := bufio.NewScanner(in)
	sc.Buffer(make([]byte, 1<<20), 1<<28)
	for sc.Scan() {
		parts := strings.SplitN(sc.Text(), " ", 4)
		if len(parts) < 4 {
			continue
		}
		if idx, err := strconv.Atoi(parts[0]); err != nil || idx < from {
			continue
		}
		if skip[parts[2]] {
			if _, err := out.WriteString(parts[0] + "\tskipped\t-\t-\n"); err != nil {
				return err
			}
			continue
		}
		data, err := hex.DecodeString(parts[3])
		if err != nil {
			return fmt.Errorf("bad hex for case %s", parts[0])
		}
		dec := decoders[parts[1]]
		if dec == nil {
			return fmt.Errorf("no decoder %q", parts[1])
		}
		status, site, detail := "err", "-", "-"
		pan, s := CatchSite(func() {
			ok, note := dec(data)
			if ok {
				status = "ok"
			}
			if note != "" {
				detail = note
			}
		})
		if pan != nil {
			status, site, detail = "panic", s, fmt.Sprint(pan)
		}
		detail = strings.Replace(strings.Replace(detail, "\t", " ", -1), "\n", " | ", -1)
		if len(detail) > 300 {
			detail = detail[:300]
		}
		if _, err := out.WriteString(parts[0] + "\t" + status + "\t" + site + "\t" + detail + "\n"); err != nil {
			return err
		}
	}
	return sc.Err()
}
