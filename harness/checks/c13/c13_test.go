// C13: the ledger only grows by valid successors.
//
// A real LedgerStoreImp receives sequences of submissions through both commit paths
// (ExecuteBlock+SubmitBlock as consensus does, AddHeaders+AddBlock as block sync does): valid
// successors mixed with mutants (wrong height, stale / forged at a committed height, wrong parent,
// fork siblings, equal or earlier timestamp, wrong / zero / stale block root, unsigned or
// foreign-signed). Oracle = successor model from the property text: only the valid successor may
// change the ledger; after a commit all lookups return the block and its transactions; anything
// else leaves tip, lookups and state untouched. "Untouched" is additionally judged differentially:
// a twin ledger that only ever sees the valid blocks must accept every later valid block built on
// the main ledger (same accumulator root, same state root, same write-set hash).
package c13

import (
	"bytes"
	"fmt"
	"math/rand"
	"os"
	"sync"
	"testing"

	"verifharness/kit"
	"verifharness/kit/pk"
	"verifharness/probe"

	"github.com/polynetwork/poly/common"
	"github.com/polynetwork/poly/core/store"
	"github.com/polynetwork/poly/core/types"
)

var mutantKinds = []string{
	"height+k", "forged-at-committed-height", "resubmit-committed", "parent-random", "parent-grandparent",
	"fork-sibling-of-tip", "timestamp-equal", "timestamp-earlier", "blockroot-zero", "blockroot-random",
	"blockroot-stale", "unsigned", "foreign-signed", "parent-grandparent-consistent-root",
}

type committed struct {
	blk       *types.Block
	stateRoot common.Uint256
}

type harness struct {
	r       *kit.Run
	rng     *rand.Rand
	main    *pk.Chain
	twin    *pk.Chain
	foreign []*pk.Key
	chainOf []committed // index = height
	mu      sync.Mutex  // protects chainOf for the race phase readers
	txSeq   int
}

func (h *harness) tip() uint32 { return uint32(len(h.chainOf) - 1) }

func (h *harness) freshTxs() []*types.Transaction {
	n := h.rng.Intn(4)
	var txs []*types.Transaction
	for i := 0; i < n; i++ {
		h.txSeq++
		s := probe.Script{probe.Put([]byte{byte('a' + h.rng.Intn(5))}, []byte(fmt.Sprintf("v%d", h.txSeq))), probe.Get([]byte{byte('a' + h.rng.Intn(5))})}
		txs = append(txs, h.main.InvokeTx(probe.Address, probe.Method, probe.Encode(s)))
	}
	return txs
}

// submit pushes a block through one of the two paths and reports the errors seen.
func (h *harness) submit(c *pk.Chain, blk *types.Block, res store.ExecuteResult, path string, withHeader bool) (errs []string) {
	st := c.Store
	switch path {
	case "consensus":
		res2, err := st.ExecuteBlock(blk)
		if err != nil {
			errs = append(errs, "ExecuteBlock: "+err.Error())
			res2 = res // a caller that ignores the error and submits its own result
		} else if blk.Header.Height <= st.GetCurrentBlockHeight() {
			res2 = res
		}
		if err := st.SubmitBlock(blk, res2); err != nil {
			errs = append(errs, "SubmitBlock: "+err.Error())
		}
	case "sync":
		if withHeader {
			if err := st.AddHeaders([]*types.Header{blk.Header}); err != nil {
				errs = append(errs, "AddHeaders: "+err.Error())
			}
		}
		if err := st.AddBlock(blk, res.MerkleRoot); err != nil {
			errs = append(errs, "AddBlock: "+err.Error())
		}
	}
	return
}

type snapshot struct {
	height    uint32
	hash      common.Uint256
	stateRoot common.Uint256
}

func (h *harness) snap() snapshot {
	st := h.main.Store
	s := snapshot{height: st.GetCurrentBlockHeight(), hash: st.GetCurrentBlockHash()}
	s.stateRoot, _ = st.GetStateMerkleRoot(s.height)
	return s
}

// lookups checks that every query for the committed block at height x returns exactly it.
func (h *harness) lookups(x uint32, key string, ctx interface{}) bool {
	r := h.r
	st := h.main.Store
	want := h.chainOf[x].blk
	wh := want.Hash()
	ok := true
	bad := func(what string) {
		ok = false
		r.Violation(key, fmt.Sprintf("height %d: %s", x, what), ctx)
	}
	if b, err := st.GetBlockByHeight(x); err != nil || b == nil || b.Hash() != wh || !bytes.Equal(b.ToArray(), want.ToArray()) {
		bad(fmt.Sprintf("GetBlockByHeight returns another block (err %v)", err))
	}
	if b, err := st.GetBlockByHash(wh); err != nil || b == nil || b.Header.Height != x || !bytes.Equal(b.ToArray(), want.ToArray()) {
		bad(fmt.Sprintf("GetBlockByHash returns another block (err %v)", err))
	}
	if hd, err := st.GetHeaderByHeight(x); err != nil || hd == nil || hd.Hash() != wh {
		bad(fmt.Sprintf("GetHeaderByHeight returns another header (err %v)", err))
	}
	if hd, err := st.GetHeaderByHash(wh); err != nil || hd == nil || hd.Height != x {
		bad(fmt.Sprintf("GetHeaderByHash returns another header (err %v)", err))
	}
	if st.GetBlockHash(x) != wh {
		bad("GetBlockHash differs")
	}
	if in, err := st.IsContainBlock(wh); err != nil || !in {
		bad(fmt.Sprintf("IsContainBlock=%v err=%v", in, err))
	}
	for _, tx := range want.Transactions {
		th := tx.Hash()
		got, at, err := st.GetTransaction(th)
		if err != nil || got == nil || got.Hash() != th || at != x {
			bad(fmt.Sprintf("GetTransaction(%x) = height %d err %v", th[:4], at, err))
		}
		if in, err := st.IsContainTransaction(th); err != nil || !in {
			bad(fmt.Sprintf("IsContainTransaction(%x)=%v err=%v", th[:4], in, err))
		}
		r.Count("tx_lookups", 1)
	}
	r.Count("block_lookups", 1)
	return ok
}

// validStep builds and commits the valid successor; returns false on violation.
func (h *harness) validStep(path string) bool {
	r := h.r
	txs := h.freshTxs()
	opt := pk.BlockOpt{TimeDelta: uint32(1 + h.rng.Intn(5))}
	blk, res, err := h.main.BuildBlock(txs, opt)
	if err == nil {
		blk, err = pk.Reparse(blk)
	}
	if err != nil {
		r.Violation("valid-successor-not-built", err.Error(), nil)
		return false
	}
	ctx := map[string]interface{}{"kind": "valid", "path": path, "height": blk.Header.Height, "block": kit.Hex(blk.ToArray())}
	// block sync normally announces the header first; after a header-only mutant took the slot in
	// the header index the block itself still has to be committable
	withHeader := h.main.Store.GetCurrentHeaderHeight() == h.main.Store.GetCurrentBlockHeight()
	var errs []string
	if path == "concurrent" {
		// the same valid block arrives from several sources at once (consensus seal twice + block sync):
		// it must be committed exactly once, the other submissions change nothing
		var wg sync.WaitGroup
		var emu sync.Mutex
		start := make(chan struct{})
		raw := blk.ToArray()
		for g := 0; g < 3; g++ {
			// every source has its OWN block object (decoded from the bytes, as consensus and p2p do):
			// no shared *types.Header whose hash cache the submitters would write concurrently
			own, derr := types.BlockFromRawBytes(append([]byte{}, raw...))
			if derr != nil {
				r.Violation("valid-successor-not-built", derr.Error(), nil)
				return false
			}
			wg.Add(1)
			go func(g int, own *types.Block) {
				defer wg.Done()
				<-start
				var err error
				if g == 2 {
					err = h.main.Store.AddBlock(own, res.MerkleRoot)
				} else {
					err = h.main.Store.SubmitBlock(own, res)
				}
				if err != nil {
					emu.Lock()
					errs = append(errs, fmt.Sprintf("submitter %d: %v", g, err))
					emu.Unlock()
				}
			}(g, own)
		}
		close(start)
		wg.Wait()
		if len(errs) > 0 {
			// an error for the submissions that lost the race is tolerated (changes nothing); the block
			// itself must be committed, which is checked below
			r.Count("concurrent_duplicate_submission_errors", len(errs))
			errs = nil
		}
	} else {
		errs = h.submit(h.main, blk, res, path, withHeader)
	}
	r.Eval(1)
	r.Distinct("valid", path, len(txs), withHeader, h.tip())
	st := h.main.Store
	if len(errs) > 0 || st.GetCurrentBlockHeight() != blk.Header.Height || st.GetCurrentBlockHash() != blk.Hash() {
		r.Violation("valid-successor-refused", fmt.Sprintf("valid successor at height %d via %s not committed: %v (tip now %d)", blk.Header.Height, path, errs, st.GetCurrentBlockHeight()), ctx)
		return false
	}
	r.Count("accepted_"+path, 1)
	h.mu.Lock()
	h.chainOf = append(h.chainOf, committed{blk: blk, stateRoot: res.MerkleRoot})
	h.mu.Unlock()
	if !h.lookups(blk.Header.Height, "lookup-after-commit", ctx) {
		return false
	}
	// twin: a ledger that never saw the mutants must agree on everything the block commits to
	if h.twin != nil {
		res2, err := h.twin.Store.ExecuteBlock(blk)
		if err != nil || res2.Hash != res.Hash || res2.MerkleRoot != res.MerkleRoot || res2.CrossStatesRoot != res.CrossStatesRoot {
			r.Violation("rejected-submission-changed-state", fmt.Sprintf("height %d: execution on the main ledger (write-set hash %x, state root %x) differs from a ledger that never saw the rejected submissions (%x, %x, err %v)",
				blk.Header.Height, res.Hash[:6], res.MerkleRoot[:6], res2.Hash[:6], res2.MerkleRoot[:6], err), ctx)
			return false
		}
		if err := h.twin.Store.SubmitBlock(blk, res2); err != nil || h.twin.Store.GetCurrentBlockHash() != blk.Hash() {
			r.Violation("rejected-submission-changed-accumulator", fmt.Sprintf("height %d: a ledger that never saw the rejected submissions refuses the block built on the main ledger: %v", blk.Header.Height, err), ctx)
			return false
		}
		// the ledger that committed the block exactly once stores the same state root for this height
		a, errA := st.GetStateMerkleRoot(blk.Header.Height)
		b, errB := h.twin.Store.GetStateMerkleRoot(blk.Header.Height)
		if errA != nil || errB != nil || a != b || a != res.MerkleRoot {
			r.Violation("committed-state-root-differs-from-single-commit", fmt.Sprintf("height %d via %s: stored state root %x (err %v); a ledger that committed the block once stores %x (err %v); executed root %x",
				blk.Header.Height, path, a[:6], errA, b[:6], errB, res.MerkleRoot[:6]), ctx)
			return false
		}
		r.Count("twin_agreements", 1)
	}
	return true
}

// mutantStep submits one invalid block; returns false on violation.
func (h *harness) mutantStep(kind, path string) bool {
	r := h.r
	tip := h.tip()
	tipHdr := h.chainOf[tip].blk.Header
	if tip < 2 {
		switch kind {
		case "forged-at-committed-height", "resubmit-committed", "parent-grandparent", "fork-sibling-of-tip", "blockroot-stale", "parent-grandparent-consistent-root":
			kind = "parent-random"
		}
	}
	txs := h.freshTxs()
	h.txSeq++
	txs = append(txs, h.main.InvokeTx(probe.Address, probe.Method, probe.Encode(probe.Script{probe.Put([]byte("m"), []byte(fmt.Sprint(h.txSeq)))})))
	opt := pk.BlockOpt{TimeDelta: uint32(1 + h.rng.Intn(3))}
	k := uint32(1 + h.rng.Intn(3))
	switch kind {
	case "height+k":
		opt.Mutate = func(hd *types.Header) { hd.Height += k }
	case "forged-at-committed-height":
		if k > tip {
			k = tip
		}
		opt.Mutate = func(hd *types.Header) { hd.Height -= k }
	case "parent-random":
		opt.Mutate = func(hd *types.Header) { h.rng.Read(hd.PrevBlockHash[:]) }
	case "parent-grandparent":
		opt.Mutate = func(hd *types.Header) { hd.PrevBlockHash = h.chainOf[tip-1].blk.Hash() }
	case "parent-grandparent-consistent-root":
		// a fork block that skips the tip: parent = tip-1, and a block root that is the accumulator
		// root WITH that parent as the new leaf (so only the parent/height rule can refuse it)
		opt.Mutate = func(hd *types.Header) {
			hd.PrevBlockHash = h.chainOf[tip-1].blk.Hash()
			hd.BlockRoot = h.main.Store.GetBlockRootWithPreBlockHashes(tip+1, []common.Uint256{hd.PrevBlockHash})
		}
	case "fork-sibling-of-tip":
		opt.Mutate = func(hd *types.Header) {
			hd.Height = tip
			hd.PrevBlockHash = h.chainOf[tip-1].blk.Hash()
			hd.Timestamp = h.chainOf[tip-1].blk.Header.Timestamp + 1
			hd.BlockRoot = tipHdr.BlockRoot
		}
	case "timestamp-equal":
		opt.Mutate = func(hd *types.Header) { hd.Timestamp = tipHdr.Timestamp }
	case "timestamp-earlier":
		opt.Mutate = func(hd *types.Header) { hd.Timestamp = tipHdr.Timestamp - 1 - uint32(h.rng.Intn(50)) }
	case "blockroot-zero":
		opt.Mutate = func(hd *types.Header) { hd.BlockRoot = common.UINT256_EMPTY }
	case "blockroot-random":
		opt.Mutate = func(hd *types.Header) { h.rng.Read(hd.BlockRoot[:]) }
	case "blockroot-stale":
		opt.Mutate = func(hd *types.Header) { hd.BlockRoot = tipHdr.BlockRoot }
	case "unsigned":
		opt.Signers = []*pk.Key{}
	case "foreign-signed":
		opt.Signers = h.foreign
	}
	var blk *types.Block
	var res store.ExecuteResult
	var err error
	if kind == "resubmit-committed" {
		blk = h.chainOf[tip-uint32(h.rng.Intn(int(tip)))].blk
		_, res, err = h.main.BuildBlock(nil, pk.BlockOpt{}) // some execution result to hand in
	} else {
		blk, res, err = h.main.BuildBlock(txs, opt)
		if err == nil {
			blk, err = pk.Reparse(blk)
		}
	}
	if err != nil {
		r.Violation("mutant-not-built", kind+": "+err.Error(), nil)
		return false
	}
	return h.judgeInvalid(kind, path, blk, res, nil)
}

// judgeInvalid submits a block that is not the valid successor and checks that nothing changed.
func (h *harness) judgeInvalid(kind, path string, blk *types.Block, res store.ExecuteResult, extra map[string]interface{}) bool {
	r := h.r
	tip := h.tip()
	before := h.snap()
	ctx := map[string]interface{}{"kind": kind, "path": path, "tip": tip, "block": kit.Hex(blk.ToArray())}
	for k, v := range extra {
		ctx[k] = v
	}
	errs := h.submit(h.main, blk, res, path, true)
	r.Eval(1)
	r.Distinct("mutant", kind, path, len(errs) > 0, tip, len(blk.Transactions))
	after := h.snap()
	if len(errs) > 0 {
		r.Count("mutant_refused_with_error", 1)
	} else {
		r.Count("mutant_ignored_silently", 1)
	}
	r.Count("mutant_"+kind, 1)
	if after != before {
		r.Violation("invalid-submission-changed-ledger:"+kind, fmt.Sprintf("%s via %s: tip %d/%x state root %x -> tip %d/%x state root %x (errors: %v)", kind, path,
			before.height, before.hash[:6], before.stateRoot[:6], after.height, after.hash[:6], after.stateRoot[:6], errs), ctx)
		return false
	}
	st := h.main.Store
	if kind != "resubmit-committed" {
		if in, _ := st.IsContainBlock(blk.Hash()); in {
			r.Violation("invalid-block-stored:"+kind, fmt.Sprintf("%s via %s: the refused block is reported as contained", kind, path), ctx)
			return false
		}
		for _, tx := range blk.Transactions {
			if in, _ := st.IsContainTransaction(tx.Hash()); in {
				r.Violation("invalid-block-tx-stored:"+kind, fmt.Sprintf("%s via %s: a transaction of the refused block is reported as contained", kind, path), ctx)
				return false
			}
		}
	}
	// committed blocks are still what they were (tip, its parent and one random height)
	for _, x := range []uint32{tip, tip - tip/2, uint32(h.rng.Intn(int(tip) + 1))} {
		if !h.lookups(x, "lookup-changed-by-invalid-submission:"+kind, ctx) {
			return false
		}
	}
	return true
}

var staleHeaderKinds = []string{"unsigned", "foreign-signed", "timestamp-equal", "timestamp-earlier", "parent-random", "height+1", "one-signature-short"}

// staleHeaderScenario: (1) a header X for the next height that must be refused is offered through
// the header path; (2) the honest block of that height is committed; (3) a quorum-signed block
// naming X as its parent (later timestamp than X, block root = accumulator root with hash(X) as the
// new leaf, so that only the parent rule can refuse it) is submitted through a block path. Nothing
// but step (2) may change the ledger: a refused header must not become a usable parent.
func (h *harness) staleHeaderScenario(kind, path string) bool {
	r := h.r
	tip := h.tip()
	tipHdr := h.chainOf[tip].blk.Header
	st := h.main.Store
	if st.GetCurrentHeaderHeight() != st.GetCurrentBlockHeight() {
		// a header-only mutant holds the next slot of the header index: realign with a valid block first
		if !h.validStep("consensus") {
			return false
		}
		tip = h.tip()
		tipHdr = h.chainOf[tip].blk.Header
	}
	opt := pk.BlockOpt{TimeDelta: uint32(2 + h.rng.Intn(3))}
	switch kind {
	case "unsigned":
		opt.Signers = []*pk.Key{}
	case "foreign-signed":
		opt.Signers = h.foreign
	case "one-signature-short":
		opt.Signers = []*pk.Key{} // the legacy rule asks for one signature of four: one short = none, but bookkeepers listed
		opt.MutateAfter = func(b *types.Block) { b.Header.Bookkeepers = append(b.Header.Bookkeepers, h.main.Validators[0].Pub) }
	case "timestamp-equal":
		opt.Mutate = func(hd *types.Header) { hd.Timestamp = tipHdr.Timestamp }
	case "timestamp-earlier":
		opt.Mutate = func(hd *types.Header) { hd.Timestamp = tipHdr.Timestamp - 1 - uint32(h.rng.Intn(20)) }
	case "parent-random":
		opt.Mutate = func(hd *types.Header) { h.rng.Read(hd.PrevBlockHash[:]) }
	case "height+1":
		opt.Mutate = func(hd *types.Header) { hd.Height++ }
	}
	h.txSeq++
	xb, _, err := h.main.BuildBlock([]*types.Transaction{h.main.InvokeTx(probe.Address, probe.Method, probe.Encode(probe.Script{probe.Put([]byte("x"), []byte(fmt.Sprint(h.txSeq)))}))}, opt)
	if err == nil {
		xb, err = pk.Reparse(xb)
	}
	if err != nil {
		r.Violation("mutant-not-built", "stale header "+kind+": "+err.Error(), nil)
		return false
	}
	X := xb.Header
	before := h.snap()
	hdrBefore := st.GetCurrentHeaderHeight()
	herr := st.AddHeaders([]*types.Header{X})
	r.Eval(1)
	r.Distinct("stale-header-offer", kind, tip)
	ctx := map[string]interface{}{"kind": "refused-header:" + kind, "tip": tip, "header": kit.Hex(X.ToArray())}
	if herr == nil || st.GetCurrentHeaderHeight() != hdrBefore || h.snap() != before {
		r.Violation("invalid-header-accepted:"+kind, fmt.Sprintf("header path: %s header for height %d: err=%v, header height %d -> %d", kind, X.Height, herr, hdrBefore, st.GetCurrentHeaderHeight()), ctx)
		return false
	}
	r.Count("stale_header_refused", 1)
	// (2) the honest block of that height
	if !h.validStep([]string{"consensus", "sync"}[h.rng.Intn(2)]) {
		return false
	}
	// (3) a child of the refused header
	tip = h.tip()
	tipHdr = h.chainOf[tip].blk.Header
	xHash := X.Hash()
	h.txSeq++
	child, res, err := h.main.BuildBlock([]*types.Transaction{h.main.InvokeTx(probe.Address, probe.Method, probe.Encode(probe.Script{probe.Put([]byte("y"), []byte(fmt.Sprint(h.txSeq)))}))},
		pk.BlockOpt{Mutate: func(hd *types.Header) {
			hd.PrevBlockHash = xHash
			ts := X.Timestamp
			if tipHdr.Timestamp > ts {
				ts = tipHdr.Timestamp
			}
			hd.Timestamp = ts + 1 + uint32(h.rng.Intn(3))
			hd.BlockRoot = st.GetBlockRootWithPreBlockHashes(tip+1, []common.Uint256{xHash})
		}})
	if err == nil {
		child, err = pk.Reparse(child)
	}
	if err != nil {
		r.Violation("mutant-not-built", "child of stale header "+kind+": "+err.Error(), nil)
		return false
	}
	r.Count("stale_header_child_"+path, 1)
	return h.judgeInvalid("child-of-refused-header:"+kind, path, child, res, map[string]interface{}{"refused_header": kit.Hex(X.ToArray())})
}

func openPair(r *kit.Run, name string, withTwin bool) (*harness, func()) {
	probe.Register()
	vals := pk.SortKeys(pk.NewKeys(r.Rand("validators-"+name), 4))
	d1 := pk.TempDir("c13m")
	main, err := pk.OpenChain(d1, 3, vals)
	if err != nil {
		r.T.Fatal(err)
	}
	h := &harness{r: r, rng: r.Rand("seq-" + name), main: main, foreign: pk.NewKeys(r.Rand("foreign-"+name), 3)}
	h.chainOf = []committed{{blk: main.Genesis}}
	var d2 string
	if withTwin {
		d2 = pk.TempDir("c13t")
		h.twin, err = pk.OpenChain(d2, 3, vals)
		if err != nil {
			r.T.Fatal(err)
		}
		if h.twin.Genesis.Hash() != main.Genesis.Hash() {
			r.T.Fatal("twin genesis differs")
		}
	}
	return h, func() {
		main.Close()
		os.RemoveAll(d1)
		if h.twin != nil {
			h.twin.Close()
			os.RemoveAll(d2)
		}
	}
}

func TestC13(t *testing.T) {
	r := kit.Start(t, "C13", "exploration")
	defer r.Finish()
	r.Rule("sequences of 12 submissions on real ledgers (a fresh ledger every 25 sequences): each submission is the valid successor (38%; a quarter of them handed in by three goroutines at once: 2x SubmitBlock + AddBlock of the same block), one of 14 mutant kinds, or a 3-step scenario (a header of 7 refused kinds offered through AddHeaders, the honest block, then a quorum-signed child naming the refused header as parent with a block root computed over it), pushed through ExecuteBlock+SubmitBlock or AddHeaders+AddBlock; evaluation = one submission; distinct = (kind, path, refused-with-error?, tx count, tip height)")
	r.Assume("'changes the ledger' = current block height/hash, state root, lookups of committed blocks/transactions, and the accumulators as observed through a twin ledger; a header accepted by AddHeaders without its block is not a commit")
	r.Assume("a submission at an already committed height may return nil (ignored) or an error; both count as 'changes nothing'")
	nSeq := r.N(200, 10000)
	var h *harness
	var closeFn func()
	for s := 0; s < nSeq; s++ {
		if s%25 == 0 {
			if closeFn != nil {
				closeFn()
			}
			h, closeFn = openPair(r, fmt.Sprint(s/25), true)
			r.Count("ledgers", 1)
		}
		for i := 0; i < 12; i++ {
			path := []string{"consensus", "sync"}[h.rng.Intn(2)]
			ok := true
			if x := h.rng.Intn(100); x < 38 {
				if x < 10 {
					path = "concurrent"
				}
				ok = h.validStep(path)
			} else if x < 46 {
				ok = h.staleHeaderScenario(staleHeaderKinds[h.rng.Intn(len(staleHeaderKinds))], path)
			} else {
				ok = h.mutantStep(mutantKinds[h.rng.Intn(len(mutantKinds))], path)
			}
			if !ok && r.Violations() > 5 {
				closeFn()
				return
			}
			if !ok {
				// the model and the ledger may have diverged: start over on a fresh ledger
				closeFn()
				h, closeFn = openPair(r, fmt.Sprintf("%d-retry-%d", s, i), true)
			}
		}
		if s == 3 {
			r.Sample(map[string]interface{}{"sequence": s, "tip": h.tip(), "accepted_consensus": r.Get("accepted_consensus"), "accepted_sync": r.Get("accepted_sync"),
				"mutants_refused": r.Get("mutant_refused_with_error"), "mutants_ignored": r.Get("mutant_ignored_silently")})
		}
	}
	closeFn()
	for _, k := range mutantKinds {
		r.Require("mutant_"+k, nSeq/10)
	}
	r.Require("stale_header_refused", nSeq/3)
	r.Require("stale_header_child_consensus", nSeq/8)
	r.Require("stale_header_child_sync", nSeq/8)
	r.Require("accepted_concurrent", nSeq/2)
	r.Require("accepted_consensus", nSeq/2)
	r.Require("accepted_sync", nSeq/2)
	r.Require("twin_agreements", nSeq*2)
	r.Require("tx_lookups", nSeq)
}

// TestC13Race: the same submitter against 4 concurrent readers, under the race detector. Readers
// also check what they see: the tip never moves backwards and every height up to the tip they
// observed resolves to the block the submitter committed there.
func TestC13Race(t *testing.T) {
	r := kit.Start(t, "C13", "exploration")
	defer r.Finish()
	r.Rule("race phase: one submitter (valid successors - a third of them handed in by three goroutines at once, 2x SubmitBlock + AddBlock, each with its own block object - and the 14 mutant kinds through both paths) against 4 reader goroutines doing a fixed number of lookups per submission (tip, block/header by height and hash, transaction lookups, containment); evaluation = one submission; distinct = (kind, path)")
	r.Assume("readers use only the lookups named in the property; every Go race report is a violation (reported by the driver)")
	h, closeFn := openPair(r, "race", false)
	defer closeFn()
	nSub := r.N(160, 1500)
	const readers = 4
	const readsPerRound = 12
	st := h.main.Store
	for i := 0; i < nSub; i++ {
		var wg sync.WaitGroup
		start := make(chan struct{})
		for g := 0; g < readers; g++ {
			wg.Add(1)
			rrng := rand.New(rand.NewSource(h.rng.Int63()))
			go func(g int) {
				defer wg.Done()
				<-start
				var last uint32
				for k := 0; k < readsPerRound; k++ {
					height, hash := st.GetCurrentBlock()
					if height < last {
						r.Violation("tip-moved-backwards", fmt.Sprintf("reader saw tip %d after %d", height, last), nil)
					}
					last = height
					x := uint32(rrng.Intn(int(height) + 1))
					b, err := st.GetBlockByHeight(x)
					if err != nil || b == nil || b.Header.Height != x {
						r.Violation("committed-height-not-readable", fmt.Sprintf("tip %d (%x) but GetBlockByHeight(%d) = %v, %v", height, hash[:4], x, b != nil, err), nil)
						continue
					}
					h.mu.Lock()
					var want *types.Block
					if int(x) < len(h.chainOf) {
						want = h.chainOf[x].blk
					}
					h.mu.Unlock()
					if want != nil && want.Hash() != b.Hash() {
						r.Violation("reader-saw-other-block", fmt.Sprintf("height %d resolves to %x, committed was %x", x, b.Hash(), want.Hash()), nil)
					}
					bh := b.Hash()
					if b2, err := st.GetBlockByHash(bh); err != nil || b2 == nil || b2.Header.Height != x {
						r.Violation("committed-hash-not-readable", fmt.Sprintf("GetBlockByHash of height %d: %v", x, err), nil)
					}
					if hd, err := st.GetHeaderByHeight(x); err != nil || hd == nil || hd.Hash() != bh {
						r.Violation("committed-header-not-readable", fmt.Sprintf("GetHeaderByHeight(%d): %v", x, err), nil)
					}
					if in, err := st.IsContainBlock(bh); err != nil || !in {
						r.Violation("committed-block-not-contained", fmt.Sprintf("height %d", x), nil)
					}
					for _, tx := range b.Transactions {
						if _, at, err := st.GetTransaction(tx.Hash()); err != nil || at != x {
							r.Violation("committed-tx-not-readable", fmt.Sprintf("height %d: at %d err %v", x, at, err), nil)
						}
						if in, err := st.IsContainTransaction(tx.Hash()); err != nil || !in {
							r.Violation("committed-tx-not-contained", fmt.Sprintf("height %d", x), nil)
						}
					}
					_ = st.GetCurrentBlockHeight()
					_ = st.GetCurrentBlockHash()
					_ = st.GetBlockHash(x)
					r.Count("concurrent_reads", 1)
				}
			}(g)
		}
		close(start)
		path := []string{"consensus", "sync"}[h.rng.Intn(2)]
		if h.rng.Intn(100) < 50 {
			if i%3 == 0 {
				path = "concurrent" // the same block from three sources at once (2x SubmitBlock + AddBlock), own block objects
			}
			h.validStep(path)
		} else {
			h.mutantStep(mutantKinds[h.rng.Intn(len(mutantKinds))], path)
		}
		wg.Wait()
		if r.Violations() > 5 {
			return
		}
	}
	r.Sample(map[string]interface{}{"submissions": nSub, "tip": h.tip(), "concurrent_reads": r.Get("concurrent_reads")})
	r.Require("concurrent_reads", nSub*readers*readsPerRound/2)
	r.Require("accepted_consensus", nSub/12)
	r.Require("accepted_sync", nSub/12)
	r.Require("accepted_concurrent", nSub/12)
	r.Require("mutant_refused_with_error", nSub/8)
}
