// C26: BTC coin selection conserves UTXO value.
//
// The real chooseUtxos (through the verif export VerifChooseUtxos) and its real caller makeBtcTx
// (VerifMakeBtcTx) run against a NativeService whose storage holds UTXO / STXO records and the
// BtcTxParam; an independent multiset model of the unspent / spent sets is kept by the checker
// and compared after every withdrawal of a sequence.
package c26

import (
	"bytes"
	"crypto/sha256"
	"encoding/binary"
	"encoding/hex"
	"fmt"
	"math/rand"
	"sort"
	"sync"
	"testing"

	"verifharness/kit"
	"verifharness/kit/nat"
	"verifharness/kit/pk"

	"github.com/btcsuite/btcd/btcec"
	"github.com/btcsuite/btcd/chaincfg"
	"github.com/btcsuite/btcd/txscript"
	"github.com/btcsuite/btcd/wire"
	"github.com/btcsuite/btcutil"
	"github.com/polynetwork/poly/common"
	"github.com/polynetwork/poly/native"
	"github.com/polynetwork/poly/native/service/cross_chain_manager/btc"
	"github.com/polynetwork/poly/native/service/governance/side_chain_manager"
	"github.com/polynetwork/poly/native/service/utils"
)

const btcChainID = 1

type env struct {
	e      *nat.Env
	redeem []byte
	rk     []byte
	p2sh   []byte
	p2wsh  []byte
	m, n   int
	net    *chaincfg.Params
	toAddr string
}

func newEnv(t *testing.T, rng *rand.Rand) *env {
	e := nat.New(5)
	vals := pk.NewKeys(rng, 4)
	if err := e.InitGovernance(vals); err != nil {
		t.Fatal(err)
	}
	// register the BTC side chain through the real side_chain_manager (needed by makeBtcTx → getNetParam)
	owner := vals[0]
	ccmc := make([]byte, 8)
	binary.LittleEndian.PutUint64(ccmc, uint64(utils.TyTestnet3))
	p := &side_chain_manager.RegisterSideChainParam{Address: owner.Addr, ChainId: btcChainID, Router: utils.BTC_ROUTER, Name: "btc", BlocksToWait: 1, CCMCAddress: ccmc}
	sink := common.NewZeroCopySink(nil)
	p.Serialization(sink)
	if rec := e.Call(utils.SideChainManagerContractAddress, "registerSideChain", sink.Bytes(), pk.Single(owner)); !rec.Ok {
		t.Fatalf("registerSideChain: %s", rec.Err)
	}
	for _, v := range vals {
		cp := &side_chain_manager.ChainidParam{Chainid: btcChainID, Address: v.Addr}
		s2 := common.NewZeroCopySink(nil)
		cp.Serialization(s2)
		if rec := e.Call(utils.SideChainManagerContractAddress, "approveRegisterSideChain", s2.Bytes(), pk.Single(v)); !rec.Ok {
			break // already approved: the apply record is consumed
		}
	}
	sc, err := side_chain_manager.GetSideChain(e.Service(), btcChainID)
	if err != nil || sc == nil {
		t.Fatalf("side chain not registered: %v", err)
	}
	net := &chaincfg.TestNet3Params
	// 2-of-3 redeem script
	var addrs []*btcutil.AddressPubKey
	for i := 0; i < 3; i++ {
		d := make([]byte, 32)
		rng.Read(d)
		d[0] = 1
		_, pub := btcec.PrivKeyFromBytes(btcec.S256(), d)
		a, err := btcutil.NewAddressPubKey(pub.SerializeCompressed(), net)
		if err != nil {
			t.Fatal(err)
		}
		addrs = append(addrs, a)
	}
	redeem, err := txscript.MultiSigScript(addrs, 2)
	if err != nil {
		t.Fatal(err)
	}
	rk := btcutil.Hash160(redeem)
	shAddr, _ := btcutil.NewAddressScriptHash(redeem, net)
	p2sh, _ := txscript.PayToAddrScript(shAddr)
	wh := sha256.Sum256(redeem)
	wAddr, _ := btcutil.NewAddressWitnessScriptHash(wh[:], net)
	p2wsh, _ := txscript.PayToAddrScript(wAddr)
	// a user address to pay to
	d := make([]byte, 32)
	rng.Read(d)
	d[0] = 2
	_, upub := btcec.PrivKeyFromBytes(btcec.S256(), d)
	uaddr, _ := btcutil.NewAddressPubKeyHash(btcutil.Hash160(upub.SerializeCompressed()), net)
	if btc.GetUtxoKey(p2sh) != hex.EncodeToString(rk) || btc.GetUtxoKey(p2wsh) != hex.EncodeToString(rk) {
		t.Fatal("utxo key derivation differs from the redeem key")
	}
	return &env{e: e, redeem: redeem, rk: rk, p2sh: p2sh, p2wsh: p2wsh, m: 2, n: 3, net: net, toAddr: uaddr.EncodeAddress()}
}

// commit a write made through an ad-hoc service into the universe (like a successful tx)
func commit(svc *native.NativeService) { svc.GetCacheDB().Commit() }

type mUtxo struct {
	Hash  string
	Index uint32
	Value uint64
	Wit   bool
}

func (u mUtxo) op() string { return fmt.Sprintf("%s:%d", u.Hash, u.Index) }

func opOf(u *btc.Utxo) string { return fmt.Sprintf("%s:%d", hex.EncodeToString(u.Op.Hash), u.Op.Index) }

func multiset(us []*btc.Utxo) map[string]int {
	m := map[string]int{}
	for _, u := range us {
		m[opOf(u)+fmt.Sprintf("=%d", u.Value)]++
	}
	return m
}

func modelSet(us []mUtxo) map[string]int {
	m := map[string]int{}
	for _, u := range us {
		m[u.op()+fmt.Sprintf("=%d", u.Value)]++
	}
	return m
}

func eqSet(a, b map[string]int) bool {
	if len(a) != len(b) {
		return false
	}
	for k, v := range a {
		if b[k] != v {
			return false
		}
	}
	return true
}

func genValues(rng *rand.Rand, n int) []uint64 {
	vals := make([]uint64, n)
	shape := rng.Intn(6)
	base := uint64(600 + rng.Intn(2000000))
	for i := range vals {
		switch shape {
		case 0: // all equal
			vals[i] = base
		case 1: // geometric
			vals[i] = 1000 << uint(rng.Intn(18))
		case 2: // close values
			vals[i] = base + uint64(rng.Intn(50))
		case 3: // dust + whales
			if rng.Intn(3) == 0 {
				vals[i] = uint64(100000000 + rng.Intn(900000000))
			} else {
				vals[i] = uint64(600 + rng.Intn(5000))
			}
		case 4: // pairs of equal values
			vals[i] = uint64(10000 * (1 + i/2))
		default:
			vals[i] = uint64(600 + rng.Int63n(50000000))
		}
	}
	return vals
}

// sequence numbers from smallFrom on are "small" sequences (see runSeq)
const smallFrom = 1000000

type selCase struct {
	Utxos     []mUtxo `json:"utxos"`
	Amount    int64   `json:"amount"`
	FeeRate   uint64  `json:"fee_rate"`
	MinChange uint64  `json:"min_change"`
	Step      int     `json:"step_in_sequence"`
	Path      string  `json:"path"`
}

func TestC26(t *testing.T) {
	r := kit.Start(t, "C26", "exploration")
	defer r.Finish()
	r.Rule("UTXO sets of 1-40 outputs (6 value shapes, p2sh / p2wsh mix, occasional same-txid outputs) x fee rate x min-change x sequences of 1-15 withdrawals through the real chooseUtxos / makeBtcTx; distinct = (set size, value shape hash, amount bucket, outcome, #selected)")
	r.Assume("BtcTxParam is written through a verif export instead of the m-of-n signed SetBtcTxParam call; UTXO records are written through the real putUtxos")
	nSeq := r.N(30, 200)
	workers := 12
	var wg sync.WaitGroup
	jobs := make(chan int)
	for w := 0; w < workers; w++ {
		wg.Add(1)
		go func(w int) {
			defer wg.Done()
			env := newEnv(t, r.Rand(fmt.Sprintf("env/%d", w)))
			for s := range jobs {
				runSeq(t, r, env, s)
			}
		}(w)
	}
	nSmall := r.N(600, 6000)
	for s := 0; s < nSeq; s++ {
		jobs <- s
	}
	for s := 0; s < nSmall; s++ {
		jobs <- smallFrom + s
	}
	close(jobs)
	wg.Wait()
	r.Require("selected", nSeq/2+nSmall/2)
	r.Require("equal_value_outputs_of_one_transaction", nSmall/20)
	r.Require("dusty_vault_sequences", nSmall/6)
	r.Require("refused", 1)
	r.Require("selected_via_makeBtcTx", nSeq/20)
}

func bucket(amount, total uint64) int {
	if total == 0 {
		return 0
	}
	return int(amount * 8 / (total + 1))
}

// runSelection executes one withdrawal like a transaction (commit on success, discard on error)
// and applies the per-selection oracle. Returns ok, the chosen outpoints and the reported sum.
func runSelection(t *testing.T, r *kit.Run, env *env, c selCase) (bool, []string, uint64) {
	byOp := map[string]mUtxo{}
	for _, u := range c.Utxos {
		byOp[u.op()] = u
	}
	svc := env.e.Service()
	var chosen []string
	var sum, fee int64
	var values []uint64
	var err error
	var mtx *wire.MsgTx
	pan := kit.Catch(func() {
		if c.Path == "chooseUtxos" {
			addr, _ := btcutil.DecodeAddress(env.toAddr, env.net)
			pkScript, _ := txscript.PayToAddrScript(addr)
			outs := []*wire.TxOut{wire.NewTxOut(c.Amount, pkScript), wire.NewTxOut(0, env.p2wsh)}
			var res []*btc.Utxo
			res, sum, fee, err = btc.VerifChooseUtxos(svc, btcChainID, c.Amount, outs, env.rk, env.m, env.n)
			for _, u := range res {
				chosen = append(chosen, opOf(u))
				values = append(values, u.Value)
			}
		} else {
			err = btc.VerifMakeBtcTx(svc, btcChainID, map[string]int64{env.toAddr: c.Amount}, []byte("fromtx"), 2, env.redeem, env.rk)
			if err == nil {
				// the unsigned tx is published in the makeBtcTx notification
				for _, n := range svc.GetNotify() {
					st, ok := n.States.([]interface{})
					if !ok || len(st) < 4 || st[0] != "makeBtcTx" {
						continue
					}
					raw, _ := hex.DecodeString(st[2].(string))
					mtx = wire.NewMsgTx(wire.TxVersion)
					if e := mtx.BtcDecode(bytes.NewReader(raw), wire.ProtocolVersion, wire.LatestEncoding); e != nil {
						err = fmt.Errorf("cannot decode published tx: %v", e)
					}
					values = st[3].([]uint64)
				}
				if mtx == nil && err == nil {
					err = fmt.Errorf("no makeBtcTx notification")
				}
			}
		}
	})
	if pan != nil {
		r.Violation("selection-panics", fmt.Sprintf("%s panicked: %v", c.Path, pan), c)
		return false, nil, 0
	}
	if err != nil {
		return false, nil, 0 // refused: nothing is committed (transaction fails)
	}
	commit(svc)
	if c.Path == "makeBtcTx" {
		// inputs of the built transaction are the selection; change = reported sum - amount
		var outSum int64
		var change int64
		for _, o := range mtx.TxOut {
			outSum += o.Value
			if bytes.Equal(o.PkScript, env.p2wsh) {
				change = o.Value
			}
		}
		for _, in := range mtx.TxIn {
			chosen = append(chosen, fmt.Sprintf("%s:%d", hex.EncodeToString(in.PreviousOutPoint.Hash[:]), in.PreviousOutPoint.Index))
		}
		sum = change + c.Amount // makeBtcTx sets change = sum - amount (no change output when 0)
		var inSum int64
		for _, op := range chosen {
			u, ok := byOp[op]
			if !ok {
				r.Violation("input-not-an-unspent-output", "built tx spends "+op+" which is not in the unspent set", c)
				return true, chosen, uint64(sum)
			}
			inSum += int64(u.Value)
		}
		if inSum < outSum {
			r.Violation("built-tx-spends-more-than-inputs", fmt.Sprintf("inputs %d < outputs %d (reported total %d)", inSum, outSum, sum), c)
		}
	}
	// oracle
	seen := map[string]bool{}
	var real uint64
	for i, op := range chosen {
		u, ok := byOp[op]
		if !ok {
			r.Violation("selected-not-in-unspent-set", op, c)
			return true, chosen, uint64(sum)
		}
		if seen[op] {
			r.Violation("selected-twice", op, c)
			return true, chosen, uint64(sum)
		}
		seen[op] = true
		real += u.Value
		if i < len(values) && values[i] != u.Value {
			r.Violation("selected-value-differs-from-record", fmt.Sprintf("%s value %d, record %d", op, values[i], u.Value), c)
		}
	}
	if len(chosen) == 0 {
		r.Violation("empty-selection-accepted", "success with no inputs", c)
		return true, chosen, uint64(sum)
	}
	if real != uint64(sum) {
		r.Violation("reported-total-differs-from-selected-values", fmt.Sprintf("selected values add up to %d, reported input total %d (%d inputs)", real, sum, len(chosen)), c)
	}
	if !(uint64(sum) == uint64(c.Amount) || uint64(sum) >= uint64(c.Amount)+c.MinChange) {
		r.Violation("total-neither-exact-nor-min-change", fmt.Sprintf("total %d, payment %d, min change %d", sum, c.Amount, c.MinChange), c)
	}
	_ = fee
	sort.Strings(chosen)
	return true, chosen, uint64(sum)
}

// runSeq: one UTXO set and a sequence of withdrawals on it (deterministic in (seed, s)).
func runSeq(t *testing.T, r *kit.Run, env *env, s int) {
	rng := r.Rand(fmt.Sprintf("seq/%d", s))
	txc := 0
	n := 1 + rng.Intn(40)
	if rng.Intn(4) == 0 {
		n = 1 + rng.Intn(5)
	}
	// small sequences (s >= smallFrom): few outputs, so the real branch-and-bound search is cheap and
	// many more selections (in particular through the sorted fallback search) fit into a run; they
	// also carry many same-transaction outputs, half of them with the value of their sibling
	small := s >= smallFrom
	if small {
		n = 2 + rng.Intn(13)
	}
	vals := genValues(rng, n)
	// "dusty vault" shape: a minimum change so large that [amount+minChange, 4*amount] is empty (the
	// branch-and-bound search can then only succeed on an exact match), outputs worth a quarter to half
	// of the minimum change and a low fee rate: the sorted fallback search needs three or more
	// outputs before it reaches amount+minChange and then tries to swap the last one for smaller ones
	dusty := small && rng.Intn(3) == 0
	dustyMC := uint64(12000 + rng.Intn(10000))
	if dusty {
		if n < 5 {
			n = 5 + rng.Intn(8)
			vals = make([]uint64, n)
		}
		for i := range vals {
			vals[i] = dustyMC/4 + uint64(rng.Int63n(int64(dustyMC/4)))
		}
		r.Count("dusty_vault_sequences", 1)
	}
	model := make([]mUtxo, n)
	var recs []*btc.Utxo
	for i := range model {
		txc++
		h := sha256.Sum256([]byte(fmt.Sprintf("tx-%d-%d-%d", r.Seed, s, txc)))
		idx := uint32(0)
		if i > 0 && (rng.Intn(25) == 0 || (small && rng.Intn(3) == 0)) {
			// a second output of the previous transaction (change-to-self shape)
			hh, _ := hex.DecodeString(model[i-1].Hash)
			copy(h[:], hh)
			idx = model[i-1].Index + 1
			if small && rng.Intn(2) == 0 {
				vals[i] = vals[i-1]
				r.Count("equal_value_outputs_of_one_transaction", 1)
			}
		}
		wit := rng.Intn(2) == 0
		model[i] = mUtxo{Hash: hex.EncodeToString(h[:]), Index: idx, Value: vals[i], Wit: wit}
		spk := env.p2sh
		if wit {
			spk = env.p2wsh
		}
		recs = append(recs, &btc.Utxo{Op: &btc.OutPoint{Hash: append([]byte{}, h[:]...), Index: idx}, AtHeight: 1, Value: vals[i], ScriptPubkey: spk})
	}
	feeRate := uint64(1 + rng.Intn(60))
	minChange := uint64(2000 + rng.Intn(20000))
	if dusty {
		feeRate, minChange = uint64(1+rng.Intn(2)), dustyMC
	}
	// install the records (fresh sets for this sequence)
	svc := env.e.Service()
	btc.VerifPutUtxos(svc, btcChainID, hex.EncodeToString(env.rk), &btc.Utxos{Utxos: recs})
	// spent set starts empty for this sequence: overwrite through the same storage helper is
	// not exported, so keep a model offset of what was there before
	side_chain_manager.VerifPutBtcTxParam(svc, env.rk, btcChainID, &side_chain_manager.BtcTxParamDetial{PVersion: uint64(s), FeeRate: feeRate, MinChange: minChange})
	commit(svc)
	st0, _ := btc.VerifGetStxos(env.e.Service(), btcChainID, hex.EncodeToString(env.rk))
	spentBase := multiset(st0.Utxos)
	var spent []mUtxo
	steps := 1 + rng.Intn(15)
	for step := 0; step < steps && len(model) > 0; step++ {
		var total uint64
		for _, u := range model {
			total += u.Value
		}
		var amount int64
		switch rng.Intn(5) {
		case 0:
			amount = int64(model[rng.Intn(len(model))].Value) // exact match of one output possible
		case 1:
			amount = int64(total/2 + uint64(rng.Int63n(int64(total/2+1))))
		case 2:
			amount = int64(1000 + rng.Int63n(int64(total/4+1)))
		case 3:
			amount = int64(total) - int64(rng.Intn(3000))
		default:
			amount = int64(1000 + rng.Int63n(int64(total+1)))
		}
		if dusty {
			amount = 3000 + rng.Int63n(int64(minChange/3)-3000)
		}
		if amount <= 0 {
			amount = 1000
		}
		path := "chooseUtxos"
		if rng.Intn(4) == 0 {
			path = "makeBtcTx"
		}
		c := selCase{Utxos: append([]mUtxo{}, model...), Amount: amount, FeeRate: feeRate, MinChange: minChange, Step: step, Path: path}
		r.Eval(1)
		ok, chosen, sum := runSelection(t, r, env, c)
		if !ok {
			r.Count("refused", 1)
			r.Distinct(len(c.Utxos), bucket(uint64(amount), total), "refused", path)
			continue
		}
		r.Count("selected", 1)
		r.Count("selected_via_"+path, 1)
		r.Distinct(len(c.Utxos), bucket(uint64(amount), total), "ok", len(chosen), sum == uint64(amount), path)
		if s < 3 && step == 0 {
			r.Sample(map[string]interface{}{"case": c, "selected": chosen, "reported_sum": sum})
		}
		// update the model
		cm := map[string]bool{}
		for _, op := range chosen {
			cm[op] = true
		}
		var rest []mUtxo
		for _, u := range model {
			if cm[u.op()] {
				spent = append(spent, u)
			} else {
				rest = append(rest, u)
			}
		}
		model = rest
		// compare persisted sets with the model
		ut, err1 := btc.VerifGetUtxos(env.e.Service(), btcChainID, hex.EncodeToString(env.rk))
		sx, err2 := btc.VerifGetStxos(env.e.Service(), btcChainID, hex.EncodeToString(env.rk))
		if err1 != nil || err2 != nil {
			r.Violation("records-unreadable", fmt.Sprintf("%v %v", err1, err2), c)
			break
		}
		if !eqSet(multiset(ut.Utxos), modelSet(model)) {
			r.Violation("unspent-set-not-old-minus-selected", fmt.Sprintf("unspent set after selection has %d entries, model %d", len(ut.Utxos), len(model)), c)
			break
		}
		want := modelSet(spent)
		for k, v := range spentBase {
			want[k] += v
		}
		if !eqSet(multiset(sx.Utxos), want) {
			r.Violation("spent-set-not-old-plus-selected", fmt.Sprintf("spent set has %d entries, model %d", len(sx.Utxos), len(spent)+len(st0.Utxos)), c)
			break
		}
	}
}
