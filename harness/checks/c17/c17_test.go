// C17: contract storage is confined and its keys are unambiguous.
//
// Monitors:
//   - confinement: every key of every transaction-level write set produced by the workloads (direct
//     driver, via nat.Observer) and of every ExecuteResult.WriteSet of blocks executed on a real
//     ledger starts with the contract-storage prefix ST_STORAGE;
//   - unambiguity: the hook utils.VerifConcatKeyHook sees every storage key built by ConcatKey
//     together with the logical tuple (contract, kind, parameters...) it was built from; the same
//     key bytes produced from two different tuples is a collision. After a first pass the record
//     kinds observed per contract are used to aim hostile parameter values (chain ids and byte
//     strings that spell the tail of a longer kind name) at the real entry points in a second pass.
package c17

import (
	"bytes"
	"encoding/binary"
	"fmt"
	"os"
	"sort"
	"strings"
	"testing"

	"verifharness/kit"
	"verifharness/kit/nat"
	"verifharness/kit/pk"
	"verifharness/probe"
	"verifharness/workloads"

	"github.com/polynetwork/poly/common"
	"github.com/polynetwork/poly/common/config"
	scommon "github.com/polynetwork/poly/core/store/common"
	"github.com/polynetwork/poly/core/types"
	"github.com/polynetwork/poly/native"
	polyeth "github.com/polynetwork/poly/native/service/header_sync/eth"
	"github.com/polynetwork/poly/native/service/utils"
)

type tuple struct {
	contract common.Address
	parts    [][]byte
}

func (t tuple) kind() string {
	if len(t.parts) == 0 {
		return ""
	}
	return string(t.parts[0])
}

func (t tuple) sig() string {
	var sb strings.Builder
	fmt.Fprintf(&sb, "%x", t.contract[18:])
	for _, p := range t.parts {
		fmt.Fprintf(&sb, "|%d:%x", len(p), p)
	}
	return sb.String()
}

type monitor struct {
	cur     string            // contract.method of the native call being executed
	tally   map[string]string // vote-tally key -> the approving method that owns it
	r       *kit.Run
	byKey   map[string]tuple
	events  int
	shapes  map[string]map[int]map[int]bool // contract/kind -> part index -> set of lengths
	nparts  map[string]map[int]bool
	kinds   map[common.Address]map[string]bool
	splits  int
	writes  int
	failedW int
}

func newMonitor(r *kit.Run) *monitor {
	return &monitor{r: r, tally: map[string]string{}, byKey: map[string]tuple{}, shapes: map[string]map[int]map[int]bool{}, nparts: map[string]map[int]bool{}, kinds: map[common.Address]map[string]bool{}}
}

func printable(s string) bool {
	if s == "" {
		return false
	}
	for _, c := range s {
		if c < 0x20 || c > 0x7e {
			return false
		}
	}
	return true
}

func (m *monitor) onKey(contract common.Address, parts [][]byte, result []byte) {
	m.events++
	cp := make([][]byte, len(parts))
	for i, p := range parts {
		cp[i] = append([]byte{}, p...)
	}
	t := tuple{contract: contract, parts: cp}
	k := string(result)
	kd := t.kind()
	if printable(kd) {
		if m.kinds[contract] == nil {
			m.kinds[contract] = map[string]bool{}
		}
		m.kinds[contract][kd] = true
	}
	sk := fmt.Sprintf("%x/%s", contract[18:], kd)
	if m.shapes[sk] == nil {
		m.shapes[sk] = map[int]map[int]bool{}
		m.nparts[sk] = map[int]bool{}
	}
	m.nparts[sk][len(parts)] = true
	for i, p := range parts {
		if m.shapes[sk][i] == nil {
			m.shapes[sk][i] = map[int]bool{}
		}
		m.shapes[sk][i][len(p)] = true
	}
	// vote tallies (node_manager "consensusSigns" ‖ sha256(method ‖ request)) belong to ONE approving
	// method: the same tally key reached from two different methods means two different logical
	// tallies share a record
	// the same holds for side_chain_manager's "bindSignInfo" tallies (signatures of the redeem
	// script's keys collected per request): registerRedeem and setBtcTxParam requests are different
	// logical records
	if (kd == "consensusSigns" || kd == "bindSignInfo") && m.cur != "" {
		if owner, seen := m.tally[k]; !seen {
			m.tally[k] = m.cur
		} else if owner != m.cur {
			a, b := owner, m.cur
			if a > b {
				a, b = b, a
			}
			m.r.Violation("vote-tally-key-shared-by-methods:"+a+"|"+b,
				fmt.Sprintf("the approval tally record %x (%s) is used by %s and by %s", result, kd, a, b), map[string]interface{}{"key": kit.Hex(result)})
		}
	}
	old, ok := m.byKey[k]
	if !ok {
		m.byKey[k] = t
		m.r.Distinct("shape", sk, len(parts))
		return
	}
	if old.sig() == t.sig() {
		return
	}
	replay := map[string]interface{}{"key": kit.Hex(result), "tuple_a": old.sig(), "tuple_b": t.sig()}
	switch {
	case old.kind() != t.kind():
		a, b := old.kind(), t.kind()
		if a > b {
			a, b = b, a
		}
		m.r.Violation(fmt.Sprintf("key-collision:%x:kinds:%q|%q", contract[18:], a, b),
			fmt.Sprintf("two different record kinds map to the same storage key %x", result), replay)
	case len(old.parts) == len(t.parts):
		m.r.Violation(fmt.Sprintf("key-collision:%x:kind:%q:different-parameters", contract[18:], t.kind()),
			fmt.Sprintf("the same record kind with different parameters maps to the same storage key %x", result), replay)
	default:
		// same kind, same bytes, split differently: may be the same logical record addressed by two
		// call sites — recorded, not judged
		m.splits++
	}
}

func (m *monitor) onCall(e *nat.Env, rec *nat.CallRecord) {
	for _, kv := range rec.WriteSet {
		m.writes++
		if !rec.Ok {
			m.failedW++
		}
		if len(kv.K) == 0 || kv.K[0] != byte(scommon.ST_STORAGE) {
			m.r.Violation(fmt.Sprintf("write-outside-contract-storage:%x.%s", rec.Contract[18:], rec.Method),
				fmt.Sprintf("transaction wrote key %x (prefix %#x, contract storage prefix is %#x)", kv.K, first(kv.K), byte(scommon.ST_STORAGE)),
				map[string]interface{}{"method": rec.Method, "args": kit.Hex(rec.Args), "key": kit.Hex(kv.K)})
		}
	}
}

func first(b []byte) byte {
	if len(b) == 0 {
		return 0
	}
	return b[0]
}

func runWorkloads(r *kit.Run, tag string, pal func() *workloads.Palette, rounds int) {
	for round := 0; round < rounds; round++ {
		workloads.Gov(r, r.Rand(fmt.Sprintf("%s/gov/%d", tag, round)), pal())
		workloads.GovLists(r, r.Rand(fmt.Sprintf("%s/govlists/%d", tag, round)), pal())
		workloads.BtcGov(r, r.Rand(fmt.Sprintf("%s/btcgov/%d", tag, round)), pal())
		workloads.Relayers(r, r.Rand(fmt.Sprintf("%s/relayers/%d", tag, round)), pal())
		workloads.GenesisAll(r, r.Rand(fmt.Sprintf("%s/genesis/%d", tag, round)), pal())
		for _, name := range []string{"eth", "bsc", "heco", "hsc", "pixie", "bytom", "msc"} {
			workloads.EVM(r, r.Rand(fmt.Sprintf("%s/evm/%s/%d", tag, name, round)), pal(), name, uint64(2000+round))
		}
		workloads.Extra(r, r.Rand(fmt.Sprintf("%s/extra/%d", tag, round)), pal())
		workloads.RippleDest(r, r.Rand(fmt.Sprintf("%s/ripple-dest/%d", tag, round)), pal())
		workloads.Bor(r, r.Rand(fmt.Sprintf("%s/bor/%d", tag, round)), pal())
	}
}

func TestC17(t *testing.T) {
	r := kit.Start(t, "C17", "exploration")
	defer r.Finish()
	r.Rule("pass 1: native workloads (governance, registry, relayers, vote imports, fees, signatures, EVM-family header sync and deposits, further routers as available) with default values; pass 2: the same workloads with chain ids / byte strings aimed at record-kind pairs where one kind name is a prefix of another; every ConcatKey call and every transaction write set is observed; ledger part: blocks with governance and scripted-contract transactions on a real ledger; distinct = (contract, kind, #parts) shapes")
	r.Assume("keys not built through native/service/utils.ConcatKey are not seen by the unambiguity monitor")
	r.Assume("accessor part: every parameter of the listed exported read accessors is taken to identify the record (chain id, height, hash, view, key); calls are made on an empty state")
	r.Assume("the same key bytes reached from the same kind through a different split of the parameters is counted (same_kind_different_split) but not judged: it may be the same logical record")
	r.Assume("'whatever the parameter values' is sampled: only collisions actually observed in executions count; shapes with a variable-length parameter followed by another parameter are listed as unreached ambiguities")
	polyeth.VerifSealBypass = true
	defer func() { polyeth.VerifSealBypass = false }()
	m := newMonitor(r)
	utils.VerifConcatKeyHook = m.onKey
	nat.Observer = m.onCall
	nat.ExecHook = func(e *nat.Env, run func() (*nat.CallRecord, *native.NativeService)) (*nat.CallRecord, *native.NativeService) {
		rec, svc := run()
		return rec, svc
	}
	nat.BeforeCall = func(contract common.Address, method string) { m.cur = fmt.Sprintf("%x.%s", contract[18:], method) }
	defer func() { utils.VerifConcatKeyHook = nil; nat.Observer = nil; nat.ExecHook = nil; nat.BeforeCall = nil }()

	rounds := r.N(2, 40)
	runWorkloads(r, "p1", func() *workloads.Palette { return nil }, rounds)
	ev1 := m.events

	// hostile values from the kinds observed so far
	type pair struct{ Contract, Kind, LongerKind string }
	var pairs []pair
	var chainIDs []uint64
	var blobs [][]byte
	for c, ks := range m.kinds {
		var names []string
		for k := range ks {
			names = append(names, k)
		}
		sort.Strings(names)
		for _, a := range names {
			for _, b := range names {
				if a != b && strings.HasPrefix(b, a) {
					suf := b[len(a):]
					pairs = append(pairs, pair{fmt.Sprintf("%x", c[18:]), a, b})
					var id [8]byte
					copy(id[:], suf)
					chainIDs = append(chainIDs, binary.LittleEndian.Uint64(id[:]))
					for i := len(suf); i < 8; i++ {
						id[i] = byte(i)
					}
					chainIDs = append(chainIDs, binary.LittleEndian.Uint64(id[:]))
					blobs = append(blobs, []byte(suf), append([]byte(suf), 0, 0, 0, 0, 0, 0, 0, 1), append([]byte(suf), id[:]...))
				}
			}
		}
	}
	sort.Slice(pairs, func(i, j int) bool {
		return pairs[i].Contract+pairs[i].Kind+pairs[i].LongerKind < pairs[j].Contract+pairs[j].Kind+pairs[j].LongerKind
	})
	sort.Slice(chainIDs, func(i, j int) bool { return chainIDs[i] < chainIDs[j] })
	sort.Slice(blobs, func(i, j int) bool { return bytes.Compare(blobs[i], blobs[j]) < 0 })
	r.Set("kind_prefix_pairs", pairs)
	r.Count("kind_prefix_pairs", len(pairs))
	if len(chainIDs) > 0 {
		hr := r.N(3, 40)
		off := 0
		runWorkloads(r, "p2", func() *workloads.Palette {
			// rotate so that every workload starts at a different hostile value
			p := &workloads.Palette{}
			for i := range chainIDs {
				p.ChainIDs = append(p.ChainIDs, chainIDs[(i+off)%len(chainIDs)])
			}
			for i := range blobs {
				p.Blobs = append(p.Blobs, blobs[(i+off)%len(blobs)])
			}
			off += 3
			return p
		}, hr)
	}
	r.Count("concat_key_events_pass1", ev1)
	r.Count("concat_key_events_pass2", m.events-ev1)

	ledgerPart(t, r, m)
	accessorPart(r)

	// evidence
	r.Count("distinct_storage_keys", len(m.byKey))
	r.Count("same_kind_different_split", m.splits)
	r.Count("write_set_entries_checked", m.writes)
	r.Count("write_set_entries_of_failed_calls", m.failedW)
	var unreached []string
	nshapes := 0
	for sk, byIdx := range m.shapes {
		nshapes++
		maxParts := 0
		for n := range m.nparts[sk] {
			if n > maxParts {
				maxParts = n
			}
		}
		for i := 1; i < maxParts-1; i++ {
			if len(byIdx[i]) > 1 {
				unreached = append(unreached, fmt.Sprintf("%s: parameter %d has variable length and is followed by another parameter", sk, i))
			}
		}
	}
	sort.Strings(unreached)
	r.Set("variable_length_parameter_followed_by_another", unreached)
	r.Count("key_shapes", nshapes)
	r.Eval(m.events + m.writes)
	r.Require("concat_key_events_pass1", 1500)
	r.Require("write_set_entries_checked", 300)
	r.Require("key_shapes", 20)
	r.Require("ledger_blocks_checked", 5)
	r.Require("accessor_parameter_changes_key", 100)
	r.Require("bor_cross_chain_span_probe", 1)
	ks := map[string][]string{}
	for c, set := range m.kinds {
		for k := range set {
			ks[fmt.Sprintf("%x", c[18:])] = append(ks[fmt.Sprintf("%x", c[18:])], k)
		}
	}
	for _, v := range ks {
		sort.Strings(v)
	}
	r.Sample(map[string]interface{}{"record_kinds_by_contract": ks})
}

// ledgerPart: blocks on a real ledger; ExecuteResult.WriteSet must be confined to ST_STORAGE.
func ledgerPart(t *testing.T, r *kit.Run, m *monitor) {
	config.EXTRA_INFO_HEIGHT_FORK_CHECK = false
	probe.Register()
	rng := r.Rand("ledger")
	vals := pk.NewKeys(rng, 4)
	dir := pk.TempDir("c17")
	defer os.RemoveAll(dir)
	c, err := pk.OpenChain(dir, 3, vals)
	if err != nil {
		r.Inconclusive("open chain: " + err.Error())
		return
	}
	defer c.Close()
	nb := r.N(8, 60)
	for i := 0; i < nb; i++ {
		var txs = c.InvokeTx(probe.Address, "run", probe.Encode(probe.Script{
			probe.Put([]byte(fmt.Sprintf("k%d", rng.Intn(5))), []byte(fmt.Sprintf("v%d", i))),
			probe.Merkle([]byte(fmt.Sprintf("rec-%d", i))),
			probe.Delete([]byte(fmt.Sprintf("k%d", rng.Intn(5)))),
		}))
		failing := c.InvokeTx(probe.Address, "run", probe.Encode(probe.Script{probe.Put([]byte("lost"), []byte("x")), probe.Fail()}))
		gov := c.InvokeTx(utils.NodeManagerContractAddress, "commitDpos", nil, pk.OperatorSigner(pk.SortKeys(vals)))
		blk, res, err := c.AddBlock(txsOf(txs, failing, gov), pk.BlockOpt{})
		if err != nil {
			r.Inconclusive("add block: " + err.Error())
			return
		}
		n := 0
		res.WriteSet.ForEach(func(k, v []byte) {
			n++
			if len(k) == 0 || k[0] != byte(scommon.ST_STORAGE) {
				r.Violation("block-write-set-outside-contract-storage", fmt.Sprintf("block %d write set contains key %x", blk.Header.Height, k), kit.Hex(k))
			}
		})
		r.Count("ledger_write_set_entries", n)
		r.Count("ledger_blocks_checked", 1)
	}
}

func txsOf(txs ...*types.Transaction) []*types.Transaction { return txs }
