// Package genesissynth: genesis-data builders, one per header-sync router (shared by the C19 check
// and the cross-cutting workloads). Every builder is a pure function of Params
// (height, validator seed, validator count, salt), so "the same genesis again" and "a genesis that
// differs only in X" are expressible. The builders use the routers' own exported parameter types
// and the upstream libraries' encoders (go-ethereum JSON/RLP, amino, ontology/neo/btcd binary
// serialisers); they share no code with the SyncGenesisHeader functions under observation.
package genesissynth

import (
	"bytes"
	"crypto/sha256"
	"encoding/binary"
	"encoding/hex"
	"encoding/json"
	"fmt"
	"math/big"
	"math/rand"
	"strconv"
	"strings"
	"time"

	zcore "github.com/Zilliqa/gozilliqa-sdk/core"
	"github.com/btcsuite/btcd/chaincfg/chainhash"
	"github.com/btcsuite/btcd/wire"
	ecommon "github.com/ethereum/go-ethereum/common"
	etypes "github.com/ethereum/go-ethereum/core/types"
	"github.com/ethereum/go-ethereum/rlp"
	neoblock "github.com/joeqian10/neo-gogogo/block"
	neohelper "github.com/joeqian10/neo-gogogo/helper"
	neotx "github.com/joeqian10/neo-gogogo/tx"
	neo3lblock "github.com/joeqian10/neo3-gogogo-legacy/block"
	neo3lhelper "github.com/joeqian10/neo3-gogogo-legacy/helper"
	neo3ltx "github.com/joeqian10/neo3-gogogo-legacy/tx"
	neo3block "github.com/joeqian10/neo3-gogogo/block"
	neo3helper "github.com/joeqian10/neo3-gogogo/helper"
	neo3tx "github.com/joeqian10/neo3-gogogo/tx"
	"github.com/ontio/ontology-crypto/keypair"
	ocommon "github.com/ontio/ontology/common"
	otypes "github.com/ontio/ontology/core/types"
	zlcore "github.com/renlulu/gozilliqa-sdklegacy/core"
	"github.com/tendermint/tendermint/crypto/ed25519"
	tmtypes "github.com/tendermint/tendermint/types"
	tmversion "github.com/tendermint/tendermint/version"

	pcommon "github.com/polynetwork/poly/common"
	vconfig "github.com/polynetwork/poly/consensus/vbft/config"
	"github.com/polynetwork/poly/native/service/header_sync/bsc"
	"github.com/polynetwork/poly/native/service/header_sync/bytom"
	"github.com/polynetwork/poly/native/service/header_sync/cosmos"
	"github.com/polynetwork/poly/native/service/header_sync/eth"
	"github.com/polynetwork/poly/native/service/header_sync/heco"
	"github.com/polynetwork/poly/native/service/header_sync/hsc"
	"github.com/polynetwork/poly/native/service/header_sync/neo"
	"github.com/polynetwork/poly/native/service/header_sync/neo3"
	"github.com/polynetwork/poly/native/service/header_sync/neo3legacy"
	"github.com/polynetwork/poly/native/service/header_sync/okex"
	"github.com/polynetwork/poly/native/service/header_sync/okex/ethsecp256k1"
	"github.com/polynetwork/poly/native/service/header_sync/pixiechain"
	"github.com/polynetwork/poly/native/service/header_sync/polygon"
	ptypes "github.com/polynetwork/poly/native/service/header_sync/polygon/types"
	psecp "github.com/polynetwork/poly/native/service/header_sync/polygon/types/secp256k1"
	"github.com/polynetwork/poly/native/service/header_sync/quorum"
	"github.com/polynetwork/poly/native/service/header_sync/zilliqa"
	"github.com/polynetwork/poly/native/service/header_sync/zilliqalegacy"
	"github.com/polynetwork/poly/native/service/utils"

	"verifharness/kit/pk"
)

// Params determines one genesis blob completely.
type Params struct {
	Height  uint64 // side-chain height of the trust root
	ValSeed int64  // seed of the validator / committee / next-consensus identity (PoW routers: of the header content)
	NVals   int    // number of validators
	Salt    int64  // seed of every other header field (roots, time, vanity, ...)
	// Minimal asks for a degenerate-but-well-formed document: every field the light client does not
	// need is left zero / empty (tendermint family: only chain id, height and the next-validators
	// commitment, so the header hash is nil; Ethereum family: zero hashes, zero difficulty / time /
	// gas, zero vanity and seal bytes). Routers whose builder has no such variant ignore it.
	Minimal bool
	// ChainTag selects the chain-id STRING carried inside the header of the tendermint-family routers
	// (cosmos, okex, heimdall): 0 = the default id, -1 = the empty string, n = "other-chain-n".
	// Routers whose genesis has no such field ignore it.
	ChainTag int
}

func tmChainID(p Params, def string) string {
	switch {
	case p.ChainTag == 0:
		return def
	case p.ChainTag < 0:
		return ""
	}
	return fmt.Sprintf("other-chain-%d", p.ChainTag)
}

type Router struct {
	Name  string
	ID    uint64
	Extra []byte // side-chain ExtraInfo registered through side_chain_manager
	MinH  uint64 // heights are MinH + k*HStep
	HStep uint64
	SpanH uint64 // k < SpanH
	Build func(p Params) ([]byte, error)
	// sync (optional) builds headers that the router's syncBlockHeader accepts after build(p) was
	// installed as genesis, so that later genesis attempts meet a light client that has moved on.
	Sync func(p Params, rng *rand.Rand) ([][]byte, error)
	// Probe (optional) builds follow-up headers that reach the router's header verification after
	// Build(p) was installed but are not expected to be accepted (workloads only; C19 does not use it).
	Probe func(p Params, rng *rand.Rand) ([][]byte, error)
	// HasChainTag: the genesis document carries a chain-id string (Params.ChainTag is honoured).
	HasChainTag bool
}

func rb(rng *rand.Rand, n int) []byte {
	b := make([]byte, n)
	rng.Read(b)
	return b
}

func hash32(rng *rand.Rand) (h ecommon.Hash) { rng.Read(h[:]); return }

func ethAddrs(seed int64, n int) []ecommon.Address {
	rng := rand.New(rand.NewSource(seed))
	out := make([]ecommon.Address, n)
	for i := range out {
		rng.Read(out[i][:])
	}
	return out
}

// cliqueExtra: 32 bytes vanity ‖ N×20 validator addresses ‖ 65 bytes seal (public layout of the
// clique / parlia / congress epoch header).
func cliqueExtra(salt *rand.Rand, vals []ecommon.Address) []byte {
	x := rb(salt, 32)
	for _, v := range vals {
		x = append(x, v[:]...)
	}
	return append(x, rb(salt, 65)...)
}

// gethHeader fills every field of a go-ethereum header; all but Number/Extra come from the salt.
func gethHeader(p Params, salt *rand.Rand, extra []byte) *etypes.Header {
	h := &etypes.Header{
		ParentHash: hash32(salt), UncleHash: hash32(salt), Root: hash32(salt), TxHash: hash32(salt), ReceiptHash: hash32(salt),
		Difficulty: big.NewInt(1 + salt.Int63n(1<<40)), Number: new(big.Int).SetUint64(p.Height),
		GasLimit: 8000000 + uint64(salt.Intn(1000000)), GasUsed: uint64(salt.Intn(8000000)),
		Time: 1500000000 + uint64(salt.Intn(200000000)), Extra: extra, MixDigest: hash32(salt),
	}
	salt.Read(h.Coinbase[:])
	salt.Read(h.Nonce[:])
	salt.Read(h.Bloom[:16])
	if p.Minimal {
		x := append([]byte{}, extra...)
		if len(x) >= 32+65 { // keep the validator bytes, zero vanity and seal
			for i := 0; i < 32; i++ {
				x[i] = 0
			}
			for i := len(x) - 65; i < len(x); i++ {
				x[i] = 0
			}
		} else {
			x = nil
		}
		return &etypes.Header{Difficulty: big.NewInt(0), Number: new(big.Int).SetUint64(p.Height), Extra: x}
	}
	return h
}

// polyEthHeader is the same content in poly's EIP-1559-capable header type (eth, heco, hsc, pixie, bor).
func polyEthHeader(p Params, salt *rand.Rand, extra []byte) eth.Header {
	g := gethHeader(p, salt, extra)
	h := eth.Header{ParentHash: g.ParentHash, UncleHash: g.UncleHash, Coinbase: g.Coinbase, Root: g.Root, TxHash: g.TxHash,
		ReceiptHash: g.ReceiptHash, Bloom: g.Bloom, Difficulty: g.Difficulty, Number: g.Number, GasLimit: g.GasLimit,
		GasUsed: g.GasUsed, Time: g.Time, Extra: g.Extra, MixDigest: g.MixDigest, Nonce: g.Nonce}
	if salt.Intn(2) == 0 && !p.Minimal {
		h.BaseFee = big.NewInt(1 + salt.Int63n(1<<34))
	}
	return h
}

func prevHeight(p Params, salt *rand.Rand) *big.Int {
	d := uint64(1 + salt.Intn(400))
	if d > p.Height {
		d = p.Height
	}
	return new(big.Int).SetUint64(p.Height - d)
}

func saltOf(p Params) *rand.Rand { return rand.New(rand.NewSource(p.Salt)) }

func buildETH(p Params) ([]byte, error) {
	s := saltOf(p)
	// eth is PoW: no validator set; the "validator seed" selects the state root / miner instead
	h := polyEthHeader(p, s, rb(s, s.Intn(33)))
	v := rand.New(rand.NewSource(p.ValSeed))
	v.Read(h.Root[:])
	v.Read(h.Coinbase[:])
	return json.Marshal(h)
}

func buildBSC(p Params) ([]byte, error) {
	s := saltOf(p)
	h := gethHeader(p, s, cliqueExtra(s, ethAddrs(p.ValSeed, p.NVals)))
	return json.Marshal(bsc.GenesisHeader{Header: *h, PrevValidators: []bsc.HeightAndValidators{
		{Height: prevHeight(p, s), Validators: ethAddrs(p.ValSeed^0x5a5a, p.NVals)}}})
}

func buildBytom(p Params) ([]byte, error) {
	s := saltOf(p)
	h := gethHeader(p, s, cliqueExtra(s, ethAddrs(p.ValSeed, p.NVals)))
	return json.Marshal(bytom.GenesisHeader{Header: *h, PrevValidators: []bytom.HeightAndValidators{
		{Height: prevHeight(p, s), Validators: ethAddrs(p.ValSeed^0x5a5a, p.NVals)}}})
}

func buildHeco(p Params) ([]byte, error) {
	s := saltOf(p)
	h := polyEthHeader(p, s, cliqueExtra(s, ethAddrs(p.ValSeed, p.NVals)))
	return json.Marshal(heco.GenesisHeader{Header: h, PrevValidators: []heco.HeightAndValidators{
		{Height: prevHeight(p, s), Validators: ethAddrs(p.ValSeed^0x5a5a, p.NVals)}}})
}

func buildHsc(p Params) ([]byte, error) {
	s := saltOf(p)
	h := polyEthHeader(p, s, cliqueExtra(s, ethAddrs(p.ValSeed, p.NVals)))
	return json.Marshal(hsc.GenesisHeader{Header: h, PrevValidators: []hsc.HeightAndValidators{
		{Height: prevHeight(p, s), Validators: ethAddrs(p.ValSeed^0x5a5a, p.NVals)}}})
}

func buildPixie(p Params) ([]byte, error) {
	s := saltOf(p)
	h := polyEthHeader(p, s, cliqueExtra(s, ethAddrs(p.ValSeed, p.NVals)))
	return json.Marshal(pixiechain.GenesisHeader{Header: h, PrevValidators: []pixiechain.HeightAndValidators{
		{Height: prevHeight(p, s), Validators: ethAddrs(p.ValSeed^0x5a5a, p.NVals)}}})
}

const mscEpoch = 100

func buildMSC(p Params) ([]byte, error) {
	s := saltOf(p)
	return json.Marshal(gethHeader(p, s, cliqueExtra(s, ethAddrs(p.ValSeed, p.NVals))))
}

func buildBor(p Params) ([]byte, error) {
	s := saltOf(p)
	addrs := ethAddrs(p.ValSeed, p.NVals)
	pw := rand.New(rand.NewSource(p.ValSeed ^ 0x77))
	var vals []*polygon.Validator
	for i, a := range addrs {
		vals = append(vals, &polygon.Validator{ID: uint64(i + 1), Address: a, VotingPower: 1 + pw.Int63n(1000000)})
	}
	h := polyEthHeader(p, s, cliqueExtra(s, nil))
	g := polygon.HeaderWithOptionalSnap{Header: h, Snapshot: &polygon.Snapshot{Hash: h.Hash(), ValidatorSet: polygon.NewValidatorSet(vals)}}
	return json.Marshal(g)
}

// probeBor: a child of the genesis header (parent hash = hash of the installed header), which gets
// as far as bor's verifyHeader; it carries no valid seal, so it is refused there.
func probeBor(p Params, rng *rand.Rand) ([][]byte, error) {
	s := saltOf(p)
	parent := polyEthHeader(p, s, cliqueExtra(s, nil))
	q := p
	q.Height = p.Height + 1
	child := polyEthHeader(q, rng, cliqueExtra(rng, nil))
	child.ParentHash = parent.Hash()
	child.Time = parent.Time + 2
	b, err := json.Marshal(polygon.HeaderWithOptionalProof{Header: child})
	if err != nil {
		return nil, err
	}
	return [][]byte{b}, nil
}

func tmTime(s *rand.Rand) time.Time {
	return time.Unix(1500000000+s.Int63n(200000000), int64(s.Intn(1000000000))).UTC()
}

func buildHeimdall(p Params) ([]byte, error) {
	s := saltOf(p)
	v := rand.New(rand.NewSource(p.ValSeed))
	var vals []*ptypes.Validator
	for i := 0; i < p.NVals; i++ {
		vals = append(vals, ptypes.NewValidator(psecp.GenPrivKeySecp256k1(rb(v, 32)).PubKey(), 1+v.Int63n(100000)))
	}
	nextHash := rb(v, 32) // commits to the validator set that signs from Height+1 on
	h := ptypes.Header{ChainID: tmChainID(p, "heimdall-137"), Height: int64(p.Height), Time: tmTime(s), NumTxs: int64(s.Intn(50)), TotalTxs: s.Int63n(1 << 30),
		LastCommitHash: rb(s, 32), DataHash: rb(s, 32), ValidatorsHash: rb(s, 32), NextValidatorsHash: nextHash, ConsensusHash: rb(s, 32),
		AppHash: rb(s, 32), LastResultsHash: rb(s, 32), EvidenceHash: rb(s, 32), ProposerAddress: vals[0].Address}
	h.Version.Block = 10
	if p.Minimal {
		h = ptypes.Header{ChainID: tmChainID(p, "heimdall-137"), Height: int64(p.Height), NextValidatorsHash: nextHash}
	}
	return ptypes.NewCDC().MarshalBinaryBare(polygon.CosmosHeader{Header: h, Valsets: vals})
}

func tmHeader(p Params, s *rand.Rand, valsHash, proposer []byte) tmtypes.Header {
	if p.Minimal {
		return tmtypes.Header{ChainID: tmChainID(p, "c19-chain"), Height: int64(p.Height), NextValidatorsHash: valsHash}
	}
	return tmtypes.Header{Version: tmversion.Consensus{Block: 10, App: tmversion.Protocol(s.Intn(3))}, ChainID: tmChainID(p, "c19-chain"), Height: int64(p.Height), Time: tmTime(s),
		LastBlockID:    tmtypes.BlockID{Hash: rb(s, 32), PartsHeader: tmtypes.PartSetHeader{Total: 1, Hash: rb(s, 32)}},
		LastCommitHash: rb(s, 32), DataHash: rb(s, 32), ValidatorsHash: rb(s, 32), NextValidatorsHash: valsHash, ConsensusHash: rb(s, 32),
		AppHash: rb(s, 32), LastResultsHash: rb(s, 32), EvidenceHash: rb(s, 32), ProposerAddress: proposer}
}

func cosmosVals(p Params) (*tmtypes.ValidatorSet, map[string]ed25519.PrivKeyEd25519) {
	v := rand.New(rand.NewSource(p.ValSeed))
	var vals []*tmtypes.Validator
	privs := map[string]ed25519.PrivKeyEd25519{}
	for i := 0; i < p.NVals; i++ {
		k := ed25519.GenPrivKeyFromSecret(rb(v, 32))
		val := tmtypes.NewValidator(k.PubKey(), 1+v.Int63n(100000))
		vals = append(vals, val)
		privs[val.Address.String()] = k
	}
	return tmtypes.NewValidatorSet(vals), privs
}

func buildCosmos(p Params) ([]byte, error) {
	s := saltOf(p)
	vs, _ := cosmosVals(p)
	h := tmHeader(p, s, vs.Hash(), vs.Validators[0].Address)
	return cosmos.Cdc.MarshalBinaryBare(cosmos.CosmosHeader{Header: h, Valsets: vs.Validators})
}

// syncCosmos: a later header that switches the validator set, committed (tendermint v0.33 vote
// sign bytes, ed25519) by every validator of the set the genesis header announced.
func syncCosmos(p Params, rng *rand.Rand) ([][]byte, error) {
	vs, privs := cosmosVals(p)
	h := tmHeader(Params{Height: p.Height + 1 + uint64(rng.Intn(5000))}, rng, rb(rng, 32), vs.Validators[rng.Intn(len(vs.Validators))].Address)
	h.ValidatorsHash = vs.Hash()
	commit := &tmtypes.Commit{Height: h.Height, Round: rng.Intn(3), BlockID: tmtypes.BlockID{Hash: h.Hash(),
		PartsHeader: tmtypes.PartSetHeader{Total: 1, Hash: rb(rng, 32)}}}
	for _, v := range vs.Validators {
		commit.Signatures = append(commit.Signatures, tmtypes.CommitSig{BlockIDFlag: tmtypes.BlockIDFlagCommit, ValidatorAddress: v.Address, Timestamp: h.Time})
	}
	for i, v := range vs.Validators {
		sig, err := privs[v.Address.String()].Sign(commit.VoteSignBytes(h.ChainID, i))
		if err != nil {
			return nil, err
		}
		commit.Signatures[i].Signature = sig
	}
	b, err := cosmos.Cdc.MarshalBinaryBare(cosmos.CosmosHeader{Header: h, Commit: commit, Valsets: vs.Validators})
	return [][]byte{b}, err
}

func buildOkex(p Params) ([]byte, error) {
	s := saltOf(p)
	v := rand.New(rand.NewSource(p.ValSeed))
	var vals []*tmtypes.Validator
	for i := 0; i < p.NVals; i++ {
		vals = append(vals, tmtypes.NewValidator(ethsecp256k1.PrivKey(rb(v, 32)).PubKey(), 1+v.Int63n(100000)))
	}
	// tendermint's own ValidatorSet.Hash cannot encode the okex key type (not in its global codec):
	// commit to the set with a plain SHA-256 over keys and powers instead
	hh := sha256.New()
	for _, x := range vals {
		hh.Write(x.PubKey.Bytes())
		fmt.Fprintf(hh, "/%d;", x.VotingPower)
	}
	h := tmHeader(p, s, hh.Sum(nil), vals[0].Address)
	return okex.NewCDC().MarshalBinaryBare(okex.CosmosHeader{Header: h, Valsets: vals})
}

func u256(rng *rand.Rand) (u ocommon.Uint256) { rng.Read(u[:]); return }

func buildONT(p Params) ([]byte, error) {
	s := saltOf(p)
	keys := pk.NewKeys(rand.New(rand.NewSource(p.ValSeed)), p.NVals)
	cfg := &vconfig.ChainConfig{Version: 1, View: 1 + uint32(s.Intn(9)), N: uint32(p.NVals), C: uint32((p.NVals - 1) / 3),
		BlockMsgDelay: 10000 * time.Millisecond, HashMsgDelay: 10000 * time.Millisecond, PeerHandshakeTimeout: 10 * time.Second, MaxBlockChangeView: 1000}
	var pubs []keypair.PublicKey
	for i, k := range keys {
		cfg.Peers = append(cfg.Peers, &vconfig.PeerConfig{Index: uint32(i + 1), ID: k.PubHex()})
		cfg.PosTable = append(cfg.PosTable, uint32(i+1))
		pubs = append(pubs, k.Pub)
	}
	payload, err := json.Marshal(&vconfig.VbftBlockInfo{Proposer: 1, VrfValue: rb(s, 64), VrfProof: rb(s, 64),
		LastConfigBlockNum: uint32(p.Height), NewChainConfig: cfg})
	if err != nil {
		return nil, err
	}
	h := &otypes.Header{PrevBlockHash: u256(s), TransactionsRoot: u256(s), BlockRoot: u256(s), Timestamp: 1500000000 + uint32(s.Intn(200000000)),
		Height: uint32(p.Height), ConsensusData: s.Uint64(), ConsensusPayload: payload, Bookkeepers: pubs}
	s.Read(h.NextBookkeeper[:])
	// signature blobs: ECDSA signing is randomised, which would make "the same genesis again"
	// inexpressible; SyncGenesisHeader does not look at them, so they are salt-derived bytes
	for range keys {
		h.SigData = append(h.SigData, rb(s, 64))
	}
	sink := ocommon.NewZeroCopySink(nil)
	h.Serialization(sink)
	return sink.Bytes(), nil
}

// syncONT: the next ont headers, really multi-signed by all consensus peers the genesis announced;
// the last one may announce a new peer set (a new key height).
func syncONT(p Params, rng *rand.Rand) ([][]byte, error) {
	keys := pk.NewKeys(rand.New(rand.NewSource(p.ValSeed)), p.NVals)
	var pubs []keypair.PublicKey
	for _, k := range keys {
		pubs = append(pubs, k.Pub)
	}
	var out [][]byte
	height := uint32(p.Height)
	prev := u256(rng)
	for n := 1 + rng.Intn(2); n > 0; n-- {
		height += 1 + uint32(rng.Intn(3))
		info := &vconfig.VbftBlockInfo{Proposer: 1, VrfValue: rb(rng, 64), VrfProof: rb(rng, 64), LastConfigBlockNum: uint32(p.Height)}
		if n == 1 && rng.Intn(2) == 0 {
			cfg := &vconfig.ChainConfig{Version: 1, View: 2, N: 4, C: 1, MaxBlockChangeView: 1000}
			for i, k := range pk.NewKeys(rng, 4) {
				cfg.Peers = append(cfg.Peers, &vconfig.PeerConfig{Index: uint32(i + 1), ID: k.PubHex()})
				cfg.PosTable = append(cfg.PosTable, uint32(i+1))
			}
			info.NewChainConfig = cfg
			info.LastConfigBlockNum = height
		}
		payload, err := json.Marshal(info)
		if err != nil {
			return nil, err
		}
		h := &otypes.Header{PrevBlockHash: prev, TransactionsRoot: u256(rng), BlockRoot: u256(rng), Timestamp: 1700000000 + height,
			Height: height, ConsensusData: rng.Uint64(), ConsensusPayload: payload, Bookkeepers: pubs}
		hh := h.Hash()
		for _, k := range keys {
			h.SigData = append(h.SigData, k.Sign(hh[:]))
		}
		sink := ocommon.NewZeroCopySink(nil)
		h.Serialization(sink)
		out = append(out, sink.Bytes())
		prev = hh
	}
	return out, nil
}

func buildNEO(p Params) ([]byte, error) {
	s := saltOf(p)
	prev, _ := neohelper.UInt256FromBytes(rb(s, 32))
	root, _ := neohelper.UInt256FromBytes(rb(s, 32))
	next, _ := neohelper.UInt160FromBytes(rb(rand.New(rand.NewSource(p.ValSeed)), 20)) // script hash of the next validators' multi-sig
	h := &neo.NeoBlockHeader{BlockHeader: &neoblock.BlockHeader{PrevHash: prev, MerkleRoot: root, Timestamp: 1468595301 + uint32(s.Intn(100000000)),
		Index: uint32(p.Height), NextConsensus: next, ConsensusData: s.Uint64(),
		Witness: &neotx.Witness{InvocationScript: rb(s, 1+s.Intn(64)), VerificationScript: rb(s, 1+s.Intn(40))}}}
	sink := pcommon.NewZeroCopySink(nil)
	if err := h.Serialization(sink); err != nil {
		return nil, err
	}
	return sink.Bytes(), nil
}

func buildNEO3(p Params) ([]byte, error) {
	s := saltOf(p)
	h := &neo3.NeoBlockHeader{Header: neo3block.NewBlockHeader()}
	h.SetVersion(0)
	h.SetPrevHash(neo3helper.UInt256FromBytes(rb(s, 32)))
	h.SetMerkleRoot(neo3helper.UInt256FromBytes(rb(s, 32)))
	h.SetTimeStamp(1468595301000 + uint64(s.Int63n(100000000000)))
	h.SetNonce(s.Uint64())
	h.SetIndex(uint32(p.Height))
	h.SetPrimaryIndex(byte(s.Intn(7)))
	h.SetNextConsensus(neo3helper.UInt160FromBytes(rb(rand.New(rand.NewSource(p.ValSeed)), 20)))
	h.SetWitnesses([]neo3tx.Witness{{InvocationScript: rb(s, s.Intn(64)), VerificationScript: rb(s, 1+s.Intn(40))}})
	sink := pcommon.NewZeroCopySink(nil)
	if err := h.Serialization(sink); err != nil {
		return nil, err
	}
	return sink.Bytes(), nil
}

func buildNEO3Legacy(p Params) ([]byte, error) {
	s := saltOf(p)
	h := &neo3legacy.NeoBlockHeader{Header: neo3lblock.NewBlockHeader()}
	h.SetVersion(0)
	h.SetPrevHash(neo3lhelper.UInt256FromBytes(rb(s, 32)))
	h.SetMerkleRoot(neo3lhelper.UInt256FromBytes(rb(s, 32)))
	h.SetTimeStamp(1468595301000 + uint64(s.Int63n(100000000000)))
	h.SetIndex(uint32(p.Height))
	h.SetPrimaryIndex(byte(s.Intn(7)))
	h.SetNextConsensus(neo3lhelper.UInt160FromBytes(rb(rand.New(rand.NewSource(p.ValSeed)), 20)))
	h.SetWitnesses([]neo3ltx.Witness{{InvocationScript: rb(s, s.Intn(64)), VerificationScript: rb(s, 1+s.Intn(40))}})
	sink := pcommon.NewZeroCopySink(nil)
	if err := h.Serialization(sink); err != nil {
		return nil, err
	}
	return sink.Bytes(), nil
}

func buildQuorum(p Params) ([]byte, error) {
	s := saltOf(p)
	ist := &quorum.IstanbulExtra{Validators: ethAddrs(p.ValSeed, p.NVals), Seal: rb(s, 65), CommittedSeal: [][]byte{rb(s, 65), rb(s, 65)}}
	payload, err := rlp.EncodeToBytes(ist)
	if err != nil {
		return nil, err
	}
	h := gethHeader(p, s, append(rb(s, quorum.IstanbulExtraVanity), payload...))
	h.MixDigest = quorum.IstanbulDigest
	return json.Marshal(h)
}

func buildBTC(p Params) ([]byte, error) {
	s := saltOf(p)
	v := rand.New(rand.NewSource(p.ValSeed)) // PoW chain: the "validator seed" selects the block content instead
	var prev, root chainhash.Hash
	s.Read(prev[:])
	v.Read(root[:])
	h := wire.BlockHeader{Version: 1 + int32(s.Intn(4)), PrevBlock: prev, MerkleRoot: root, Timestamp: time.Unix(1300000000+s.Int63n(300000000), 0),
		Bits: 0x1d00ffff - uint32(s.Intn(1000)), Nonce: v.Uint32()}
	var buf bytes.Buffer
	if err := h.Serialize(&buf); err != nil {
		return nil, err
	}
	var hb [4]byte
	binary.BigEndian.PutUint32(hb[:], uint32(p.Height))
	return append(buf.Bytes(), hb[:]...), nil
}

// zilliqa / zilliqalegacy: the recorded tx block 1 + DS block 1 + initial committee of the repo's
// tests. Height 1 / ValSeed&3==0 / Salt&1==0 keep the respective recorded part literally;
// otherwise the block number, the committee keys, or the block hash are replaced.
func zilCommittee(p Params) []string {
	if p.ValSeed&3 == 0 {
		return zilInitComm
	}
	v := rand.New(rand.NewSource(p.ValSeed))
	out := make([]string, p.NVals)
	for i := range out {
		out[i] = strings.ToUpper(hex.EncodeToString(append([]byte{2 + byte(v.Intn(2))}, rb(v, 32)...)))
	}
	return out
}

func buildZil(p Params) ([]byte, error) {
	var tx zcore.TxBlock
	var ds zcore.DsBlock
	if err := json.Unmarshal([]byte(zilTxBlockJSON), &tx); err != nil {
		return nil, err
	}
	if err := json.Unmarshal([]byte(zilDsBlockJSON), &ds); err != nil {
		return nil, err
	}
	tx.BlockHeader.BlockNum = p.Height
	if p.Salt&1 == 1 {
		s := saltOf(p)
		s.Read(tx.BlockHash[:])
		tx.BlockHeader.GasUsed = uint64(s.Intn(1000000))
	}
	var comm []zcore.PairOfNode
	for _, k := range zilCommittee(p) {
		comm = append(comm, zcore.PairOfNode{PubKey: k})
	}
	return json.Marshal(&zilliqa.TxBlockAndDsComm{TxBlock: &tx, DsBlock: &ds, DsComm: comm})
}

func buildZilLegacy(p Params) ([]byte, error) {
	var tx zlcore.TxBlock
	var ds zlcore.DsBlock
	if err := json.Unmarshal([]byte(zilTxBlockJSON), &tx); err != nil {
		return nil, err
	}
	if err := json.Unmarshal([]byte(zilDsBlockJSON), &ds); err != nil {
		return nil, err
	}
	tx.BlockHeader.BlockNum = p.Height
	if p.Salt&1 == 1 {
		s := saltOf(p)
		s.Read(tx.BlockHash[:])
		tx.BlockHeader.GasUsed = uint64(s.Intn(1000000))
	}
	var comm []zlcore.PairOfNode
	for _, k := range zilCommittee(p) {
		comm = append(comm, zlcore.PairOfNode{PubKey: k})
	}
	return json.Marshal(&zilliqalegacy.TxBlockAndDsComm{TxBlock: &tx, DsBlock: &ds, DsComm: comm})
}

// starcoin: two recorded header+info blobs of the repo's tests (main-net block 0 and 2810118),
// selected by the parity of ValSeed (PoW chain: no validator set). The recordings predate the
// starcoin-go version poly builds with (the repo's own TestSyncGenesisHeaders is switched off for
// that reason), so they are normalised to the current JSON shape: accumulator counters become
// strings and block_info.block_id is named block_hash. Height 0 keeps the recorded block number,
// an even salt keeps the recorded timestamp / nonce; otherwise they are replaced.
func buildSTC(p Params) ([]byte, error) {
	base := stcMainHeaderJSON
	if p.ValSeed&1 == 1 {
		base = stcHeader2810118JSON
	}
	var doc map[string]interface{}
	dec := json.NewDecoder(strings.NewReader(base))
	dec.UseNumber()
	if err := dec.Decode(&doc); err != nil {
		return nil, err
	}
	hdr, ok := doc["header"].(map[string]interface{})
	info, ok2 := doc["block_info"].(map[string]interface{})
	if !ok || !ok2 {
		return nil, fmt.Errorf("recorded starcoin blob has no header / block_info")
	}
	if id, ok := info["block_id"]; ok {
		info["block_hash"] = id
		delete(info, "block_id")
	}
	for _, k := range []string{"txn_accumulator_info", "block_accumulator_info"} {
		acc, ok := info[k].(map[string]interface{})
		if !ok {
			return nil, fmt.Errorf("recorded starcoin blob has no %s", k)
		}
		for _, f := range []string{"num_leaves", "num_nodes"} {
			acc[f] = fmt.Sprint(acc[f])
		}
	}
	if p.Height != 0 {
		hdr["number"] = strconv.FormatUint(p.Height, 10)
	}
	if p.Salt&1 == 1 {
		s := saltOf(p)
		hdr["timestamp"] = strconv.FormatInt(1621311100863+s.Int63n(1000000000), 10)
		hdr["nonce"] = json.Number(strconv.Itoa(s.Intn(1 << 31)))
	}
	return json.Marshal(doc)
}

func mustJSON(v interface{}) []byte {
	b, err := json.Marshal(v)
	if err != nil {
		panic(err)
	}
	return b
}

// routers lists every header-sync router except harmony (BLS stub: cannot be exercised).
func Routers() []Router {
	chainID := func(n int64) []byte { return mustJSON(map[string]interface{}{"ChainID": n}) }
	return []Router{
		{Name: "eth", ID: utils.ETH_ROUTER, MinH: 0, HStep: 1, SpanH: 15000000, Build: buildETH},
		{Name: "bsc", ID: utils.BSC_ROUTER, Extra: chainID(56), MinH: 200, HStep: 200, SpanH: 100000, Build: buildBSC},
		{Name: "heco", ID: utils.HECO_ROUTER, Extra: chainID(128), MinH: 200, HStep: 200, SpanH: 100000, Build: buildHeco},
		{Name: "hsc", ID: utils.HSC_ROUTER, Extra: chainID(70), MinH: 200, HStep: 200, SpanH: 100000, Build: buildHsc},
		{Name: "pixiechain", ID: utils.PIXIECHAIN_ROUTER, Extra: mustJSON(map[string]interface{}{"ChainID": 6626, "Period": 3}), MinH: 1, HStep: 1, SpanH: 10000000, Build: buildPixie},
		{Name: "bytom", ID: utils.BYTOM_ROUTER, Extra: chainID(188), MinH: 200, HStep: 200, SpanH: 100000, Build: buildBytom},
		{Name: "msc", ID: utils.MSC_ROUTER, Extra: mustJSON(map[string]interface{}{"ChainID": 1001, "Period": 3, "Epoch": mscEpoch}), MinH: 0, HStep: mscEpoch, SpanH: 100000, Build: buildMSC},
		{Name: "bor", ID: utils.POLYGON_BOR_ROUTER, Extra: mustJSON(polygon.ExtraInfo{Sprint: 64, Period: 2, ProducerDelay: 6, BackupMultiplier: 2, HeimdallPolyChainID: 99}), MinH: 0, HStep: 64, SpanH: 400000, Build: buildBor, Probe: probeBor},
		{Name: "heimdall", ID: utils.POLYGON_HEIMDALL_ROUTER, MinH: 1, HStep: 1, SpanH: 9000000, Build: buildHeimdall, HasChainTag: true},
		{Name: "cosmos", ID: utils.COSMOS_ROUTER, MinH: 1, HStep: 1, SpanH: 9000000, Build: buildCosmos, Sync: syncCosmos, HasChainTag: true},
		{Name: "okex", ID: utils.OKEX_ROUTER, MinH: 1, HStep: 1, SpanH: 9000000, Build: buildOkex, HasChainTag: true},
		{Name: "ont", ID: utils.ONT_ROUTER, MinH: 0, HStep: 1, SpanH: 12000000, Build: buildONT, Sync: syncONT},
		{Name: "neo", ID: utils.NEO_ROUTER, MinH: 0, HStep: 1, SpanH: 8000000, Build: buildNEO},
		{Name: "neo3", ID: utils.NEO3_ROUTER, MinH: 0, HStep: 1, SpanH: 3000000, Build: buildNEO3},
		{Name: "neo3legacy", ID: utils.NEO3_LEGACY_ROUTER, MinH: 0, HStep: 1, SpanH: 3000000, Build: buildNEO3Legacy},
		{Name: "quorum", ID: utils.QUORUM_ROUTER, MinH: 0, HStep: 1, SpanH: 20000000, Build: buildQuorum},
		{Name: "btc", ID: utils.BTC_ROUTER, MinH: 0, HStep: 1, SpanH: 800000, Build: buildBTC},
		{Name: "zilliqa", ID: utils.ZILLIQA_ROUTER, Extra: mustJSON(map[string]interface{}{"NumOfGuardList": 9}), MinH: 1, HStep: 1, SpanH: 2000000, Build: buildZil},
		{Name: "zilliqalegacy", ID: utils.ZILLIQA_LEGACY_ROUTER, Extra: mustJSON(map[string]interface{}{"NumOfGuardList": 9}), MinH: 1, HStep: 1, SpanH: 2000000, Build: buildZilLegacy},
		{Name: "starcoin", ID: utils.STARCOIN_ROUTER, MinH: 0, HStep: 1, SpanH: 3000000, Build: buildSTC},
	}
}
