#!/bin/bash
# Runs the repository's pinned baseline test command with the verif guard OFF (no -tags verif) and
# compares the result with BASELINE.json's stable_pass list. Uses a copied modfile so /repo/go.mod
# and go.sum are not rewritten.
set -u
export GOFLAGS=-mod=mod GOPROXY=off GOSUMDB=off GOTOOLCHAIN=local
TMP=$(mktemp -d /var/tmp/verif-baseline-XXXXXX)
trap 'rm -rf "$TMP"' EXIT
cp /repo/go.mod "$TMP/go.mod"; cp /repo/go.sum "$TMP/go.sum"
(cd /repo && go test -modfile="$TMP/go.mod" -json -vet=off -count=1 -timeout 25m ./... > "$TMP/out.json" 2>"$TMP/err.txt")
python3 - "$TMP/out.json" <<'PY'
import json, sys
base = json.load(open("/root/.vp/BASELINE.json"))
want = set(base["stable_pass"])
passed = set()
for l in open(sys.argv[1], errors="replace"):
    try:
        e = json.loads(l)
    except Exception:
        continue
    if e.get("Action") == "pass" and e.get("Test"):
        passed.add("%s::%s" % (e["Package"], e["Test"]))
missing = sorted(want - passed)
print("baseline stable_pass=%d passed_now=%d missing=%d" % (len(want), len(want & passed), len(missing)))
for m in missing:
    print("MISSING", m)
sys.exit(1 if missing else 0)
PY
