// Package pk: poly-specific helpers shared by the checks — deterministic keys, signed transactions,
// a real LedgerStoreImp in a scratch directory and a block builder that produces well-formed
// successors the way consensus does. Nothing here re-implements poly logic: it only calls it.
package pk

import (
	"crypto/elliptic"
	"encoding/hex"
	"encoding/json"
	"fmt"
	"io/ioutil"
	"math"
	"math/rand"
	"os"
	"sort"
	"strings"

	"github.com/ontio/ontology-crypto/ec"
	"github.com/ontio/ontology-crypto/keypair"
	s "github.com/ontio/ontology-crypto/signature"
	"github.com/polynetwork/poly/common"
	"github.com/polynetwork/poly/common/config"
	"github.com/polynetwork/poly/common/log"
	vconfig "github.com/polynetwork/poly/consensus/vbft/config"
	"github.com/polynetwork/poly/core/genesis"
	"github.com/polynetwork/poly/core/payload"
	"github.com/polynetwork/poly/core/signature"
	"github.com/polynetwork/poly/core/store"
	"github.com/polynetwork/poly/core/store/ledgerstore"
	"github.com/polynetwork/poly/core/types"
	"github.com/polynetwork/poly/native/states"
)

func init() {
	// poly logs through a global logger that is nil until initialised
	log.InitLog(log.ErrorLog)
	if os.Getenv("VERIF_POLYLOG") != "" {
		log.InitLog(log.DebugLog, os.Stdout)
	}
}

// Key is an ECDSA P-256 account.
type Key struct {
	Priv keypair.PrivateKey
	Pub  keypair.PublicKey
	Addr common.Address
}

func (k *Key) PrivKey() keypair.PrivateKey  { return k.Priv }
func (k *Key) PubKey() keypair.PublicKey    { return k.Pub }
func (k *Key) Scheme() s.SignatureScheme    { return s.SHA256withECDSA }
func (k *Key) PubHex() string               { return hex.EncodeToString(keypair.SerializePublicKey(k.Pub)) }
func (k *Key) PubBytes() []byte             { return keypair.SerializePublicKey(k.Pub) }
func (k *Key) Sign(data []byte) []byte {
	sig, err := signature.Sign(k, data)
	if err != nil {
		panic(err)
	}
	return sig
}

// NewKey derives a P-256 key from the PRNG (deterministic in the seed).
func NewKey(rng *rand.Rand) *Key {
	d := make([]byte, 32)
	for {
		rng.Read(d)
		d[0] &= 0x7f
		nz := false
		for _, b := range d {
			if b != 0 {
				nz = true
			}
		}
		if nz {
			break
		}
	}
	priv := &ec.PrivateKey{Algorithm: ec.ECDSA, PrivateKey: ec.ConstructPrivateKey(d, elliptic.P256())}
	pub := &ec.PublicKey{Algorithm: ec.ECDSA, PublicKey: &priv.PublicKey}
	return &Key{Priv: priv, Pub: pub, Addr: types.AddressFromPubKey(pub)}
}

// NewKeys returns n keys.
func NewKeys(rng *rand.Rand, n int) []*Key {
	ks := make([]*Key, n)
	for i := range ks {
		ks[i] = NewKey(rng)
	}
	return ks
}

// Pubs lists the public keys.
func Pubs(ks []*Key) []keypair.PublicKey {
	out := make([]keypair.PublicKey, len(ks))
	for i, k := range ks {
		out[i] = k.Pub
	}
	return out
}

// Signer is one signature entry of a transaction: a single key (len(Keys)==1) or an m-of-n entry
// where SignWith lists which keys actually sign (default: the first M).
type Signer struct {
	Keys     []*Key
	M        int
	SignWith []*Key
}

// Single makes a single-key signer.
func Single(k *Key) Signer { return Signer{Keys: []*Key{k}, M: 1} }

// Multi makes an m-of-n signer signed by the first m keys.
func Multi(ks []*Key, m int) Signer { return Signer{Keys: ks, M: m} }

// OperatorSigner is the consensus operator multi-sig of the given validator keys
// (m = n - (n-1)/3, as in types.AddressFromBookkeepers).
func OperatorSigner(ks []*Key) Signer {
	n := len(ks)
	if n == 1 {
		return Single(ks[0])
	}
	return Multi(ks, n-(n-1)/3)
}

// Address of the entry as poly derives it.
func (sg Signer) Address() common.Address {
	if len(sg.Keys) == 1 {
		return sg.Keys[0].Addr
	}
	a, _ := types.AddressFromMultiPubKeys(Pubs(sg.Keys), sg.M)
	return a
}

// InvokeCode builds the native invoke payload.
func InvokeCode(contract common.Address, method string, args []byte) []byte {
	p := &states.ContractInvokeParam{Address: contract, Method: method, Args: args}
	sink := common.NewZeroCopySink(nil)
	p.Serialization(sink)
	return sink.Bytes()
}

// MakeTx builds an immutable, really signed invoke transaction (hash computed by poly's decoder).
func MakeTx(chainID uint64, nonce uint32, code []byte, signers ...Signer) *types.Transaction {
	tx := &types.Transaction{Version: types.CURR_TX_VERSION, TxType: types.Invoke, Nonce: nonce, ChainID: chainID,
		Payload: &payload.InvokeCode{Code: code}}
	sink := common.NewZeroCopySink(nil)
	if err := tx.Serialization(sink); err != nil {
		panic(err)
	}
	t0, err := types.TransactionFromRawBytes(sink.Bytes())
	if err != nil {
		panic(err)
	}
	if len(signers) == 0 {
		return t0
	}
	h := t0.Hash()
	for _, sg := range signers {
		sig := types.Sig{PubKeys: Pubs(sg.Keys), M: uint16(sg.M)}
		with := sg.SignWith
		if with == nil {
			with = sg.Keys[:sg.M]
		}
		for _, k := range with {
			sig.SigData = append(sig.SigData, k.Sign(h[:]))
		}
		tx.Sigs = append(tx.Sigs, sig)
	}
	sink = common.NewZeroCopySink(nil)
	if err := tx.Serialization(sink); err != nil {
		panic(err)
	}
	t1, err := types.TransactionFromRawBytes(sink.Bytes())
	if err != nil {
		panic(err)
	}
	return t1
}

// ---------------------------------------------------------------------------------------------

// Chain is a real ledger store plus what is needed to extend it with well-formed blocks.
type Chain struct {
	Dir        string
	Store      *ledgerstore.LedgerStoreImp
	Validators []*Key // validator set in force for *blocks* (sorted as poly sorts bookkeepers)
	Genesis    *types.Block
	ChainID    uint64
	LastCfg    uint32 // height of the last block carrying NewChainConfig
	Nonce      uint32
}

const vrfHex = "1c9810aa9822e511d5804a9c4db9dd08497c31087b0daafa34d768a3253441fa20515e2f30f81741102af0ca3cefc4818fef16adb825fbaa8cad78647f3afb590e"

// SetConfig installs the global configuration the ledger code reads (vbft consensus, the given
// network id, event log on). Returns the VBFT genesis config for the validators.
func SetConfig(netID uint32, validators []*Key) *config.VBFTConfig {
	peers := make([]*config.VBFTPeerInfo, len(validators))
	for i, k := range validators {
		peers[i] = &config.VBFTPeerInfo{Index: uint32(i + 1), PeerPubkey: k.PubHex(), Address: k.Addr.ToBase58()}
	}
	vb := &config.VBFTConfig{BlockMsgDelay: 10000, HashMsgDelay: 10000, PeerHandshakeTimeout: 10,
		MaxBlockChangeView: 100, VrfValue: vrfHex, VrfProof: vrfHex + vrfHex[:2], Peers: peers}
	config.DefConfig.Genesis.ConsensusType = "vbft"
	config.DefConfig.Genesis.VBFT = vb
	config.DefConfig.P2PNode.NetworkId = netID
	config.DefConfig.Common.EnableEventLog = true
	return vb
}

// SortKeys orders keys as keypair.SortPublicKeys orders their public keys.
func SortKeys(ks []*Key) []*Key {
	pubs := keypair.SortPublicKeys(Pubs(ks))
	out := make([]*Key, 0, len(ks))
	for _, p := range pubs {
		for _, k := range ks {
			if keypair.ComparePublicKey(p, k.Pub) {
				out = append(out, k)
				break
			}
		}
	}
	return out
}

// BuildGenesis builds the genesis block for the validators with the currently installed config.
func BuildGenesis(validators []*Key) (*types.Block, error) {
	return genesis.BuildGenesisBlock(Pubs(validators), config.DefConfig.Genesis)
}

// OpenChain opens (or creates) a ledger in dir with the real NewLedgerStore +
// InitLedgerStoreWithGenesisBlock (which runs recoverStore on an existing directory).
func OpenChain(dir string, netID uint32, validators []*Key) (*Chain, error) {
	SetConfig(netID, validators)
	gb, err := BuildGenesis(validators)
	if err != nil {
		return nil, err
	}
	st, err := ledgerstore.NewLedgerStore(dir)
	if err != nil {
		return nil, err
	}
	if err := st.InitLedgerStoreWithGenesisBlock(gb, Pubs(validators)); err != nil {
		st.Close()
		return nil, err
	}
	c := &Chain{Dir: dir, Store: st, Validators: validators, Genesis: gb, ChainID: gb.Header.ChainID}
	// find the last config block (walk back from the tip)
	h := st.GetCurrentBlockHeight()
	hdr, err := st.GetHeaderByHeight(h)
	if err != nil {
		return nil, err
	}
	info, err := vconfig.VbftBlock(hdr)
	if err != nil {
		return nil, err
	}
	if info.NewChainConfig != nil {
		c.LastCfg = h
	} else {
		c.LastCfg = info.LastConfigBlockNum
	}
	return c, nil
}

// Close closes the store.
func (c *Chain) Close() { c.Store.Close() }

// BlockOpt tunes the block builder; zero value = honest block signed by the first m validators.
type BlockOpt struct {
	Signers     []*Key       // who signs (default: first quorum of c.Validators)
	NewConfig   []*Key       // announce a new validator set in this block
	TimeDelta   uint32       // timestamp = tip timestamp + TimeDelta (default 1)
	Mutate      func(h *types.Header) // applied before signing
	MutateAfter func(b *types.Block)  // applied after signing
}

// Quorum is N - (N-1)/3.
func Quorum(n int) int { return n - (n-1)/3 }

// ChainConfigFor builds a vbft ChainConfig for a validator set (via poly's own generator).
func ChainConfigFor(validators []*Key, view uint32, height uint32) *vconfig.ChainConfig {
	peers := make([]*config.VBFTPeerInfo, len(validators))
	for i, k := range validators {
		peers[i] = &config.VBFTPeerInfo{Index: uint32(i + 1), PeerPubkey: k.PubHex(), Address: k.Addr.ToBase58()}
	}
	cc, err := vconfig.GenesisChainConfig(config.DefConfig.Genesis.VBFT, peers, height)
	if err != nil {
		panic(err)
	}
	cc.View = view
	return cc
}

// BuildBlock executes txs on top of the tip (ExecuteBlock) and returns the signed successor
// together with its execution result. The ledger is not modified.
func (c *Chain) BuildBlock(txs []*types.Transaction, opt BlockOpt) (*types.Block, store.ExecuteResult, error) {
	st := c.Store
	tipH := st.GetCurrentBlockHeight()
	tipHash := st.GetCurrentBlockHash()
	tip, err := st.GetHeaderByHash(tipHash)
	if err != nil {
		return nil, store.ExecuteResult{}, err
	}
	dt := opt.TimeDelta
	if dt == 0 {
		dt = 1
	}
	info := &vconfig.VbftBlockInfo{Proposer: 1, LastConfigBlockNum: c.LastCfg}
	if opt.NewConfig != nil {
		info.NewChainConfig = ChainConfigFor(opt.NewConfig, 2, tipH+1)
	}
	payloadBytes, _ := json.Marshal(info)
	hdr := &types.Header{Version: types.CURR_HEADER_VERSION, ChainID: c.ChainID, PrevBlockHash: tipHash,
		Timestamp: tip.Timestamp + dt, Height: tipH + 1, ConsensusData: uint64(tipH) + 7, ConsensusPayload: payloadBytes}
	blk := &types.Block{Header: hdr, Transactions: txs}
	blk.RebuildMerkleRoot()
	hdr.BlockRoot = st.GetBlockRootWithPreBlockHashes(hdr.Height, []common.Uint256{tipHash})
	res, err := st.ExecuteBlock(blk)
	if err != nil {
		return nil, res, fmt.Errorf("ExecuteBlock: %v", err)
	}
	hdr.CrossStateRoot = res.CrossStatesRoot
	if opt.Mutate != nil {
		opt.Mutate(hdr)
	}
	signers := opt.Signers
	if signers == nil {
		signers = c.Validators[:Quorum(len(c.Validators))]
	}
	SignHeader(hdr, signers)
	if opt.MutateAfter != nil {
		opt.MutateAfter(blk)
	}
	return blk, res, nil
}

// SignHeader sets Bookkeepers/SigData to the given signers' signatures over the header hash.
func SignHeader(hdr *types.Header, signers []*Key) {
	hdr.Bookkeepers = nil
	hdr.SigData = nil
	h := HeaderHashFresh(hdr)
	for _, k := range signers {
		hdr.Bookkeepers = append(hdr.Bookkeepers, k.Pub)
		hdr.SigData = append(hdr.SigData, k.Sign(h[:]))
	}
}

// HeaderHashFresh recomputes the header hash from a copy (Header caches its hash).
func HeaderHashFresh(hdr *types.Header) common.Uint256 {
	cp := *hdr
	raw := cp.ToArray()
	h2, err := types.HeaderFromRawBytes(raw)
	if err != nil {
		panic(err)
	}
	return h2.Hash()
}

// Reparse round-trips a block through its encoding so that cached hashes are those of the bytes.
func Reparse(b *types.Block) (*types.Block, error) {
	return types.BlockFromRawBytes(b.ToArray())
}

// AddBlock builds and commits the next block through ExecuteBlock + SubmitBlock (the consensus
// path). Returns the committed block and its execution result.
func (c *Chain) AddBlock(txs []*types.Transaction, opt BlockOpt) (*types.Block, store.ExecuteResult, error) {
	blk, res, err := c.BuildBlock(txs, opt)
	if err != nil {
		return nil, res, err
	}
	blk, err = Reparse(blk)
	if err != nil {
		return nil, res, err
	}
	if err := c.Store.SubmitBlock(blk, res); err != nil {
		return blk, res, err
	}
	if c.Store.GetCurrentBlockHeight() == blk.Header.Height && opt.NewConfig != nil {
		c.LastCfg = blk.Header.Height
		c.Validators = opt.NewConfig
	}
	return blk, res, nil
}

// InvokeTx is a convenience: signed invoke tx with a fresh nonce on this chain.
func (c *Chain) InvokeTx(contract common.Address, method string, args []byte, signers ...Signer) *types.Transaction {
	c.Nonce++
	return MakeTx(c.ChainID, c.Nonce, InvokeCode(contract, method, args), signers...)
}

// StateDigest hashes every key/value of the state DB visible through the ledger's exported
// iterator-free API is not available, so the digest is computed over the write sets by callers;
// here we expose the two roots the ledger itself maintains.
func (c *Chain) Roots(height uint32) (stateRoot common.Uint256, err error) {
	return c.Store.GetStateMerkleRoot(height)
}

// TempDir creates a scratch directory under $VERIF_TMP (outside /repo and /verif).
func TempDir(name string) string {
	base := os.Getenv("VERIF_TMP")
	if base == "" {
		base = os.TempDir()
	}
	d, err := ioutil.TempDir(base, name)
	if err != nil {
		panic(err)
	}
	return d
}

// SortedHex returns sorted hex strings (stable sample output).
func SortedHex(bs [][]byte) []string {
	out := make([]string, len(bs))
	for i, b := range bs {
		out[i] = hex.EncodeToString(b)
	}
	sort.Strings(out)
	return out
}

var _ = math.MaxUint32
var _ = strings.ToLower
