// C08: proofs served to relayers verify against committed roots.
//
// A real ledger (core/ledger.Ledger over a real LedgerStoreImp, installed as ledger.DefLedger) is
// extended with blocks whose transactions create cross-chain records through the REAL
// cross_chain_manager.MakeTransaction (invoked from the probe contract), 0..N records per block at
// every odd/even shape. The check then plays relayer: it reads the makeProof events through the RPC
// handler, asks the RPC handlers getcrossstatesproof / getmerkleproof for proofs and verifies them
// against the committed headers with poly's MerkleProve AND with an independent verifier written
// from the target-chain contract specification (fold 0x00-leaf / 0x01-node SHA-256 hashes).
package c08

import (
	"bytes"
	"crypto/sha256"
	"encoding/hex"
	"fmt"
	"os"
	"testing"

	"verifharness/kit"
	"verifharness/kit/pk"
	"verifharness/probe"

	"github.com/polynetwork/poly/common"
	"github.com/polynetwork/poly/core/ledger"
	"github.com/polynetwork/poly/core/states"
	"github.com/polynetwork/poly/core/store"
	"github.com/polynetwork/poly/core/store/ledgerstore"
	"github.com/polynetwork/poly/core/types"
	bcomn "github.com/polynetwork/poly/http/base/common"
	"github.com/polynetwork/poly/http/base/rpc"
	"github.com/polynetwork/poly/merkle"
	scom "github.com/polynetwork/poly/native/service/cross_chain_manager/common"
	"github.com/polynetwork/poly/native/service/utils"
)

// relayerVerify is the verifier of the target-chain contracts (e.g. eth ECCUtils.merkleProve):
// value = var-bytes; h = sha256(0x00||value); for each 33-byte node (pos, hash):
// pos==0 -> h = sha256(0x01||node||h) else h = sha256(0x01||h||node); accept iff h == root.
func relayerVerify(proof []byte, root [32]byte) ([]byte, bool) {
	if len(proof) == 0 {
		return nil, false
	}
	// var-uint length
	var n uint64
	off := 0
	switch proof[0] {
	case 0xfd:
		if len(proof) < 3 {
			return nil, false
		}
		n = uint64(proof[1]) | uint64(proof[2])<<8
		off = 3
	case 0xfe:
		if len(proof) < 5 {
			return nil, false
		}
		n = uint64(proof[1]) | uint64(proof[2])<<8 | uint64(proof[3])<<16 | uint64(proof[4])<<24
		off = 5
	case 0xff:
		return nil, false
	default:
		n = uint64(proof[0])
		off = 1
	}
	if uint64(len(proof)-off) < n {
		return nil, false
	}
	value := proof[off : off+int(n)]
	rest := proof[off+int(n):]
	if len(rest)%33 != 0 {
		return nil, false
	}
	h := sha256.Sum256(append([]byte{0}, value...))
	for i := 0; i < len(rest); i += 33 {
		node := rest[i+1 : i+33]
		var buf []byte
		if rest[i] == 0 {
			buf = append(append([]byte{1}, node...), h[:]...)
		} else {
			buf = append(append([]byte{1}, h[:]...), node...)
		}
		h = sha256.Sum256(buf)
	}
	return value, h == root
}

type record struct {
	key   []byte // full storage key (contract address + key)
	value []byte
	real  bool // produced by the real MakeTransaction (else: raw probe record)
}

type env struct {
	r     *kit.Run
	chain *pk.Chain
	l     *ledger.Ledger
	recs  map[uint32][]record
	hdrs  map[uint32]*types.Header
	seq   uint64
	// crash-recovery phase
	dir       string
	vals      []*pk.Key
	crashNext bool // commit the next block with a simulated crash between the block-store and state-store commits
}

func requestKey(toChain uint64, txHash common.Uint256) []byte {
	var le [8]byte
	for i := 0; i < 8; i++ {
		le[i] = byte(toChain >> (8 * uint(i)))
	}
	k := append([]byte{}, utils.CrossChainManagerContractAddress[:]...)
	k = append(k, []byte("request")...)
	k = append(k, le[:]...)
	return append(k, txHash.ToArray()...)
}

func rpcResult(m map[string]interface{}) (interface{}, bool) {
	if code, ok := m["error"].(int64); !ok || code != 0 {
		return m["result"], false
	}
	return m["result"], true
}

// servedCrossProof asks the RPC handler exactly as a relayer does.
func servedCrossProof(height uint32, key []byte) ([]byte, error) {
	res, ok := rpcResult(rpc.GetCrossStatesProof([]interface{}{float64(height), hex.EncodeToString(key)}))
	if !ok {
		return nil, fmt.Errorf("rpc error: %v", res)
	}
	mp, isProof := res.(bcomn.MerkleProof)
	if !isProof {
		return nil, fmt.Errorf("unexpected rpc result %T", res)
	}
	return hex.DecodeString(mp.AuditPath)
}

func servedBlockProof(h, root uint32) ([]byte, error) {
	res, ok := rpcResult(rpc.GetMerkleProof([]interface{}{float64(h), float64(root)}))
	if !ok {
		return nil, fmt.Errorf("rpc error: %v", res)
	}
	mp, isProof := res.(bcomn.MerkleProof)
	if !isProof {
		return nil, fmt.Errorf("unexpected rpc result %T", res)
	}
	return hex.DecodeString(mp.AuditPath)
}

// addBlock commits one block with nrec cross-chain records (shape: how they are produced).
func (e *env) addBlock(nrec int, shape string) uint32 {
	r := e.r
	rng := r.Rand(fmt.Sprintf("block-%d", e.chain.Store.GetCurrentBlockHeight()+1))
	type pend struct {
		tx    *types.Transaction
		build func(h common.Uint256) []record
	}
	var txs []*types.Transaction
	var pends []pend
	left := nrec
	val := func(n int) []byte {
		b := make([]byte, n)
		rng.Read(b)
		return b
	}
	for left > 0 {
		per := 1 + rng.Intn(6)
		if shape == "huge" {
			per = 200
		}
		if per > left {
			per = left
		}
		var s probe.Script
		type mk struct {
			p    *scom.MakeTxParam
			from uint64
		}
		var mks []mk
		var raws []record
		for j := 0; j < per; j++ {
			e.seq++
			if shape == "raw" || (shape == "mixed" && rng.Intn(3) == 0) {
				k := []byte(fmt.Sprintf("rec-%d", e.seq))
				d := val(1 + rng.Intn(60))
				s = append(s, probe.Put(k, d), probe.Merkle(d))
				raws = append(raws, record{key: probe.StorageKey(k), value: d})
				continue
			}
			p := &scom.MakeTxParam{TxHash: val(32), CrossChainID: val(1 + rng.Intn(32)), FromContractAddress: val(20),
				ToChainID: uint64(2 + j), ToContractAddress: val(20), Method: "unlock", Args: val(rng.Intn(120))}
			if shape == "dup" && j > 0 && rng.Intn(2) == 0 {
				// same target chain and same parameters again in this tx: same key, same value, equal leaves
				p = mks[len(mks)-1].p
				mks = append(mks, mk{p, mks[len(mks)-1].from})
				s = append(s, probe.MakeTx(p, mks[len(mks)-1].from))
				continue
			}
			from := uint64(1 + rng.Intn(9))
			mks = append(mks, mk{p, from})
			s = append(s, probe.MakeTx(p, from))
			if rng.Intn(5) == 0 {
				s = append(s, probe.Notify(val(3))) // unrelated events between the records
			}
		}
		tx := e.chain.InvokeTx(probe.Address, probe.Method, probe.Encode(s))
		txs = append(txs, tx)
		mksC, rawsC := mks, raws
		pends = append(pends, pend{tx, func(h common.Uint256) []record {
			var out []record
			for _, m := range mksC {
				mv := &scom.ToMerkleValue{TxHash: h.ToArray(), FromChainID: m.from, MakeTxParam: m.p}
				sink := common.NewZeroCopySink(nil)
				mv.Serialization(sink)
				out = append(out, record{key: requestKey(m.p.ToChainID, h), value: append([]byte{}, sink.Bytes()...), real: true})
			}
			return append(out, rawsC...)
		}})
		left -= per
		// now and then a failing transaction that had already emitted a record: it must leave nothing
		if shape != "huge" && rng.Intn(4) == 0 {
			p := &scom.MakeTxParam{TxHash: val(32), CrossChainID: val(4), ToChainID: 77, Method: "unlock"}
			txs = append(txs, e.chain.InvokeTx(probe.Address, probe.Method, probe.Encode(probe.Script{probe.MakeTx(p, 3), probe.Merkle(val(5)), probe.Fail()})))
			r.Count("failing_txs_with_records_in_blocks", 1)
		}
	}
	var blk *types.Block
	var res store.ExecuteResult
	var err error
	if e.crashNext {
		blk, res, err = e.crashCommit(txs)
	} else {
		blk, res, err = e.chain.AddBlock(txs, pk.BlockOpt{})
	}
	if err != nil {
		r.Violation("honest-block-refused", fmt.Sprintf("block with %d records (%s) refused: %v", nrec, shape, err), nil)
		return 0
	}
	h := blk.Header.Height
	var recs []record
	for _, p := range pends {
		recs = append(recs, p.build(p.tx.Hash())...)
	}
	if len(res.CrossHashes) != len(recs) {
		r.Violation("record-count", fmt.Sprintf("height %d: %d cross hashes for %d records", h, len(res.CrossHashes), len(recs)), nil)
	}
	e.recs[h] = recs
	hdr, err := e.l.GetHeaderByHeight(h)
	if err != nil || hdr == nil {
		r.Violation("header-missing", fmt.Sprintf("height %d: %v", h, err), nil)
		return 0
	}
	e.hdrs[h] = hdr
	r.Count("blocks", 1)
	r.Count("records", len(recs))
	return h
}

// checkRecords verifies every record of block h the way a relayer would obtain and verify it.
func (e *env) checkRecords(h uint32, sampleEvery int) {
	r := e.r
	hdr := e.hdrs[h]
	recs := e.recs[h]
	root := [32]byte(hdr.CrossStateRoot)
	stored, err := e.l.GetCrossStateRoot(h)
	if err != nil || stored != hdr.CrossStateRoot {
		r.Violation("stored-cross-root-differs", fmt.Sprintf("height %d: stored cross-state root %x (err %v), header has %x", h, stored[:], err, root[:]), nil)
	}
	if len(recs) == 0 {
		r.Eval(1)
		r.Distinct("empty-block", h%4)
		if hdr.CrossStateRoot != common.UINT256_EMPTY {
			r.Violation("nonzero-root-without-records", fmt.Sprintf("height %d has no cross-chain record but cross-state root %x", h, root[:]), nil)
		}
		r.Count("blocks_without_records_zero_root", 1)
		return
	}
	// the relayer learns the keys from the makeProof events served by the RPC
	announced := map[string]bool{}
	if res, ok := rpcResult(rpc.GetSmartCodeEvent([]interface{}{float64(h)})); ok {
		if evs, isList := res.([]*bcomn.ExecuteNotify); isList {
			for _, ev := range evs {
				for _, n := range ev.Notify {
					st, isL := n.States.([]interface{})
					if !isL || len(st) != 6 || fmt.Sprint(st[0]) != "makeProof" {
						continue
					}
					if fmt.Sprint(st[4]) != fmt.Sprint(h) {
						r.Violation("event-height-differs", fmt.Sprintf("height %d: makeProof event announces height %v", h, st[4]), nil)
					}
					announced[fmt.Sprint(st[5])] = true
				}
			}
		}
	}
	for i, rec := range recs {
		if sampleEvery > 1 && i%sampleEvery != 0 && i != len(recs)-1 {
			continue
		}
		r.Eval(1)
		r.Distinct("rec", len(recs), i, rec.real)
		what := fmt.Sprintf("height %d record %d/%d key %x", h, i, len(recs), rec.key)
		replay := map[string]interface{}{"height": h, "records_in_block": len(recs), "index": i, "key": kit.Hex(rec.key), "value": kit.Hex(rec.value)}
		if rec.real {
			if !announced[hex.EncodeToString(rec.key)] {
				r.Violation("record-not-announced", what+": no makeProof event carries this key", replay)
			}
			r.Count("keys_taken_from_events", 1)
		}
		item, err := e.l.GetStorageItem(addrOf(rec.key), rec.key[20:])
		if err != nil || !bytes.Equal(item, rec.value) {
			r.Violation("stored-record-differs", fmt.Sprintf("%s: stored %x (err %v), expected %x", what, item, err, rec.value), replay)
			continue
		}
		proof, err := servedCrossProof(h, rec.key)
		if err != nil {
			if len(recs) > 30000 {
				// one report per block: the refusal concerns the whole block
				r.Violation("cross-proof-not-served-large-block", fmt.Sprintf("%s: %v (no record of this block can be proven)", what, err), replay)
				r.Count("large_block_proofs_refused", 1)
				return
			}
			r.Violation("cross-proof-not-served", fmt.Sprintf("%s: %v", what, err), replay)
			continue
		}
		v, err := merkle.MerkleProve(proof, root[:])
		if err != nil {
			r.Violation("cross-proof-does-not-verify", fmt.Sprintf("%s: MerkleProve against header root %x: %v", what, root[:], err), replay)
			continue
		}
		v2, ok := relayerVerify(proof, root)
		if !ok || !bytes.Equal(v, v2) {
			r.Violation("cross-proof-rejected-by-target-chain-verifier", what+": the independent verifier does not accept the served proof", replay)
		}
		if !bytes.Equal(v, rec.value) {
			r.Violation("cross-proof-yields-other-record", fmt.Sprintf("%s: proof yields %x, stored record is %x", what, v, rec.value), replay)
			continue
		}
		r.Count("cross_proofs_verified", 1)
		if i == 0 && h%7 == 1 {
			r.Sample(map[string]interface{}{"height": h, "records_in_block": len(recs), "key": kit.Hex(rec.key), "proof_len": len(proof), "root": kit.Hex(root[:])})
		}
		// negative control: the same record asked at another height must not verify against that header
		if other := h - 1; i == 0 && other >= 1 && e.hdrs[other] != nil {
			if p2, err := servedCrossProof(other, rec.key); err == nil {
				oroot := [32]byte(e.hdrs[other].CrossStateRoot)
				if v, err := merkle.MerkleProve(p2, oroot[:]); err == nil && bytes.Equal(v, rec.value) {
					r.Violation("record-proved-in-wrong-block", fmt.Sprintf("%s also verifies against header %d", what, other), replay)
				} else {
					r.Count("wrong_height_proof_rejected", 1)
				}
			} else {
				r.Count("wrong_height_proof_refused", 1)
			}
		}
	}
}

// crashCommit submits the next block but "loses power" right after the block-store commit (the
// verif crash hook panics there, before the event and state stores are committed), closes the
// ledger and reopens it: the block is then replayed by recoverStore. The proofs of that block and
// of later blocks are judged like all others.
func (e *env) crashCommit(txs []*types.Transaction) (*types.Block, store.ExecuteResult, error) {
	blk, res, err := e.chain.BuildBlock(txs, pk.BlockOpt{})
	if err != nil {
		return nil, res, err
	}
	if blk, err = pk.Reparse(blk); err != nil {
		return nil, res, err
	}
	crashed := false
	ledgerstore.VerifCrashHook = func(site string, height uint32) {
		if site == "submit:after-block-commit" && height == blk.Header.Height {
			crashed = true
			panic("simulated crash at " + site)
		}
	}
	p := kit.Catch(func() { err = e.chain.Store.SubmitBlock(blk, res) })
	ledgerstore.VerifCrashHook = nil
	if p == nil || !crashed {
		return nil, res, fmt.Errorf("the crash point was not reached (err %v)", err)
	}
	e.chain.Close()
	chain2, l2, err := pk.OpenLedger(e.dir, 9, e.vals)
	if err != nil {
		return nil, res, fmt.Errorf("reopen after crash: %v", err)
	}
	ledger.DefLedger = l2
	e.chain, e.l = chain2, l2
	if chain2.Store.GetCurrentBlockHeight() != blk.Header.Height {
		return nil, res, fmt.Errorf("after recovery the tip is %d, the block-store had committed %d", chain2.Store.GetCurrentBlockHeight(), blk.Header.Height)
	}
	e.r.Count("blocks_committed_through_crash_recovery", 1)
	return blk, res, nil
}

func addrOf(key []byte) common.Address {
	var a common.Address
	copy(a[:], key[:20])
	return a
}

var _ = states.StorageKey{}

// checkPair verifies the served block-inclusion proof of block h against header root r.
func (e *env) checkPair(h, root uint32, phase string) {
	r := e.r
	r.Eval(1)
	r.Distinct("pair", h, root)
	what := fmt.Sprintf("block %d in header %d (%s)", h, root, phase)
	replay := map[string]interface{}{"h": h, "r": root, "phase": phase}
	proof, err := servedBlockProof(h, root)
	if err != nil {
		r.Violation("block-proof-not-served", what+": "+err.Error(), replay)
		return
	}
	want := e.hdrs[h].Hash()
	broot := [32]byte(e.hdrs[root].BlockRoot)
	v, err := merkle.MerkleProve(proof, broot[:])
	if err != nil {
		r.Violation("block-proof-does-not-verify", fmt.Sprintf("%s: %v", what, err), replay)
		return
	}
	v2, ok := relayerVerify(proof, broot)
	if !ok || !bytes.Equal(v, v2) {
		r.Violation("block-proof-rejected-by-target-chain-verifier", what, replay)
	}
	if !bytes.Equal(v, want.ToArray()) {
		r.Violation("block-proof-yields-other-hash", fmt.Sprintf("%s: yields %x, block hash is %x", what, v, want.ToArray()), replay)
		return
	}
	r.Count("block_proofs_verified", 1)
}

func TestC08(t *testing.T) {
	r := kit.Start(t, "C08", "exploration")
	defer r.Finish()
	r.Rule("one real ledger; blocks with k cross-chain records for k in {0,1,2,3,4,5,7,8,9,15,16,17,31,32,33,...} (+63..65,127..130 and random k thorough) produced by the real MakeTransaction (shapes: real, raw probe records, mixed, duplicated leaves), every record proved through the RPC handlers and verified against the header; all (h,r) pairs when r becomes the tip and again at the end and after a restart; blocks committed through crash recovery (simulated crash after the block-store commit, restart, recoverStore); proof requests overlapping commits (6 reader goroutines during SubmitBlock; the real accumulator + file hash store with its Append parked while proofs of the size in flight are requested); distinct = (records in block, index) / (h,r)")
	r.Assume("SHA-256 of the Go standard library; the record codec (ToMerkleValue) is trusted to build the expected record bytes")
	r.Assume("'served to relayers' = the RPC handlers getcrossstatesproof / getmerkleproof / getsmartcodeevent over ledger.DefLedger")
	probe.Register()
	vals := pk.SortKeys(pk.NewKeys(r.Rand("validators"), 4))
	dir := pk.TempDir("c08")
	defer os.RemoveAll(dir)
	chain, l, err := pk.OpenLedger(dir, 9, vals)
	if err != nil {
		t.Fatal(err)
	}
	old := ledger.DefLedger
	ledger.DefLedger = l
	defer func() { ledger.DefLedger = old }()
	e := &env{r: r, chain: chain, l: l, recs: map[uint32][]record{}, hdrs: map[uint32]*types.Header{}, dir: dir, vals: vals}
	e.hdrs[0] = chain.Genesis.Header

	counts := []int{0, 1, 2, 3, 4, 5, 7, 8, 9, 15, 16, 17, 31, 32, 33}
	shapes := []string{"real", "real", "mixed", "dup", "raw"}
	rng := r.Rand("plan")
	type bp struct {
		n     int
		shape string
	}
	var plan []bp
	for _, c := range counts {
		plan = append(plan, bp{c, "real"})
	}
	if !r.Quick() {
		for _, c := range []int{63, 64, 65, 127, 128, 129, 130} {
			plan = append(plan, bp{c, "real"})
		}
	}
	total := r.N(40, 300)
	for len(plan) < total {
		c := counts[rng.Intn(len(counts))]
		if rng.Intn(3) == 0 {
			c = rng.Intn(r.N(40, 130) + 1)
		}
		plan = append(plan, bp{c, shapes[rng.Intn(len(shapes))]})
	}
	rng.Shuffle(len(plan), func(i, j int) { plan[i], plan[j] = plan[j], plan[i] })
	for _, b := range plan {
		h := e.addBlock(b.n, b.shape)
		if h == 0 {
			return
		}
		r.Count("shape_"+b.shape, 1)
		e.checkRecords(h, 1)
		for x := uint32(0); x < h; x++ {
			e.checkPair(x, h, "root-is-tip")
		}
		if r.Violations() > 10 {
			return
		}
	}
	tip := chain.Store.GetCurrentBlockHeight()
	// everything again from the final ledger
	for h := uint32(1); h <= tip; h++ {
		e.checkRecords(h, 1)
	}
	for rt := uint32(1); rt <= tip; rt++ {
		for h := uint32(0); h < rt; h++ {
			e.checkPair(h, rt, "final")
		}
	}
	// a block at the size where the proof builder's size guard (whole leaf list * 33 bytes > 1 MiB)
	// starts to matter, and one just below
	huge := []int{31000, 31800}
	if r.Quick() {
		huge = nil // ~20 s: thorough tier only (known finding cross-proof-not-served-large-block)
	}
	for _, n := range huge {
		h := e.addBlock(n, "huge")
		if h == 0 {
			return
		}
		r.Count("huge_blocks", 1)
		e.checkRecords(h, n/12)
		e.checkPair(h-1, h, "root-is-tip")
	}
	// proof requests that overlap commits (ledger level, then the accumulator with a parked append)
	if !e.inflightLedger(r.N(40, 200)) {
		return
	}
	inflightTree(r, r.N(96, 300))
	// blocks that reach the state store through recoverStore (crash between the block-store and the
	// state-store commit, restart), with honest blocks in between
	for i, n := range []int{3, 0, 8, 1, 17, 5} {
		e.crashNext = i%2 == 0
		h := e.addBlock(n, "real")
		e.crashNext = false
		if h == 0 {
			return
		}
		e.checkRecords(h, 1)
		for x := uint32(0); x < h; x += 1 + h/40 {
			e.checkPair(x, h, "after-crash-recovery")
		}
		e.checkPair(h-1, h, "after-crash-recovery")
	}
	// restart: proofs served by a reopened ledger
	e.chain.Close()
	chain2, l2, err := pk.OpenLedger(dir, 9, vals)
	if err != nil {
		r.Violation("reopen-failed", err.Error(), nil)
		return
	}
	defer chain2.Close()
	ledger.DefLedger = l2
	e.chain, e.l = chain2, l2
	tip = chain2.Store.GetCurrentBlockHeight()
	step := uint32(1)
	if !r.Quick() {
		step = 3
	}
	for h := uint32(1); h <= tip; h += step {
		if len(e.recs[h]) < 1000 {
			e.checkRecords(h, 1)
		}
	}
	for rt := uint32(1); rt <= tip; rt += step {
		for h := uint32(0); h < rt; h++ {
			e.checkPair(h, rt, "after-restart")
		}
	}
	r.Count("restarts", 1)
	r.Require("cross_proofs_verified", total*5)
	r.Require("block_proofs_verified", total*(total-1))
	r.Require("blocks_without_records_zero_root", 2)
	r.Require("keys_taken_from_events", total*3)
	r.Require("wrong_height_proof_refused", 3)
	r.Require("blocks_committed_through_crash_recovery", 3)
	r.Require("commits_with_concurrent_proof_requests", r.N(40, 200))
	r.Require("tip_root_served_valid_during_commit", r.N(40, 200))
	r.Require("tree_appends_with_inflight_requests", r.N(96, 300))
	r.Require("tree_committed_size_served_valid_during_append", r.N(96, 300))
}
