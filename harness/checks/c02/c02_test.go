// C02: transactions, headers and blocks survive encode/decode; tx identity = double SHA-256 of
// exactly the unsigned bytes; header identity ignores signatures; oversize transactions, blocks with
// a repeated transaction or a wrong transaction root are refused; decoding hostile bytes never
// panics or kills the process.
//
// Honest-object oracles run in this process. Every hostile decode runs in a child process under
// `ulimit -v` (isolate.go): a recovered Go panic and a process death are both reported, keyed by the
// innermost poly function on the stack and the normalised reason.
package c02

import (
	"bytes"
	"fmt"
	"math/rand"
	"testing"

	"verifharness/kit"

	"github.com/polynetwork/poly/common"
	"github.com/polynetwork/poly/core/types"
)

// ---------------------------------------------------------------------------------------------
// child side: the real decoders

func decoders() map[string]DecodeFunc {
	return map[string]DecodeFunc{
		"tx": func(data []byte) (bool, string) {
			tx, err := types.TransactionFromRawBytes(data)
			if err != nil {
				return false, ""
			}
			tx.Hash()
			if len(data) > types.MAX_TX_SIZE {
				return true, "oversize-accepted"
			}
			return true, ""
		},
		"txd": func(data []byte) (bool, string) {
			tx := new(types.Transaction)
			if err := tx.Deserialization(common.NewZeroCopySource(data)); err != nil {
				return false, ""
			}
			if len(tx.Raw) > types.MAX_TX_SIZE {
				return true, "oversize-accepted"
			}
			return true, ""
		},
		"hdr": func(data []byte) (bool, string) {
			h, err := types.HeaderFromRawBytes(data)
			if err != nil {
				return false, ""
			}
			h.Hash()
			return true, ""
		},
		"hdrs": func(data []byte) (bool, string) {
			h := new(types.Header)
			if err := h.Deserialize(bytes.NewReader(data)); err != nil {
				return false, ""
			}
			return true, ""
		},
		"blk": func(data []byte) (bool, string) {
			b, err := types.BlockFromRawBytes(data)
			if err != nil {
				return false, ""
			}
			b.Hash()
			return true, ""
		},
	}
}

var kindObject = map[string]string{"tx": "tx", "txd": "tx", "hdr": "header", "hdrs": "header", "blk": "block"}

func TestC02Child(t *testing.T) {
	if !IsChild() {
		t.Skip("helper for RunIsolated")
	}
	if err := ChildMain(decoders()); err != nil {
		t.Fatal(err)
	}
}

// ---------------------------------------------------------------------------------------------

type mon struct {
	r        *kit.Run
	pool     []PoolKey
	hostile  []Case
	hostileN int
	reported map[string]int
}

// violationOnce reports the first input of every distinct key in full and counts the repeats
// (hundreds of inputs hit the same defect; the replay budget of the kit is kept for new keys).
func (m *mon) violationOnce(key, what string, replay interface{}) {
	if m.reported == nil {
		m.reported = map[string]int{}
	}
	m.reported[key]++
	m.r.Count("inputs_hitting:"+key, 1)
	if m.reported[key] == 1 {
		m.r.Violation(key, what, replay)
	}
}

type txInfo struct {
	raw      []byte
	unsigned []byte
	hash     [32]byte
	pts      []Point
	layoutOK bool
}

func pointOff(pts []Point, name string) int {
	for _, p := range pts {
		if p.Name == name {
			return p.Off
		}
	}
	return -1
}

// encodeTx serialises an honest transaction with the real encoder and splits off its unsigned part.
func (m *mon) encodeTx(s *TxSpec) (*txInfo, bool) {
	r := m.r
	tx := s.Build()
	sink := common.NewZeroCopySink(nil)
	if err := tx.Serialization(sink); err != nil {
		r.Violation("honest-tx-encode-error", err.Error(), s)
		return nil, false
	}
	ti := &txInfo{raw: append([]byte{}, sink.Bytes()...)}
	us := common.NewZeroCopySink(nil)
	if err := tx.SerializeUnsigned(us); err != nil {
		r.Violation("honest-tx-encode-error", err.Error(), s)
		return nil, false
	}
	lb, pts := LayoutTx(s)
	ti.pts = pts
	ti.unsigned = append([]byte{}, us.Bytes()...)
	if bytes.Equal(lb, ti.raw) {
		ti.layoutOK = true
		r.Count("layout_confirmed_tx", 1)
		// the checker's own split: everything before the signature-entry count
		own := ti.raw[:pointOff(pts, "tx.sig-count")]
		if !bytes.Equal(own, ti.unsigned) {
			r.Violation("tx-unsigned-bytes-inconsistent", fmt.Sprintf("SerializeUnsigned gives %d bytes, the encoding has %d bytes before the signature list", len(ti.unsigned), len(own)), kit.Hex(ti.raw))
			return nil, false
		}
	} else {
		r.Count("layout_mismatch", 1)
		if !bytes.HasPrefix(ti.raw, ti.unsigned) {
			r.Violation("tx-unsigned-bytes-inconsistent", "SerializeUnsigned output is not a prefix of the full encoding", kit.Hex(ti.raw))
			return nil, false
		}
	}
	ti.hash = Dsha(ti.unsigned)
	return ti, true
}

// checkTx applies the round-trip and identity oracles to one honest transaction.
func (m *mon) checkTx(rng *rand.Rand, s *TxSpec, deep bool) (*txInfo, bool) {
	r := m.r
	ti, ok := m.encodeTx(s)
	r.Eval(1)
	if !ok {
		return nil, false
	}
	d, err := types.TransactionFromRawBytes(append([]byte{}, ti.raw...))
	if err != nil {
		r.Violation("honest-tx-refused", fmt.Sprintf("%d-byte well-formed transaction: %v", len(ti.raw), err), kit.Hex(ti.raw))
		return nil, false
	}
	r.Count("tx_accepted", 1)
	if f, w := TxDiff(d, s); f != "" {
		r.Violation("tx-roundtrip-field:"+f, "decoded transaction differs from the encoded one: "+f+" "+w, kit.Hex(ti.raw))
		return nil, false
	}
	if !bytes.Equal(d.ToArray(), ti.raw) {
		r.Violation("tx-roundtrip-bytes", "re-encoding the decoded transaction gives different bytes", kit.Hex(ti.raw))
		return nil, false
	}
	if !bytes.Equal(d.Raw, ti.raw) {
		r.Violation("tx-raw-mismatch", fmt.Sprintf("Raw has %d bytes, input had %d", len(d.Raw), len(ti.raw)), kit.Hex(ti.raw))
		return nil, false
	}
	if h := d.Hash(); [32]byte(h) != ti.hash {
		r.Violation("tx-hash-not-dsha-of-unsigned", fmt.Sprintf("Hash()=%x, sha256d(unsigned %d bytes)=%x", h[:], len(ti.unsigned), ti.hash[:]), kit.Hex(ti.raw))
		return nil, false
	}
	r.Count("tx_hash_confirmed", 1)
	if !deep {
		return ti, true
	}
	// decoding in the middle of a larger buffer (as inside a block / p2p payload)
	pre := make([]byte, rng.Intn(40))
	rng.Read(pre)
	suf := make([]byte, rng.Intn(40))
	rng.Read(suf)
	src := common.NewZeroCopySource(append(append(append([]byte{}, pre...), ti.raw...), suf...))
	src.Skip(uint64(len(pre)))
	d2 := new(types.Transaction)
	if err := d2.Deserialization(src); err != nil {
		r.Violation("honest-tx-refused:embedded", err.Error(), kit.Hex(ti.raw))
	} else if int(src.Pos()) != len(pre)+len(ti.raw) || !bytes.Equal(d2.Raw, ti.raw) || d2.Hash() != d.Hash() {
		r.Violation("tx-embedded-decode-differs", fmt.Sprintf("offset %d: consumed up to %d (want %d), raw %d bytes, hash %x", len(pre), src.Pos(), len(pre)+len(ti.raw), len(d2.Raw), d2.Hash()), kit.Hex(ti.raw))
	} else {
		r.Count("tx_embedded_ok", 1)
	}
	r.Eval(1)
	m.nonCanonical(rng, s, ti)
	// identity is independent of the signature list
	variants := []*TxSpec{}
	v := s.Clone()
	v.Sigs = nil
	variants = append(variants, v)
	v = s.Clone()
	v.Sigs = append(v.Sigs, GenSig(rng, m.pool))
	variants = append(variants, v)
	v = s.Clone()
	v.Sigs = []SigSpec{GenSig(rng, m.pool), GenSig(rng, m.pool)}
	variants = append(variants, v)
	if len(s.Sigs) >= 2 {
		v = s.Clone()
		v.Sigs[0], v.Sigs[len(v.Sigs)-1] = v.Sigs[len(v.Sigs)-1], v.Sigs[0]
		variants = append(variants, v)
	}
	if len(s.Sigs) >= 1 {
		v = s.Clone()
		sg := v.Sigs[0]
		sg.SigData = append([][]byte{{0xde, 0xad}}, sg.SigData...)
		sg.M++
		v.Sigs[0] = sg
		variants = append(variants, v)
	}
	for _, v := range variants {
		vi, ok := m.encodeTx(v)
		if !ok {
			continue
		}
		dv, err := types.TransactionFromRawBytes(append([]byte{}, vi.raw...))
		r.Eval(1)
		if err != nil {
			r.Violation("honest-tx-refused", fmt.Sprintf("signature variant: %v", err), kit.Hex(vi.raw))
			continue
		}
		if dv.Hash() != d.Hash() {
			r.Violation("tx-hash-depends-on-signatures", fmt.Sprintf("same unsigned fields, %d vs %d signature entries: %x vs %x", len(v.Sigs), len(s.Sigs), dv.Hash(), d.Hash()),
				map[string]string{"a": kit.Hex(ti.raw), "b": kit.Hex(vi.raw)})
			continue
		}
		if !bytes.Equal(vi.raw, ti.raw) {
			r.Count("tx_sig_variant_same_hash", 1)
		}
	}
	// ... and depends on every unsigned field
	type mut struct {
		name string
		f    func(*TxSpec)
	}
	for _, mu := range []mut{
		{"nonce", func(x *TxSpec) { x.Nonce ^= 1 << uint(rng.Intn(32)) }},
		{"chainid", func(x *TxSpec) { x.ChainID ^= 1 << uint(rng.Intn(64)) }},
		{"gaslimit", func(x *TxSpec) { x.GasLimit ^= 1 << uint(rng.Intn(64)) }},
		{"gasprice", func(x *TxSpec) { x.GasPrice ^= 1 << uint(rng.Intn(64)) }},
		{"payer", func(x *TxSpec) { x.Payer[rng.Intn(20)] ^= 1 << uint(rng.Intn(8)) }},
		{"code", func(x *TxSpec) {
			if len(x.Code) == 0 || rng.Intn(3) == 0 {
				x.Code = append(x.Code, byte(rng.Intn(256)))
			} else {
				x.Code[rng.Intn(len(x.Code))] ^= 1 << uint(rng.Intn(8))
			}
		}},
	} {
		v := s.Clone()
		mu.f(v)
		vi, ok := m.encodeTx(v)
		if !ok {
			continue
		}
		dv, err := types.TransactionFromRawBytes(append([]byte{}, vi.raw...))
		r.Eval(1)
		if err != nil {
			r.Violation("honest-tx-refused", fmt.Sprintf("field variant %s: %v", mu.name, err), kit.Hex(vi.raw))
			continue
		}
		if dv.Hash() == d.Hash() {
			r.Violation("tx-hash-ignores-field:"+mu.name, "two transactions differing in "+mu.name+" have the same identity", map[string]string{"a": kit.Hex(ti.raw), "b": kit.Hex(vi.raw)})
			continue
		}
		r.Count("tx_field_variant_new_hash", 1)
	}
	// retention: the first decoded transaction (its input bytes are still alive and untouched, it
	// references them by design) must not have changed while all the other objects were decoded
	if f, w := TxDiff(d, s); f != "" || !bytes.Equal(d.Raw, ti.raw) || [32]byte(d.Hash()) != ti.hash || !bytes.Equal(d.ToArray(), ti.raw) {
		r.Violation("retained-tx-changed", fmt.Sprintf("a decoded transaction changed after later decodes of other inputs: %s %s", f, w), kit.Hex(ti.raw))
	} else {
		r.Count("tx_retained_unchanged", 1)
	}
	r.Eval(1)
	return ti, true
}

// nonCanonical re-spells the length prefixes of the unsigned part (code length, attribute length)
// with wider-than-minimal var-uints. The decoders accept such spellings (DESIGN §8); the property
// says the identity is the double SHA-256 of *exactly* the transaction's unsigned bytes, i.e. of the
// bytes that were received (and signed), not of a normalised re-encoding. If the input is refused
// nothing is demanded.
func (m *mon) nonCanonical(rng *rand.Rand, s *TxSpec, ti *txInfo) {
	r := m.r
	if !ti.layoutOK {
		return
	}
	sigOff := pointOff(ti.pts, "tx.sig-count")
	var lens []Point
	for _, p := range ti.pts {
		if p.Off < sigOff && p.Enc == "varuint" {
			lens = append(lens, p)
		}
	}
	value := func(p Point) uint64 {
		if p.Name == "tx.code-len" {
			return uint64(len(s.Code))
		}
		return 0 // attribute length
	}
	wider := func(p Point) int {
		var ws []int
		for _, w := range []int{3, 5, 9} {
			if w > p.W {
				ws = append(ws, w)
			}
		}
		return ws[rng.Intn(len(ws))]
	}
	type respell struct {
		pts []Point
		ws  []int
	}
	var cases []respell
	for _, p := range lens {
		if p.W < 9 {
			cases = append(cases, respell{[]Point{p}, []int{wider(p)}})
		}
	}
	if len(lens) == 2 && lens[0].W < 9 && lens[1].W < 9 {
		cases = append(cases, respell{lens, []int{wider(lens[0]), wider(lens[1])}})
	}
	for _, c := range cases {
		// apply from the last field backwards so that earlier offsets stay valid
		raw := append([]byte{}, ti.raw...)
		grow := 0
		name := ""
		for i := len(c.pts) - 1; i >= 0; i-- {
			p := c.pts[i]
			enc, ok := VarUintW(value(p), c.ws[i])
			if !ok {
				continue
			}
			raw = append(append(append([]byte{}, raw[:p.Off]...), enc...), raw[p.Off+p.W:]...)
			grow += len(enc) - p.W
			name = fmt.Sprintf("%s:%d-byte", p.Name, c.ws[i]) + "," + name
		}
		unsigned := raw[:sigOff+grow]
		r.Eval(1)
		r.Count("noncanonical_tx_tried", 1)
		r.Distinct("noncanonical", name, len(s.Sigs) > 0)
		d, err := types.TransactionFromRawBytes(append([]byte{}, raw...))
		if err != nil {
			r.Count("noncanonical_tx_refused", 1)
			continue
		}
		r.Count("noncanonical_tx_accepted", 1)
		want := Dsha(unsigned)
		if h := d.Hash(); [32]byte(h) != want {
			r.Violation("tx-hash-not-dsha-of-unsigned:noncanonical", fmt.Sprintf("accepted transaction with non-minimal length prefixes (%s): Hash()=%x, sha256d of its %d unsigned bytes=%x", name, h[:], len(unsigned), want[:]), kit.Hex(raw))
			continue
		}
		if !bytes.Equal(d.Raw, raw) {
			r.Violation("tx-raw-mismatch:noncanonical", fmt.Sprintf("Raw has %d bytes, input had %d (%s)", len(d.Raw), len(raw), name), kit.Hex(raw))
			continue
		}
		r.Count("noncanonical_tx_hash_confirmed", 1)
	}
}

type hdrInfo struct {
	raw      []byte
	unsigned []byte
	hash     [32]byte
	pts      []Point
}

func (m *mon) encodeHeader(s *HeaderSpec) (*hdrInfo, bool) {
	r := m.r
	h := s.Build()
	hi := &hdrInfo{raw: append([]byte{}, h.ToArray()...)}
	hi.unsigned = append([]byte{}, h.GetMessage()...)
	lb, pts := LayoutHeader(s)
	hi.pts = pts
	if bytes.Equal(lb, hi.raw) {
		r.Count("layout_confirmed_header", 1)
		own := hi.raw[:pointOff(pts, "hdr.bookkeeper-count")]
		if !bytes.Equal(own, hi.unsigned) {
			r.Violation("header-unsigned-bytes-inconsistent", fmt.Sprintf("GetMessage gives %d bytes, the encoding has %d bytes before the bookkeeper list", len(hi.unsigned), len(own)), kit.Hex(hi.raw))
			return nil, false
		}
	} else {
		r.Count("layout_mismatch", 1)
		if !bytes.HasPrefix(hi.raw, hi.unsigned) {
			r.Violation("header-unsigned-bytes-inconsistent", "GetMessage output is not a prefix of the full encoding", kit.Hex(hi.raw))
			return nil, false
		}
	}
	hi.hash = Dsha(hi.unsigned)
	return hi, true
}

func (m *mon) checkHeader(rng *rand.Rand, s *HeaderSpec, deep bool) (*hdrInfo, bool) {
	r := m.r
	hi, ok := m.encodeHeader(s)
	r.Eval(1)
	if !ok {
		return nil, false
	}
	var buf bytes.Buffer
	if err := s.Build().Serialize(&buf); err != nil || !bytes.Equal(buf.Bytes(), hi.raw) {
		r.Violation("header-encoders-disagree", fmt.Sprintf("Serialize (stream) and Serialization (sink) differ (err=%v)", err), kit.Hex(hi.raw))
		return nil, false
	}
	d, err := types.HeaderFromRawBytes(append([]byte{}, hi.raw...))
	if err != nil {
		r.Violation("honest-header-refused", err.Error(), kit.Hex(hi.raw))
		return nil, false
	}
	r.Count("header_accepted", 1)
	if f := HeaderDiff(d, s); f != "" {
		r.Violation("header-roundtrip-field:"+f, "decoded header differs from the encoded one in "+f, kit.Hex(hi.raw))
		return nil, false
	}
	if !bytes.Equal(d.ToArray(), hi.raw) {
		r.Violation("header-roundtrip-bytes", "re-encoding the decoded header gives different bytes", kit.Hex(hi.raw))
		return nil, false
	}
	d2 := new(types.Header)
	if err := d2.Deserialize(bytes.NewReader(hi.raw)); err != nil {
		r.Violation("honest-header-refused:stream", err.Error(), kit.Hex(hi.raw))
		return nil, false
	}
	if f := HeaderDiff(d2, s); f != "" {
		r.Violation("header-roundtrip-field:stream:"+f, "stream-decoded header differs in "+f, kit.Hex(hi.raw))
		return nil, false
	}
	for _, x := range []*types.Header{d, d2, s.Build()} {
		if h := x.Hash(); [32]byte(h) != hi.hash {
			r.Violation("header-hash-not-dsha-of-unsigned", fmt.Sprintf("Hash()=%x, sha256d(unsigned %d bytes)=%x", h[:], len(hi.unsigned), hi.hash[:]), kit.Hex(hi.raw))
			return nil, false
		}
	}
	r.Count("header_hash_confirmed", 1)
	if !deep {
		return hi, true
	}
	// signatures never change the identity
	var variants []*HeaderSpec
	v := s.Clone()
	v.Bookkeepers, v.SigData = nil, nil
	variants = append(variants, v)
	v = s.Clone()
	v.Bookkeepers = append(append([]PoolKey{}, s.Bookkeepers...), m.pool[rng.Intn(len(m.pool))])
	v.SigData = append(append([][]byte{}, s.SigData...), []byte{1, 2, 3})
	variants = append(variants, v)
	if len(s.SigData) >= 2 && len(s.Bookkeepers) >= 2 {
		v = s.Clone()
		v.SigData = append([][]byte{}, s.SigData...)
		v.SigData[0], v.SigData[1] = v.SigData[1], v.SigData[0]
		v.Bookkeepers = append([]PoolKey{}, s.Bookkeepers...)
		v.Bookkeepers[0], v.Bookkeepers[1] = v.Bookkeepers[1], v.Bookkeepers[0]
		variants = append(variants, v)
	}
	for _, v := range variants {
		vi, ok := m.encodeHeader(v)
		if !ok {
			continue
		}
		dv, err := types.HeaderFromRawBytes(append([]byte{}, vi.raw...))
		r.Eval(1)
		if err != nil {
			r.Violation("honest-header-refused", fmt.Sprintf("signature variant: %v", err), kit.Hex(vi.raw))
			continue
		}
		if dv.Hash() != d.Hash() || v.Build().Hash() != d.Hash() {
			r.Violation("header-hash-depends-on-signatures", fmt.Sprintf("%d/%d vs %d/%d bookkeepers/signatures", len(v.Bookkeepers), len(v.SigData), len(s.Bookkeepers), len(s.SigData)),
				map[string]string{"a": kit.Hex(hi.raw), "b": kit.Hex(vi.raw)})
			continue
		}
		if !bytes.Equal(vi.raw, hi.raw) {
			r.Count("header_sig_variant_same_hash", 1)
		}
	}
	type mut struct {
		name string
		f    func(*HeaderSpec)
	}
	bit := func(h *common.Uint256) { h[rng.Intn(32)] ^= 1 << uint(rng.Intn(8)) }
	for _, mu := range []mut{
		{"chainid", func(x *HeaderSpec) { x.ChainID ^= 1 << uint(rng.Intn(64)) }},
		{"prevblockhash", func(x *HeaderSpec) { bit(&x.PrevBlockHash) }},
		{"transactionsroot", func(x *HeaderSpec) { bit(&x.TransactionsRoot) }},
		{"crossstateroot", func(x *HeaderSpec) { bit(&x.CrossStateRoot) }},
		{"blockroot", func(x *HeaderSpec) { bit(&x.BlockRoot) }},
		{"timestamp", func(x *HeaderSpec) { x.Timestamp ^= 1 << uint(rng.Intn(32)) }},
		{"height", func(x *HeaderSpec) { x.Height ^= 1 << uint(rng.Intn(32)) }},
		{"consensusdata", func(x *HeaderSpec) { x.ConsensusData ^= 1 << uint(rng.Intn(64)) }},
		{"consensuspayload", func(x *HeaderSpec) { x.ConsensusPayload = append(x.ConsensusPayload, 0) }},
		{"nextbookkeeper", func(x *HeaderSpec) { x.NextBookkeeper[rng.Intn(20)] ^= 1 << uint(rng.Intn(8)) }},
	} {
		v := s.Clone()
		mu.f(v)
		vi, ok := m.encodeHeader(v)
		if !ok {
			continue
		}
		dv, err := types.HeaderFromRawBytes(append([]byte{}, vi.raw...))
		r.Eval(1)
		if err != nil {
			r.Violation("honest-header-refused", fmt.Sprintf("field variant %s: %v", mu.name, err), kit.Hex(vi.raw))
			continue
		}
		if dv.Hash() == d.Hash() {
			r.Violation("header-hash-ignores-field:"+mu.name, "two headers differing in "+mu.name+" have the same identity", map[string]string{"a": kit.Hex(hi.raw), "b": kit.Hex(vi.raw)})
			continue
		}
		r.Count("header_field_variant_new_hash", 1)
	}
	for _, x := range []*types.Header{d, d2} {
		if f := HeaderDiff(x, s); f != "" || !bytes.Equal(x.ToArray(), hi.raw) {
			r.Violation("retained-header-changed", "a decoded header changed after later decodes of other inputs: "+f, kit.Hex(hi.raw))
		} else {
			r.Count("header_retained_unchanged", 1)
		}
	}
	r.Eval(1)
	return hi, true
}

// blockBytes encodes header ‖ txs with the real encoder. The header's transaction root is set to
// the checker's reference root of the listed transactions unless root != nil.
func (m *mon) blockBytes(hs *HeaderSpec, txs []*TxSpec, root *[32]byte) ([]byte, *BlockSpec, bool) {
	var hashes [][32]byte
	blk := &types.Block{}
	for _, t := range txs {
		ti, ok := m.encodeTx(t)
		if !ok {
			return nil, nil, false
		}
		hashes = append(hashes, ti.hash)
		blk.Transactions = append(blk.Transactions, t.Build())
	}
	h := hs.Clone()
	if root != nil {
		h.TransactionsRoot = common.Uint256(*root)
	} else {
		h.TransactionsRoot = common.Uint256(RefRoot(hashes))
	}
	blk.Header = h.Build()
	sink := common.NewZeroCopySink(nil)
	if err := blk.Serialization(sink); err != nil {
		m.r.Violation("honest-block-encode-error", err.Error(), nil)
		return nil, nil, false
	}
	return append([]byte{}, sink.Bytes()...), &BlockSpec{Header: h, Txs: txs}, true
}

func (m *mon) refuse(key, what string, raw []byte, counter string) {
	r := m.r
	r.Eval(1)
	var b *types.Block
	var err error
	if p := kit.Catch(func() { b, err = types.BlockFromRawBytes(append([]byte{}, raw...)) }); p != nil {
		r.Violation("block-decode-panic:in-process", fmt.Sprint(p), kit.Hex(raw))
		return
	}
	if err == nil && b != nil {
		r.Violation(key, what, kit.Hex(clip(raw, 1<<16)))
		return
	}
	r.Count(counter, 1)
}

func clip(b []byte, n int) []byte {
	if len(b) > n {
		return b[:n]
	}
	return b
}

func (m *mon) checkBlock(rng *rand.Rand, hs *HeaderSpec, txs []*TxSpec) ([]byte, *BlockSpec, bool) {
	r := m.r
	raw, bs, ok := m.blockBytes(hs, txs, nil)
	r.Eval(1)
	if !ok {
		return nil, nil, false
	}
	if lb, _ := LayoutBlock(bs); bytes.Equal(lb, raw) {
		r.Count("layout_confirmed_block", 1)
	} else {
		r.Count("layout_mismatch", 1)
	}
	d, err := types.BlockFromRawBytes(append([]byte{}, raw...))
	if err != nil {
		r.Violation("honest-block-refused", fmt.Sprintf("%d txs: %v", len(txs), err), kit.Hex(raw))
		return nil, nil, false
	}
	r.Count("block_accepted", 1)
	if f := HeaderDiff(d.Header, bs.Header); f != "" {
		r.Violation("block-roundtrip-header:"+f, "decoded block header differs in "+f, kit.Hex(raw))
		return nil, nil, false
	}
	if len(d.Transactions) != len(txs) {
		r.Violation("block-roundtrip-txcount", fmt.Sprintf("%d != %d", len(d.Transactions), len(txs)), kit.Hex(raw))
		return nil, nil, false
	}
	for i, t := range txs {
		if f, w := TxDiff(d.Transactions[i], t); f != "" {
			r.Violation("block-roundtrip-tx:"+f, fmt.Sprintf("tx %d differs in %s %s", i, f, w), kit.Hex(raw))
			return nil, nil, false
		}
		ti, _ := m.encodeTx(t)
		if ti != nil && [32]byte(d.Transactions[i].Hash()) != ti.hash {
			r.Violation("tx-hash-not-dsha-of-unsigned:in-block", fmt.Sprintf("tx %d", i), kit.Hex(raw))
			return nil, nil, false
		}
		if ti != nil && !bytes.Equal(d.Transactions[i].Raw, ti.raw) {
			r.Violation("tx-raw-mismatch:in-block", fmt.Sprintf("tx %d", i), kit.Hex(raw))
			return nil, nil, false
		}
	}
	if !bytes.Equal(d.ToArray(), raw) {
		r.Violation("block-roundtrip-bytes", "re-encoding the decoded block gives different bytes", kit.Hex(raw))
		return nil, nil, false
	}
	hi, _ := m.encodeHeader(bs.Header)
	if hi != nil && [32]byte(d.Hash()) != hi.hash {
		r.Violation("block-hash-not-header-identity", "", kit.Hex(raw))
	}
	// wrong root
	bad := [32]byte(bs.Header.TransactionsRoot)
	bad[rng.Intn(32)] ^= 1 << uint(rng.Intn(8))
	if raw2, _, ok := m.blockBytes(hs, txs, &bad); ok {
		m.refuse("block-wrong-root-accepted", fmt.Sprintf("%d txs, header root one bit off the reference root", len(txs)), raw2, "wrong_root_refused")
	}
	if len(txs) >= 1 {
		// root of a different list (one tx dropped)
		var hh [][32]byte
		for _, t := range txs[1:] {
			ti, _ := m.encodeTx(t)
			hh = append(hh, ti.hash)
		}
		other := RefRoot(hh)
		if other != [32]byte(bs.Header.TransactionsRoot) {
			if raw2, _, ok := m.blockBytes(hs, txs, &other); ok {
				m.refuse("block-wrong-root-accepted", fmt.Sprintf("%d txs, header root is the root of the list without its first tx", len(txs)), raw2, "wrong_root_refused")
			}
		}
		// repeated transaction; the header commits to the list *with* the repetition, so only the
		// duplicate rule can refuse it
		j := rng.Intn(len(txs))
		at := rng.Intn(len(txs) + 1)
		dup := append(append(append([]*TxSpec{}, txs[:at]...), txs[j]), txs[at:]...)
		if raw3, _, ok := m.blockBytes(hs, dup, nil); ok {
			m.refuse("block-duplicate-tx-accepted", fmt.Sprintf("%d txs, tx %d repeated at position %d", len(txs), j, at), raw3, "duplicate_refused")
		}
		// the same transaction (same unsigned bytes = same identity) carrying other signatures
		tw := txs[j].Clone()
		tw.Sigs = append(tw.Sigs, GenSig(rng, m.pool))
		dup2 := append(append(append([]*TxSpec{}, txs[:at]...), tw), txs[at:]...)
		if raw4, _, ok := m.blockBytes(hs, dup2, nil); ok {
			m.refuse("block-duplicate-tx-accepted:resigned", fmt.Sprintf("%d txs, tx %d repeated with a different signature list", len(txs), j), raw4, "duplicate_resigned_refused")
		}
	}
	// retention: the decoded block (header, every transaction sharing the block's buffer) is still
	// what was encoded after the other blocks above were decoded
	changed := HeaderDiff(d.Header, bs.Header)
	for i, t := range txs {
		if f, w := TxDiff(d.Transactions[i], t); f != "" && changed == "" {
			changed = fmt.Sprintf("tx %d %s %s", i, f, w)
		}
	}
	if changed != "" || !bytes.Equal(d.ToArray(), raw) {
		r.Violation("retained-block-changed", "a decoded block changed after later decodes of other inputs: "+changed, kit.Hex(raw))
	} else {
		r.Count("block_retained_unchanged", 1)
	}
	r.Eval(1)
	return raw, bs, true
}

// sizedTx returns a transaction whose encoding has exactly total bytes (by sizing the payload).
func (m *mon) sizedTx(rng *rand.Rand, total int, sigs []SigSpec) (*TxSpec, []byte) {
	s := GenTx(rng, m.pool, 0)
	s.Sigs = sigs
	s.Code = nil
	for try := 0; try < 6; try++ {
		ti, ok := m.encodeTx(s)
		if !ok {
			return nil, nil
		}
		if len(ti.raw) == total {
			return s, ti.raw
		}
		n := len(s.Code) + total - len(ti.raw)
		if n < 0 {
			return nil, nil
		}
		s.Code = make([]byte, n)
		rng.Read(s.Code[:clipInt(n, 64)])
	}
	return nil, nil
}

func clipInt(a, b int) int {
	if a < b {
		return a
	}
	return b
}

func (m *mon) checkSizes(rng *rand.Rand) {
	r := m.r
	max := types.MAX_TX_SIZE
	hs := GenHeader(rng, m.pool, 64)
	small := GenTx(rng, m.pool, 64)
	deltas := []int{1, 2, 0xFD, 1024, max}
	if r.Quick() {
		deltas = []int{1, 1024}
	}
	for _, withSig := range []bool{false, true} {
		var sigs []SigSpec
		if withSig {
			sigs = []SigSpec{GenSig(rng, m.pool)}
		}
		// exactly at the limit: a well-formed transaction of maximum size
		if s, raw := m.sizedTx(rng, max, sigs); s != nil {
			r.Eval(1)
			r.Distinct("size", "at-limit", withSig)
			if _, err := types.TransactionFromRawBytes(append([]byte{}, raw...)); err != nil {
				r.Violation("max-size-tx-refused", fmt.Sprintf("transaction of exactly MAX_TX_SIZE=%d bytes: %v", max, err), map[string]interface{}{"size": len(raw), "with_sig": withSig})
			} else {
				r.Count("at_limit_accepted", 1)
			}
			if rawb, _, ok := m.blockBytes(hs, []*TxSpec{small, s}, nil); ok {
				r.Eval(1)
				if _, err := types.BlockFromRawBytes(rawb); err != nil {
					r.Violation("max-size-tx-refused:in-block", err.Error(), map[string]interface{}{"size": len(raw), "with_sig": withSig})
				} else {
					r.Count("at_limit_accepted_in_block", 1)
				}
			}
		}
		for _, dlt := range deltas {
			s, raw := m.sizedTx(rng, max+dlt, sigs)
			if s == nil {
				continue
			}
			r.Eval(1)
			r.Distinct("size", "over", dlt, withSig)
			if tx, err := types.TransactionFromRawBytes(append([]byte{}, raw...)); err == nil && tx != nil {
				r.Violation("oversize-tx-accepted", fmt.Sprintf("transaction of %d bytes (MAX_TX_SIZE+%d) accepted", len(raw), dlt), map[string]interface{}{"size": len(raw), "with_sig": withSig})
			} else {
				r.Count("oversize_refused", 1)
			}
			if rawb, _, ok := m.blockBytes(hs, []*TxSpec{small, s}, nil); ok {
				m.refuse("oversize-tx-accepted:in-block", fmt.Sprintf("block carrying a transaction of MAX_TX_SIZE+%d bytes accepted", dlt), rawb, "oversize_refused_in_block")
			}
		}
	}
	// small unsigned part, the signature data pushes it over the limit
	s := GenTx(rng, m.pool, 64)
	sg := GenSig(rng, m.pool)
	sg.SigData = [][]byte{make([]byte, max)}
	s.Sigs = []SigSpec{sg}
	if ti, ok := m.encodeTx(s); ok {
		r.Eval(1)
		r.Distinct("size", "over-by-sigdata")
		if tx, err := types.TransactionFromRawBytes(append([]byte{}, ti.raw...)); err == nil && tx != nil {
			r.Violation("oversize-tx-accepted:sigdata", fmt.Sprintf("%d bytes", len(ti.raw)), map[string]interface{}{"size": len(ti.raw)})
		} else {
			r.Count("oversize_refused", 1)
		}
		if rawb, _, ok := m.blockBytes(hs, []*TxSpec{s}, nil); ok {
			m.refuse("oversize-tx-accepted:in-block:sigdata", "block carrying a transaction made oversize by its signature data accepted", rawb, "oversize_refused_in_block")
		}
	}
}

// ---------------------------------------------------------------------------------------------
// hostile inputs

func (m *mon) addHostile(kind, label string, data []byte) {
	m.hostile = append(m.hostile, Case{Kind: kind, Label: kind + ":" + label, Data: data})
	if len(m.hostile) >= 20000 {
		m.flush()
	}
}

func (m *mon) flush() {
	r := m.r
	if len(m.hostile) == 0 {
		return
	}
	cases := m.hostile
	m.hostile = nil
	outs, err := RunIsolated("TestC02Child", cases)
	if err != nil {
		r.Inconclusive("isolated executor: " + err.Error())
	}
	for i, o := range outs {
		c := cases[i]
		if o.Status == "" {
			r.Count("hostile_not_executed", 1)
			continue
		}
		obj := kindObject[c.Kind]
		r.Eval(1)
		r.Count("hostile_"+c.Kind+"_"+o.Status, 1)
		r.Distinct("hostile", c.Label, o.Status, o.Site)
		switch o.Status {
		case "panic":
			m.violationOnce(obj+"-decode-panic:"+o.Site, fmt.Sprintf("decoder %s panicked on a %d-byte input (%s): %s", c.Kind, len(c.Data), c.Label, o.Detail),
				map[string]interface{}{"decoder": c.Kind, "mutation": c.Label, "input": kit.Hex(c.Data)})
		case "fatal":
			m.violationOnce(obj+"-decode-fatal:"+o.Site, fmt.Sprintf("decoder %s killed the process (address space limited to %d KiB) on a %d-byte input (%s): %s", c.Kind, VLimitKB, len(c.Data), c.Label, o.Detail),
				map[string]interface{}{"decoder": c.Kind, "mutation": c.Label, "input": kit.Hex(c.Data)})
		case "ok":
			if o.Detail == "oversize-accepted" {
				r.Violation("oversize-tx-accepted:hostile", fmt.Sprintf("decoder %s accepted %d bytes", c.Kind, len(c.Data)), map[string]interface{}{"decoder": c.Kind, "mutation": c.Label, "size": len(c.Data)})
			}
		}
		m.hostileN++
	}
}

// hostileFrom derives hostile inputs from one honest encoding.
func (m *mon) hostileFrom(rng *rand.Rand, kinds []string, honest []byte, pts []Point, nMut int, rewrite bool, allPrefixes bool) {
	for i := 0; i < nMut; i++ {
		b, class := Mutate(rng, honest)
		for _, k := range kinds {
			m.addHostile(k, "mut:"+class, b)
		}
	}
	if allPrefixes {
		for p := 0; p < len(honest); p++ {
			for _, k := range kinds {
				m.addHostile(k, "prefix", honest[:p])
			}
		}
	}
	if !rewrite {
		return
	}
	seen := map[string]int{}
	for _, p := range pts {
		// at most two occurrences of the same field name per object (e.g. many sigdata-len)
		if seen[p.Name] >= 2 {
			continue
		}
		seen[p.Name]++
		for _, v := range RewriteValues {
			for _, long := range []bool{false, true} {
				b, ok := Rewrite(honest, p, v, long)
				if !ok {
					continue
				}
				lab := fmt.Sprintf("rewrite:%s=%#x", p.Name, v)
				if long {
					lab += ":9-byte-form"
				}
				for _, k := range kinds {
					m.addHostile(k, lab, b)
				}
			}
		}
	}
}

func TestC02(t *testing.T) {
	if IsChild() {
		t.Skip("child mode")
	}
	r := kit.Start(t, "C02", "exploration")
	defer r.Finish()
	r.Rule("generated transactions (payload 0-64 KiB, 0-3 signature entries of 1-4 keys over 6 key schemes), headers (0-7 bookkeepers/signatures), blocks (0-8 txs): round trip, identity = sha256d(unsigned part) computed by the checker, identity under signature / unsigned-field variants, accepted non-minimal var-uint spellings of the unsigned length fields (identity = sha256d of the bytes received), retention (decoded objects re-compared after later decodes of other inputs), size limit, duplicate and wrong-root blocks; hostile bytes = truncations, bit flips, stamps, inserted var-uints, deleted ranges, garbage and every length/count field rewritten to {0,1,0xFC,0xFD,0xFE,0xFFFF,0x10000,2^32-1,2^32,2^63,2^64-1} in canonical and 9-byte form, each decoded in a child process under ulimit -v; distinct = object shape or (decoder, mutation class, outcome, panic site)")
	r.Assume("SHA-256 of the Go standard library is the reference hash; the transaction root reference is the checker's recursive model of C03")
	r.Assume("a transaction of exactly MAX_TX_SIZE bytes is well-formed (must be accepted); larger ones must be refused")
	r.Assume(fmt.Sprintf("hostile decodes run with the address space limited to %d KiB: a decoder that requests more memory than that for one input dies with a fatal out-of-memory error, which is reported like a panic", VLimitKB))
	r.Assume("whether a truncated or corrupted encoding is accepted is not judged here (only panics, process deaths and accepted oversize transactions are)")
	m := &mon{r: r}
	rng := r.Rand("objects")
	m.pool = KeyPool(rng, 28)
	for _, k := range m.pool {
		r.Count("pool_"+k.Scheme, 1)
	}

	nTx := r.N(1200, 18000)
	nHdr := r.N(500, 7000)
	nBlk := r.N(300, 5000)
	nRewrite := r.N(25, 300) // objects of each kind whose every length/count field is rewritten
	nMut := r.N(8, 12)

	for i := 0; i < nTx; i++ {
		maxCode := 2048
		if i%50 == 0 {
			maxCode = 64 * 1024
		}
		s := GenTx(rng, m.pool, maxCode)
		ti, ok := m.checkTx(rng, s, true)
		if !ok {
			continue
		}
		nk := 0
		for _, sg := range s.Sigs {
			nk += len(sg.Keys)
		}
		r.Distinct("tx", len(s.Code), len(s.Sigs), nk, ti.hash)
		if i < 2 {
			r.Sample(map[string]interface{}{"tx": kit.Hex(clip(ti.raw, 400)), "hash": kit.Hex(ti.hash[:]), "unsigned_len": len(ti.unsigned)})
		}
		small := len(ti.raw) <= 4096
		if small || i < nRewrite {
			mm := nMut
			if !small {
				mm = 2
			}
			m.hostileFrom(rng, []string{"tx", "txd"}, ti.raw, ti.pts, mm, i < nRewrite && ti.layoutOK, i < r.N(6, 40) && len(ti.raw) < 700)
		}
	}
	for i := 0; i < nHdr; i++ {
		s := GenHeader(rng, m.pool, 1024)
		hi, ok := m.checkHeader(rng, s, true)
		if !ok {
			continue
		}
		r.Distinct("header", len(s.ConsensusPayload), len(s.Bookkeepers), len(s.SigData), hi.hash)
		if i < 1 {
			r.Sample(map[string]interface{}{"header": kit.Hex(clip(hi.raw, 400)), "hash": kit.Hex(hi.hash[:]), "unsigned_len": len(hi.unsigned)})
		}
		m.hostileFrom(rng, []string{"hdr", "hdrs"}, hi.raw, hi.pts, nMut, i < nRewrite, i < r.N(6, 40) && len(hi.raw) < 700)
	}
	for i := 0; i < nBlk; i++ {
		hs := GenHeader(rng, m.pool, 256)
		ntx := rng.Intn(9)
		var txs []*TxSpec
		for j := 0; j < ntx; j++ {
			txs = append(txs, GenTx(rng, m.pool, 300))
		}
		raw, bs, ok := m.checkBlock(rng, hs, txs)
		if !ok {
			continue
		}
		r.Distinct("block", ntx, len(raw), bs.Header.TransactionsRoot)
		if i < 1 {
			r.Sample(map[string]interface{}{"block_txs": ntx, "block": kit.Hex(clip(raw, 300))})
		}
		_, pts := LayoutBlock(bs)
		m.hostileFrom(rng, []string{"blk"}, raw, pts, nMut, i < nRewrite, i < r.N(3, 20) && len(raw) < 1500)
	}
	m.checkSizes(rng)
	m.flush()
	r.Count("hostile_decodes", m.hostileN)

	if r.Get("layout_mismatch") > 0 {
		r.Inconclusive("the checker's layout walker no longer reproduces the real encoding: field-rewrite mutations were not applied at the intended offsets")
	}
	r.Require("tx_accepted", nTx)
	r.Require("tx_hash_confirmed", nTx)
	r.Require("tx_embedded_ok", nTx)
	r.Require("noncanonical_tx_tried", 2*nTx)
	r.Require("tx_sig_variant_same_hash", nTx)
	r.Require("tx_field_variant_new_hash", 5*nTx)
	r.Require("header_accepted", nHdr)
	r.Require("header_hash_confirmed", nHdr)
	r.Require("header_sig_variant_same_hash", nHdr)
	r.Require("header_field_variant_new_hash", 9*nHdr)
	r.Require("block_accepted", nBlk)
	r.Require("tx_retained_unchanged", nTx)
	r.Require("header_retained_unchanged", 2*nHdr)
	r.Require("block_retained_unchanged", nBlk)
	r.Require("wrong_root_refused", nBlk)
	r.Require("duplicate_refused", nBlk/2)
	r.Require("duplicate_resigned_refused", nBlk/2)
	r.Require("at_limit_accepted", 2)
	r.Require("at_limit_accepted_in_block", 2)
	r.Require("oversize_refused", 4)
	r.Require("oversize_refused_in_block", 4)
	r.Require("hostile_decodes", r.N(40000, 800000))
	for _, k := range []string{"tx", "txd", "hdr", "hdrs", "blk"} {
		r.Require("hostile_"+k+"_err", 1000)
		r.Require("hostile_"+k+"_ok", 50)
	}
}
