// Package ontsynth builds Ontology-style light-client data with generated keys: block headers with
// VBFT consensus payloads (optionally announcing a new peer set), cross-chain messages, and
// bookkeeper/signature lists whose every entry is of a chosen kind. It also gives the independent
// judgement "how many distinct members of a set validly signed this hash" using ontology-crypto.
package ontsynth

import (
	"crypto/sha256"
	"encoding/hex"
	"encoding/json"
	"math/rand"

	"github.com/ontio/ontology-crypto/keypair"
	ocommon "github.com/ontio/ontology/common"
	osig "github.com/ontio/ontology/core/signature"
	otypes "github.com/ontio/ontology/core/types"

	"verifharness/kit/pk"
)

// Payload is the VBFT consensus payload JSON. peers == nil: no new chain config.
func Payload(peers []*pk.Key, lastCfg uint32, mangle func(ids []string) []string) []byte {
	m := map[string]interface{}{
		"leader": 0, "vrf_value": []byte("v"), "vrf_proof": []byte("p"), "last_config_block_num": lastCfg,
	}
	if peers != nil {
		ids := make([]string, len(peers))
		for i, p := range peers {
			ids[i] = p.PubHex()
		}
		if mangle != nil {
			ids = mangle(ids)
		}
		var ps []map[string]interface{}
		for i, id := range ids {
			ps = append(ps, map[string]interface{}{"index": i + 1, "id": id})
		}
		if ps == nil {
			ps = []map[string]interface{}{}
		}
		m["new_chain_config"] = map[string]interface{}{
			"version": 1, "view": 1, "n": len(ids), "c": (len(ids) - 1) / 3, "block_msg_delay": 10000, "hash_msg_delay": 10000,
			"peer_handshake_timeout": 10000, "peers": ps, "pos_table": []uint32{}, "max_block_change_view": 1000,
		}
	}
	b, err := json.Marshal(m)
	if err != nil {
		panic(err)
	}
	return b
}

// Header makes an unsigned header.
func Header(height uint32, payload []byte, salt uint32) *otypes.Header {
	h := &otypes.Header{Version: 0, Timestamp: 1600000000 + height, Height: height, ConsensusData: uint64(salt), ConsensusPayload: payload}
	h.PrevBlockHash = sha256.Sum256([]byte{byte(height), byte(height >> 8), 1})
	h.TransactionsRoot = sha256.Sum256([]byte{byte(salt), 2})
	h.BlockRoot = sha256.Sum256([]byte{byte(salt), 3})
	return h
}

// RawHeader serialises a header.
func RawHeader(h *otypes.Header) []byte {
	s := ocommon.NewZeroCopySink(nil)
	h.Serialization(s)
	return s.Bytes()
}

// Msg makes an unsigned cross-chain message.
func Msg(height uint32, root [32]byte) *otypes.CrossChainMsg {
	return &otypes.CrossChainMsg{Version: 0, Height: height, StatesRoot: ocommon.Uint256(root)}
}

// RawMsg serialises message + bookkeeper list the way relayers submit it.
func RawMsg(m *otypes.CrossChainMsg, bookkeepers []keypair.PublicKey) []byte {
	s := ocommon.NewZeroCopySink(nil)
	m.Serialization(s)
	s.WriteVarUint(uint64(len(bookkeepers)))
	for _, b := range bookkeepers {
		s.WriteVarBytes(keypair.SerializePublicKey(b))
	}
	return s.Bytes()
}

// EntryKind is the kind of one (bookkeeper, signature) pair.
type EntryKind int

const (
	Valid       EntryKind = iota // member, honest signature
	Foreign                      // non-member key with its own honest signature
	BadSig                       // member key, signature over other data
	StolenSig                    // member key, signature made by a foreign key
	DupSameSig                   // a member already listed, same signature bytes again
	DupFreshSig                  // a member already listed, a second honest signature
	NKinds
)

func (k EntryKind) String() string {
	return [...]string{"valid", "foreign", "bad-sig", "stolen-sig", "dup-same-sig", "dup-fresh-sig"}[k]
}

// Entry is one (bookkeeper, signature) pair.
type Entry struct {
	Kind EntryKind
	Key  *pk.Key
	Sig  []byte
}

// Entries builds the pairs. members = tracked set, picks = kinds in order; rng chooses who.
// Members are used without repetition for non-dup kinds as long as unused members remain.
func Entries(rng *rand.Rand, hash []byte, members []*pk.Key, kinds []EntryKind) []Entry {
	var out []Entry
	perm := rng.Perm(len(members))
	next := 0
	fresh := func() *pk.Key {
		if len(members) == 0 {
			return pk.NewKey(rng)
		}
		k := members[perm[next%len(perm)]]
		next++
		return k
	}
	for _, kd := range kinds {
		switch kd {
		case Valid:
			k := fresh()
			out = append(out, Entry{kd, k, k.Sign(hash)})
		case Foreign:
			k := pk.NewKey(rng)
			out = append(out, Entry{kd, k, k.Sign(hash)})
		case BadSig:
			k := fresh()
			other := sha256.Sum256(hash)
			out = append(out, Entry{kd, k, k.Sign(other[:])})
		case StolenSig:
			k := fresh()
			out = append(out, Entry{kd, k, pk.NewKey(rng).Sign(hash)})
		case DupSameSig, DupFreshSig:
			// repeat an already listed honest member if there is one, else behave like Valid
			var prev *Entry
			for i := range out {
				if out[i].Kind == Valid {
					prev = &out[i]
					break
				}
			}
			if prev == nil {
				k := fresh()
				out = append(out, Entry{Valid, k, k.Sign(hash)})
				continue
			}
			if kd == DupSameSig {
				out = append(out, Entry{kd, prev.Key, prev.Sig})
			} else {
				out = append(out, Entry{kd, prev.Key, prev.Key.Sign(hash)})
			}
		}
	}
	return out
}

// Split gives the two parallel lists.
func Split(es []Entry) (keys []keypair.PublicKey, sigs [][]byte) {
	for _, e := range es {
		keys = append(keys, e.Key.Pub)
		sigs = append(sigs, e.Sig)
	}
	return
}

// DistinctValid counts the distinct members (by serialised public key) that are listed among
// keys and for which at least one of sigs verifies over hash. Written from the property, with
// ontology-crypto as the signature reference.
func DistinctValid(hash []byte, memberIDs map[string]bool, keys []keypair.PublicKey, sigs [][]byte) int {
	seen := map[string]bool{}
	n := 0
	for _, k := range keys {
		id := hex.EncodeToString(keypair.SerializePublicKey(k))
		if !memberIDs[id] || seen[id] {
			continue
		}
		seen[id] = true
		for _, s := range sigs {
			if osig.Verify(k, hash, s) == nil {
				n++
				break
			}
		}
	}
	return n
}

// IDs is the member-id set of keys.
func IDs(keys []*pk.Key) map[string]bool {
	m := map[string]bool{}
	for _, k := range keys {
		m[k.PubHex()] = true
	}
	return m
}

// Reshape makes the bookkeeper list and the signature list unequal in length, the way a hostile
// relayer can (the two lists carry independent length prefixes on the wire).
//
//	keepKeys / keepSigs >= 0: truncate the list to that many leading entries (-1: keep all)
//	pad: signatures appended afterwards, each one of
//	     "garbage" (64 random bytes), "repeat" (copy of the first signature, or garbage if none),
//	     "foreign" (honest signature of an outside key), "empty" (zero-length entry)
func Reshape(rng *rand.Rand, hash []byte, keys []keypair.PublicKey, sigs [][]byte, keepKeys, keepSigs int, pad []string) ([]keypair.PublicKey, [][]byte) {
	if keepKeys >= 0 && keepKeys < len(keys) {
		keys = keys[:keepKeys]
	}
	if keepSigs >= 0 && keepSigs < len(sigs) {
		sigs = sigs[:keepSigs]
	}
	sigs = append([][]byte{}, sigs...)
	for _, p := range pad {
		switch p {
		case "repeat":
			if len(sigs) > 0 {
				sigs = append(sigs, append([]byte{}, sigs[0]...))
				continue
			}
			fallthrough
		case "garbage":
			g := make([]byte, 64)
			rng.Read(g)
			sigs = append(sigs, g)
		case "foreign":
			sigs = append(sigs, pk.NewKey(rng).Sign(hash))
		case "empty":
			sigs = append(sigs, []byte{})
		}
	}
	return keys, sigs
}

// PadKinds are the padding kinds understood by Reshape.
var PadKinds = []string{"garbage", "repeat", "foreign", "empty"}
