// C36: only registered relayers (or permitted consensus addresses) can submit transactions.
//
// A real ledger (ledger.DefLedger) is extended block by block with real relayer_manager
// transactions (registerRelayer / approveRegisterRelayer / RemoveRelayer / approveRemoveRelayer signed
// by the validators); after every block the sender-admission rule of the pool's tx actor is asked
// about a batch of signer sets. The registry the oracle uses is rebuilt from what the committed
// blocks *announced* (the contract's own notifications), never from the storage keys the rule reads.
package c36

import (
	"fmt"
	"math/rand"
	"os"
	"testing"
	"time"

	"github.com/ontio/ontology-eventbus/actor"

	"verifharness/kit"
	"verifharness/kit/pk"

	"github.com/polynetwork/poly/common"
	"github.com/polynetwork/poly/core/ledger"
	"github.com/polynetwork/poly/core/types"
	perr "github.com/polynetwork/poly/errors"
	_ "github.com/polynetwork/poly/native/service"
	"github.com/polynetwork/poly/native/service/governance/relayer_manager"
	"github.com/polynetwork/poly/native/service/utils"
	tc "github.com/polynetwork/poly/txnpool/common"
	"github.com/polynetwork/poly/txnpool/proc"
)

type world struct {
	r     *kit.Run
	rng   *rand.Rand
	c     *pk.Chain
	vals  []*pk.Key
	users []*pk.Key // candidate relayers / outsiders
	multi []pk.Signer

	// oracle state, rebuilt from block notifications
	registered map[common.Address]bool
	everReg    map[common.Address]bool
	removed    map[common.Address]bool
	applies    map[uint64][]common.Address // apply id -> requested list
	removes    map[uint64][]common.Address
	nextApply  uint64 // request counters as the contract documents them: next id = number of successful requests so far
	nextRemove uint64
	openApply  []uint64
	openRemove []uint64
	approvals  map[string]map[int]bool // "a<id>" / "r<id>" -> validators that approved
	permitted  map[common.Address]bool
}

func serialize(f func(*common.ZeroCopySink)) []byte {
	s := common.NewZeroCopySink(nil)
	f(s)
	return s.Bytes()
}

// notifications of one committed transaction: [][]interface{} states
func (w *world) notes(tx *types.Transaction) (ok bool, states [][]interface{}) {
	n, err := w.c.Store.GetEventNotifyByTx(tx.Hash())
	if err != nil || n == nil {
		return false, nil
	}
	for _, e := range n.Notify {
		if l, isList := e.States.([]interface{}); isList {
			states = append(states, l)
		}
	}
	return n.State == 1, states
}

func asUint(v interface{}) (uint64, bool) {
	switch x := v.(type) {
	case uint64:
		return x, true
	case float64:
		return uint64(x), true
	case int:
		return uint64(x), true
	case int64:
		return uint64(x), true
	case uint32:
		return uint64(x), true
	}
	return 0, false
}

// commit puts txs into one block and folds what the block announced into the oracle state.
func (w *world) commit(txs []*types.Transaction, meta []func(ok bool, st [][]interface{})) bool {
	_, _, err := w.c.AddBlock(txs, pk.BlockOpt{})
	if err != nil {
		w.r.Inconclusive("AddBlock: " + err.Error())
		return false
	}
	w.r.Count("blocks", 1)
	for i, tx := range txs {
		ok, st := w.notes(tx)
		meta[i](ok, st)
	}
	return true
}

func find(st [][]interface{}, name string) (uint64, bool) {
	for _, s := range st {
		if len(s) >= 2 {
			if n, isStr := s[0].(string); isStr && n == name {
				if id, ok := asUint(s[1]); ok {
					return id, true
				}
			}
		}
	}
	return 0, false
}

// one governance step = one block with 1..3 relayer_manager transactions
func (w *world) governanceStep() bool {
	var txs []*types.Transaction
	var meta []func(bool, [][]interface{})
	nTx := 1 + w.rng.Intn(3)
	for k := 0; k < nTx; k++ {
		// directed mix: open requests are driven to their threshold (oldest first) so that
		// registrations and removals actually take effect within the history
		x := w.rng.Intn(100)
		open := len(w.openApply) + len(w.openRemove)
		action := "approve"
		switch {
		case open > 0 && x < 65:
		case len(w.registered) > 0 && len(w.openRemove) < 2 && x < 85:
			action = "remove" // up to two removal requests are open at once: their lists overlap
		case len(w.openApply) < 2:
			action = "register"
		case open == 0:
			action = "register"
		}
		switch {
		case action == "register": // a user applies for a list of addresses
			applicant := w.users[w.rng.Intn(len(w.users))]
			var list []common.Address
			for n := 1 + w.rng.Intn(3); n > 0; n-- {
				// users[6], users[7], multi[1], multi[2] are never put on a list: permanent outsiders
				if w.rng.Intn(5) == 0 {
					list = append(list, w.multi[0].Address())
				} else {
					list = append(list, w.users[w.rng.Intn(6)].Addr)
				}
			}
			args := serialize((&relayer_manager.RelayerListParam{AddressList: list, Address: applicant.Addr}).Serialization)
			tx := w.c.InvokeTx(utils.RelayerManagerContractAddress, relayer_manager.REGISTER_RELAYER, args, pk.Single(applicant))
			txs = append(txs, tx)
			meta = append(meta, func(ok bool, st [][]interface{}) {
				// the model owns the request ids: by the contract's counter semantics the k-th successful
				// registerRelayer request is request k (ids are NOT taken from what the chain announces)
				if ok {
					id := w.nextApply
					w.nextApply++
					if got, found := find(st, "putRelayerApply"); !found || got != id {
						w.r.Count("request_id_differs_from_announcement", 1)
					}
					w.applies[id] = list
					w.openApply = append(w.openApply, id)
					w.r.Count("register_requests", 1)
				}
			})
		case action == "remove": // removal request for registered addresses
			applicant := w.users[w.rng.Intn(len(w.users))]
			var reg []common.Address
			for a := range w.registered {
				reg = append(reg, a)
			}
			sortAddrs(reg)
			w.rng.Shuffle(len(reg), func(i, j int) { reg[i], reg[j] = reg[j], reg[i] })
			if len(reg) > 2 {
				reg = reg[:1+w.rng.Intn(2)]
			}
			list := append([]common.Address{}, reg...)
			// overlapping and partially stale lists: an address that another open removal request
			// already names (gone by the time this one is approved), a formerly registered one, or one
			// that never was a relayer — at any position of the list
			for _, oid := range w.openRemove {
				if w.rng.Intn(2) == 0 && len(w.removes[oid]) > 0 {
					list = append(list, w.removes[oid][w.rng.Intn(len(w.removes[oid]))])
				}
			}
			if w.rng.Intn(3) == 0 {
				var gone []common.Address
				for a := range w.removed {
					gone = append(gone, a)
				}
				sortAddrs(gone)
				if len(gone) > 0 {
					list = append(list, gone[w.rng.Intn(len(gone))])
				}
			}
			if w.rng.Intn(4) == 0 {
				list = append(list, w.users[6+w.rng.Intn(2)].Addr)
			}
			{ // no address twice, random order
				seen := map[common.Address]bool{}
				out := list[:0]
				for _, a := range list {
					if !seen[a] {
						seen[a] = true
						out = append(out, a)
					}
				}
				list = out
				w.rng.Shuffle(len(list), func(i, j int) { list[i], list[j] = list[j], list[i] })
			}
			args := serialize((&relayer_manager.RelayerListParam{AddressList: list, Address: applicant.Addr}).Serialization)
			tx := w.c.InvokeTx(utils.RelayerManagerContractAddress, relayer_manager.REMOVE_RELAYER, args, pk.Single(applicant))
			txs = append(txs, tx)
			meta = append(meta, func(ok bool, st [][]interface{}) {
				if ok { // k-th successful RemoveRelayer request is removal request k
					id := w.nextRemove
					w.nextRemove++
					if got, found := find(st, "putRelayerRemove"); !found || got != id {
						w.r.Count("request_id_differs_from_announcement", 1)
					}
					w.removes[id] = list
					w.openRemove = append(w.openRemove, id)
					w.r.Count("remove_requests", 1)
				}
			})
		default: // one validator approves one open request
			var isRemove bool
			var id uint64
			switch {
			case len(w.openRemove) > 0 && (len(w.openApply) == 0 || w.rng.Intn(2) == 0):
				isRemove, id = true, w.openRemove[0]
			case len(w.openApply) > 0:
				id = w.openApply[0]
			default:
				continue
			}
			key := fmt.Sprintf("a%d", id)
			method := relayer_manager.APPROVE_REGISTER_RELAYER
			if isRemove {
				key = fmt.Sprintf("r%d", id)
				method = relayer_manager.APPROVE_REMOVE_RELAYER
			}
			if w.approvals[key] == nil {
				w.approvals[key] = map[int]bool{}
			}
			// prefer a validator that has not approved this request yet
			vi := w.rng.Intn(len(w.vals))
			for t := 0; t < len(w.vals) && w.approvals[key][vi]; t++ {
				vi = (vi + 1) % len(w.vals)
			}
			w.approvals[key][vi] = true
			v := w.vals[vi]
			args := serialize((&relayer_manager.ApproveRelayerParam{ID: id, Address: v.Addr}).Serialization)
			tx := w.c.InvokeTx(utils.RelayerManagerContractAddress, method, args, pk.Single(v))
			txs = append(txs, tx)
			rm, rid := isRemove, id
			meta = append(meta, func(ok bool, st [][]interface{}) {
				if !ok {
					return
				}
				if rm {
					if got, found := find(st, "ApproveRemoveRelayer"); found && got == rid {
						staleSeen := false
						for _, a := range w.removes[rid] {
							if !w.registered[a] {
								staleSeen = true
							} else if staleSeen {
								w.r.Count("removals_with_stale_address_before_registered", 1)
								break
							}
						}
						for _, a := range w.removes[rid] {
							if w.registered[a] {
								w.removed[a] = true
							}
							delete(w.registered, a)
						}
						w.openRemove = drop(w.openRemove, rid)
						delete(w.approvals, fmt.Sprintf("r%d", rid))
						w.r.Count("removals_took_effect", 1)
					}
				} else {
					if got, found := find(st, "ApproveRegisterRelayer"); found && got == rid {
						for _, a := range w.applies[rid] {
							w.registered[a] = true
							w.everReg[a] = true
							delete(w.removed, a)
						}
						w.openApply = drop(w.openApply, rid)
						delete(w.approvals, fmt.Sprintf("a%d", rid))
						w.r.Count("registrations_took_effect", 1)
					}
				}
			})
		}
	}
	if len(txs) == 0 {
		return true
	}
	return w.commit(txs, meta)
}

func drop(l []uint64, id uint64) []uint64 {
	out := l[:0]
	for _, x := range l {
		if x != id {
			out = append(out, x)
		}
	}
	return out
}

func sortAddrs(l []common.Address) {
	for i := 1; i < len(l); i++ {
		for j := i; j > 0 && string(l[j][:]) < string(l[j-1][:]); j-- {
			l[j], l[j-1] = l[j-1], l[j]
		}
	}
}

// signer-set shapes
func (w *world) randomSigners() (string, []pk.Signer) {
	u := func() pk.Signer { return pk.Single(w.users[w.rng.Intn(len(w.users))]) }
	v := func() pk.Signer { return pk.Single(w.vals[w.rng.Intn(len(w.vals))]) }
	m := func() pk.Signer { return w.multi[w.rng.Intn(len(w.multi))] }
	switch w.rng.Intn(12) {
	case 0:
		return "none", nil
	case 1, 2:
		return "user", []pk.Signer{u()}
	case 3:
		return "validator", []pk.Signer{v()}
	case 4:
		return "multi", []pk.Signer{m()}
	case 5:
		return "user+user", []pk.Signer{u(), u()}
	case 6:
		return "user+user+user", []pk.Signer{u(), u(), u()}
	case 7:
		return "multi+user", []pk.Signer{m(), u()}
	case 8:
		return "operator", []pk.Signer{pk.OperatorSigner(pk.SortKeys(w.vals))}
	case 9: // a different m-of-n over the validators: not the operator address
		ks := pk.SortKeys(w.vals)
		return "validators-other-m", []pk.Signer{pk.Multi(ks, 1+w.rng.Intn(len(ks)-pk.Quorum(len(ks))+1))}
	case 10: // multi-sig that merely contains a registered key
		ks := []*pk.Key{w.users[w.rng.Intn(len(w.users))], w.vals[0], w.users[w.rng.Intn(len(w.users))]}
		if ks[0] == ks[2] {
			return "user", []pk.Signer{pk.Single(ks[0])}
		}
		return "multi-containing-member", []pk.Signer{pk.Multi(ks, 2)}
	default:
		return "user+validator", []pk.Signer{u(), v()}
	}
}

func (w *world) expect(signers []pk.Signer) (bool, string) {
	for _, s := range signers {
		a := s.Address()
		if w.registered[a] {
			return true, "relayer"
		}
		if w.permitted[a] {
			return true, "permitted"
		}
	}
	return false, ""
}

func (w *world) query(n int, probe func(tx *types.Transaction) (path string, admitted bool, ok bool)) {
	for i := 0; i < n; i++ {
		shape, signers := w.randomSigners()
		w.c.Nonce++
		tx := pk.MakeTx(w.c.ChainID, w.c.Nonce, []byte{0xC3, 0x60, byte(i)}, signers...)
		// the rule as the tx actor applies it: refresh of the permitted cache, then isValidSender
		if err := proc.VerifUpdatePermitted(false); err != nil {
			w.r.Inconclusive("updatePermittedAddrMap: " + err.Error())
			return
		}
		err := proc.VerifIsValidSender(tx)
		want, why := w.expect(signers)
		w.r.Eval(1)
		state := "never"
		for _, s := range signers {
			a := s.Address()
			switch {
			case w.registered[a]:
				state = "registered"
			case w.removed[a] && state != "registered":
				state = "removed"
			}
		}
		w.r.Distinct(shape, state, want, why)
		if want {
			w.r.Count("expected_accept_"+why, 1)
		} else {
			w.r.Count("expected_refuse", 1)
			if state == "removed" {
				w.r.Count("expected_refuse_after_removal", 1)
			}
		}
		replay := map[string]interface{}{"shape": shape, "tx": kit.Hex(tx.ToArray()), "height": w.c.Store.GetCurrentBlockHeight()}
		if want && err != nil {
			w.r.Violation("admission:refused-"+why+":"+shape, fmt.Sprintf("signer set %s holds a %s address but isValidSender says %v", shape, why, err), replay)
		}
		if !want && err == nil {
			k := "admission:accepted-unregistered:" + shape
			if state == "removed" {
				k = "admission:accepted-after-removal:" + shape
			}
			w.r.Violation(k, fmt.Sprintf("signer set %s (%s) has no registered relayer and no permitted address but is admitted", shape, state), replay)
		}
		if probe != nil && i%4 == 0 {
			path, adm, ok := probe(tx)
			if ok {
				w.r.Count("actor_probes", 1)
				if adm != want {
					w.r.Violation("admission:actor-disagrees:"+path+":"+shape, fmt.Sprintf("submitted to the tx actor as %s: admitted=%v, expected %v", path, adm, want), replay)
				}
				if adm {
					w.r.Count("actor_admitted", 1)
					w.r.Count("actor_admitted_via_"+path, 1)
				} else {
					w.r.Count("actor_refused", 1)
					w.r.Count("actor_refused_via_"+path, 1)
				}
			}
		}
	}
}

func TestC36(t *testing.T) {
	r := kit.Start(t, "C36", "exploration")
	defer r.Finish()
	r.Rule("histories of relayer_manager transactions (register / remove requests by users, approvals one validator at a time) committed block by block on a real ledger (up to two removal requests open at once, removal lists in random order that may overlap another open request or name formerly / never registered addresses); after every block a batch of signer sets drawn from 12 shapes (none, user, validator, registered multi-sig, several users, operator multi-sig, other m-of-n of the validators, multi-sig merely containing a member, ...) is submitted to the admission rule, every fourth one also to the real tx actor through each submission path in turn (net / http / nil sender, with and without result channel); distinct = (shape, registry state of the signers, expected verdict, reason)")
	r.Assume("request ids are owned by the model: the k-th successful registerRelayer (RemoveRelayer) transaction is register (removal) request k and its address list is what an approval of id k must add (remove); the chain's announcements are only used to learn THAT an approval reached its quorum")
	r.Assume("a registration / removal is 'approved and committed' when the committed approval transaction announces ApproveRegisterRelayer / ApproveRemoveRelayer for the request id (how many validator approvals that takes is property C32's subject)")
	r.Assume("permitted consensus addresses = the addresses of the consensus peers of the current governance view plus their operator multi-sig address (validator set fixed at genesis in these histories); the rule is evaluated the way the tx actor does it: updatePermittedAddrMap, then isValidSender")
	rng := r.Rand("c36")
	nWorlds := r.N(2, 12)
	blocks := r.N(70, 400)
	perBlock := r.N(24, 24)
	for wi := 0; wi < nWorlds; wi++ {
		nVal := 4 + rng.Intn(4)
		vals := pk.NewKeys(rng, nVal)
		dir := pk.TempDir("c36")
		c, l, err := pk.OpenLedger(dir, 36, vals)
		if err != nil {
			r.Inconclusive("ledger: " + err.Error())
			os.RemoveAll(dir)
			return
		}
		old := ledger.DefLedger
		ledger.DefLedger = l
		proc.VerifResetPermitted()
		w := &world{r: r, rng: rng, c: c, vals: vals, users: pk.NewKeys(rng, 8),
			registered: map[common.Address]bool{}, everReg: map[common.Address]bool{}, removed: map[common.Address]bool{},
			applies: map[uint64][]common.Address{}, removes: map[uint64][]common.Address{}, approvals: map[string]map[int]bool{},
			permitted: map[common.Address]bool{}}
		for i := 0; i < 3; i++ {
			ks := []*pk.Key{w.users[i], w.users[i+1], pk.NewKey(rng)}
			w.multi = append(w.multi, pk.Multi(ks, 2))
		}
		for _, v := range vals {
			w.permitted[v.Addr] = true
		}
		w.permitted[pk.OperatorSigner(pk.SortKeys(vals)).Address()] = true

		// a real tx actor on a server without validators: an admitted tx stays pending, a refused
		// one never becomes pending and (http) is answered with an error
		srv := proc.NewTxPoolServer(1, true, true)
		txPid := actor.Spawn(actor.FromProducer(func() actor.Actor { return proc.NewTxActor(srv) }))
		srv.RegisterActor(tc.TxActor, txPid)
		// every submission path of the actor in turn: from a peer (NetSender), over RPC (HttpSender),
		// internal (NilSender), each with and without a result channel
		nProbe := 0
		probe := func(tx *types.Transaction) (string, bool, bool) {
			senders := []tc.SenderType{tc.NetSender, tc.HttpSender, tc.NilSender}
			sender := senders[nProbe%3]
			withCh := (nProbe/3)%2 == 0
			nProbe++
			path := sender.Sender()
			var ch chan *tc.TxResult
			if withCh {
				ch = make(chan *tc.TxResult, 1)
				path += "+channel"
			}
			txPid.Tell(&tc.TxReq{Tx: tx, Sender: sender, TxResultCh: ch})
			if _, err := txPid.RequestFuture(&tc.GetTxnCountReq{}, 60*time.Second).Result(); err != nil {
				return path, false, false
			}
			// admitted = the server now holds the transaction (no validators are registered, so an
			// admitted transaction stays in the pending list)
			pending := false
			for _, h := range srv.VerifPending() {
				if h == tx.Hash() {
					pending = true
				}
			}
			if sender == tc.HttpSender && withCh {
				refused := false
				select {
				case res := <-ch:
					refused = res.Err != perr.ErrNoError
				default:
				}
				if pending == refused {
					return path, false, false // neither or both: not a clean observation
				}
			}
			return path, pending, true
		}

		// before any refresh of the cache nothing has been read yet: the first submission triggers it
		w.query(perBlock, probe)
		for b := 0; b < blocks; b++ {
			if !w.governanceStep() {
				break
			}
			w.query(perBlock, probe)
		}
		r.Sample(map[string]interface{}{"world": wi, "validators": nVal, "height": c.Store.GetCurrentBlockHeight(),
			"registered_now": len(w.registered), "ever_registered": len(w.everReg), "removed_now": len(w.removed)})
		srv.Stop()
		ledger.DefLedger = old
		l.Close()
		os.RemoveAll(dir)
	}
	r.Require("registrations_took_effect", 4)
	r.Require("removals_took_effect", 2)
	r.Require("removals_with_stale_address_before_registered", 2)
	r.Require("expected_accept_relayer", 100)
	r.Require("expected_accept_permitted", 100)
	r.Require("expected_refuse", 100)
	r.Require("expected_refuse_after_removal", 20)
	r.Require("actor_admitted", 20)
	r.Require("actor_refused", 20)
	for _, path := range []string{"net sender", "net sender+channel", "http sender", "http sender+channel", "nil sender", "nil sender+channel"} {
		r.Require("actor_admitted_via_"+path, 5)
		r.Require("actor_refused_via_"+path, 10)
	}
}
