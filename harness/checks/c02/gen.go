// Package c02 holds the C02 check (c02_test.go) and, in this file and isolate.go, the generators /
// mutators / crash-isolating executor that the C05 check re-uses (transactions, headers and blocks
// travel inside p2p frames).
//
// Nothing in this file is an oracle: it only *produces* honest objects, hostile byte strings and
// runs decoders in a child process.
package c02

import (
	"bytes"
	"crypto/ed25519"
	"crypto/elliptic"
	"crypto/sha256"
	"encoding/binary"
	"fmt"
	"math/rand"

	"github.com/btcsuite/btcd/btcec"
	"github.com/ontio/ontology-crypto/ec"
	"github.com/ontio/ontology-crypto/keypair"
	"github.com/ontio/ontology-crypto/sm2"
	"github.com/polynetwork/poly/common"
	"github.com/polynetwork/poly/core/payload"
	"github.com/polynetwork/poly/core/types"
)

// Dsha is double SHA-256 from the Go standard library (the checker's reference hash).
func Dsha(b []byte) [32]byte {
	a := sha256.Sum256(b)
	return sha256.Sum256(a[:])
}

// RefRoot is the checker's own recursive transaction-root definition (same model as C03).
func RefRoot(hs [][32]byte) [32]byte {
	if len(hs) == 0 {
		return [32]byte{}
	}
	if len(hs) == 1 {
		return hs[0]
	}
	var next [][32]byte
	for i := 0; i < len(hs); i += 2 {
		l := hs[i]
		r := l
		if i+1 < len(hs) {
			r = hs[i+1]
		}
		next = append(next, Dsha(append(append([]byte{}, l[:]...), r[:]...)))
	}
	return RefRoot(next)
}

// PoolKey is a public key of one of the schemes poly can carry, with its wire bytes.
type PoolKey struct {
	Pub    keypair.PublicKey
	Bytes  []byte
	Scheme string
}

func scalar(rng *rand.Rand, n int) []byte {
	d := make([]byte, n)
	for {
		rng.Read(d)
		d[0] &= 0x3f
		for _, b := range d {
			if b != 0 {
				return d
			}
		}
	}
}

// KeyPool derives n public keys from the PRNG: ECDSA over P-256 / P-384 / P-521 /
// secp256k1, SM2 and Ed25519 in rotation.
func KeyPool(rng *rand.Rand, n int) []PoolKey {
	var out []PoolKey
	for i := 0; i < n; i++ {
		var pk keypair.PublicKey
		var scheme string
		switch i % 7 {
		case 0, 1:
			p := ec.ConstructPrivateKey(scalar(rng, 32), elliptic.P256())
			pk, scheme = &ec.PublicKey{Algorithm: ec.ECDSA, PublicKey: &p.PublicKey}, "ecdsa-p256"
		case 2:
			p := ec.ConstructPrivateKey(scalar(rng, 32), sm2.SM2P256V1())
			pk, scheme = &ec.PublicKey{Algorithm: ec.SM2, PublicKey: &p.PublicKey}, "sm2"
		case 3:
			pub := ed25519.NewKeyFromSeed(scalar(rng, 32)).Public().(ed25519.PublicKey)
			pk, scheme = pub, "ed25519"
		case 4:
			p := ec.ConstructPrivateKey(scalar(rng, 32), btcec.S256())
			pk, scheme = &ec.PublicKey{Algorithm: ec.ECDSA, PublicKey: &p.PublicKey}, "ecdsa-secp256k1"
		case 5:
			// (P-224 is left out: ontology-crypto's point decompression for p = 1 mod 4 draws random
			// primes and takes ~50 ms per key, which would dominate the run without observing poly)
			p := ec.ConstructPrivateKey(scalar(rng, 32), elliptic.P256())
			pk, scheme = &ec.PublicKey{Algorithm: ec.ECDSA, PublicKey: &p.PublicKey}, "ecdsa-p256"
		case 6:
			if i%2 == 0 {
				p := ec.ConstructPrivateKey(scalar(rng, 48), elliptic.P384())
				pk, scheme = &ec.PublicKey{Algorithm: ec.ECDSA, PublicKey: &p.PublicKey}, "ecdsa-p384"
			} else {
				p := ec.ConstructPrivateKey(scalar(rng, 64), elliptic.P521())
				pk, scheme = &ec.PublicKey{Algorithm: ec.ECDSA, PublicKey: &p.PublicKey}, "ecdsa-p521"
			}
		}
		out = append(out, PoolKey{Pub: pk, Bytes: keypair.SerializePublicKey(pk), Scheme: scheme})
	}
	return out
}

// ---------------------------------------------------------------------------------------------
// specifications of honest objects (plain data; Build() makes the poly struct)

type SigSpec struct {
	SigData [][]byte
	Keys    []PoolKey
	M       uint16
}

type TxSpec struct {
	Nonce    uint32
	ChainID  uint64
	GasLimit uint64
	GasPrice uint64
	Code     []byte
	Payer    common.Address
	Sigs     []SigSpec
}

func (s *TxSpec) Build() *types.Transaction {
	tx := &types.Transaction{Version: types.CURR_TX_VERSION, TxType: types.Invoke, Nonce: s.Nonce, ChainID: s.ChainID,
		GasLimit: s.GasLimit, GasPrice: s.GasPrice, Payload: &payload.InvokeCode{Code: s.Code}, Payer: s.Payer, CoinType: types.ONG}
	for _, sg := range s.Sigs {
		x := types.Sig{M: sg.M}
		for _, d := range sg.SigData {
			x.SigData = append(x.SigData, d)
		}
		for _, k := range sg.Keys {
			x.PubKeys = append(x.PubKeys, k.Pub)
		}
		tx.Sigs = append(tx.Sigs, x)
	}
	return tx
}

func (s *TxSpec) Clone() *TxSpec {
	c := *s
	c.Code = append([]byte{}, s.Code...)
	c.Sigs = append([]SigSpec{}, s.Sigs...)
	return &c
}

var edge64 = []uint64{0, 1, 0xFC, 0xFD, 0xFFFF, 0x10000, 0xFFFFFFFF, 0x100000000, 0x7FFFFFFFFFFFFFFF, 0x8000000000000000, 0xFFFFFFFFFFFFFFFF}

func u64(rng *rand.Rand) uint64 {
	if rng.Intn(3) == 0 {
		return edge64[rng.Intn(len(edge64))]
	}
	return rng.Uint64() >> uint(rng.Intn(64))
}

func byteLen(rng *rand.Rand, max int) int {
	x := rng.Intn(100)
	switch {
	case x < 25:
		return []int{0, 1, 0xFC, 0xFD, 0xFE, 0xFF, 0x100}[rng.Intn(7)]
	case x < 28 && max >= 0x10000:
		return []int{0xFFFF, 0x10000, 0x10001, max}[rng.Intn(4)]
	case x < 40 && max >= 2048:
		return 256 + rng.Intn(1792)
	}
	if max > 80 {
		max = 80
	}
	return rng.Intn(max + 1)
}

func GenSig(rng *rand.Rand, pool []PoolKey) SigSpec {
	var s SigSpec
	nk := 1 + rng.Intn(4)
	for i := 0; i < nk; i++ {
		s.Keys = append(s.Keys, pool[rng.Intn(len(pool))])
	}
	nd := rng.Intn(5)
	for i := 0; i < nd; i++ {
		d := make([]byte, []int{0, 1, 64, 65, 66, 70, 0xFC, 0xFD}[rng.Intn(8)])
		rng.Read(d)
		s.SigData = append(s.SigData, d)
	}
	s.M = uint16(rng.Intn(nk + 1))
	if rng.Intn(8) == 0 {
		s.M = uint16(rng.Intn(0x10000))
	}
	return s
}

// GenTx draws a well-formed transaction (invoke payload up to maxCode bytes, 0-3 signature
// entries of 1-4 keys).
func GenTx(rng *rand.Rand, pool []PoolKey, maxCode int) *TxSpec {
	s := &TxSpec{Nonce: uint32(u64(rng)), ChainID: u64(rng), GasLimit: u64(rng), GasPrice: u64(rng)}
	s.Code = make([]byte, byteLen(rng, maxCode))
	rng.Read(s.Code)
	rng.Read(s.Payer[:])
	for n := rng.Intn(4); n > 0; n-- {
		s.Sigs = append(s.Sigs, GenSig(rng, pool))
	}
	return s
}

type HeaderSpec struct {
	ChainID          uint64
	PrevBlockHash    common.Uint256
	TransactionsRoot common.Uint256
	CrossStateRoot   common.Uint256
	BlockRoot        common.Uint256
	Timestamp        uint32
	Height           uint32
	ConsensusData    uint64
	ConsensusPayload []byte
	NextBookkeeper   common.Address
	Bookkeepers      []PoolKey
	SigData          [][]byte
}

func (s *HeaderSpec) Build() *types.Header {
	h := &types.Header{Version: types.CURR_HEADER_VERSION, ChainID: s.ChainID, PrevBlockHash: s.PrevBlockHash, TransactionsRoot: s.TransactionsRoot,
		CrossStateRoot: s.CrossStateRoot, BlockRoot: s.BlockRoot, Timestamp: s.Timestamp, Height: s.Height, ConsensusData: s.ConsensusData,
		ConsensusPayload: s.ConsensusPayload, NextBookkeeper: s.NextBookkeeper}
	for _, k := range s.Bookkeepers {
		h.Bookkeepers = append(h.Bookkeepers, k.Pub)
	}
	for _, d := range s.SigData {
		h.SigData = append(h.SigData, d)
	}
	return h
}

func (s *HeaderSpec) Clone() *HeaderSpec {
	c := *s
	c.ConsensusPayload = append([]byte{}, s.ConsensusPayload...)
	return &c
}

func GenHeader(rng *rand.Rand, pool []PoolKey, maxPayload int) *HeaderSpec {
	s := &HeaderSpec{ChainID: u64(rng), Timestamp: uint32(u64(rng)), Height: uint32(u64(rng)), ConsensusData: u64(rng)}
	rng.Read(s.PrevBlockHash[:])
	rng.Read(s.TransactionsRoot[:])
	rng.Read(s.CrossStateRoot[:])
	rng.Read(s.BlockRoot[:])
	rng.Read(s.NextBookkeeper[:])
	s.ConsensusPayload = make([]byte, byteLen(rng, maxPayload))
	rng.Read(s.ConsensusPayload)
	for n := rng.Intn(8); n > 0; n-- {
		s.Bookkeepers = append(s.Bookkeepers, pool[rng.Intn(len(pool))])
	}
	for n := rng.Intn(8); n > 0; n-- {
		d := make([]byte, []int{0, 1, 64, 65, 70, 0xFD}[rng.Intn(6)])
		rng.Read(d)
		s.SigData = append(s.SigData, d)
	}
	return s
}

type BlockSpec struct {
	Header *HeaderSpec
	Txs    []*TxSpec
}

// ---------------------------------------------------------------------------------------------
// layout walkers: re-create the honest wire bytes while remembering where every length / count
// field lives, so that mutators can rewrite exactly those fields. They are cross-checked against
// the real encoder's output by the callers (a mismatch makes the run inconclusive, not violated).

type Point struct {
	Name string // e.g. "tx.sig-count"
	Off  int
	W    int    // width of the field as encoded
	Enc  string // "varuint" | "u16" | "u32"
}

type walker struct {
	b   []byte
	pts []Point
}

func (w *walker) raw(b []byte) { w.b = append(w.b, b...) }
func (w *walker) u8(v byte)    { w.b = append(w.b, v) }
func (w *walker) u16(v uint16) {
	var x [2]byte
	binary.LittleEndian.PutUint16(x[:], v)
	w.raw(x[:])
}
func (w *walker) u32(v uint32) {
	var x [4]byte
	binary.LittleEndian.PutUint32(x[:], v)
	w.raw(x[:])
}
func (w *walker) u64(v uint64) {
	var x [8]byte
	binary.LittleEndian.PutUint64(x[:], v)
	w.raw(x[:])
}

// VarUint is the canonical Bitcoin-style var-int; long forces the 9-byte form.
func VarUint(v uint64, long bool) []byte {
	var x [9]byte
	switch {
	case long || v > 0xFFFFFFFF:
		x[0] = 0xFF
		binary.LittleEndian.PutUint64(x[1:], v)
		return x[:9]
	case v < 0xFD:
		x[0] = byte(v)
		return x[:1]
	case v <= 0xFFFF:
		x[0] = 0xFD
		binary.LittleEndian.PutUint16(x[1:], uint16(v))
		return x[:3]
	}
	x[0] = 0xFE
	binary.LittleEndian.PutUint32(x[1:], uint32(v))
	return x[:5]
}

// VarUintW spells v as a var-uint of exactly width bytes (1, 3, 5 or 9); ok=false if v does not
// fit. Widths above the minimal one are the non-canonical spellings the decoders accept.
func VarUintW(v uint64, width int) ([]byte, bool) {
	x := make([]byte, 9)
	switch width {
	case 1:
		if v >= 0xFD {
			return nil, false
		}
		return []byte{byte(v)}, true
	case 3:
		if v > 0xFFFF {
			return nil, false
		}
		x[0] = 0xFD
		binary.LittleEndian.PutUint16(x[1:], uint16(v))
		return x[:3], true
	case 5:
		if v > 0xFFFFFFFF {
			return nil, false
		}
		x[0] = 0xFE
		binary.LittleEndian.PutUint32(x[1:], uint32(v))
		return x[:5], true
	case 9:
		x[0] = 0xFF
		binary.LittleEndian.PutUint64(x[1:], v)
		return x[:9], true
	}
	return nil, false
}

func (w *walker) countVar(name string, v uint64) {
	e := VarUint(v, false)
	w.pts = append(w.pts, Point{Name: name, Off: len(w.b), W: len(e), Enc: "varuint"})
	w.raw(e)
}
func (w *walker) count16(name string, v uint16) {
	w.pts = append(w.pts, Point{Name: name, Off: len(w.b), W: 2, Enc: "u16"})
	w.u16(v)
}
func (w *walker) count32(name string, v uint32) {
	w.pts = append(w.pts, Point{Name: name, Off: len(w.b), W: 4, Enc: "u32"})
	w.u32(v)
}
func (w *walker) varBytes(name string, b []byte) {
	w.countVar(name, uint64(len(b)))
	w.raw(b)
}

func (w *walker) tx(s *TxSpec) {
	w.u8(types.CURR_TX_VERSION)
	w.u8(byte(types.Invoke))
	w.u32(s.Nonce)
	w.u64(s.ChainID)
	w.u64(s.GasLimit)
	w.u64(s.GasPrice)
	w.varBytes("tx.code-len", s.Code)
	w.varBytes("tx.attr-len", nil)
	w.raw(s.Payer[:])
	w.u8(byte(types.ONG))
	w.countVar("tx.sig-count", uint64(len(s.Sigs)))
	for _, sg := range s.Sigs {
		w.count16("tx.sig.sigdata-count", uint16(len(sg.SigData)))
		for _, d := range sg.SigData {
			w.varBytes("tx.sig.sigdata-len", d)
		}
		w.count16("tx.sig.pubkey-count", uint16(len(sg.Keys)))
		for _, k := range sg.Keys {
			w.varBytes("tx.sig.pubkey-len", k.Bytes)
		}
		w.u16(sg.M)
	}
}

func (w *walker) header(s *HeaderSpec) {
	w.u32(types.CURR_HEADER_VERSION)
	w.u64(s.ChainID)
	w.raw(s.PrevBlockHash[:])
	w.raw(s.TransactionsRoot[:])
	w.raw(s.CrossStateRoot[:])
	w.raw(s.BlockRoot[:])
	w.u32(s.Timestamp)
	w.u32(s.Height)
	w.u64(s.ConsensusData)
	w.varBytes("hdr.payload-len", s.ConsensusPayload)
	w.raw(s.NextBookkeeper[:])
	w.countVar("hdr.bookkeeper-count", uint64(len(s.Bookkeepers)))
	for _, k := range s.Bookkeepers {
		w.varBytes("hdr.bookkeeper-len", k.Bytes)
	}
	w.countVar("hdr.sigdata-count", uint64(len(s.SigData)))
	for _, d := range s.SigData {
		w.varBytes("hdr.sigdata-len", d)
	}
}

func LayoutTx(s *TxSpec) ([]byte, []Point) {
	w := &walker{}
	w.tx(s)
	return w.b, w.pts
}

func LayoutHeader(s *HeaderSpec) ([]byte, []Point) {
	w := &walker{}
	w.header(s)
	return w.b, w.pts
}

func LayoutBlock(s *BlockSpec) ([]byte, []Point) {
	w := &walker{}
	w.header(s.Header)
	w.count32("blk.tx-count", uint32(len(s.Txs)))
	for _, t := range s.Txs {
		w.tx(t)
	}
	return w.b, w.pts
}

// RewriteValues is the hostile value set for length / count fields.
var RewriteValues = []uint64{0, 1, 0xFC, 0xFD, 0xFE, 0xFFFF, 0x10000, 0xFFFFFFFF, 1 << 32, 1 << 63, 1<<64 - 1}

func ValueName(v uint64) string {
	switch v {
	case 1 << 32:
		return "2^32"
	case 1 << 63:
		return "2^63"
	case 1<<64 - 1:
		return "2^64-1"
	case 0xFFFFFFFF:
		return "2^32-1"
	}
	if v > 0xFFFF {
		return "big"
	}
	return "small"
}

// Rewrite returns b with the field at p replaced by v (var-uints change the total length;
// fixed-width fields take v modulo their width). ok=false if v does not fit a fixed-width field
// distinctly (already covered by a smaller value).
func Rewrite(b []byte, p Point, v uint64, long bool) ([]byte, bool) {
	var enc []byte
	switch p.Enc {
	case "varuint":
		enc = VarUint(v, long)
	case "u16":
		if v > 0xFFFF || long {
			return nil, false
		}
		enc = []byte{byte(v), byte(v >> 8)}
	case "u32":
		if v > 0xFFFFFFFF || long {
			return nil, false
		}
		enc = []byte{byte(v), byte(v >> 8), byte(v >> 16), byte(v >> 24)}
	}
	out := make([]byte, 0, len(b)+9)
	out = append(out, b[:p.Off]...)
	out = append(out, enc...)
	out = append(out, b[p.Off+p.W:]...)
	return out, true
}

// Mutate applies one random hostile edit (truncation, bit flips, byte stamps, splice, garbage).
func Mutate(rng *rand.Rand, honest []byte) ([]byte, string) {
	b := append([]byte{}, honest...)
	switch rng.Intn(7) {
	case 0:
		if len(b) == 0 {
			return b, "truncate"
		}
		return b[:rng.Intn(len(b))], "truncate"
	case 1:
		for k := 1 + rng.Intn(3); k > 0 && len(b) > 0; k-- {
			b[rng.Intn(len(b))] ^= 1 << uint(rng.Intn(8))
		}
		return b, "bitflip"
	case 2:
		if len(b) > 0 {
			b[rng.Intn(len(b))] = []byte{0xFD, 0xFE, 0xFF, 0x00, 0x01, 0x80}[rng.Intn(6)]
		}
		return b, "stamp"
	case 3:
		// stamp a 9-byte var-uint / large count somewhere
		if len(b) > 0 {
			i := rng.Intn(len(b))
			e := VarUint(RewriteValues[rng.Intn(len(RewriteValues))], rng.Intn(2) == 0)
			b = append(append(append([]byte{}, b[:i]...), e...), b[i:]...)
		}
		return b, "insert-varuint"
	case 4:
		if len(b) > 1 {
			i, j := rng.Intn(len(b)), rng.Intn(len(b))
			if i > j {
				i, j = j, i
			}
			b = append(b[:i], b[j:]...)
		}
		return b, "delete-range"
	case 5:
		if len(b) > 0 {
			i := rng.Intn(len(b))
			n := 1 + rng.Intn(12)
			for k := i; k < i+n && k < len(b); k++ {
				b[k] = byte(rng.Intn(256))
			}
		}
		return b, "scramble-run"
	}
	n := rng.Intn(200)
	g := make([]byte, n)
	rng.Read(g)
	return g, "garbage"
}

// ---------------------------------------------------------------------------------------------
// field-wise comparison of decoded objects with the specification they were built from

func pubBytes(k keypair.PublicKey) []byte { return keypair.SerializePublicKey(k) }

func sigsEqual(got []types.Sig, want []SigSpec) string {
	if len(got) != len(want) {
		return fmt.Sprintf("sig entries %d != %d", len(got), len(want))
	}
	for i := range want {
		if got[i].M != want[i].M {
			return fmt.Sprintf("sig %d M %d != %d", i, got[i].M, want[i].M)
		}
		if len(got[i].SigData) != len(want[i].SigData) {
			return fmt.Sprintf("sig %d sigdata count", i)
		}
		for j := range want[i].SigData {
			if !bytes.Equal(got[i].SigData[j], want[i].SigData[j]) {
				return fmt.Sprintf("sig %d sigdata %d differs", i, j)
			}
		}
		if len(got[i].PubKeys) != len(want[i].Keys) {
			return fmt.Sprintf("sig %d pubkey count", i)
		}
		for j := range want[i].Keys {
			if !bytes.Equal(pubBytes(got[i].PubKeys[j]), want[i].Keys[j].Bytes) {
				return fmt.Sprintf("sig %d pubkey %d (%s) differs", i, j, want[i].Keys[j].Scheme)
			}
		}
	}
	return ""
}

// TxDiff compares a decoded transaction with the specification it was built from.
func TxDiff(d *types.Transaction, s *TxSpec) (field, what string) {
	switch {
	case d.Version != types.CURR_TX_VERSION:
		return "version", ""
	case d.TxType != types.Invoke:
		return "txtype", ""
	case d.Nonce != s.Nonce:
		return "nonce", fmt.Sprintf("%d != %d", d.Nonce, s.Nonce)
	case d.ChainID != s.ChainID:
		return "chainid", fmt.Sprintf("%d != %d", d.ChainID, s.ChainID)
	case d.GasLimit != s.GasLimit:
		return "gaslimit", fmt.Sprintf("%d != %d", d.GasLimit, s.GasLimit)
	case d.GasPrice != s.GasPrice:
		return "gasprice", fmt.Sprintf("%d != %d", d.GasPrice, s.GasPrice)
	case d.Payer != s.Payer:
		return "payer", ""
	case d.CoinType != types.ONG:
		return "cointype", ""
	case len(d.Attributes) != 0:
		return "attributes", ""
	}
	if d.Payload == nil {
		return "payload", "nil"
	}
	if got := payloadCode(d); !bytes.Equal(got, s.Code) {
		return "payload", fmt.Sprintf("code %d bytes != %d bytes", len(got), len(s.Code))
	}
	if w := sigsEqual(d.Sigs, s.Sigs); w != "" {
		return "sigs", w
	}
	return "", ""
}

func HeaderDiff(d *types.Header, s *HeaderSpec) string {
	switch {
	case d.Version != types.CURR_HEADER_VERSION:
		return "version"
	case d.ChainID != s.ChainID:
		return "chainid"
	case d.PrevBlockHash != s.PrevBlockHash:
		return "prevblockhash"
	case d.TransactionsRoot != s.TransactionsRoot:
		return "transactionsroot"
	case d.CrossStateRoot != s.CrossStateRoot:
		return "crossstateroot"
	case d.BlockRoot != s.BlockRoot:
		return "blockroot"
	case d.Timestamp != s.Timestamp:
		return "timestamp"
	case d.Height != s.Height:
		return "height"
	case d.ConsensusData != s.ConsensusData:
		return "consensusdata"
	case !bytes.Equal(d.ConsensusPayload, s.ConsensusPayload):
		return "consensuspayload"
	case d.NextBookkeeper != s.NextBookkeeper:
		return "nextbookkeeper"
	case len(d.Bookkeepers) != len(s.Bookkeepers):
		return "bookkeepers"
	case len(d.SigData) != len(s.SigData):
		return "sigdata"
	}
	for i := range s.Bookkeepers {
		if !bytes.Equal(pubBytes(d.Bookkeepers[i]), s.Bookkeepers[i].Bytes) {
			return "bookkeepers"
		}
	}
	for i := range s.SigData {
		if !bytes.Equal(d.SigData[i], s.SigData[i]) {
			return "sigdata"
		}
	}
	return ""
}


// HeaderDiff: see TxDiff.
func payloadCode(d *types.Transaction) []byte {
	if ic, ok := d.Payload.(*payload.InvokeCode); ok {
		return ic.Code
	}
	return nil
}


// UnsignedTx returns the bytes of the transaction that precede its signature list (per the
// layout walker) and their double SHA-256, i.e. the identity the property prescribes.
func UnsignedTx(s *TxSpec) ([]byte, [32]byte) {
	b, pts := LayoutTx(s)
	for _, p := range pts {
		if p.Name == "tx.sig-count" {
			return b[:p.Off], Dsha(b[:p.Off])
		}
	}
	return nil, [32]byte{}
}

// BuildBlock makes a block whose header commits to the reference root of its transactions.
func BuildBlock(hs *HeaderSpec, txs []*TxSpec) (*types.Block, *BlockSpec) {
	var hashes [][32]byte
	blk := &types.Block{}
	for _, t := range txs {
		_, h := UnsignedTx(t)
		hashes = append(hashes, h)
		blk.Transactions = append(blk.Transactions, t.Build())
	}
	h := hs.Clone()
	h.TransactionsRoot = common.Uint256(RefRoot(hashes))
	blk.Header = h.Build()
	return blk, &BlockSpec{Header: h, Txs: txs}
}
