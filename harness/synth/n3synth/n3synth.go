// Package n3synth builds NEO N3 light-client data with generated keys using neo3-gogogo:
// m-of-n multi-signature contracts, block headers and state roots whose witness slots are of chosen
// kinds, and the independent judgement "how many distinct members validly signed".
// (synth/n3lsynth is the same file with the neo3-gogogo-legacy import path.)
package n3synth

import (
	"crypto/sha256"
	"math/rand"
	"sort"

	"github.com/joeqian10/neo3-gogogo/block"
	"github.com/joeqian10/neo3-gogogo/crypto"
	"github.com/joeqian10/neo3-gogogo/helper"
	"github.com/joeqian10/neo3-gogogo/io"
	"github.com/joeqian10/neo3-gogogo/keys"
	"github.com/joeqian10/neo3-gogogo/mpt"
	"github.com/joeqian10/neo3-gogogo/rpc/models"
	"github.com/joeqian10/neo3-gogogo/sc"
	"github.com/joeqian10/neo3-gogogo/tx"
)

// Set is an m-of-n committee.
type Set struct {
	Keys   []*keys.KeyPair // ascending by public key (script order)
	M      int
	Script []byte
	Hash   *helper.UInt160
}

// NewKey derives a key pair from the rng.
func NewKey(rng *rand.Rand) *keys.KeyPair {
	for {
		b := make([]byte, 32)
		rng.Read(b)
		b[0] &= 0x7f
		if k, err := keys.NewKeyPair(b); err == nil && k.PublicKey != nil {
			return k
		}
	}
}

// NewKeys makes n keys.
func NewKeys(rng *rand.Rand, n int) []*keys.KeyPair {
	ks := make([]*keys.KeyPair, n)
	for i := range ks {
		ks[i] = NewKey(rng)
	}
	return ks
}

// FromKeys builds the m-of-n committee of the given keys (1 <= m <= n <= 16).
func FromKeys(ks []*keys.KeyPair, m int) *Set {
	ks = append([]*keys.KeyPair{}, ks...)
	sort.Slice(ks, func(i, j int) bool { return ks[i].PublicKey.CompareTo(ks[j].PublicKey) == -1 })
	pubs := make([]crypto.ECPoint, len(ks))
	for i, k := range ks {
		pubs[i] = *k.PublicKey
	}
	script, err := sc.CreateMultiSigRedeemScript(m, pubs)
	if err != nil {
		panic(err)
	}
	return &Set{Keys: ks, M: m, Script: script, Hash: helper.UInt160FromBytes(crypto.Hash160(script))}
}

// PubStrings lists the compressed public keys as hex strings.
func (s *Set) PubStrings() []string {
	var out []string
	for _, k := range s.Keys {
		out = append(out, k.PublicKey.String())
	}
	return out
}

// SlotKind is what one invocation-script slot holds.
type SlotKind int

const (
	Valid       SlotKind = iota // next chosen member, honest signature
	Foreign                     // honest signature of a key outside the committee
	BadSig                      // next chosen member signs other data
	DupSameSig                  // the previous valid slot's signature bytes again
	DupFreshSig                 // the previous valid slot's member signs again
	Garbage                     // 64 random bytes
	NKinds
)

func (k SlotKind) String() string {
	return [...]string{"valid", "foreign", "bad-sig", "dup-same-sig", "dup-fresh-sig", "garbage"}[k]
}

// Sigs produces one 64-byte signature per slot; who = member indices used by Valid/BadSig slots.
func (s *Set) Sigs(rng *rand.Rand, msg []byte, kinds []SlotKind, who []int) [][]byte {
	var out [][]byte
	next := 0
	var prevKey *keys.KeyPair
	var prevSig []byte
	member := func() *keys.KeyPair {
		k := s.Keys[who[next%len(who)]]
		next++
		return k
	}
	sign := func(k *keys.KeyPair, m []byte) []byte {
		sig, err := k.Sign(m)
		if err != nil {
			panic(err)
		}
		return sig
	}
	for _, kd := range kinds {
		switch kd {
		case Valid:
			k := member()
			sg := sign(k, msg)
			prevKey, prevSig = k, sg
			out = append(out, sg)
		case Foreign:
			out = append(out, sign(NewKey(rng), msg))
		case BadSig:
			o := sha256.Sum256(msg)
			out = append(out, sign(member(), o[:]))
		case DupSameSig:
			if prevSig == nil {
				k := member()
				prevKey, prevSig = k, sign(k, msg)
			}
			out = append(out, prevSig)
		case DupFreshSig:
			if prevKey == nil {
				k := member()
				prevKey, prevSig = k, sign(k, msg)
				out = append(out, prevSig)
				continue
			}
			out = append(out, sign(prevKey, msg))
		case Garbage:
			g := make([]byte, 64)
			rng.Read(g)
			out = append(out, g)
		}
	}
	return out
}

// Invocation encodes signatures as an N3 invocation script (PUSHDATA1 0x40 sig)*.
func Invocation(sigs [][]byte) []byte {
	var out []byte
	for _, s := range sigs {
		out = append(out, 0x0c, 0x40)
		out = append(out, s...)
	}
	return out
}

// DistinctValid counts committee members for which at least one signature verifies over msg.
func (s *Set) DistinctValid(msg []byte, sigs [][]byte) int {
	n := 0
	for _, k := range s.Keys {
		for _, sg := range sigs {
			if len(sg) == 64 && keys.VerifySignature(msg, sg, k.PublicKey) {
				n++
				break
			}
		}
	}
	return n
}

func signData(magic uint32, unsigned []byte) []byte {
	h := sha256.Sum256(unsigned)
	return append(helper.UInt32ToBytes(magic), h[:]...)
}

// Header makes an unsigned N3 header.
func Header(index uint32, next *helper.UInt160, salt uint32) *block.Header {
	h := block.NewBlockHeader()
	h.SetIndex(index)
	h.SetTimeStamp(1600000000000 + uint64(index)*15000)
	p := sha256.Sum256([]byte{byte(index), byte(index >> 8), 7})
	h.SetPrevHash(helper.UInt256FromBytes(p[:]))
	m := sha256.Sum256([]byte{byte(salt), byte(salt >> 8), 9})
	h.SetMerkleRoot(helper.UInt256FromBytes(m[:]))
	h.SetNextConsensus(next)
	return h
}

// HeaderMessage is what consensus nodes sign: magic || sha256(unsigned header).
func HeaderMessage(h *block.Header, magic uint32) []byte {
	bw := io.NewBufBinaryWriter()
	h.SerializeUnsigned(bw.BinaryWriter)
	if bw.Err != nil {
		panic(bw.Err)
	}
	return signData(magic, bw.Bytes())
}

// SetWitness attaches a witness.
func SetWitness(h *block.Header, inv, ver []byte) {
	h.Witness = &tx.Witness{InvocationScript: inv, VerificationScript: ver}
}

// RawHeader serialises a header with its witness.
func RawHeader(h *block.Header) []byte {
	bw := io.NewBufBinaryWriter()
	h.Serialize(bw.BinaryWriter)
	if bw.Err != nil {
		panic(bw.Err)
	}
	return bw.Bytes()
}

// StateRoot makes an unsigned state root.
func StateRoot(index uint32, root [32]byte) *mpt.StateRoot {
	return &mpt.StateRoot{Version: 0, Index: index, RootHash: "0x" + helper.UInt256FromBytes(root[:]).String()}
}

// StateRootMessage is what state validators sign: magic || sha256(unsigned state root).
func StateRootMessage(sr *mpt.StateRoot, magic uint32) []byte {
	bw := io.NewBufBinaryWriter()
	sr.SerializeUnsigned(bw.BinaryWriter)
	if bw.Err != nil {
		panic(bw.Err)
	}
	return signData(magic, bw.Bytes())
}

// SetStateRootWitness attaches a witness.
func SetStateRootWitness(sr *mpt.StateRoot, inv, ver []byte) {
	sr.Witnesses = []models.RpcWitness{{Invocation: crypto.Base64Encode(inv), Verification: crypto.Base64Encode(ver)}}
}

// RawStateRoot serialises the state root with its witness.
func RawStateRoot(sr *mpt.StateRoot) []byte {
	bw := io.NewBufBinaryWriter()
	sr.Serialize(bw.BinaryWriter)
	if bw.Err != nil {
		panic(bw.Err)
	}
	return bw.Bytes()
}
