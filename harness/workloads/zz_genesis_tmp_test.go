package workloads

import (
	"runtime"
	"testing"

	"verifharness/kit"
)

func TestGenesisAllTmp(t *testing.T) {
	r := kit.Start(t, "CXX", "exploration")
	for i := 0; i < 3; i++ {
		Extra(r, r.Rand("g"), nil)
		var m runtime.MemStats
		runtime.ReadMemStats(&m)
		t.Log("heap MB", m.HeapAlloc>>20, "sys MB", m.Sys>>20)
	}
	for _, k := range []string{"successful_calls", "failed_calls"} {
		t.Log(k, r.Get(k))
	}
}
