// C21: imports are gated by the chain registry and the blacklist (and by the router start block).
//
// Model-based: histories of {register(+approve) chain, register only, quit(+approve), quit request
// only, BlackChain, WhiteChain (by the operator / by someone else), import (a voting round)} over
// six chain ids, all through the real contracts. The model tracks registered / blacklisted from
// the operations; before each import the registry part is cross-checked against the real registry
// getter (a disagreement is a registry question, C33, and the import is then not judged).
package c21

import (
	"fmt"
	"math/big"
	"math/rand"
	"testing"

	"github.com/polynetwork/poly/common"
	"github.com/polynetwork/poly/common/config"
	scom "github.com/polynetwork/poly/native/service/cross_chain_manager/common"
	"github.com/polynetwork/poly/native/service/utils"

	"verifharness/kit"
	"verifharness/kit/nat"
	"verifharness/kit/pk"
	cs "verifharness/synth/ccmsynth"
	es "verifharness/synth/ethsynth"

	polyeth "github.com/polynetwork/poly/native/service/header_sync/eth"
)

const startBlock = 18823000 // main-net start block of the hsc / bytom / harmony routers

type chainDef struct {
	id     uint64
	router uint64
	name   string
}

var chainDefs = []chainDef{
	{30, utils.VOTE_ROUTER, "vote"}, {31, utils.VOTE_ROUTER, "vote"}, {32, utils.VOTE_ROUTER, "vote"}, {33, utils.ETH_ROUTER, "eth"},
	{34, utils.HSC_ROUTER, "hsc"}, {35, utils.BYTOM_ROUTER, "bytom"}, {36, utils.HARMONY_ROUTER, "harmony"}, {37, utils.BSC_ROUTER, "bsc"},
	{rippleDst, utils.RIPPLE_ROUTER, "ripple"},
}

// rippleDst is a fully configured ripple-router chain used as DESTINATION (not account-based: an
// accepted import builds a ripple payment record instead of a request): signer list registered in
// its extra info, asset binding by its operator, base fee voted in, so that its own transaction
// builder succeeds and only the gates decide.
const rippleDst = 38

// evmSrc: chains 33 (eth), 37 (bsc) and 34 (hsc, behind the start-block gate) are proof-authenticated sources with a real light client
// (trust root + headers installed in the template universe) and a pool of messages committed in
// their world state per destination chain.
type evmSrc struct {
	s    *cs.EVMSource
	pool map[uint64][]cs.EVMMessage
}

type hist struct {
	r     *kit.Run
	rng   *rand.Rand
	w     *cs.World
	outs  []*pk.Key
	reg   map[uint64]bool // model
	pend  map[uint64]bool // registration requested, not approved
	black map[uint64]bool // model
	// chains whitelisted since the last judged import that involved them ("whitelisting restores")
	justWhite map[uint64]bool
	trace     []string
	vm        *cs.VoteModel
	bad       bool
	shape     string
	evm       map[uint64]*evmSrc
	evmNext   map[string]int
	ripple    *rippleCfg
}

type rippleCfg struct {
	spec  cs.ChainSpec
	asset []byte
}

// rippleArgs is the argument layout a ripple destination expects: asset, receiver, amount.
func rippleArgs(rng *rand.Rand, asset []byte) []byte {
	to := make([]byte, 20)
	rng.Read(to)
	sink := common.NewZeroCopySink(nil)
	sink.WriteVarBytes(asset)
	sink.WriteVarBytes(to)
	sink.WriteUint64(1000000000 + uint64(rng.Intn(1000000)))
	return sink.Bytes()
}

// releasedBy says whether the call committed an outbound transfer: a request record / cross-state
// leaf for account-based destinations, a ripple payment record for the ripple destination.
func releasedBy(o *cs.Obs) bool {
	if len(o.Rec.CrossHashes) > 0 {
		return true
	}
	if n, _, _ := o.TouchedUnder(scom.REQUEST); len(n) > 0 {
		return true
	}
	if n, _, _ := o.TouchedUnder(scom.RIPPLE_TX_INFO); len(n) > 0 {
		return true
	}
	return false
}

func (h *hist) spec(id uint64) cs.ChainSpec {
	if e := h.evm[id]; e != nil {
		return e.s.Spec
	}
	if id == rippleDst {
		return h.ripple.spec
	}
	return cs.ChainSpec{ID: id, Router: def(id).router}
}

func (h *hist) logf(f string, a ...interface{}) { h.trace = append(h.trace, fmt.Sprintf(f, a...)) }

func (h *hist) violation(key, what string) {
	h.bad = true
	h.r.Violation(key, what, map[string]interface{}{"history": h.trace, "validators": len(h.w.Vals)})
}

func def(id uint64) chainDef {
	for _, d := range chainDefs {
		if d.id == id {
			return d
		}
	}
	return chainDef{id, utils.VOTE_ROUTER, "unknown"}
}

// governance operations -------------------------------------------------------------------------

func (h *hist) opRegister(id uint64, approve bool) {
	d := def(id)
	if h.reg[id] {
		// registering a registered chain must not disturb it; the call is expected to be refused, no verdict here
		rec := h.w.Register(h.spec(id))
		h.logf("register %d (already registered) -> ok=%v", id, rec.Ok)
		return
	}
	if !h.pend[id] {
		rec := h.w.Register(h.spec(id))
		h.logf("register %d router=%s -> ok=%v %s", id, d.name, rec.Ok, rec.Err)
		if !rec.Ok {
			h.r.Inconclusive("registerSideChain refused: " + rec.Err)
			h.bad = true
			return
		}
		h.pend[id] = true
		h.r.Count("op_register", 1)
	}
	if !approve {
		// some approvals, below the quorum
		k := h.rng.Intn(cs.Threshold(len(h.w.Vals)))
		for _, v := range h.w.Vals[:k] {
			h.w.ApproveRegister(id, v)
		}
		h.logf("approve-register %d by %d validators (below quorum)", id, k)
		h.r.Count("op_register_pending", 1)
		return
	}
	for _, v := range h.w.Vals {
		rec := h.w.ApproveRegister(id, v)
		if !rec.Ok {
			h.r.Inconclusive("approveRegisterSideChain refused: " + rec.Err)
			h.bad = true
			return
		}
		if h.w.Registered(id) {
			break
		}
	}
	h.logf("approve-register %d to quorum", id)
	h.pend[id] = false
	h.reg[id] = true
	h.r.Count("op_register_approved", 1)
}

func (h *hist) opQuit(id uint64, approve bool) {
	if !h.reg[id] {
		rec := h.w.Quit(id, nil)
		h.logf("quit %d (not registered) -> ok=%v", id, rec.Ok)
		return
	}
	rec := h.w.Quit(id, nil)
	h.logf("quit %d -> ok=%v %s", id, rec.Ok, rec.Err)
	if !rec.Ok {
		h.r.Inconclusive("quitSideChain refused: " + rec.Err)
		h.bad = true
		return
	}
	if !approve {
		h.r.Count("op_quit_request_only", 1)
		return
	}
	for _, v := range h.w.Vals {
		rec := h.w.ApproveQuit(id, v)
		if !rec.Ok {
			h.r.Inconclusive("approveQuitSideChain refused: " + rec.Err)
			h.bad = true
			return
		}
		if !h.w.Registered(id) {
			break
		}
	}
	h.logf("approve-quit %d to quorum", id)
	h.reg[id] = false
	h.r.Count("op_quit_approved", 1)
}

func (h *hist) opBlack(id uint64, byOperator bool) {
	if !byOperator {
		var sg pk.Signer
		switch h.rng.Intn(3) {
		case 0:
			sg = pk.Single(h.outs[0])
		case 1:
			sg = pk.Single(h.w.Vals[0])
		default: // operator multi-sig entry signed by too few keys is still the same address; use a wrong m instead
			sg = pk.Multi(pk.SortKeys(h.w.Vals), 1)
		}
		o := h.w.Do(func() *nat.CallRecord { return h.w.BlackAs(id, sg) })
		h.logf("black %d by non-operator -> ok=%v", id, o.Rec.Ok)
		h.r.Eval(1)
		if o.Rec.Ok || !o.Unchanged() {
			h.violation("blacklisting-by-non-operator-took-effect", fmt.Sprintf("ok=%v touched=%v", o.Rec.Ok, o.Touched()))
		} else {
			h.r.Count("black_by_non_operator_refused", 1)
		}
		return
	}
	rec := h.w.Black(id)
	h.logf("black %d -> ok=%v %s", id, rec.Ok, rec.Err)
	if !rec.Ok {
		h.r.Inconclusive("BlackChain by the operator refused: " + rec.Err)
		h.bad = true
		return
	}
	h.black[id] = true
	delete(h.justWhite, id)
	h.r.Count("op_black", 1)
}

func (h *hist) opWhite(id uint64, byOperator bool) {
	if !byOperator {
		o := h.w.Do(func() *nat.CallRecord { return h.w.WhiteAs(id, pk.Single(h.outs[1])) })
		h.logf("white %d by non-operator -> ok=%v", id, o.Rec.Ok)
		h.r.Eval(1)
		if o.Rec.Ok || !o.Unchanged() {
			h.violation("whitelisting-by-non-operator-took-effect", fmt.Sprintf("ok=%v touched=%v", o.Rec.Ok, o.Touched()))
		} else {
			h.r.Count("white_by_non_operator_refused", 1)
		}
		return
	}
	rec := h.w.White(id)
	h.logf("white %d -> ok=%v %s", id, rec.Ok, rec.Err)
	if !rec.Ok {
		h.r.Inconclusive("WhiteChain by the operator refused: " + rec.Err)
		h.bad = true
		return
	}
	if h.black[id] {
		h.justWhite[id] = true
		h.r.Count("op_white_of_blacklisted", 1)
	}
	h.black[id] = false
}

// import ----------------------------------------------------------------------------------------

func (h *hist) opImport(src, dst uint64) {
	r := h.r
	// cross-check the model against the real getters; a disagreement is not this property's business
	for _, c := range []uint64{src, dst} {
		// (only the registry is cross-checked: the effect of BlackChain / WhiteChain is this property's
		// own subject and is judged through the imports)
		if h.w.Registered(c) != h.reg[c] {
			r.Count("model_vs_registry_disagreement", 1)
			h.logf("import %d->%d skipped: model registered=%v, chain says %v", src, dst, h.reg[c], h.w.Registered(c))
			return
		}
	}
	if e := h.evm[src]; e != nil {
		h.opImportEVM(e, src, dst)
		return
	}
	sd := def(src)
	height := h.w.E.Height
	gated := (sd.router == utils.HSC_ROUTER || sd.router == utils.BYTOM_ROUTER || sd.router == utils.HARMONY_ROUTER) && height < startBlock
	srcOK := h.reg[src] && !h.black[src] && !gated
	dstOK := h.reg[dst] && !h.black[dst]
	canVerify := sd.router == utils.VOTE_ROUTER // only vote-router deposits can be made valid here
	cross := make([]byte, 1+h.rng.Intn(32))
	h.rng.Read(cross)
	p := cs.RandParam(h.rng, dst, cross)
	if dst == rippleDst {
		p.ToContractAddress, p.Args = h.ripple.asset, rippleArgs(h.rng, h.ripple.asset)
	}
	im := cs.Import{Source: src, Height: h.rng.Uint32(), Param: p}
	id := cs.SubjectID(src, im.Height, cs.ExtraOf(p))
	voters := append([]*pk.Key{}, h.w.Vals...)
	h.rng.Shuffle(len(voters), func(i, j int) { voters[i], voters[j] = voters[j], voters[i] })
	if !srcOK || !canVerify {
		voters = voters[:2]
	}
	why := ""
	switch {
	case !h.reg[src]:
		why = "source-unregistered"
	case h.black[src]:
		why = "source-blacklisted"
	case gated:
		why = "router-not-active"
	case !canVerify:
		why = "no-valid-proof"
	case !h.reg[dst]:
		why = "destination-unregistered"
	case h.black[dst]:
		why = "destination-blacklisted"
	}
	h.shape += map[string]string{"": "I", "source-unregistered": "u", "source-blacklisted": "b", "router-not-active": "g", "no-valid-proof": "p",
		"destination-unregistered": "U", "destination-blacklisted": "B"}[why]
	restoring := why == "" && (h.justWhite[src] || h.justWhite[dst])
	accepted := false
	for _, v := range voters {
		verdict := h.vm.Classify(id, v.Addr, h.w.Vals)
		o := h.w.Do(func() *nat.CallRecord { return h.w.Vote(im, v) })
		r.Eval(1)
		h.logf("import %d->%d at height %d voter=%x model=%s expect-refusal=%q -> ok=%v err=%q touched=%v leaves=%d", src, dst, height, v.Addr[:4], verdict, why, o.Rec.Ok, o.Rec.Err, o.Touched(), len(o.Rec.CrossHashes))
		released := releasedBy(o)
		switch {
		case !srcOK:
			// the source gate applies to every call of the round
			if o.Rec.Ok || !o.Unchanged() || released {
				h.violation("import-from-"+why+"-not-rejected", fmt.Sprintf("router %s: ok=%v touched=%v leaves=%d", sd.name, o.Rec.Ok, o.Touched(), len(o.Rec.CrossHashes)))
				return
			}
			r.Count("rejected:"+why, 1)
			r.Count("rejected:"+why+":"+sd.name, 1)
		case !canVerify:
			// active gated router or eth: no valid deposit can be built here; observation only
			if o.Rec.Ok {
				r.Count("unverifiable_import_ok", 1)
			} else {
				r.Count("observed_handler_refusal:"+sd.name, 1)
			}
			if released {
				h.violation("import-without-valid-proof-released", fmt.Sprintf("router %s", sd.name))
				return
			}
		case verdict == cs.Reached && !dstOK:
			if o.Rec.Ok || !o.Unchanged() || released {
				h.violation("import-to-"+why+"-not-rejected", fmt.Sprintf("ok=%v touched=%v leaves=%d", o.Rec.Ok, o.Touched(), len(o.Rec.CrossHashes)))
				return
			}
			r.Count("rejected:"+why, 1)
			if dst == rippleDst {
				r.Count("rejected:"+why+":ripple-destination", 1)
			}
		case verdict == cs.Reached: // every gate open
			if o.Rec.Ok && released {
				accepted = true
				h.vm.Commit(id, v.Addr, verdict, true)
				r.Count("accepted", 1)
				if dst == rippleDst {
					r.Count("accepted_to_ripple_destination", 1)
				}
				if restoring {
					r.Count("accepted_after_whitelisting", 1)
				}
			} else {
				r.Count("open_gates_but_refused", 1)
				if restoring {
					h.violation("whitelisting-did-not-restore-imports", fmt.Sprintf("import %d->%d after WhiteChain: ok=%v err=%s", src, dst, o.Rec.Ok, o.Rec.Err))
					return
				}
			}
		default: // votes below the threshold, votes after release
			if released {
				h.violation("undecided-vote-released", fmt.Sprintf("model=%s", verdict))
				return
			}
			if o.Rec.Ok {
				h.vm.Commit(id, v.Addr, verdict, false)
			}
		}
	}
	if why == "" {
		delete(h.justWhite, src)
		delete(h.justWhite, dst)
		_ = accepted
	}
}

// opImportEVM: one proof-authenticated import (eth / bsc source) of an unused committed message.
func (h *hist) opImportEVM(e *evmSrc, src, dst uint64) {
	r := h.r
	name := def(src).name
	k := fmt.Sprintf("%d/%d", src, dst)
	msgs := e.pool[dst]
	if h.evmNext[k] >= len(msgs) {
		r.Count("evm_message_pool_exhausted", 1)
		return
	}
	m := msgs[h.evmNext[k]]
	h.evmNext[k]++
	why := ""
	switch {
	case !h.reg[src]:
		why = "source-unregistered"
	case h.black[src]:
		why = "source-blacklisted"
	case def(src).router == utils.HSC_ROUTER && h.w.E.Height < startBlock:
		why = "router-not-active" // a VALID deposit of a router that is not active yet at this height
	case !h.reg[dst]:
		why = "destination-unregistered"
	case h.black[dst]:
		why = "destination-blacklisted"
	}
	h.shape += map[string]string{"": "E", "source-unregistered": "x", "source-blacklisted": "y", "router-not-active": "z", "destination-unregistered": "X", "destination-blacklisted": "Y"}[why]
	restoring := why == "" && (h.justWhite[src] || h.justWhite[dst])
	idx := h.rng.Intn(len(e.s.Heights) - 1)
	o := h.w.Do(func() *nat.CallRecord { return e.s.Import(m, idx, nil) })
	r.Eval(1)
	h.logf("import %d(%s)->%d valid proof, expect-refusal=%q -> ok=%v err=%q touched=%v leaves=%d", src, name, dst, why, o.Rec.Ok, o.Rec.Err, o.Touched(), len(o.Rec.CrossHashes))
	released := releasedBy(o)
	if why != "" {
		if o.Rec.Ok || !o.Unchanged() || released {
			dir := "from"
			if why == "destination-unregistered" || why == "destination-blacklisted" {
				dir = "to"
			}
			h.violation("import-"+dir+"-"+why+"-not-rejected", fmt.Sprintf("router %s: ok=%v touched=%v leaves=%d", name, o.Rec.Ok, o.Touched(), len(o.Rec.CrossHashes)))
			return
		}
		r.Count("rejected:"+why, 1)
		r.Count("rejected:"+why+":"+name, 1)
		if dst == rippleDst && (why == "destination-unregistered" || why == "destination-blacklisted") {
			r.Count("rejected:"+why+":ripple-destination", 1)
		}
		return
	}
	if o.Rec.Ok && released {
		r.Count("accepted", 1)
		r.Count("accepted:"+name, 1)
		if dst == rippleDst {
			r.Count("accepted_to_ripple_destination", 1)
		}
		if restoring {
			r.Count("accepted_after_whitelisting", 1)
			r.Count("accepted_after_whitelisting:"+name, 1)
		}
	} else {
		r.Count("open_gates_but_refused", 1)
		if restoring {
			h.violation("whitelisting-did-not-restore-imports", fmt.Sprintf("import %d(%s)->%d after WhiteChain: ok=%v err=%s", src, name, dst, o.Rec.Ok, o.Rec.Err))
			return
		}
	}
	delete(h.justWhite, src)
	delete(h.justWhite, dst)
}

var pool = map[int]*tplT{}

type tplT struct {
	w    *cs.World
	snap *cs.Snapshot
	outs []*pk.Key
	evm  map[uint64]*evmSrc
	rip  *rippleCfg
	uses int
}

func runHistory(r *kit.Run, rng *rand.Rand, nVals int, idx int) {
	t := pool[nVals]
	if t == nil || t.uses >= 300 {
		krng := r.Rand(fmt.Sprintf("keys-%d-%d", nVals, idx))
		vals := pk.NewKeys(krng, nVals)
		wallets := make([]*pk.Key, len(vals))
		for i := range wallets {
			if i%2 == 1 { // every second pool entry is registered by a separate wallet account
				wallets[i] = pk.NewKey(krng)
			}
		}
		w, err := cs.NewWorldWallets(config.NETWORK_ID_MAIN_NET, vals, wallets, pk.NewKey(krng))
		if err != nil {
			r.Inconclusive("world: " + err.Error())
			return
		}
		t = &tplT{w: w, outs: pk.NewKeys(krng, 2), evm: map[uint64]*evmSrc{}}
		// the ripple destination: registered with its signer list, asset bound by its operator, base fee
		// voted in by the validators (fee view 0 -> 1), then quit again (binding and fee stay)
		{
			operator := pk.NewKey(krng)
			asset := make([]byte, 20)
			krng.Read(asset)
			var pks [][]byte
			for i := 0; i < 3; i++ {
				k := make([]byte, 33)
				krng.Read(k)
				k[0] = 2
				pks = append(pks, k)
			}
			t.rip = &rippleCfg{asset: asset, spec: cs.ChainSpec{ID: rippleDst, Router: utils.RIPPLE_ROUTER, Name: "xrpl", CCMC: asset,
				Extra: cs.RippleExtra(operator.Addr, uint64(1+krng.Intn(1000)), 2, 3, pks, big.NewInt(int64(10+krng.Intn(20))))}}
			if err := w.RegisterAndApprove(t.rip.spec); err != nil {
				r.Inconclusive("ripple destination: " + err.Error())
				return
			}
			if rec := w.RegisterAsset(operator, rippleDst, map[uint64][]byte{rippleDst: asset}, map[uint64][]byte{rippleDst: asset}); !rec.Ok {
				r.Inconclusive("ripple destination asset: " + rec.Err)
				return
			}
			for _, v := range w.Vals {
				w.UpdateFee(v, rippleDst, 0, big.NewInt(int64(2+krng.Intn(5))))
			}
			if view, _ := w.Fee(rippleDst); view == 0 {
				r.Inconclusive("ripple destination: fee not initialised")
				return
			}
			if err := w.QuitAndApprove(rippleDst, nil); err != nil {
				r.Inconclusive("ripple destination quit: " + err.Error())
				return
			}
		}
		// the proof-authenticated sources: registered, light client installed, then quit again so that
		// every history starts with an empty registry (the light-client state stays)
		for _, d := range []struct {
			kind string
			id   uint64
		}{{"eth", 33}, {"bsc", 37}, {"hsc", 34}} {
			if d.kind == "hsc" { // its header sync is behind the same start-block gate: build it above the gate
				w.E.Height = startBlock + 10
			}
			e := &evmSrc{s: w.NewEVMSource(krng, d.kind, d.id), pool: map[uint64][]cs.EVMMessage{}}
			for _, cd := range chainDefs {
				for i := 0; i < 5; i++ {
					m := es.RandTxParam(krng, cd.id)
					if cd.id == rippleDst {
						m.ToContractAddress, m.Args = t.rip.asset, rippleArgs(krng, t.rip.asset)
					}
					e.pool[cd.id] = append(e.pool[cd.id], e.s.Commit(krng, m))
				}
			}
			if err := e.s.Seal(krng, 5); err != nil {
				r.Inconclusive("evm source " + d.kind + ": " + err.Error())
				return
			}
			if err := w.QuitAndApprove(d.id, nil); err != nil {
				r.Inconclusive("evm source " + d.kind + " quit: " + err.Error())
				return
			}
			t.evm[d.id] = e
		}
		t.snap = w.Snapshot()
		pool[nVals] = t
	}
	t.uses++
	t.w.Restore(t.snap)
	h := &hist{r: r, rng: rng, w: t.w, outs: t.outs, reg: map[uint64]bool{}, pend: map[uint64]bool{}, black: map[uint64]bool{},
		justWhite: map[uint64]bool{}, vm: cs.NewVoteModel(), evm: t.evm, evmNext: map[string]int{}, ripple: t.rip}
	hs := []uint32{startBlock - 2, startBlock - 1, startBlock, startBlock + 1, 5, 40000000}
	h.w.E.Height = hs[rng.Intn(len(hs))]
	ids := []uint64{}
	for _, d := range chainDefs {
		ids = append(ids, d.id)
	}
	pick := func() uint64 { return ids[rng.Intn(len(ids))] }
	pickVote := func() uint64 { return ids[rng.Intn(3)] }
	nOps := 30
	for i := 0; i < nOps && !h.bad; i++ {
		if rng.Intn(6) == 0 { // walk over the start block
			h.w.E.Height = hs[rng.Intn(4)]
			h.logf("height := %d", h.w.E.Height)
		}
		k := rng.Intn(100)
		if i < 6 {
			k = rng.Intn(20) // start with registrations
		}
		switch {
		case k < 20:
			h.opRegister(pick(), true)
			h.shape += "R"
		case k < 24:
			h.opRegister(pick(), false)
			h.shape += "r"
		case k < 30:
			h.opQuit(pick(), true)
			h.shape += "Q"
		case k < 33:
			h.opQuit(pick(), false)
			h.shape += "q"
		case k < 43:
			h.opBlack(pick(), true)
			h.shape += "K"
		case k < 46:
			h.opBlack(pick(), false)
			h.shape += "k"
		case k < 58:
			// prefer whitelisting something that is blacklisted
			id := pick()
			for _, c := range ids {
				if h.black[c] && rng.Intn(2) == 0 {
					id = c
				}
			}
			h.opWhite(id, true)
			h.shape += "W"
		case k < 60:
			h.opWhite(pick(), false)
			h.shape += "w"
		case k < 82:
			h.opImport(pickVote(), pick())
		case k < 93:
			h.opImport([]uint64{33, 37, 34}[rng.Intn(3)], pick())
		case k < 97: // towards the ripple destination
			h.opImport([]uint64{30, 31, 32, 33, 37}[rng.Intn(5)], rippleDst)
		default:
			h.opImport(pick(), pick())
		}
	}
	r.Distinct(nVals, h.shape)
	r.Count("histories", 1)
	if idx < 2 {
		tr := h.trace
		if len(tr) > 14 {
			tr = tr[:14]
		}
		r.Sample(map[string]interface{}{"validators": nVals, "shape": h.shape, "first_ops": tr})
	}
}

func TestC21(t *testing.T) {
	r := kit.Start(t, "C21", "exploration")
	defer r.Finish()
	r.Rule("histories of 30 operations on main-net id over 8 chain ids (3 VOTE-router; eth, bsc and hsc with a real light client and committed messages, so that valid hsc deposits meet the start-block gate; bytom, harmony): register+approve, register only / approvals below quorum, quit+approve, quit request only, BlackChain / WhiteChain by the operator and by non-operators, imports (voting rounds with fresh messages) between random chain pairs; block height walks over the router start block 18,823,000; distinct = (N, sequence of operation kinds incl. the gate each import hit)")
	polyeth.VerifSealBypass = true
	defer func() { polyeth.VerifSealBypass = false }()
	rng := r.Rand("histories")
	nh := r.N(500, 18000)
	for i := 0; i < nh && r.Violations() < 30; i++ {
		runHistory(r, rng, 4+i%4, i)
	}
	r.Assume("every second validator's pool entry is registered by a separate wallet account (registered address != node-key address); validators are identified by the key-derived address, the wallet accounts vote as outsiders")
	r.Assume("only the direction stated by the property is judged: an import whose source or destination is unregistered / blacklisted, or whose router is not yet active, must fail with unchanged state; plus: after WhiteChain (all other gates open) a valid import is accepted again. An import with all gates open that is refused for another reason is counted, not flagged")
	r.Assume("the source gates apply to every call of a voting round; the destination gates apply to the deciding call (earlier votes only record themselves)")
	r.Assume("valid deposits are built for VOTE-router sources (votes) and for the eth and bsc sources (Merkle-Patricia proofs against synced headers); for hsc / bytom / harmony sources the start-block gate is checked as 'every import below 18,823,000 fails with unchanged state' (above it the handlers refuse the synthetic proof, observation only) — a missing gate would not be distinguishable by state alone")
	n := int(r.Get("histories"))
	r.Require("accepted", n)
	r.Require("accepted_after_whitelisting", n/10)
	r.Require("accepted_to_ripple_destination", n/20)
	r.Require("rejected:destination-blacklisted:ripple-destination", n/40)
	r.Require("rejected:destination-unregistered:ripple-destination", n/40)
	r.Require("accepted:eth", n/20)
	r.Require("accepted:bsc", n/20)
	r.Require("accepted:hsc", n/40)
	r.Require("rejected:router-not-active:hsc", n/40)
	r.Require("rejected:source-blacklisted:eth", 1)
	r.Require("rejected:source-blacklisted:bsc", 1)
	r.Require("rejected:source-unregistered:eth", n/20)
	r.Require("rejected:source-unregistered:bsc", n/20)
	r.Require("rejected:source-unregistered", n/4)
	r.Require("rejected:source-blacklisted", n/4)
	r.Require("rejected:destination-unregistered", n/4)
	r.Require("rejected:destination-blacklisted", n/4)
	r.Require("rejected:router-not-active", n/20)
	r.Require("op_quit_approved", n/4)
	r.Require("black_by_non_operator_refused", n/4)
	r.Require("white_by_non_operator_refused", n/4)
}
