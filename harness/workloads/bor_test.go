package workloads

import (
	"fmt"
	"io/ioutil"
	"os"
	"testing"
	"time"

	"verifharness/kit"
)

// Self-test of the bor workload: on the unchanged tree every honest header is accepted, every
// dishonest one refused and the cross-chain span probe runs.
func TestBorWorkload(t *testing.T) {
	dir, err := ioutil.TempDir(os.Getenv("VERIF_TMP"), "borself")
	if err != nil {
		t.Fatal(err)
	}
	defer os.RemoveAll(dir)
	os.Setenv("VERIF_DIR", dir)
	defer os.Unsetenv("VERIF_DIR")
	r := kit.Start(t, "BORSELF", "exploration")
	for i := 0; i < 6; i++ {
		t0 := time.Now()
		Bor(r, r.Rand(fmt.Sprintf("bor/%d", i)), nil)
		t.Logf("call %d: %v", i, time.Since(t0))
	}
	for _, k := range []string{"router_workload:bor", "bor_headers_accepted", "bor_sprint_end_with_proof_accepted", "bor_sprint_end_without_proof_accepted",
		"bor_cross_chain_span_probe", "bor_no_span_probe", "bor_heimdall_epoch_changes", "bor_backup_sibling_accepted", "bor_unexpected_refusal", "bor_unexpected_acceptance", "successful_calls", "failed_calls"} {
		t.Logf("%s = %d", k, r.Get(k))
	}
	for _, k := range []string{"sealer-outside-producer-set", "backup-sealer-with-in-turn-difficulty", "wrong-sealer-for-slot", "backup-sealer-too-soon", "before-period",
		"wrong-difficulty", "damaged-seal", "producers-outside-sprint-end", "proof-outside-sprint-end", "mix-digest", "no-proof-and-no-verified-span", "proof-of-another-span",
		"span-does-not-cover-the-block", "announcement-differs-from-proven-span", "empty-announcement", "proof-against-another-heimdall-height", "heimdall-header-without-quorum",
		"heimdall-header-of-foreign-validators", "damaged-span-value", "damaged-proof-op", "proof-without-store-level", "key-path-of-another-record", "proof-in-another-store",
		"undecodable-proof", "sprint-end-sealer-outside-producer-set", "no-verified-span-but-sibling-has-one", "producers-of-other-chains-span", "heimdall-header-of-replaced-validators"} {
		t.Logf("bor_refused:%s = %d", k, r.Get("bor_refused:"+k))
		if r.Get("bor_refused:"+k) == 0 {
			t.Errorf("refusal kind never executed: %s", k)
		}
	}
	if r.Get("bor_unexpected_refusal") != 0 || r.Get("bor_unexpected_acceptance") != 0 || r.Violations() != 0 {
		t.Errorf("unexpected outcomes: refusal=%d acceptance=%d violations=%d", r.Get("bor_unexpected_refusal"), r.Get("bor_unexpected_acceptance"), r.Violations())
	}
	if r.Get("bor_cross_chain_span_probe") < 6*3 {
		t.Errorf("probes: %d", r.Get("bor_cross_chain_span_probe"))
	}
}
