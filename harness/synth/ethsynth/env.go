package ethsynth

import (
	"encoding/json"
	"fmt"
	"math/big"
	"math/rand"
	"sort"
	"strings"

	"verifharness/kit/nat"
	"verifharness/kit/pk"

	"github.com/polynetwork/poly/common"
	"github.com/polynetwork/poly/common/config"
	cstates "github.com/polynetwork/poly/core/states"
	"github.com/polynetwork/poly/native/service/utils"
)

// Hash is a 32-byte Ethereum hash.
type Hash [32]byte

func (h Hash) Hex() string { return fmt.Sprintf("%x", h[:]) }

// Bytes returns the hash as a fresh slice.
func (h Hash) Bytes() []byte { return append([]byte{}, h[:]...) }

// Env is a contract-state universe with governance installed.
type Env struct {
	*nat.Env
	Vals  []*pk.Key
	NetID uint32
}

// Use re-selects this universe's network id in poly's global configuration (needed when several
// Envs with different network ids are alive, because nat.New sets a process-wide value).
func (e *Env) Use() { config.DefConfig.P2PNode.NetworkId = e.NetID }

// NewEnv creates a universe at netID with 4 consensus validators (deterministic in rng).
func NewEnv(rng *rand.Rand, netID uint32) *Env {
	e := nat.New(netID)
	vals := pk.NewKeys(rng, 4)
	if err := e.InitGovernance(vals); err != nil {
		panic(err)
	}
	e.Height = 100
	return &Env{Env: e, Vals: vals, NetID: netID}
}

// RegisterSideChain registers a side chain through the real side_chain_manager: registerSideChain
// by validator 0, then approveRegisterSideChain by each validator until the chain is installed.
func (e *Env) RegisterSideChain(chainID, router uint64, name string, blocksToWait uint64, ccmc, extraInfo []byte) error {
	owner := e.Vals[0]
	sink := common.NewZeroCopySink(nil)
	sink.WriteVarBytes(owner.Addr[:])
	sink.WriteVarUint(chainID)
	sink.WriteVarUint(router)
	sink.WriteVarBytes([]byte(name))
	sink.WriteVarUint(blocksToWait)
	sink.WriteVarBytes(ccmc)
	sink.WriteVarBytes(extraInfo)
	rec := e.Call(utils.SideChainManagerContractAddress, "registerSideChain", sink.Bytes(), pk.Single(owner))
	if !rec.Ok {
		return fmt.Errorf("registerSideChain: %s", rec.Err)
	}
	for _, v := range e.Vals {
		s := common.NewZeroCopySink(nil)
		s.WriteVarUint(chainID)
		s.WriteVarBytes(v.Addr[:])
		rec := e.Call(utils.SideChainManagerContractAddress, "approveRegisterSideChain", s.Bytes(), pk.Single(v))
		if !rec.Ok {
			// once the quorum is reached the request is gone; later approvals fail harmlessly
			if strings.Contains(rec.Err, "not requested") {
				break
			}
			return fmt.Errorf("approveRegisterSideChain: %s", rec.Err)
		}
	}
	return nil
}

// SyncGenesis calls header_sync.syncGenesisHeader signed by the consensus operator.
func (e *Env) SyncGenesis(chainID uint64, genesis []byte) *nat.CallRecord {
	sink := common.NewZeroCopySink(nil)
	sink.WriteUint64(chainID)
	sink.WriteVarBytes(genesis)
	return e.Call(utils.HeaderSyncContractAddress, "syncGenesisHeader", sink.Bytes(), nat.Operator(e.Vals))
}

// SyncHeaders calls header_sync.syncBlockHeader with the given serialized headers (one tx).
func (e *Env) SyncHeaders(chainID uint64, headers ...[]byte) *nat.CallRecord {
	sink := common.NewZeroCopySink(nil)
	sink.WriteUint64(chainID)
	sink.WriteAddress(e.Vals[1].Addr)
	sink.WriteUint64(uint64(len(headers)))
	for _, h := range headers {
		sink.WriteVarBytes(h)
	}
	return e.CallAs(utils.HeaderSyncContractAddress, "syncBlockHeader", sink.Bytes(), e.Vals[1].Addr)
}

// Import calls cross_chain_manager.ImportOuterTransfer (the production entry of deposit proofs).
func (e *Env) Import(chainID uint64, height uint32, proof, extra []byte) *nat.CallRecord {
	return e.ImportWith(chainID, height, proof, extra, nil)
}

// ImportWith is Import with a HeaderOrCrossChainMsg payload (quorum).
func (e *Env) ImportWith(chainID uint64, height uint32, proof, extra, hdr []byte) *nat.CallRecord {
	sink := common.NewZeroCopySink(nil)
	sink.WriteUint64(chainID)
	sink.WriteUint32(height)
	sink.WriteVarBytes(proof)
	sink.WriteVarBytes(e.Vals[1].Addr[:])
	sink.WriteVarBytes(extra)
	sink.WriteVarBytes(hdr)
	return e.CallAs(utils.CrossChainManagerContractAddress, "ImportOuterTransfer", sink.Bytes(), e.Vals[1].Addr)
}

// StoredHeader is one decoded HEADER_INDEX entry (works for the eth and the PoSA routers, whose
// stored JSON is {"header":{...},"difficultySum":n}).
type StoredHeader struct {
	Hash   Hash // storage-key hash
	Parent Hash
	Number uint64
	Diff   *big.Int
	TD     *big.Int
	Raw    []byte
}

func hsKey(prefix string, chainID uint64) []byte {
	return utils.ConcatKey(utils.HeaderSyncContractAddress, []byte(prefix), utils.GetUint64Bytes(chainID))
}

func hexBig(s string) (*big.Int, bool) {
	s = strings.TrimPrefix(s, "0x")
	if s == "" {
		return nil, false
	}
	return new(big.Int).SetString(s, 16)
}

// Stored lists every header the light client of chainID has stored, keyed by storage-key hash.
func (e *Env) Stored(chainID uint64) (map[Hash]*StoredHeader, error) {
	p := hsKey("headerIndex", chainID)
	out := map[Hash]*StoredHeader{}
	for _, kv := range e.Dump(p) {
		if len(kv.K) != len(p)+32 {
			return nil, fmt.Errorf("unexpected header index key %x", kv.K)
		}
		var h Hash
		copy(h[:], kv.K[len(p):])
		val, err := cstates.GetValueFromRawStorageItem(kv.V)
		if err != nil {
			return nil, err
		}
		var doc struct {
			Header struct {
				ParentHash string `json:"parentHash"`
				Number     string `json:"number"`
				Difficulty string `json:"difficulty"`
			} `json:"header"`
			DifficultySum *big.Int `json:"difficultySum"`
		}
		if err := json.Unmarshal(val, &doc); err != nil {
			return nil, fmt.Errorf("stored header %x: %v", h[:], err)
		}
		sh := &StoredHeader{Hash: h, TD: doc.DifficultySum, Raw: val}
		pb, ok := hexBig(doc.Header.ParentHash)
		if !ok {
			return nil, fmt.Errorf("stored header %x: bad parentHash", h[:])
		}
		b := pb.Bytes()
		copy(sh.Parent[32-len(b):], b)
		n, ok := hexBig(doc.Header.Number)
		if !ok {
			return nil, fmt.Errorf("stored header %x: bad number", h[:])
		}
		sh.Number = n.Uint64()
		sh.Diff, ok = hexBig(doc.Header.Difficulty)
		if !ok {
			return nil, fmt.Errorf("stored header %x: bad difficulty", h[:])
		}
		out[h] = sh
	}
	return out, nil
}

// Canon reads the canonical index: head height and height -> hash for every MAIN_CHAIN entry.
func (e *Env) Canon(chainID uint64) (head uint64, index map[uint64]Hash, ok bool) {
	raw := e.GetRaw(hsKey("currentHeaderHeight", chainID))
	if raw == nil {
		return 0, nil, false
	}
	v, err := cstates.GetValueFromRawStorageItem(raw)
	if err != nil || len(v) != 8 {
		return 0, nil, false
	}
	head = utils.GetBytesUint64(v)
	p := hsKey("mainChain", chainID)
	index = map[uint64]Hash{}
	for _, kv := range e.Dump(p) {
		if len(kv.K) != len(p)+8 {
			continue
		}
		val, err := cstates.GetValueFromRawStorageItem(kv.V)
		if err != nil || len(val) != 32 {
			return head, index, false
		}
		var h Hash
		copy(h[:], val)
		index[utils.GetBytesUint64(kv.K[len(p):])] = h
	}
	return head, index, true
}

// HSDigest digests the whole header-sync contract storage (all chains).
func (e *Env) HSDigest() string { return e.Digest(utils.HeaderSyncContractAddress[:]) }

// HSDigestChain digests the header-sync storage of one chain id (genesis, header index, canonical
// index, head height). Creating a universe costs ~0.1 s, so checks host many side chains in one
// Env and use this digest per call.
func (e *Env) HSDigestChain(chainID uint64) string {
	d := ""
	for _, p := range []string{"genesisHeader", "headerIndex", "mainChain", "currentHeaderHeight", "consensusPeer", "keyHeights", "polygonSpan"} {
		d += e.Digest(hsKey(p, chainID))[:12]
	}
	return d
}

// CheckChainInvariants asserts the structural invariants of properties C27 / C29 on an observed
// storage snapshot. root is the trust root's hash. It returns a list of "key: explanation"
// strings (empty = all hold). Entries of the index above head are ignored (the eth router leaves
// stale ones there; they are unreachable through the getters).
func CheckChainInvariants(stored map[Hash]*StoredHeader, head uint64, index map[uint64]Hash, root Hash) []string {
	var bad []string
	rt, ok := stored[root]
	if !ok {
		return []string{"root-missing: trust root is not stored"}
	}
	hashes := make([]Hash, 0, len(stored))
	for h := range stored {
		hashes = append(hashes, h)
	}
	sort.Slice(hashes, func(i, j int) bool { return string(hashes[i][:]) < string(hashes[j][:]) })
	maxTD := new(big.Int)
	for _, h := range hashes {
		s := stored[h]
		if s.TD == nil {
			bad = append(bad, fmt.Sprintf("td-missing: header %x has no total difficulty", h[:6]))
			continue
		}
		if s.TD.Cmp(maxTD) > 0 {
			maxTD = s.TD
		}
		if h == root {
			continue
		}
		p, ok := stored[s.Parent]
		if !ok {
			bad = append(bad, fmt.Sprintf("orphan-stored: header %x (number %d) stored without its parent", h[:6], s.Number))
			continue
		}
		if s.Number != p.Number+1 {
			bad = append(bad, fmt.Sprintf("height-not-parent-plus-one: header %x number %d parent number %d", h[:6], s.Number, p.Number))
		}
		if p.TD != nil && new(big.Int).Add(p.TD, s.Diff).Cmp(s.TD) != 0 {
			bad = append(bad, fmt.Sprintf("td-not-sum: header %x td %v != parent td %v + own %v", h[:6], s.TD, p.TD, s.Diff))
		}
	}
	// canonical index: gap free and parent linked from root to head
	if head < rt.Number {
		bad = append(bad, fmt.Sprintf("head-below-root: head %d root %d", head, rt.Number))
		return bad
	}
	if index[rt.Number] != root {
		bad = append(bad, fmt.Sprintf("canon-root: index[%d] is not the trust root", rt.Number))
	}
	prev := root
	for n := rt.Number + 1; n <= head; n++ {
		h, ok := index[n]
		if !ok {
			bad = append(bad, fmt.Sprintf("canon-gap: no canonical entry at height %d (head %d)", n, head))
			return bad
		}
		s, ok := stored[h]
		if !ok {
			bad = append(bad, fmt.Sprintf("canon-dangling: canonical hash at %d is not a stored header", n))
			return bad
		}
		if s.Number != n {
			bad = append(bad, fmt.Sprintf("canon-wrong-height: canonical entry %d holds header number %d", n, s.Number))
		}
		if s.Parent != prev {
			bad = append(bad, fmt.Sprintf("canon-not-linked: canonical header at %d does not point to canonical header at %d", n, n-1))
		}
		prev = h
	}
	if hs, ok := stored[prev]; ok && hs.TD != nil && hs.TD.Cmp(maxTD) < 0 {
		bad = append(bad, fmt.Sprintf("head-not-heaviest: head td %v < max stored td %v", hs.TD, maxTD))
	}
	return bad
}
