// Package chains registers side chains in a nat.Env through the real side_chain_manager contract
// (registerSideChain by one validator, approveRegisterSideChain by validators until it is live).
package chains

import (
	"fmt"

	"github.com/polynetwork/poly/common"
	cstates "github.com/polynetwork/poly/core/states"
	"github.com/polynetwork/poly/native/service/governance/side_chain_manager"
	"github.com/polynetwork/poly/native/service/utils"

	"verifharness/kit/nat"
	"verifharness/kit/pk"
)

// Register makes chainID a live side chain with the given router.
func Register(e *nat.Env, chainID, router uint64, name string, blocksToWait uint64, ccmc, extra []byte) error {
	if len(e.Validators) == 0 {
		return fmt.Errorf("chains.Register: InitGovernance first")
	}
	v0 := e.Validators[0]
	sink := common.NewZeroCopySink(nil)
	sink.WriteVarBytes(v0.Addr[:])
	sink.WriteVarUint(chainID)
	sink.WriteVarUint(router)
	sink.WriteVarBytes([]byte(name))
	sink.WriteVarUint(blocksToWait)
	sink.WriteVarBytes(ccmc)
	sink.WriteVarBytes(extra)
	rec := e.Call(utils.SideChainManagerContractAddress, side_chain_manager.REGISTER_SIDE_CHAIN, sink.Bytes(), pk.Single(v0))
	if !rec.Ok {
		return fmt.Errorf("registerSideChain: %s", rec.Err)
	}
	for _, v := range e.Validators {
		p := &side_chain_manager.ChainidParam{Chainid: chainID, Address: v.Addr}
		s := common.NewZeroCopySink(nil)
		p.Serialization(s)
		rec := e.Call(utils.SideChainManagerContractAddress, side_chain_manager.APPROVE_REGISTER_SIDE_CHAIN, s.Bytes(), pk.Single(v))
		if !rec.Ok {
			return fmt.Errorf("approveRegisterSideChain: %s", rec.Err)
		}
		sc, err := side_chain_manager.GetSideChain(e.Service(), chainID)
		if err != nil {
			return err
		}
		if sc != nil {
			if sc.Router != router {
				return fmt.Errorf("router mismatch")
			}
			return nil
		}
	}
	return fmt.Errorf("side chain %d not live after all approvals", chainID)
}

// SyncGenesis calls header_sync.syncGenesisHeader through the real entrance.
func SyncGenesis(e *nat.Env, chainID uint64, hdr []byte, signers ...pk.Signer) *nat.CallRecord {
	s := common.NewZeroCopySink(nil)
	s.WriteUint64(chainID)
	s.WriteVarBytes(hdr)
	return e.Call(utils.HeaderSyncContractAddress, "syncGenesisHeader", s.Bytes(), signers...)
}

// SyncHeaders calls header_sync.syncBlockHeader (relayer = first validator, address-only witness).
func SyncHeaders(e *nat.Env, chainID uint64, hdrs [][]byte) *nat.CallRecord {
	s := common.NewZeroCopySink(nil)
	s.WriteUint64(chainID)
	s.WriteAddress(e.Validators[0].Addr)
	s.WriteUint64(uint64(len(hdrs)))
	for _, h := range hdrs {
		s.WriteVarBytes(h)
	}
	return e.CallAs(utils.HeaderSyncContractAddress, "syncBlockHeader", s.Bytes(), e.Validators[0].Addr)
}

// SyncMsgs calls header_sync.syncCrossChainMsg.
func SyncMsgs(e *nat.Env, chainID uint64, msgs [][]byte) *nat.CallRecord {
	s := common.NewZeroCopySink(nil)
	s.WriteUint64(chainID)
	s.WriteAddress(e.Validators[0].Addr)
	s.WriteUint64(uint64(len(msgs)))
	for _, m := range msgs {
		s.WriteVarBytes(m)
	}
	return e.CallAs(utils.HeaderSyncContractAddress, "syncCrossChainMsg", s.Bytes(), e.Validators[0].Addr)
}

// Import calls cross_chain_manager.ImportOuterTransfer (the real deposit entry).
func Import(e *nat.Env, src uint64, height uint32, proof, extra, headerOrMsg []byte) *nat.CallRecord {
	s := common.NewZeroCopySink(nil)
	s.WriteUint64(src)
	s.WriteUint32(height)
	s.WriteVarBytes(proof)
	s.WriteVarBytes(e.Validators[0].Addr[:])
	s.WriteVarBytes(extra)
	s.WriteVarBytes(headerOrMsg)
	return e.CallAs(utils.CrossChainManagerContractAddress, "ImportOuterTransfer", s.Bytes(), e.Validators[0].Addr)
}

// MakeTxParam serialises a cross-chain message the way source chains commit to it.
func MakeTxParam(txHash, crossChainID, fromContract []byte, toChain uint64, toContract []byte, method string, args []byte) []byte {
	s := common.NewZeroCopySink(nil)
	s.WriteVarBytes(txHash)
	s.WriteVarBytes(crossChainID)
	s.WriteVarBytes(fromContract)
	s.WriteUint64(toChain)
	s.WriteVarBytes(toContract)
	s.WriteVarBytes([]byte(method))
	s.WriteVarBytes(args)
	return s.Bytes()
}

// RegisterStateValidators installs NEO N3 state validators (hex compressed public keys) through
// the real neo3_state_manager contract: registerStateValidator + approvals by the validators.
func RegisterStateValidators(e *nat.Env, pubs []string) error {
	v0 := e.Validators[0]
	s := common.NewZeroCopySink(nil)
	s.WriteVarUint(uint64(len(pubs)))
	for _, p := range pubs {
		s.WriteString(p)
	}
	s.WriteVarBytes(v0.Addr[:])
	// the apply id is the counter value before this registration
	var id uint64
	if raw := e.GetRaw(utils.ConcatKey(utils.Neo3StateManagerContractAddress, []byte("stateValidatorApplyID"))); raw != nil {
		if v, err := cstates.GetValueFromRawStorageItem(raw); err == nil {
			id = utils.GetBytesUint64(v)
		}
	}
	if rec := e.Call(utils.Neo3StateManagerContractAddress, "registerStateValidator", s.Bytes(), pk.Single(v0)); !rec.Ok {
		return fmt.Errorf("registerStateValidator: %s", rec.Err)
	}
	for _, v := range e.Validators {
		a := common.NewZeroCopySink(nil)
		a.WriteVarUint(id)
		a.WriteVarBytes(v.Addr[:])
		if rec := e.Call(utils.Neo3StateManagerContractAddress, "approveRegisterStateValidator", a.Bytes(), pk.Single(v)); !rec.Ok {
			return fmt.Errorf("approveRegisterStateValidator: %s", rec.Err)
		}
	}
	return nil
}
