package ethsynth

import (
	"bytes"
	"crypto/ecdsa"
	"fmt"
	"math/big"
	"math/rand"
	"sort"
	"strings"

	"github.com/ethereum/go-ethereum/crypto"
)

// Addr is a 20-byte Ethereum address.
type Addr [20]byte

// Validator is a secp256k1 block sealer.
type Validator struct {
	Priv *ecdsa.PrivateKey
	Addr Addr
}

// NewValidator derives a sealer key from the PRNG.
func NewValidator(rng *rand.Rand) *Validator {
	for {
		d := make([]byte, 32)
		rng.Read(d)
		k, err := crypto.ToECDSA(d)
		if err != nil {
			continue
		}
		return &Validator{Priv: k, Addr: Addr(crypto.PubkeyToAddress(k.PublicKey))}
	}
}

// SortAddrs sorts ascending (the order Parlia / Congress epoch headers list validators in).
func SortAddrs(a []Addr) []Addr {
	out := append([]Addr{}, a...)
	sort.Slice(out, func(i, j int) bool { return bytes.Compare(out[i][:], out[j][:]) < 0 })
	return out
}

// Flavor describes one PoSA router of poly: how its headers are sealed and when an announced
// validator set takes effect, as the real chains define it (Parlia: BSC, Bytom side chain;
// Congress: HECO, HSC, Pixie).
type Flavor struct {
	Name              string
	Router            uint64
	SealChainID       bool   // Parlia seal hash commits to the chain id
	DelayedActivation bool   // Parlia: the set announced at epoch block e rules blocks n with n-e > len(old set)/2; Congress: n > e
	Period            uint64 // Congress: minimum seconds between blocks
	GasDivisor        uint64 // the chain's gas-limit bound divisor (not part of property C29)
	// Clique (MSC): the signer set only changes by votes (none are cast by this simulator), every
	// checkpoint header repeats the current signer list, headers between checkpoints carry none,
	// the beneficiary is not the sealer (zero when not voting) and the seal hash has no chain id.
	Clique bool
}

var (
	Bsc   = &Flavor{Name: "bsc", Router: 6, SealChainID: true, DelayedActivation: true, GasDivisor: 256}
	Bytom = &Flavor{Name: "bytom", Router: 22, SealChainID: true, DelayedActivation: true, GasDivisor: 256}
	Heco  = &Flavor{Name: "heco", Router: 7, Period: 3, GasDivisor: 1024}
	Hsc   = &Flavor{Name: "hsc", Router: 20, Period: 3, GasDivisor: 1024}
	Pixie = &Flavor{Name: "pixie", Router: 19, Period: 3, GasDivisor: 1024}
	Msc   = &Flavor{Name: "msc", Router: 10, Period: 3, GasDivisor: 1024, Clique: true}
	// PoSAFlavors lists the tier-A routers.
	PoSAFlavors = []*Flavor{Bsc, Heco, Hsc, Pixie, Bytom}
	// PoSAFlavorsB lists the tier-B routers that are synthesized (Clique without votes).
	PoSAFlavorsB = []*Flavor{Msc}
)

const (
	ExtraVanity = 32
	ExtraSeal   = 65
)

// ExtraInfoJSON is the side chain's ExtraInfo the header-sync handler parses.
func (f *Flavor) ExtraInfoJSON(sealChainID int64) []byte {
	return []byte(fmt.Sprintf("{\"ChainID\":%d,\"Period\":%d}", sealChainID, f.Period))
}

// ExtraInfoJSONEpoch is ExtraInfoJSON with the epoch length (the Clique handler needs it).
func (f *Flavor) ExtraInfoJSONEpoch(sealChainID int64, epoch uint64) []byte {
	return []byte(fmt.Sprintf("{\"ChainID\":%d,\"Period\":%d,\"Epoch\":%d}", sealChainID, f.Period, epoch))
}

// SealHash is the hash the sealer signs: the header with the 65-byte seal cut from extra-data
// (Parlia prepends the chain id).
func (f *Flavor) SealHash(h *Hdr, sealChainID int64) Hash {
	if len(h.Extra) < ExtraSeal {
		return Hash{}
	}
	items := [][]byte{}
	if f.SealChainID {
		items = append(items, RlpBig(big.NewInt(sealChainID)))
	}
	items = append(items, RlpBytes(h.ParentHash[:]), RlpBytes(h.UncleHash[:]), RlpBytes(h.Coinbase[:]), RlpBytes(h.Root[:]),
		RlpBytes(h.TxHash[:]), RlpBytes(h.ReceiptHash[:]), RlpBytes(h.Bloom[:]), RlpBig(h.Difficulty), RlpUint(h.Number),
		RlpUint(h.GasLimit), RlpUint(h.GasUsed), RlpUint(h.Time), RlpBytes(h.Extra[:len(h.Extra)-ExtraSeal]),
		RlpBytes(h.MixDigest[:]), RlpBytes(h.Nonce[:]))
	return Keccak(RlpList(items...))
}

// Seal signs the header with v and writes the signature into the last 65 bytes of extra-data
// (extra-data must already have room for it).
func (f *Flavor) Seal(h *Hdr, v *Validator, sealChainID int64) {
	sh := f.SealHash(h, sealChainID)
	sig, err := crypto.Sign(sh[:], v.Priv)
	if err != nil {
		panic(err)
	}
	copy(h.Extra[len(h.Extra)-ExtraSeal:], sig)
}

// Sealer recovers the address that sealed the header (secp256k1 public-key recovery).
func (f *Flavor) Sealer(h *Hdr, sealChainID int64) (Addr, bool) {
	if len(h.Extra) < ExtraSeal {
		return Addr{}, false
	}
	sh := f.SealHash(h, sealChainID)
	pub, err := crypto.Ecrecover(sh[:], h.Extra[len(h.Extra)-ExtraSeal:])
	if err != nil || len(pub) != 65 {
		return Addr{}, false
	}
	k := Keccak(pub[1:])
	var a Addr
	copy(a[:], k[12:])
	return a, true
}

// MakeExtra lays out vanity | validators | seal room.
func MakeExtra(rng *rand.Rand, announce []Addr) []byte {
	ex := make([]byte, ExtraVanity)
	rng.Read(ex)
	for _, a := range announce {
		ex = append(ex, a[:]...)
	}
	return append(ex, make([]byte, ExtraSeal)...)
}

// GenesisJSON is the trust-root document of the PoSA handlers: the root header (an epoch header
// announcing the current set) plus the previous set and the height it was announced at.
func (f *Flavor) GenesisJSON(root *Hdr, prevHeight uint64, prev []Addr) []byte {
	if f.Clique {
		return root.JSON()
	}
	var vs []string
	for _, a := range prev {
		vs = append(vs, fmt.Sprintf("\"0x%x\"", a[:]))
	}
	return []byte(fmt.Sprintf("{\"Header\":%s,\"PrevValidators\":[{\"Height\":%d,\"Validators\":[%s],\"Hash\":null}]}", root.JSON(), prevHeight, strings.Join(vs, ",")))
}

// ---- reference model (written from the Parlia / Congress consensus rules) ----

// PNode is a header known to the model.
type PNode struct {
	H        *Hdr
	Hash     Hash
	Parent   *PNode
	Sealer   Addr
	Announce []Addr // validator list carried in extra-data (nil = none)
	TD       *big.Int
	JSON     []byte
}

// PoSAModel judges headers the way property C29 states it.
type PoSAModel struct {
	F           *Flavor
	SealChainID int64
	Root        *PNode
	PrevSet     []Addr // the set in force before the trust root's announcement
	Epoch       uint64 // the chain's epoch length (announcements belong at multiples of it); 0 = unknown
}

// Announced parses the validator bytes of extra-data; ok=false if the layout is malformed.
func Announced(extra []byte) (list []Addr, ok bool) {
	if len(extra) < ExtraVanity+ExtraSeal {
		return nil, false
	}
	b := extra[ExtraVanity : len(extra)-ExtraSeal]
	if len(b)%20 != 0 {
		return nil, false
	}
	for i := 0; i < len(b); i += 20 {
		var a Addr
		copy(a[:], b[i:i+20])
		list = append(list, a)
	}
	return list, true
}

// NewPoSAModel wraps a trust root.
func NewPoSAModel(f *Flavor, sealChainID int64, root *Hdr, prevSet []Addr) *PoSAModel {
	ann, _ := Announced(root.Extra)
	sealer, ok := f.Sealer(root, sealChainID)
	if !ok {
		sealer = Addr(root.Coinbase)
	}
	n := &PNode{H: root, Hash: root.Hash(), Sealer: sealer, Announce: ann, TD: new(big.Int).Set(root.Difficulty), JSON: root.JSON()}
	return &PoSAModel{F: f, SealChainID: sealChainID, Root: n, PrevSet: prevSet}
}

// epochs returns the last two announcements on the path root..parent: (height, set) of the most
// recent one and the set before it.
func (m *PoSAModel) epochs(parent *PNode) (e1 uint64, s1 []Addr, s0 []Addr) {
	var found []*PNode
	for p := parent; p != nil && len(found) < 2; p = p.Parent {
		if len(p.Announce) > 0 {
			found = append(found, p)
		}
	}
	// the root always announces
	e1, s1 = found[0].H.Number, found[0].Announce
	if len(found) == 2 {
		s0 = found[1].Announce
	} else {
		s0 = m.PrevSet
	}
	return
}

// Epochs is the exported view of the last two announcements on the path to parent: the height
// and set of the most recent one, and the set announced before it.
func (m *PoSAModel) Epochs(parent *PNode) (e1 uint64, s1 []Addr, s0 []Addr) { return m.epochs(parent) }

// InEffect is the validator set that must seal a child of parent.
func (m *PoSAModel) InEffect(parent *PNode) []Addr {
	e1, s1, s0 := m.epochs(parent)
	n := parent.H.Number + 1
	if m.F.DelayedActivation && n-e1 <= uint64(len(s0)/2) {
		return s0
	}
	return s1
}

// InAnnounceWindow reports whether a child of parent lies in the stretch right after an epoch
// header where the light clients refuse a further announcement (a restriction of theirs, not of
// the property).
func (m *PoSAModel) InAnnounceWindow(parent *PNode) bool {
	e1, s1, s0 := m.epochs(parent)
	n := parent.H.Number + 1
	if m.F.DelayedActivation {
		return n-e1 <= uint64(len(s0)/2)
	}
	return n-e1 <= uint64(len(s1)/2)
}

// RecentlySealed: did a sign one of the last len(set)/2 blocks before a child of parent?
func (m *PoSAModel) RecentlySealed(parent *PNode, a Addr, setLen int) bool {
	n := parent.H.Number + 1
	w := uint64(setLen / 2)
	for p := parent; p != nil; p = p.Parent {
		if p.H.Number+w < n { // p.number < n - w
			break
		}
		if p.Sealer == a {
			return true
		}
	}
	return false
}

func indexOf(set []Addr, a Addr) int {
	for i, x := range set {
		if x == a {
			return i
		}
	}
	return -1
}

// Judge lists the reasons, drawn from property C29, why header h must not be stored as a child
// of parent (empty = must be acceptable as far as the property goes), and separately the chain
// rules outside the property that it breaks (the light client may or may not enforce those).
func (m *PoSAModel) Judge(parent *PNode, h *Hdr) (reasons, outside []string) {
	if h.Number != parent.H.Number+1 {
		reasons = append(reasons, "number-not-parent-plus-one")
	}
	ann, okLayout := Announced(h.Extra)
	if len(h.Extra) < ExtraVanity+ExtraSeal {
		reasons = append(reasons, "extra-too-short")
	} else if !okLayout {
		reasons = append(reasons, "validator-bytes-not-multiple-of-20")
	}
	if h.MixDigest != (Hash{}) {
		reasons = append(reasons, "non-zero-mix-digest")
	}
	if h.UncleHash != EmptyUncleHash {
		reasons = append(reasons, "non-empty-uncle-hash")
	}
	if len(reasons) > 0 {
		return
	}
	sealer, ok := m.F.Sealer(h, m.SealChainID)
	if !ok {
		return []string{"seal-unrecoverable"}, nil
	}
	if !m.F.Clique && sealer != Addr(h.Coinbase) {
		reasons = append(reasons, "coinbase-is-not-the-sealer")
	}
	set := m.InEffect(parent)
	ix := indexOf(set, sealer)
	if ix < 0 {
		reasons = append(reasons, "sealer-not-in-validator-set")
	} else {
		if m.RecentlySealed(parent, sealer, len(set)) {
			reasons = append(reasons, "sealed-within-recent-window")
		}
		want := int64(1)
		if int(h.Number%uint64(len(set))) == ix {
			want = 2
		}
		if h.Difficulty.Cmp(big.NewInt(want)) != 0 {
			reasons = append(reasons, "difficulty-does-not-match-turn")
		}
	}
	// outside the property
	if h.GasUsed > h.GasLimit {
		outside = append(outside, "gas-used-above-limit")
	}
	if m.F.GasDivisor != 0 {
		d := int64(parent.H.GasLimit) - int64(h.GasLimit)
		if d < 0 {
			d = -d
		}
		if uint64(d) >= parent.H.GasLimit/m.F.GasDivisor || h.GasLimit < SpecMinGasLimit {
			outside = append(outside, "gas-limit-bound")
		}
	}
	if m.F.Period > 0 && h.Time < parent.H.Time+m.F.Period {
		outside = append(outside, "block-period")
	}
	if len(ann) > 0 && !m.F.Clique && m.InAnnounceWindow(parent) {
		outside = append(outside, "announcement-inside-window")
	}
	if m.F.Clique && m.Epoch != 0 && h.Number%m.Epoch == 0 {
		_, cur, _ := m.epochs(parent)
		if len(ann) != len(cur) {
			outside = append(outside, "checkpoint-list-mismatch")
		} else {
			for i := range ann {
				if ann[i] != cur[i] {
					outside = append(outside, "checkpoint-list-mismatch")
					break
				}
			}
		}
		if h.Coinbase != [20]byte{} || h.Nonce != [8]byte{} {
			outside = append(outside, "checkpoint-vote-fields")
		}
	}
	if len(ann) > 0 && m.Epoch != 0 && h.Number%m.Epoch != 0 {
		outside = append(outside, "announcement-off-epoch")
	}
	if h.BaseFee != nil {
		outside = append(outside, "base-fee-present")
	}
	return
}

// Add records an accepted header in the model.
func (m *PoSAModel) Add(parent *PNode, h *Hdr) *PNode {
	ann, _ := Announced(h.Extra)
	s, _ := m.F.Sealer(h, m.SealChainID)
	return &PNode{H: h, Hash: h.Hash(), Parent: parent, Sealer: s, Announce: ann, TD: new(big.Int).Add(parent.TD, h.Difficulty), JSON: h.JSON()}
}

// HonestOpt steers Honest.
type HonestOpt struct {
	Announce []Addr // validator list to carry (epoch header); nil = none
	Sealer   *Addr  // force this sealer (must be eligible); nil = in-turn with probability 0.7
	Root     *Hash  // state root to commit to
}

// Honest builds and seals a header that obeys every rule of the chain on top of parent.
// keys must hold the private keys of the set in effect. Returns nil if the forced sealer is not
// eligible.
func (m *PoSAModel) Honest(rng *rand.Rand, parent *PNode, keys map[Addr]*Validator, o HonestOpt) *Hdr {
	set := m.InEffect(parent)
	n := parent.H.Number + 1
	var elig []Addr
	for _, a := range set {
		if !m.RecentlySealed(parent, a, len(set)) && keys[a] != nil {
			elig = append(elig, a)
		}
	}
	if len(elig) == 0 {
		return nil
	}
	inturn := set[n%uint64(len(set))]
	var who Addr
	switch {
	case o.Sealer != nil:
		if indexOf(elig, *o.Sealer) < 0 {
			return nil
		}
		who = *o.Sealer
	case indexOf(elig, inturn) >= 0 && rng.Intn(10) < 7:
		who = inturn
	default:
		who = elig[rng.Intn(len(elig))]
	}
	h := &Hdr{ParentHash: parent.Hash, UncleHash: EmptyUncleHash, Coinbase: [20]byte(who), Root: RandHash(rng), TxHash: RandHash(rng), ReceiptHash: RandHash(rng),
		Number: n, Time: parent.H.Time + 3 + uint64(rng.Intn(3)), Difficulty: big.NewInt(1)}
	if o.Root != nil {
		h.Root = *o.Root
	}
	if m.F.Clique {
		h.Coinbase = [20]byte{} // no vote
	}
	if who == inturn {
		h.Difficulty = big.NewInt(2)
	}
	room := int64(parent.H.GasLimit/1024) - 1
	h.GasLimit = uint64(int64(parent.H.GasLimit) + rng.Int63n(2*room+1) - room)
	h.GasUsed = uint64(rng.Int63n(int64(h.GasLimit) + 1))
	h.Extra = MakeExtra(rng, o.Announce)
	m.F.Seal(h, keys[who], m.SealChainID)
	return h
}

// PoSAChain bundles a model with the sealer keys and an epoch schedule: an honest chain simulator.
type PoSAChain struct {
	M     *PoSAModel
	Pool  []*Validator // every key that may ever be a validator
	Keys  map[Addr]*Validator
	Epoch uint64
	MaxV  int
}

// NewPoSAChain creates a trust root at a multiple of the epoch length announcing a set of v1
// validators, with a previous set of v0 validators, drawn from a pool of keys. It returns the
// simulator and the genesis document for SyncGenesis.
func NewPoSAChain(rng *rand.Rand, f *Flavor, sealChainID int64, v0, v1, maxV int, around uint64) (*PoSAChain, []byte) {
	c := &PoSAChain{Keys: map[Addr]*Validator{}, MaxV: maxV, Epoch: uint64(maxV/2 + 2 + rng.Intn(4))}
	for i := 0; i < 2*maxV+2; i++ {
		v := NewValidator(rng)
		c.Pool = append(c.Pool, v)
		c.Keys[v.Addr] = v
	}
	s0 := c.pick(rng, v0)
	s1 := c.pick(rng, v1)
	g := (around / c.Epoch) * c.Epoch
	root := &Hdr{ParentHash: RandHash(rng), UncleHash: EmptyUncleHash, Root: RandHash(rng), TxHash: RandHash(rng), ReceiptHash: RandHash(rng),
		Difficulty: big.NewInt(2), Number: g, GasLimit: uint64(20000000 + rng.Intn(20000000)), Time: 1600000000 + uint64(rng.Intn(1000000))}
	root.GasUsed = root.GasLimit / 2
	if f.Clique {
		s0 = s1 // the signer set does not change without votes
	}
	sealer := s0[rng.Intn(len(s0))]
	if !f.Clique {
		root.Coinbase = [20]byte(sealer)
	}
	root.Extra = MakeExtra(rng, s1)
	f.Seal(root, c.Keys[sealer], sealChainID)
	c.M = NewPoSAModel(f, sealChainID, root, s0)
	c.M.Epoch = c.Epoch
	return c, f.GenesisJSON(root, g-c.Epoch, s0)
}

func (c *PoSAChain) pick(rng *rand.Rand, n int) []Addr {
	perm := rng.Perm(len(c.Pool))
	var out []Addr
	for _, i := range perm[:n] {
		out = append(out, c.Pool[i].Addr)
	}
	return SortAddrs(out)
}

// NextSet derives the set an epoch header announces from the current one: same / one added /
// one removed / one replaced / a fresh draw.
func (c *PoSAChain) NextSet(rng *rand.Rand, cur []Addr) []Addr {
	out := append([]Addr{}, cur...)
	fresh := func() Addr {
		for {
			a := c.Pool[rng.Intn(len(c.Pool))].Addr
			if indexOf(out, a) < 0 {
				return a
			}
		}
	}
	switch rng.Intn(8) {
	case 0:
	case 5: // shrink to about half (5 -> 3, 7 -> 4): the old, larger set keeps ruling the transition blocks
		if len(out) > 1 {
			perm := rng.Perm(len(out))
			var keep []Addr
			for _, i := range perm[:(len(out)+1)/2] {
				keep = append(keep, out[i])
			}
			out = keep
		}
	case 6: // grow to about double
		for n := len(out); n > 0 && len(out) < c.MaxV; n-- {
			out = append(out, fresh())
		}
	case 1:
		if len(out) < c.MaxV {
			out = append(out, fresh())
		}
	case 2:
		if len(out) > 1 {
			i := rng.Intn(len(out))
			out = append(out[:i], out[i+1:]...)
		}
	case 3:
		out[rng.Intn(len(out))] = fresh()
	default:
		return c.pick(rng, 1+rng.Intn(c.MaxV))
	}
	return SortAddrs(out)
}

// Next builds the honest child of parent, announcing a new set when the height is an epoch
// boundary. Returns nil if no validator of the set in effect may seal (cannot happen for sets
// whose keys are all in the pool).
func (c *PoSAChain) Next(rng *rand.Rand, parent *PNode, o HonestOpt) *Hdr {
	if (parent.H.Number+1)%c.Epoch == 0 && o.Announce == nil {
		_, s1, _ := c.M.epochs(parent)
		if c.M.F.Clique {
			o.Announce = s1
		} else {
			o.Announce = c.NextSet(rng, s1)
		}
	}
	return c.M.Honest(rng, parent, c.Keys, o)
}

// InTurn is the validator whose turn it is to seal a child of parent.
func (m *PoSAModel) InTurn(parent *PNode) Addr {
	set := m.InEffect(parent)
	return set[(parent.H.Number+1)%uint64(len(set))]
}

// Eligible lists the validators of the set in effect that may seal a child of parent (not inside
// the recent-signer window) and whose key is known.
func (m *PoSAModel) Eligible(parent *PNode, keys map[Addr]*Validator) []Addr {
	set := m.InEffect(parent)
	var out []Addr
	for _, a := range set {
		if keys[a] != nil && !m.RecentlySealed(parent, a, len(set)) {
			out = append(out, a)
		}
	}
	return out
}
