package c31

import (
	"sync"

	"verifharness/kit"
)

// viol reports a violation, but each key at most perKeyCap times per run: kit prints / writes
// replay files for the first 50 violations only, so hundreds of instances of one defect must not
// hide a different key that fires later. Further instances are only counted.
const perKeyCap = 5

var (
	violMu    sync.Mutex
	violCount = map[string]int{}
)

func viol(r *kit.Run, key, what string, replay interface{}) {
	violMu.Lock()
	violCount[key]++
	n := violCount[key]
	violMu.Unlock()
	r.Count("violating_cases["+key+"]", 1)
	if n > perKeyCap {
		return
	}
	r.Violation(key, what, replay)
}
