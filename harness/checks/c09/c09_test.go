// C09: overlaydb.MemDB (the in-memory write buffer) behaves as a byte-ordered map with tombstones.
//
// The model is a plain Go map plus sort; it is written from the property statement and the doc
// comments of the exported API (Get's "unknown" flag, Range.Start inclusive / Range.Limit exclusive,
// nil bound = unbounded), never from the skip-list code.
package c09

import (
	"bytes"
	"fmt"
	"math/rand"
	"sort"
	"testing"
	"time"

	"verifharness/kit"

	"github.com/polynetwork/poly/core/store/overlaydb"
	"github.com/syndtr/goleveldb/leveldb/util"
)

var alphabet = []byte{0x00, 0x01, 'a', 'b', 0x7f, 0x80, 0xfe, 0xff}

type ent struct {
	k string
	v []byte
}

// model: every key ever written since the last reset maps to its latest value; an empty value is a
// tombstone ("known absent").
type model struct {
	m    map[string][]byte
	keys []string // sorted (Go string comparison is bytewise)
}

func (m *model) set(k string, v []byte) {
	if _, ok := m.m[k]; !ok {
		i := sort.SearchStrings(m.keys, k)
		m.keys = append(m.keys, "")
		copy(m.keys[i+1:], m.keys[i:])
		m.keys[i] = k
	}
	m.m[k] = v
}

func (m *model) sorted() []ent {
	out := make([]ent, 0, len(m.keys))
	for _, k := range m.keys {
		out = append(out, ent{k, m.m[k]})
	}
	return out
}

func inRange(k []byte, start, limit []byte) bool {
	if start != nil && bytes.Compare(k, start) < 0 {
		return false
	}
	if limit != nil && bytes.Compare(k, limit) >= 0 {
		return false
	}
	return true
}

type rangeSpec struct {
	rg           *util.Range
	start, limit []byte // model bounds (nil = unbounded) when prefix == nil
	prefix       []byte // non-nil: the range was requested as "all keys with this prefix"
}

func (rs rangeSpec) has(k []byte) bool {
	if rs.prefix != nil {
		return bytes.HasPrefix(k, rs.prefix)
	}
	return inRange(k, rs.start, rs.limit)
}

func (rs rangeSpec) String() string {
	if rs.prefix != nil {
		return fmt.Sprintf("prefix %x", rs.prefix)
	}
	return fmt.Sprintf("[%x,%x) nilstart=%v nillimit=%v", rs.start, rs.limit, rs.start == nil, rs.limit == nil)
}

func (m *model) ranged(rs rangeSpec) []ent {
	var out []ent
	for _, e := range m.sorted() {
		if rs.has([]byte(e.k)) {
			out = append(out, e)
		}
	}
	return out
}

type opRec struct {
	Op string `json:"op"`
	K  string `json:"k,omitempty"`
	V  string `json:"v,omitempty"`
}

type script struct {
	r     *kit.Run
	rng   *rand.Rand
	db    *overlaydb.MemDB
	mod   *model
	trace []opRec
	cap   [2]int
	bad   bool
	held  []held
}

// held = a byte slice exactly as the buffer handed it out (Get / Find / iterator Key()/Value() /
// ForEach callback), together with a private copy of what it contained at that moment. The buffer
// is documented as append-only until Reset, so the bytes behind a returned slice must not change
// behind the caller's back, whatever operations follow.
type held struct {
	ref  []byte
	snap []byte
	from string
}

const maxHeld = 48

func (s *script) retain(ref []byte, from string) {
	if len(ref) == 0 {
		return
	}
	h := held{ref: ref, snap: append([]byte{}, ref...), from: from}
	if len(s.held) < maxHeld {
		s.held = append(s.held, h)
	} else {
		s.held[s.rng.Intn(maxHeld)] = h
	}
	s.r.Count("slices_retained", 1)
}

func (s *script) checkHeld(after string) {
	for _, h := range s.held {
		s.r.Count("retained_slice_checks", 1)
		if !bytes.Equal(h.ref, h.snap) {
			s.fail("returned-slice-changed-later", fmt.Sprintf("a slice returned by %s held %x when it was returned and holds %x after a later %s (no Reset in between)", h.from, h.snap, h.ref, after))
			return
		}
	}
}

func (s *script) log(op string, k, v []byte) {
	s.trace = append(s.trace, opRec{op, kit.Hex(k), kit.Hex(v)})
}

func (s *script) fail(key, what string) {
	s.bad = true
	tr := s.trace
	if len(tr) > 400 {
		tr = tr[len(tr)-400:]
	}
	s.r.Violation(key, what, map[string]interface{}{"newmemdb": s.cap, "trace_tail": tr, "trace_len": len(s.trace)})
}

func (s *script) genKey() []byte {
	rng := s.rng
	n := rng.Intn(5)
	if rng.Intn(10) == 0 {
		n = 0
	}
	k := make([]byte, n)
	for i := range k {
		k[i] = alphabet[rng.Intn(len(alphabet))]
	}
	return k
}

// existing or fresh key
func (s *script) pickKey() []byte {
	if len(s.mod.m) > 0 && s.rng.Intn(3) != 0 {
		return []byte(s.mod.keys[s.rng.Intn(len(s.mod.keys))])
	}
	return s.genKey()
}

func (s *script) genVal() []byte {
	rng := s.rng
	switch rng.Intn(8) {
	case 0:
		return nil
	case 1:
		return []byte{}
	case 2:
		v := make([]byte, 40+rng.Intn(200))
		rng.Read(v)
		return v
	}
	v := make([]byte, 1+rng.Intn(6))
	rng.Read(v)
	return v
}

func (s *script) genBound() []byte {
	switch s.rng.Intn(6) {
	case 0:
		return nil
	case 1:
		return []byte{}
	}
	return s.pickKey()
}

func (s *script) put() {
	k, v := s.pickKey(), s.genVal()
	s.log("put", k, v)
	kk, vv := append([]byte{}, k...), append([]byte{}, v...)
	s.db.Put(kk, vv)
	// the arguments may be modified after Put returns
	for i := range kk {
		kk[i] ^= 0xff
	}
	for i := range vv {
		vv[i] ^= 0xff
	}
	s.mod.set(string(k), append([]byte{}, v...))
	s.checkHeld(fmt.Sprintf("Put(%x, %d bytes)", k, len(v)))
	s.r.Count("op_put", 1)
	if len(v) == 0 {
		s.r.Count("op_put_empty_value", 1)
	}
}

func (s *script) del() {
	k := s.pickKey()
	s.log("delete", k, nil)
	kk := append([]byte{}, k...)
	s.db.Delete(kk)
	for i := range kk {
		kk[i] ^= 0xff
	}
	s.mod.set(string(k), nil)
	s.checkHeld(fmt.Sprintf("Delete(%x)", k))
	s.r.Count("op_delete", 1)
}

func (s *script) get() {
	k := s.pickKey()
	s.log("get", k, nil)
	v, unknown := s.db.Get(k)
	s.retain(v, fmt.Sprintf("Get(%x)", k))
	want, written := s.mod.m[string(k)]
	s.r.Count("op_get", 1)
	switch {
	case !written:
		s.r.Count("get_never_written", 1)
		if !unknown || len(v) != 0 {
			s.fail("get-never-written-key", fmt.Sprintf("Get(%x) = (%x, unknown=%v), key was never written since reset", k, v, unknown))
		}
	case len(want) == 0:
		s.r.Count("get_known_absent", 1)
		if unknown || len(v) != 0 {
			s.fail("get-deleted-key", fmt.Sprintf("Get(%x) = (%x, unknown=%v), key is deleted / holds an empty value: want (empty, unknown=false)", k, v, unknown))
		}
	default:
		s.r.Count("get_live", 1)
		if unknown || !bytes.Equal(v, want) {
			s.fail("get-live-key", fmt.Sprintf("Get(%x) = (%x, unknown=%v), want (%x, false)", k, v, unknown, want))
		}
	}
}

func (s *script) find() {
	k := s.pickKey()
	s.log("find", k, nil)
	rk, rv, err := s.db.Find(k)
	s.retain(rk, fmt.Sprintf("Find(%x) key", k))
	s.retain(rv, fmt.Sprintf("Find(%x) value", k))
	s.r.Count("op_find", 1)
	var want *ent
	if i := sort.SearchStrings(s.mod.keys, string(k)); i < len(s.mod.keys) {
		want = &ent{s.mod.keys[i], s.mod.m[s.mod.keys[i]]}
	}
	if want == nil {
		if err == nil {
			s.fail("find-past-end", fmt.Sprintf("Find(%x) = (%x,%x,nil), no key >= it exists", k, rk, rv))
		}
		return
	}
	if err != nil || string(rk) != want.k || !bytes.Equal(rv, want.v) {
		s.fail("find-mismatch", fmt.Sprintf("Find(%x) = (%x,%x,%v), want (%x,%x)", k, rk, rv, err, want.k, want.v))
	}
}

func (s *script) foreach() {
	s.log("foreach", nil, nil)
	var got []ent
	s.db.ForEach(func(k, v []byte) {
		got = append(got, ent{string(k), append([]byte{}, v...)})
		if s.rng.Intn(8) == 0 {
			s.retain(k, "ForEach key")
			s.retain(v, "ForEach value")
		}
	})
	want := s.mod.sorted()
	s.r.Count("op_foreach", 1)
	if d := diffEnts(got, want); d != "" {
		s.fail("foreach-mismatch", "ForEach: "+d)
	}
	if s.db.Len() != len(want) {
		s.fail("len-mismatch", fmt.Sprintf("Len() = %d, model has %d entries", s.db.Len(), len(want)))
	}
	sz := 0
	for _, e := range want {
		sz += len(e.k) + len(e.v)
	}
	if s.db.Size() != sz {
		s.fail("size-mismatch", fmt.Sprintf("Size() = %d, sum of key and value lengths = %d", s.db.Size(), sz))
	}
}

func diffEnts(got, want []ent) string {
	for i := 0; i < len(got) || i < len(want); i++ {
		if i >= len(got) {
			return fmt.Sprintf("missing entry #%d key %x (got %d entries, want %d)", i, want[i].k, len(got), len(want))
		}
		if i >= len(want) {
			return fmt.Sprintf("extra entry #%d key %x (got %d entries, want %d)", i, got[i].k, len(got), len(want))
		}
		if got[i].k != want[i].k {
			return fmt.Sprintf("entry #%d has key %x, want %x", i, got[i].k, want[i].k)
		}
		if !bytes.Equal(got[i].v, want[i].v) {
			return fmt.Sprintf("entry #%d key %x has value %x, want %x", i, got[i].k, got[i].v, want[i].v)
		}
	}
	return ""
}

func (s *script) genRange() rangeSpec {
	switch s.rng.Intn(6) {
	case 0:
		return rangeSpec{}
	case 1, 2:
		p := s.pickKey()
		if len(p) > 0 && s.rng.Intn(2) == 0 {
			p = p[:len(p)-1]
		}
		s.log("range-prefix", p, nil)
		// the model of a prefix scan is stated independently: keys having the prefix
		return rangeSpec{rg: util.BytesPrefix(append([]byte{}, p...)), prefix: append([]byte{}, p...)}
	}
	a, b := s.genBound(), s.genBound()
	if a != nil && b != nil && bytes.Compare(a, b) > 0 && s.rng.Intn(4) != 0 {
		a, b = b, a
	}
	s.log("range", a, b)
	return rangeSpec{rg: &util.Range{Start: a, Limit: b}, start: a, limit: b}
}

// scan: full forward and full backward traversal of a range.
func (s *script) scan() {
	rs := s.genRange()
	want := s.mod.ranged(rs)
	it := s.db.NewIterator(rs.rg)
	var fwd, bwd []ent
	for ok := it.First(); ok; ok = it.Next() {
		fwd = append(fwd, ent{string(it.Key()), append([]byte{}, it.Value()...)})
		if s.rng.Intn(8) == 0 {
			s.retain(it.Key(), "iterator Key()")
			s.retain(it.Value(), "iterator Value()")
		}
		if len(fwd) > len(want)+5 {
			break
		}
	}
	for ok := it.Last(); ok; ok = it.Prev() {
		bwd = append(bwd, ent{string(it.Key()), append([]byte{}, it.Value()...)})
		if len(bwd) > len(want)+5 {
			break
		}
	}
	it.Release()
	s.r.Count("op_scan", 1)
	s.r.Count("scan_entries", len(want))
	if len(want) == 0 {
		s.r.Count("scan_empty_range", 1)
	}
	if d := diffEnts(fwd, want); d != "" {
		s.fail("scan-forward-mismatch", fmt.Sprintf("range %s forward: %s", rs, d))
	}
	rev := make([]ent, len(want))
	for i := range want {
		rev[len(want)-1-i] = want[i]
	}
	if d := diffEnts(bwd, rev); d != "" {
		s.fail("scan-backward-mismatch", fmt.Sprintf("range %s backward: %s", rs, d))
	}
}

// walk: random cursor moves with direction changes.
func (s *script) walk() {
	rs := s.genRange()
	list := s.mod.ranged(rs)
	it := s.db.NewIterator(rs.rg)
	defer it.Release()
	cur := -1 // -1 = not positioned on an entry
	steps := 4 + s.rng.Intn(14)
	s.r.Count("op_walk", 1)
	lastMove := ""
	offBy := "" // "Next"/"Prev": the cursor left the range by that move from an entry and has only been moved the same way since
	for st := 0; st < steps && !s.bad; st++ {
		var ok bool
		var name string
		exp := -2 // expected position; -1 invalid
		alt := -2 // alternative acceptable position when moving from an unpositioned cursor
		var arg []byte
		switch c := s.rng.Intn(10); {
		case c == 0:
			name = "First"
			ok = it.First()
			exp = -1
			if len(list) > 0 {
				exp = 0
			}
		case c == 1:
			name = "Last"
			ok = it.Last()
			exp = len(list) - 1
		case c <= 3:
			name = "Seek"
			arg = s.pickKey()
			ok = it.Seek(arg)
			exp = -1
			for i, e := range list {
				if bytes.Compare([]byte(e.k), arg) >= 0 {
					exp = i
					break
				}
			}
		case c <= 6:
			name = "Next"
			ok = it.Next()
			if cur >= 0 {
				exp = cur + 1
				if exp >= len(list) {
					exp = -1
				}
			} else {
				// unpositioned cursor: either stays unpositioned or restarts at the first entry
				exp = -1
				alt = -1
				if len(list) > 0 && offBy != "Next" { // a forward scan that ran off the end stays ended
					alt = 0
				}
			}
		default:
			name = "Prev"
			ok = it.Prev()
			if cur >= 0 {
				exp = cur - 1
			} else {
				exp = -1
				if offBy != "Prev" { // a backward scan that ran off the front stays ended
					alt = len(list) - 1
				}
			}
		}
		s.log("iter."+name, arg, nil)
		s.r.Count("iter_"+name, 1)
		if lastMove != "" && ((lastMove == "Next" && name == "Prev") || (lastMove == "Prev" && name == "Next")) && cur >= 0 {
			s.r.Count("iter_direction_changes", 1)
		}
		if name == "Next" || name == "Prev" {
			lastMove = name
		} else {
			lastMove = ""
		}
		got := -1
		if ok {
			k := it.Key()
			got = -3
			for i, e := range list {
				if e.k == string(k) {
					got = i
					break
				}
			}
			if got == -3 {
				s.fail("iter-key-outside-range", fmt.Sprintf("%s(%x) on range %s positioned at key %x which is not a key of the range", name, arg, rs, k))
				return
			}
			if s.rng.Intn(4) == 0 {
				s.retain(k, "iterator Key()")
				s.retain(it.Value(), "iterator Value()")
			}
			if !bytes.Equal(it.Value(), list[got].v) {
				s.fail("iter-value-mismatch", fmt.Sprintf("%s: key %x value %x want %x", name, k, it.Value(), list[got].v))
				return
			}
		}
		if it.Valid() != ok {
			s.fail("iter-valid-flag", fmt.Sprintf("%s returned %v but Valid() = %v", name, ok, it.Valid()))
			return
		}
		if got != exp && !(alt != -2 && got == alt) {
			desc := func(p int) string {
				if p < 0 {
					return "<none>"
				}
				return fmt.Sprintf("#%d %x", p, list[p].k)
			}
			from := "unpositioned"
			if cur >= 0 {
				from = desc(cur)
			}
			s.fail("iter-"+name+"-mismatch", fmt.Sprintf("range %s (%d entries): %s(%x) from %s landed on %s, want %s", rs, len(list), name, arg, from, desc(got), desc(exp)))
			return
		}
		if (name == "Next" || name == "Prev") && got < 0 && (cur >= 0 || offBy == name) {
			if cur < 0 {
				s.r.Count("iter_ended_scan_stays_ended", 1)
			}
			offBy = name
		} else {
			offBy = ""
		}
		if cur < 0 && (name == "Next" || name == "Prev") {
			if got >= 0 {
				s.r.Count("iter_wrap_from_unpositioned", 1)
			} else {
				s.r.Count("iter_stay_unpositioned", 1)
			}
		}
		cur = got
	}
}

func (s *script) reset() {
	s.log("reset", nil, nil)
	s.checkHeld("sequence of operations before Reset")
	s.held = nil // Reset is documented to reuse the buffer: slices handed out before it are void
	s.db.Reset()
	s.mod.m = map[string][]byte{}
	s.mod.keys = nil
	s.r.Count("op_reset", 1)
	if s.db.Len() != 0 || s.db.Size() != 0 {
		s.fail("reset-not-empty", fmt.Sprintf("after Reset: Len=%d Size=%d", s.db.Len(), s.db.Size()))
	}
	n := 0
	s.db.ForEach(func(k, v []byte) { n++ })
	it := s.db.NewIterator(nil)
	if n != 0 || it.First() || it.Last() {
		s.fail("reset-not-empty", fmt.Sprintf("after Reset: ForEach visited %d entries or an iterator found one", n))
	}
	it.Release()
}

var stuck bool

func runScript(r *kit.Run, rng *rand.Rand, nops int, id int) {
	caps := [2]int{[]int{0, 1, 16, 1024, 64 * 1024}[rng.Intn(5)], []int{0, 1, 4, 64}[rng.Intn(4)]}
	s := &script{r: r, rng: rng, db: overlaydb.NewMemDB(caps[0], caps[1]), mod: &model{m: map[string][]byte{}}, cap: caps}
	// operation mix differs per script: write heavy / delete heavy / read heavy
	wPut, wDel := 20+rng.Intn(40), 5+rng.Intn(30)
	// the script runs in its own goroutine under a very generous watchdog (a script normally takes
	// milliseconds): an operation of an in-memory buffer that does not return within two minutes
	// never answers, which no map does
	done := make(chan interface{}, 1)
	go func() { done <- kit.Catch(func() { s.run(nops, wPut, wDel) }) }()
	select {
	case p := <-done:
		if p != nil {
			s.fail("memdb-panic", fmt.Sprintf("panic in MemDB: %v", p))
		}
	case <-time.After(120 * time.Second):
		s.fail("memdb-operation-does-not-return", fmt.Sprintf("an operation of script %d did not return within 120 s (last logged op #%d)", id, len(s.trace)))
		stuck = true
		return
	}
	r.Eval(1)
	live, dead := 0, 0
	for _, v := range s.mod.m {
		if len(v) == 0 {
			dead++
		} else {
			live++
		}
	}
	r.Distinct(len(s.trace), live, dead, s.db.Size(), caps)
	if id == 3 {
		tr := s.trace
		if len(tr) > 25 {
			tr = tr[:25]
		}
		r.Sample(map[string]interface{}{"script": id, "first_ops": tr, "final_live": live, "final_tombstones": dead})
	}
}

func (s *script) run(nops, wPut, wDel int) {
	rng := s.rng
	for i := 0; i < nops && !s.bad; i++ {
		c := rng.Intn(wPut + wDel + 60)
		switch {
		case c < wPut:
			s.put()
		case c < wPut+wDel:
			s.del()
		case c < wPut+wDel+18:
			s.get()
		case c < wPut+wDel+24:
			s.find()
		case c < wPut+wDel+34:
			s.scan()
		case c < wPut+wDel+48:
			s.walk()
		case c < wPut+wDel+58:
			s.foreach()
		default:
			if rng.Intn(3) == 0 {
				s.reset()
			} else {
				s.get()
			}
		}
	}
	if !s.bad {
		s.foreach()
		s.scan()
		s.checkHeld("end of script")
	}
}

func TestC09(t *testing.T) {
	r := kit.Start(t, "C09", "exploration")
	defer r.Finish()
	r.Rule("random operation scripts (put incl. empty/nil values, delete, get, find, foreach+len+size, full forward/backward range scans, random cursor walks First/Last/Seek/Next/Prev with direction changes, reset) over keys of length 0..4 from the alphabet {00,01,'a','b',7f,80,fe,ff}; ranges: nil, BytesPrefix(p), [a,b) with nil / empty / inverted bounds; every answer is compared with a map+sort model; up to 48 slices handed out by Get/Find/ForEach/iterators are kept uncopied per script and re-compared with their original contents after every Put/Delete, before Reset and at the end; one script in 40 is long (3000 ops) to grow tall skip lists; distinct = (trace length, live keys, tombstones, Size, NewMemDB capacities)")
	r.Assume("a Put with an empty value leaves the key known (unknown=false) with an empty value, which is all the API can express for 'known absent'; tombstoned keys are part of scans with an empty value (that is how the layers above recognise deletions)")
	r.Assume("Next/Prev on a cursor that is not positioned on an entry may either stay unpositioned or restart at the first/last entry of the range (goleveldb iterator convention); both are accepted, except that a scan which ran off the end of the range by Next (off the front by Prev) must stay ended when moved the same way again: otherwise a consumer would see keys out of byte order")
	r.Assume("iterators are not used across mutations of the buffer (its documentation promises no consistent snapshot)")
	r.Assume("retention: the buffer documents itself as append-only until Reset (NewMemDB / Size comments) and asks callers not to modify returned slices, so slices handed out by Get, Find, ForEach and the iterators' Key()/Value() (all sub-slices of that buffer) must keep their contents until Reset; the generic goleveldb Iterator comment that Key/Value may change on the next move is not relied upon by this implementation and HEAD keeps them stable, so they are included")
	rng := r.Rand("c09")
	n := r.N(4000, 120000)
	for i := 0; i < n; i++ {
		ops := 60
		if i%40 == 7 {
			ops = 3000
		}
		runScript(r, rng, ops, i)
		if r.Violations() > 10 || stuck {
			break
		}
	}
	if r.Violations() > 0 {
		return // the run was cut short; the vacuity guards below would only add noise
	}
	for _, c := range []string{"op_put", "op_delete", "op_get", "op_find", "op_scan", "op_walk", "op_foreach", "op_reset", "op_put_empty_value",
		"get_never_written", "get_known_absent", "get_live", "iter_First", "iter_Last", "iter_Seek", "iter_Next", "iter_Prev", "iter_direction_changes", "iter_ended_scan_stays_ended", "scan_empty_range", "slices_retained"} {
		r.Require(c, n/20)
	}
	r.Require("scan_entries", n)
	r.Require("retained_slice_checks", 20*n)
}
