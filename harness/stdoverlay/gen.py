#!/usr/bin/env python3
"""gen.py <outdir> — generate a `go build -overlay` file that replaces three standard-library
source files of the installed GOROOT with patched copies exposing observation hooks:

  time.VerifNowHook   func() int64   called by time.Now / Since / Until; the returned skew (ns) is
                                      added to the reading of time.Now
  rand.VerifHook      func(string)   (math/rand) called by every top-level function using the
                                      global generator (Int, Intn, Read, Perm, Shuffle, Seed, ...)

crypto/rand needs no patch: crypto/rand.Reader is an exported variable the harness wraps.
The patches are applied textually and verified; if the installed sources do not match the expected
shape the generator fails loudly (the C16 check is then inconclusive, never silently weaker).
"""
import json, os, subprocess, sys

def goroot():
    env = dict(os.environ, GOTOOLCHAIN="local")
    return subprocess.check_output(["go", "env", "GOROOT"], env=env).decode().strip()

def patch(src, old, new, path):
    if src.count(old) != 1:
        sys.exit("stdoverlay: pattern not found exactly once in %s: %r" % (path, old[:60]))
    return src.replace(old, new)

def main():
    out = os.path.abspath(sys.argv[1])
    os.makedirs(out, exist_ok=True)
    gr = goroot()
    repl = {}
    # --- time ---
    p = os.path.join(gr, "src", "time", "time.go")
    s = open(p).read()
    s = patch(s, "func Now() Time {\n\tsec, nsec, mono := now()\n",
              "// VerifNowHook (verification overlay): called on every wall-clock read; returns a skew in ns.\n"
              "var VerifNowHook func() int64\n\n"
              "func Now() Time {\n"
              "\tif h := VerifNowHook; h != nil {\n"
              "\t\tif d := h(); d != 0 {\n"
              "\t\t\treturn verifNow0().Add(Duration(d))\n"
              "\t\t}\n"
              "\t}\n"
              "\treturn verifNow0()\n"
              "}\n\n"
              "func verifNow0() Time {\n\tsec, nsec, mono := now()\n", p)
    s = patch(s, "func Since(t Time) Duration {\n", "func Since(t Time) Duration {\n\tif h := VerifNowHook; h != nil {\n\t\th()\n\t}\n", p)
    s = patch(s, "func Until(t Time) Duration {\n", "func Until(t Time) Duration {\n\tif h := VerifNowHook; h != nil {\n\t\th()\n\t}\n", p)
    q = os.path.join(out, "time_time.go")
    open(q, "w").write(s)
    repl[p] = q
    # --- math/rand ---
    p = os.path.join(gr, "src", "math", "rand", "rand.go")
    s = open(p).read()
    s = patch(s, "func globalRand() *Rand {\n",
              "// VerifHook (verification overlay): called whenever the global generator is used.\n"
              "var VerifHook func(api string)\n\n"
              "func globalRand() *Rand {\n\tif h := VerifHook; h != nil {\n\t\th(\"math/rand.global\")\n\t}\n", p)
    q = os.path.join(out, "math_rand_rand.go")
    open(q, "w").write(s)
    repl[p] = q
    ov = os.path.join(out, "overlay.json")
    new = json.dumps({"Replace": repl}, indent=1)
    try:
        if open(ov).read() == new:
            return
    except FileNotFoundError:
        pass
    open(ov, "w").write(new)

if __name__ == "__main__":
    main()
