// C44: consensus messages survive their encoding unchanged; payload / proposal signatures bind
// the exact content and key.
//
// Monitors:
//  1. every VBFT message kind: m0 → SerializeVbftMsg → DeserializeVbftMsg → m1, m1 ≡ m0 (normal
//     form comparison), re-encoding gives the same bytes; same for the p2p ConsensusPayload envelope.
//  2. signature binding: messages are signed the way the node signs them (the real builders for
//     endorse / commit, the same calls as constructBlock / broadcastToAll for proposals / payloads);
//     every single-field mutation is sent through the wire form and must not verify; another key
//     must not verify. Oracle for an accepted mutant: Verify may only pass if the decoded signed
//     content is byte-identical to what was signed.
package c44

import (
	"bytes"
	"encoding/json"
	"fmt"
	"math/rand"
	"reflect"
	"sort"
	"testing"
	"time"

	"github.com/ontio/ontology-crypto/ec"
	"github.com/ontio/ontology-crypto/keypair"
	s "github.com/ontio/ontology-crypto/signature"
	"github.com/polynetwork/poly/account"
	"github.com/polynetwork/poly/common"
	"github.com/polynetwork/poly/consensus/vbft"
	vconfig "github.com/polynetwork/poly/consensus/vbft/config"
	"github.com/polynetwork/poly/core/signature"
	"github.com/polynetwork/poly/core/types"
	msgpack "github.com/polynetwork/poly/p2pserver/message/msg_pack"
	p2ptypes "github.com/polynetwork/poly/p2pserver/message/types"

	"verifharness/kit"
	"verifharness/kit/pk"
)

// ---- normal form -----------------------------------------------------------------------------

// norm turns a message into a tree of plain values: nil and empty slices/maps are the same,
// blocks are their full serialization, public keys their serialization, unexported fields (hash
// caches) are ignored.
func norm(v reflect.Value) interface{} {
	if !v.IsValid() {
		return nil
	}
	if v.CanInterface() {
		switch x := v.Interface().(type) {
		case *types.Block:
			if x == nil {
				return nil
			}
			return "block:" + kit.Hex(x.ToArray())
		case *ec.PublicKey:
			if x == nil {
				return nil
			}
			return "pub:" + kit.Hex(keypair.SerializePublicKey(x))
		case common.Uint256:
			return "h:" + kit.Hex(x[:])
		case []byte:
			return "b:" + kit.Hex(x)
		case time.Duration:
			return int64(x)
		}
	}
	switch v.Kind() {
	case reflect.Ptr, reflect.Interface:
		if v.IsNil() {
			return nil
		}
		return norm(v.Elem())
	case reflect.Struct:
		out := map[string]interface{}{}
		t := v.Type()
		for i := 0; i < v.NumField(); i++ {
			if t.Field(i).PkgPath != "" {
				continue
			}
			out[t.Field(i).Name] = norm(v.Field(i))
		}
		return out
	case reflect.Slice, reflect.Array:
		out := make([]interface{}, 0, v.Len())
		for i := 0; i < v.Len(); i++ {
			out = append(out, norm(v.Index(i)))
		}
		return out
	case reflect.Map:
		out := map[string]interface{}{}
		for _, k := range v.MapKeys() {
			out[fmt.Sprint(k.Interface())] = norm(v.MapIndex(k))
		}
		return out
	case reflect.Bool:
		return v.Bool()
	case reflect.Uint8, reflect.Uint16, reflect.Uint32, reflect.Uint64, reflect.Uint:
		return v.Uint()
	case reflect.Int8, reflect.Int16, reflect.Int32, reflect.Int64, reflect.Int:
		return v.Int()
	case reflect.String:
		return v.String()
	}
	return fmt.Sprintf("%v", v)
}

func normOf(m interface{}) interface{} { return norm(reflect.ValueOf(m)) }

func sameNorm(a, b interface{}) bool {
	ja, _ := json.Marshal(normOf(a))
	jb, _ := json.Marshal(normOf(b))
	return bytes.Equal(ja, jb)
}

// ---- generators ------------------------------------------------------------------------------

type signer struct {
	key  *pk.Key
	acct *account.Account
	srv  *vbft.Server
	idx  uint32
}

func newSigner(rng *rand.Rand, idx uint32) *signer {
	k := pk.NewKey(rng)
	a := &account.Account{PrivateKey: k.Priv, PublicKey: k.Pub, Address: k.Addr, SigScheme: s.SHA256withECDSA}
	return &signer{key: k, acct: a, srv: vbft.VerifMsgSigner(a, idx), idx: idx}
}

type G struct {
	rng     *rand.Rand
	signers []*signer
	nonce   uint32
}

func (g *G) bytesN(max int) []byte {
	switch g.rng.Intn(6) {
	case 0:
		return nil
	case 1:
		return []byte{}
	}
	b := make([]byte, 1+g.rng.Intn(max))
	g.rng.Read(b)
	return b
}

func (g *G) u32() uint32 {
	switch g.rng.Intn(5) {
	case 0:
		return 0
	case 1:
		return 0xffffffff
	case 2:
		return uint32(g.rng.Intn(300))
	}
	return g.rng.Uint32()
}

func (g *G) hash() common.Uint256 {
	var h common.Uint256
	if g.rng.Intn(8) != 0 {
		g.rng.Read(h[:])
	}
	return h
}

func (g *G) chainConfig() *vconfig.ChainConfig {
	n := 1 + g.rng.Intn(7)
	cc := &vconfig.ChainConfig{Version: g.u32(), View: g.u32(), N: uint32(n), C: uint32((n - 1) / 3),
		BlockMsgDelay: time.Duration(g.rng.Int63()), HashMsgDelay: time.Duration(g.rng.Intn(1e9)), PeerHandshakeTimeout: time.Duration(-g.rng.Intn(50)),
		MaxBlockChangeView: g.u32()}
	for i := 0; i < n; i++ {
		cc.Peers = append(cc.Peers, &vconfig.PeerConfig{Index: uint32(i + 1), ID: g.signers[g.rng.Intn(len(g.signers))].key.PubHex()})
	}
	for i := 0; i < g.rng.Intn(12); i++ {
		cc.PosTable = append(cc.PosTable, uint32(1+g.rng.Intn(n)))
	}
	return cc
}

func (g *G) txs(n int) []*types.Transaction {
	var out []*types.Transaction
	for i := 0; i < n; i++ {
		code := make([]byte, 1+g.rng.Intn(60))
		g.rng.Read(code)
		g.nonce++
		if g.rng.Intn(3) == 0 {
			out = append(out, pk.MakeTx(0, g.nonce, code, pk.Single(g.signers[g.rng.Intn(len(g.signers))].key)))
		} else {
			out = append(out, pk.MakeTx(0, g.nonce, code))
		}
	}
	return out
}

// block is built and signed with the same calls as Server.constructBlock.
func (g *G) block(sg *signer, height uint32, prev common.Uint256, txs []*types.Transaction, payload []byte, ts uint32, next common.Address) *types.Block {
	hdr := &types.Header{Version: types.CURR_HEADER_VERSION, ChainID: uint64(g.rng.Intn(4)), PrevBlockHash: prev,
		CrossStateRoot: g.hash(), BlockRoot: g.hash(), Timestamp: ts, Height: height, NextBookkeeper: next,
		ConsensusData: g.rng.Uint64(), ConsensusPayload: payload}
	blk := &types.Block{Header: hdr, Transactions: txs}
	blk.RebuildMerkleRoot()
	h := blk.Hash()
	sig, err := signature.Sign(sg.acct, h[:])
	if err != nil {
		panic(err)
	}
	hdr.Bookkeepers = []keypair.PublicKey{sg.acct.PublicKey}
	hdr.SigData = [][]byte{sig}
	return blk
}

func (g *G) vbftBlock(sg *signer, withEmpty bool) *vbft.Block {
	info := &vconfig.VbftBlockInfo{Proposer: sg.idx, VrfValue: g.bytesN(64), VrfProof: g.bytesN(65), LastConfigBlockNum: g.u32()}
	if g.rng.Intn(4) == 0 {
		info.NewChainConfig = g.chainConfig()
	}
	payload, err := json.Marshal(info)
	if err != nil {
		panic(err)
	}
	height := g.u32()
	prev := g.hash()
	ts := g.u32()
	var next common.Address
	g.rng.Read(next[:])
	sys := g.txs(g.rng.Intn(2))
	user := g.txs(g.rng.Intn(5))
	b := &vbft.Block{Info: info}
	b.Block = g.block(sg, height, prev, append(append([]*types.Transaction{}, sys...), user...), payload, ts, next)
	if withEmpty {
		b.EmptyBlock = g.block(sg, height, prev, sys, payload, ts, next)
	}
	return b
}

func (g *G) proposal(sg *signer, withEmpty bool) *vbft.VerifMsgProposal {
	return &vbft.VerifMsgProposal{Block: g.vbftBlock(sg, withEmpty)}
}

func (g *G) faulty() []*vbft.FaultyReport {
	switch g.rng.Intn(4) {
	case 0:
		return nil
	case 1:
		return []*vbft.FaultyReport{}
	}
	var out []*vbft.FaultyReport
	for i := 0; i < 1+g.rng.Intn(3); i++ {
		out = append(out, &vbft.FaultyReport{FaultyID: g.u32(), FaultyMsgHash: g.hash()})
	}
	return out
}

func (g *G) sigMap() map[uint32][]byte {
	switch g.rng.Intn(4) {
	case 0:
		return nil
	case 1:
		return map[uint32][]byte{}
	}
	m := map[uint32][]byte{}
	for i := 0; i < 1+g.rng.Intn(9); i++ {
		m[g.u32()] = g.bytesN(70)
	}
	return m
}

var kindNames = []string{"BlockProposal", "BlockEndorse", "BlockCommit", "PeerHandshake", "PeerHeartbeat",
	"BlockInfoFetch", "BlockInfoFetchResp", "ProposalFetch", "BlockFetch", "BlockFetchResp"}

// message generates one message of the kind; built says whether a real builder produced it.
func (g *G) message(kind vbft.MsgType) (vbft.ConsensusMsg, string) {
	sg := g.signers[g.rng.Intn(len(g.signers))]
	switch kind {
	case vbft.BlockProposalMessage:
		return g.proposal(sg, g.rng.Intn(3) != 0), "constructBlock-like"
	case vbft.BlockEndorseMessage:
		if g.rng.Intn(2) == 0 {
			p := g.proposal(g.signers[g.rng.Intn(len(g.signers))], true)
			m, err := vbft.VerifMsgConstructEndorse(sg.srv, p, g.rng.Intn(2) == 0)
			if err != nil {
				panic(err)
			}
			return m, "constructEndorseMsg"
		}
		return &vbft.VerifMsgEndorse{Endorser: g.u32(), EndorsedProposer: g.u32(), BlockNum: g.u32(), EndorsedBlockHash: g.hash(),
			EndorseForEmpty: g.rng.Intn(2) == 0, FaultyProposals: g.faulty(), ProposerSig: g.bytesN(70), EndorserSig: g.bytesN(70)}, "fields"
	case vbft.BlockCommitMessage:
		if g.rng.Intn(2) == 0 {
			p := g.proposal(g.signers[g.rng.Intn(len(g.signers))], true)
			forEmpty := g.rng.Intn(2) == 0
			var es []*vbft.VerifMsgEndorse
			for i := 0; i < g.rng.Intn(4); i++ {
				e, err := vbft.VerifMsgConstructEndorse(g.signers[g.rng.Intn(len(g.signers))].srv, p, forEmpty)
				if err != nil {
					panic(err)
				}
				es = append(es, e)
			}
			m, err := vbft.VerifMsgConstructCommit(sg.srv, p, es, forEmpty)
			if err != nil {
				panic(err)
			}
			return m, "constructCommitMsg"
		}
		return &vbft.VerifMsgCommit{Committer: g.u32(), BlockProposer: g.u32(), BlockNum: g.u32(), CommitBlockHash: g.hash(),
			CommitForEmpty: g.rng.Intn(2) == 0, FaultyVerifies: g.faulty(), ProposerSig: g.bytesN(70), EndorsersSig: g.sigMap(), CommitterSig: g.bytesN(70)}, "fields"
	case vbft.PeerHandshakeMessage:
		m := &vbft.VerifMsgHandshake{CommittedBlockNumber: g.u32(), CommittedBlockHash: g.hash(), CommittedBlockLeader: g.u32()}
		if g.rng.Intn(4) != 0 {
			m.ChainConfig = g.chainConfig()
		}
		return m, "fields"
	case vbft.PeerHeartbeatMessage:
		m := &vbft.VerifMsgHeartbeat{CommittedBlockNumber: g.u32(), CommittedBlockHash: g.hash(), CommittedBlockLeader: g.u32(), ChainConfigView: g.u32()}
		n := g.rng.Intn(6)
		if n > 0 || g.rng.Intn(2) == 0 {
			m.Endorsers = [][]byte{}
			m.EndorsersSig = [][]byte{}
		}
		for i := 0; i < n; i++ {
			m.Endorsers = append(m.Endorsers, g.signers[g.rng.Intn(len(g.signers))].key.PubBytes())
			m.EndorsersSig = append(m.EndorsersSig, g.bytesN(70))
		}
		return m, "fields"
	case vbft.BlockInfoFetchMessage:
		m, _ := vbft.VerifMsgConstructBlockInfoFetch(sg.srv, g.u32())
		return m, "constructBlockInfoFetchMsg"
	case vbft.BlockInfoFetchRespMessage:
		var infos []*vbft.BlockInfo_
		for i := 0; i < g.rng.Intn(6); i++ {
			if g.rng.Intn(10) == 0 {
				infos = append(infos, nil)
				continue
			}
			infos = append(infos, &vbft.BlockInfo_{BlockNum: g.u32(), Proposer: g.u32(), Signatures: g.sigMap()})
		}
		m, _ := vbft.VerifMsgConstructBlockInfoFetchResp(sg.srv, infos)
		return m, "constructBlockInfoFetchRespMsg"
	case vbft.ProposalFetchMessage:
		m, _ := vbft.VerifMsgConstructProposalFetch(sg.srv, g.u32(), g.u32())
		return m, "constructProposalFetchMsg"
	case vbft.BlockFetchMessage:
		m, _ := vbft.VerifMsgConstructBlockFetch(sg.srv, g.u32())
		return m, "constructBlockFetchMsg"
	case vbft.BlockFetchRespMessage:
		b := g.vbftBlock(sg, g.rng.Intn(2) == 0)
		m, _ := vbft.VerifMsgConstructBlockFetchResp(sg.srv, g.u32(), b, g.hash())
		return m, "constructBlockFetchRespMsg"
	}
	panic("kind")
}

// ---- signed content --------------------------------------------------------------------------

// content is what a block signature covers: the unsigned header and the transactions (through the
// transactions root). Bookkeepers / SigData are not part of it.
func content(b *types.Block) []byte {
	if b == nil {
		return nil
	}
	h := b.Header
	c := &types.Header{Version: h.Version, ChainID: h.ChainID, PrevBlockHash: h.PrevBlockHash, TransactionsRoot: h.TransactionsRoot,
		CrossStateRoot: h.CrossStateRoot, BlockRoot: h.BlockRoot, Timestamp: h.Timestamp, Height: h.Height,
		ConsensusData: h.ConsensusData, ConsensusPayload: h.ConsensusPayload, NextBookkeeper: h.NextBookkeeper}
	return (&types.Block{Header: c, Transactions: b.Transactions}).ToArray()
}

// fresh decodes an independent copy of a proposal from its wire form.
func fresh(wire []byte) *vbft.VerifMsgProposal {
	m, err := vbft.DeserializeVbftMsg(wire)
	if err != nil {
		panic(err)
	}
	return m.(*vbft.VerifMsgProposal)
}

type blockMut struct {
	name string
	f    func(g *G, b *types.Block, sg *signer) bool // false = not applicable
}

func flip(g *G, b []byte) { b[g.rng.Intn(len(b))] ^= 1 << uint(g.rng.Intn(8)) }

var blockMuts = []blockMut{
	{"chain-id", func(g *G, b *types.Block, _ *signer) bool { b.Header.ChainID++; return true }},
	{"prev-hash", func(g *G, b *types.Block, _ *signer) bool { flip(g, b.Header.PrevBlockHash[:]); return true }},
	{"cross-state-root", func(g *G, b *types.Block, _ *signer) bool { flip(g, b.Header.CrossStateRoot[:]); return true }},
	{"block-root", func(g *G, b *types.Block, _ *signer) bool { flip(g, b.Header.BlockRoot[:]); return true }},
	{"timestamp", func(g *G, b *types.Block, _ *signer) bool { b.Header.Timestamp++; return true }},
	{"height", func(g *G, b *types.Block, _ *signer) bool { b.Header.Height--; return true }},
	{"consensus-data", func(g *G, b *types.Block, _ *signer) bool {
		b.Header.ConsensusData ^= 1 << uint(g.rng.Intn(64))
		return true
	}},
	{"next-bookkeeper", func(g *G, b *types.Block, _ *signer) bool { flip(g, b.Header.NextBookkeeper[:]); return true }},
	{"consensus-payload-proposer", func(g *G, b *types.Block, _ *signer) bool {
		info := &vconfig.VbftBlockInfo{}
		if json.Unmarshal(b.Header.ConsensusPayload, info) != nil {
			return false
		}
		info.Proposer++
		b.Header.ConsensusPayload, _ = json.Marshal(info)
		return true
	}},
	{"consensus-payload-byte", func(g *G, b *types.Block, _ *signer) bool {
		p := append([]byte{}, b.Header.ConsensusPayload...)
		flip(g, p)
		b.Header.ConsensusPayload = p
		return true
	}},
	{"tx-root-only", func(g *G, b *types.Block, _ *signer) bool { flip(g, b.Header.TransactionsRoot[:]); return true }},
	{"tx-appended", func(g *G, b *types.Block, _ *signer) bool {
		b.Transactions = append(append([]*types.Transaction{}, b.Transactions...), g.txs(1)...)
		b.RebuildMerkleRoot()
		return true
	}},
	{"tx-removed", func(g *G, b *types.Block, _ *signer) bool {
		if len(b.Transactions) == 0 {
			return false
		}
		i := g.rng.Intn(len(b.Transactions))
		b.Transactions = append(append([]*types.Transaction{}, b.Transactions[:i]...), b.Transactions[i+1:]...)
		b.RebuildMerkleRoot()
		return true
	}},
	{"tx-replaced", func(g *G, b *types.Block, _ *signer) bool {
		if len(b.Transactions) == 0 {
			return false
		}
		txs := append([]*types.Transaction{}, b.Transactions...)
		txs[g.rng.Intn(len(txs))] = g.txs(1)[0]
		b.Transactions = txs
		b.RebuildMerkleRoot()
		return true
	}},
	{"tx-replaced-root-kept", func(g *G, b *types.Block, _ *signer) bool {
		if len(b.Transactions) == 0 {
			return false
		}
		txs := append([]*types.Transaction{}, b.Transactions...)
		txs[g.rng.Intn(len(txs))] = g.txs(1)[0]
		b.Transactions = txs
		return true
	}},
	{"tx-all-removed-root-kept", func(g *G, b *types.Block, _ *signer) bool {
		// the whole transaction list stripped, header (with its transactions root) and signature untouched
		if len(b.Transactions) == 0 {
			return false
		}
		b.Transactions = nil
		return true
	}},
	{"tx-all-removed", func(g *G, b *types.Block, _ *signer) bool {
		if len(b.Transactions) == 0 {
			return false
		}
		b.Transactions = nil
		b.RebuildMerkleRoot()
		return true
	}},
	{"tx-swapped", func(g *G, b *types.Block, _ *signer) bool {
		if len(b.Transactions) < 2 {
			return false
		}
		txs := append([]*types.Transaction{}, b.Transactions...)
		txs[0], txs[1] = txs[1], txs[0]
		b.Transactions = txs
		b.RebuildMerkleRoot()
		return true
	}},
	{"sig-bit", func(g *G, b *types.Block, _ *signer) bool {
		sd := append([]byte{}, b.Header.SigData[0]...)
		p := 1 + g.rng.Intn(len(sd)-1)
		sd[p] ^= 1 << uint(g.rng.Intn(8))
		b.Header.SigData = [][]byte{sd}
		return true
	}},
	{"sig-by-other-key", func(g *G, b *types.Block, sg *signer) bool {
		o := g.other(sg)
		h := pk.HeaderHashFresh(b.Header)
		sig, _ := signature.Sign(o.acct, h[:])
		b.Header.SigData = [][]byte{sig}
		return true
	}},
}

func (g *G) other(sg *signer) *signer {
	for {
		o := g.signers[g.rng.Intn(len(g.signers))]
		if o != sg {
			return o
		}
	}
}

func TestC44(t *testing.T) {
	r := kit.Start(t, "C44", "exploration")
	defer r.Finish()
	r.Rule("10 VBFT message kinds with boundary-biased random fields (half of endorse/commit and all fetch kinds through the real construct*Msg builders; proposals built and signed with the calls of constructBlock): round trip + re-encoding; " +
		"ConsensusPayload envelope signed like broadcastToAll (production shape, random fields, all header fields non-zero): round trip (both codecs), the real send path msg_pack.NewConsensus -> WriteMessage -> ReadMessage (field-wise comparison + Verify at the receiver; also NewConsensusDataReq / NewInv for consensus hashes), 12 single-field mutants and foreign keys, each mutant applied to a freshly decoded payload and also to a payload value that has already verified once (same object, struct copy, NewConsensus copy); " +
		"block proposals: 20 single-field mutants (incl. the whole transaction list stripped with the root kept / rebuilt) × {block, empty block} sent through the wire form, foreign keys, transplanted signatures; distinct = (kind, builder, shape of optional parts) / (mutant name, part, outcome)")
	r.Assume("values the encodings cannot represent by construction are excluded: Block.Info differing from the header's consensus payload, transaction roots not matching the transactions, duplicate transactions, non-UTF-8 peer ids")
	r.Assume("ConsensusPayload.PeerId and the cached hash are local fields that are never encoded; they are not content")
	r.Assume("the content bound by a block signature is the unsigned header plus the transactions; Bookkeepers/SigData lists are outside it")
	r.Assume("a mutated empty block that the decoder silently drops leaves a proposal whose remaining signature still covers exactly its block: counted, not a violation")
	r.Assume("signature forgery / hash collisions are negligible; ECDSA (r, n-s) malleability is not a content or key change and is not tested")

	g := &G{rng: r.Rand("gen")}
	krng := r.Rand("keys")
	for i := 0; i < 7; i++ {
		g.signers = append(g.signers, newSigner(krng, uint32(i+1)))
	}

	// ---------------- 1. round trip of every kind
	per := r.N(600, 10000)
	for kind := vbft.MsgType(0); kind <= vbft.BlockFetchRespMessage; kind++ {
		name := kindNames[kind]
		for i := 0; i < per; i++ {
			if kind == vbft.BlockProposalMessage || kind == vbft.BlockFetchRespMessage || kind == vbft.BlockEndorseMessage || kind == vbft.BlockCommitMessage {
				if i >= per*2/3 {
					break // block-bearing kinds are slower to build
				}
			}
			var m0 vbft.ConsensusMsg
			var how string
			m0, how = g.message(kind)
			r.Eval(1)
			b0, err := vbft.SerializeVbftMsg(m0)
			if err != nil {
				r.Violation("serialize-failed:"+name, err.Error(), normOf(m0))
				continue
			}
			var m1 vbft.ConsensusMsg
			if p := kit.Catch(func() { m1, err = vbft.DeserializeVbftMsg(b0) }); p != nil {
				r.Violation("decode-panic-on-honest:"+name, fmt.Sprint(p), kit.Hex(b0))
				continue
			}
			if err != nil {
				r.Violation("honest-message-refused:"+name, err.Error(), kit.Hex(b0))
				continue
			}
			nf := normOf(m0)
			shape := shapeOf(nf)
			r.Distinct("rt", name, how, shape)
			if m1.Type() != kind || reflect.TypeOf(m1) != reflect.TypeOf(m0) {
				r.Violation("kind-changed:"+name, fmt.Sprintf("decoded as %T type %d", m1, m1.Type()), kit.Hex(b0))
				continue
			}
			if !sameNorm(m0, m1) {
				r.Violation("roundtrip-differs:"+name, diffNorm(nf, normOf(m1)), kit.Hex(b0))
				continue
			}
			if m1.GetBlockNum() != m0.GetBlockNum() {
				r.Violation("blocknum-differs:"+name, "", kit.Hex(b0))
				continue
			}
			b1, err := vbft.SerializeVbftMsg(m1)
			if err != nil || !bytes.Equal(b0, b1) {
				r.Violation("reencode-differs:"+name, fmt.Sprintf("err=%v", err), map[string]string{"first": kit.Hex(b0), "second": kit.Hex(b1)})
				continue
			}
			// the declared length of the envelope is the payload length
			env := &vbft.ConsensusMsgPayload{}
			if json.Unmarshal(b0, env) != nil || int(env.Len) != len(env.Payload) || env.Type != kind {
				r.Violation("envelope-inconsistent:"+name, fmt.Sprintf("len=%d payload=%d type=%d", env.Len, len(env.Payload), env.Type), kit.Hex(b0))
				continue
			}
			r.Count("roundtrip_ok:"+name, 1)
			r.Count("roundtrip_ok", 1)
			if i == 1 && kind%3 == 1 {
				r.Sample(map[string]interface{}{"kind": name, "built_by": how, "wire": string(b0)})
			}
		}
		r.Require("roundtrip_ok:"+name, per/2)
	}

	// ---------------- 2. ConsensusPayload envelope
	np := r.N(600, 10000)
	for i := 0; i < np; i++ {
		sg := g.signers[g.rng.Intn(len(g.signers))]
		kind := vbft.MsgType(g.rng.Intn(10))
		if kind == vbft.BlockProposalMessage || kind == vbft.BlockFetchRespMessage {
			kind = vbft.BlockEndorseMessage
		}
		inner, _ := g.message(kind)
		data, _ := vbft.SerializeVbftMsg(inner)
		if g.rng.Intn(10) == 0 {
			data = g.bytesN(300)
		}
		p0 := &p2ptypes.ConsensusPayload{Version: g.u32(), PrevHash: g.hash(), Height: g.u32(), BookkeeperIndex: uint16(g.rng.Intn(65536)),
			Timestamp: g.u32(), Data: data, Owner: sg.acct.PublicKey}
		if i%2 == 0 {
			// exactly what broadcastToAll sets
			p0 = &p2ptypes.ConsensusPayload{Data: data, Owner: sg.acct.PublicKey}
		} else if i%4 == 1 {
			// every header field different from its zero value
			p0.Version |= 1 << uint(g.rng.Intn(32))
			p0.PrevHash[g.rng.Intn(32)] |= 1 << uint(g.rng.Intn(8))
			p0.Height |= 1 << uint(g.rng.Intn(32))
			p0.BookkeeperIndex |= 1 << uint(g.rng.Intn(16))
			p0.Timestamp |= 1 << uint(g.rng.Intn(32))
			if len(p0.Data) == 0 {
				p0.Data = []byte{byte(1 + g.rng.Intn(255))}
			}
		}
		buf := new(bytes.Buffer)
		if err := p0.SerializeUnsigned(buf); err != nil {
			r.Violation("payload-serialize-failed", err.Error(), nil)
			continue
		}
		p0.Signature, _ = signature.Sign(sg.acct, buf.Bytes())
		r.Eval(1)
		if err := p0.Verify(); err != nil {
			r.Violation("honest-payload-rejected", err.Error(), kit.Hex(p0.ToArray()))
			continue
		}
		// round trip through both codecs
		wire := p0.ToArray()
		sink := common.NewZeroCopySink(nil)
		p0.Serialization(sink)
		if !bytes.Equal(wire, sink.Bytes()) {
			r.Violation("payload-codecs-differ", "Serialize vs Serialization", kit.Hex(wire))
			continue
		}
		dec := func(w []byte, zero bool) (*p2ptypes.ConsensusPayload, error) {
			q := &p2ptypes.ConsensusPayload{}
			if zero {
				return q, q.Deserialization(common.NewZeroCopySource(w))
			}
			return q, q.Deserialize(bytes.NewReader(w))
		}
		ok := true
		for _, zero := range []bool{true, false} {
			q, err := dec(wire, zero)
			if err != nil {
				r.Violation("honest-payload-undecodable", err.Error(), kit.Hex(wire))
				ok = false
				break
			}
			if !sameNorm(p0, q) || !bytes.Equal(q.ToArray(), wire) {
				r.Violation("payload-roundtrip-differs", diffNorm(normOf(p0), normOf(q)), kit.Hex(wire))
				ok = false
				break
			}
			if err := q.Verify(); err != nil {
				r.Violation("honest-payload-rejected-after-decode", err.Error(), kit.Hex(wire))
				ok = false
				break
			}
		}
		if !ok {
			continue
		}
		// the real send path: msg_pack.NewConsensus -> WriteMessage (frame) -> ReadMessage
		{
			shape := []string{"production-shape", "all-fields-nonzero", "production-shape", "random-fields"}[i%4]
			r.Eval(1)
			frame := common.NewZeroCopySink(nil)
			snd := *p0
			snd.PeerId = g.rng.Uint64() | 1 // local field of the sender, never encoded
			var rm p2ptypes.Message
			var rerr error
			if p := kit.Catch(func() {
				if rerr = p2ptypes.WriteMessage(frame, msgpack.NewConsensus(&snd)); rerr == nil {
					rm, _, rerr = p2ptypes.ReadMessage(bytes.NewReader(frame.Bytes()))
				}
			}); p != nil {
				r.Violation("send-path-panic:Consensus", fmt.Sprint(p), kit.Hex(wire))
				continue
			}
			if rerr != nil {
				r.Violation("send-path-refused:Consensus", rerr.Error(), kit.Hex(wire))
				continue
			}
			rc, isCons := rm.(*p2ptypes.Consensus)
			if !isCons {
				r.Violation("send-path-kind-changed:Consensus", fmt.Sprintf("received %T", rm), kit.Hex(wire))
				continue
			}
			sent := *p0
			if !sameNorm(&sent, &rc.Cons) {
				r.Violation("send-path-payload-differs:"+shape, "payload sent through NewConsensus/WriteMessage/ReadMessage arrives changed: "+diffNorm(normOf(&sent), normOf(&rc.Cons)),
					map[string]string{"signed_payload": kit.Hex(wire), "frame": kit.Hex(frame.Bytes())})
				continue
			}
			if err := rc.Cons.Verify(); err != nil {
				r.Violation("send-path-signature-rejected:"+shape, "correctly signed payload fails Verify at the receiver: "+err.Error(),
					map[string]string{"signed_payload": kit.Hex(wire), "frame": kit.Hex(frame.Bytes())})
				continue
			}
			r.Count("send_path_ok", 1)
			r.Count("send_path_ok:"+shape, 1)
			r.Distinct("send-path", shape, kindNames[kind])
			// the other consensus-related constructors: data request and inventory for a payload hash
			h := g.hash()
			f2 := common.NewZeroCopySink(nil)
			if err := p2ptypes.WriteMessage(f2, msgpack.NewConsensusDataReq(h)); err == nil {
				m2, _, err := p2ptypes.ReadMessage(bytes.NewReader(f2.Bytes()))
				dr, ok2 := m2.(*p2ptypes.DataReq)
				if err != nil || !ok2 || dr.Hash != h || dr.DataType != common.CONSENSUS {
					r.Violation("send-path-differs:ConsensusDataReq", fmt.Sprintf("err=%v got %+v", err, m2), kit.Hex(f2.Bytes()))
				} else {
					r.Count("send_path_ok:ConsensusDataReq", 1)
				}
			} else {
				r.Violation("send-path-refused:ConsensusDataReq", err.Error(), nil)
			}
			hs := make([]common.Uint256, 1+g.rng.Intn(5))
			for k := range hs {
				hs[k] = g.hash()
			}
			f3 := common.NewZeroCopySink(nil)
			if err := p2ptypes.WriteMessage(f3, msgpack.NewInv(msgpack.NewInvPayload(common.CONSENSUS, hs))); err == nil {
				m3, _, err := p2ptypes.ReadMessage(bytes.NewReader(f3.Bytes()))
				iv, ok3 := m3.(*p2ptypes.Inv)
				if err != nil || !ok3 || iv.P.InvType != common.CONSENSUS || !sameNorm(iv.P.Blk, hs) {
					r.Violation("send-path-differs:ConsensusInv", fmt.Sprintf("err=%v got %+v", err, m3), kit.Hex(f3.Bytes()))
				} else {
					r.Count("send_path_ok:ConsensusInv", 1)
				}
			} else {
				r.Violation("send-path-refused:ConsensusInv", err.Error(), nil)
			}
		}
		r.Count("payload_roundtrip_ok", 1)
		r.Count("payload_honest_verified", 1)
		r.Distinct("payload", kindNames[kind], i%2, len(data) == 0)
		// mutants
		type pm struct {
			name string
			f    func(q *p2ptypes.ConsensusPayload) bool
		}
		o := g.other(sg)
		muts := []pm{
			{"version", func(q *p2ptypes.ConsensusPayload) bool { q.Version ^= 1 << uint(g.rng.Intn(32)); return true }},
			{"prev-hash", func(q *p2ptypes.ConsensusPayload) bool { flip(g, q.PrevHash[:]); return true }},
			{"height", func(q *p2ptypes.ConsensusPayload) bool { q.Height++; return true }},
			{"bookkeeper-index", func(q *p2ptypes.ConsensusPayload) bool { q.BookkeeperIndex++; return true }},
			{"timestamp", func(q *p2ptypes.ConsensusPayload) bool { q.Timestamp--; return true }},
			{"data-bit", func(q *p2ptypes.ConsensusPayload) bool {
				if len(q.Data) == 0 {
					return false
				}
				d := append([]byte{}, q.Data...)
				flip(g, d)
				q.Data = d
				return true
			}},
			{"data-extended", func(q *p2ptypes.ConsensusPayload) bool { q.Data = append(append([]byte{}, q.Data...), 0); return true }},
			{"data-truncated", func(q *p2ptypes.ConsensusPayload) bool {
				if len(q.Data) == 0 {
					return false
				}
				q.Data = append([]byte{}, q.Data[:len(q.Data)-1]...)
				return true
			}},
			{"owner-other-key", func(q *p2ptypes.ConsensusPayload) bool { q.Owner = o.acct.PublicKey; return true }},
			{"signature-by-other-key", func(q *p2ptypes.ConsensusPayload) bool {
				b := new(bytes.Buffer)
				q.SerializeUnsigned(b)
				q.Signature, _ = signature.Sign(o.acct, b.Bytes())
				return true
			}},
			{"signature-of-other-content", func(q *p2ptypes.ConsensusPayload) bool {
				b := new(bytes.Buffer)
				q.SerializeUnsigned(b)
				q.Signature, _ = signature.Sign(sg.acct, append(b.Bytes(), 1))
				return true
			}},
			{"signature-bit", func(q *p2ptypes.ConsensusPayload) bool {
				sd := append([]byte{}, q.Signature...)
				p := 1 + g.rng.Intn(len(sd)-1)
				sd[p] ^= 1 << uint(g.rng.Intn(8))
				q.Signature = sd
				return true
			}},
		}
		for mi, mu := range muts {
			q, _ := dec(wire, true)
			if !mu.f(q) {
				continue
			}
			w2 := q.ToArray()
			q2, err := dec(w2, mi%2 == 0)
			r.Eval(1)
			if err != nil {
				r.Count("payload_mutant_refused_at_decode", 1)
				continue
			}
			if q2.Verify() == nil {
				r.Violation("payload-mutant-accepted:"+mu.name, "signature verified although "+mu.name+" changed after signing", map[string]string{"signed": kit.Hex(wire), "mutant": kit.Hex(w2)})
				continue
			}
			r.Count("payload_mutant_rejected", 1)
			r.Count("payload_mutant_rejected:"+mu.name, 1)
			r.Distinct("payload-mutant", mu.name, i%2)
			// the same mutation applied to a payload value that has ALREADY verified once: on the
			// object itself, on a struct copy of it, and on the copy msg_pack.NewConsensus makes
			for _, how := range []string{"same-object", "struct-copy", "NewConsensus-copy"} {
				v0, _ := dec(wire, true)
				if v0.Verify() != nil {
					break // reported above as honest-payload-rejected
				}
				target := v0
				switch how {
				case "struct-copy":
					cp := *v0
					target = &cp
				case "NewConsensus-copy":
					target = &msgpack.NewConsensus(v0).(*p2ptypes.Consensus).Cons
				}
				if !mu.f(target) {
					continue
				}
				r.Eval(1)
				if target.Verify() == nil {
					r.Violation("payload-mutant-accepted-after-earlier-verify:"+how+":"+mu.name,
						"a payload that had verified was changed ("+mu.name+", "+how+") and still verifies: the signature no longer binds the content",
						map[string]string{"signed": kit.Hex(wire), "mutant": kit.Hex(target.ToArray())})
					continue
				}
				r.Count("payload_mutant_rejected_after_earlier_verify", 1)
				r.Count("payload_mutant_rejected_after_earlier_verify:"+how, 1)
				r.Distinct("payload-mutant-after-verify", mu.name, how)
			}
		}
	}
	r.Require("payload_mutant_rejected_after_earlier_verify:same-object", np*5)
	r.Require("payload_mutant_rejected_after_earlier_verify:struct-copy", np*5)
	r.Require("payload_mutant_rejected_after_earlier_verify:NewConsensus-copy", np*5)
	r.Require("payload_honest_verified", np/2)
	r.Require("send_path_ok:all-fields-nonzero", np/5)
	r.Require("send_path_ok:production-shape", np/3)
	r.Require("send_path_ok:random-fields", np/5)
	r.Require("send_path_ok:ConsensusDataReq", np/2)
	r.Require("send_path_ok:ConsensusInv", np/2)
	r.Require("payload_mutant_rejected", np*5)
	for _, n := range []string{"version", "prev-hash", "height", "bookkeeper-index", "timestamp", "data-bit", "owner-other-key", "signature-by-other-key"} {
		r.Require("payload_mutant_rejected:"+n, np/4)
	}

	// ---------------- 3. block proposals, endorse, commit
	nprop := r.N(300, 5000)
	var prevWire []byte
	for i := 0; i < nprop; i++ {
		sg := g.signers[g.rng.Intn(len(g.signers))]
		p0 := g.proposal(sg, i%4 != 0)
		wire, err := vbft.SerializeVbftMsg(p0)
		if err != nil {
			r.Violation("serialize-failed:BlockProposal", err.Error(), nil)
			continue
		}
		r.Eval(1)
		if err := p0.Verify(sg.acct.PublicKey); err != nil {
			r.Violation("honest-proposal-rejected", err.Error(), kit.Hex(wire))
			continue
		}
		pd := fresh(wire)
		if err := pd.Verify(sg.acct.PublicKey); err != nil {
			r.Violation("honest-proposal-rejected-after-decode", err.Error(), kit.Hex(wire))
			continue
		}
		r.Count("proposal_honest_verified", 1)
		{
			// observation only (not judged): types.Header caches its hash, so a header changed in
			// memory after it was hashed keeps the old hash until it is re-parsed
			pm := fresh(wire)
			if pm.Verify(sg.acct.PublicKey) == nil {
				pm.Block.Block.Header.Timestamp++
				if pm.Verify(sg.acct.PublicKey) == nil {
					r.Count("observed_proposal_changed_in_memory_after_hashing_still_verifies", 1)
				} else {
					r.Count("observed_proposal_changed_in_memory_after_hashing_rejected", 1)
				}
			}
		}
		o := g.other(sg)
		if fresh(wire).Verify(o.acct.PublicKey) == nil {
			r.Violation("proposal-verifies-under-other-key", "", kit.Hex(wire))
			continue
		}
		r.Count("proposal_other_key_rejected", 1)
		signedBlock := content(pd.Block.Block)
		signedEmpty := content(pd.Block.EmptyBlock)
		judge := func(name, part string, q *vbft.VerifMsgProposal) {
			r.Eval(1)
			w2, err := vbft.SerializeVbftMsg(q)
			if err != nil {
				r.Count("proposal_mutant_unserializable", 1)
				return
			}
			var m2 vbft.ConsensusMsg
			if p := kit.Catch(func() { m2, err = vbft.DeserializeVbftMsg(w2) }); p != nil {
				r.Count("proposal_mutant_decode_panic_observed", 1)
				return
			}
			if err != nil {
				r.Count("proposal_mutant_refused_at_decode", 1)
				r.Count("proposal_mutant_refused_or_rejected:"+name, 1)
				r.Distinct("prop-mutant", name, part, "decode-refused")
				return
			}
			q2 := m2.(*vbft.VerifMsgProposal)
			if q2.Verify(sg.acct.PublicKey) != nil {
				r.Count("proposal_mutant_rejected", 1)
				r.Count("proposal_mutant_rejected:"+name, 1)
				r.Count("proposal_mutant_refused_or_rejected:"+name, 1)
				r.Distinct("prop-mutant", name, part, "verify-refused")
				return
			}
			// accepted: only sound if what is left is exactly what was signed
			if bytes.Equal(content(q2.Block.Block), signedBlock) && (q2.Block.EmptyBlock == nil || bytes.Equal(content(q2.Block.EmptyBlock), signedEmpty)) {
				if q2.Block.EmptyBlock == nil && pd.Block.EmptyBlock != nil {
					r.Count("observed_mutated_empty_block_dropped_by_decoder", 1)
				} else {
					r.Count("observed_mutant_outside_signed_content_accepted", 1)
				}
				return
			}
			r.Violation("proposal-mutant-accepted:"+part+":"+name, "proposal signature verified although "+name+" of the "+part+" changed after signing",
				map[string]string{"signed": kit.Hex(wire), "mutant": kit.Hex(w2)})
		}
		for _, mu := range blockMuts {
			q := fresh(wire)
			if mu.f(g, q.Block.Block, sg) {
				judge(mu.name, "block", q)
			}
			if pd.Block.EmptyBlock != nil {
				q = fresh(wire)
				if mu.f(g, q.Block.EmptyBlock, sg) {
					judge(mu.name, "empty-block", q)
				}
			}
		}
		if pd.Block.EmptyBlock != nil {
			// the two signatures exchanged
			q := fresh(wire)
			q.Block.Block.Header.SigData, q.Block.EmptyBlock.Header.SigData = q.Block.EmptyBlock.Header.SigData, q.Block.Block.Header.SigData
			if !bytes.Equal(signedBlock, signedEmpty) {
				judge("sigs-exchanged", "block", q)
			}
		}
		if prevWire != nil {
			// signature of another proposal of possibly the same signer transplanted
			q := fresh(wire)
			q.Block.Block.Header.SigData = fresh(prevWire).Block.Block.Header.SigData
			judge("sig-transplanted", "block", q)
		}
		prevWire = wire

		// endorse / commit made by the real builders over this proposal
		for _, forEmpty := range []bool{false, true} {
			if forEmpty && pd.Block.EmptyBlock == nil {
				continue
			}
			e, err := vbft.VerifMsgConstructEndorse(o.srv, pd, forEmpty)
			if err != nil {
				r.Violation("construct-endorse-failed", err.Error(), nil)
				continue
			}
			c, err := vbft.VerifMsgConstructCommit(o.srv, pd, []*vbft.VerifMsgEndorse{e}, forEmpty)
			if err != nil {
				r.Violation("construct-commit-failed", err.Error(), nil)
				continue
			}
			for _, m := range []vbft.ConsensusMsg{e, c} {
				w, _ := vbft.SerializeVbftMsg(m)
				m2, err := vbft.DeserializeVbftMsg(w)
				r.Eval(1)
				if err != nil {
					r.Violation("honest-message-refused:"+kindNames[m.Type()], err.Error(), kit.Hex(w))
					continue
				}
				if err := m2.Verify(o.acct.PublicKey); err != nil {
					r.Violation("honest-vote-rejected:"+kindNames[m.Type()], err.Error(), kit.Hex(w))
					continue
				}
				if m2.Verify(sg.acct.PublicKey) == nil {
					r.Violation("vote-verifies-under-other-key:"+kindNames[m.Type()], "", kit.Hex(w))
					continue
				}
				// the voted hash is the signed content of a vote
				switch x := m2.(type) {
				case *vbft.VerifMsgEndorse:
					flip(g, x.EndorsedBlockHash[:])
				case *vbft.VerifMsgCommit:
					flip(g, x.CommitBlockHash[:])
				}
				w3, _ := vbft.SerializeVbftMsg(m2)
				m3, err := vbft.DeserializeVbftMsg(w3)
				if err == nil && m3.Verify(o.acct.PublicKey) == nil {
					r.Violation("vote-mutant-accepted:"+kindNames[m.Type()], "vote signature verified for another block hash", kit.Hex(w3))
					continue
				}
				r.Count("vote_binding_ok", 1)
				r.Distinct("vote", kindNames[m.Type()], forEmpty)
			}
		}
	}
	r.Require("proposal_honest_verified", nprop/2)
	r.Require("proposal_other_key_rejected", nprop/2)
	r.Require("proposal_mutant_rejected", nprop*8)
	r.Require("proposal_mutant_refused_at_decode", nprop/2)
	r.Require("vote_binding_ok", nprop)
	r.Require("proposal_mutant_refused_or_rejected:tx-all-removed-root-kept", nprop/2)
	r.Require("proposal_mutant_refused_or_rejected:tx-all-removed", nprop/2)
	for _, n := range []string{"chain-id", "prev-hash", "cross-state-root", "block-root", "timestamp", "height", "consensus-data", "next-bookkeeper", "consensus-payload-proposer", "tx-appended", "sig-by-other-key", "sig-bit"} {
		r.Require("proposal_mutant_rejected:"+n, nprop/3)
	}
}

// shapeOf summarises which optional parts of a message are present (nil / empty / size class).
func shapeOf(n interface{}) string {
	var parts []string
	var walk func(path string, v interface{}, depth int)
	walk = func(path string, v interface{}, depth int) {
		switch x := v.(type) {
		case nil:
			parts = append(parts, path+"=nil")
		case map[string]interface{}:
			if depth > 2 {
				return
			}
			keys := make([]string, 0, len(x))
			for k := range x {
				keys = append(keys, k)
			}
			sort.Strings(keys)
			for _, k := range keys {
				walk(path+"."+k, x[k], depth+1)
			}
		case []interface{}:
			c := len(x)
			if c > 3 {
				c = 3
			}
			parts = append(parts, fmt.Sprintf("%s#%d", path, c))
		case string:
			if len(x) <= 2 {
				parts = append(parts, path+"=empty")
			}
		case bool:
			parts = append(parts, fmt.Sprintf("%s=%v", path, x))
		}
	}
	walk("", n, 0)
	return fmt.Sprint(parts)
}

func diffNorm(a, b interface{}) string {
	ja, _ := json.Marshal(a)
	jb, _ := json.Marshal(b)
	sa, sb := string(ja), string(jb)
	i := 0
	for i < len(sa) && i < len(sb) && sa[i] == sb[i] {
		i++
	}
	lo := i - 60
	if lo < 0 {
		lo = 0
	}
	cut := func(s string) string {
		hi := i + 80
		if hi > len(s) {
			hi = len(s)
		}
		if lo > len(s) {
			return ""
		}
		return s[lo:hi]
	}
	return fmt.Sprintf("first difference at %d: sent …%s… decoded …%s…", i, cut(sa), cut(sb))
}
