// Package nat is the direct driver for native contracts: a NativeService on a CacheDB over an
// OverlayDB over an in-memory LevelDB, replicating exactly what HandleInvokeTransaction does
// (cache.Reset, Invoke, Commit only on success). It lets a check choose block height / timestamp
// freely and make 10^4-10^5 contract calls per minute. All real contracts are registered by
// importing native/service (the cgo BLS binding is replaced by a fail-closed stub, so the harmony
// router cannot be exercised).
package nat

import (
	"bytes"
	"crypto/sha256"
	"encoding/hex"
	"fmt"
	"sort"

	"github.com/polynetwork/poly/common"
	"github.com/polynetwork/poly/common/config"
	"github.com/polynetwork/poly/core/ledger"
	scommon "github.com/polynetwork/poly/core/store/common"
	"github.com/polynetwork/poly/core/store/leveldbstore"
	"github.com/polynetwork/poly/core/store/overlaydb"
	"github.com/polynetwork/poly/core/types"
	"github.com/polynetwork/poly/native"
	"github.com/polynetwork/poly/native/event"
	_ "github.com/polynetwork/poly/native/service"
	"github.com/polynetwork/poly/native/service/utils"
	"github.com/polynetwork/poly/native/storage"

	"verifharness/kit/pk"
)

// Env is one contract-state universe.
type Env struct {
	Store   *leveldbstore.LevelDBStore
	Overlay *overlaydb.OverlayDB
	Cache   *storage.CacheDB
	ChainID uint64
	Height  uint32
	Time    uint32
	Nonce   uint32
	// Validators is the consensus validator set installed by InitGovernance (as given).
	Validators []*pk.Key
	Log        []*CallRecord // every call made through this Env (when Record is true)
	Record     bool
}

// CallRecord is what one contract call did, observed at the NativeService boundary.
type CallRecord struct {
	Contract    common.Address
	Method      string
	Args        []byte
	Signers     []common.Address
	Height      uint32
	Time        uint32
	Ok          bool
	Err         string
	Result      []byte
	Notify      []*event.NotifyEventInfo
	CrossHashes []common.Uint256
	Tx          *types.Transaction
	Panic       interface{}
	// WriteSet is the transaction-level write buffer after the call (keys include the data-entry
	// prefix byte; an empty value is a deletion), in key order. Filled for failed calls too
	// (what the call had written before it failed and was discarded).
	WriteSet []KV
}

// ExecHook, when set, replaces the single execution of a call: it may invoke run() several times
// (every invocation starts from the same committed state, nothing is committed in between) and
// returns the execution whose effects are then committed. Used by the determinism monitor (C16).
var ExecHook func(e *Env, run func() (*CallRecord, *native.NativeService)) (*CallRecord, *native.NativeService)

// BeforeCall, when set, is told which contract method is about to run.
var BeforeCall func(contract common.Address, method string)

// Observer, when set, sees every finished call (after commit / discard). Used by cross-cutting
// monitors (C17).
var Observer func(e *Env, rec *CallRecord)

// New creates an empty universe at the given network id (sets config.DefConfig.P2PNode.NetworkId,
// which native code reads for main-net-only rules).
func New(netID uint32) *Env {
	st, err := leveldbstore.NewMemLevelDBStore()
	if err != nil {
		panic(err)
	}
	config.DefConfig.P2PNode.NetworkId = netID
	// side_chain_manager's encoders consult ledger.DefLedger (nil here) unless this fork check is
	// off; off = the post-fork encoding (ExtraInfo always written), which is what production uses
	// above config.EXTRA_INFO_HEIGHT.
	if ledger.DefLedger == nil {
		config.EXTRA_INFO_HEIGHT_FORK_CHECK = false
	}
	ov := overlaydb.NewOverlayDB(st)
	return &Env{Store: st, Overlay: ov, Cache: storage.NewCacheDB(ov), ChainID: config.GetChainIdByNetId(netID), Height: 1, Time: 1600000000}
}

// InitGovernance runs node_manager.InitConfig with the given validators (as the genesis block does).
func (e *Env) InitGovernance(validators []*pk.Key) error {
	vb := pk.SetConfig(config.DefConfig.P2PNode.NetworkId, validators)
	sink := common.NewZeroCopySink(nil)
	vb.Serialization(sink)
	h := e.Height
	e.Height = 0
	rec := e.Call(utils.NodeManagerContractAddress, "initConfig", sink.Bytes())
	e.Height = h
	if !rec.Ok {
		return fmt.Errorf("initConfig: %s", rec.Err)
	}
	e.Validators = validators
	return nil
}

// Call makes one transaction-like call signed by the given signers and returns what happened.
// State changes are kept iff the call succeeded (transaction-level atomicity of the real path).
func (e *Env) Call(contract common.Address, method string, args []byte, signers ...pk.Signer) *CallRecord {
	e.Nonce++
	tx := pk.MakeTx(e.ChainID, e.Nonce, pk.InvokeCode(contract, method, args), signers...)
	return e.CallTx(tx, contract, method, args)
}

// CallAs is Call with bare signer addresses (no real signatures): the tx carries SignedAddr only.
// Used where thousands of calls make real ECDSA signing the bottleneck; CheckWitness reads the
// same address list either way.
func (e *Env) CallAs(contract common.Address, method string, args []byte, addrs ...common.Address) *CallRecord {
	e.Nonce++
	tx := pk.MakeTx(e.ChainID, e.Nonce, pk.InvokeCode(contract, method, args))
	tx.SignedAddr = append([]common.Address{}, addrs...)
	return e.CallTx(tx, contract, method, args)
}

// CallTx executes a prepared transaction the way HandleInvokeTransaction does.
func (e *Env) CallTx(tx *types.Transaction, contract common.Address, method string, args []byte) *CallRecord {
	code := pk.InvokeCode(contract, method, args)
	var blockHash common.Uint256
	copy(blockHash[:], []byte(fmt.Sprintf("blk%029d", e.Height)))
	run := func() (*CallRecord, *native.NativeService) {
		rec := &CallRecord{Contract: contract, Method: method, Args: args, Height: e.Height, Time: e.Time, Tx: tx}
		rec.Signers, _ = tx.GetSignatureAddresses()
		e.Cache.Reset()
		svc, err := native.NewNativeService(e.Cache, tx, e.Time, e.Height, blockHash, e.ChainID, code, false)
		if err != nil {
			rec.Err = err.Error()
			return rec, nil
		}
		func() {
			defer func() {
				if p := recover(); p != nil {
					rec.Panic = p
					rec.Err = fmt.Sprintf("PANIC: %v", p)
				}
			}()
			res, err := svc.Invoke()
			if err != nil {
				rec.Err = err.Error()
				return
			}
			if b, ok := res.([]byte); ok {
				rec.Result = b
			}
			rec.Ok = true
		}()
		e.Cache.VerifWriteSet().ForEach(func(k, v []byte) {
			rec.WriteSet = append(rec.WriteSet, KV{append([]byte{}, k...), append([]byte{}, v...)})
		})
		if rec.Ok {
			rec.Notify = svc.GetNotify()
			rec.CrossHashes = svc.GetCrossHashes()
		}
		return rec, svc
	}
	if BeforeCall != nil {
		BeforeCall(contract, method)
	}
	var rec *CallRecord
	var svc *native.NativeService
	if ExecHook != nil {
		rec, svc = ExecHook(e, run)
	} else {
		rec, svc = run()
	}
	if rec.Ok && svc != nil {
		svc.GetCacheDB().Commit()
	} else {
		e.Cache.Reset()
	}
	e.log(rec)
	if Observer != nil {
		Observer(e, rec)
	}
	return rec
}

func (e *Env) log(rec *CallRecord) {
	if e.Record {
		e.Log = append(e.Log, rec)
	}
}

// Service returns a NativeService over the committed state for read-only use of exported getters
// (e.g. node_manager.GetPeerPoolMap). Writes made through it are discarded by the next Call.
func (e *Env) Service() *native.NativeService {
	e.Cache.Reset()
	tx := pk.MakeTx(e.ChainID, 0, pk.InvokeCode(common.ADDRESS_EMPTY, "", nil))
	svc, err := native.NewNativeService(e.Cache, tx, e.Time, e.Height, common.Uint256{}, e.ChainID, nil, false)
	if err != nil {
		panic(err)
	}
	return svc
}

// ServiceWith is Service with a chosen tx/input (for calling exported handler functions directly).
func (e *Env) ServiceWith(tx *types.Transaction, input []byte) *native.NativeService {
	e.Cache.Reset()
	svc, err := native.NewNativeService(e.Cache, tx, e.Time, e.Height, common.Uint256{}, e.ChainID, input, false)
	if err != nil {
		panic(err)
	}
	return svc
}

// KV is one storage entry (key without the ST_STORAGE prefix byte).
type KV struct{ K, V []byte }

// Dump lists the committed contract storage under a key prefix (e.g. a contract address), sorted.
func (e *Env) Dump(prefix []byte) []KV {
	e.Cache.Reset()
	p := append([]byte{byte(scommon.ST_STORAGE)}, prefix...)
	it := e.Overlay.NewIterator(p)
	defer it.Release()
	var out []KV
	for ok := it.First(); ok; ok = it.Next() {
		out = append(out, KV{append([]byte{}, it.Key()[1:]...), append([]byte{}, it.Value()...)})
	}
	sort.Slice(out, func(i, j int) bool { return bytes.Compare(out[i].K, out[j].K) < 0 })
	return out
}

// Digest hashes the committed contract storage under prefix.
func (e *Env) Digest(prefix []byte) string {
	h := sha256.New()
	for _, kv := range e.Dump(prefix) {
		fmt.Fprintf(h, "%d:%x=%d:%x;", len(kv.K), kv.K, len(kv.V), kv.V)
	}
	return hex.EncodeToString(h.Sum(nil)[:16])
}

// Diff reports keys that differ between two dumps (for replay files).
func Diff(a, b []KV) []string {
	ma := map[string]string{}
	for _, kv := range a {
		ma[string(kv.K)] = string(kv.V)
	}
	var out []string
	for _, kv := range b {
		if v, ok := ma[string(kv.K)]; !ok {
			out = append(out, fmt.Sprintf("+%x", kv.K))
		} else if v != string(kv.V) {
			out = append(out, fmt.Sprintf("~%x", kv.K))
		}
		delete(ma, string(kv.K))
	}
	for k := range ma {
		out = append(out, fmt.Sprintf("-%x", []byte(k)))
	}
	sort.Strings(out)
	return out
}

// GetRaw reads a committed raw storage value (key without prefix); nil if absent.
func (e *Env) GetRaw(key []byte) []byte {
	e.Cache.Reset()
	v, _ := e.Cache.Get(key)
	return v
}

// Operator is the current consensus-operator signer for the given validator keys.
func Operator(validators []*pk.Key) pk.Signer {
	return pk.OperatorSigner(pk.SortKeys(validators))
}
