// C28: the light client's Ethereum header rules (difficulty in every supported bomb-delay era,
// gas-limit bound, EIP-1559 base fee, header hash / seal hash, ethash cache and dataset sizes)
// agree with the Ethereum specification, and SyncBlockHeader rejects single-rule violations.
//
// Differential monitor: poly's functions vs go-ethereum v1.9.15 (where it has the rule) and vs the
// independent transcriptions in verifharness/synth/ethsynth (spec.go).
package c28

import (
	"fmt"
	"math/big"
	"math/rand"
	"testing"

	"verifharness/kit"
	es "verifharness/synth/ethsynth"

	"github.com/ethereum/go-ethereum/consensus/ethash"
	"github.com/ethereum/go-ethereum/params"
	polyeth "github.com/polynetwork/poly/native/service/header_sync/eth"
	"github.com/polynetwork/poly/native/service/utils"
)

var (
	big2p64 = new(big.Int).Lsh(big.NewInt(1), 64)
	// every Byzantium-and-later fork at block 0, Muir Glacier active: CalcDifficulty = EIP-2384 rule
	muirCfg = &params.ChainConfig{ChainID: big.NewInt(1), HomesteadBlock: big.NewInt(0), EIP150Block: big.NewInt(0), EIP155Block: big.NewInt(0),
		EIP158Block: big.NewInt(0), ByzantiumBlock: big.NewInt(0), ConstantinopleBlock: big.NewInt(0), PetersburgBlock: big.NewInt(0),
		IstanbulBlock: big.NewInt(0), MuirGlacierBlock: big.NewInt(0), Ethash: new(params.EthashConfig)}
)

func pickBig(rng *rand.Rand) *big.Int {
	switch rng.Intn(10) {
	case 0:
		return big.NewInt(131072)
	case 1:
		return big.NewInt(131072 + int64(rng.Intn(5000)))
	case 2:
		return big.NewInt(2048 * int64(1+rng.Intn(1<<20)))
	case 3:
		return big.NewInt(2048*int64(1+rng.Intn(1<<20)) - 1)
	case 4:
		return new(big.Int).Add(big2p64, big.NewInt(int64(rng.Intn(1<<30))))
	case 5:
		return big.NewInt(int64(rng.Intn(131072))) // below the minimum: only reachable from a trust root
	default:
		x := new(big.Int).Rand(rng, new(big.Int).Lsh(big.NewInt(1), uint(18+rng.Intn(50))))
		return x.Add(x, big.NewInt(1))
	}
}

func pickNumber(rng *rand.Rand, delay uint64) uint64 {
	switch rng.Intn(8) {
	case 0:
		return delay - 2 + uint64(rng.Intn(4))
	case 1, 2, 3:
		return delay + 100000*uint64(rng.Intn(70)) - 2 + uint64(rng.Intn(4))
	case 4:
		return uint64(rng.Intn(20000000))
	case 5:
		return uint64(rng.Intn(5))
	case 6:
		return 1<<32 + uint64(rng.Intn(1000))
	default:
		return delay + uint64(rng.Intn(8000000))
	}
}

func pickDt(rng *rand.Rand) uint64 {
	switch rng.Intn(4) {
	case 0:
		return uint64(1 + rng.Intn(30))
	case 1:
		return 9*uint64(rng.Intn(115)) + uint64(rng.Intn(3)) + 1
	case 2:
		return 880 + uint64(rng.Intn(40))
	default:
		return 1 + uint64(rng.Intn(100000))
	}
}

func TestC28(t *testing.T) {
	r := kit.Start(t, "C28", "exploration")
	defer r.Finish()
	r.Rule("pure: generated (parent, child-time) pairs biased to the formula's branch points (adjustment clamp -99, minimum difficulty, bomb period boundaries per delay 9.0M/9.7M/10.7M, uncle flag), base-fee parents around the gas target, gas limits at the +-1/1024 bound, headers with RLP length-boundary field values; distinct = branch-shape fingerprint. through SyncBlockHeader (PoW seal bypassed only): chains crossing London / Arrow Glacier / bomb-period boundaries on main-net and test-net ids, each step = single-rule mutants (must be refused, state unchanged) then the conforming header (must be stored under the spec hash and become head)")
	r.Assume("go-ethereum v1.9.15 ethash.CalcDifficulty (Muir Glacier rule), types.Header.Hash and Ethash.SealHash are a faithful second implementation for legacy headers; where they disagree with the checker's own transcription the run is inconclusive, not a violation")
	r.Assume("bomb-delay eras covered are the ones the tree declares support for: Muir Glacier (9.0M) before London, EIP-3554 (9.7M) from London, EIP-4345 (10.7M) from Arrow Glacier; eras before Muir Glacier and Gray Glacier (EIP-5133, June 2022) are outside the snapshot and not asserted")
	r.Assume("the wall-clock future-block check is neutral: all synthetic timestamps are years in the past")

	pureDifficulty(r)
	pureBaseFee(r)
	pureGasLimit(r)
	pureHash(r)
	pureSizes(r)
	throughSync(r)
}

func pureDifficulty(r *kit.Run) {
	rng := r.Rand("difficulty")
	n := r.N(60000, 2500000)
	faker := 0
	for i := 0; i < n; i++ {
		era := i % 3
		delay := []uint64{9000000, 9700000, 10700000}[era]
		p := &es.Hdr{UncleHash: es.EmptyUncleHash, Difficulty: pickBig(rng), Number: pickNumber(rng, delay), Time: 1400000000 + uint64(rng.Intn(200000000))}
		unc := rng.Intn(2) == 0
		if unc {
			p.UncleHash = es.RandHash(rng)
		}
		tm := p.Time + pickDt(rng)
		want := es.SpecDifficulty(delay, tm, p.Time, p.Difficulty, p.Number, unc)
		var got *big.Int
		pp := p.ToPoly()
		if era == 0 {
			got = polyeth.VerifDifficulty(tm, pp)
			g := ethash.CalcDifficulty(muirCfg, tm, p.ToGeth())
			if g.Cmp(want) != 0 {
				r.Inconclusive(fmt.Sprintf("oracle disagreement: go-ethereum %v vs transcription %v (parent diff %v number %d dt %d uncles %v)", g, want, p.Difficulty, p.Number, tm-p.Time, unc))
				return
			}
			faker++
		} else {
			got = polyeth.VerifDifficultyDelay(new(big.Int).SetUint64(delay), tm, pp)
		}
		r.Eval(1)
		// branch shape: era, clamp hit, min-difficulty hit, bomb period (bucketed), uncle flag
		q := (tm - p.Time) / 9
		period := uint64(0)
		if p.Number+1 > delay {
			period = (p.Number + 1 - delay) / 100000
		}
		r.Distinct("diff", era, q > 100, q, unc, p.Difficulty.Cmp(big.NewInt(131072)) <= 0, period, (p.Number+1)%100000 < 2 || (p.Number+1)%100000 > 99997, p.Difficulty.BitLen()/8)
		if period >= 2 {
			r.Count("difficulty_bomb_active", 1)
		}
		if got.Cmp(want) != 0 {
			r.Violation(fmt.Sprintf("difficulty-mismatch-delay-%d", delay), fmt.Sprintf("parent{diff %v number %d time %d uncles %v} time %d: poly %v spec %v", p.Difficulty, p.Number, p.Time, unc, tm, got, want),
				map[string]interface{}{"delay": delay, "parentDifficulty": p.Difficulty.String(), "parentNumber": p.Number, "parentTime": p.Time, "uncles": unc, "time": tm, "poly": got.String(), "spec": want.String()})
		} else {
			r.Count("difficulty_agree", 1)
		}
		if i == 7 {
			r.Sample(map[string]interface{}{"kind": "difficulty", "delay": delay, "parentDifficulty": p.Difficulty.String(), "parentNumber": p.Number, "dt": tm - p.Time, "uncles": unc, "expected": want.String()})
		}
	}
	r.Count("difficulty_vs_geth", faker)
	r.Require("difficulty_agree", n*9/10)
	r.Require("difficulty_bomb_active", n/20)
}

func pureBaseFee(r *kit.Run) {
	rng := r.Rand("basefee")
	n := r.N(30000, 1200000)
	for i := 0; i < n; i++ {
		gl := uint64(5000 + rng.Int63n(60000000))
		if rng.Intn(8) == 0 {
			gl = uint64(1)<<62 + uint64(rng.Int63n(1<<40))
		}
		target := gl / 2
		var gu uint64
		switch rng.Intn(6) {
		case 0:
			gu = target
		case 1:
			gu = target + 1
		case 2:
			gu = target - 1
		case 3:
			gu = gl
		case 4:
			gu = 0
		default:
			gu = uint64(rng.Int63n(int64(gl>>1))) * 2
		}
		var bf *big.Int
		switch rng.Intn(6) {
		case 0:
			bf = big.NewInt(int64(rng.Intn(20))) // tiny fees: delta floors to 0 -> max(.,1)
		case 1:
			bf = big.NewInt(1000000000)
		case 2:
			bf = new(big.Int).Add(big2p64, big.NewInt(int64(rng.Intn(1000))))
		default:
			bf = new(big.Int).Rand(rng, new(big.Int).Lsh(big.NewInt(1), uint(1+rng.Intn(70))))
		}
		parentLondon := rng.Intn(10) != 0
		p := &es.Hdr{UncleHash: es.EmptyUncleHash, Difficulty: big.NewInt(1), Number: 1, GasLimit: gl, GasUsed: gu, Time: 1}
		if parentLondon {
			p.BaseFee = bf
		}
		// Number 1 is far below the London height of every network id, so poly decides "parent is
		// London" by the presence of the base fee, as the spec does for a well-formed parent.
		want := es.SpecBaseFee(parentLondon, gl, gu, bf)
		got := polyeth.CalcBaseFee(p.ToPoly())
		r.Eval(1)
		r.Distinct("bf", parentLondon, gu == target, gu > target, bf.BitLen()/4, gl>>58, want.Cmp(bf))
		if got.Cmp(want) != 0 {
			r.Violation("basefee-mismatch", fmt.Sprintf("parent{gasLimit %d gasUsed %d baseFee %v london %v}: poly %v spec %v", gl, gu, bf, parentLondon, got, want),
				map[string]interface{}{"gasLimit": gl, "gasUsed": gu, "baseFee": bf.String(), "parentLondon": parentLondon})
		} else {
			r.Count("basefee_agree", 1)
		}
		// VerifyEip1559Header on a child that conforms / is off by one in the base fee
		c := &es.Hdr{UncleHash: es.EmptyUncleHash, Difficulty: big.NewInt(1), Number: 2, GasLimit: gl, GasUsed: 0, Time: 2, BaseFee: new(big.Int).Set(want)}
		if !parentLondon {
			c.GasLimit = gl * 2
			if gl >= 1<<62 {
				continue
			}
		}
		if err := polyeth.VerifyEip1559Header(p.ToPoly(), c.ToPoly()); err != nil {
			r.Violation("eip1559-conforming-refused", fmt.Sprintf("gasLimit %d gasUsed %d baseFee %v: %v", gl, gu, bf, err), nil)
		} else {
			r.Count("eip1559_conforming_ok", 1)
		}
		for _, d := range []int64{-1, 1} {
			c2 := c.Copy()
			c2.BaseFee.Add(c2.BaseFee, big.NewInt(d))
			if c2.BaseFee.Sign() < 0 {
				continue
			}
			if err := polyeth.VerifyEip1559Header(p.ToPoly(), c2.ToPoly()); err == nil {
				r.Violation("eip1559-wrong-basefee-accepted", fmt.Sprintf("gasLimit %d gasUsed %d parent baseFee %v child baseFee %v (expected %v)", gl, gu, bf, c2.BaseFee, want), nil)
			} else {
				r.Count("eip1559_offbyone_refused", 1)
			}
		}
		c3 := c.Copy()
		c3.BaseFee = nil
		if err := polyeth.VerifyEip1559Header(p.ToPoly(), c3.ToPoly()); err == nil {
			r.Violation("eip1559-missing-basefee-accepted", "child without base fee accepted", nil)
		}
	}
	r.Require("basefee_agree", n*9/10)
	r.Require("eip1559_offbyone_refused", n)
}

func pureGasLimit(r *kit.Run) {
	rng := r.Rand("gaslimit")
	n := r.N(40000, 1500000)
	for i := 0; i < n; i++ {
		var p uint64
		switch rng.Intn(6) {
		case 0:
			p = uint64(4000 + rng.Intn(3000))
		case 1:
			p = 1024 * uint64(1+rng.Intn(1<<20))
		case 2:
			p = 1024*uint64(1+rng.Intn(1<<20)) - 1
		case 3:
			p = 0x7fffffffffffffff - uint64(rng.Intn(5000))
		case 4:
			p = uint64(rng.Int63())
		default:
			p = uint64(5000 + rng.Int63n(100000000))
		}
		bound := p / 1024
		var c uint64
		switch rng.Intn(7) {
		case 0:
			c = p + bound
		case 1:
			c = p + bound - 1
		case 2:
			c = p - bound
		case 3:
			c = p - bound + 1
		case 4:
			c = p
		case 5:
			c = uint64(4990 + rng.Intn(20))
		default:
			c = p + uint64(rng.Int63n(int64(2*bound+3))) - bound - 1
		}
		if c > 0x7fffffffffffffff {
			c = 0x7fffffffffffffff // SyncBlockHeader caps the header's gas limit before this rule
		}
		want := es.SpecGasLimitOK(new(big.Int).SetUint64(p), c)
		got := polyeth.VerifyGaslimit(p, c) == nil
		r.Eval(1)
		r.Distinct("gl", want, c > p, c < 5000, p>>50, c == p+bound || c+bound == p, c == p+bound-1 || c+bound-1 == p)
		if want {
			r.Count("gaslimit_ok_cases", 1)
		} else {
			r.Count("gaslimit_bad_cases", 1)
		}
		if got != want {
			r.Violation(fmt.Sprintf("gaslimit-verdict-mismatch-spec-%v", want), fmt.Sprintf("parent %d child %d: poly accepts=%v spec=%v", p, c, got, want), map[string]interface{}{"parent": p, "child": c})
		}
	}
	r.Require("gaslimit_ok_cases", n/10)
	r.Require("gaslimit_bad_cases", n/10)
}

func fieldBig(rng *rand.Rand) *big.Int {
	switch rng.Intn(9) {
	case 0:
		return big.NewInt(0)
	case 1:
		return big.NewInt(1)
	case 2:
		return big.NewInt(127)
	case 3:
		return big.NewInt(128)
	case 4:
		return big.NewInt(255)
	case 5:
		return big.NewInt(256)
	case 6:
		return new(big.Int).Set(big2p64)
	default:
		return new(big.Int).Rand(rng, new(big.Int).Lsh(big.NewInt(1), uint(1+rng.Intn(260))))
	}
}

func pureHash(r *kit.Run) {
	rng := r.Rand("hash")
	n := r.N(6000, 150000)
	extras := []int{0, 1, 1, 2, 31, 32, 33, 54, 55, 56, 57, 100, 255, 256, 300, 70000}
	faker := ethash.NewFaker()
	for i := 0; i < n; i++ {
		h := &es.Hdr{ParentHash: es.RandHash(rng), UncleHash: es.RandHash(rng), Root: es.RandHash(rng), TxHash: es.RandHash(rng), ReceiptHash: es.RandHash(rng),
			Difficulty: fieldBig(rng), Number: fieldBig(rng).Uint64(), GasLimit: fieldBig(rng).Uint64(), GasUsed: fieldBig(rng).Uint64(), Time: fieldBig(rng).Uint64(), MixDigest: es.RandHash(rng)}
		rng.Read(h.Coinbase[:])
		rng.Read(h.Nonce[:])
		if rng.Intn(3) == 0 {
			rng.Read(h.Bloom[:])
		}
		if rng.Intn(6) == 0 { // zero-valued fixed-size fields still encode at full width
			h.ParentHash, h.MixDigest, h.Nonce, h.Coinbase = es.Hash{}, es.Hash{}, [8]byte{}, [20]byte{}
		}
		el := extras[rng.Intn(len(extras))]
		if el == 70000 && i%50 != 0 {
			el = 32
		}
		h.Extra = make([]byte, el)
		rng.Read(h.Extra)
		if el == 1 && rng.Intn(2) == 0 {
			h.Extra[0] &= 0x7f
		}
		london := i%2 == 1
		if london {
			h.BaseFee = fieldBig(rng)
		}
		want := h.Hash()
		wantSeal := h.PoWSealHash()
		pp := h.ToPoly()
		got := pp.Hash()
		gotSeal := polyeth.HashHeader(pp)
		r.Eval(1)
		r.Distinct("hash", london, el, h.Difficulty.BitLen(), h.BaseFee != nil && h.BaseFee.Sign() == 0)
		if !london {
			g := h.ToGeth()
			if es.Hash(g.Hash()) != want || es.Hash(faker.SealHash(g)) != wantSeal {
				r.Inconclusive(fmt.Sprintf("oracle disagreement on header hash: go-ethereum %x/%x transcription %x/%x", g.Hash(), faker.SealHash(g), want, wantSeal))
				return
			}
			r.Count("hash_vs_geth", 1)
		}
		if es.Hash(got) != want {
			r.Violation(fmt.Sprintf("header-hash-mismatch-basefee-%v", london), fmt.Sprintf("poly %x spec %x header %s", got, want, h.JSON()), string(h.JSON()))
		} else {
			r.Count("hash_agree", 1)
		}
		if es.Hash(gotSeal) != wantSeal {
			r.Violation(fmt.Sprintf("seal-hash-mismatch-basefee-%v", london), fmt.Sprintf("poly %x spec %x header %s", gotSeal, wantSeal, h.JSON()), string(h.JSON()))
		} else {
			r.Count("sealhash_agree", 1)
		}
		if i == 3 {
			r.Sample(map[string]interface{}{"kind": "hash", "header": string(h.JSON()), "hash": want.Hex()})
		}
	}
	r.Require("hash_agree", n*9/10)
	r.Require("sealhash_agree", n*9/10)
}

func isPrime(x uint64) bool {
	if x < 2 {
		return false
	}
	if x%2 == 0 {
		return x == 2
	}
	for d := uint64(3); d*d <= x; d += 2 {
		if x%d == 0 {
			return false
		}
	}
	return true
}

// ethash spec: sz = INIT + GROWTH*epoch - UNIT; while sz/UNIT not prime: sz -= 2*UNIT
func specSize(init, growth, unit, epoch uint64) uint64 {
	sz := init + growth*epoch - unit
	for !isPrime(sz / unit) {
		sz -= 2 * unit
	}
	return sz
}

func pureSizes(r *kit.Run) {
	rng := r.Rand("sizes")
	maxEpoch := uint64(r.N(2100, 2300))
	for ep := uint64(0); ep <= maxEpoch; ep++ {
		wantD := specSize(1<<30, 1<<23, 128, ep)
		wantC := specSize(1<<24, 1<<17, 64, ep)
		for _, blk := range []uint64{ep * 30000, ep*30000 + 29999, ep*30000 + uint64(rng.Intn(30000))} {
			r.Eval(1)
			if got := polyeth.VerifDatasetSize(blk); got != wantD {
				r.Violation("dataset-size-mismatch", fmt.Sprintf("block %d (epoch %d): poly %d spec %d", blk, ep, got, wantD), map[string]interface{}{"block": blk})
			} else {
				r.Count("dataset_size_agree", 1)
			}
			if got := polyeth.VerifCacheSize(blk); got != wantC {
				r.Violation("cache-size-mismatch", fmt.Sprintf("block %d (epoch %d): poly %d spec %d", blk, ep, got, wantC), map[string]interface{}{"block": blk})
			} else {
				r.Count("cache_size_agree", 1)
			}
		}
		r.Distinct("size", ep)
	}
	r.Count("epochs", int(maxEpoch)+1)
	r.Require("dataset_size_agree", int(maxEpoch)*3)
	r.Require("cache_size_agree", int(maxEpoch)*3)
}

type scenario struct {
	net  uint32
	root uint64
	name string
}

func throughSync(r *kit.Run) {
	polyeth.VerifSealBypass = true
	defer func() { polyeth.VerifSealBypass = false }()
	scen := []scenario{
		{1, 12964996, "main-london"}, {1, 13772996, "main-arrow-glacier"}, {1, 11999996, "main-muir-period"},
		{1, 12999996, "main-london-period"}, {1, 13799996, "main-arrow-period"}, {1, 9199999, "main-muir-start"},
		{2, 10499397, "test-london"}, {2, 10399996, "test-muir-period"}, {2, 10499996, "test-london-period"}, {2, 13772996, "test-no-arrow-glacier"},
	}
	trials := r.N(3, 60)
	steps := r.N(8, 9)
	for si, sc := range scen {
		for tr := 0; tr < trials; tr++ {
			rng := r.Rand(fmt.Sprintf("sync/%d/%d", si, tr))
			runScenario(r, rng, sc, steps)
			if !es.ForksFor(sc.net).IsLondon(sc.root + 1) {
				probeLondonShaped(r, r.Rand(fmt.Sprintf("probe/%d/%d", si, tr)), sc)
			}
		}
	}
	r.Require("sync_conforming_stored", len(scen)*trials*steps*9/10)
	r.Require("sync_mutant_refused", len(scen)*trials*steps*4)
	for _, k := range []string{"difficulty+1", "difficulty-1", "gaslimit-at-upper-bound", "gaslimit-at-lower-bound", "gasused>gaslimit", "extra-33", "time-equal-parent", "basefee+1", "basefee-1", "basefee-missing"} {
		r.Require("refused:"+k, trials)
	}
}

type mutant struct {
	name string
	h    *es.Hdr
}

func mutants(rng *rand.Rand, forks es.Forks, parent, good *es.Hdr) []mutant {
	var ms []mutant
	add := func(name string, f func(h *es.Hdr)) {
		h := good.Copy()
		f(h)
		ms = append(ms, mutant{name, h})
	}
	add("difficulty+1", func(h *es.Hdr) { h.Difficulty.Add(h.Difficulty, big.NewInt(1)) })
	add("difficulty-1", func(h *es.Hdr) { h.Difficulty.Sub(h.Difficulty, big.NewInt(1)) })
	base := parent.GasLimit
	if forks.IsLondon(good.Number) && !forks.IsLondon(parent.Number) {
		base *= 2
	}
	bound := base / 1024
	add("gaslimit-at-upper-bound", func(h *es.Hdr) { h.GasLimit = base + bound })
	add("gaslimit-at-lower-bound", func(h *es.Hdr) {
		h.GasLimit = base - bound
		if h.GasUsed > h.GasLimit {
			h.GasUsed = h.GasLimit
		}
	})
	add("gaslimit-far", func(h *es.Hdr) { h.GasLimit = base + bound*uint64(2+rng.Intn(500)) })
	add("gasused>gaslimit", func(h *es.Hdr) { h.GasUsed = h.GasLimit + 1 })
	add("extra-33", func(h *es.Hdr) { h.Extra = make([]byte, 33) })
	add("time-equal-parent", func(h *es.Hdr) { h.Time = parent.Time })
	add("time-before-parent", func(h *es.Hdr) { h.Time = parent.Time - 1 - uint64(rng.Intn(100)) })
	add("number+1", func(h *es.Hdr) { h.Number++ })
	add("unknown-parent", func(h *es.Hdr) { h.ParentHash = es.RandHash(rng) })
	if good.BaseFee != nil {
		add("basefee+1", func(h *es.Hdr) { h.BaseFee.Add(h.BaseFee, big.NewInt(1)) })
		if good.BaseFee.Sign() > 0 {
			add("basefee-1", func(h *es.Hdr) { h.BaseFee.Sub(h.BaseFee, big.NewInt(1)) })
		}
		add("basefee-missing", func(h *es.Hdr) { h.BaseFee = nil })
	} else {
		// a legacy-conforming header that merely carries a base fee before the fork
		add("basefee-before-london", func(h *es.Hdr) { h.BaseFee = big.NewInt(es.SpecInitialBaseFee) })
	}
	return ms
}

func runScenario(r *kit.Run, rng *rand.Rand, sc scenario, steps int) {
	const chainID = 2
	e := es.NewEnv(rng, sc.net)
	if err := e.RegisterSideChain(chainID, utils.ETH_ROUTER, "eth", 1, make([]byte, 20), nil); err != nil {
		r.Inconclusive("register side chain: " + err.Error())
		return
	}
	forks := es.ForksFor(sc.net)
	diff := pickBig(rng)
	if rng.Intn(2) == 0 {
		diff = new(big.Int).Add(big.NewInt(1000000000000000), big.NewInt(rng.Int63n(9000000000000000)))
	}
	root := es.NewRoot(rng, forks, sc.root, diff, uint64(8000000+rng.Intn(22000000)))
	if rec := e.SyncGenesis(chainID, root.JSON()); !rec.Ok {
		r.Inconclusive("sync genesis: " + rec.Err)
		return
	}
	svc := e.Service()
	if h, _, err := polyeth.GetHeaderByHash(svc, root.Hash().Bytes(), chainID); err != nil || h == nil {
		r.Violation("root-not-under-spec-hash", fmt.Sprintf("%s: trust root not stored under its specification hash: %v", sc.name, err), string(root.JSON()))
		return
	}
	parent := root
	for st := 0; st < steps; st++ {
		good := es.Child(rng, forks, parent, es.ChildOpt{})
		if v := es.Violations(forks, parent, good); len(v) != 0 {
			r.Inconclusive(fmt.Sprintf("generator produced a non-conforming header: %v", v))
			return
		}
		for _, m := range mutants(rng, forks, parent, good) {
			viol := es.Violations(forks, parent, m.h)
			if len(viol) == 0 {
				continue // the mutation happened to stay inside the rules
			}
			before := e.HSDigest()
			rec := e.SyncHeaders(chainID, m.h.JSON())
			after := e.HSDigest()
			r.Eval(1)
			r.Distinct("sync", sc.name, m.name, st, fmt.Sprint(viol))
			_, _, gerr := polyeth.GetHeaderByHash(e.Service(), m.h.Hash().Bytes(), chainID)
			stored := gerr == nil
			if rec.Ok && stored || before != after {
				key := "rule-violation-accepted:" + m.name
				r.Violation(key, fmt.Sprintf("%s step %d: header violating %v was accepted (ok=%v stored=%v stateChanged=%v)", sc.name, st, viol, rec.Ok, stored, before != after),
					map[string]interface{}{"network": sc.net, "parent": string(parent.JSON()), "header": string(m.h.JSON()), "violates": viol})
				// restore a clean universe is not possible; stop this scenario
				if stored {
					return
				}
			} else {
				r.Count("sync_mutant_refused", 1)
				r.Count("refused:"+m.name, 1)
			}
		}
		// the conforming header, sometimes in a batch behind a duplicate of its parent
		before := e.HSDigest()
		var ok bool
		var errs string
		if st > 0 && rng.Intn(4) == 0 {
			c := e.SyncHeaders(chainID, parent.JSON(), good.JSON())
			ok, errs = c.Ok, c.Err
		} else {
			c := e.SyncHeaders(chainID, good.JSON())
			ok, errs = c.Ok, c.Err
		}
		r.Eval(1)
		r.Distinct("sync", sc.name, "conforming", st, good.BaseFee != nil, forks.Delay(good.Number))
		hh, td, gerr := polyeth.GetHeaderByHash(e.Service(), good.Hash().Bytes(), chainID)
		if !ok || gerr != nil {
			r.Violation("conforming-header-refused:"+sc.name, fmt.Sprintf("step %d number %d: %s / %v", st, good.Number, errs, gerr),
				map[string]interface{}{"network": sc.net, "parent": string(parent.JSON()), "header": string(good.JSON())})
			return
		}
		if before == e.HSDigest() {
			r.Violation("conforming-header-no-effect", fmt.Sprintf("%s step %d", sc.name, st), nil)
			return
		}
		_ = td
		if es.Hash(hh.Hash()) != good.Hash() || hh.Difficulty.Cmp(good.Difficulty) != 0 || hh.GasLimit != good.GasLimit || (hh.BaseFee == nil) != (good.BaseFee == nil) {
			r.Violation("stored-header-differs", fmt.Sprintf("%s step %d", sc.name, st), string(good.JSON()))
			return
		}
		cur, _, err := polyeth.GetCurrentHeader(e.Service(), chainID)
		if err != nil || es.Hash(cur.Hash()) != good.Hash() {
			r.Violation("conforming-header-not-head", fmt.Sprintf("%s step %d: %v", sc.name, st, err), string(good.JSON()))
			return
		}
		r.Count("sync_conforming_stored", 1)
		if good.BaseFee != nil {
			r.Count("sync_london_headers", 1)
		} else {
			r.Count("sync_legacy_headers", 1)
		}
		if forks.Delay(good.Number) == 10700000 {
			r.Count("sync_arrow_glacier_headers", 1)
		}
		parent = good
	}
}

// probeLondonShaped submits, in a universe of its own, a header shaped like the London fork block
// (base fee = initial base fee, gas limit doubled, difficulty by the 9.7M-delay rule) at a height
// BEFORE the London height. By the specification it violates three rules at once: base fee before
// the fork, the 1/1024 gas-limit bound, and (where the bomb is active) the Muir Glacier difficulty.
func probeLondonShaped(r *kit.Run, rng *rand.Rand, sc scenario) {
	const chainID = 2
	e := es.NewEnv(rng, sc.net)
	if err := e.RegisterSideChain(chainID, utils.ETH_ROUTER, "eth", 1, make([]byte, 20), nil); err != nil {
		r.Inconclusive("register side chain: " + err.Error())
		return
	}
	forks := es.ForksFor(sc.net)
	root := es.NewRoot(rng, forks, sc.root, big.NewInt(1000000000000000+rng.Int63n(9000000000000000)), uint64(8000000+rng.Intn(22000000)))
	if rec := e.SyncGenesis(chainID, root.JSON()); !rec.Ok {
		r.Inconclusive("sync genesis: " + rec.Err)
		return
	}
	h := es.Child(rng, forks, root, es.ChildOpt{})
	h.BaseFee = big.NewInt(es.SpecInitialBaseFee)
	h.GasLimit = root.GasLimit * 2
	if h.GasUsed > h.GasLimit {
		h.GasUsed = h.GasLimit
	}
	h.Difficulty = es.SpecDifficulty(9700000, h.Time, root.Time, root.Difficulty, root.Number, false)
	viol := es.Violations(forks, root, h)
	rec := e.SyncHeaders(chainID, h.JSON())
	_, _, gerr := polyeth.GetHeaderByHash(e.Service(), h.Hash().Bytes(), chainID)
	r.Eval(1)
	r.Distinct("probe", sc.name, fmt.Sprint(viol))
	if rec.Ok && gerr == nil {
		r.Violation("rule-violation-accepted:london-shaped-before-london", fmt.Sprintf("%s: header number %d (London height %d) carrying a base fee, gas limit %d = 2 x parent %d, difficulty by the 9.7M-delay rule was stored; it violates %v", sc.name, h.Number, forks.London, h.GasLimit, root.GasLimit, viol),
			map[string]interface{}{"network": sc.net, "chainID": chainID, "trustRoot": string(root.JSON()), "header": string(h.JSON()), "violates": viol})
	} else {
		r.Count("refused:london-shaped-before-london", 1)
	}
}
