package pk

import (
	"fmt"

	vconfig "github.com/polynetwork/poly/consensus/vbft/config"
	"github.com/polynetwork/poly/core/ledger"
	"github.com/polynetwork/poly/core/store/ledgerstore"
)

// OpenLedger is OpenChain through core/ledger.NewLedger + Ledger.Init, so that the result can be
// installed as ledger.DefLedger (which http/base/actor, the stateful validator and vbft read).
// The returned Chain extends the very same store. The caller sets / resets ledger.DefLedger.
func OpenLedger(dir string, netID uint32, validators []*Key) (*Chain, *ledger.Ledger, error) {
	SetConfig(netID, validators)
	gb, err := BuildGenesis(validators)
	if err != nil {
		return nil, nil, err
	}
	l, err := ledger.NewLedger(dir)
	if err != nil {
		return nil, nil, err
	}
	if err := l.Init(Pubs(validators), gb); err != nil {
		l.Close()
		return nil, nil, err
	}
	st, ok := l.GetStore().(*ledgerstore.LedgerStoreImp)
	if !ok {
		l.Close()
		return nil, nil, fmt.Errorf("unexpected ledger store type %T", l.GetStore())
	}
	c := &Chain{Dir: dir, Store: st, Validators: validators, Genesis: gb, ChainID: gb.Header.ChainID}
	h := st.GetCurrentBlockHeight()
	hdr, err := st.GetHeaderByHeight(h)
	if err != nil {
		l.Close()
		return nil, nil, err
	}
	info, err := vconfig.VbftBlock(hdr)
	if err != nil {
		l.Close()
		return nil, nil, err
	}
	if info.NewChainConfig != nil {
		c.LastCfg = h
	} else {
		c.LastCfg = info.LastConfigBlockNum
	}
	return c, l, nil
}
