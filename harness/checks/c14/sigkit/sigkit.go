// Package sigkit builds candidate successor blocks with fully controlled bookkeeper / signature
// lists and pushes them through the two verification paths of the real ledger
// (SubmitBlock / AddBlock -> verifyHeader with the block-path validator set, AddHeaders ->
// verifyHeader with the header-path validator set). Shared by C14 and C42.
package sigkit

import (
	"encoding/json"
	"fmt"

	"verifharness/kit/pk"

	"github.com/ontio/ontology-crypto/keypair"
	"github.com/polynetwork/poly/common"
	vconfig "github.com/polynetwork/poly/consensus/vbft/config"
	"github.com/polynetwork/poly/core/store"
	"github.com/polynetwork/poly/core/store/ledgerstore"
	"github.com/polynetwork/poly/core/types"
)

// Entry is one (bookkeeper, signature) slot of a header.
type Entry struct {
	Book      *pk.Key // listed bookkeeper (nil: no bookkeeper for this slot)
	Signer    *pk.Key // who really signs (nil: no signature for this slot)
	WrongHash bool    // the signature is over another hash
	Garbage   bool    // the signature bytes are garbage
}

// Canonical: every key listed once and signing the right hash.
func Canonical(keys []*pk.Key) []Entry {
	out := make([]Entry, len(keys))
	for i, k := range keys {
		out[i] = Entry{Book: k, Signer: k}
	}
	return out
}

// Required is the threshold stated by the property.
func Required(n int, legacy bool) int {
	if legacy {
		return n - (6*n)/7
	}
	return n - (n-1)/3
}

// SetRule selects the threshold rule through the verif hook: "new", "legacy" or "natural" (no
// override; natural(needFix) is reported to observe). Returns the restore function.
func SetRule(rule string, observe func(natural bool)) func() {
	switch rule {
	case "new":
		ledgerstore.VerifNeedFixHook = func(n bool) bool {
			if observe != nil {
				observe(n)
			}
			return false
		}
	case "legacy":
		ledgerstore.VerifNeedFixHook = func(n bool) bool {
			if observe != nil {
				observe(n)
			}
			return true
		}
	default:
		ledgerstore.VerifNeedFixHook = func(n bool) bool {
			if observe != nil {
				observe(n)
			}
			return n
		}
	}
	return func() { ledgerstore.VerifNeedFixHook = nil }
}

// Fill writes the bookkeeper and signature lists of the entries into the header.
func Fill(hdr *types.Header, entries []Entry) {
	hdr.Bookkeepers = []keypair.PublicKey{}
	hdr.SigData = [][]byte{}
	h := pk.HeaderHashFresh(hdr)
	for _, e := range entries {
		if e.Book != nil {
			hdr.Bookkeepers = append(hdr.Bookkeepers, e.Book.Pub)
		}
		if e.Signer == nil {
			continue
		}
		msg := h
		if e.WrongHash {
			msg[7] ^= 0x40
		}
		sig := e.Signer.Sign(msg[:])
		if e.Garbage {
			sig = append([]byte{}, sig...)
			for i := range sig {
				sig[i] ^= 0x5a
			}
		}
		hdr.SigData = append(hdr.SigData, sig)
	}
}

// Candidate builds the successor of the current block tip with the given signature slots
// (optionally announcing a new validator set). The ledger is not modified.
func Candidate(c *pk.Chain, entries []Entry, newCfg []*pk.Key) (*types.Block, store.ExecuteResult, error) {
	blk, res, err := c.BuildBlock(nil, pk.BlockOpt{NewConfig: newCfg, Signers: []*pk.Key{},
		MutateAfter: func(b *types.Block) { Fill(b.Header, entries) }})
	if err != nil {
		return nil, res, err
	}
	blk, err = pk.Reparse(blk)
	return blk, res, err
}

// OnTop builds an empty block on top of a parent header that is not committed yet (the parent
// must be the successor of the current block tip): used to exercise the header path ahead of the
// block path. lastCfg is the height of the last configuration block as seen from the new block.
func OnTop(c *pk.Chain, parent *types.Header, lastCfg uint32, entries []Entry) (*types.Block, error) {
	st := c.Store
	tipH := st.GetCurrentBlockHeight()
	if parent.Height != tipH+1 {
		return nil, fmt.Errorf("parent must be at height tip+1")
	}
	info := &vconfig.VbftBlockInfo{Proposer: 1, LastConfigBlockNum: lastCfg}
	payload, _ := json.Marshal(info)
	hdr := &types.Header{Version: types.CURR_HEADER_VERSION, ChainID: c.ChainID, PrevBlockHash: parent.Hash(),
		Timestamp: parent.Timestamp + 1, Height: parent.Height + 1, ConsensusData: uint64(parent.Height) + 7, ConsensusPayload: payload}
	blk := &types.Block{Header: hdr}
	blk.RebuildMerkleRoot()
	hdr.BlockRoot = st.GetBlockRootWithPreBlockHashes(tipH+1, []common.Uint256{st.GetCurrentBlockHash(), parent.Hash()})
	Fill(hdr, entries)
	return pk.Reparse(blk)
}

// BlockPath submits through SubmitBlock (sync=false) or AddBlock (sync=true); accepted = the tip
// is now this block.
func BlockPath(c *pk.Chain, blk *types.Block, res store.ExecuteResult, sync bool, newCfg []*pk.Key) (bool, error) {
	var err error
	if sync {
		err = c.Store.AddBlock(blk, res.MerkleRoot)
	} else {
		err = c.Store.SubmitBlock(blk, res)
	}
	ok := c.Store.GetCurrentBlockHeight() == blk.Header.Height && c.Store.GetCurrentBlockHash() == blk.Hash()
	if ok && newCfg != nil {
		c.LastCfg = blk.Header.Height
		c.Validators = newCfg
	}
	return ok, err
}

// HeaderPath submits through AddHeaders; accepted = the header index now ends with this header.
func HeaderPath(c *pk.Chain, hdr *types.Header) (bool, error) {
	err := c.Store.AddHeaders([]*types.Header{hdr})
	ok := c.Store.GetCurrentHeaderHeight() == hdr.Height && c.Store.GetCurrentHeaderHash() == hdr.Hash()
	return ok, err
}
