// C38: recent-block duplicate detection is exact (validator/increment) and a transaction already in
// the ledger fails stateful validation (validator/stateful against a real ledger).
package c38

import (
	"fmt"
	"math/rand"
	"os"
	"reflect"
	"sort"
	"strings"
	"sync"
	"testing"
	"time"
	"unsafe"

	"github.com/anishathalye/porcupine"
	"github.com/ontio/ontology-eventbus/actor"

	"verifharness/kit"
	"verifharness/kit/pk"

	"github.com/polynetwork/poly/common"
	"github.com/polynetwork/poly/core/ledger"
	"github.com/polynetwork/poly/core/store"
	"github.com/polynetwork/poly/core/types"
	perr "github.com/polynetwork/poly/errors"
	_ "github.com/polynetwork/poly/native/service"
	"github.com/polynetwork/poly/native/service/utils"
	"github.com/polynetwork/poly/validator/increment"
	"github.com/polynetwork/poly/validator/stateful"
	vt "github.com/polynetwork/poly/validator/types"
)

const nTx = 48 // transaction universe (fits a uint64 bitmask)

func universe(rng *rand.Rand) []*types.Transaction {
	seen := map[[32]byte]bool{}
	var txs []*types.Transaction
	for len(txs) < nTx {
		code := make([]byte, 4+rng.Intn(12))
		rng.Read(code)
		tx := pk.MakeTx(0, rng.Uint32(), code)
		if seen[tx.Hash()] {
			continue
		}
		seen[tx.Hash()] = true
		txs = append(txs, tx)
	}
	return txs
}

func mkBlock(txs []*types.Transaction, height uint32, mask uint64) *types.Block {
	b := &types.Block{Header: &types.Header{Height: height}}
	for i := 0; i < nTx; i++ {
		if mask&(1<<uint(i)) != 0 {
			b.Transactions = append(b.Transactions, txs[i])
		}
	}
	return b
}

// ---- reference tracker, from the statement: "keeps exactly the most recent contiguous blocks up to
// its capacity and ignores non-contiguous blocks"; "a transaction already included in a tracked
// recent block at or above the checked height is reported as a duplicate and no other is" ----------

const maxCap = 8

type tracker struct {
	n      int // tracked blocks
	base   uint32
	blocks [maxCap]uint64 // tx bitmask per tracked block, oldest first
}

func (t tracker) add(capacity int, h uint32, mask uint64) tracker {
	if t.n == 0 {
		t.base, t.n = h, 1
		t.blocks[0] = mask
		return t
	}
	if h != t.base+uint32(t.n) {
		return t // not the successor of the newest tracked block: ignored
	}
	if t.n == capacity {
		copy(t.blocks[:], t.blocks[1:t.n])
		t.n--
		t.base++
	}
	t.blocks[t.n] = mask
	t.n++
	return t
}

// dup: is tx in a tracked block whose height is >= start
func (t tracker) dup(tx int, start uint32) bool {
	for i := 0; i < t.n; i++ {
		if t.base+uint32(i) >= start && t.blocks[i]&(1<<uint(tx)) != 0 {
			return true
		}
	}
	return false
}

// verdict of one Verify observation against the reference. "" = acceptable.
func judgeVerify(t tracker, tx int, start uint32, err error) string {
	d := t.dup(tx, start)
	if d && err == nil {
		return "duplicate-not-reported"
	}
	if !d && err != nil {
		if t.n > 0 && start < t.base {
			// the tracker does not cover [start, base): it cannot vouch for the tx; any answer is
			// accepted here (weaker reading) as long as it is not worded as a duplicate
			if strings.Contains(err.Error(), "duplicated") {
				return "non-duplicate-reported-duplicate"
			}
			return ""
		}
		return "non-duplicate-reported"
	}
	return ""
}

func sequentialPart(r *kit.Run, txs []*types.Transaction) {
	rng := r.Rand("seq")
	nSeq := r.N(1500, 240000)
	for s := 0; s < nSeq; s++ {
		capacity := 1 + rng.Intn(maxCap)
		v := increment.NewIncrementValidator(capacity)
		var ref tracker
		next := uint32(rng.Intn(5))
		if rng.Intn(4) == 0 {
			next = uint32(rng.Intn(1 << 20))
		}
		nOps := 10 + rng.Intn(40)
		var script []string
		shape := [4]int{}
		for o := 0; o < nOps; o++ {
			x := rng.Intn(100)
			var h uint32
			kind := ""
			switch {
			case x < 55: // the successor
				h, kind = next, "next"
				shape[0]++
			case x < 65: // gap ahead
				h, kind = next+1+uint32(rng.Intn(3)), "gap"
				shape[1]++
			case x < 75: // repeat / older
				back := uint32(1 + rng.Intn(capacity+2))
				if back > next {
					back = next
				}
				h, kind = next-back, "old"
				shape[2]++
			case x < 80:
				kind = "clean"
				shape[3]++
			default:
				kind = "query"
			}
			switch kind {
			case "clean":
				v.Clean()
				ref = tracker{}
				script = append(script, "Clean")
				next = uint32(rng.Intn(1 << 10))
			case "query":
			default:
				var mask uint64
				for k := rng.Intn(5); k > 0; k-- {
					mask |= 1 << uint(rng.Intn(nTx))
				}
				before := ref
				v.AddBlock(mkBlock(txs, h, mask))
				ref = ref.add(capacity, h, mask)
				script = append(script, fmt.Sprintf("Add(%s h=%d txs=%x)", kind, h, mask))
				if ref != before {
					r.Count("seq_block_tracked", 1)
					if before.n == capacity {
						r.Count("seq_evicted_oldest", 1)
					}
				} else {
					r.Count("seq_block_ignored", 1)
				}
				if ref.n > 0 {
					next = ref.base + uint32(ref.n)
				}
			}
			// observable 1: the covered range
			st, en := v.BlockRange()
			if ref.n == 0 {
				if st != en {
					r.Violation("increment:range-nonempty-when-empty", fmt.Sprintf("BlockRange=[%d,%d) with nothing tracked", st, en), script)
				}
			} else if st != ref.base || en != ref.base+uint32(ref.n) {
				r.Violation("increment:range-mismatch:"+kind, fmt.Sprintf("capacity %d: BlockRange=[%d,%d), reference [%d,%d)", capacity, st, en, ref.base, ref.base+uint32(ref.n)), script)
			}
			// observable 2: duplicate verdicts for a spread of (tx, start) pairs
			starts := []uint32{0, ref.base, ref.base + uint32(ref.n), ref.base + uint32(ref.n) + 1}
			if ref.base > 0 {
				starts = append(starts, ref.base-1)
			}
			for i := 0; i < ref.n; i++ {
				starts = append(starts, ref.base+uint32(i))
			}
			for _, st := range starts {
				for q := 0; q < 3; q++ {
					tx := rng.Intn(nTx)
					if q == 0 && ref.n > 0 {
						// bias: a tx that is in some tracked block
						m := ref.blocks[rng.Intn(ref.n)]
						for k := 0; k < nTx && m != 0; k++ {
							c := (tx + k) % nTx
							if m&(1<<uint(c)) != 0 {
								tx = c
								break
							}
						}
					}
					err := v.Verify(txs[tx], st)
					r.Eval(1)
					why := judgeVerify(ref, tx, st, err)
					switch {
					case ref.dup(tx, st):
						r.Count("seq_verify_duplicate", 1)
					case err == nil:
						r.Count("seq_verify_clean", 1)
					default:
						r.Count("seq_verify_uncovered_range", 1)
					}
					if ref.n > 0 && st > ref.base && ref.dup(tx, ref.base) && !ref.dup(tx, st) {
						r.Count("seq_verify_only_below_start", 1)
					}
					if why != "" {
						r.Violation("increment:"+why, fmt.Sprintf("capacity %d tracked [%d,%d): Verify(tx%d, start=%d) -> %v", capacity, ref.base, ref.base+uint32(ref.n), tx, st, err),
							map[string]interface{}{"script": script, "tx": tx, "start": st})
					}
				}
			}
		}
		r.Distinct("seq", capacity, shape, nOps)
		if s == 0 {
			if len(script) > 10 {
				script = script[:10]
			}
			r.Sample(map[string]interface{}{"part": "sequential", "capacity": capacity, "script_head": script})
		}
	}
}

// ---- concurrent part: porcupine over the same reference ------------------------------------------

const (
	cAdd = iota
	cVerify
	cRange
	cClean
)

type cIn struct {
	Kind     int
	Capacity int
	H        uint32
	Mask     uint64
	Tx       int
}

type cOut struct {
	Err    string
	IsErr  bool
	St, En uint32
}

func cDescribe(in *cIn, out *cOut) string {
	switch in.Kind {
	case cAdd:
		return fmt.Sprintf("AddBlock(h=%d,txs=%x)", in.H, in.Mask)
	case cVerify:
		return fmt.Sprintf("Verify(tx%d,start=%d)->%q", in.Tx, in.H, out.Err)
	case cRange:
		return fmt.Sprintf("BlockRange()->[%d,%d)", out.St, out.En)
	}
	return "Clean()"
}

var cModel = porcupine.Model{
	Init: func() interface{} { return tracker{} },
	Step: func(state, input, output interface{}) (bool, interface{}) {
		t := state.(tracker)
		in := input.(*cIn)
		out := output.(*cOut)
		switch in.Kind {
		case cAdd:
			return true, t.add(in.Capacity, in.H, in.Mask)
		case cClean:
			return true, tracker{}
		case cRange:
			if t.n == 0 {
				return out.St == out.En, t
			}
			return out.St == t.base && out.En == t.base+uint32(t.n), t
		case cVerify:
			var err error
			if out.IsErr {
				err = fmt.Errorf("%s", out.Err)
			}
			return judgeVerify(t, in.Tx, in.H, err) == "", t
		}
		return false, t
	},
	Equal:             func(a, b interface{}) bool { return a.(tracker) == b.(tracker) },
	DescribeOperation: func(i, o interface{}) string { return cDescribe(i.(*cIn), o.(*cOut)) },
}

type cRec struct {
	client    int
	in        *cIn
	out       *cOut
	call, ret int64
}

func concurrentPart(r *kit.Run, txs []*types.Transaction, nHist int, check bool) {
	rng := r.Rand("conc")
	for hi := 0; hi < nHist; hi++ {
		capacity := 1 + rng.Intn(maxCap)
		G := []int{2, 3, 4, 8, 12}[rng.Intn(5)]
		total := 60 + rng.Intn(140)
		base := uint32(rng.Intn(50))
		// pre-draw block contents per height so that racing adders of the same height agree or
		// disagree on content on purpose
		progs := make([][]*cIn, G)
		hcur := base
		for i := 0; i < total; i++ {
			g := rng.Intn(G)
			in := &cIn{Capacity: capacity}
			x := rng.Intn(100)
			switch {
			case x < 45:
				in.Kind = cAdd
				// heights hover around a slowly advancing frontier: several goroutines race for
				// the same successor, some are late, some ahead
				in.H = hcur + uint32(rng.Intn(3)) - 1
				if hcur == 0 && in.H > 1<<31 {
					in.H = 0
				}
				if rng.Intn(3) == 0 {
					hcur++
				}
				for k := rng.Intn(4); k > 0; k-- {
					in.Mask |= 1 << uint(rng.Intn(12)) // few txs: frequent duplicates
				}
			case x < 85:
				in.Kind, in.Tx = cVerify, rng.Intn(12)
				in.H = hcur + uint32(rng.Intn(capacity+3)) - uint32(capacity)
				if in.H > 1<<31 {
					in.H = 0
				}
			case x < 97:
				in.Kind = cRange
			default:
				in.Kind = cClean
			}
			progs[g] = append(progs[g], in)
		}
		v := increment.NewIncrementValidator(capacity)
		t0 := time.Now()
		now := func() int64 { return int64(time.Since(t0)) }
		recs := make([][]cRec, G)
		start := make(chan struct{})
		var wg sync.WaitGroup
		for g := 0; g < G; g++ {
			wg.Add(1)
			go func(g int) {
				defer wg.Done()
				my := make([]cRec, 0, len(progs[g]))
				<-start
				for _, in := range progs[g] {
					out := &cOut{}
					c := now()
					switch in.Kind {
					case cAdd:
						v.AddBlock(mkBlock(txs, in.H, in.Mask))
					case cVerify:
						if err := v.Verify(txs[in.Tx], in.H); err != nil {
							out.IsErr, out.Err = true, err.Error()
						}
					case cRange:
						out.St, out.En = v.BlockRange()
					case cClean:
						v.Clean()
					}
					my = append(my, cRec{g, in, out, c, now()})
				}
				recs[g] = my
			}(g)
		}
		close(start)
		wg.Wait()
		var all []cRec
		for _, l := range recs {
			all = append(all, l...)
		}
		// closing observations
		for i := 0; i < 14; i++ {
			in := &cIn{Kind: cRange, Capacity: capacity}
			out := &cOut{}
			c := now()
			if i == 0 {
				out.St, out.En = v.BlockRange()
			} else {
				in.Kind, in.Tx, in.H = cVerify, i-1, 0
				if err := v.Verify(txs[in.Tx], 0); err != nil {
					out.IsErr, out.Err = true, err.Error()
				}
			}
			all = append(all, cRec{0, in, out, c, now()})
		}
		r.Distinct("conc", capacity, G, total/20)
		{
			srt := append([]cRec(nil), all...)
			sort.Slice(srt, func(i, j int) bool { return srt[i].call < srt[j].call })
			var maxRet int64 = -1
			n := 0
			for _, x := range srt {
				if x.call <= maxRet {
					n++
				}
				if x.ret > maxRet {
					maxRet = x.ret
				}
			}
			r.Count("conc_ops_overlapping_an_earlier_op", n)
		}
		r.Count("conc_histories", 1)
		for _, x := range all {
			switch x.in.Kind {
			case cAdd:
				r.Count("conc_addblock", 1)
			case cVerify:
				if x.out.IsErr {
					r.Count("conc_verify_err", 1)
				} else {
					r.Count("conc_verify_ok", 1)
				}
			}
		}
		if !check {
			r.Eval(1)
			continue
		}
		ops := make([]porcupine.Operation, len(all))
		for i, x := range all {
			ops[i] = porcupine.Operation{ClientId: x.client, Input: x.in, Output: x.out, Call: x.call, Return: x.ret}
		}
		res, _ := porcupine.CheckOperationsVerbose(cModel, ops, 60*time.Second)
		r.Eval(1)
		switch res {
		case porcupine.Ok:
			r.Count("porcupine_ok", 1)
		case porcupine.Unknown:
			r.Count("porcupine_unknown", 1)
		default:
			sort.Slice(all, func(i, j int) bool { return all[i].call < all[j].call })
			var js []string
			for _, x := range all {
				js = append(js, fmt.Sprintf("c%d [%d,%d] %s", x.client, x.call, x.ret, cDescribe(x.in, x.out)))
			}
			r.Violation("increment:history-not-linearizable", fmt.Sprintf("capacity %d, %d goroutines, %d ops: no linearization in the reference tracker", capacity, G, len(all)), js)
		}
		if hi == 0 {
			r.Sample(map[string]interface{}{"part": "concurrent", "capacity": capacity, "G": G, "ops": len(all)})
		}
	}
}

// ---- stateful validator actor against a real ledger ------------------------------------------------

var valSeq int

// windowStore decorates the real ledger store behind ledger.DefLedger: right after a containment
// lookup has produced its (real) answer, and before it is returned to the caller, a prepared
// "block-saving" step runs. This injects, deterministically, the schedule in which the ledger
// commits blocks while the stateful validator is in the middle of handling a CheckTx.
type windowStore struct {
	store.LedgerStore
	afterLookup func()
}

func (w *windowStore) IsContainTransaction(h common.Uint256) (bool, error) {
	ok, err := w.LedgerStore.IsContainTransaction(h)
	if f := w.afterLookup; f != nil {
		w.afterLookup = nil
		f()
	}
	return ok, err
}

// ledgerOver builds a ledger.Ledger over an arbitrary store (the field is unexported; test plumbing).
func ledgerOver(st store.LedgerStore) *ledger.Ledger {
	l := &ledger.Ledger{}
	fld := reflect.ValueOf(l).Elem().FieldByName("ldgStore")
	reflect.NewAt(fld.Type(), unsafe.Pointer(fld.UnsafeAddr())).Elem().Set(reflect.ValueOf(st))
	return l
}

func statefulPart(r *kit.Run) {
	rng := r.Rand("stateful")
	vals := pk.NewKeys(rng, 4)
	dir := pk.TempDir("c38")
	defer os.RemoveAll(dir)
	c, l, err := pk.OpenLedger(dir, 38, vals)
	if err != nil {
		r.Inconclusive("ledger: " + err.Error())
		return
	}
	old := ledger.DefLedger
	ws := &windowStore{LedgerStore: l.GetStore()}
	ledger.DefLedger = ledgerOver(ws)
	cur := l
	defer func() { ledger.DefLedger = old; cur.Close() }()
	valSeq++
	v, err := stateful.NewValidator(fmt.Sprintf("c38-stateful-%d-%d", os.Getpid(), valSeq))
	if err != nil {
		r.Inconclusive("validator: " + err.Error())
		return
	}
	// the validator tells its pid to whoever it registers with
	f := actor.NewFuture(30 * time.Second)
	v.Register(f.PID())
	res, err := f.Result()
	reg, ok := res.(*vt.RegisterValidator)
	if err != nil || !ok || reg.Sender == nil {
		r.Inconclusive("validator did not register")
		return
	}
	pid := reg.Sender
	defer pid.Stop()
	ask := func(tx *types.Transaction) (*vt.CheckResponse, bool) {
		res, err := pid.RequestFuture(&vt.CheckTx{WorkerId: 3, Tx: tx}, 60*time.Second).Result()
		if err != nil {
			return nil, false
		}
		rsp, ok := res.(*vt.CheckResponse)
		return rsp, ok
	}
	sorted := pk.SortKeys(vals)
	nBlocks := r.N(40, 400)
	type entry struct {
		tx        *types.Transaction
		committed uint32 // 0 = not in the ledger
	}
	var pool []*entry
	mk := func() *entry {
		var tx *types.Transaction
		switch rng.Intn(3) {
		case 0: // a governance call that succeeds
			tx = c.InvokeTx(utils.NodeManagerContractAddress, "commitDpos", nil, pk.OperatorSigner(sorted))
		case 1: // a call that fails during execution (still part of the block)
			tx = c.InvokeTx(utils.NodeManagerContractAddress, "noSuchMethod", []byte{1, 2, 3}, pk.Single(vals[0]))
		default: // unsigned garbage payload
			code := make([]byte, 1+rng.Intn(20))
			rng.Read(code)
			c.Nonce++
			tx = pk.MakeTx(c.ChainID, c.Nonce, code)
		}
		return &entry{tx: tx}
	}
	check := func(e *entry, when string) {
		rsp, ok := ask(e.tx)
		if !ok {
			r.Inconclusive("stateful validator did not answer")
			return
		}
		r.Eval(1)
		h := e.tx.Hash()
		if rsp.Hash != h || rsp.Type != vt.Stateful || rsp.WorkerId != 3 {
			r.Violation("stateful:response-mismatch", fmt.Sprintf("response for hash %x type %d worker %d", rsp.Hash, rsp.Type, rsp.WorkerId), kit.Hex(e.tx.ToArray()))
		}
		if e.committed > 0 {
			r.Count("stateful_in_ledger", 1)
			if rsp.ErrCode != perr.ErrDuplicatedTx {
				r.Violation("stateful:committed-tx-accepted:"+when, fmt.Sprintf("tx committed in block %d, validator answered %d (%s)", e.committed, rsp.ErrCode, rsp.ErrCode.Error()), kit.Hex(e.tx.ToArray()))
			}
		} else {
			r.Count("stateful_not_in_ledger", 1)
			if rsp.ErrCode != perr.ErrNoError {
				r.Violation("stateful:fresh-tx-refused:"+when, fmt.Sprintf("tx not in any committed block, validator answered %d (%s)", rsp.ErrCode, rsp.ErrCode.Error()), kit.Hex(e.tx.ToArray()))
			}
		}
	}
	// the genesis transaction is in the ledger
	for _, gtx := range c.Genesis.Transactions {
		rsp, ok := ask(gtx)
		if ok {
			r.Eval(1)
			r.Count("stateful_in_ledger", 1)
			if rsp.ErrCode != perr.ErrDuplicatedTx {
				r.Violation("stateful:committed-tx-accepted:genesis", fmt.Sprintf("genesis tx, validator answered %d", rsp.ErrCode), nil)
			}
		}
	}
	for b := 0; b < nBlocks; b++ {
		for k := rng.Intn(5); k > 0; k-- {
			pool = append(pool, mk())
		}
		// choose a subset of the not-yet-committed entries for the block
		var blockTxs []*types.Transaction
		var chosen []*entry
		for _, e := range pool {
			if e.committed == 0 && rng.Intn(3) == 0 && len(blockTxs) < 4 {
				blockTxs = append(blockTxs, e.tx)
				chosen = append(chosen, e)
			}
		}
		// blocks committed INSIDE the validator's handling of a CheckTx (between its containment
		// lookup and its answer): 1..3 blocks, one of them containing the very transaction asked about
		if b%2 == 0 {
			e := mk()
			pool = append(pool, e)
			k := 1 + rng.Intn(3)
			at := rng.Intn(k)
			var others []*entry
			for _, o := range pool {
				if o.committed == 0 && o != e && len(others) < 2 && rng.Intn(4) == 0 {
					inChosen := false
					for _, ch := range chosen {
						if ch == o {
							inChosen = true
						}
					}
					if !inChosen {
						others = append(others, o)
					}
				}
			}
			var hookErr error
			ws.afterLookup = func() {
				for i := 0; i < k; i++ {
					var txs []*types.Transaction
					var es []*entry
					if i == at {
						txs, es = append(txs, e.tx), append(es, e)
					}
					if i == 0 {
						for _, o := range others {
							txs, es = append(txs, o.tx), append(es, o)
						}
					}
					blk, _, err := c.AddBlock(txs, pk.BlockOpt{})
					if err != nil {
						hookErr = err
						return
					}
					for _, x := range es {
						x.committed = blk.Header.Height
					}
				}
			}
			before := c.Store.GetCurrentBlockHeight()
			rsp, ok := ask(e.tx)
			if hookErr != nil || !ok || ws.afterLookup != nil {
				r.Inconclusive(fmt.Sprintf("window injection failed: %v ok=%v", hookErr, ok))
				return
			}
			r.Eval(1)
			r.Count("stateful_window_probes", 1)
			r.Count("stateful_blocks", k)
			r.Distinct("stateful-window", k, at, rsp.ErrCode == perr.ErrNoError)
			// from the statement: an answer "not a duplicate, as of height H" must mean the tx is in no
			// block <= H of the ledger at the time of the answer
			switch rsp.ErrCode {
			case perr.ErrNoError:
				r.Count("stateful_window_answer_noerror", 1)
				if e.committed != 0 && e.committed <= rsp.Height {
					r.Violation("stateful:accepted-as-of-height-covering-its-block",
						fmt.Sprintf("ledger at %d when the CheckTx arrived; %d block(s) were committed while the validator handled it, the tx in block %d; answer: not a duplicate as of height %d (ledger now at %d)", before, k, e.committed, rsp.Height, c.Store.GetCurrentBlockHeight()),
						map[string]interface{}{"tx": kit.Hex(e.tx.ToArray()), "blocks_in_window": k, "tx_block": e.committed, "answered_height": rsp.Height})
				}
			case perr.ErrDuplicatedTx:
				r.Count("stateful_window_answer_duplicate", 1)
				if e.committed == 0 {
					r.Violation("stateful:fresh-tx-refused:window", "tx in no block but refused as duplicate", kit.Hex(e.tx.ToArray()))
				}
			default:
				r.Violation("stateful:fresh-tx-refused:window", fmt.Sprintf("answer %d", rsp.ErrCode), kit.Hex(e.tx.ToArray()))
			}
			// asked again with no commit in flight: now it is in the ledger
			check(e, "after-window-commit")
		}
		for _, e := range chosen {
			check(e, "before-commit")
		}
		blk, _, err := c.AddBlock(blockTxs, pk.BlockOpt{})
		if err != nil {
			r.Inconclusive("AddBlock: " + err.Error())
			return
		}
		r.Count("stateful_blocks", 1)
		for _, e := range chosen {
			e.committed = blk.Header.Height
		}
		r.Distinct("stateful", len(blockTxs), len(pool)/8)
		// after the commit: every entry is asked again (committed ones of all earlier blocks too)
		lo := 0
		if len(pool) > 60 {
			lo = rng.Intn(len(pool) - 60)
		}
		for _, e := range pool[lo:] {
			check(e, "after-commit")
		}
	}
	// --- the node restarts: the ledger is closed and opened again over the same directory. Whatever
	// was committed before is still "in the ledger"; nothing that was not committed is.
	reopen := func(when string) bool {
		nonce := c.Nonce
		cur.Close()
		c2, l2, err := pk.OpenLedger(dir, 38, vals)
		if err != nil {
			r.Inconclusive("reopen: " + err.Error())
			return false
		}
		c2.Nonce = nonce
		c, cur = c2, l2
		ws = &windowStore{LedgerStore: l2.GetStore()}
		ledger.DefLedger = ledgerOver(ws)
		r.Count("stateful_reopens", 1)
		asked := 0
		for _, e := range pool {
			if e.committed > 0 {
				r.Count("stateful_asked_after_reopen_committed", 1)
			}
			check(e, when)
			asked++
		}
		for i := 0; i < 10; i++ { // and fresh ones are still fresh
			e := mk()
			pool = append(pool, e)
			check(e, when)
		}
		return true
	}
	if !reopen("after-reopen") {
		return
	}
	// --- a long time passes: many thousands of other transactions are committed after the ones we
	// track (any bounded lookup cache in front of the store has turned over several times by then)
	early := append([]*entry{}, pool...)
	filler := r.N(12000, 36000)
	perBlock := 1500
	for done := 0; done < filler; done += perBlock {
		txs := make([]*types.Transaction, perBlock)
		for i := range txs {
			c.Nonce++
			txs[i] = pk.MakeTx(c.ChainID, c.Nonce, []byte{0xC3, 0x80, byte(i), byte(i >> 8)})
		}
		blk, _, err := c.AddBlock(txs, pk.BlockOpt{})
		if err != nil {
			r.Inconclusive("AddBlock(filler): " + err.Error())
			return
		}
		r.Count("stateful_blocks", 1)
		r.Count("stateful_filler_txs", perBlock)
		// a sample of the filler itself is tracked too
		for i := 0; i < 3; i++ {
			pool = append(pool, &entry{tx: txs[rng.Intn(perBlock)], committed: blk.Header.Height})
		}
	}
	for _, e := range early {
		if e.committed > 0 {
			r.Count("stateful_asked_after_many_later_txs_committed", 1)
		}
		check(e, "after-many-later-txs")
	}
	for _, e := range pool[len(early):] {
		check(e, "after-many-later-txs")
	}
	if !reopen("after-second-reopen") {
		return
	}
	r.Sample(map[string]interface{}{"part": "stateful", "blocks": nBlocks, "transactions": len(pool), "filler_transactions": filler, "reopens": 2, "ledger_height": c.Store.GetCurrentBlockHeight()})
}

func TestC38(t *testing.T) {
	r := kit.Start(t, "C38", "exploration")
	defer r.Finish()
	r.Rule("increment validator: scripts over capacity 1..8 of {successor, gap, repeat/older, clean} blocks with 0..4 of 48 txs, after every step BlockRange and Verify(tx,start) for start ∈ {0, base-1, every tracked height, end, end+1} vs a reference tracker; concurrent AddBlock/Verify/BlockRange/Clean histories (2..12 goroutines racing for the same successor heights) checked by porcupine against the same reference; stateful validator actor on a real ledger: every tx asked before and after its block is committed, and every second round asked WHILE 1..3 blocks (one containing it) are committed between the validator's ledger lookup and its answer (schedule injected through a decorator of the store behind ledger.DefLedger); then the ledger is closed and reopened over the same directory (restart) and every tx asked again, then 12000 / 36000 further transactions are committed and every tx asked again, then a second restart; distinct = (part, capacity, op-mix)")
	r.Assume("Verify with start below the tracked range and a tx that is in no tracked block >= start: any non-'duplicated' answer is accepted (the tracker cannot vouch for heights it does not cover)")
	r.Assume("capacity = the positive maxBlocks given to NewIncrementValidator (maxBlocks <= 0 is not exercised)")
	txs := universe(r.Rand("txs"))
	sequentialPart(r, txs)
	nHist := r.N(600, 80000)
	concurrentPart(r, txs, nHist, true)
	statefulPart(r)
	r.Require("seq_block_tracked", 1000)
	r.Require("seq_block_ignored", 500)
	r.Require("seq_evicted_oldest", 300)
	r.Require("seq_verify_duplicate", 1000)
	r.Require("seq_verify_clean", 1000)
	r.Require("seq_verify_only_below_start", 100)
	r.Require("seq_verify_uncovered_range", 100)
	r.Require("porcupine_ok", nHist-nHist/50)
	r.Require("conc_ops_overlapping_an_earlier_op", nHist)
	r.Require("conc_verify_err", nHist)
	r.Require("conc_verify_ok", nHist)
	r.Require("stateful_in_ledger", 50)
	r.Require("stateful_not_in_ledger", 50)
	r.Require("stateful_window_probes", 15)
	r.Require("stateful_reopens", 2)
	r.Require("stateful_asked_after_reopen_committed", 100)
	r.Require("stateful_filler_txs", 12000)
	r.Require("stateful_asked_after_many_later_txs_committed", 30)
	if n := r.Get("porcupine_unknown"); n > int64(nHist/50) {
		r.Inconclusive(fmt.Sprintf("%d histories timed out in porcupine", n))
	}
}

// TestC38Race: the concurrent workload under the race detector (driver phase "race").
func TestC38Race(t *testing.T) {
	if os.Getenv("VERIF_PHASE") != "race" && os.Getenv("VERIF_C38_RACE") == "" {
		t.Skip("race phase only")
	}
	r := kit.Start(t, "C38", "exploration")
	defer r.Finish()
	r.Rule("concurrent AddBlock/Verify/BlockRange/Clean workload of the main phase under -race (no porcupine)")
	txs := universe(r.Rand("txs"))
	concurrentPart(r, txs, r.N(300, 20000), false)
	r.Sample(map[string]interface{}{"part": "race", "histories": r.Get("conc_histories")})
}
