package ethsynth

import (
	"math/big"

	"golang.org/x/crypto/sha3"
)

// ---- Keccak / RLP (yellow paper appendix B), written here independently of any library ----

// Keccak is Keccak-256.
func Keccak(bs ...[]byte) Hash {
	h := sha3.NewLegacyKeccak256()
	for _, b := range bs {
		h.Write(b)
	}
	var out Hash
	copy(out[:], h.Sum(nil))
	return out
}

func rlpLen(n int, offset byte) []byte {
	if n < 56 {
		return []byte{offset + byte(n)}
	}
	var be []byte
	for x := n; x > 0; x >>= 8 {
		be = append([]byte{byte(x)}, be...)
	}
	return append([]byte{offset + 55 + byte(len(be))}, be...)
}

// RlpBytes encodes a byte string.
func RlpBytes(b []byte) []byte {
	if len(b) == 1 && b[0] < 0x80 {
		return []byte{b[0]}
	}
	return append(rlpLen(len(b), 0x80), b...)
}

// RlpBig encodes a non-negative integer (big-endian, no leading zeros; zero = empty string).
func RlpBig(x *big.Int) []byte { return RlpBytes(x.Bytes()) }

// RlpUint encodes a uint64.
func RlpUint(x uint64) []byte { return RlpBig(new(big.Int).SetUint64(x)) }

// RlpList encodes a list of already-encoded items.
func RlpList(items ...[]byte) []byte {
	var body []byte
	for _, it := range items {
		body = append(body, it...)
	}
	return append(rlpLen(len(body), 0xc0), body...)
}

// ---- difficulty (EIP-100 adjustment, EIP-649/1234/2384/3554/4345 bomb delays) ----

// SpecDifficulty is the Byzantium-and-later difficulty formula:
//
//	adj   = max((2 if parent has uncles else 1) - (time - parent.time) // 9, -99)
//	diff  = max(parent.diff + parent.diff // 2048 * adj, 131072)
//	fake  = max(0, block.number - delay)           (block.number = parent.number + 1)
//	diff += 2^(fake // 100000 - 2)   if fake // 100000 >= 2
func SpecDifficulty(delay uint64, time, parentTime uint64, parentDiff *big.Int, parentNumber uint64, parentHasUncles bool) *big.Int {
	elapsed := new(big.Int).Sub(new(big.Int).SetUint64(time), new(big.Int).SetUint64(parentTime))
	q := new(big.Int).Quo(elapsed, big.NewInt(9)) // time > parent.time in every valid pair; Quo == floor there
	if elapsed.Sign() < 0 {
		q = new(big.Int).Div(elapsed, big.NewInt(9))
	}
	base := int64(1)
	if parentHasUncles {
		base = 2
	}
	adj := new(big.Int).Sub(big.NewInt(base), q)
	if adj.Cmp(big.NewInt(-99)) < 0 {
		adj = big.NewInt(-99)
	}
	d := new(big.Int).Quo(parentDiff, big.NewInt(2048))
	d.Mul(d, adj)
	d.Add(d, parentDiff)
	if d.Cmp(big.NewInt(131072)) < 0 {
		d = big.NewInt(131072)
	}
	number := new(big.Int).SetUint64(parentNumber)
	number.Add(number, big.NewInt(1))
	fake := new(big.Int).Sub(number, new(big.Int).SetUint64(delay))
	if fake.Sign() < 0 {
		fake = new(big.Int)
	}
	period := new(big.Int).Quo(fake, big.NewInt(100000))
	if period.Cmp(big.NewInt(2)) >= 0 {
		e := new(big.Int).Sub(period, big.NewInt(2))
		d.Add(d, new(big.Int).Exp(big.NewInt(2), e, nil))
	}
	return d
}

// Forks are the activation heights relevant to the tracked Ethereum chain (0 = never).
type Forks struct {
	London       uint64 // EIP-1559 + EIP-3554 (bomb delay 9.7M)
	ArrowGlacier uint64 // EIP-4345 (bomb delay 10.7M)
}

// Public fork heights: main net (London 12,965,000; Arrow Glacier 13,773,000), Ropsten (London
// 10,499,401; Arrow Glacier was never activated there).
var (
	MainnetForks = Forks{London: 12965000, ArrowGlacier: 13773000}
	RopstenForks = Forks{London: 10499401}
)

// ForksFor maps a poly network id to the Ethereum network it tracks (1 = main net, anything else
// follows the Ropsten schedule as poly's configuration does for test/solo nets).
func ForksFor(netID uint32) Forks {
	if netID == 1 {
		return MainnetForks
	}
	return RopstenForks
}

// IsLondon reports whether a block number is at or after London.
func (f Forks) IsLondon(number uint64) bool { return f.London != 0 && number >= f.London }

// Delay is the bomb delay in force for a block number: 9,000,000 (EIP-2384, Muir Glacier) before
// London, 9,700,000 (EIP-3554) from London, 10,700,000 (EIP-4345) from Arrow Glacier.
func (f Forks) Delay(number uint64) uint64 {
	switch {
	case f.ArrowGlacier != 0 && number >= f.ArrowGlacier:
		return 10700000
	case f.IsLondon(number):
		return 9700000
	default:
		return 9000000
	}
}

// ---- EIP-1559 ----

const (
	SpecInitialBaseFee = 1000000000
	SpecElasticity     = 2
	SpecBaseFeeDenom   = 8
	SpecMinGasLimit    = 5000
	SpecGasLimitBound  = 1024
)

// SpecBaseFee is EIP-1559's expected base fee of the child of a parent block.
// parentIsLondon=false means the child is the fork block.
func SpecBaseFee(parentIsLondon bool, parentGasLimit, parentGasUsed uint64, parentBaseFee *big.Int) *big.Int {
	if !parentIsLondon {
		return big.NewInt(SpecInitialBaseFee)
	}
	target := parentGasLimit / SpecElasticity
	switch {
	case parentGasUsed == target:
		return new(big.Int).Set(parentBaseFee)
	case parentGasUsed > target:
		delta := new(big.Int).Mul(parentBaseFee, new(big.Int).SetUint64(parentGasUsed-target))
		delta.Quo(delta, new(big.Int).SetUint64(target))
		delta.Quo(delta, big.NewInt(SpecBaseFeeDenom))
		if delta.Sign() == 0 {
			delta = big.NewInt(1)
		}
		return delta.Add(delta, parentBaseFee)
	default:
		delta := new(big.Int).Mul(parentBaseFee, new(big.Int).SetUint64(target-parentGasUsed))
		delta.Quo(delta, new(big.Int).SetUint64(target))
		delta.Quo(delta, big.NewInt(SpecBaseFeeDenom))
		return new(big.Int).Sub(parentBaseFee, delta)
	}
}

// SpecGasLimitOK is the gas-limit rule: |gasLimit - parentGasLimit| < parentGasLimit // 1024 and
// gasLimit >= 5000. For the London fork block the caller passes parentGasLimit * 2 (EIP-1559).
// Computed on unbounded integers.
func SpecGasLimitOK(parentGasLimit *big.Int, gasLimit uint64) bool {
	gl := new(big.Int).SetUint64(gasLimit)
	diff := new(big.Int).Sub(parentGasLimit, gl)
	diff.Abs(diff)
	bound := new(big.Int).Quo(parentGasLimit, big.NewInt(SpecGasLimitBound))
	return diff.Cmp(bound) < 0 && gasLimit >= SpecMinGasLimit
}
