#!/usr/bin/env python3
"""run_all.py [--tier quick|thorough] [--jobs N] [--seed S] [ids...] — run checks and print a table."""
import json, os, subprocess, sys, time, concurrent.futures as cf
VERIF = os.path.dirname(os.path.dirname(os.path.abspath(__file__)))
args = sys.argv[1:]
tier, jobs, seed, ids = "quick", 3, None, []
i = 0
while i < len(args):
    if args[i] == "--tier": tier = args[i+1]; i += 2
    elif args[i] == "--jobs": jobs = int(args[i+1]); i += 2
    elif args[i] == "--seed": seed = args[i+1]; i += 2
    else: ids.append(args[i]); i += 1
if not ids:
    ids = sorted(f[:-5] for f in os.listdir(os.path.join(VERIF, "checks.d")) if f.endswith(".json"))
def run(pid):
    env = dict(os.environ)
    if seed: env["VERIF_SEED"] = seed
    t0 = time.time()
    p = subprocess.run([os.path.join(VERIF, "check"), pid, "--tier", tier], cwd=VERIF, env=env, stdout=subprocess.PIPE, stderr=subprocess.STDOUT)
    out = p.stdout.decode(errors="replace")
    kf = out.count("KNOWN-FINDING:")
    vio = [l for l in out.splitlines() if l.startswith("VIOLATION") or l.startswith("INCONCLUSIVE") or l.startswith("  key=")]
    return pid, p.returncode, time.time() - t0, kf, vio[:6]
bad = 0
with cf.ThreadPoolExecutor(jobs) as ex:
    for pid, rc, dt, kf, vio in ex.map(run, ids):
        print("%-4s exit=%d wall=%4.0fs known=%d" % (pid, rc, dt, kf), flush=True)
        for v in vio: print("      " + v[:200])
        bad += rc != 0
print("checks=%d non-zero=%d" % (len(ids), bad))
sys.exit(1 if bad else 0)
