package c08

// Proof requests that overlap a commit. Two workloads:
//
//   - ledger level: while SubmitBlock of block r is running, reader goroutines ask the RPC handler for
//     block-inclusion proofs against root height r (the block in flight, whose header the relayer may
//     already know from consensus / another node) and against the current tip;
//   - accumulator level: the real CompactMerkleTree over the real file hash store, with the store's
//     Append parked on a channel, so that requests are made at exactly the moment a leaf is being
//     persisted (deterministic version of the same overlap).
//
// Oracle (property text): a proof that IS served verifies against header r's block root and yields
// block h's hash; refusing ("not available yet") while r is not committed is fine.

import (
	"bytes"
	"crypto/sha256"
	"fmt"
	"math/rand"
	"os"
	"path/filepath"
	"sync"
	"sync/atomic"

	"verifharness/kit"
	"verifharness/kit/pk"
	"verifharness/probe"

	"github.com/polynetwork/poly/common"
	"github.com/polynetwork/poly/core/types"
	"github.com/polynetwork/poly/merkle"
)

// inflightLedger commits n more blocks; during every commit readers request proofs.
func (e *env) inflightLedger(n int) bool {
	r := e.r
	const readers = 6
	for i := 0; i < n; i++ {
		tip := e.chain.Store.GetCurrentBlockHeight()
		tx := e.chain.InvokeTx(probe.Address, probe.Method, probe.Encode(probe.Script{probe.Put([]byte("inflight"), []byte(fmt.Sprint(i)))}))
		blk, res, err := e.chain.BuildBlock([]*types.Transaction{tx}, pk.BlockOpt{})
		if err == nil {
			blk, err = pk.Reparse(blk)
		}
		if err != nil {
			r.Violation("honest-block-refused", "inflight build: "+err.Error(), nil)
			return false
		}
		next := blk.Header.Height
		nextRoot := [32]byte(blk.Header.BlockRoot)
		var done int32
		var started int32
		var wg sync.WaitGroup
		for g := 0; g < readers; g++ {
			wg.Add(1)
			rng := rand.New(rand.NewSource(r.Rand(fmt.Sprintf("inflight-%d-%d", i, g)).Int63()))
			go func(g int) {
				defer wg.Done()
				first := true
				for atomic.LoadInt32(&done) == 0 || first {
					rt := next
					if rng.Intn(3) == 0 {
						rt = tip
					}
					if rt == 0 {
						rt = next
					}
					h := uint32(rng.Intn(int(rt)))
					proof, err := servedBlockProof(h, rt)
					if first {
						first = false
						atomic.AddInt32(&started, 1)
					}
					what := fmt.Sprintf("block %d in header %d while block %d is being committed", h, rt, next)
					replay := map[string]interface{}{"h": h, "r": rt, "in_flight": next}
					if err != nil {
						if rt == next {
							r.Count("inflight_root_refused", 1)
						} else {
							r.Violation("block-proof-not-served", what+": "+err.Error(), replay)
						}
						continue
					}
					root := nextRoot
					if rt != next {
						root = [32]byte(e.hdrs[rt].BlockRoot)
					}
					want := e.hdrs[h].Hash()
					v, ok := relayerVerify(proof, root)
					v2, err2 := merkle.MerkleProve(proof, root[:])
					if !ok || err2 != nil || !bytes.Equal(v, want.ToArray()) || !bytes.Equal(v2, want.ToArray()) {
						r.Violation("block-proof-served-during-commit-does-not-verify", fmt.Sprintf("%s: the served proof does not verify against the header's block root (MerkleProve: %v)", what, err2), replay)
						continue
					}
					if rt == next {
						r.Count("inflight_root_served_valid", 1)
					} else {
						r.Count("tip_root_served_valid_during_commit", 1)
					}
				}
			}(g)
		}
		for atomic.LoadInt32(&started) < readers {
			// every reader has made its first request before the commit starts
			var spin sync.WaitGroup
			spin.Add(1)
			go func() { spin.Done() }()
			spin.Wait()
		}
		err = e.chain.Store.SubmitBlock(blk, res)
		atomic.StoreInt32(&done, 1)
		wg.Wait()
		if err != nil || e.chain.Store.GetCurrentBlockHeight() != next {
			r.Violation("honest-block-refused", fmt.Sprintf("inflight block %d: %v", next, err), nil)
			return false
		}
		hdr, _ := e.l.GetHeaderByHeight(next)
		e.hdrs[next] = hdr
		e.recs[next] = nil
		r.Eval(1)
		r.Distinct("inflight-commit", next)
		r.Count("commits_with_concurrent_proof_requests", 1)
		e.checkPair(next-1, next, "root-is-tip")
		if r.Violations() > 5 {
			return false
		}
	}
	return true
}

// mth is RFC 6962's Merkle tree hash, written from the RFC.
func mth(leaves [][]byte) [32]byte {
	if len(leaves) == 1 {
		return sha256.Sum256(append([]byte{0}, leaves[0]...))
	}
	k := 1
	for k*2 < len(leaves) {
		k *= 2
	}
	l, rr := mth(leaves[:k]), mth(leaves[k:])
	return sha256.Sum256(append(append([]byte{1}, l[:]...), rr[:]...))
}

type gatedStore struct {
	merkle.HashStore
	armed   int32
	entered chan struct{}
	release chan struct{}
}

func (g *gatedStore) Append(h []common.Uint256) error {
	if atomic.LoadInt32(&g.armed) == 1 {
		g.entered <- struct{}{}
		<-g.release
	}
	return g.HashStore.Append(h)
}

// inflightTree grows the block-hash accumulator the way StateStore does (Append of the 32-byte
// block hash, proofs by MerkleInclusionLeafPath(hash, index, size)) and requests proofs while a leaf
// is being persisted.
func inflightTree(r *kit.Run, sizes int) {
	dir := pk.TempDir("c08tree")
	defer os.RemoveAll(dir)
	fs, err := merkle.NewFileHashStore(filepath.Join(dir, "merkle_tree.db"), 0)
	if err != nil {
		r.Inconclusive("file hash store: " + err.Error())
		return
	}
	defer fs.Close()
	g := &gatedStore{HashStore: fs, entered: make(chan struct{}), release: make(chan struct{})}
	tree := merkle.NewTree(0, nil, g)
	rng := r.Rand("inflight-tree")
	var leaves [][]byte
	check := func(m, n uint32, phase string) (served bool) {
		proof, err := tree.MerkleInclusionLeafPath(leaves[m], m, n)
		if err != nil {
			return false
		}
		root := mth(leaves[:n])
		v, ok := relayerVerify(proof, root)
		if !ok || !bytes.Equal(v, leaves[m]) {
			r.Violation("block-proof-served-during-commit-does-not-verify", fmt.Sprintf("accumulator: leaf %d in size %d requested %s: the served proof does not verify against the RFC 6962 root of the first %d leaves", m, n, phase, n),
				map[string]interface{}{"m": m, "n": n, "phase": phase})
		}
		return true
	}
	for n := 0; n < sizes; n++ {
		d := make([]byte, 32)
		rng.Read(d)
		leaves = append(leaves, d) // leaves[n] is the one being appended
		atomic.StoreInt32(&g.armed, 1)
		fin := make(chan struct{})
		go func() { tree.Append(d); close(fin) }()
		<-g.entered
		// the append of leaf n is parked inside the hash store: ask for proofs of the size being produced
		for m := 0; m <= n; m++ {
			if n > 40 && m != 0 && m != n && rng.Intn(n) > 30 {
				continue
			}
			r.Eval(1)
			r.Distinct("tree-inflight", m, n+1)
			if check(uint32(m), uint32(n+1), "while that size is being persisted") {
				r.Count("tree_inflight_size_served_valid", 1)
			} else {
				r.Count("tree_inflight_size_refused", 1)
			}
			if m < n {
				if check(uint32(m), uint32(n), "while the next leaf is being persisted") {
					r.Count("tree_committed_size_served_valid_during_append", 1)
				} else {
					r.Violation("block-proof-not-served", fmt.Sprintf("accumulator: leaf %d in committed size %d refused while leaf %d is being appended", m, n, n), nil)
				}
			}
		}
		atomic.StoreInt32(&g.armed, 0)
		g.release <- struct{}{}
		<-fin
		if !check(uint32(rng.Intn(n+1)), uint32(n+1), "after the append") {
			r.Violation("block-proof-not-served", fmt.Sprintf("accumulator: size %d refused after its append finished", n+1), nil)
		}
		r.Count("tree_appends_with_inflight_requests", 1)
		if r.Violations() > 5 {
			return
		}
	}
}
