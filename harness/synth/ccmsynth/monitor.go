package ccmsynth

import (
	"bytes"
	"crypto/sha256"
	"fmt"
	"sort"

	"github.com/polynetwork/poly/common"
	cstates "github.com/polynetwork/poly/core/states"
	scommon "github.com/polynetwork/poly/core/store/common"
	scom "github.com/polynetwork/poly/native/service/cross_chain_manager/common"

	"verifharness/kit/nat"
	"verifharness/kit/pk"
)

// Obs is what one call did to the committed state of the whole universe.
type Obs struct {
	Rec                     *nat.CallRecord
	Added, Changed, Removed []nat.KV // Changed/Removed carry the NEW / OLD value respectively
	DigestBefore            string
	DigestAfter             string
}

// Do runs call and records the committed-state delta around it (all contracts).
func (w *World) Do(call func() *nat.CallRecord) *Obs {
	before := w.dumpAll()
	rec := call()
	w.lastDump = nil
	after := w.dumpAll()
	o := &Obs{Rec: rec, DigestBefore: digest(before), DigestAfter: digest(after)}
	old := map[string][]byte{}
	for _, kv := range before {
		old[string(kv.K)] = kv.V
	}
	for _, kv := range after {
		v, ok := old[string(kv.K)]
		if !ok {
			o.Added = append(o.Added, kv)
		} else if !bytes.Equal(v, kv.V) {
			o.Changed = append(o.Changed, kv)
		}
		delete(old, string(kv.K))
	}
	for k, v := range old {
		o.Removed = append(o.Removed, nat.KV{K: []byte(k), V: v})
	}
	sort.Slice(o.Removed, func(i, j int) bool { return bytes.Compare(o.Removed[i].K, o.Removed[j].K) < 0 })
	return o
}

// dumpAll lists the committed contract storage (like nat.Env.Dump(nil)) and remembers it until the
// next call made through the Env (detected by the Env's nonce), so that back-to-back observed calls
// dump once. It relies on the driver's invariant that the cache is empty between calls.
func (w *World) dumpAll() []nat.KV {
	if w.lastDump != nil && w.lastNonce == w.E.Nonce {
		return w.lastDump
	}
	it := w.E.Overlay.NewIterator([]byte{byte(scommon.ST_STORAGE)})
	var out []nat.KV
	for ok := it.First(); ok; ok = it.Next() {
		out = append(out, nat.KV{K: append([]byte{}, it.Key()[1:]...), V: append([]byte{}, it.Value()...)})
	}
	it.Release()
	sort.Slice(out, func(i, j int) bool { return bytes.Compare(out[i].K, out[j].K) < 0 })
	w.lastDump, w.lastNonce = out, w.E.Nonce
	return out
}

// Snapshot is a saved universe state (see World.Snapshot / Restore).
type Snapshot struct {
	raw    []nat.KV
	vals   []*pk.Key
	wal    map[string]*pk.Key
	height uint32
	time   uint32
}

// Snapshot saves the committed state, the validator bookkeeping and the clock.
func (w *World) Snapshot() *Snapshot {
	w.E.Cache.Reset()
	s := &Snapshot{vals: append([]*pk.Key{}, w.Vals...), height: w.E.Height, time: w.E.Time, wal: map[string]*pk.Key{}}
	for k, v := range w.Wallets {
		s.wal[k] = v
	}
	it := w.E.Overlay.NewIterator(nil)
	for ok := it.First(); ok; ok = it.Next() {
		s.raw = append(s.raw, nat.KV{K: append([]byte{}, it.Key()...), V: append([]byte{}, it.Value()...)})
	}
	it.Release()
	return s
}

// Restore rewinds the universe to a snapshot taken on this same World (the nonce keeps counting,
// so transactions of different histories still have different hashes). Everything the direct
// driver commits lives in the overlay (it never flushes to the backing store), so restoring is
// clearing the overlay and re-inserting the saved entries.
func (w *World) Restore(s *Snapshot) {
	w.E.Cache.Reset()
	w.E.Overlay.Reset()
	for _, kv := range s.raw {
		w.E.Overlay.Put(kv.K, kv.V)
	}
	w.Vals = append([]*pk.Key{}, s.vals...)
	w.Wallets = map[string]*pk.Key{}
	for k, v := range s.wal {
		w.Wallets[k] = v
	}
	w.E.Height, w.E.Time = s.height, s.time
	w.lastDump = nil
}

func digest(kvs []nat.KV) string {
	h := sha256.New()
	for _, kv := range kvs {
		fmt.Fprintf(h, "%d:%x=%d:%x;", len(kv.K), kv.K, len(kv.V), kv.V)
	}
	return fmt.Sprintf("%x", h.Sum(nil)[:16])
}

// Unchanged reports whether the committed state is byte-identical before and after.
func (o *Obs) Unchanged() bool {
	return o.DigestBefore == o.DigestAfter && len(o.Added)+len(o.Changed)+len(o.Removed) == 0
}

// Touched lists every key added, changed or removed (hex with +/~/- marks) for replay files.
func (o *Obs) Touched() []string {
	var out []string
	for _, kv := range o.Added {
		out = append(out, fmt.Sprintf("+%x", kv.K))
	}
	for _, kv := range o.Changed {
		out = append(out, fmt.Sprintf("~%x", kv.K))
	}
	for _, kv := range o.Removed {
		out = append(out, fmt.Sprintf("-%x", kv.K))
	}
	return out
}

// TouchedUnder counts added / changed / removed keys under the cross-chain manager tag.
func (o *Obs) TouchedUnder(tag string) (added, changed, removed []nat.KV) {
	for _, kv := range o.Added {
		if HasPrefix(kv.K, tag) {
			added = append(added, kv)
		}
	}
	for _, kv := range o.Changed {
		if HasPrefix(kv.K, tag) {
			changed = append(changed, kv)
		}
	}
	for _, kv := range o.Removed {
		if HasPrefix(kv.K, tag) {
			removed = append(removed, kv)
		}
	}
	return
}

// OnlyUnder reports whether every touched key lies under one of the given cross-chain-manager tags.
func (o *Obs) OnlyUnder(tags ...string) bool {
	chk := func(kvs []nat.KV) bool {
		for _, kv := range kvs {
			ok := false
			for _, t := range tags {
				if HasPrefix(kv.K, t) {
					ok = true
				}
			}
			if !ok {
				return false
			}
		}
		return true
	}
	return chk(o.Added) && chk(o.Changed) && chk(o.Removed)
}

// Finding is one discrepancy found by a monitor; Code is stable (usable in violation keys).
type Finding struct {
	Code   string
	Detail string
}

// Release is what an accepted import towards an account-based chain must have committed, stated
// from the property: one request keyed (destination chain, relay tx hash) holding (relay tx hash,
// source chain, verified message), and that same content as the single cross-state leaf.
type Release struct {
	Source uint64
	Param  *scom.MakeTxParam // the verified message
}

// leafHash is the RFC 6962 leaf hash: SHA-256(0x00 ‖ data).
func leafHash(data []byte) [32]byte {
	return sha256.Sum256(append([]byte{0}, data...))
}

// CheckRelease is the C22 monitor for an accepted import.
func CheckRelease(o *Obs, exp Release) []Finding { return checkRelease(o, exp, false) }

// CheckReleaseLoose is CheckRelease for routers that rewrite the destination contract and the
// arguments of the message (ripple-as-source): those two fields are not compared.
func CheckReleaseLoose(o *Obs, exp Release) []Finding { return checkRelease(o, exp, true) }

func checkRelease(o *Obs, exp Release, loose bool) []Finding {
	var out []Finding
	add := func(code, f string, a ...interface{}) { out = append(out, Finding{code, fmt.Sprintf(f, a...)}) }
	if !o.Rec.Ok {
		add("accepted-import-call-failed", "%s", o.Rec.Err)
		return out
	}
	relay := o.Rec.Tx.Hash()
	added, changed, removed := o.TouchedUnder(scom.REQUEST)
	if len(added) != 1 || len(changed) != 0 || len(removed) != 0 {
		add("request-count", "request keys added=%d changed=%d removed=%d (want exactly one new)", len(added), len(changed), len(removed))
	}
	var value []byte
	if len(added) >= 1 {
		want := RequestKey(exp.Param.ToChainID, relay.ToArray())
		found := false
		for _, kv := range added {
			if bytes.Equal(kv.K, want) {
				found = true
				v, err := cstates.GetValueFromRawStorageItem(kv.V)
				if err != nil {
					add("request-value-undecodable", "raw storage item: %v", err)
				} else {
					value = v
				}
			}
		}
		if !found {
			add("request-key", "no new key == contract‖request‖LE64(to=%d)‖relayTxHash %x; new keys: %x", exp.Param.ToChainID, relay.ToArray(), added[0].K)
		}
	}
	if value != nil {
		mv := new(scom.ToMerkleValue)
		if err := mv.Deserialization(common.NewZeroCopySource(value)); err != nil {
			add("request-value-undecodable", "ToMerkleValue: %v", err)
		} else {
			if !bytes.Equal(mv.TxHash, relay.ToArray()) {
				add("request-content", "relay tx hash %x != %x", mv.TxHash, relay.ToArray())
			}
			if mv.FromChainID != exp.Source {
				add("request-content", "source chain %d != %d", mv.FromChainID, exp.Source)
			}
			want := *exp.Param
			if loose && mv.MakeTxParam != nil {
				want.ToContractAddress, want.Args = mv.MakeTxParam.ToContractAddress, mv.MakeTxParam.Args
			}
			if d := DiffParam(mv.MakeTxParam, &want); d != "" {
				add("request-content", "message differs: %s", d)
			}
		}
	}
	if len(o.Rec.CrossHashes) != 1 {
		add("leaf-count", "cross-state leaves committed by the tx: %d (want 1)", len(o.Rec.CrossHashes))
	} else if value != nil {
		want := leafHash(value)
		got := o.Rec.CrossHashes[0]
		if !bytes.Equal(got[:], want[:]) {
			add("leaf-hash", "leaf %x != SHA256(0x00‖request value) %x", got[:], want[:])
		}
	}
	return out
}

// CheckNoRelease is the C22 monitor for everything that is not an accepted import: no request key
// touched, no leaf.
func CheckNoRelease(o *Obs) []Finding {
	var out []Finding
	a, c, r := o.TouchedUnder(scom.REQUEST)
	if len(a)+len(c)+len(r) != 0 {
		out = append(out, Finding{"request-without-acceptance", fmt.Sprintf("request keys added=%d changed=%d removed=%d", len(a), len(c), len(r))})
	}
	if len(o.Rec.CrossHashes) != 0 {
		out = append(out, Finding{"leaf-without-acceptance", fmt.Sprintf("%d cross-state leaves", len(o.Rec.CrossHashes))})
	}
	return out
}

// DiffParam names the first differing field of two messages ("" if equal).
func DiffParam(a, b *scom.MakeTxParam) string {
	if a == nil || b == nil {
		if a == nil && b == nil {
			return ""
		}
		return "nil message"
	}
	switch {
	case !bytes.Equal(a.TxHash, b.TxHash):
		return fmt.Sprintf("TxHash %x != %x", a.TxHash, b.TxHash)
	case !bytes.Equal(a.CrossChainID, b.CrossChainID):
		return fmt.Sprintf("CrossChainID %x != %x", a.CrossChainID, b.CrossChainID)
	case !bytes.Equal(a.FromContractAddress, b.FromContractAddress):
		return fmt.Sprintf("FromContractAddress %x != %x", a.FromContractAddress, b.FromContractAddress)
	case a.ToChainID != b.ToChainID:
		return fmt.Sprintf("ToChainID %d != %d", a.ToChainID, b.ToChainID)
	case !bytes.Equal(a.ToContractAddress, b.ToContractAddress):
		return fmt.Sprintf("ToContractAddress %x != %x", a.ToContractAddress, b.ToContractAddress)
	case a.Method != b.Method:
		return fmt.Sprintf("Method %q != %q", a.Method, b.Method)
	case !bytes.Equal(a.Args, b.Args):
		return fmt.Sprintf("Args %x != %x", a.Args, b.Args)
	}
	return ""
}

// Done reports whether the real replay guard (CheckDoneTx) considers (source, crossID) processed.
func (w *World) Done(source uint64, crossID []byte) bool {
	return scom.CheckDoneTx(w.E.Service(), crossID, source) != nil
}

// Blacked reads the real blacklist getter.
func (w *World) Blacked(chainID uint64) bool {
	b, err := scom.CheckIfChainBlacked(w.E.Service(), chainID)
	return err != nil || b
}

// Threshold is ceil(2n/3), the quorum named by the property.
func Threshold(n int) int {
	t := 2 * n / 3
	if (2*n)%3 != 0 {
		t++
	}
	return t
}
