package tmsynth

import (
	"bytes"
	"crypto/sha256"
	"fmt"
	"sort"

	ics23 "github.com/confio/ics23/go"
	"github.com/tendermint/tendermint/crypto/merkle"
)

// ICS-23 ("ics23:simple", tendermint spec) state: app hash = simple-merkle root over the stores
// (key = store name, value = store root), each store = simple-merkle tree over its key/value pairs.
// Trees and existence / non-existence proofs are built here and cross-checked with confio/ics23
// (VerifyMembership / VerifyNonMembership) before they are handed out.

const ProofOpSimpleMerkleCommitment = "ics23:simple"

func icsLeaf() *ics23.LeafOp {
	return &ics23.LeafOp{Hash: ics23.HashOp_SHA256, PrehashValue: ics23.HashOp_SHA256, Length: ics23.LengthOp_VAR_PROTO, Prefix: []byte{0}}
}

// SimpleTree is a tendermint simple-merkle tree over sorted keys.
type SimpleTree struct {
	Keys  [][]byte
	Vals  [][]byte
	Root  []byte
	paths [][]*ics23.InnerOp
}

func splitPoint(n int) int {
	k := 1
	for k*2 < n {
		k *= 2
	}
	return k
}

func buildSimple(keys, vals [][]byte) ([]byte, [][]*ics23.InnerOp) {
	if len(keys) == 1 {
		h, err := (&ics23.ExistenceProof{Key: keys[0], Value: vals[0], Leaf: icsLeaf()}).Calculate()
		if err != nil {
			panic(err)
		}
		return h, [][]*ics23.InnerOp{nil}
	}
	k := splitPoint(len(keys))
	l, lp := buildSimple(keys[:k], vals[:k])
	r, rp := buildSimple(keys[k:], vals[k:])
	sum := sha256.Sum256(append(append([]byte{1}, l...), r...))
	var out [][]*ics23.InnerOp
	for _, p := range lp {
		out = append(out, append(append([]*ics23.InnerOp{}, p...), &ics23.InnerOp{Hash: ics23.HashOp_SHA256, Prefix: []byte{1}, Suffix: append([]byte{}, r...)}))
	}
	for _, p := range rp {
		out = append(out, append(append([]*ics23.InnerOp{}, p...), &ics23.InnerOp{Hash: ics23.HashOp_SHA256, Prefix: append([]byte{1}, l...)}))
	}
	return sum[:], out
}

// NewSimpleTree builds the tree of a non-empty key/value map.
func NewSimpleTree(kv map[string][]byte) *SimpleTree {
	t := &SimpleTree{}
	var ks []string
	for k := range kv {
		ks = append(ks, k)
	}
	sort.Strings(ks)
	for _, k := range ks {
		t.Keys = append(t.Keys, []byte(k))
		t.Vals = append(t.Vals, kv[k])
	}
	t.Root, t.paths = buildSimple(t.Keys, t.Vals)
	return t
}

func (t *SimpleTree) index(key []byte) int {
	for i, k := range t.Keys {
		if bytes.Equal(k, key) {
			return i
		}
	}
	return -1
}

func (t *SimpleTree) existAt(i int) *ics23.ExistenceProof {
	return &ics23.ExistenceProof{Key: t.Keys[i], Value: t.Vals[i], Leaf: icsLeaf(), Path: t.paths[i]}
}

// Exist returns the existence proof of a present key (checked with ics23.VerifyMembership).
func (t *SimpleTree) Exist(key []byte) *ics23.CommitmentProof {
	i := t.index(key)
	if i < 0 {
		panic("tmsynth: key not in tree")
	}
	cp := &ics23.CommitmentProof{Proof: &ics23.CommitmentProof_Exist{Exist: t.existAt(i)}}
	if !ics23.VerifyMembership(ics23.TendermintSpec, t.Root, cp, key, t.Vals[i]) {
		panic("tmsynth: built existence proof does not verify")
	}
	return cp
}

// NonExist returns the non-existence proof of an absent key (checked with ics23.VerifyNonMembership).
func (t *SimpleTree) NonExist(key []byte) (*ics23.CommitmentProof, error) {
	if t.index(key) >= 0 {
		return nil, fmt.Errorf("key present")
	}
	ne := &ics23.NonExistenceProof{Key: key}
	pos := sort.Search(len(t.Keys), func(i int) bool { return bytes.Compare(t.Keys[i], key) > 0 })
	if pos > 0 {
		ne.Left = t.existAt(pos - 1)
	}
	if pos < len(t.Keys) {
		ne.Right = t.existAt(pos)
	}
	cp := &ics23.CommitmentProof{Proof: &ics23.CommitmentProof_Nonexist{Nonexist: ne}}
	if !ics23.VerifyNonMembership(ics23.TendermintSpec, t.Root, cp, key) {
		return nil, fmt.Errorf("built non-existence proof does not verify")
	}
	return cp, nil
}

// IcsState is a two-level ICS-23 state.
type IcsState struct {
	Main    string
	Store   *SimpleTree
	App     *SimpleTree
	AppHash []byte
	KV      map[string][]byte
}

// NewIcsState builds the state: main store with kv, plus neighbour stores with fixed roots.
func NewIcsState(main string, kv map[string][]byte, others ...string) *IcsState {
	s := &IcsState{Main: main, Store: NewSimpleTree(kv), KV: kv}
	app := map[string][]byte{main: s.Store.Root}
	for i, o := range others {
		app[o] = bytes.Repeat([]byte{byte(0x30 + i)}, 32)
	}
	s.App = NewSimpleTree(app)
	s.AppHash = s.App.Root
	return s
}

func icsOp(key []byte, cp *ics23.CommitmentProof) merkle.ProofOp {
	bz, err := cp.Marshal()
	if err != nil {
		panic(err)
	}
	return merkle.ProofOp{Type: ProofOpSimpleMerkleCommitment, Key: key, Data: bz}
}

// ProveExist: ops [key in store, store in app] for a present key.
func (s *IcsState) ProveExist(key []byte) *merkle.Proof {
	return &merkle.Proof{Ops: []merkle.ProofOp{icsOp(key, s.Store.Exist(key)), icsOp([]byte(s.Main), s.App.Exist([]byte(s.Main)))}}
}

// ProveAbsent: ops [non-existence of key in store, store in app] for an absent key.
func (s *IcsState) ProveAbsent(key []byte) (*merkle.Proof, error) {
	cp, err := s.Store.NonExist(key)
	if err != nil {
		return nil, err
	}
	return &merkle.Proof{Ops: []merkle.ProofOp{icsOp(key, cp), icsOp([]byte(s.Main), s.App.Exist([]byte(s.Main)))}}, nil
}

// AsVersion exposes the state in the form the deposit oracle uses (app hash + values).
func (s *IcsState) AsVersion() *Version {
	v := &Version{Ver: 0, AppHash: s.AppHash, KV: map[string][]byte{}}
	for k, x := range s.KV {
		v.KV[k] = x
	}
	return v
}
