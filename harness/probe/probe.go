// Package probe is a *scripted probe contract*: a tiny native contract registered into poly's
// exported map native.Contracts under a fresh address. A transaction (or a nested NativeCall)
// that invokes it carries a Script in its arguments; the handler executes the script step by step
// with the REAL NativeService operations. It gives checks
//
//   - failure injection at every step of a transaction (Fail op / Script.FailAfter(k)),
//   - write-order control (Put / Delete in any order, on any key),
//   - reads that are echoed into notifications (what did this transaction see?),
//   - cross-chain leaves (raw PutMerkleVal, or the real cross_chain_manager.MakeTransaction),
//   - nested NativeCalls to itself or to a real contract, with or without the caller ignoring a
//     callee error,
//   - CheckWitness probes.
//
// Nothing here re-implements poly logic: every op is one call into native.NativeService /
// native/service/utils / cross_chain_manager.
//
// Typical use:
//
//	probe.Register()                                       // idempotent
//	s := probe.Script{probe.Put(k, v), probe.Get(k), probe.Merkle(d)}
//	tx := chain.InvokeTx(probe.Address, probe.Method, probe.Encode(s.FailAfter(2)), signer)
//
// Every echo is a notification from probe.Address whose States is
// []interface{}{"probe", path, kind, a, b} (all strings; hex for bytes), where path is the
// dot-separated step index ("3", or "3.0.1" inside nested self-calls) — see ParseEcho.
package probe

import (
	"encoding/hex"
	"fmt"
	"sync"

	"github.com/polynetwork/poly/common"
	"github.com/polynetwork/poly/native"
	"github.com/polynetwork/poly/native/event"
	_ "github.com/polynetwork/poly/native/service" // registers the 8 real contracts (genesis initConfig, nested real calls)
	ccm "github.com/polynetwork/poly/native/service/cross_chain_manager"
	scom "github.com/polynetwork/poly/native/service/cross_chain_manager/common"
	"github.com/polynetwork/poly/native/service/utils"
)

// Address of the probe contract ("verif-probe" padded; no real contract uses it).
var Address = func() common.Address {
	var a common.Address
	copy(a[:], []byte("\xfeverif-probe\xfe"))
	return a
}()

// Method is the only method of the probe contract.
const Method = "run"

// Kind of a script step.
type Kind byte

const (
	KPut     Kind = 1  // utils.PutBytes(StorageKey(Key), Val)            (Raw: Key is the full storage key)
	KDelete  Kind = 2  // CacheDB.Delete(StorageKey(Key))
	KGet     Kind = 3  // utils.GetStorageItem(StorageKey(Key)) -> echo "get", hex(key), hex(value)|"absent"
	KMerkle  Kind = 4  // NativeService.PutMerkleVal(Val)
	KNotify  Kind = 5  // AddNotify -> echo "note", hex(Val), ""
	KCall    Kind = 6  // NativeCall(Addr, Name, Val); callee error => this call fails, unless Flag (ignored, echo "callfail")
	KWitness Kind = 7  // CheckWitness(Addr) -> echo "witness", addr hex, "true"|"false"
	KFail    Kind = 8  // return an error now
	KMakeTx  Kind = 9  // real cross_chain_manager.MakeTransaction(svc, MakeTxParam decoded from Val, U64 = fromChainID)
	KContext Kind = 10 // echo "context", CurrentContext hex, CallingContext hex
)

// Op is one step.
type Op struct {
	Kind Kind
	Key  []byte         // storage key (suffix under the probe's address prefix, unless Raw)
	Val  []byte         // value / leaf data / notification payload / callee args / MakeTxParam bytes
	Addr common.Address // KCall target, KWitness address
	Name string         // KCall method
	Flag bool           // KCall: caller ignores a callee error
	Raw  bool           // KPut/KDelete/KGet: Key is a full storage key (may lie in another contract's namespace)
	U64  uint64         // KMakeTx: fromChainID
}

// Script is a list of steps executed in order; the call succeeds iff no step fails.
type Script []Op

// Constructors.
func Put(key, val []byte) Op    { return Op{Kind: KPut, Key: key, Val: val} }
func PutRaw(key, val []byte) Op { return Op{Kind: KPut, Key: key, Val: val, Raw: true} }
func Delete(key []byte) Op      { return Op{Kind: KDelete, Key: key} }
func Get(key []byte) Op         { return Op{Kind: KGet, Key: key} }
func GetRaw(key []byte) Op      { return Op{Kind: KGet, Key: key, Raw: true} }
func Merkle(data []byte) Op     { return Op{Kind: KMerkle, Val: data} }
func Notify(data []byte) Op     { return Op{Kind: KNotify, Val: data} }
func Fail() Op                  { return Op{Kind: KFail} }
func Context() Op               { return Op{Kind: KContext} }
func Witness(a common.Address) Op {
	return Op{Kind: KWitness, Addr: a}
}

// Call is a nested NativeCall to any contract; ignoreErr = the caller swallows a callee error.
func Call(addr common.Address, method string, args []byte, ignoreErr bool) Op {
	return Op{Kind: KCall, Addr: addr, Name: method, Val: args, Flag: ignoreErr}
}

// CallSelf is a nested NativeCall to the probe itself running the given sub-script.
func CallSelf(sub Script, ignoreErr bool) Op {
	return Call(Address, Method, Encode(sub), ignoreErr)
}

// MakeTx invokes the real cross_chain_manager.MakeTransaction: it stores the request under
// ConcatKey(CrossChainManager, "request", toChainID, polyTxHash), adds the leaf and emits the
// makeProof notification, exactly as an accepted import does.
func MakeTx(p *scom.MakeTxParam, fromChainID uint64) Op {
	sink := common.NewZeroCopySink(nil)
	p.Serialization(sink)
	return Op{Kind: KMakeTx, Val: sink.Bytes(), U64: fromChainID}
}

// FailAfter returns the script that executes the first k steps and then fails (k < 0: unchanged).
func (s Script) FailAfter(k int) Script {
	if k < 0 {
		return s
	}
	if k > len(s) {
		k = len(s)
	}
	out := append(Script{}, s[:k]...)
	return append(out, Fail())
}

// StorageKey is the full contract-storage key of a probe key (address prefix + key).
func StorageKey(key []byte) []byte {
	return append(append([]byte{}, Address[:]...), key...)
}

// Encode serialises a script as call arguments.
func Encode(s Script) []byte {
	sink := common.NewZeroCopySink(nil)
	sink.WriteVarUint(uint64(len(s)))
	for _, op := range s {
		sink.WriteByte(byte(op.Kind))
		sink.WriteVarBytes(op.Key)
		sink.WriteVarBytes(op.Val)
		sink.WriteAddress(op.Addr)
		sink.WriteString(op.Name)
		sink.WriteBool(op.Flag)
		sink.WriteBool(op.Raw)
		sink.WriteUint64(op.U64)
	}
	return sink.Bytes()
}

// Decode is the inverse of Encode.
func Decode(b []byte) (Script, error) {
	src := common.NewZeroCopySource(b)
	n, eof := src.NextVarUint()
	if eof || n > 1<<16 {
		return nil, fmt.Errorf("probe: bad script length")
	}
	s := make(Script, 0, n)
	for i := uint64(0); i < n; i++ {
		var op Op
		k, eof := src.NextByte()
		if eof {
			return nil, fmt.Errorf("probe: truncated script")
		}
		op.Kind = Kind(k)
		if op.Key, eof = src.NextVarBytes(); eof {
			return nil, fmt.Errorf("probe: truncated script")
		}
		if op.Val, eof = src.NextVarBytes(); eof {
			return nil, fmt.Errorf("probe: truncated script")
		}
		if op.Addr, eof = src.NextAddress(); eof {
			return nil, fmt.Errorf("probe: truncated script")
		}
		if op.Name, eof = src.NextString(); eof {
			return nil, fmt.Errorf("probe: truncated script")
		}
		if op.Flag, eof = src.NextBool(); eof {
			return nil, fmt.Errorf("probe: truncated script")
		}
		if op.Raw, eof = src.NextBool(); eof {
			return nil, fmt.Errorf("probe: truncated script")
		}
		if op.U64, eof = src.NextUint64(); eof {
			return nil, fmt.Errorf("probe: truncated script")
		}
		s = append(s, op)
	}
	return s, nil
}

// OnStep, when set, is called before every step with the live service (observation only; set it
// before the workload starts and reset it to nil afterwards; not synchronised).
var OnStep func(svc *native.NativeService, path string, op Op)

var once sync.Once

// Register installs the probe into native.Contracts (idempotent; call before any block executes).
func Register() {
	once.Do(func() {
		native.Contracts[Address] = func(svc *native.NativeService) {
			svc.Register(Method, handle)
		}
	})
}

// depth of nested self-calls is carried in the Go call stack: handle is re-entered by NativeCall.
// The path prefix of the running invocation is kept per service.
var pathMu sync.Mutex
var paths = map[*native.NativeService][]string{}

func pushPath(svc *native.NativeService, p string) {
	pathMu.Lock()
	paths[svc] = append(paths[svc], p)
	pathMu.Unlock()
}

func popPath(svc *native.NativeService) {
	pathMu.Lock()
	st := paths[svc]
	if len(st) <= 1 {
		delete(paths, svc)
	} else {
		paths[svc] = st[:len(st)-1]
	}
	pathMu.Unlock()
}

func curPath(svc *native.NativeService) string {
	pathMu.Lock()
	defer pathMu.Unlock()
	st := paths[svc]
	if len(st) == 0 {
		return ""
	}
	return st[len(st)-1] // entries are full paths already

}

func echo(svc *native.NativeService, path, kind, a, b string) {
	svc.AddNotify(&event.NotifyEventInfo{ContractAddress: Address,
		States: []interface{}{"probe", path, kind, a, b}})
}

func handle(svc *native.NativeService) ([]byte, error) {
	script, err := Decode(svc.GetInput())
	if err != nil {
		return utils.BYTE_FALSE, err
	}
	prefix := curPath(svc)
	for i, op := range script {
		path := fmt.Sprint(i)
		if prefix != "" {
			path = prefix + "." + path
		}
		if h := OnStep; h != nil {
			h(svc, path, op)
		}
		key := op.Key
		if !op.Raw {
			key = StorageKey(op.Key)
		}
		switch op.Kind {
		case KPut:
			utils.PutBytes(svc, key, op.Val)
		case KDelete:
			svc.GetCacheDB().Delete(key)
		case KGet:
			item, err := utils.GetStorageItem(svc, key)
			if err != nil {
				return utils.BYTE_FALSE, fmt.Errorf("probe step %s: get: %v", path, err)
			}
			if item == nil {
				echo(svc, path, "get", hex.EncodeToString(op.Key), "absent")
			} else {
				echo(svc, path, "get", hex.EncodeToString(op.Key), hex.EncodeToString(item.Value))
			}
		case KMerkle:
			svc.PutMerkleVal(op.Val)
		case KNotify:
			echo(svc, path, "note", hex.EncodeToString(op.Val), "")
		case KCall:
			pushPath(svc, path)
			_, err := svc.NativeCall(op.Addr, op.Name, op.Val)
			popPath(svc)
			if err != nil {
				if !op.Flag {
					return utils.BYTE_FALSE, fmt.Errorf("probe step %s: callee failed: %v", path, err)
				}
				echo(svc, path, "callfail", "", "")
			}
		case KWitness:
			echo(svc, path, "witness", hex.EncodeToString(op.Addr[:]), fmt.Sprint(svc.CheckWitness(op.Addr)))
		case KFail:
			return utils.BYTE_FALSE, fmt.Errorf("probe step %s: scripted failure", path)
		case KMakeTx:
			p := new(scom.MakeTxParam)
			if err := p.Deserialization(common.NewZeroCopySource(op.Val)); err != nil {
				return utils.BYTE_FALSE, fmt.Errorf("probe step %s: %v", path, err)
			}
			if err := ccm.MakeTransaction(svc, p, op.U64); err != nil {
				return utils.BYTE_FALSE, fmt.Errorf("probe step %s: %v", path, err)
			}
		case KContext:
			cur, calling := svc.CurrentContext(), svc.CallingContext()
			echo(svc, path, "context", hex.EncodeToString(cur[:]), hex.EncodeToString(calling[:]))
		default:
			return utils.BYTE_FALSE, fmt.Errorf("probe step %s: unknown op %d", path, op.Kind)
		}
	}
	return utils.BYTE_TRUE, nil
}

// Echo is a decoded probe notification.
type Echo struct {
	Path, Kind, A, B string
}

// ParseEcho decodes a notification emitted by the probe (also after the JSON round trip of the
// event store). ok is false for notifications of other contracts.
func ParseEcho(n *event.NotifyEventInfo) (Echo, bool) {
	if n == nil || n.ContractAddress != Address {
		return Echo{}, false
	}
	st, isList := n.States.([]interface{})
	if !isList || len(st) != 5 {
		return Echo{}, false
	}
	var f [5]string
	for i, v := range st {
		s, isStr := v.(string)
		if !isStr {
			return Echo{}, false
		}
		f[i] = s
	}
	if f[0] != "probe" {
		return Echo{}, false
	}
	return Echo{Path: f[1], Kind: f[2], A: f[3], B: f[4]}, true
}
