// C20: each cross-chain message (source chain, cross-chain id) is executed at most once.
//
// Vehicle: the vote-authenticated routers (VOTE router and ripple-as-source), driven through the
// real "ImportOuterTransfer" entry point on a universe built with the real governance contracts.
// A "submission" of a message is a round of votes by consensus validators; the submission is
// decided at the vote that brings the distinct-validator count to ceil(2N/3).
package c20

import (
	"fmt"
	"math/big"
	"math/rand"
	"testing"

	"github.com/polynetwork/poly/common"
	"github.com/polynetwork/poly/common/config"
	cstates "github.com/polynetwork/poly/core/states"
	scom "github.com/polynetwork/poly/native/service/cross_chain_manager/common"
	"github.com/polynetwork/poly/native/service/utils"

	"verifharness/kit"
	"verifharness/kit/nat"
	"verifharness/kit/pk"
	cs "verifharness/synth/ccmsynth"
	es "verifharness/synth/ethsynth"

	polyeth "github.com/polynetwork/poly/native/service/header_sync/eth"
)

const (
	srcVoteA  = 10
	srcVoteB  = 11
	srcRipple = 12
	srcEth    = 13
	srcBsc    = 14
	srcQuorum = 19
	srcBtc0   = 15 // three bitcoin chains (15, 16, 17), each with one confirmed deposit
	dstEth    = 20
	dstVote   = 21
	dstLate   = 22 // registered only in the middle of some histories
	unknownID = 99
)

type msgKey struct {
	source uint64
	cross  string
}

// hist is one history: a universe, the model and the monitors.
type hist struct {
	r        *kit.Run
	rng      *rand.Rand
	w        *cs.World
	vm       *cs.VoteModel
	outs     []*pk.Key
	done     map[msgKey]bool // model: messages accepted so far
	releases map[msgKey]int  // monitor: releases observed per message (attributed through the stored request)
	trace    []string
	router   map[uint64]string
	asset    map[uint64][]byte // ripple asset binding per destination
	evm      []*evmSrc
	btc      []*cs.BTCSource
	evmUsed  map[string]bool
	bad      bool
}

func (h *hist) logf(f string, a ...interface{}) { h.trace = append(h.trace, fmt.Sprintf(f, a...)) }

func (h *hist) violation(key, what string) {
	h.bad = true
	h.r.Violation(key, what, map[string]interface{}{"history": h.trace, "validators": len(h.w.Vals), "height": h.w.E.Height})
}

// tpl is a prepared universe for one validator count: governance installed, the five chains
// registered through side_chain_manager, the ripple asset binding in place. Histories start from
// its snapshot (World.Restore), which is much cheaper than rebuilding it.
type tpl struct {
	w     *cs.World
	snap  *cs.Snapshot
	outs  []*pk.Key
	asset map[uint64][]byte
	evm   []*evmSrc
	btc   []*cs.BTCSource
	uses  int
}

// evmGroup is a family of messages of one proof-authenticated source that share a cross-chain id:
// the same message committed at two storage slots (two different valid proofs), another body with
// the same id, and a body with the same id towards a chain that is not registered at first.
type evmGroup struct {
	A1, A2, B, U cs.EVMMessage
}

type evmSrc struct {
	s      *cs.EVMSource
	name   string
	groups []evmGroup
}

const evmGroups = 10

var pool = map[string]*tpl{}

func newHist(r *kit.Run, rng *rand.Rand, netID uint32, nVals int) *hist {
	key := fmt.Sprintf("%d/%d", netID, nVals)
	t := pool[key]
	if t != nil && t.uses >= 400 { // fresh keys every 400 histories
		t = nil
	}
	if t == nil {
		krng := r.Rand(fmt.Sprintf("keys-%s-%d", key, len(pool)))
		vals := pk.NewKeys(krng, nVals)
		owner := pk.NewKey(krng)
		wallets := make([]*pk.Key, len(vals))
		for i := range wallets {
			if i%2 == 1 { // every second pool entry is registered by a separate wallet account
				wallets[i] = pk.NewKey(krng)
			}
		}
		w, err := cs.NewWorldWallets(netID, vals, wallets, owner)
		if err != nil {
			r.Inconclusive("world: " + err.Error())
			return nil
		}
		// outsiders: two unrelated keys plus the wallet accounts of the validators (not validators themselves)
		t = &tpl{w: w, outs: append(pk.NewKeys(krng, 2), w.WalletKeys()...), asset: map[uint64][]byte{}}
		specs := []cs.ChainSpec{
			{ID: srcVoteA, Router: utils.VOTE_ROUTER}, {ID: srcVoteB, Router: utils.VOTE_ROUTER},
			{ID: dstEth, Router: utils.ETH_ROUTER, CCMC: []byte{1, 2, 3}}, {ID: dstVote, Router: utils.VOTE_ROUTER},
			{ID: srcRipple, Router: utils.RIPPLE_ROUTER, Extra: cs.RippleExtra(owner.Addr, 1, 2, 3, [][]byte{{2, 1}, {2, 2}, {2, 3}}, big.NewInt(10))},
		}
		for _, s := range specs {
			if err := w.RegisterAndApprove(s); err != nil {
				r.Inconclusive("setup: " + err.Error())
				return nil
			}
		}
		am, lm := map[uint64][]byte{}, map[uint64][]byte{}
		for _, d := range []uint64{dstEth, dstVote, dstLate, srcVoteA} {
			a := make([]byte, 20)
			krng.Read(a)
			am[d], lm[d] = a, append([]byte{0xee}, a...)
			t.asset[d] = a
		}
		if rec := w.RegisterAsset(owner, srcRipple, am, lm); !rec.Ok {
			r.Inconclusive("registerAsset: " + rec.Err)
			return nil
		}
		// proof-authenticated sources: an eth chain (ethash seal bypassed by the verif hook, every
		// other header rule on) and a bsc chain (really sealed Parlia headers)
		for _, d := range []struct {
			kind string
			id   uint64
		}{{"eth", srcEth}, {"bsc", srcBsc}, {"quorum", srcQuorum}} {
			src := &evmSrc{s: w.NewEVMSource(krng, d.kind, d.id), name: d.kind}
			dests := []uint64{dstEth, dstVote, srcVoteA}
			for g := 0; g < evmGroups; g++ {
				a := es.RandTxParam(krng, dests[krng.Intn(len(dests))])
				b := es.RandTxParam(krng, dests[krng.Intn(len(dests))])
				u := es.RandTxParam(krng, dstLate)
				switch g { // boundary identifiers: empty, one byte, very long
				case 0:
					a.CrossChainID = []byte{}
				case 1:
					a.CrossChainID = []byte{byte(krng.Intn(256))}
				case 2:
					a.CrossChainID = make([]byte, 300)
					krng.Read(a.CrossChainID)
				}
				b.CrossChainID, u.CrossChainID = a.CrossChainID, a.CrossChainID
				src.groups = append(src.groups, evmGroup{A1: src.s.Commit(krng, a), A2: src.s.Commit(krng, a), B: src.s.Commit(krng, b), U: src.s.Commit(krng, u)})
			}
			if err := src.s.Seal(krng, 6); err != nil {
				r.Inconclusive("evm source " + d.kind + ": " + err.Error())
				return nil
			}
			t.evm = append(t.evm, src)
		}
		// bitcoin sources: one chain per deposit (the trust root is the single-transaction block holding it)
		for i := 0; i < 3; i++ {
			b, err := w.NewBTCSource(krng, uint64(srcBtc0+i), []uint64{dstEth, dstVote, srcVoteA}[i])
			if err != nil {
				r.Inconclusive("btc source: " + err.Error())
				return nil
			}
			t.btc = append(t.btc, b)
		}
		t.snap = w.Snapshot()
		pool[key] = t
		r.Count("universes_built", 1)
	}
	t.uses++
	config.DefConfig.P2PNode.NetworkId = netID
	t.w.Restore(t.snap)
	return &hist{r: r, rng: rng, w: t.w, vm: cs.NewVoteModel(), outs: t.outs, done: map[msgKey]bool{}, releases: map[msgKey]int{},
		router: map[uint64]string{srcVoteA: "vote", srcVoteB: "vote", srcRipple: "ripple", srcEth: "eth", srcBsc: "bsc", srcQuorum: "quorum", srcBtc0: "btc", srcBtc0 + 1: "btc", srcBtc0 + 2: "btc"}, asset: t.asset,
		evm: t.evm, btc: t.btc, evmUsed: map[string]bool{}}
}

// body draws a message from source towards to with the given cross-chain id. For the ripple
// source the arguments have the layout that router expects (destination address, amount).
func (h *hist) body(source, to uint64, cross []byte) *scom.MakeTxParam {
	p := cs.RandParam(h.rng, to, cross)
	if h.router[source] == "ripple" {
		sink := common.NewZeroCopySink(nil)
		dst := make([]byte, 20)
		h.rng.Read(dst)
		sink.WriteVarBytes(dst)
		sink.WriteUint64(uint64(h.rng.Int63()))
		p.Args = sink.Bytes()
	}
	return p
}

// script returns a voting order: every validator once in random order, with a few outsiders and
// repeat voters sprinkled in.
func (h *hist) script() []*pk.Key {
	vals := append([]*pk.Key{}, h.w.Vals...)
	h.rng.Shuffle(len(vals), func(i, j int) { vals[i], vals[j] = vals[j], vals[i] })
	var out []*pk.Key
	for i, v := range vals {
		out = append(out, v)
		if h.rng.Intn(5) == 0 {
			out = append(out, h.outs[h.rng.Intn(len(h.outs))])
		}
		if h.rng.Intn(5) == 0 {
			out = append(out, vals[h.rng.Intn(i+1)])
		}
	}
	return out
}

// attribute reads the requests a call stored and attributes each to its (source, cross-chain id).
func (h *hist) attribute(o *cs.Obs) {
	added, _, _ := o.TouchedUnder(scom.REQUEST)
	for _, kv := range added {
		v, err := cstates.GetValueFromRawStorageItem(kv.V)
		if err != nil {
			continue
		}
		mv := new(scom.ToMerkleValue)
		if mv.Deserialization(common.NewZeroCopySource(v)) != nil {
			continue
		}
		k := msgKey{mv.FromChainID, string(mv.MakeTxParam.CrossChainID)}
		h.releases[k]++
		if h.releases[k] > 1 {
			h.violation("router:"+h.router[k.source]+" message-released-twice",
				fmt.Sprintf("source %d cross-chain id %x released %d times", k.source, k.cross, h.releases[k]))
		}
	}
}

// submit plays one voting round for (source, height, extra). wantAccept says whether the deciding
// vote must be accepted (fresh message, well-formed, destination usable) or must fail. kind labels
// the submission for keys / evidence. Returns whether the message was accepted.
func (h *hist) submit(kind string, source uint64, height uint32, extra []byte, p *scom.MakeTxParam, wantAccept bool, voters []*pk.Key, proof []byte) bool {
	r := h.r
	im := cs.Import{Source: source, Height: height, Extra: extra, Proof: proof, Header: proof}
	id := cs.SubjectID(source, height, extra)
	rt := h.router[source]
	accepted := false
	for _, v := range voters {
		verdict := h.vm.Classify(id, v.Addr, h.w.Vals)
		doneBefore := len(h.doneKeys())
		o := h.w.Do(func() *natRec { return h.w.Vote(im, v) })
		r.Eval(1)
		h.logf("%s src=%d h=%d extra=%x voter=%x model=%s -> ok=%v err=%q touched=%v leaves=%d", kind, source, height, extra, v.Addr[:4], verdict, o.Rec.Ok, o.Rec.Err, o.Touched(), len(o.Rec.CrossHashes))
		h.attribute(o)
		newDone := len(h.doneKeys()) - doneBefore
		switch verdict {
		case cs.Outsider, cs.AlreadyReleased:
			r.Count("calls_"+verdict.String(), 1)
			if !o.Unchanged() || len(o.Rec.CrossHashes) != 0 {
				h.violation("router:"+rt+" "+verdict.String()+"-call-has-side-effects", fmt.Sprintf("%s: touched %v leaves %d", kind, o.Touched(), len(o.Rec.CrossHashes)))
			}
			if verdict == cs.AlreadyReleased {
				if o.Rec.Ok {
					r.Count("replay_same_subject_noop_success", 1)
				} else {
					r.Count("replay_same_subject_error", 1)
				}
			}
		case cs.Counted:
			r.Count("calls_counted", 1)
			if f := cs.CheckNoRelease(o); len(f) != 0 || newDone != 0 || !o.OnlyUnder("voteInfo") {
				h.violation("router:"+rt+" undecided-vote-has-message-effects", fmt.Sprintf("%s: %v newDone=%d touched=%v", kind, f, newDone, o.Touched()))
			}
			if o.Rec.Ok {
				h.vm.Commit(id, v.Addr, verdict, false)
			} else {
				r.Count("validator_vote_rejected_before_threshold", 1)
			}
		case cs.Reached:
			if wantAccept && !h.done[msgKey{source, string(p.CrossChainID)}] {
				r.Count("deciding_calls_expected_accept", 1)
				if !o.Rec.Ok {
					h.violation("router:"+rt+" valid-first-submission-rejected", fmt.Sprintf("%s: %s", kind, o.Rec.Err))
					continue
				}
				ad, ch, rm := o.TouchedUnder(scom.DONE_TX)
				if len(ad) != 1 || len(ch)+len(rm) != 0 || !h.w.Done(source, p.CrossChainID) {
					h.violation("router:"+rt+" accepted-without-done-marker", fmt.Sprintf("%s: done keys +%d ~%d -%d, CheckDoneTx says done=%v", kind, len(ad), len(ch), len(rm), h.w.Done(source, p.CrossChainID)))
				}
				if n, _, _ := o.TouchedUnder(scom.REQUEST); len(n) != 1 || len(o.Rec.CrossHashes) != 1 {
					h.violation("router:"+rt+" accepted-without-single-release", fmt.Sprintf("%s: requests +%d leaves %d", kind, len(n), len(o.Rec.CrossHashes)))
				}
				h.vm.Commit(id, v.Addr, verdict, true)
				h.done[msgKey{source, string(p.CrossChainID)}] = true
				accepted = true
				r.Count("accepted", 1)
				r.Count("accepted:"+rt, 1)
		h.countID(true, source, p.CrossChainID)
				h.countID(true, source, p.CrossChainID)
			} else {
				r.Count("deciding_calls_expected_reject", 1)
				if o.Rec.Ok || !o.Unchanged() || len(o.Rec.CrossHashes) != 0 {
					key := "router:" + rt + " replay-accepted"
					if p == nil || !h.done[msgKey{source, string(p.CrossChainID)}] {
						key = "router:" + rt + " invalid-submission-accepted"
					}
					h.violation(key, fmt.Sprintf("%s: ok=%v touched=%v leaves=%d", kind, o.Rec.Ok, o.Touched(), len(o.Rec.CrossHashes)))
					if o.Rec.Ok { // keep the model in step with the chain so that the history can continue
						h.vm.Commit(id, v.Addr, verdict, true)
					}
				} else {
					r.Count("rejected", 1)
					r.Count("rejected:"+rt, 1)
					if p != nil {
						h.countID(false, source, p.CrossChainID)
					}
					r.Count("rejected:"+kind, 1)
				}
			}
		}
		h.checkMarkers(kind)
		if h.bad {
			return accepted
		}
	}
	return accepted
}

// evmCall makes one proof-authenticated import and judges it: wantAccept (first valid submission
// of its (source, cross-chain id)) must succeed, create exactly the done marker and release once;
// anything else must fail with unchanged state.
func (h *hist) evmCall(kind string, src *evmSrc, p *es.TxParam, wantAccept bool, call func() *natRec) bool {
	return h.proofCall(kind, src.name, src.s.Spec.ID, p, wantAccept, call)
}

// proofCall is the judge of one proof-authenticated import of router rt from chain source.
func (h *hist) proofCall(kind, rt string, source uint64, p *es.TxParam, wantAccept bool, call func() *natRec) bool {
	r := h.r
	key := msgKey{source, string(p.CrossChainID)}
	o := h.w.Do(call)
	r.Eval(1)
	h.logf("%s src=%d(%s) cross=%s to=%d -> ok=%v err=%q touched=%v leaves=%d", kind, source, rt, short(p.CrossChainID), p.ToChainID, o.Rec.Ok, o.Rec.Err, o.Touched(), len(o.Rec.CrossHashes))
	h.attribute(o)
	accepted := false
	if wantAccept && !h.done[key] {
		r.Count("deciding_calls_expected_accept", 1)
		if !o.Rec.Ok {
			h.violation("router:"+rt+" valid-first-submission-rejected", fmt.Sprintf("%s: %s", kind, o.Rec.Err))
			return false
		}
		ad, ch, rm := o.TouchedUnder(scom.DONE_TX)
		if len(ad) != 1 || len(ch)+len(rm) != 0 || !h.w.Done(source, p.CrossChainID) {
			h.violation("router:"+rt+" accepted-without-done-marker", fmt.Sprintf("%s: done keys +%d ~%d -%d, CheckDoneTx says done=%v", kind, len(ad), len(ch), len(rm), h.w.Done(source, p.CrossChainID)))
		}
		if n, _, _ := o.TouchedUnder(scom.REQUEST); len(n) != 1 || len(o.Rec.CrossHashes) != 1 {
			h.violation("router:"+rt+" accepted-without-single-release", fmt.Sprintf("%s: requests +%d leaves %d", kind, len(n), len(o.Rec.CrossHashes)))
		}
		h.done[key] = true
		accepted = true
		r.Count("accepted", 1)
		r.Count("accepted:"+rt, 1)
	} else {
		r.Count("deciding_calls_expected_reject", 1)
		if o.Rec.Ok || !o.Unchanged() || len(o.Rec.CrossHashes) != 0 {
			k := "router:" + rt + " invalid-submission-accepted"
			if h.done[key] {
				k = "router:" + rt + " replay-accepted"
			}
			h.violation(k, fmt.Sprintf("%s: ok=%v touched=%v leaves=%d", kind, o.Rec.Ok, o.Touched(), len(o.Rec.CrossHashes)))
		} else {
			r.Count("rejected", 1)
			r.Count("rejected:"+rt, 1)
			r.Count("rejected:"+kind, 1)
			h.countID(false, source, p.CrossChainID)
		}
	}
	h.checkMarkers(kind)
	return accepted
}

// evmGroupFor picks an unused message family of a random proof-authenticated source.
func (h *hist) evmGroupFor() (*evmSrc, *evmGroup) {
	src := h.evm[h.rng.Intn(len(h.evm))]
	for try := 0; try < 2*evmGroups; try++ {
		g := h.rng.Intn(len(src.groups))
		k := fmt.Sprintf("%s/%d", src.name, g)
		if !h.evmUsed[k] {
			h.evmUsed[k] = true
			return src, &src.groups[g]
		}
	}
	return nil, nil
}

// evmReplays: after acceptance, replays with the same proof, at another height, with the other
// valid proof, and with another body carrying the same cross-chain id.
func (h *hist) evmReplays(src *evmSrc, g *evmGroup, idx int) {
	n := len(src.s.Heights) - 1
	for k := 1 + h.rng.Intn(4); k > 0 && !h.bad; k-- {
		switch h.rng.Intn(4) {
		case 0:
			h.evmCall("replay-same", src, g.A1.P, false, func() *natRec { return src.s.Import(g.A1, idx, nil) })
		case 1:
			j := (idx + 1 + h.rng.Intn(n-1)) % n
			h.evmCall("replay-height", src, g.A1.P, false, func() *natRec { return src.s.Import(g.A1, j, nil) })
		case 2:
			h.evmCall("replay-other-proof", src, g.A2.P, false, func() *natRec { return src.s.Import(g.A2, h.rng.Intn(n), nil) })
		case 3:
			h.evmCall("replay-body", src, g.B.P, false, func() *natRec { return src.s.Import(g.B, h.rng.Intn(n), nil) })
		}
	}
}

// evmFresh: first valid submission, then replays.
func (h *hist) evmFresh() bool {
	src, g := h.evmGroupFor()
	if src == nil {
		return false
	}
	idx := h.rng.Intn(len(src.s.Heights) - 1)
	first := g.A1
	if h.rng.Intn(3) == 0 {
		first = g.A2
	}
	if h.evmCall("fresh", src, first.P, true, func() *natRec { return src.s.Import(first, idx, nil) }) {
		h.evmReplays(src, g, idx)
	}
	return true
}

// evmFailedFirst: a failing first attempt (no marker may remain), then the valid submission, then replays.
func (h *hist) evmFailedFirst() bool {
	src, g := h.evmGroupFor()
	if src == nil {
		return false
	}
	n := len(src.s.Heights) - 1
	idx := h.rng.Intn(n)
	for k := 1 + h.rng.Intn(2); k > 0 && !h.bad; k-- {
		switch h.rng.Intn(5) {
		case 0: // the proof is for another committed value (message bytes do not match the proven hash)
			h.evmCall("first-wrong-message", src, g.A1.P, false, func() *natRec { return src.s.Import(g.A1, idx, g.B.P.Serialize()) })
		case 1: // damaged proof document
			pj := src.s.ProofJSON(g.A1)
			cut := pj[:len(pj)/2+h.rng.Intn(len(pj)/2)]
			h.evmCall("first-malformed", src, g.A1.P, false, func() *natRec { return src.s.ImportRaw(uint32(src.s.Heights[idx]), cut, g.A1.P.Serialize()) })
		case 2: // a height the light client has no header for
			if src.name == "quorum" { // the header travels with the proof: the refusable analogue is a seal by a non-validator
				h.evmCall("first-outsider-seal", src, g.A1.P, false, func() *natRec { return src.s.ImportOutsider(g.A1, idx) })
				break
			}
			h.evmCall("first-unknown-height", src, g.A1.P, false, func() *natRec {
				return src.s.ImportRaw(uint32(src.s.Heights[0])-50, src.s.ProofJSON(g.A1), g.A1.P.Serialize())
			})
		case 3: // valid proof, destination chain not registered
			if !h.w.Registered(dstLate) {
				h.evmCall("first-dest-unregistered", src, g.U.P, false, func() *natRec { return src.s.Import(g.U, idx, nil) })
			}
		case 4: // valid proof, destination blacklisted; whitelisted afterwards
			to := g.A1.P.ToChainID
			if rec := h.w.Black(to); !rec.Ok {
				h.r.Inconclusive("black: " + rec.Err)
				return true
			}
			h.logf("blacked %d", to)
			h.evmCall("first-dest-blacked", src, g.A1.P, false, func() *natRec { return src.s.Import(g.A1, idx, nil) })
			if rec := h.w.White(to); !rec.Ok {
				h.r.Inconclusive("white: " + rec.Err)
				return true
			}
			h.logf("whited %d", to)
		}
		if h.w.Done(src.s.Spec.ID, g.A1.P.CrossChainID) {
			h.violation("failed-attempt-left-done-marker", "after a failed first attempt on router "+src.name)
		}
	}
	if !h.bad && h.evmCall("valid-after-failed", src, g.A1.P, true, func() *natRec { return src.s.Import(g.A1, idx, nil) }) {
		h.evmReplays(src, g, idx)
	}
	return true
}

// btcScenario: a Bitcoin deposit (identified by its source chain and transaction id) is imported once;
// optional failing first attempts (damaged Merkle proof, wrong height, truncated transaction,
// blacklisted destination), then the valid import in one of its serialisations, then replays in
// every serialisation of the same transaction (identical bytes, witness stripped, other witness).
func (h *hist) btcScenario() bool {
	var b *cs.BTCSource
	for _, c := range h.btc {
		k := fmt.Sprintf("btc/%d", c.Spec.ID)
		if !h.evmUsed[k] {
			h.evmUsed[k] = true
			b = c
			break
		}
	}
	if b == nil {
		return false
	}
	src := b.Spec.ID
	p := &es.TxParam{CrossChainID: b.TxID(), ToChainID: b.Target} // the deposit's identity
	withW, stripped, otherW := b.Encodings(h.rng)
	encs := [][]byte{withW, stripped, otherW}
	names := []string{"with-witness", "witness-stripped", "other-witness"}
	for k := h.rng.Intn(3); k > 0 && !h.bad; k-- {
		raw := encs[h.rng.Intn(3)]
		switch h.rng.Intn(4) {
		case 0:
			bad := append([]byte{}, b.Proof...)
			// inside the partial tree's hash list (80-byte header, 4-byte tx count, 1-byte hash count, then
			// the hashes); the header copy inside the proof is informational, the tree is what is verified
			bad[85+h.rng.Intn(32)] ^= 0x40
			h.proofCall("first-damaged-proof", "btc", src, p, false, func() *natRec { return b.Import(raw, b.Height, bad) })
		case 1:
			h.proofCall("first-unknown-height", "btc", src, p, false, func() *natRec { return b.Import(raw, b.Height+1+uint32(h.rng.Intn(5)), b.Proof) })
		case 2:
			h.proofCall("first-malformed", "btc", src, p, false, func() *natRec { return b.Import(raw[:len(raw)/2], b.Height, b.Proof) })
		case 3:
			if rec := h.w.Black(b.Target); !rec.Ok {
				h.r.Inconclusive("black: " + rec.Err)
				return true
			}
			h.logf("blacked %d", b.Target)
			h.proofCall("first-dest-blacked", "btc", src, p, false, func() *natRec { return b.Import(raw, b.Height, b.Proof) })
			if rec := h.w.White(b.Target); !rec.Ok {
				h.r.Inconclusive("white: " + rec.Err)
				return true
			}
			h.logf("whited %d", b.Target)
		}
		if h.w.Done(src, p.CrossChainID) {
			h.violation("failed-attempt-left-done-marker", "after a failed first attempt on router btc")
		}
	}
	if h.bad {
		return true
	}
	first := h.rng.Intn(3)
	if !h.proofCall("fresh:"+names[first], "btc", src, p, true, func() *natRec { return b.Import(encs[first], b.Height, b.Proof) }) {
		return true
	}
	for _, i := range h.rng.Perm(3) {
		if h.bad {
			break
		}
		if i == first {
			h.proofCall("replay-same", "btc", src, p, false, func() *natRec { return b.Import(encs[i], b.Height, b.Proof) })
		} else {
			h.proofCall("replay-other-serialisation", "btc", src, p, false, func() *natRec { return b.Import(encs[i], b.Height, b.Proof) })
		}
	}
	return true
}

// doneKeys lists the done-marker keys in committed storage.
func (h *hist) doneKeys() [][]byte {
	var out [][]byte
	for _, kv := range h.w.E.Dump(cs.CCMKey(scom.DONE_TX)) {
		out = append(out, kv.K)
	}
	return out
}

// checkMarkers: the done markers are exactly the accepted messages ("marked as done exactly when accepted").
func (h *hist) checkMarkers(kind string) {
	if n := len(h.doneKeys()); n != len(h.done) {
		h.violation("done-markers-differ-from-accepted-set", fmt.Sprintf("after %s: %d markers in storage, %d messages accepted", kind, n, len(h.done)))
		return
	}
	for k := range h.done {
		if !h.w.Done(k.source, []byte(k.cross)) {
			h.violation("accepted-message-not-marked-done", fmt.Sprintf("after %s: source %d id %x", kind, k.source, k.cross))
		}
	}
	for k, n := range h.releases {
		if n > 0 && !h.done[k] {
			h.violation("released-but-not-in-accepted-set", fmt.Sprintf("after %s: source %d id %x", kind, k.source, k.cross))
		}
	}
}

type natRec = nat.CallRecord

// countID records that boundary identifiers were really exercised (vacuity guards).
func (h *hist) countID(accepted bool, source uint64, cross []byte) {
	switch {
	case accepted && len(cross) == 0:
		h.r.Count("accepted_with_empty_cross_chain_id", 1)
	case accepted && len(cross) >= 252:
		h.r.Count("accepted_with_long_cross_chain_id", 1)
	case !accepted && len(cross) == 0 && h.done[msgKey{source, ""}]:
		h.r.Count("replay_of_empty_cross_chain_id_rejected", 1)
	}
}

func short(b []byte) string {
	if len(b) > 8 {
		return fmt.Sprintf("%x…(%d)", b[:8], len(b))
	}
	return fmt.Sprintf("%x", b)
}

func (h *hist) freshCross() []byte {
	// cross-chain ids of various lengths, including ids that are prefixes / extensions of used ones
	var used [][]byte
	for k := range h.done {
		used = append(used, []byte(k.cross))
	}
	for {
		var c []byte
		switch x := h.rng.Intn(10); {
		case x == 0 && len(used) > 0:
			u := used[h.rng.Intn(len(used))]
			c = append(append([]byte{}, u...), byte(h.rng.Intn(256)))
		case x == 1 && len(used) > 0:
			u := used[h.rng.Intn(len(used))]
			if len(u) > 1 {
				c = append([]byte{}, u[:len(u)-1]...)
			}
		case x == 2:
			c = []byte{byte(h.rng.Intn(3))}
		case x == 3: // the empty identifier
			c = []byte{}
		case x == 4: // very long identifiers
			c = make([]byte, []int{252, 253, 300, 4096}[h.rng.Intn(4)])
			h.rng.Read(c)
		default:
			c = make([]byte, 1+h.rng.Intn(33))
			h.rng.Read(c)
		}
		if c == nil {
			continue
		}
		clash := false
		for _, s := range []uint64{srcVoteA, srcVoteB, srcRipple} {
			if h.done[msgKey{s, string(c)}] {
				clash = true
			}
		}
		if !clash {
			return c
		}
	}
}

var heights = []uint32{1, 7, 1000, 18822999, 18823000, 19954184, 19954185, 30000000}

type accepted struct {
	source uint64
	height uint32
	extra  []byte
	p      *scom.MakeTxParam
}

func runHistory(r *kit.Run, rng *rand.Rand, nVals int, idx int) {
	h := newHist(r, rng, config.NETWORK_ID_MAIN_NET, nVals)
	if h == nil {
		return
	}
	h.w.E.Height = heights[rng.Intn(len(heights))]
	// node-local configuration is a dimension of the histories: a third run with the event log off
	eventLog := rng.Intn(3) != 0
	config.DefConfig.Common.EnableEventLog = eventLog
	defer func() { config.DefConfig.Common.EnableEventLog = true }()
	if !eventLog {
		r.Count("histories_with_event_log_disabled", 1)
	}
	sources := []uint64{srcVoteA, srcVoteB, srcRipple}
	dests := []uint64{dstEth, dstVote, srcVoteA}
	var acc []accepted
	steps := 4 + rng.Intn(5)
	shape := ""
	for s := 0; s < steps && !h.bad; s++ {
		if rng.Intn(3) == 0 {
			h.w.E.Height += uint32(rng.Intn(3))
		}
		kind := rng.Intn(14)
		if kind == 13 {
			if h.btcScenario() {
				shape += "T"
				continue
			}
			kind = 0
		}
		if len(acc) == 0 && kind >= 1 && kind <= 4 {
			kind = 0
		}
		if kind >= 10 {
			ok := false
			if kind == 12 {
				ok = h.evmFailedFirst()
				shape += "X"
			} else {
				ok = h.evmFresh()
				shape += "E"
			}
			if ok {
				continue
			}
			kind = 0
		}
		switch kind {
		case 0, 9: // fresh valid message
			src := sources[rng.Intn(len(sources))]
			p := h.body(src, dests[rng.Intn(len(dests))], h.freshCross())
			hh := rng.Uint32()
			if h.submit("fresh", src, hh, cs.ExtraOf(p), p, true, h.script(), nil) {
				acc = append(acc, accepted{src, hh, cs.ExtraOf(p), p})
			}
			shape += "F"
		case 1: // same subject again (same source, height, message), other proof / header bytes, any voters
			a := acc[rng.Intn(len(acc))]
			var proof []byte
			if rng.Intn(2) == 0 {
				proof = make([]byte, 1+rng.Intn(40))
				rng.Read(proof)
			}
			h.submit("replay-same", a.source, a.height, a.extra, a.p, false, h.script(), proof)
			shape += "s"
		case 2: // same message at another height (a different vote subject, same cross-chain id)
			a := acc[rng.Intn(len(acc))]
			nh := a.height + 1 + uint32(rng.Intn(5))
			if rng.Intn(3) == 0 {
				nh = rng.Uint32()
			}
			if nh == a.height {
				nh++
			}
			h.submit("replay-height", a.source, nh, a.extra, a.p, false, h.script(), nil)
			shape += "h"
		case 3, 4: // different body, same source and cross-chain id
			a := acc[rng.Intn(len(acc))]
			p := h.body(a.source, dests[rng.Intn(len(dests))], a.p.CrossChainID)
			hh := a.height
			if rng.Intn(2) == 0 {
				hh = rng.Uint32()
			}
			if string(cs.ExtraOf(p)) == string(a.extra) {
				continue
			}
			h.submit("replay-body", a.source, hh, cs.ExtraOf(p), p, false, h.script(), nil)
			shape += "b"
		case 5: // failed first attempt: malformed message bytes, then the valid message with the same id
			src := sources[rng.Intn(2)] // vote sources
			p := h.body(src, dests[rng.Intn(len(dests))], h.freshCross())
			ex := cs.ExtraOf(p)
			cut := ex[:len(ex)-1-rng.Intn(len(p.Args)+1)]
			hh := rng.Uint32()
			h.submit("first-malformed", src, hh, cut, nil, false, h.script(), nil)
			if h.w.Done(src, p.CrossChainID) {
				h.violation("failed-attempt-left-done-marker", "after malformed first attempt")
			}
			if h.submit("valid-after-failed", src, hh, ex, p, true, h.script(), nil) {
				acc = append(acc, accepted{src, hh, ex, p})
			}
			shape += "m"
		case 6: // failed first attempt: destination not registered; then registered; the remaining validators decide
			src := sources[rng.Intn(len(sources))]
			to := uint64(unknownID)
			if !h.w.Registered(dstLate) && rng.Intn(2) == 0 {
				to = dstLate
			}
			p := h.body(src, to, h.freshCross())
			hh := rng.Uint32()
			h.submit("first-dest-unregistered", src, hh, cs.ExtraOf(p), p, false, h.script(), nil)
			if h.w.Done(src, p.CrossChainID) {
				h.violation("failed-attempt-left-done-marker", "after unregistered-destination first attempt")
			}
			if to == dstLate {
				if err := h.w.RegisterAndApprove(cs.ChainSpec{ID: dstLate, Router: utils.ETH_ROUTER}); err != nil {
					r.Inconclusive("late registration: " + err.Error())
					return
				}
				h.logf("registered chain %d", dstLate)
				if h.submit("valid-after-failed", src, hh, cs.ExtraOf(p), p, true, h.script(), nil) {
					acc = append(acc, accepted{src, hh, cs.ExtraOf(p), p})
				}
			} else {
				p2 := h.body(src, dests[rng.Intn(len(dests))], p.CrossChainID)
				if h.submit("valid-after-failed", src, hh, cs.ExtraOf(p2), p2, true, h.script(), nil) {
					acc = append(acc, accepted{src, hh, cs.ExtraOf(p2), p2})
				}
			}
			shape += "u"
		case 7: // failed first attempt: too few votes / outsiders / forged relayer address; completed later
			src := sources[rng.Intn(len(sources))]
			p := h.body(src, dests[rng.Intn(len(dests))], h.freshCross())
			hh := rng.Uint32()
			ex := cs.ExtraOf(p)
			sc := []*pk.Key{h.outs[0], h.outs[1]}
			vals := append([]*pk.Key{}, h.w.Vals...)
			rng.Shuffle(len(vals), func(i, j int) { vals[i], vals[j] = vals[j], vals[i] })
			sc = append(sc, vals[:cs.Threshold(len(vals))-1]...)
			h.submit("first-too-few-votes", src, hh, ex, p, true, sc, nil)
			// forged: an outsider signs but names a validator as the relayer
			o := h.w.Do(func() *natRec { return h.w.VoteClaiming(cs.Import{Source: src, Height: hh, Extra: ex}, vals[len(vals)-1].Addr, h.outs[0]) })
			r.Eval(1)
			h.logf("forged-relayer -> ok=%v err=%q touched=%v", o.Rec.Ok, o.Rec.Err, o.Touched())
			if o.Rec.Ok || !o.Unchanged() {
				h.violation("router:"+h.router[src]+" forged-relayer-vote-accepted", fmt.Sprintf("ok=%v touched=%v", o.Rec.Ok, o.Touched()))
			} else {
				r.Count("forged_relayer_rejected", 1)
			}
			if h.w.Done(src, p.CrossChainID) {
				h.violation("failed-attempt-left-done-marker", "after too-few-votes first attempt")
			}
			if h.submit("valid-after-failed", src, hh, ex, p, true, vals[cs.Threshold(len(vals))-1:], nil) {
				acc = append(acc, accepted{src, hh, ex, p})
			}
			shape += "t"
		case 8: // failed first attempt: destination blacklisted, then whitelisted
			src := sources[rng.Intn(len(sources))]
			to := dests[rng.Intn(2)]
			if rec := h.w.Black(to); !rec.Ok {
				r.Inconclusive("black: " + rec.Err)
				return
			}
			h.logf("blacked %d", to)
			p := h.body(src, to, h.freshCross())
			hh := rng.Uint32()
			h.submit("first-dest-blacked", src, hh, cs.ExtraOf(p), p, false, h.script(), nil)
			if h.w.Done(src, p.CrossChainID) {
				h.violation("failed-attempt-left-done-marker", "after blacklisted-destination first attempt")
			}
			if rec := h.w.White(to); !rec.Ok {
				r.Inconclusive("white: " + rec.Err)
				return
			}
			h.logf("whited %d", to)
			if h.submit("valid-after-failed", src, hh, cs.ExtraOf(p), p, true, h.script(), nil) {
				acc = append(acc, accepted{src, hh, cs.ExtraOf(p), p})
			}
			shape += "k"
		}
	}
	r.Distinct("hist", nVals, shape, len(acc), h.w.E.Height > 19954185, eventLog)
	r.Count("histories", 1)
	if idx < 2 {
		tr := h.trace
		if len(tr) > 12 {
			tr = tr[:12]
		}
		r.Sample(map[string]interface{}{"validators": nVals, "shape": shape, "first_calls": tr})
	}
}

// otherNetworks records (observation only, no verdict) what happens to a replay at another height
// on network ids other than main net.
func otherNetworks(r *kit.Run) {
	obs := map[string]string{}
	for _, c := range []struct {
		name   string
		net    uint32
		height uint32
	}{{"testnet-below-19954185", config.NETWORK_ID_TEST_NET, 19954184}, {"testnet-at-19954185", config.NETWORK_ID_TEST_NET, 19954185},
		{"solonet", config.NETWORK_ID_SOLO_NET, 100}, {"netid-5", 5, 100}} {
		rng := r.Rand("othernet-" + c.name)
		vals := pk.NewKeys(rng, 4)
		w, err := cs.NewWorld(c.net, vals, pk.NewKey(rng))
		if err != nil {
			obs[c.name] = "setup failed: " + err.Error()
			continue
		}
		w.E.Height = c.height
		if w.RegisterAndApprove(cs.ChainSpec{ID: srcVoteA, Router: utils.VOTE_ROUTER}) != nil || w.RegisterAndApprove(cs.ChainSpec{ID: dstEth, Router: utils.ETH_ROUTER}) != nil {
			obs[c.name] = "setup failed"
			continue
		}
		p := cs.RandParam(rng, dstEth, []byte{1, 2, 3})
		first, second := 0, 0
		for _, v := range vals {
			if rec := w.Vote(cs.Import{Source: srcVoteA, Height: 5, Param: p}, v); rec.Ok && len(rec.CrossHashes) == 1 {
				first++
			}
		}
		for _, v := range vals {
			if rec := w.Vote(cs.Import{Source: srcVoteA, Height: 6, Param: p}, v); rec.Ok && len(rec.CrossHashes) == 1 {
				second++
			}
		}
		obs[c.name] = fmt.Sprintf("first submission released %d time(s); replay at another height released %d time(s)", first, second)
		r.Eval(2 * len(vals))
	}
	r.Set("observation_other_network_ids", obs)
	config.DefConfig.P2PNode.NetworkId = config.NETWORK_ID_MAIN_NET
}

func TestC20(t *testing.T) {
	r := kit.Start(t, "C20", "exploration")
	defer r.Finish()
	r.Rule("histories on main-net id: 4-8 submissions each drawn from {fresh valid, same subject again (other proof bytes / voters), same message at another height, other body with the same cross-chain id, failed first attempt (malformed bytes | unregistered destination | blacklisted destination | too few votes + outsiders + forged relayer) followed by a valid one}; a submission is a voting round of all validators in random order with outsiders and repeat voters mixed in; sources: two VOTE-router chains, one ripple chain, one eth chain and one bsc chain (proof-authenticated: fresh import, then replays with the same proof / at another synced height / with a second valid proof of the same message / with another committed body of the same cross-chain id; failed first attempts: message bytes not matching the proven hash, damaged proof, unknown height, unregistered or blacklisted destination); N validators 4..10; distinct = (N, sequence of submission kinds, #accepted, height regime)")
	polyeth.VerifSealBypass = true
	defer func() { polyeth.VerifSealBypass = false }()
	nh := r.N(400, 9000)
	rng := r.Rand("histories")
	for i := 0; i < nh; i++ {
		n := 4 + i%4
		if !r.Quick() || i%10 == 9 {
			n = 4 + rng.Intn(7)
		}
		runHistory(r, rng, n, i)
		if r.Violations() > 30 {
			break
		}
	}
	otherNetworks(r)
	r.Set("routers_covered", []string{"vote (consensus_vote)", "ripple (as source)", "eth (ethash seal bypassed by the verif hook; header rules and Merkle-Patricia proofs real)", "bsc (really sealed Parlia headers)", "btc (vault bound through registerRedeem, single-transaction block as trust root, segwit deposit replayed in every serialisation of the same transaction)"})
	r.Set("routers_uncovered", []string{"heco", "hsc", "msc", "pixiechain", "polygon bor", "bytom", "cosmos", "okex", "ont", "neo", "neo3", "neo3legacy", "zilliqa", "zilliqalegacy", "starcoin", "harmony (BLS stub)"})
	r.Assume("every second validator's pool entry is registered by a separate wallet account (registered address != node-key address); validators are identified by the key-derived address, the wallet accounts vote as outsiders")
	r.Assume("routers other than vote / ripple-as-source / eth / bsc / btc reach the same CheckDoneTx/PutDoneTx pair after their proof verification; their deposits are not synthesised in this check (proof logic is covered by C23/C30/C31), so the verdict holds for the five routers exercised only")
	r.Assume("for the vote-authenticated routers a 'submission' is a voting round; it is decided at the call that brings the distinct-validator count to ceil(2N/3). Votes before that call may record themselves (voteInfo only); a repeated round on an already released subject may return success but must change nothing")
	r.Assume("failure atomicity of a single call is provided by the transaction layer (C15); the driver reproduces HandleInvokeTransaction")
	nhq := int(r.Get("histories"))
	r.Require("accepted", nhq)
	r.Require("accepted:vote", nhq/3)
	r.Require("accepted:ripple", nhq/8)
	r.Require("accepted_with_empty_cross_chain_id", nhq/20)
	r.Require("replay_of_empty_cross_chain_id_rejected", nhq/20)
	r.Require("accepted_with_long_cross_chain_id", nhq/20)
	r.Require("histories_with_event_log_disabled", nhq/6)
	r.Require("accepted:btc", nhq/8)
	r.Require("rejected:btc", nhq/4)
	r.Require("rejected:replay-other-serialisation", nhq/8)
	r.Require("accepted:eth", nhq/8)
	r.Require("accepted:bsc", nhq/8)
	r.Require("rejected:eth", nhq/4)
	r.Require("rejected:bsc", nhq/4)
	r.Require("rejected:replay-other-proof", nhq/16)
	r.Require("rejected:first-wrong-message", nhq/40)
	r.Require("rejected:first-unknown-height", nhq/40)
	r.Require("rejected", nhq)
	r.Require("rejected:replay-height", nhq/8)
	r.Require("rejected:replay-body", nhq/8)
	r.Require("calls_already-released", nhq/4)
	r.Require("rejected:first-malformed", nhq/20)
	r.Require("rejected:first-dest-unregistered", nhq/20)
	r.Require("rejected:first-dest-blacked", nhq/20)
	r.Require("forged_relayer_rejected", nhq/20)
}
