package c31

// GENERATED from n3_test.go by sed (neo3 -> neo3legacy). NEO N3 header sync through the real entrance (n3l_test.go is generated from this file by sed for
// the neo3legacy router).

import (
	"fmt"
	"sort"
	"testing"

	pcommon "github.com/polynetwork/poly/common"
	hscommon "github.com/polynetwork/poly/native/service/header_sync/common"
	pn3 "github.com/polynetwork/poly/native/service/header_sync/neo3legacy"
	"github.com/polynetwork/poly/native/service/utils"

	"verifharness/kit"
	"verifharness/kit/nat"
	"verifharness/synth/chains"
	n3 "verifharness/synth/n3lsynth"
)

const (
	n3lChain = 11
	n3lName  = "neo3legacy"
)

var n3lRouter = utils.NEO3_LEGACY_ROUTER

func n3lRead(e *nat.Env) *neoTracked {
	v := rawValue(e, utils.ConcatKey(utils.HeaderSyncContractAddress, []byte(hscommon.CONSENSUS_PEER), utils.GetUint64Bytes(n3lChain)))
	if v == nil {
		return nil
	}
	c := new(pn3.NeoConsensus)
	if err := c.Deserialization(pcommon.NewZeroCopySource(v)); err != nil {
		return nil
	}
	return &neoTracked{Height: c.Height, Next: c.NextConsensus.String()}
}

func n3lEpisode(t *testing.T, r *kit.Run, ep int, maxN int, steps int) {
	const R = n3lName
	magic := uint32(860833102)
	rng := r.Rand(fmt.Sprintf("%s-%d", R, ep))
	e := nat.New(netID)
	if err := e.InitGovernance(pkKeys(rng, 4)); err != nil {
		t.Fatal(err)
	}
	if err := chains.Register(e, n3lChain, n3lRouter, R, 1, []byte{5, 0, 0, 0}, []byte{byte(magic), byte(magic >> 8), byte(magic >> 16), byte(magic >> 24)}); err != nil {
		t.Fatal(err)
	}
	newSet := func() *n3.Set {
		n := 1 + rng.Intn(maxN)
		m := []int{1, n, n - (n-1)/3, 1 + rng.Intn(n)}[rng.Intn(4)]
		return n3.FromKeys(n3.NewKeys(rng, n), m)
	}
	sets := map[string]*n3.Set{}
	cur := newSet()
	sets[cur.Hash.String()] = cur
	i0 := uint32(100 + rng.Intn(1000))
	gen := n3.Header(i0, cur.Hash, 0)
	if rec := chains.SyncGenesis(e, n3lChain, n3.RawHeader(gen), nat.Operator(e.Validators)); !rec.Ok {
		r.Inconclusive(R + " genesis: " + rec.Err)
		return
	}
	if tr := n3lRead(e); tr == nil || tr.Height != i0 || tr.Next != cur.Hash.String() {
		r.Inconclusive(R + " genesis not readable")
		return
	}
	asc := func(n, k int) []int {
		p := rng.Perm(n)[:k]
		sort.Ints(p)
		return p
	}
	salt := uint32(0)
	rp := func(k n3.SlotKind, c int) []n3.SlotKind {
		var out []n3.SlotKind
		for i := 0; i < c; i++ {
			out = append(out, k)
		}
		return out
	}
	build := func(before *neoTracked, signer *n3.Set, shape string) *neoHdr {
		salt++
		nx := newSet()
		sets[nx.Hash.String()] = nx
		h := n3.Header(before.Height+1+uint32(rng.Intn(5)), nx.Hash, salt)
		script := signer
		n, m := len(signer.Keys), signer.M
		var kinds []n3.SlotKind
		who := asc(n, n)
		switch shape {
		case "honest":
			k := m + rng.Intn(2)
			if k > n {
				k = n
			}
			who = asc(n, k)
			kinds = rp(n3.Valid, k)
		case "below":
			kinds = rp(n3.Valid, m-1)
		case "one-key-repeated":
			kinds = append(rp(n3.Valid, 1), rp([]n3.SlotKind{n3.DupSameSig, n3.DupFreshSig}[rng.Intn(2)], m-1+rng.Intn(2))...)
		case "below-plus-foreign":
			kinds = append(rp(n3.Valid, m-1), rp([]n3.SlotKind{n3.Foreign, n3.BadSig}[rng.Intn(2)], 1+rng.Intn(2))...)
			rng.Shuffle(len(kinds), func(a, b int) { kinds[a], kinds[b] = kinds[b], kinds[a] })
		case "below-plus-garbage":
			kinds = append(rp(n3.Valid, m-1), rp(n3.Garbage, 1+rng.Intn(n-m+2))...)
			if rng.Intn(2) == 0 {
				rng.Shuffle(len(kinds), func(a, b int) { kinds[a], kinds[b] = kinds[b], kinds[a] })
			}
		case "not-higher":
			h.SetIndex(before.Height - uint32(rng.Intn(3)))
			kinds = rp(n3.Valid, m)
			who = asc(n, m)
		case "no-change":
			h.SetNextConsensus(signer.Hash)
			kinds = rp(n3.Valid, m)
			who = asc(n, m)
		case "other-committee":
			script = newSet()
			n, m = len(script.Keys), script.M
			who = asc(n, m)
			kinds = rp(n3.Valid, m)
		case "weaker-script":
			script = n3.FromKeys(signer.Keys, 1)
			who = asc(n, 1)
			kinds = rp(n3.Valid, 1)
		case "random":
			for i := rng.Intn(n + 2); i > 0; i-- {
				kinds = append(kinds, n3.SlotKind(rng.Intn(int(n3.NKinds))))
			}
			if rng.Intn(2) == 0 {
				who = rng.Perm(n)
			}
		}
		msg := n3.HeaderMessage(h, magic)
		sigs := script.Sigs(rng, msg, kinds, who)
		n3.SetWitness(h, n3.Invocation(sigs), script.Script)
		out := &neoHdr{index: h.GetIndex(), next: h.GetNextConsensus().String(), scriptHash: script.Hash.String(), raw: n3.RawHeader(h), shape: shape}
		out.m = script.M
		out.distinct = script.DistinctValid(msg, sigs)
		for _, k := range kinds {
			out.kinds = append(out.kinds, k.String())
		}
		return out
	}
	shapes := []string{"honest", "honest", "below", "one-key-repeated", "below-plus-foreign", "below-plus-garbage", "not-higher", "no-change", "other-committee", "weaker-script", "random"}
	for step := 0; step < steps; step++ {
		before := n3lRead(e)
		cur = sets[before.Next]
		if cur == nil {
			r.Inconclusive(R + ": lost track of the committee")
			return
		}
		var hs []*neoHdr
		k := 1
		if rng.Intn(6) == 0 {
			k = 2
		}
		for i := 0; i < k; i++ {
			shape := shapes[rng.Intn(len(shapes))]
			if shape == "weaker-script" && cur.M == 1 {
				shape = "below"
			}
			hs = append(hs, build(before, cur, shape))
		}
		var raws [][]byte
		for _, h := range hs {
			raws = append(raws, h.raw)
		}
		rec := chains.SyncHeaders(e, n3lChain, raws)
		after := n3lRead(e)
		r.Eval(1)
		h0 := hs[0]
		changed := after == nil || after.Height != before.Height || after.Next != before.Next
		r.Distinct(R, len(cur.Keys), cur.M, h0.shape, fmt.Sprint(h0.kinds), len(hs), rec.Ok, changed)
		r.Count(R+"_shape_"+h0.shape, 1)
		if rec.Ok {
			r.Count(R+"_calls_ok", 1)
		} else {
			r.Count(R+"_calls_refused", 1)
		}
		if rec.Panic != nil {
			r.Count(R+"_panics", 1)
		}
		var descs []interface{}
		for _, h := range hs {
			descs = append(descs, map[string]interface{}{"shape": h.shape, "index": h.index, "next_consensus": h.next, "witness_script_hash": h.scriptHash,
				"slot_kinds": h.kinds, "distinct_valid_committee_signers": h.distinct, "script_m": h.m, "raw_header_hex": kit.Hex(h.raw)})
		}
		replay := map[string]interface{}{"router": R, "magic": magic, "tracked_before": before, "tracked_after": after, "call_ok": rec.Ok, "call_err": rec.Err, "headers": descs}
		if after == nil {
			viol(r, R+":tracked-record-vanished", "consensus record unreadable after the call", replay)
			return
		}
		if !changed {
			r.Count(R+"_unchanged", 1)
			if h0.shape == "honest" && len(hs) == 1 {
				r.Count(R+"_honest_refused", 1)
				if r.Get(R+"_honest_refused") <= 2 {
					fmt.Printf("note: honest %s header refused: %s\n", R, rec.Err)
				}
			}
			continue
		}
		r.Count(R+"_changed", 1)
		reach := []*neoTracked{before}
		for _, h := range hs {
			var add []*neoTracked
			for _, tr := range reach {
				if h.legit(tr) {
					add = append(add, &neoTracked{Height: h.index, Next: h.next})
				}
			}
			reach = append(reach, add...)
		}
		ok := false
		for _, tr := range reach[1:] {
			if tr.Height == after.Height && tr.Next == after.Next {
				ok = true
			}
		}
		if ok {
			continue
		}
		key := R + ":validator-change-not-justified"
		if len(hs) == 1 {
			switch {
			case h0.index != after.Height || h0.next != after.Next:
				key = R + ":change-to-unsubmitted-state"
			case h0.index <= before.Height:
				key = R + ":change-from-header-not-higher"
			case h0.scriptHash != before.Next:
				key = R + ":change-with-foreign-witness-script"
			case h0.distinct < h0.m:
				key = R + ":change-without-m-distinct-signatures"
			}
		}
		viol(r, key, fmt.Sprintf("tracked consensus moved %+v -> %+v without a justifying header", *before, *after), replay)
		return
	}
}
