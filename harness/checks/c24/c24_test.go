// C24: validator-signed cross-chain messages need the required number of DISTINCT tracked signers.
//
// ont: messages go through the real header_sync.syncCrossChainMsg entrance and through the real
// deposit entry cross_chain_manager.ImportOuterTransfer (ont MakeDepositProposal); the tracked peer
// set is installed by a real syncGenesisHeader. neo: state roots are judged by the exported
// neo.VerifyCrossChainMsgSig against a consensus script installed by a real syncGenesisHeader.
// Oracle (from the property): accepted => the number of distinct tracked members with a valid
// signature >= the required number; a signer listed k times counts once, outsiders never count.
package c24

import (
	"crypto/sha256"
	"fmt"
	"math/rand"
	"testing"

	"github.com/joeqian10/neo-gogogo/helper"
	"github.com/ontio/ontology-crypto/keypair"
	pcommon "github.com/polynetwork/poly/common"
	"github.com/polynetwork/poly/native/service/header_sync/neo"
	"github.com/polynetwork/poly/native/service/header_sync/ont"
	"github.com/polynetwork/poly/native/service/utils"

	"verifharness/kit"
	"verifharness/kit/nat"
	"verifharness/kit/pk"
	"verifharness/synth/chains"
	"verifharness/synth/neosynth"
	"verifharness/synth/ontsynth"
)

const (
	netID    = 5
	ontChain = 3
	neoChain = 4
	targetID = 2
)

func newEnv(t *testing.T, rng *rand.Rand, router uint64, chainID uint64, name string) *nat.Env {
	e := nat.New(netID)
	if err := e.InitGovernance(pk.NewKeys(rng, 4)); err != nil {
		t.Fatal(err)
	}
	if err := chains.Register(e, chainID, router, name, 1, nil, nil); err != nil {
		t.Fatal(err)
	}
	if err := chains.Register(e, targetID, utils.ETH_ROUTER, "target", 1, []byte{0x11, 0x22}, nil); err != nil {
		t.Fatal(err)
	}
	return e
}

// ---------------------------------------------------------------------------------------------
// ont

type ontWorld struct {
	t       *testing.T
	r       *kit.Run
	e       *nat.Env
	rng     *rand.Rand
	members []*pk.Key
	ids     map[string]bool
	height  uint32
	tag     int
}

type ontCase struct {
	kinds    []ontsynth.EntryKind
	via      string // sync | import
	shuffle  bool
	extraSig int // junk signatures appended
	// unequal list lengths (the two lists have independent length prefixes on the wire)
	reshape  bool
	keepKeys int      // leading bookkeepers kept (-1 all)
	keepSigs int      // leading signatures kept (-1 all)
	pad      []string // signatures appended: garbage | repeat | foreign | empty
}

// submit builds and submits one message; returns whether poly accepted it, the independent count
// of distinct tracked valid signers, and a replay description.
func (w *ontWorld) submit(c ontCase) (accepted bool, distinct int, listed int, replay map[string]interface{}, err string) {
	w.height++
	w.tag++
	value := chains.MakeTxParam(sha256sum([]byte(fmt.Sprint("tx", w.tag))), []byte(fmt.Sprintf("ccid-%d-%d", len(w.members), w.tag)), []byte("from"),
		targetID, []byte("to-contract"), "unlock", []byte("args"))
	root := sha256.Sum256(append([]byte{0}, value...))
	msg := ontsynth.Msg(w.height, root)
	hash := msg.Hash()
	es := ontsynth.Entries(w.rng, hash[:], w.members, c.kinds)
	keys, sigs := ontsynth.Split(es)
	if c.shuffle {
		w.rng.Shuffle(len(sigs), func(i, j int) { sigs[i], sigs[j] = sigs[j], sigs[i] })
	}
	for i := 0; i < c.extraSig; i++ {
		sigs = append(sigs, pk.NewKey(w.rng).Sign(hash[:]))
	}
	if c.reshape {
		keys, sigs = ontsynth.Reshape(w.rng, hash[:], keys, sigs, c.keepKeys, c.keepSigs, c.pad)
	}
	msg.SigData = sigs
	raw := ontsynth.RawMsg(msg, keys)
	var rec *nat.CallRecord
	if c.via == "import" {
		s := pcommon.NewZeroCopySink(nil)
		s.WriteVarBytes(value)
		rec = chains.Import(w.e, ontChain, w.height, s.Bytes(), nil, raw)
		accepted = rec.Ok
	} else {
		rec = chains.SyncMsgs(w.e, ontChain, [][]byte{raw})
		stored, _ := ont.GetCrossChainMsg(w.e.Service(), ontChain, w.height)
		accepted = rec.Ok && stored != nil && stored.StatesRoot == msg.StatesRoot
	}
	distinct = ontsynth.DistinctValid(hash[:], w.ids, keys, sigs)
	kn := []string{}
	bk := []string{}
	for _, e := range es {
		kn = append(kn, e.Kind.String())
	}
	for _, k := range keys {
		bk = append(bk, kit.Hex(keypair.SerializePublicKey(k)))
	}
	sg := []string{}
	for _, s := range sigs {
		sg = append(sg, kit.Hex(s))
	}
	replay = map[string]interface{}{"router": "ont", "entry": c.via, "tracked_set_size": len(w.members), "tracked_set": pk.SortedHex(pubBytes(w.members)),
		"message_height": w.height, "message_hash": kit.Hex(hash[:]), "entry_kinds": kn, "bookkeepers": bk, "sig_data": sg, "sigs_shuffled": c.shuffle,
		"junk_sigs_appended": c.extraSig, "lists_reshaped": c.reshape, "bookkeepers_kept": c.keepKeys, "signatures_kept": c.keepSigs, "signature_padding": c.pad, "n_bookkeepers": len(keys), "n_signatures": len(sigs), "raw_message_hex": kit.Hex(raw), "distinct_tracked_valid_signers": distinct, "accepted": accepted, "err": rec.Err}
	return accepted, distinct, len(keys), replay, rec.Err
}

func pubBytes(ks []*pk.Key) [][]byte {
	var out [][]byte
	for _, k := range ks {
		out = append(out, k.PubBytes())
	}
	return out
}

func sha256sum(b []byte) []byte { h := sha256.Sum256(b); return h[:] }

func rep(k ontsynth.EntryKind, n int) []ontsynth.EntryKind {
	var out []ontsynth.EntryKind
	for i := 0; i < n; i++ {
		out = append(out, k)
	}
	return out
}

func violationKeyOnt(kinds []ontsynth.EntryKind, reshaped bool, nKeys, nSigs int) string {
	has := map[ontsynth.EntryKind]bool{}
	for _, k := range kinds {
		has[k] = true
	}
	switch {
	case has[ontsynth.DupSameSig] || has[ontsynth.DupFreshSig]:
		return "ont:crosschainmsg-duplicate-signer-counted"
	case reshaped && nSigs < nKeys:
		return "ont:crosschainmsg-unsigned-bookkeeper-counted"
	case reshaped && nSigs > nKeys:
		return "ont:crosschainmsg-surplus-signature-counted"
	case has[ontsynth.Foreign]:
		return "ont:crosschainmsg-foreign-signer-counted"
	case has[ontsynth.BadSig] || has[ontsynth.StolenSig]:
		return "ont:crosschainmsg-invalid-signature-counted"
	}
	return "ont:crosschainmsg-below-threshold-accepted"
}

func ontRound(t *testing.T, r *kit.Run, n int, cases int, thresholds map[int]int) {
	rng := r.Rand(fmt.Sprintf("ont-%d", n))
	e := newEnv(t, rng, utils.ONT_ROUTER, ontChain, "ont")
	w := &ontWorld{t: t, r: r, e: e, rng: rng, members: pk.NewKeys(rng, n), height: 1000}
	w.ids = ontsynth.IDs(w.members)
	gen := ontsynth.Header(1000, ontsynth.Payload(w.members, 0, nil), 1)
	if rec := chains.SyncGenesis(e, ontChain, ontsynth.RawHeader(gen), nat.Operator(e.Validators)); !rec.Ok {
		r.Inconclusive("ont genesis: " + rec.Err)
		return
	}
	// calibration: honest, all-distinct messages with k = 0..n signers
	T := -1
	var accK []int
	for k := 0; k <= n; k++ {
		acc, distinct, _, replay, _ := w.submit(ontCase{kinds: rep(ontsynth.Valid, k), via: "sync"})
		r.Eval(1)
		r.Distinct("ont", "calibrate", n, k, acc)
		if acc {
			accK = append(accK, k)
			if T < 0 {
				T = k
			}
			r.Count("ont_honest_accepted", 1)
		} else {
			r.Count("ont_honest_refused", 1)
		}
		if acc && k == 0 && n >= 1 {
			viol(r, "ont:crosschainmsg-accepted-without-signers", fmt.Sprintf("N=%d: a message with no signer at all was accepted", n), replay)
		}
		_ = distinct
	}
	if T < 0 {
		r.Inconclusive(fmt.Sprintf("ont N=%d: no honest message accepted", n))
		return
	}
	if len(accK) != n-T+1 {
		r.Count("ont_threshold_not_monotone", 1)
	}
	thresholds[n] = T
	doc := (n + 2) / 3
	if T != doc {
		r.Count("ont_threshold_differs_from_ceil_n_over_3", 1)
	}
	around := func(x int) int {
		v := x + rng.Intn(3) - 1
		if v < 0 {
			v = 0
		}
		return v
	}
	for i := 0; i < cases; i++ {
		var c ontCase
		shape := ""
		switch rng.Intn(9) {
		case 0:
			shape = "subset"
			k := around(T)
			if rng.Intn(4) == 0 {
				k = rng.Intn(n + 1)
			}
			if k > n {
				k = n
			}
			c.kinds = rep(ontsynth.Valid, k)
		case 1:
			shape = "superset-foreign"
			k := T - 1 - rng.Intn(2)
			if k < 0 {
				k = 0
			}
			c.kinds = append(rep(ontsynth.Valid, k), rep(ontsynth.Foreign, 1+rng.Intn(3))...)
			rng.Shuffle(len(c.kinds), func(a, b int) { c.kinds[a], c.kinds[b] = c.kinds[b], c.kinds[a] })
		case 2:
			shape = "one-key-repeated"
			total := []int{T, T + 1, n, 2, 3}[rng.Intn(5)]
			if total < 1 {
				total = 1
			}
			dk := []ontsynth.EntryKind{ontsynth.DupSameSig, ontsynth.DupFreshSig}[rng.Intn(2)]
			c.kinds = append(rep(ontsynth.Valid, 1), rep(dk, total-1)...)
		case 3:
			shape = "few-distinct-plus-repeats"
			d := 1
			if T > 2 {
				d = 1 + rng.Intn(T-1)
			}
			c.kinds = rep(ontsynth.Valid, d)
			for len(c.kinds) < T+rng.Intn(2) {
				c.kinds = append(c.kinds, []ontsynth.EntryKind{ontsynth.DupSameSig, ontsynth.DupFreshSig}[rng.Intn(2)])
			}
		case 4:
			shape = "invalid-signatures"
			k := T - 1 - rng.Intn(2)
			if k < 0 {
				k = 0
			}
			c.kinds = rep(ontsynth.Valid, k)
			for j := 0; j < 1+rng.Intn(3); j++ {
				c.kinds = append(c.kinds, []ontsynth.EntryKind{ontsynth.BadSig, ontsynth.StolenSig}[rng.Intn(2)])
			}
			rng.Shuffle(len(c.kinds), func(a, b int) { c.kinds[a], c.kinds[b] = c.kinds[b], c.kinds[a] })
		case 5:
			shape = "honest-quorum-variants"
			k := T + rng.Intn(n-T+1)
			c.kinds = rep(ontsynth.Valid, k)
			c.shuffle = rng.Intn(2) == 0
			c.extraSig = rng.Intn(2)
		case 7:
			// more bookkeepers listed than signatures carried: enough genuine members are LISTED,
			// but only 0 / 1 / T-1 of them signed
			shape = "fewer-signatures-than-bookkeepers"
			k := T + rng.Intn(n-T+1)
			c.kinds = rep(ontsynth.Valid, k)
			c.reshape, c.keepKeys = true, -1
			c.keepSigs = []int{0, 1, T - 1}[rng.Intn(3)]
			if c.keepSigs < 0 {
				c.keepSigs = 0
			}
			if c.keepSigs >= k {
				c.keepSigs = k - 1
			}
			if rng.Intn(3) == 0 { // and some padding that still leaves the list shorter
				for j := rng.Intn(k - c.keepSigs); j > 0 && c.keepSigs+len(c.pad) < k-1; j-- {
					c.pad = append(c.pad, ontsynth.PadKinds[rng.Intn(len(ontsynth.PadKinds))])
				}
			}
		case 8:
			// more signatures carried than bookkeepers listed: fewer than T genuine signers, the
			// signature list padded to a quorum-sized length
			shape = "more-signatures-than-bookkeepers"
			k := []int{1, T - 1, 0}[rng.Intn(3)]
			if k < 0 {
				k = 0
			}
			c.kinds = rep(ontsynth.Valid, k)
			c.reshape, c.keepKeys, c.keepSigs = true, -1, -1
			total := []int{T, T + 1, n, n + 2}[rng.Intn(4)]
			for len(c.pad) < total-k || len(c.pad) == 0 {
				c.pad = append(c.pad, ontsynth.PadKinds[rng.Intn(len(ontsynth.PadKinds))])
			}
		case 6:
			shape = "random"
			if rng.Intn(3) == 0 {
				c.reshape = true
				c.keepKeys, c.keepSigs = rng.Intn(n+2)-1, rng.Intn(n+2)-1
				for j := rng.Intn(4); j > 0; j-- {
					c.pad = append(c.pad, ontsynth.PadKinds[rng.Intn(len(ontsynth.PadKinds))])
				}
			}
			l := rng.Intn(n + 4)
			for j := 0; j < l; j++ {
				c.kinds = append(c.kinds, ontsynth.EntryKind(rng.Intn(int(ontsynth.NKinds))))
			}
		}
		c.via = "sync"
		if rng.Intn(3) == 0 {
			c.via = "import"
		}
		acc, distinct, listed, replay, errStr := w.submit(c)
		r.Eval(1)
		r.Distinct("ont", n, shape, fmt.Sprint(c.kinds), c.via, c.shuffle, c.extraSig, c.reshape, c.keepKeys, c.keepSigs, fmt.Sprint(c.pad), acc)
		r.Count("ont_shape_"+shape, 1)
		r.Count("ont_via_"+c.via, 1)
		if acc {
			r.Count("ont_accepted", 1)
			if distinct < T {
				viol(r, violationKeyOnt(c.kinds, c.reshape, replay["n_bookkeepers"].(int), replay["n_signatures"].(int)),
					fmt.Sprintf("ont message accepted via %s with %d listed bookkeeper(s) but only %d distinct tracked valid signer(s); tracked set N=%d needs %d (honest all-distinct threshold)", c.via, listed, distinct, n, T), replay)
			} else if shape == "honest-quorum-variants" && r.Get("ont_sampled") == 0 {
				r.Count("ont_sampled", 1)
				r.Sample(map[string]interface{}{"router": "ont", "case": "honest quorum accepted", "N": n, "threshold": T, "kinds": replay["entry_kinds"], "via": c.via})
			}
		} else {
			r.Count("ont_refused", 1)
			if distinct < T {
				r.Count("ont_refused_below_threshold", 1)
			}
			if shape == "one-key-repeated" && r.Get("ont_sampled_dup") == 0 {
				r.Count("ont_sampled_dup", 1)
				r.Sample(map[string]interface{}{"router": "ont", "case": "one key repeated refused", "N": n, "kinds": replay["entry_kinds"], "err": errStr})
			}
		}
	}
}

// ---------------------------------------------------------------------------------------------
// neo

func neoRound(t *testing.T, r *kit.Run, n, m, cases int) {
	rng := r.Rand(fmt.Sprintf("neo-%d-%d", n, m))
	e := newEnv(t, rng, utils.NEO_ROUTER, neoChain, "neo")
	set := neosynth.NewSet(rng, n, m)
	gen := neosynth.Header(500, set.Hash, 1)
	if rec := chains.SyncGenesis(e, neoChain, neosynth.RawHeader(gen), nat.Operator(e.Validators)); !rec.Ok {
		r.Inconclusive("neo genesis: " + rec.Err)
		return
	}
	other := neosynth.NewSet(rng, n, m)
	var weak *neosynth.Set
	if m > 1 {
		weak = neosynth.FromKeys(set.Keys, 1) // same keys, 1-of-n: a different script hash
	}
	asc := func(k int) []int { // k members in ascending script order, random subset
		p := rng.Perm(n)[:k]
		for i := 0; i < len(p); i++ {
			for j := i + 1; j < len(p); j++ {
				if p[j] < p[i] {
					p[i], p[j] = p[j], p[i]
				}
			}
		}
		return p
	}
	for i := 0; i < cases; i++ {
		var root [32]byte
		rng.Read(root[:])
		sr := neosynth.StateRoot(uint32(1000+i), root)
		msg := neosynth.StateRootMessage(sr)
		var kinds []neosynth.SlotKind
		who := asc(n)
		shape := ""
		script := set
		switch rng.Intn(10) {
		case 8:
			// fewer than m genuine signatures, the invocation script padded to m (or more) slots
			shape = "below-padded-with-garbage"
			for j := 0; j < m-1; j++ {
				kinds = append(kinds, neosynth.Valid)
			}
			for len(kinds) < m+rng.Intn(2) {
				kinds = append(kinds, neosynth.Garbage)
			}
			if rng.Intn(2) == 0 {
				rng.Shuffle(len(kinds), func(a, b int) { kinds[a], kinds[b] = kinds[b], kinds[a] })
			}
		case 9:
			// more signature slots than the script has keys
			shape = "more-slots-than-keys"
			for j := 0; j < m-1; j++ {
				kinds = append(kinds, neosynth.Valid)
			}
			for len(kinds) < n+1+rng.Intn(2) {
				kinds = append(kinds, []neosynth.SlotKind{neosynth.Garbage, neosynth.DupSameSig, neosynth.Foreign}[rng.Intn(3)])
			}
		case 0:
			shape = "honest"
			k := m + rng.Intn(2)
			if k > n {
				k = n
			}
			who = asc(k)
			for j := 0; j < k; j++ {
				kinds = append(kinds, neosynth.Valid)
			}
		case 1:
			shape = "subset-below"
			k := m - 1 - rng.Intn(2)
			if k < 0 {
				k = 0
			}
			who = asc(n)
			for j := 0; j < k; j++ {
				kinds = append(kinds, neosynth.Valid)
			}
		case 2:
			shape = "one-key-repeated"
			dk := []neosynth.SlotKind{neosynth.DupSameSig, neosynth.DupFreshSig}[rng.Intn(2)]
			kinds = append(kinds, neosynth.Valid)
			for len(kinds) < m {
				kinds = append(kinds, dk)
			}
		case 3:
			shape = "below-plus-repeats"
			d := 1
			if m > 2 {
				d = 1 + rng.Intn(m-1)
			}
			for j := 0; j < d; j++ {
				kinds = append(kinds, neosynth.Valid)
			}
			for len(kinds) < m+rng.Intn(2) {
				kinds = append(kinds, []neosynth.SlotKind{neosynth.DupSameSig, neosynth.DupFreshSig}[rng.Intn(2)])
			}
		case 4:
			shape = "below-plus-foreign"
			k := m - 1
			for j := 0; j < k; j++ {
				kinds = append(kinds, neosynth.Valid)
			}
			for len(kinds) < m+rng.Intn(2) {
				kinds = append(kinds, []neosynth.SlotKind{neosynth.Foreign, neosynth.BadSig}[rng.Intn(2)])
			}
			rng.Shuffle(len(kinds), func(a, b int) { kinds[a], kinds[b] = kinds[b], kinds[a] })
		case 5:
			shape = "wrong-script-other-committee"
			script = other
			who = asc(n)
			for j := 0; j < m; j++ {
				kinds = append(kinds, neosynth.Valid)
			}
		case 6:
			shape = "wrong-script-weaker-threshold"
			if weak == nil {
				continue
			}
			script = weak
			kinds = append(kinds, neosynth.Valid)
		case 7:
			shape = "random"
			l := rng.Intn(n + 2)
			for j := 0; j < l; j++ {
				kinds = append(kinds, neosynth.SlotKind(rng.Intn(int(neosynth.NKinds))))
			}
			if rng.Intn(2) == 0 {
				who = rng.Perm(n) // not ascending
			}
		}
		sigs := script.Sigs(rng, msg, kinds, who)
		sr.Witness.InvocationScript = helper.BytesToHex(neosynth.Invocation(sigs))
		sr.Witness.VerificationScript = helper.BytesToHex(script.Script)
		raw := neosynth.RawStateRoot(sr)
		ccm := new(neo.NeoCrossChainMsg)
		if err := ccm.Deserialization(pcommon.NewZeroCopySource(raw)); err != nil {
			r.Inconclusive("neo state root does not round-trip: " + err.Error())
			return
		}
		var verr error
		if p := kit.Catch(func() { verr = neo.VerifyCrossChainMsgSig(e.Service(), neoChain, ccm) }); p != nil {
			verr = fmt.Errorf("panic: %v", p)
			r.Count("neo_panics", 1)
		}
		acc := verr == nil
		distinct := set.DistinctValid(msg, sigs)
		r.Eval(1)
		kn := []string{}
		for _, k := range kinds {
			kn = append(kn, k.String())
		}
		r.Distinct("neo", n, m, shape, fmt.Sprint(kn), acc)
		r.Count("neo_shape_"+shape, 1)
		replay := map[string]interface{}{"router": "neo", "n": n, "m": m, "shape": shape, "slot_kinds": kn, "signer_order": who, "tracked_script_hash": set.Hash.String(),
			"tracked_script": kit.Hex(set.Script), "state_root_hex": kit.Hex(raw), "distinct_committee_valid_signers": distinct, "accepted": acc, "err": fmt.Sprint(verr)}
		if acc {
			r.Count("neo_accepted", 1)
			switch {
			case script != set:
				viol(r, "neo:stateroot-wrong-script-accepted", fmt.Sprintf("state root accepted with a verification script (%s) that is not the tracked consensus script", shape), replay)
			case distinct < m:
				key := "neo:stateroot-below-threshold-accepted"
				for _, k := range kinds {
					if k == neosynth.DupSameSig || k == neosynth.DupFreshSig {
						key = "neo:stateroot-duplicate-signer-counted"
					}
				}
				viol(r, key, fmt.Sprintf("state root accepted with %d distinct committee signer(s), script needs %d of %d", distinct, m, n), replay)
			default:
				if r.Get("neo_sampled") == 0 {
					r.Count("neo_sampled", 1)
					r.Sample(map[string]interface{}{"router": "neo", "case": "honest state root accepted", "n": n, "m": m, "slot_kinds": kn})
				}
			}
		} else {
			r.Count("neo_refused", 1)
			if shape == "honest" {
				r.Count("neo_honest_refused", 1)
				if r.Get("neo_honest_refused") <= 2 {
					fmt.Printf("note: honest neo state root refused: %v\n", verr)
				}
			}
		}
	}
}

func TestC24(t *testing.T) {
	r := kit.Start(t, "C24", "exploration")
	defer r.Finish()
	r.Rule("ont: for every tracked-set size N: calibration (honest all-distinct k=0..N) then bookkeeper lists of shapes {subset around threshold, superset with foreign keys, one key repeated, few distinct + repeats, invalid/stolen signatures, honest quorum with shuffled/extra signatures, multi-epoch chains with messages at key heights and key height +-1 signed by the set in force / the set announced at that height / another epoch's set, bookkeeper list longer than the signature list (0/1/T-1 signatures), signature list longer than the bookkeeper list (garbage/repeated/foreign/empty padding), random kind vectors with random truncation} through syncCrossChainMsg and ImportOuterTransfer; neo: for every (n,m): witnesses of shapes {honest, below, one key repeated, below+repeats, below+foreign/bad, other committee's script, same keys with 1-of-n script, random}; neo3/neo3legacy additionally: state-validator sets built over 2-4 approved registration rounds that re-submit the first / middle / last / a random tracked key (sometimes with a new key), then witnesses over the stored list in which every listed copy of a re-submitted key signs / distinct keys sign / one signature short; distinct = (router, N or (n,m), shape, kind vector, entry, outcome)")
	r.Assume("ont: the property does not fix 'the required number'; it is taken as the smallest k for which the router accepts an honest message signed by k distinct tracked members (calibrated per N on the running code; documented formula ceil(N/3) is recorded for comparison) and must be >= 1")
	r.Assume("neo: the required number is the m of the tracked m-of-n consensus script; neo3/neo3legacy: the k for which an honest k-of-n witness of k distinct state validators is accepted (calibrated per n) and it must not be smaller than NEO N3's own quorum for designated state validators, n-(n-1)/3")
	r.Assume("neo3 re-registration part: the model owns the expectation (tracked set = distinct registered keys D, required distinct signers = D-(D-1)/3); the stored list is read only to build the submitter's witness")
	r.Assume("ont epochs part: the set tracked for a message at height h is the peer set recorded at the greatest key height strictly below h (as the property family states for Ontology headers; the block announcing a new set is produced by the old one) and ceil(n/3) distinct members must sign; both values are owned by the model")
	r.Assume("signature validity is judged with ontology-crypto / neo-gogogo verification of each listed signature against each tracked member key")
	r.Assume("only 'accepted => enough distinct tracked valid signers' is asserted; refusals of sufficient lists (e.g. out-of-order NEO signatures) are not violations")

	maxN := r.N(10, 31)
	perN := r.N(150, 900)
	thresholds := map[int]int{}
	for n := 1; n <= maxN; n++ {
		ontRound(t, r, n, perN, thresholds)
	}
	r.Set("ont_threshold_by_N", fmt.Sprint(thresholds))
	for rep := 0; rep < r.N(40, 600); rep++ {
		ontEpochRound(t, r, rep)
	}
	r.Require("ont_epoch_changes_installed", r.N(40, 600))
	r.Require("ont_epoch_msgs_at-key-height", r.N(60, 900))
	r.Require("ont_epoch_msgs_signed_by_set-announced-at-this-height", r.N(20, 300))
	r.Require("ont_epoch_msgs_accepted_at_key_height", r.N(20, 300))
	r.Require("ont_epoch_msgs_refused", r.N(60, 900))
	// neo
	maxNeo := r.N(7, 16)
	perNeo := r.N(40, 150)
	for n := 2; n <= maxNeo; n++ {
		ms := map[int]bool{1: true, n - 1: true, n - (n-1)/3: true}
		if !r.Quick() {
			for m := 1; m < n; m++ {
				ms[m] = true
			}
		}
		for m := 1; m < n; m++ {
			if ms[m] {
				neoRound(t, r, n, m, perNeo)
			}
		}
	}
	// neo3 / neo3legacy
	n3T, n3lT := map[int]int{}, map[int]int{}
	for n := 1; n <= r.N(7, 16); n++ {
		n3Round(t, r, n, r.N(40, 200), n3T)
		n3lRound(t, r, n, r.N(40, 200), n3lT)
	}
	for d := 2; d <= r.N(7, 12); d++ {
		for rep := 0; rep < r.N(4, 12); rep++ {
			n3Reregistration(t, r, d, rep, r.N(12, 30))
			n3lReregistration(t, r, d, rep, r.N(12, 30))
		}
	}
	r.Set("neo3_threshold_by_n", fmt.Sprint(n3T))
	r.Set("neo3legacy_threshold_by_n", fmt.Sprint(n3lT))
	r.Set("routers_covered", []string{"ont (syncCrossChainMsg + ImportOuterTransfer)", "neo (VerifyCrossChainMsgSig called directly on contract state installed by syncGenesisHeader)",
		"neo3, neo3legacy (VerifyCrossChainMsgSig called directly; state validators installed through the real neo3_state_manager contract)"})
	r.Set("routers_uncovered", []string{})
	for _, R := range []string{"neo3", "neo3legacy"} {
		r.Require(R+"_accepted", 10)
		r.Require(R+"_refused", 40)
		r.Require(R+"_shape_one-key-repeated", 8)
		r.Require(R+"_reregistration_rounds", 12)
		r.Require(R+"_resubmitted_first", 4)
		r.Require(R+"_resubmitted_middle", 2)
		r.Require(R+"_resubmitted_last", 4)
		r.Require(R+"_rereg_shape_every-listed-copy-signs", 30)
		r.Require(R+"_rereg_accepted", 20)
		r.Require(R+"_rereg_refused", 20)
	}
	r.Require("ont_honest_accepted", maxN)
	r.Require("ont_refused_below_threshold", maxN*5)
	r.Require("ont_shape_one-key-repeated", maxN*3)
	r.Require("ont_via_import", maxN*5)
	r.Require("ont_shape_fewer-signatures-than-bookkeepers", maxN*4)
	r.Require("ont_shape_more-signatures-than-bookkeepers", maxN*4)
	r.Require("neo_accepted", 20)
	r.Require("neo_refused", 50)
	r.Require("neo_shape_one-key-repeated", 10)
}

// ontEpochRound: two or three tracked epochs with disjoint peer sets (genesis set A, a header at
// key height H announcing B, optionally one at H2 announcing C), then messages at the key heights
// and right next to them, signed by an honest quorum of the set in force, of the set announced AT
// that height, or of another epoch's set. The model owns the expectation: the set tracked for a
// message at height h is the one recorded at the greatest key height strictly below h (the block
// that announces a new set is itself still produced by the old one) and ceil(n/3) distinct members
// of it must have signed.
func ontEpochRound(t *testing.T, r *kit.Run, rep int) {
	rng := r.Rand(fmt.Sprintf("ont-epochs-%d", rep))
	e := newEnv(t, rng, utils.ONT_ROUTER, ontChain, "ont")
	g := uint32(1000)
	sets := [][]*pk.Key{pk.NewKeys(rng, 1+rng.Intn(7)), pk.NewKeys(rng, 1+rng.Intn(7))}
	if rng.Intn(2) == 0 {
		sets = append(sets, pk.NewKeys(rng, 1+rng.Intn(7)))
	}
	keyHeights := []uint32{g}
	gen := ontsynth.Header(g, ontsynth.Payload(sets[0], 0, nil), 1)
	if rec := chains.SyncGenesis(e, ontChain, ontsynth.RawHeader(gen), nat.Operator(e.Validators)); !rec.Ok {
		r.Inconclusive("ont epochs genesis: " + rec.Err)
		return
	}
	for i := 1; i < len(sets); i++ {
		h := keyHeights[i-1] + uint32(3+rng.Intn(5))
		hd := ontsynth.Header(h, ontsynth.Payload(sets[i], h, nil), uint32(i))
		hash := hd.Hash()
		hd.Bookkeepers, hd.SigData = ontsynth.Split(ontsynth.Entries(rng, hash[:], sets[i-1], rep2(ontsynth.Valid, len(sets[i-1]))))
		if rec := chains.SyncHeaders(e, ontChain, [][]byte{ontsynth.RawHeader(hd)}); !rec.Ok {
			r.Inconclusive("ont epochs: honest key-height header refused: " + rec.Err)
			return
		}
		if _, err := ont.GetHeaderByHeight(e.Service(), ontChain, h); err != nil {
			r.Inconclusive("ont epochs: key-height header not stored")
			return
		}
		keyHeights = append(keyHeights, h)
		r.Count("ont_epoch_changes_installed", 1)
	}
	inForce := func(h uint32) int { // index of the set recorded at the greatest key height strictly below h
		idx := -1
		for i, k := range keyHeights {
			if k < h {
				idx = i
			}
		}
		return idx
	}
	var heights []uint32
	for _, k := range keyHeights[1:] {
		heights = append(heights, k-1, k, k+1)
	}
	heights = append(heights, g+1)
	rng.Shuffle(len(heights), func(a, b int) { heights[a], heights[b] = heights[b], heights[a] })
	seen := map[uint32]bool{}
	for _, h := range heights {
		if seen[h] {
			continue
		}
		seen[h] = true
		app := inForce(h)
		if app < 0 {
			continue
		}
		atKey := false
		for _, k := range keyHeights[1:] {
			if k == h {
				atKey = true
			}
		}
		// wrong sets first (a stored message at a height shadows later submissions), then the set in force
		order := rng.Perm(len(sets))
		var tries []int
		for _, i := range order {
			if i != app {
				tries = append(tries, i)
			}
		}
		tries = append(tries, app)
		for _, si := range tries {
			signerSet := sets[si]
			n := len(sets[app])
			required := (n + 2) / 3
			k := (len(signerSet) + 2) / 3 // an honest quorum of the signing set
			if rng.Intn(3) == 0 {
				k = len(signerSet)
			}
			w := &ontWorld{t: t, r: r, e: e, rng: rng, members: signerSet, ids: ontsynth.IDs(sets[app]), height: h - 1, tag: int(h)*10 + si + rep*100000}
			via := "sync"
			if rng.Intn(3) == 0 {
				via = "import"
			}
			acc, distinct, _, replay, _ := w.submit(ontCase{kinds: rep2(ontsynth.Valid, k), via: via})
			rel := "set-in-force"
			if si != app {
				rel = "other-epoch-set"
				if si == app+1 && atKey {
					rel = "set-announced-at-this-height"
				}
			}
			pos := "inside-epoch"
			if atKey {
				pos = "at-key-height"
			}
			r.Eval(1)
			r.Distinct("ont-epochs", len(sets), pos, rel, len(signerSet), n, via, acc)
			r.Count("ont_epoch_msgs_"+pos, 1)
			r.Count("ont_epoch_msgs_signed_by_"+rel, 1)
			replay["key_heights"] = fmt.Sprint(keyHeights)
			replay["signer_set_epoch_index"] = si
			replay["epoch_in_force_index"] = app
			if acc {
				r.Count("ont_epoch_msgs_accepted", 1)
				if atKey {
					r.Count("ont_epoch_msgs_accepted_at_key_height", 1)
				}
				if distinct < required {
					viol(r, "ont:crosschainmsg-checked-against-wrong-epoch",
						fmt.Sprintf("message at height %d (key heights %v, %s) signed by the %s accepted via %s: %d distinct signer(s) of the %d-member set in force, %d required", h, keyHeights, pos, rel, via, distinct, n, required), replay)
				}
				break // a message is now stored at this height
			}
			r.Count("ont_epoch_msgs_refused", 1)
		}
	}
}

func rep2(k ontsynth.EntryKind, n int) []ontsynth.EntryKind { return rep(k, n) }
