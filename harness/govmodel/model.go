// model.go: the executable reference model, written from the statements of C32–C35 (not from
// poly's code), and the per-operation judgement.
//
// What the model demands (and nothing more):
//
//	C32  an approval-gated action takes effect at an approval call iff a request for it is pending
//	     and the distinct approvers of that same (method, request) that are consensus validators
//	     now number >= ceil(2N/3). Where the statement is ambiguous the model keeps BOTH readings
//	     and only judges what every reading agrees on:
//	       - validator set: members with consensus status, or those plus consensus members that
//	         asked to quit but are still in office until the next epoch;
//	       - approvals given while the request was not pending, or to an earlier incarnation of a
//	         request with the same id, count in the upper bound ("maybe") only.
//	     MUST NOT take effect: no reading reaches the threshold, or nothing is pending.
//	     MUST take effect: every reading reaches it, the caller is a consensus validator, the
//	     request is pending, the call succeeded. Otherwise the model follows what it observes.
//	C33  after an approved request was applied it is not pending: an effect of the same
//	     (method, request) without a fresh request is a violation.
//	C34  pool invariants after every operation, epoch-change rules at every view change.
//	C35  registry == model registry after every operation; record == approved request; an update /
//	     removal that takes effect must stem from a request signed by the chain's owner at request
//	     time; a registration never overwrites a registered chain.
package govmodel

import (
	"fmt"
	"sort"
	"strings"

	"github.com/polynetwork/poly/common"

	"verifharness/kit/nat"
)

// Member is one pool entry of the model.
type Member struct {
	Str     string
	Canon   string
	Owner   common.Address
	Status  uint8
	WasCons bool // was a consensus member at the last epoch change (still in office whatever its status now)
}

// ES is the externally visible state the model predicts.
type ES struct {
	View, ViewHeight uint32
	Pool             map[string]*Member // by exact key string
	Black            map[string]bool    // canonical key
	Chains           map[uint64]*ChainRec
	Relayers         map[common.Address]bool
	SVs              map[string]bool
}

func (s *ES) clone() *ES {
	c := &ES{View: s.View, ViewHeight: s.ViewHeight, Pool: map[string]*Member{}, Black: map[string]bool{},
		Chains: map[uint64]*ChainRec{}, Relayers: map[common.Address]bool{}, SVs: map[string]bool{}}
	for k, v := range s.Pool {
		m := *v
		c.Pool[k] = &m
	}
	for k := range s.Black {
		c.Black[k] = true
	}
	for k, v := range s.Chains {
		c.Chains[k] = v // records are immutable once built
	}
	for k := range s.Relayers {
		c.Relayers[k] = true
	}
	for k := range s.SVs {
		c.SVs[k] = true
	}
	return c
}

// Lines renders the state in the same form as Obs.Lines.
func (s *ES) Lines() []string {
	ls := []string{fmt.Sprintf("view %d changed-at-height %d", s.View, s.ViewHeight)}
	for _, m := range s.Pool {
		ls = append(ls, poolLine(m.Canon, m.Status, m.Owner))
	}
	for c := range s.Black {
		ls = append(ls, "black "+c)
	}
	for _, c := range s.Chains {
		ls = append(ls, c.line())
	}
	for a := range s.Relayers {
		ls = append(ls, fmt.Sprintf("relayer %x", a[:]))
	}
	for v := range s.SVs {
		ls = append(ls, "sv "+v)
	}
	sort.Strings(ls)
	return ls
}

// epoch applies the epoch-change rule of C34: view+1, every active member becomes a consensus
// member, quitting and blacklisted members are dropped.
func (s *ES) epoch(height uint32) {
	for k, m := range s.Pool {
		switch m.Status {
		case StCand, StCons:
			m.Status = StCons
			m.WasCons = true
		default:
			delete(s.Pool, k)
		}
	}
	s.View++
	s.ViewHeight = height
}

func (s *ES) active() int {
	n := 0
	for _, m := range s.Pool {
		if m.Status == StCand || m.Status == StCons {
			n++
		}
	}
	return n
}

// pend is a request made by an owner and waiting for (or consumed by) validator approval.
type pend struct {
	Cand      *Member   // candidacy
	Chain     *ChainRec // side-chain registration / update
	Addrs     []common.Address
	Strs      []string
	Requester common.Address
	ByOwner   bool // update/quit: requester was the registered owner when asking
}

// ReqState is the approval bookkeeping of one (method, request).
type ReqState struct {
	Pending  int // 0 not pending, 1 pending, 2 unknown (an unobservable effect may have consumed it)
	Consumed bool
	P        *pend
	Sure     map[common.Address]bool
	Maybe    map[common.Address]bool
	Rounds   int // number of times an effect was observed
	// Saw records, per approver, the content of the request that was pending when it approved
	// ("" = nothing pending): the quorum must have approved the content that is applied.
	Saw map[common.Address]string
	// Replaced: a new request took the place of a pending one that had not been withdrawn by its requester
	Replaced bool
}

// Finding is a verdict of the model.
type Finding struct {
	Property string
	Key      string
	What     string
}

type approveSpec struct{ family, action string }

var approveSpecs = map[string]approveSpec{
	KApproveCandidate:  {"node", "candidate"},
	KBlackNode:         {"node", "black"},
	KWhiteNode:         {"node", "white"},
	KApproveRegisterSC: {"side_chain", "register"},
	KApproveUpdateSC:   {"side_chain", "update"},
	KApproveQuitSC:     {"side_chain", "quit"},
	KApproveRegRelayer: {"relayer", "register"},
	KApproveRemRelayer: {"relayer", "remove"},
	KApproveRegSV:      {"neo3", "register"},
	KApproveRemSV:      {"neo3", "remove"},
}

// IsApprove reports whether kind is an approval-gated method.
func IsApprove(kind string) bool { _, ok := approveSpecs[kind]; return ok }

// ApproveKinds lists the approval-gated methods.
func ApproveKinds() []string {
	var ks []string
	for k := range approveSpecs {
		ks = append(ks, k)
	}
	sort.Strings(ks)
	return ks
}

// Model = predicted state + request bookkeeping.
type Model struct {
	*ES
	W       *World
	Reqs    map[string]*ReqState
	NextID  map[string]uint64 // per request method: next id the model expects
	Hostile bool              // history uses non-canonical key spellings: node-family approvals are followed, not judged
	Count   func(name string, n int)
	Fp      func(parts ...interface{})
}

// NewModel builds the model of a fresh world (genesis pool = first N0 node keys, all consensus,
// each owned by its own address; view 1 installed at height 0).
func NewModel(w *World) *Model {
	m := &Model{ES: &ES{View: 1, ViewHeight: 0, Pool: map[string]*Member{}, Black: map[string]bool{}, Chains: map[uint64]*ChainRec{},
		Relayers: map[common.Address]bool{}, SVs: map[string]bool{}}, W: w, Reqs: map[string]*ReqState{}, NextID: map[string]uint64{},
		Count: func(string, int) {}, Fp: func(...interface{}) {}}
	for i := 0; i < w.N0; i++ {
		s := w.Nodes[i].Key.PubHex()
		m.Pool[s] = &Member{Str: s, Canon: s, Owner: w.Nodes[i].Addr(), Status: StCons, WasCons: true}
	}
	return m
}

func reqKeyOf(o *Op) string {
	switch o.Kind {
	case KApproveCandidate, KWhiteNode, KRegisterCandidate, KUnRegisterCandidate:
		return o.Node
	case KBlackNode:
		return strings.Join(o.List, "|")
	}
	return fmt.Sprint(o.ID)
}

// RS returns the bookkeeping of (method, request), creating it.
func (m *Model) RS(method, req string) *ReqState {
	k := method + "\x00" + req
	rs := m.Reqs[k]
	if rs == nil {
		rs = &ReqState{Sure: map[common.Address]bool{}, Maybe: map[common.Address]bool{}, Saw: map[common.Address]string{}}
		if method == KBlackNode || method == KWhiteNode {
			rs.Pending = 1 // no separate owner request: the approvers themselves ask
		}
		m.Reqs[k] = rs
	}
	return rs
}

// Lookup is RS without creating.
func (m *Model) Lookup(method, req string) *ReqState { return m.Reqs[method+"\x00"+req] }

func (m *Model) newIncarnation(method, req string, p *pend) {
	rs := m.RS(method, req)
	if rs.Pending == 1 && rs.P != nil && rs.P.content() != p.content() && len(rs.Sure) > 0 {
		rs.Replaced = true
	}
	for a := range rs.Sure {
		rs.Maybe[a] = true
	}
	rs.Sure = map[common.Address]bool{}
	rs.Pending = 1
	rs.P = p
}

func (m *Model) withdraw(method, req string) {
	rs := m.RS(method, req)
	for a := range rs.Sure {
		rs.Maybe[a] = true
	}
	rs.Sure = map[common.Address]bool{}
	rs.Pending = 0
}

// valSets returns the consensus validator addresses under the two readings.
func (m *Model) valSets() (a, b map[common.Address]bool) {
	a, b = map[common.Address]bool{}, map[common.Address]bool{}
	for _, mem := range m.Pool {
		ad, ok := m.W.NodeAddr(mem.Str)
		if !ok {
			continue
		}
		if mem.Status == StCons {
			a[ad] = true
		}
		if mem.Status == StCons || mem.WasCons {
			b[ad] = true
		}
	}
	return
}

// ConsensusCanons lists canonical keys of members with consensus status (sorted).
func (m *Model) ConsensusCanons() []string {
	var cs []string
	for _, mem := range m.Pool {
		if mem.Status == StCons {
			cs = append(cs, mem.Canon)
		}
	}
	sort.Strings(cs)
	return cs
}

// Threshold is ceil(2n/3).
func Threshold(n int) int { return (2*n + 2) / 3 }

func countIn(t1, t2, set map[common.Address]bool) int {
	c := 0
	for a := range set {
		if t1[a] || (t2 != nil && t2[a]) {
			c++
		}
	}
	return c
}

// applyEffect applies the action of an approval-gated method to s; false = effect not defined
// (no request content known).
func (m *Model) applyEffect(s *ES, o *Op, p *pend) bool {
	switch o.Kind {
	case KApproveCandidate:
		if p == nil || p.Cand == nil {
			return false
		}
		c := *p.Cand
		c.Status = StCand
		s.Pool[c.Str] = &c
	case KBlackNode:
		for _, str := range o.List {
			if mem := s.Pool[str]; mem != nil {
				mem.Status = StBlack
			}
			s.Black[m.W.Canon(str)] = true
		}
	case KWhiteNode:
		delete(s.Black, m.W.Canon(o.Node))
	case KApproveRegisterSC, KApproveUpdateSC:
		if p == nil || p.Chain == nil {
			return false
		}
		s.Chains[o.ID] = p.Chain
	case KApproveQuitSC:
		delete(s.Chains, o.ID)
	case KApproveRegRelayer:
		if p == nil {
			return false
		}
		for _, a := range p.Addrs {
			s.Relayers[a] = true
		}
	case KApproveRemRelayer:
		if p == nil {
			return false
		}
		for _, a := range p.Addrs {
			delete(s.Relayers, a)
		}
	case KApproveRegSV:
		if p == nil {
			return false
		}
		for _, v := range p.Strs {
			s.SVs[v] = true
		}
	case KApproveRemSV:
		if p == nil {
			return false
		}
		for _, v := range p.Strs {
			delete(s.SVs, v)
		}
	}
	return true
}

func same(a, b []string) bool {
	if len(a) != len(b) {
		return false
	}
	for i := range a {
		if a[i] != b[i] {
			return false
		}
	}
	return true
}

// diff lists lines only in a ("-") or only in b ("+").
func diff(a, b []string) []string {
	ma := map[string]int{}
	for _, l := range a {
		ma[l]++
	}
	var out []string
	for _, l := range b {
		if ma[l] > 0 {
			ma[l]--
		} else {
			out = append(out, "+"+l)
		}
	}
	for l, n := range ma {
		for ; n > 0; n-- {
			out = append(out, "-"+l)
		}
	}
	sort.Strings(out)
	return out
}

func propertyOfLine(l string) (string, string) {
	l = strings.TrimLeft(l, "+-")
	switch {
	case strings.HasPrefix(l, "view"), strings.HasPrefix(l, "pool"), strings.HasPrefix(l, "black"):
		return "C34", "pool"
	case strings.HasPrefix(l, "chain"):
		return "C35", "side_chain"
	case strings.HasPrefix(l, "relayer"):
		return "C32", "relayer"
	}
	return "C32", "neo3"
}

func notifiedID(rec *nat.CallRecord, name string) (uint64, bool) {
	for _, n := range rec.Notify {
		st, ok := n.States.([]interface{})
		if !ok || len(st) != 2 {
			continue
		}
		if s, ok := st[0].(string); ok && s == name {
			if id, ok := st[1].(uint64); ok {
				return id, true
			}
		}
	}
	return 0, false
}

// Invariants checks the C34 pool invariants on an observation.
func (m *Model) Invariants(obs *Obs) []Finding {
	var fs []Finding
	active := map[string]bool{}
	byCanon := map[string][]PoolEntry{}
	byIndex := map[uint32]string{}
	for _, e := range obs.Pool {
		if e.Status == StCand || e.Status == StCons {
			active[e.Canon] = true
		}
		byCanon[e.Canon] = append(byCanon[e.Canon], e)
	}
	if len(active) < 4 {
		fs = append(fs, Finding{"C34", "pool:fewer-than-four-active-members", fmt.Sprintf("%d distinct active keys in the pool of view %d", len(active), obs.View)})
	}
	for c, es := range byCanon {
		if len(es) < 2 {
			continue
		}
		cls := "exact"
		for _, e := range es[1:] {
			if e.Str != es[0].Str {
				if strings.ToLower(e.Str) == strings.ToLower(es[0].Str) {
					cls = "hex-case"
				} else {
					cls = "alt-encoding"
				}
			}
		}
		k := "pool:duplicate-entry"
		if cls == "hex-case" {
			k = "pool:hex-case-variant-duplicate-entry"
		} else if cls == "alt-encoding" {
			k = "pool:alt-encoding-duplicate-entry"
		}
		var d []string
		for _, e := range es {
			d = append(d, fmt.Sprintf("{%s index=%d status=%d owner=%s}", short(e.Str), e.Index, e.Status, m.W.nameOf(e.Owner)))
		}
		fs = append(fs, Finding{"C34", k, fmt.Sprintf("public key %s (%s) occupies %d pool entries: %s", short(c), m.W.nodeName(c), len(es), strings.Join(d, " "))})
	}
	for _, e := range obs.Pool {
		if prev, ok := byIndex[e.Index]; ok && prev != e.Canon {
			fs = append(fs, Finding{"C34", "pool:index-shared-by-distinct-keys", fmt.Sprintf("index %d used by %s and %s", e.Index, short(prev), short(e.Canon))})
		}
		byIndex[e.Index] = e.Canon
	}
	if obs.MapLen >= 0 && obs.MapLen != len(obs.Pool) {
		fs = append(fs, Finding{"C34", "pool:duplicate-entry", fmt.Sprintf("stored pool has %d entries, %d distinct key strings", len(obs.Pool), obs.MapLen)})
	}
	return fs
}

// Judgement is what Judge tells the engine about one operation.
type Judgement struct {
	Findings []Finding
	Effect   string // for approvals: yes | no | unobservable | "" (not an approval / failed call)
	Verdict  string // must | mustnot | may
	Epoch    bool
	Note     string
}

// Judge compares the outcome of op with the model and advances the model.
// before is the observation preceding the op (used for blacklist-at-call-time in hostile mode).
func (m *Model) Judge(o *Op, rec *nat.CallRecord, before, obs *Obs, height uint32) *Judgement {
	j := &Judgement{}
	add := func(p, k, w string) { j.Findings = append(j.Findings, Finding{p, k, w}) }
	if o.Kind == KAdvance {
		return j
	}
	if obs.Err != "" {
		add("C34", "observe:state-unreadable", obs.Err)
		return j
	}
	j.Findings = append(j.Findings, m.Invariants(obs)...)
	if obs.View != m.View && obs.View != m.View+1 {
		add("C34", "epoch:view-not-advanced-by-one", fmt.Sprintf("view went from %d to %d in one operation", m.View, obs.View))
	}
	actual := obs.Lines()
	fam := Family(o.Kind)

	if o.Kind == KApproveRegisterSC {
		// workload shape: an approval of a pending registration while the id is registered
		if rs := m.Lookup(KApproveRegisterSC, fmt.Sprint(o.ID)); rs != nil && rs.Pending == 1 && rs.P != nil && rs.P.Chain != nil {
			if cur := m.Chains[o.ID]; cur != nil && cur.Owner == rs.P.Chain.Owner {
				m.Count("register_approvals_while_id_registered_to_the_applicant", 1)
			} else if cur != nil {
				m.Count("register_approvals_while_id_registered_to_another_owner", 1)
			}
		}
	}
	if !rec.Ok {
		if rec.Panic != nil {
			m.Count("calls_panicked", 1)
			m.Count("panic@"+o.Kind, 1)
		}
		m.Count("failed@"+o.Kind, 1)
		if !same(actual, m.Lines()) {
			m.diverged(j, o, actual, m.ES, "a failed call changed the state")
		}
		return j
	}
	m.Count("ok@"+o.Kind, 1)

	if IsApprove(o.Kind) {
		m.judgeApprove(j, o, rec, obs, actual, height)
		return j
	}

	// ---- owner requests and epoch operation: the model follows the call's success and checks
	// prohibitions and the resulting visible state.
	exp := m.ES
	signer := common.Address{}
	if !o.NoSig && !o.OpSig && o.Actor != nil {
		signer = o.Actor.Addr()
	}
	switch o.Kind {
	case KRegisterCandidate:
		canon := m.W.Canon(o.Node)
		blk := m.Black[canon]
		if m.Hostile {
			blk = before.Black[canon]
		}
		if blk {
			cls := VariantClass(o.Node, canon)
			k := "pool:blacklisted-key-registered"
			if cls != "canonical" {
				k += "-via-" + cls
			}
			add("C34", k, fmt.Sprintf("registerCandidate succeeded for blacklisted key %s", m.W.nodeName(o.Node)))
		} else {
			m.Count("register_of_non_blacklisted_ok", 1)
		}
		m.newIncarnation(KApproveCandidate, o.Node, &pend{Cand: &Member{Str: o.Node, Canon: canon, Owner: o.named().Addr()}, Requester: signer})
	case KUnRegisterCandidate:
		m.withdraw(KApproveCandidate, o.Node)
	case KQuitNode:
		exp = m.ES.clone()
		if mem := exp.Pool[o.Node]; mem != nil {
			mem.Status = StQuit
		}
	case KCommitDpos:
		if obs.View == m.View+1 {
			exp = m.ES.clone()
			m.checkEpoch(j, exp, height)
		}
	case KRegisterSideChain:
		c := *o.Chain
		if cur := m.Chains[c.ID]; cur != nil {
			add("C35", "side_chain:registration-request-accepted-for-registered-chain",
				fmt.Sprintf("registerSideChain for chain %d succeeded although the id is registered (owner %s)", c.ID, m.W.nameOf(cur.Owner)))
		} else {
			m.Count("registration_request_for_free_id_ok", 1)
		}
		m.newIncarnation(KApproveRegisterSC, fmt.Sprint(c.ID), &pend{Chain: &c, Requester: signer})
	case KUpdateSideChain:
		c := *o.Chain
		cur := m.Chains[c.ID]
		m.newIncarnation(KApproveUpdateSC, fmt.Sprint(c.ID), &pend{Chain: &c, Requester: signer, ByOwner: cur != nil && cur.Owner == signer})
	case KQuitSideChain:
		cur := m.Chains[o.ID]
		m.newIncarnation(KApproveQuitSC, fmt.Sprint(o.ID), &pend{Requester: signer, ByOwner: cur != nil && cur.Owner == signer})
	case KRegisterRelayer, KRemoveRelayer, KRegisterSV, KRemoveSV:
		method := map[string]string{KRegisterRelayer: KApproveRegRelayer, KRemoveRelayer: KApproveRemRelayer, KRegisterSV: KApproveRegSV, KRemoveSV: KApproveRemSV}[o.Kind]
		note := map[string]string{KRegisterRelayer: "putRelayerApply", KRemoveRelayer: "putRelayerRemove", KRegisterSV: "putStateValidatorApply", KRemoveSV: "putStateValidatorRemove"}[o.Kind]
		id := m.NextID[method]
		if nid, ok := notifiedID(rec, note); ok {
			if nid != id {
				m.Count("request_id_differs_from_sequence", 1)
			}
			id = nid
		}
		m.NextID[method] = id + 1
		o.ID = id
		m.newIncarnation(method, fmt.Sprint(id), &pend{Addrs: o.Addrs, Strs: o.List, Requester: signer})
	}
	if !same(actual, exp.Lines()) {
		m.diverged(j, o, actual, exp, "state after a successful "+fam+" request differs from the model")
		return j
	}
	if exp != m.ES {
		m.ES = exp
	}
	return j
}

// checkEpoch applies the epoch rule to s and checks the once-per-block rule.
func (m *Model) checkEpoch(j *Judgement, s *ES, height uint32) {
	j.Epoch = true
	if height == s.ViewHeight {
		j.Findings = append(j.Findings, Finding{"C34", "epoch:two-changes-in-one-block", fmt.Sprintf("view %d -> %d at height %d, the height of the previous change", s.View, s.View+1, height)})
	}
	s.epoch(height)
}

func (m *Model) diverged(j *Judgement, o *Op, actual []string, exp *ES, why string) {
	d := diff(exp.Lines(), actual)
	if m.Hostile && Family(o.Kind) == "node" {
		// key spellings the statement does not talk about: follow the contracts (invariants still judged)
		m.Count("hostile_resync", 1)
		j.Note = "resync"
		return
	}
	seen := map[string]bool{}
	for _, l := range d {
		p, f := propertyOfLine(l)
		if seen[p+f] {
			continue
		}
		seen[p+f] = true
		var mine []string
		for _, x := range d {
			if p2, f2 := propertyOfLine(x); p2 == p && f2 == f {
				mine = append(mine, x)
			}
		}
		j.Findings = append(j.Findings, Finding{p, f + ":unexpected-state@" + o.Kind, why + ": " + strings.Join(mine, " ; ")})
	}
}

// Resync makes the model's pool / blacklist / view equal to the observation (hostile mode only).
func (m *Model) Resync(obs *Obs) {
	sameView := obs.View == m.View
	m.View, m.ViewHeight = obs.View, obs.ViewHeight
	old := m.Pool
	m.Pool = map[string]*Member{}
	for _, e := range obs.Pool {
		mem := &Member{Str: e.Str, Canon: e.Canon, Owner: e.Owner, Status: e.Status}
		if o := old[e.Str]; o != nil && sameView {
			mem.WasCons = o.WasCons
		} else if !sameView {
			mem.WasCons = e.Status == StCons
		}
		m.Pool[e.Str] = mem
	}
	m.Black = map[string]bool{}
	for c := range obs.Black {
		m.Black[c] = true
	}
}

func (m *Model) judgeApprove(j *Judgement, o *Op, rec *nat.CallRecord, obs *Obs, actual []string, height uint32) {
	spec := approveSpecs[o.Kind]
	req := reqKeyOf(o)
	rs := m.RS(o.Kind, req)
	caller := o.named().Addr()
	if rs.Pending == 1 {
		rs.Sure[caller] = true
		rs.Saw[caller] = rs.P.content()
	} else {
		rs.Maybe[caller] = true
		if _, ok := rs.Saw[caller]; !ok {
			rs.Saw[caller] = ""
		}
	}
	setA, setB := m.valSets()
	tA, tB := Threshold(len(setA)), Threshold(len(setB))
	loA, loB := countIn(rs.Sure, nil, setA), countIn(rs.Sure, nil, setB)
	hiA, hiB := countIn(rs.Sure, rs.Maybe, setA), countIn(rs.Sure, rs.Maybe, setB)
	must := rs.Pending == 1 && loA >= tA && loB >= tB && setA[caller]
	mustNot := rs.Pending == 0 || (hiA < tA && hiB < tB)
	loose := m.Hostile && spec.family == "node"
	if loose {
		must, mustNot = false, false
	}
	switch {
	case must:
		j.Verdict = "must"
	case mustNot:
		j.Verdict = "mustnot"
	default:
		j.Verdict = "may"
	}

	// candidate outcomes
	s0 := m.ES
	s1 := m.ES.clone()
	defined := m.applyEffect(s1, o, rs.P)
	var s1e *ES
	if defined && o.Kind == KBlackNode && obs.View == m.View+1 {
		s1e = s1.clone()
	}
	l0 := s0.Lines()
	var l1 []string
	if defined {
		l1 = s1.Lines()
	}
	switch {
	case s1e != nil:
		jj := &Judgement{}
		m.checkEpoch(jj, s1e, height)
		if same(actual, s1e.Lines()) {
			j.Effect = "yes"
			j.Epoch = true
			j.Findings = append(j.Findings, jj.Findings...)
			s1 = s1e
		} else {
			m.diverged(j, o, actual, s1e, "state after blackNode with epoch change differs from the model")
			if j.Note == "resync" {
				j.Effect = "yes"
			}
			return
		}
	case defined && same(l0, l1):
		if !same(actual, l0) {
			m.diverged(j, o, actual, s0, "approval changed the state although its action changes nothing")
			return
		}
		j.Effect = "unobservable"
	case defined && same(actual, l1):
		j.Effect = "yes"
	case same(actual, l0):
		j.Effect = "no"
	default:
		base := s0
		why := "state after an approval is neither the state without nor with the approved action"
		if defined && len(diff(l1, actual)) < len(diff(l0, actual)) {
			base = s1
			why = "the action took effect but the resulting state differs from the approved request"
		}
		m.diverged(j, o, actual, base, why)
		return
	}

	m.Count("approve_"+j.Verdict+"_"+j.Effect, 1)
	cls := "outsider"
	switch {
	case setA[caller]:
		cls = "validator"
	case setB[caller]:
		cls = "quitting-validator"
	default:
		if a := m.W.ActorOf(caller); a != nil && strings.HasPrefix(a.Name, "n") {
			cls = "non-consensus-node"
		}
	}
	m.Fp(o.Kind, len(setA), len(setB), loA, hiA, loB, hiB, rs.Pending, rs.Consumed, cls, j.Verdict, j.Effect)
	desc := fmt.Sprintf("%s request=%s pending=%d consumed=%v caller=%s(%s) validators(status)=%d need %d sure=%d upper=%d | validators(in office)=%d need %d sure=%d upper=%d",
		o.Kind, m.reqName(o), rs.Pending, rs.Consumed, m.W.nameOf(caller), cls, len(setA), tA, loA, hiA, len(setB), tB, loB, hiB)

	switch j.Effect {
	case "yes":
		m.Count("effect@"+o.Kind, 1)
		m.Count(fmt.Sprintf("effect_with_N=%d", len(setA)), 1)
		if cls != "validator" {
			m.Count("effect_triggered_by_"+cls, 1)
		}
		if mustNot {
			switch {
			case rs.Pending == 0 && rs.Consumed:
				j.Findings = append(j.Findings, Finding{"C33", spec.family + ":" + spec.action + "-request-not-consumed",
					"the action of an already applied request took effect again without a fresh request: " + desc})
			case rs.Pending == 0:
				j.Findings = append(j.Findings, Finding{"C32", "effect-without-pending-request@" + o.Kind, "action took effect although no request was pending: " + desc})
			default:
				j.Findings = append(j.Findings, Finding{"C32", "effect-before-threshold@" + o.Kind, "action took effect below the threshold: " + desc})
			}
		}
		if rs.Pending == 0 && spec.family == "side_chain" {
			// C35: the registry changes only through a pending owner request followed by approval
			what := map[string]string{"register": "registration", "update": "update", "quit": "removal"}[spec.action]
			j.Findings = append(j.Findings, Finding{"C35", "side_chain:" + what + "-without-pending-request",
				fmt.Sprintf("%s of chain %d took effect although no %s request was pending (consumed earlier: %v): %s", what, o.ID, spec.action, rs.Consumed, desc)})
		}
		m.judgeRegistry(j, o, rs)
		m.judgeContent(j, o, rs, setA, setB)
		m.ES = s1
		rs.Pending = 0
		rs.Consumed = true
		rs.Rounds++
		rs.Sure = map[common.Address]bool{}
		rs.Maybe = map[common.Address]bool{}
		rs.Saw = map[common.Address]string{}
		rs.Replaced = false
		if o.Kind == KBlackNode || o.Kind == KWhiteNode {
			rs.Pending = 1
			rs.Consumed = false
		}
	case "no":
		if must {
			j.Findings = append(j.Findings, Finding{"C32", "no-effect-at-threshold@" + o.Kind, "threshold reached by a validator's approval but the action did not take effect: " + desc})
		}
		if mustNot {
			m.Count("below_threshold_no_effect@"+o.Kind, 1)
			if rs.Pending == 0 && rs.Consumed {
				m.Count("consumed_request_round_no_effect@"+o.Kind, 1)
			}
		}
	case "unobservable":
		switch {
		case must:
			rs.Pending, rs.Consumed = 0, true
			rs.Sure, rs.Maybe = map[common.Address]bool{}, map[common.Address]bool{}
		case mustNot:
		default:
			if rs.Pending == 1 {
				rs.Pending = 2
			}
		}
		if o.Kind == KBlackNode || o.Kind == KWhiteNode {
			rs.Pending = 1
			rs.Consumed = false
		}
	}
}

// content is a fingerprint of what a request asks for.
func (p *pend) content() string {
	if p == nil {
		return ""
	}
	switch {
	case p.Cand != nil:
		return fmt.Sprintf("candidate %s owner=%x", p.Cand.Canon, p.Cand.Owner[:])
	case p.Chain != nil:
		return p.Chain.line()
	case p.Addrs != nil:
		return fmt.Sprintf("relayers %x", p.Addrs)
	case p.Strs != nil:
		return "svs " + strings.Join(p.Strs, ",")
	}
	return fmt.Sprintf("by %x", p.Requester[:])
}

// judgeContent: the request that is applied must be the one a quorum approved. An approver vouches for the
// content that was pending when it approved; if the content was replaced afterwards (another requester, or the
// same one with other data) those approvals are approvals of a different request.
func (m *Model) judgeContent(j *Judgement, o *Op, rs *ReqState, setA, setB map[common.Address]bool) {
	if rs.Pending != 1 || rs.P == nil {
		return
	}
	want := rs.P.content()
	same := map[common.Address]bool{}
	other := 0
	for a, c := range rs.Saw {
		if c == want {
			same[a] = true
		} else if (setA[a] || setB[a]) && c != "" {
			other++
		}
	}
	if countIn(same, nil, setA) >= Threshold(len(setA)) || countIn(same, nil, setB) >= Threshold(len(setB)) {
		m.Count("applied_content_approved_by_a_quorum", 1)
		return
	}
	if other == 0 {
		m.Count("applied_with_approvals_given_while_nothing_was_pending", 1)
		return // pre-approvals of an id, not approvals of a different content (recorded only)
	}
	what := fmt.Sprintf("%s request=%s took effect with content {%s}; only %d of %d consensus validators approved that content, %d validators had approved a different content pending earlier under the same id",
		o.Kind, m.reqName(o), want, countIn(same, nil, setA), len(setA), other)
	switch approveSpecs[o.Kind].family {
	case "side_chain":
		j.Findings = append(j.Findings, Finding{"C35", "side_chain:applied-record-not-the-request-the-quorum-approved@" + o.Kind, what})
	default:
		if rs.Replaced {
			// the pending request was overwritten (not withdrawn by its requester) and the approvals given to it were kept
			j.Findings = append(j.Findings, Finding{"C32", "effect-with-approvals-of-a-replaced-request@" + o.Kind, what})
		} else {
			// withdrawn and re-made: C32 keeps the weaker reading (request identity = method + id): recorded, not judged
			m.Count("effect_relied_on_approvals_of_withdrawn_request@"+o.Kind, 1)
		}
	}
}

// judgeRegistry: the C35 rules checked when a side-chain action takes effect.
func (m *Model) judgeRegistry(j *Judgement, o *Op, rs *ReqState) {
	switch o.Kind {
	case KApproveRegisterSC:
		if cur := m.Chains[o.ID]; cur != nil {
			j.Findings = append(j.Findings, Finding{"C35", "side_chain:registration-overwrites-registered-chain",
				fmt.Sprintf("chain %d was registered (owner %s) and an approved registration replaced it", o.ID, m.W.nameOf(cur.Owner))})
		}
		m.Count("registry_register_applied", 1)
	case KApproveUpdateSC, KApproveQuitSC:
		what := "update"
		if o.Kind == KApproveQuitSC {
			what = "removal"
		}
		if rs.P != nil && rs.Pending != 0 {
			if !rs.P.ByOwner {
				j.Findings = append(j.Findings, Finding{"C35", "side_chain:" + what + "-without-owner-request",
					fmt.Sprintf("%s of chain %d took effect; the request was made by %s who was not the registered owner then", what, o.ID, m.W.nameOf(rs.P.Requester))})
			} else {
				m.Count("registry_"+what+"_applied_after_owner_request", 1)
				if m.Chains[o.ID] == nil {
					m.Count("registry_"+what+"_applied_to_unregistered_chain", 1)
				} else if m.Chains[o.ID].Owner != rs.P.Requester {
					m.Count("registry_"+what+"_applied_on_request_of_previous_owner", 1)
				}
			}
		}
	}
}

func (m *Model) reqName(o *Op) string {
	switch o.Kind {
	case KApproveCandidate, KWhiteNode:
		return m.W.nodeName(o.Node)
	case KBlackNode:
		var p []string
		for _, s := range o.List {
			p = append(p, m.W.nodeName(s))
		}
		return strings.Join(p, ",")
	}
	return fmt.Sprint(o.ID)
}
