// Package tmsynth produces honest (and deliberately dishonest) Tendermint light-client data with
// generated keys: validator sets with arbitrary voting powers, headers, commits whose every
// signature slot is of a chosen kind, for the amino era (block version 10, tendermint v0.33.7
// types) and the protobuf era (block version 11, switcheo/tendermint v0.34.14 types). All hashes
// and sign-bytes are computed by the tendermint libraries themselves, never by poly code.
package tmsynth

import (
	"bytes"
	"fmt"
	"math/rand"
	"sort"
	"time"

	tm34crypto "github.com/switcheo/tendermint/crypto"
	tm34ed "github.com/switcheo/tendermint/crypto/ed25519"
	tm34secp "github.com/switcheo/tendermint/crypto/secp256k1"
	tm34bytes "github.com/switcheo/tendermint/libs/bytes"
	tm34proto "github.com/switcheo/tendermint/proto/tendermint/types"
	tm34version "github.com/switcheo/tendermint/proto/tendermint/version"
	tm34types "github.com/switcheo/tendermint/types"
	"github.com/tendermint/tendermint/crypto"
	"github.com/tendermint/tendermint/crypto/ed25519"
	"github.com/tendermint/tendermint/crypto/secp256k1"
	"github.com/tendermint/tendermint/types"
	"github.com/tendermint/tendermint/version"
)

// Val is one validator with its private key.
type Val struct {
	Priv  crypto.PrivKey
	Pub   crypto.PubKey
	Power int64
}

// NewKey makes a deterministic key from the rng (ed25519, or secp256k1 when secp is true).
func NewKey(rng *rand.Rand, secp bool) crypto.PrivKey {
	seed := make([]byte, 32)
	rng.Read(seed)
	if secp {
		return secp256k1.GenPrivKeySecp256k1(seed)
	}
	return ed25519.GenPrivKeyFromSecret(seed)
}

// NewVals makes n validators; powers come from the given function.
func NewVals(rng *rand.Rand, n int, power func(i int) int64) []*Val {
	out := make([]*Val, n)
	for i := range out {
		k := NewKey(rng, rng.Intn(5) == 0)
		out[i] = &Val{Priv: k, Pub: k.PubKey(), Power: power(i)}
	}
	return out
}

// TMVals converts to tendermint v0.33.7 validators (the wire form poly receives).
func TMVals(vs []*Val) []*types.Validator {
	out := make([]*types.Validator, len(vs))
	for i, v := range vs {
		out[i] = &types.Validator{Address: v.Pub.Address(), PubKey: v.Pub, VotingPower: v.Power}
	}
	return out
}

func tm34Pub(p crypto.PubKey) tm34crypto.PubKey {
	switch k := p.(type) {
	case ed25519.PubKeyEd25519:
		return tm34ed.PubKey(append([]byte{}, k[:]...))
	case secp256k1.PubKeySecp256k1:
		return tm34secp.PubKey(append([]byte{}, k[:]...))
	}
	panic("tmsynth: unsupported key type")
}

func tm34Set(vs []*Val) *tm34types.ValidatorSet {
	vals := make([]*tm34types.Validator, len(vs))
	for i, v := range vs {
		vals[i] = tm34types.NewValidator(tm34Pub(v.Pub), v.Power)
	}
	return tm34types.NewValidatorSet(vals)
}

// LegacyHash is the amino-era validator-set hash (tendermint v0.33.7).
func LegacyHash(vs []*Val) []byte {
	return types.NewValidatorSet(TMVals(vs)).Hash()
}

// NewHash is the protobuf-era validator-set hash (tendermint v0.34).
func NewHash(vs []*Val) []byte {
	return tm34Set(vs).Hash()
}

// Hash is the validator-set hash a chain at the given block version commits to.
func Hash(vs []*Val, blockVersion uint64) []byte {
	if blockVersion < 11 {
		return LegacyHash(vs)
	}
	return NewHash(vs)
}

// Order returns the validators in commit-index order of the chain's tendermint version:
// by address (v0.33) or by descending power then address (v0.34).
func Order(vs []*Val, blockVersion uint64) []*Val {
	out := append([]*Val{}, vs...)
	if blockVersion < 11 {
		sort.SliceStable(out, func(i, j int) bool {
			return bytes.Compare(out[i].Pub.Address(), out[j].Pub.Address()) < 0
		})
		return out
	}
	set := tm34Set(vs)
	byAddr := map[string]*Val{}
	for _, v := range vs {
		byAddr[string(v.Pub.Address())] = v
	}
	out = out[:0]
	for _, tv := range set.Validators {
		out = append(out, byAddr[string(tv.Address)])
	}
	return out
}

// Total is the total voting power.
func Total(vs []*Val) int64 {
	var t int64
	for _, v := range vs {
		t += v.Power
	}
	return t
}

// SigKind says what is put into one commit-signature slot.
type SigKind int

const (
	SigValid       SigKind = iota // honest precommit for the block
	SigAbsent                     // BlockIDFlagAbsent
	SigNil                        // honest precommit for nil (validly signed, flag nil)
	SigForged                     // flag commit, 64 random bytes
	SigWrongHeight                // flag commit, honest signature over the vote at height+1
	SigWrongBlock                 // flag commit, honest signature over another block id
	SigWrongChain                 // flag commit, honest signature for another chain id
	SigOtherKey                   // flag commit, honest signature by a key outside the set
	SigNilAsCommit                // honest signature over a nil vote, but flagged as commit
	SigWrongRound                 // flag commit, honest signature over round+1
	SigCopy                       // the complete CommitSig (address, timestamp, signature) of another, honestly signing slot
	NSigKinds
)

func (k SigKind) String() string {
	return [...]string{"valid", "absent", "nil", "forged", "wrong-height", "wrong-block", "wrong-chain", "other-key", "nil-as-commit", "wrong-round", "copy"}[k]
}

// Spec describes one header + commit to build.
type Spec struct {
	ChainID      string
	Height       int64
	BlockVersion uint64
	Vals         []*Val // any order; commit slots follow Order(Vals, BlockVersion)
	NextHash     []byte // NextValidatorsHash
	AppHash      []byte
	Kinds        []SigKind // per slot in Order(); nil = all valid
	Round        int
	// deliberate header/commit inconsistencies
	ValidatorsHashOverride []byte // header.ValidatorsHash (default: hash of Vals)
	CommitHeightDelta      int64  // commit.Height = Height + delta
	CommitHashOverride     []byte // commit.BlockID.Hash (default: header hash)
	DropSlots              int    // remove this many trailing signature slots
	Salt                   byte   // varies DataHash so equal-height headers differ
	CopyFrom               []int  // for SigCopy slots: slot index to copy (per slot; default: the first SigValid slot)
}

// Built is the result.
type Built struct {
	Header  types.Header
	Commit  *types.Commit
	Valsets []*types.Validator
	Ordered []*Val
	Hash    []byte
}

func hdrTime(h int64) time.Time { return time.Unix(1600000000+h*6, 0).UTC() }

// HeaderHash hashes a v0.33.7-typed header the way its chain does (amino < 11, protobuf >= 11).
func HeaderHash(h types.Header) []byte {
	if h.Version.Block < 11 {
		return h.Hash()
	}
	n := tm34types.Header{
		Version: tm34version.Consensus{Block: uint64(h.Version.Block), App: uint64(h.Version.App)},
		ChainID: h.ChainID, Height: h.Height, Time: h.Time,
		LastBlockID: tm34types.BlockID{Hash: tm34bytes.HexBytes(h.LastBlockID.Hash),
			PartSetHeader: tm34types.PartSetHeader{Total: uint32(h.LastBlockID.PartsHeader.Total), Hash: tm34bytes.HexBytes(h.LastBlockID.PartsHeader.Hash)}},
		LastCommitHash: tm34bytes.HexBytes(h.LastCommitHash), DataHash: tm34bytes.HexBytes(h.DataHash),
		ValidatorsHash: tm34bytes.HexBytes(h.ValidatorsHash), NextValidatorsHash: tm34bytes.HexBytes(h.NextValidatorsHash),
		ConsensusHash: tm34bytes.HexBytes(h.ConsensusHash), AppHash: tm34bytes.HexBytes(h.AppHash),
		LastResultsHash: tm34bytes.HexBytes(h.LastResultsHash), EvidenceHash: tm34bytes.HexBytes(h.EvidenceHash),
		ProposerAddress: tm34bytes.HexBytes(h.ProposerAddress),
	}
	return n.Hash()
}

func fill(b byte, n int) []byte { return bytes.Repeat([]byte{b}, n) }

// signBytes computes what a validator signs for a precommit.
func signBytes(blockVersion uint64, chainID string, height int64, round int, bid types.BlockID, ts time.Time, addr []byte, idx int) []byte {
	if blockVersion < 11 {
		v := &types.Vote{Type: types.PrecommitType, Height: height, Round: round, BlockID: bid, Timestamp: ts,
			ValidatorAddress: addr, ValidatorIndex: idx}
		return v.SignBytes(chainID)
	}
	v := &tm34types.Vote{Type: tm34proto.PrecommitType, Height: height, Round: int32(round),
		BlockID: tm34types.BlockID{Hash: tm34bytes.HexBytes(bid.Hash),
			PartSetHeader: tm34types.PartSetHeader{Total: uint32(bid.PartsHeader.Total), Hash: tm34bytes.HexBytes(bid.PartsHeader.Hash)}},
		Timestamp: ts, ValidatorAddress: addr, ValidatorIndex: int32(idx)}
	return tm34types.VoteSignBytes(chainID, v.ToProto())
}

// Build makes the header and its commit. rng is used only for forged bytes / foreign keys.
func Build(s Spec, rng *rand.Rand) *Built {
	ord := Order(s.Vals, s.BlockVersion)
	h := types.Header{
		Version: version.Consensus{Block: version.Protocol(s.BlockVersion), App: 0},
		ChainID: s.ChainID, Height: s.Height, Time: hdrTime(s.Height),
		LastBlockID:    types.BlockID{Hash: fill(1, 32), PartsHeader: types.PartSetHeader{Total: 1, Hash: fill(2, 32)}},
		LastCommitHash: fill(3, 32), DataHash: fill(4+s.Salt, 32),
		ValidatorsHash: Hash(s.Vals, s.BlockVersion), NextValidatorsHash: s.NextHash,
		ConsensusHash: fill(5, 32), AppHash: s.AppHash, LastResultsHash: fill(6, 32), EvidenceHash: fill(7, 32),
	}
	if len(ord) > 0 {
		h.ProposerAddress = ord[0].Pub.Address()
	} else {
		h.ProposerAddress = fill(9, 20)
	}
	if s.ValidatorsHashOverride != nil {
		h.ValidatorsHash = s.ValidatorsHashOverride
	}
	hh := HeaderHash(h)
	bid := types.BlockID{Hash: hh, PartsHeader: types.PartSetHeader{Total: 1, Hash: fill(8, 32)}}
	if s.CommitHashOverride != nil {
		bid.Hash = s.CommitHashOverride
	}
	ch := s.Height + s.CommitHeightDelta
	sigs := make([]types.CommitSig, len(ord))
	for i, v := range ord {
		k := SigValid
		if s.Kinds != nil {
			k = s.Kinds[i]
		}
		ts := hdrTime(s.Height).Add(time.Duration(i+1) * time.Millisecond)
		addr := []byte(v.Pub.Address())
		cs := types.CommitSig{BlockIDFlag: types.BlockIDFlagCommit, ValidatorAddress: addr, Timestamp: ts}
		sign := func(p crypto.PrivKey, chain string, height int64, round int, b types.BlockID) []byte {
			sig, err := p.Sign(signBytes(s.BlockVersion, chain, height, round, b, ts, addr, i))
			if err != nil {
				panic(err)
			}
			if len(sig) == 65 { // recoverable secp256k1 signature: the chain stores R||S only
				sig = sig[:64]
			}
			return sig
		}
		switch k {
		case SigValid:
			cs.Signature = sign(v.Priv, s.ChainID, ch, s.Round, bid)
		case SigAbsent:
			cs = types.NewCommitSigAbsent()
		case SigNil:
			cs.BlockIDFlag = types.BlockIDFlagNil
			cs.Signature = sign(v.Priv, s.ChainID, ch, s.Round, types.BlockID{})
		case SigForged:
			cs.Signature = make([]byte, 64)
			rng.Read(cs.Signature)
		case SigWrongHeight:
			cs.Signature = sign(v.Priv, s.ChainID, ch+1, s.Round, bid)
		case SigWrongBlock:
			o := bid
			o.Hash = fill(0xEE, 32)
			cs.Signature = sign(v.Priv, s.ChainID, ch, s.Round, o)
		case SigWrongChain:
			cs.Signature = sign(v.Priv, s.ChainID+"-x", ch, s.Round, bid)
		case SigOtherKey:
			cs.Signature = sign(NewKey(rng, false), s.ChainID, ch, s.Round, bid)
		case SigNilAsCommit:
			cs.Signature = sign(v.Priv, s.ChainID, ch, s.Round, types.BlockID{})
		case SigWrongRound:
			cs.Signature = sign(v.Priv, s.ChainID, ch, s.Round+1, bid)
		case SigCopy:
			cs = types.NewCommitSigAbsent() // filled in below
		default:
			panic(fmt.Sprint("tmsynth: kind ", k))
		}
		sigs[i] = cs
	}
	// copies: one validator's genuine CommitSig repeated in other validators' slots (precommit
	// sign-bytes contain neither address nor index, so the bytes are a valid signature of the source
	// validator wherever they are placed)
	for i := range sigs {
		if s.Kinds == nil || s.Kinds[i] != SigCopy {
			continue
		}
		src := -1
		if s.CopyFrom != nil && i < len(s.CopyFrom) && s.CopyFrom[i] >= 0 && s.CopyFrom[i] < len(sigs) && s.Kinds[s.CopyFrom[i]] == SigValid {
			src = s.CopyFrom[i]
		} else {
			for j := range sigs {
				if s.Kinds[j] == SigValid {
					src = j
					break
				}
			}
		}
		if src >= 0 {
			c := sigs[src]
			c.ValidatorAddress = append([]byte{}, c.ValidatorAddress...)
			c.Signature = append([]byte{}, c.Signature...)
			sigs[i] = c
		}
	}
	if s.DropSlots > 0 && s.DropSlots <= len(sigs) {
		sigs = sigs[:len(sigs)-s.DropSlots]
	}
	c := types.NewCommit(ch, s.Round, bid, sigs)
	// wire order: v0.33 chains list validators in any order (the set is re-sorted by the verifier),
	// v0.34 chains list them in set order, which is also the commit-slot order.
	return &Built{Header: h, Commit: c, Valsets: TMVals(ord), Ordered: ord, Hash: hh}
}

// ValidPower is the power of slots that carry an honest precommit for the block.
func ValidPower(ord []*Val, kinds []SigKind) int64 {
	var p int64
	for i, v := range ord {
		if kinds == nil || kinds[i] == SigValid {
			p += v.Power
		}
	}
	return p
}
