// C27: the Ethereum PoW light client keeps the heaviest valid chain.
//
// Random header trees whose difficulties follow the real Ethereum rule are submitted to the real
// header_sync contract (eth router, PoW seal bypassed only) in hostile orders; after every call a
// monitor reads the contract storage and asserts the structural invariants of the property.
package c27

import (
	"fmt"
	"math/big"
	"math/rand"
	"testing"

	"verifharness/kit"
	es "verifharness/synth/ethsynth"

	polyeth "github.com/polynetwork/poly/native/service/header_sync/eth"
	"github.com/polynetwork/poly/native/service/utils"
)

type node struct {
	h      *es.Hdr
	hash   es.Hash
	parent int // index in tree, -1 = root
	td     *big.Int
	json   []byte
}

func TestC27(t *testing.T) {
	r := kit.Start(t, "C27", "exploration")
	defer r.Finish()
	polyeth.VerifSealBypass = true
	defer func() { polyeth.VerifSealBypass = false }()
	r.Rule("random header trees (<=14 nodes quick, <=40 thorough; branching biased to long competing forks, difficulties by the real rule with varied timestamps/uncle flags so forks have different weights, incl. equal-weight siblings; per-branch tempo from 1 s to 2400 s gaps and uncle flags so that shorter-but-heavier forks occur; one tree in six is directed: a slow branch of L+1 blocks (gaps >= 900 s, difficulty falls ~4.8% per block) against a fast branch of L >= 6 blocks (gaps 1-8 s) from the same ancestor, submitted slow-first (reorganisation onto a LOWER head) or fast-first (a higher but lighter fork must not be adopted)) plus headers whose number skips 1-4 heights over a stored parent (every other field conforming for that number); submitted in random orders with children before parents, duplicates and batches of 1-4; distinct = (tree shape, submission order) fingerprint; monitor after every call")
	r.Assume("every header of a tree conforms to the Ethereum header rules (checked by the independent spec oracle of ethsynth), so a header whose parent is stored must be stored and a call fails only because some header's parent is unknown")
	r.Assume("ties in total difficulty: any maximal head is accepted")
	r.Assume("canonical index entries above the head height are not part of the index (unreachable through GetHeaderByHeight)")
	trees := r.N(400, 10000)
	maxNodes := r.N(14, 40)
	roots := []struct {
		net uint32
		num uint64
	}{{1, 12000000}, {1, 12964990}, {1, 13772990}, {2, 10499390}, {2, 9000000}, {1, 13800000}}
	envs := map[uint32]*es.Env{}
	for ti := 0; ti < trees; ti++ {
		rng := r.Rand(fmt.Sprintf("tree/%d", ti))
		rt := roots[rng.Intn(len(roots))]
		if ti%25 == 0 { // a fresh universe costs ~0.1 s: host 25 trees (one side chain each) per universe
			envs = map[uint32]*es.Env{}
		}
		if envs[rt.net] == nil {
			envs[rt.net] = es.NewEnv(r.Rand(fmt.Sprintf("env/%d", ti)), rt.net)
		}
		envs[rt.net].Use()
		directed := 0
		if ti%6 == 1 {
			directed = 1 + (ti/6)%2
		}
		nn := 3 + rng.Intn(maxNodes-2)
		if directed != 0 {
			nn = maxNodes
		}
		runTree(r, rng, envs[rt.net], uint64(1000+ti), rt.net, rt.num, nn, ti < 3, directed)
		if r.Violations() > 8 {
			break
		}
	}
	r.Require("calls_ok", trees)
	r.Require("calls_refused_unknown_parent", trees/4)
	r.Require("reorgs", trees/4)
	r.Require("duplicate_calls_no_change", trees/4)
	r.Require("forks_not_adopted", trees/4)
	r.Require("height_gap_headers_refused", trees/2)
	r.Require("reorg_to_lower_head", trees/16)
	r.Require("higher_but_lighter_fork_not_adopted", trees/16)
}

// directed: 0 = random tree; 1 / 2 = slow-long branch against fast-short branch from a common
// ancestor, submitted slow-first / fast-first.
func runTree(r *kit.Run, rng *rand.Rand, e *es.Env, chainID uint64, net uint32, rootNum uint64, n int, sample bool, directed int) {
	if err := e.RegisterSideChain(chainID, utils.ETH_ROUTER, "eth", 1, make([]byte, 20), nil); err != nil {
		r.Inconclusive("register: " + err.Error())
		return
	}
	forks := es.ForksFor(net)
	// low difficulties make the +-diff/2048 adjustment coarse, high ones realistic
	diff := big.NewInt(131072 + rng.Int63n(5000000))
	if rng.Intn(2) == 0 || directed != 0 {
		// (directed trees need the proportional adjustment to dominate the minimum-difficulty clamp and the bomb)
		diff = big.NewInt(1000000000000 + rng.Int63n(1000000000000000))
	}
	root := es.NewRoot(rng, forks, rootNum, diff, uint64(8000000+rng.Intn(20000000)))
	if rec := e.SyncGenesis(chainID, root.JSON()); !rec.Ok {
		r.Inconclusive("genesis: " + rec.Err)
		return
	}
	rootHash := root.Hash()
	// --- build the tree
	tree := make([]*node, 0, n)
	tip := -1
	shape := ""
	tempo := map[int]int{-1: rng.Intn(3)} // per node: 0 mixed, 1 fast (1-8 s), 2 slow (>= 900 s); mostly inherited along a branch
	var dirOrder []int
	// directed layout: prefix of k blocks, then slow branch of L+1 blocks and fast branch of L blocks from the prefix tip
	L, k := 6, 0
	if directed != 0 {
		if n > 14 {
			L = 6 + rng.Intn((n-1)/2-6+1)
		}
		if room := n - (2*L + 1); room > 0 {
			k = rng.Intn(room + 1)
			if k > 3 {
				k = 3
			}
		}
		n = k + 2*L + 1
	}
	for i := 0; i < n; i++ {
		p := tip
		o := es.ChildOpt{}
		if directed != 0 {
			switch {
			case i < k: // prefix
				p = i - 1
			case i == k || i == k+L+1: // first block of the slow / fast branch
				p = k - 1
			default:
				p = i - 1
			}
			if i >= k && i <= k+L { // slow branch: adjustment clamps at -99/2048 per block
				o.Dt = uint64(900 + rng.Intn(1500))
				o.Uncles = 1
			} else if i > k+L { // fast branch
				o.Dt = uint64(1 + rng.Intn(8))
			}
		} else {
			switch {
			case i == 0:
				p = -1
			case rng.Intn(4) == 0: // fork from a random earlier node (or the root)
				p = rng.Intn(i+1) - 1
			case rng.Intn(5) == 0: // continue some other branch
				p = rng.Intn(i)
			}
			tp := tempo[p]
			if p != tip || rng.Intn(5) == 0 {
				tp = rng.Intn(3) // a new branch (or an occasional change of pace) draws its own tempo
			}
			tempo[i] = tp
			switch tp {
			case 1:
				o.Dt = uint64(1 + rng.Intn(8))
			case 2:
				o.Dt = uint64(900 + rng.Intn(1500))
			default:
				if rng.Intn(3) == 0 {
					o.Dt = uint64(1 + rng.Intn(8)) // fast block: difficulty goes up
				} else if rng.Intn(3) == 0 {
					o.Dt = uint64(20 + rng.Intn(2000)) // slow block: difficulty goes down
				}
			}
		}
		ph, ptd := root, root.Difficulty
		if p >= 0 {
			ph, ptd = tree[p].h, tree[p].td
		}
		if directed == 0 && p >= 0 && rng.Intn(6) == 0 && i > 0 {
			// an exact sibling in weight: same time as some existing sibling gives equal difficulty
			for _, s := range tree {
				if s.parent == p {
					o.Dt = s.h.Time - ph.Time
					break
				}
			}
		}
		h := es.Child(rng, forks, ph, o)
		if v := es.Violations(forks, ph, h); len(v) != 0 {
			r.Inconclusive(fmt.Sprintf("generator produced non-conforming header: %v", v))
			return
		}
		nd := &node{h: h, hash: h.Hash(), parent: p, td: new(big.Int).Add(ptd, h.Difficulty), json: h.JSON()}
		tree = append(tree, nd)
		shape += fmt.Sprintf("%d,", p)
		if tip < 0 || rng.Intn(3) != 0 || directed != 0 {
			tip = i
		}
	}
	if directed != 0 {
		slowTip, fastTip := tree[k+L], tree[n-1]
		if fastTip.td.Cmp(slowTip.td) > 0 && fastTip.h.Number < slowTip.h.Number {
			r.Count("directed_shorter_fork_is_heavier", 1)
		} else {
			r.Count("directed_shorter_fork_not_heavier", 1)
		}
		for i := 0; i < k; i++ {
			dirOrder = append(dirOrder, i)
		}
		slow, fast := []int{}, []int{}
		for i := k; i <= k+L; i++ {
			slow = append(slow, i)
		}
		for i := k + L + 1; i < n; i++ {
			fast = append(fast, i)
		}
		if directed == 1 {
			dirOrder = append(append(dirOrder, slow...), fast...)
		} else {
			dirOrder = append(append(dirOrder, fast...), slow...)
		}
		shape = fmt.Sprintf("directed%d/k%d/L%d/", directed, k, L) + shape
	}
	// --- submission schedule
	order := rng.Perm(n)
	if directed != 0 {
		order = dirOrder
	} else if rng.Intn(3) != 0 { // mostly parent-first with a few inversions
		for i := range order {
			order[i] = i
		}
		for k := rng.Intn(4); k > 0; k-- {
			a, b := rng.Intn(n), rng.Intn(n)
			order[a], order[b] = order[b], order[a]
		}
	}
	// every node is eventually offered again in index order so that the whole tree ends up stored
	sched := append([]int{}, order...)
	for i := 0; i < n; i++ {
		if rng.Intn(5) == 0 {
			sched = append(sched, rng.Intn(n)) // duplicates / retries
		}
	}
	for i := 0; i < n; i++ {
		sched = append(sched, i)
	}
	hdrOf := map[es.Hash]*es.Hdr{rootHash: root}
	for _, nd := range tree {
		hdrOf[nd.hash] = nd.h
	}
	stored := map[es.Hash]bool{rootHash: true}
	bestTD := new(big.Int).Set(root.Difficulty)
	headHash := rootHash
	ordFP := ""
	for pos := 0; pos < len(sched); {
		bs := 1
		if rng.Intn(3) == 0 {
			bs = 1 + rng.Intn(4)
		}
		if pos+bs > len(sched) {
			bs = len(sched) - pos
		}
		// now and then: a header on a stored parent (mostly the head) that is conforming in every field
		// except that its number skips k >= 1 heights; it must be refused and leave no trace
		if rng.Intn(5) == 0 {
			parent := hdrOf[headHash]
			if rng.Intn(3) == 0 {
				if nd := tree[rng.Intn(n)]; stored[nd.hash] {
					parent = nd.h // some stored header that need not be the head
				}
			}
			k := uint64(1 + rng.Intn(4))
			sk := es.Child(rng, forks, parent, es.ChildOpt{Skip: k})
			viol := es.Violations(forks, parent, sk)
			d0 := e.HSDigestChain(chainID)
			rec := e.SyncHeaders(chainID, sk.JSON())
			r.Eval(1)
			obs, _ := e.Stored(chainID)
			_, isStored := obs[sk.Hash()]
			if rec.Ok || isStored || e.HSDigestChain(chainID) != d0 {
				r.Violation("header-with-height-gap-accepted", fmt.Sprintf("header number %d on parent number %d (violates %v): ok=%v stored=%v", sk.Number, parent.Number, viol, rec.Ok, isStored),
					map[string]interface{}{"network": net, "trustRoot": string(root.JSON()), "parent": string(parent.JSON()), "header": string(sk.JSON())})
				return
			}
			if len(viol) == 1 && viol[0] == "number" {
				r.Count("height_gap_headers_refused", 1)
			} else {
				r.Count("height_gap_headers_refused_other_rules_too", 1)
			}
		}
		batch := sched[pos : pos+bs]
		pos += bs
		// model: sequential processing, all-or-nothing
		tmp := map[es.Hash]bool{}
		wantOK := true
		allKnown := true
		var payload [][]byte
		for _, ix := range batch {
			nd := tree[ix]
			payload = append(payload, nd.json)
			if stored[nd.hash] || tmp[nd.hash] {
				continue
			}
			allKnown = false
			ph := rootHash
			if nd.parent >= 0 {
				ph = tree[nd.parent].hash
			}
			if !stored[ph] && !tmp[ph] {
				wantOK = false
				break
			}
			tmp[nd.hash] = true
		}
		ordFP += fmt.Sprint(batch)
		full := (allKnown || !wantOK) && rng.Intn(3) == 0 // whole-contract digest on a sample of the no-change calls
		before := e.HSDigestChain(chainID)
		if full {
			before = e.HSDigest()
		}
		headBefore, _, _ := e.Canon(chainID)
		rec := e.SyncHeaders(chainID, payload...)
		after := e.HSDigestChain(chainID)
		if full {
			after = e.HSDigest()
		}
		r.Eval(1)
		replay := func() interface{} {
			var all []string
			for _, nd := range tree {
				all = append(all, string(nd.json))
			}
			return map[string]interface{}{"network": net, "trustRoot": string(root.JSON()), "tree": all, "parents": shape, "schedule": sched, "failingBatch": batch}
		}
		if rec.Panic != nil {
			r.Violation("sync-panics", fmt.Sprintf("batch %v: %v", batch, rec.Panic), replay())
			return
		}
		if rec.Ok != wantOK {
			key := "valid-header-with-stored-parent-refused"
			if rec.Ok {
				key = "header-with-unknown-parent-accepted"
			}
			r.Violation(key, fmt.Sprintf("batch %v: ok=%v expected %v err=%s", batch, rec.Ok, wantOK, rec.Err), replay())
			return
		}
		if wantOK {
			r.Count("calls_ok", 1)
			for h := range tmp {
				stored[h] = true
			}
		} else {
			r.Count("calls_refused_unknown_parent", 1)
			if before != after {
				r.Violation("failed-call-changed-state", fmt.Sprintf("batch %v", batch), replay())
				return
			}
		}
		if allKnown {
			if before != after {
				r.Violation("resubmission-changed-state", fmt.Sprintf("batch %v: every header was already stored, yet storage changed", batch), replay())
				return
			}
			r.Count("duplicate_calls_no_change", 1)
		}
		// --- monitor: observed storage vs invariants
		obs, err := e.Stored(chainID)
		if err != nil {
			r.Violation("storage-undecodable", err.Error(), replay())
			return
		}
		head, index, ok := e.Canon(chainID)
		if !ok {
			r.Violation("canon-unreadable", "cannot read canonical index", replay())
			return
		}
		for _, b := range es.CheckChainInvariants(obs, head, index, rootHash) {
			key := b
			for i := 0; i < len(b); i++ {
				if b[i] == ':' {
					key = b[:i]
					break
				}
			}
			r.Violation(key, b, replay())
		}
		if len(obs) != len(stored) {
			r.Violation("stored-set-differs-from-model", fmt.Sprintf("stored %d headers, model %d", len(obs), len(stored)), replay())
			return
		}
		for h := range stored {
			if _, ok := obs[h]; !ok {
				r.Violation("stored-set-differs-from-model", fmt.Sprintf("header %x expected stored (under its specification hash) but is not", h[:6]), replay())
				return
			}
		}
		// model weights: head must carry the maximum total difficulty of the stored set
		for _, nd := range tree {
			if stored[nd.hash] {
				if o := obs[nd.hash]; o.TD.Cmp(nd.td) != 0 {
					r.Violation("td-differs-from-spec-sum", fmt.Sprintf("header %x: stored td %v, sum of specification difficulties %v", nd.hash[:6], o.TD, nd.td), replay())
				}
				if nd.td.Cmp(bestTD) > 0 {
					bestTD = nd.td
				}
			}
		}
		newHead := index[head]
		if obs[newHead] != nil && obs[newHead].TD.Cmp(bestTD) != 0 {
			r.Violation("head-not-heaviest", fmt.Sprintf("head td %v, heaviest stored td %v", obs[newHead].TD, bestTD), replay())
		}
		// exported getters agree with the raw view
		svc := e.Service()
		if gh, err := polyeth.GetCurrentHeaderHeight(svc, chainID); err != nil || gh != head {
			r.Violation("getter-head-height", fmt.Sprintf("%v %d vs %d", err, gh, head), replay())
		}
		for nn := rootNum; nn <= head; nn++ {
			hh, _, err := polyeth.GetHeaderByHeight(svc, nn, chainID)
			if err != nil || es.Hash(hh.Hash()) != index[nn] {
				r.Violation("getter-by-height", fmt.Sprintf("height %d: %v", nn, err), replay())
				break
			}
		}
		if newHead != headHash {
			if obs[newHead] != nil && obs[newHead].Parent != headHash {
				r.Count("reorgs", 1)
				if head < headBefore {
					r.Count("reorg_to_lower_head", 1)
				}
			}
			headHash = newHead
		} else if wantOK && !allKnown {
			r.Count("forks_not_adopted", 1)
			for _, ix := range batch {
				if tmp[tree[ix].hash] && tree[ix].h.Number > head {
					r.Count("higher_but_lighter_fork_not_adopted", 1)
					break
				}
			}
		}
	}
	r.Distinct(shape, ordFP)
	r.Count("headers_stored", len(stored)-1)
	if sample {
		r.Sample(map[string]interface{}{"parents": shape, "schedule": sched, "rootNumber": rootNum, "network": net, "finalHead": headHash.Hex()})
	}
}
