// C22: each accepted import towards an account-based destination commits exactly one outbound
// request (keyed by destination chain and relay tx hash, content = relay tx hash, source chain,
// verified message) and exactly that content as one cross-state leaf; everything else commits none.
//
// Imports are driven through the real ImportOuterTransfer entry point with the vote-authenticated
// routers (VOTE: the verified message is exactly the voted message, arbitrary bytes in every
// field; ripple-as-source: the router rewrites ToContractAddress/Args, so only the untouched
// fields are compared). Destinations: one registered chain per account-based router constant.
package c22

import (
	"fmt"
	"math/big"
	"math/rand"
	"sort"
	"testing"

	"github.com/polynetwork/poly/common"
	"github.com/polynetwork/poly/common/config"
	scom "github.com/polynetwork/poly/native/service/cross_chain_manager/common"
	"github.com/polynetwork/poly/native/service/utils"

	"verifharness/kit"
	"verifharness/kit/nat"
	"verifharness/kit/pk"
	cs "verifharness/synth/ccmsynth"
	es "verifharness/synth/ethsynth"

	polyeth "github.com/polynetwork/poly/native/service/header_sync/eth"
)

const (
	srcVoteA  = 10
	srcVoteB  = 11
	srcRipple = 12
	srcEth    = 13
	srcBsc    = 14
	unknownID = 9999
)

// account-based destination routers (every router constant except BTC and RIPPLE, whose
// destinations build native transactions instead of requests)
var destRouters = map[string]uint64{"vote": utils.VOTE_ROUTER, "eth": utils.ETH_ROUTER, "ont": utils.ONT_ROUTER, "neo": utils.NEO_ROUTER,
	"cosmos": utils.COSMOS_ROUTER, "bsc": utils.BSC_ROUTER, "heco": utils.HECO_ROUTER, "quorum": utils.QUORUM_ROUTER,
	"zilliqalegacy": utils.ZILLIQA_LEGACY_ROUTER, "msc": utils.MSC_ROUTER, "neo3legacy": utils.NEO3_LEGACY_ROUTER, "okex": utils.OKEX_ROUTER,
	"neo3": utils.NEO3_ROUTER, "heimdall": utils.POLYGON_HEIMDALL_ROUTER, "bor": utils.POLYGON_BOR_ROUTER, "zilliqa": utils.ZILLIQA_ROUTER,
	"starcoin": utils.STARCOIN_ROUTER, "pixie": utils.PIXIECHAIN_ROUTER, "hsc": utils.HSC_ROUTER, "harmony": utils.HARMONY_ROUTER, "bytom": utils.BYTOM_ROUTER}

func destID(router uint64) uint64 { return 100 + router }

type tpl struct {
	w     *cs.World
	snap  *cs.Snapshot
	outs  []*pk.Key
	dests []uint64
	name  map[uint64]string
	evm   []*evmSrc
}

// evmSrc is a proof-authenticated source (eth / bsc) with messages committed in its world state.
type evmSrc struct {
	s       *cs.EVMSource
	name    string
	msgs    []cs.EVMMessage // towards registered destinations
	unknown []cs.EVMMessage // towards a chain id that is not registered
}

func build(r *kit.Run, nVals int, gen int) *tpl {
	krng := r.Rand(fmt.Sprintf("keys-%d-%d", nVals, gen))
	vals := pk.NewKeys(krng, nVals)
	owner := pk.NewKey(krng)
	wallets := make([]*pk.Key, len(vals))
	for i := range wallets {
		if i%2 == 1 { // every second pool entry is registered by a separate wallet account
		wallets[i] = pk.NewKey(krng)
		}
	}
	w, err := cs.NewWorldWallets(config.NETWORK_ID_MAIN_NET, vals, wallets, owner)
	if err != nil {
		r.Inconclusive("world: " + err.Error())
		return nil
	}
	t := &tpl{w: w, outs: append(pk.NewKeys(krng, 2), w.WalletKeys()...), name: map[uint64]string{srcVoteA: "vote", srcVoteB: "vote"}}
	specs := []cs.ChainSpec{{ID: srcVoteA, Router: utils.VOTE_ROUTER}, {ID: srcVoteB, Router: utils.VOTE_ROUTER},
		{ID: srcRipple, Router: utils.RIPPLE_ROUTER, Extra: cs.RippleExtra(owner.Addr, 1, 2, 3, [][]byte{{2, 1}, {2, 2}, {2, 3}}, big.NewInt(10))}}
	t.dests = []uint64{srcVoteA}
	var names []string
	for name := range destRouters {
		names = append(names, name)
	}
	sort.Strings(names)
	for _, name := range names {
		rt := destRouters[name]
		specs = append(specs, cs.ChainSpec{ID: destID(rt), Router: rt, CCMC: []byte{byte(rt)}})
		t.name[destID(rt)] = name
	}
	for _, s := range specs {
		if err := w.RegisterAndApprove(s); err != nil {
			r.Inconclusive("setup: " + err.Error())
			return nil
		}
		if s.ID >= 100 {
			t.dests = append(t.dests, s.ID)
		}
	}
	// deterministic order of destinations
	for i := range t.dests {
		for j := i + 1; j < len(t.dests); j++ {
			if t.dests[j] < t.dests[i] {
				t.dests[i], t.dests[j] = t.dests[j], t.dests[i]
			}
		}
	}
	am, lm := map[uint64][]byte{}, map[uint64][]byte{}
	for _, d := range t.dests {
		a := make([]byte, 20)
		krng.Read(a)
		am[d], lm[d] = a, append([]byte{0xee}, a...)
	}
	if rec := w.RegisterAsset(owner, srcRipple, am, lm); !rec.Ok {
		r.Inconclusive("registerAsset: " + rec.Err)
		return nil
	}
	for _, d := range []struct {
		kind string
		id   uint64
	}{{"eth", srcEth}, {"bsc", srcBsc}} {
		src := &evmSrc{s: w.NewEVMSource(krng, d.kind, d.id), name: d.kind}
		t.name[d.id] = d.kind
		conv := func(p *scom.MakeTxParam) *es.TxParam {
			return &es.TxParam{TxHash: p.TxHash, CrossChainID: p.CrossChainID, FromContractAddress: p.FromContractAddress, ToChainID: p.ToChainID,
				ToContractAddress: p.ToContractAddress, Method: p.Method, Args: p.Args}
		}
		for i := 0; i < 40; i++ {
			cross := make([]byte, krng.Intn(34))
			krng.Read(cross)
			cross = append(cross, byte(i)) // distinct ids
			src.msgs = append(src.msgs, src.s.Commit(krng, conv(message(krng, d.id, t.dests[krng.Intn(len(t.dests))], cross))))
		}
		for i := 0; i < 8; i++ {
			src.unknown = append(src.unknown, src.s.Commit(krng, conv(message(krng, d.id, unknownID, []byte{0xee, byte(i)}))))
		}
		if err := src.s.Seal(krng, 5); err != nil {
			r.Inconclusive("evm source " + d.kind + ": " + err.Error())
			return nil
		}
		t.evm = append(t.evm, src)
	}
	t.snap = w.Snapshot()
	return t
}

// evmCall makes one proof-authenticated import and applies the C22 monitor: a successful import
// must satisfy the release monitor for the submitted (and thereby verified) message; a failed one
// must commit nothing.
func (c *ctx) evmCall(class string, src *evmSrc, m cs.EVMMessage, judgeable bool, call func() *nat.CallRecord) bool {
	r := c.r
	o := c.t.w.Do(call)
	r.Eval(1)
	c.logf("%s evm src=%s cross=%x to=%d -> ok=%v err=%q touched=%v leaves=%d", class, src.name, m.P.CrossChainID, m.P.ToChainID, o.Rec.Ok, o.Rec.Err, o.Touched(), len(o.Rec.CrossHashes))
	if o.Rec.Ok && !judgeable {
		r.Count("accepted_without_reference_message", 1)
		return true
	}
	if o.Rec.Ok {
		p := cs.ToParam(m.P)
		for _, f := range cs.CheckRelease(o, cs.Release{Source: src.s.Spec.ID, Param: p}) {
			r.Violation("accepted-import "+f.Code, fmt.Sprintf("source router %s, destination router %s: %s", src.name, c.t.name[p.ToChainID], f.Detail),
				map[string]interface{}{"class": class, "trace": c.trace})
		}
		r.Count("accepted_imports", 1)
		if !config.DefConfig.Common.EnableEventLog {
			r.Count("accepted_imports_with_event_log_disabled", 1)
		}
		r.Count("accepted_from:"+src.name, 1)
		r.Count("accepted_to:"+c.t.name[p.ToChainID], 1)
		r.Distinct("acc", config.DefConfig.Common.EnableEventLog, src.name, c.t.name[p.ToChainID], len(p.TxHash), len(p.CrossChainID), len(p.FromContractAddress), len(p.ToContractAddress), len(p.Method), len(p.Args))
		return true
	}
	for _, f := range cs.CheckNoRelease(o) {
		r.Violation("non-accepted-call "+f.Code, fmt.Sprintf("evm %s ok=%v: %s", src.name, o.Rec.Ok, f.Detail), map[string]interface{}{"class": class, "trace": c.trace})
	}
	if !o.Unchanged() {
		r.Violation("failed-call-changed-state", fmt.Sprintf("touched %v", o.Touched()), map[string]interface{}{"class": class, "trace": c.trace})
	}
	r.Count("deciding_call_failed", 1)
	r.Count("deciding_call_failed:"+class, 1)
	r.Count("evm_import_refused:"+src.name, 1)
	r.Distinct("rej", src.name, class)
	return false
}

// evmRound plays one scenario on a proof-authenticated source; false if its messages are used up.
func (c *ctx) evmRound(evmUsed map[string]bool) bool {
	src := c.t.evm[c.rng.Intn(len(c.t.evm))]
	pick := func(list []cs.EVMMessage, tag string) (cs.EVMMessage, bool) {
		for try := 0; try < 3*len(list); try++ {
			i := c.rng.Intn(len(list))
			k := fmt.Sprintf("%s/%s/%d", src.name, tag, i)
			if !evmUsed[k] {
				evmUsed[k] = true
				return list[i], true
			}
		}
		return cs.EVMMessage{}, false
	}
	n := len(src.s.Heights) - 1
	idx := c.rng.Intn(n)
	switch k := c.rng.Intn(10); {
	case k < 5:
		m, ok := pick(src.msgs, "m")
		if !ok {
			return false
		}
		c.evmCall("valid", src, m, true, func() *nat.CallRecord { return src.s.Import(m, idx, nil) })
	case k == 5:
		m, ok := pick(src.unknown, "u")
		if !ok {
			return false
		}
		c.evmCall("dest-unregistered", src, m, true, func() *nat.CallRecord { return src.s.Import(m, idx, nil) })
	case k == 6:
		m, ok := pick(src.msgs, "m")
		if !ok {
			return false
		}
		to := m.P.ToChainID
		if rec := c.t.w.Black(to); !rec.Ok {
			c.r.Inconclusive("black: " + rec.Err)
			return true
		}
		c.evmCall("dest-blacklisted", src, m, true, func() *nat.CallRecord { return src.s.Import(m, idx, nil) })
		if rec := c.t.w.White(to); !rec.Ok {
			c.r.Inconclusive("white: " + rec.Err)
			return true
		}
		c.evmCall("valid-after-whitelisting", src, m, true, func() *nat.CallRecord { return src.s.Import(m, idx, nil) })
	case k == 7 || k == 8:
		m, ok := pick(src.msgs, "m")
		if !ok {
			return false
		}
		if c.evmCall("valid", src, m, true, func() *nat.CallRecord { return src.s.Import(m, idx, nil) }) {
			c.evmCall("replay", src, m, true, func() *nat.CallRecord { return src.s.Import(m, (idx+1)%n, nil) })
		}
	default:
		m, ok := pick(src.msgs, "m")
		if !ok {
			return false
		}
		other := src.msgs[c.rng.Intn(len(src.msgs))]
		if string(other.P.Serialize()) == string(m.P.Serialize()) {
			return true
		}
		// message bytes that are not the ones the proven slot commits to
		c.evmCall("malformed", src, m, false, func() *nat.CallRecord { return src.s.Import(m, idx, other.P.Serialize()) })
	}
	return true
}

// message draws a message with boundary-biased field sizes.
func message(rng *rand.Rand, source, to uint64, cross []byte) *scom.MakeTxParam {
	sz := func() int {
		switch rng.Intn(8) {
		case 0:
			return 0
		case 1:
			return 1
		case 2:
			return 252 + rng.Intn(6) // var-uint length boundary 0xfd
		case 3:
			return 2000 + rng.Intn(3000)
		}
		return rng.Intn(64)
	}
	b := func() []byte { x := make([]byte, sz()); rng.Read(x); return x }
	p := &scom.MakeTxParam{TxHash: b(), CrossChainID: cross, FromContractAddress: b(), ToChainID: to, ToContractAddress: b(), Method: string(b()), Args: b()}
	if source == srcRipple {
		sink := common.NewZeroCopySink(nil)
		dst := make([]byte, rng.Intn(30))
		rng.Read(dst)
		sink.WriteVarBytes(dst)
		sink.WriteUint64(rng.Uint64())
		p.Args = sink.Bytes()
	}
	return p
}

type ctx struct {
	r     *kit.Run
	rng   *rand.Rand
	t     *tpl
	vm    *cs.VoteModel
	trace []string
	used  map[string]bool
}

func (c *ctx) logf(f string, a ...interface{}) {
	c.trace = append(c.trace, fmt.Sprintf(f, a...))
	if len(c.trace) > 60 {
		c.trace = c.trace[len(c.trace)-60:]
	}
}

func short(b []byte) string {
	if len(b) > 48 {
		return fmt.Sprintf("%x…(%d bytes)", b[:48], len(b))
	}
	return fmt.Sprintf("%x", b)
}

// round plays one voting round and applies the C22 monitor to every call.
// class labels why the deciding call is expected to be accepted or not (evidence only; the verdict
// does not depend on it).
func (c *ctx) round(class string, source uint64, height uint32, extra []byte, p *scom.MakeTxParam) (accepted bool) {
	r, w := c.r, c.t.w
	im := cs.Import{Source: source, Height: height, Extra: extra}
	id := cs.SubjectID(source, height, extra)
	vals := append([]*pk.Key{}, w.Vals...)
	c.rng.Shuffle(len(vals), func(i, j int) { vals[i], vals[j] = vals[j], vals[i] })
	var voters []*pk.Key
	for i, v := range vals {
		voters = append(voters, v)
		if c.rng.Intn(6) == 0 {
			voters = append(voters, c.t.outs[c.rng.Intn(len(c.t.outs))])
		}
		if c.rng.Intn(6) == 0 {
			voters = append(voters, vals[c.rng.Intn(i+1)])
		}
	}
	router := c.t.name[source]
	if source == srcRipple {
		router = "ripple"
	}
	for _, v := range voters {
		verdict := c.vm.Classify(id, v.Addr, w.Vals)
		o := w.Do(func() *nat.CallRecord { return w.Vote(im, v) })
		r.Eval(1)
		c.logf("%s src=%d h=%d extra=%s voter=%x model=%s -> ok=%v err=%q touched=%v leaves=%d", class, source, height, short(extra), v.Addr[:4], verdict, o.Rec.Ok, o.Rec.Err, o.Touched(), len(o.Rec.CrossHashes))
		isAccepted := verdict == cs.Reached && o.Rec.Ok
		if isAccepted && p == nil {
			r.Count("accepted_without_reference_message", 1) // cannot be judged (never expected: malformed bytes)
			c.vm.Commit(id, v.Addr, verdict, true)
			continue
		}
		if isAccepted {
			to := p.ToChainID
			exp := cs.Release{Source: source, Param: p}
			var fs []cs.Finding
			if source == srcRipple {
				fs = cs.CheckReleaseLoose(o, exp)
			} else {
				fs = cs.CheckRelease(o, exp)
			}
			for _, f := range fs {
				r.Violation("accepted-import "+f.Code, fmt.Sprintf("source router %s, destination router %s: %s", router, c.t.name[to], f.Detail),
					map[string]interface{}{"class": class, "trace": c.trace})
			}
			r.Count("accepted_imports", 1)
			if !config.DefConfig.Common.EnableEventLog {
				r.Count("accepted_imports_with_event_log_disabled", 1)
			}
			r.Count("accepted_from:"+router, 1)
			r.Count("accepted_to:"+c.t.name[to], 1)
			r.Distinct("acc", config.DefConfig.Common.EnableEventLog, router, c.t.name[to], len(p.TxHash), len(p.CrossChainID), len(p.FromContractAddress), len(p.ToContractAddress), len(p.Method), len(p.Args))
			if r.Get("samples_taken") < 3 && len(o.Rec.CrossHashes) == 1 {
				r.Count("samples_taken", 1)
				th := o.Rec.Tx.Hash()
				r.Sample(map[string]interface{}{"source": source, "to": to, "relay_tx": kit.Hex(th.ToArray()), "added_keys": o.Touched(), "leaf": kit.Hex(o.Rec.CrossHashes[0][:])})
			}
			c.vm.Commit(id, v.Addr, verdict, true)
			accepted = true
			continue
		}
		for _, f := range cs.CheckNoRelease(o) {
			r.Violation("non-accepted-call "+f.Code, fmt.Sprintf("model=%s ok=%v: %s", verdict, o.Rec.Ok, f.Detail), map[string]interface{}{"class": class, "trace": c.trace})
		}
		if !o.Rec.Ok && !o.Unchanged() {
			r.Violation("failed-call-changed-state", fmt.Sprintf("touched %v", o.Touched()), map[string]interface{}{"class": class, "trace": c.trace})
		}
		switch {
		case verdict == cs.Reached:
			r.Count("deciding_call_failed", 1)
			r.Count("deciding_call_failed:"+class, 1)
			r.Distinct("rej", router, class)
		case verdict == cs.Counted && o.Rec.Ok:
			c.vm.Commit(id, v.Addr, verdict, false)
			r.Count("undecided_votes", 1)
		case verdict == cs.AlreadyReleased:
			r.Count("votes_after_release", 1)
		case verdict == cs.Outsider:
			r.Count("outsider_calls", 1)
		}
	}
	return accepted
}

func (c *ctx) fresh() []byte {
	for {
		x := make([]byte, c.rng.Intn(34))
		c.rng.Read(x)
		if !c.used[string(x)] {
			c.used[string(x)] = true
			return x
		}
	}
}

func TestC22(t *testing.T) {
	r := kit.Start(t, "C22", "exploration")
	defer r.Finish()
	r.Rule("voting rounds through ImportOuterTransfer on main-net id from {2 VOTE chains, 1 ripple chain, 1 eth chain, 1 bsc chain (proof-authenticated single-call imports of messages committed in a synthetic world state)} towards one registered chain per account-based router constant (21) and back to a source chain; messages with boundary-biased field sizes (0, 1, 0xfd boundary, kilobytes); classes: valid, destination unregistered, destination blacklisted, replay of an accepted cross-chain id, malformed message bytes; a quarter of the rounds run with the node-local event log disabled (Common.EnableEventLog=false); every call (votes below threshold, outsiders, repeat voters, votes after release, deciding calls) goes through the monitor; distinct = (source router, destination router, field lengths) for accepted imports and (router, class) for refused ones")
	polyeth.VerifSealBypass = true
	defer func() { polyeth.VerifSealBypass = false; config.DefConfig.Common.EnableEventLog = true }()
	rng := r.Rand("cases")
	nRounds := r.N(1500, 45000)
	var tp *tpl
	var vm *cs.VoteModel
	var used, evmUsed map[string]bool
	for i := 0; i < nRounds && r.Violations() < 30; i++ {
		if i%300 == 0 {
			n := 4 + (i/300)%5
			if tp = build(r, n, i/300); tp == nil {
				return
			}
			r.Count("universes_built", 1)
		}
		if i%25 == 0 {
			tp.w.Restore(tp.snap)
			vm, used, evmUsed = cs.NewVoteModel(), map[string]bool{}, map[string]bool{}
		}
		c := &ctx{r: r, rng: rng, t: tp, vm: vm, used: used}
		// node-local configuration is a dimension: a quarter of the rounds run with the event log off
		// (the request record and the cross-state leaf are consensus data and must not depend on it)
		config.DefConfig.Common.EnableEventLog = rng.Intn(4) != 0
		if !config.DefConfig.Common.EnableEventLog {
			r.Count("rounds_with_event_log_disabled", 1)
		}
		if rng.Intn(4) == 0 {
			tp.w.E.Height = 1 + uint32(rng.Intn(40000000))
			if c.evmRound(evmUsed) {
				continue
			}
		}
		// a group of related rounds on the same universe state
		sources := []uint64{srcVoteA, srcVoteB, srcRipple}
		src := sources[rng.Intn(3)]
		to := tp.dests[rng.Intn(len(tp.dests))]
		tp.w.E.Height = 1 + uint32(rng.Intn(40000000))
		hh := rng.Uint32()
		switch k := rng.Intn(10); {
		case k < 5:
			p := message(rng, src, to, c.fresh())
			c.round("valid", src, hh, cs.ExtraOf(p), p)
		case k == 5:
			p := message(rng, src, unknownID, c.fresh())
			c.round("dest-unregistered", src, hh, cs.ExtraOf(p), p)
		case k == 6:
			if rec := tp.w.Black(to); !rec.Ok {
				r.Inconclusive("black: " + rec.Err)
				return
			}
			p := message(rng, src, to, c.fresh())
			c.round("dest-blacklisted", src, hh, cs.ExtraOf(p), p)
			if rec := tp.w.White(to); !rec.Ok {
				r.Inconclusive("white: " + rec.Err)
				return
			}
			c.round("valid-after-whitelisting", src, hh, cs.ExtraOf(p), p)
		case k == 7 || k == 8:
			p := message(rng, src, to, c.fresh())
			if c.round("valid", src, hh, cs.ExtraOf(p), p) {
				p2 := message(rng, src, tp.dests[rng.Intn(len(tp.dests))], p.CrossChainID)
				c.round("replay", src, hh+1, cs.ExtraOf(p2), p2)
			}
		case k == 9:
			p := message(rng, src, to, c.fresh())
			ex := cs.ExtraOf(p)
			ex = ex[:rng.Intn(len(ex))]
			c.round("malformed", src, hh, ex, nil)
		}
	}
	r.Set("destinations_excluded", "BTC and ripple destinations are not account-based (they build native transactions, no request record): excluded")
	r.Assume("every second validator's pool entry is registered by a separate wallet account (registered address != node-key address); validators are identified by the key-derived address, the wallet accounts vote as outsiders")
	r.Assume("an import is 'accepted' when the call that brings the distinct-validator count to ceil(2N/3) succeeds (vote-authenticated routers); the verified message of the VOTE router is the voted message itself; for ripple-as-source the router fills ToContractAddress and rewrites Args from its asset binding, so only relay tx hash, source chain, TxHash, CrossChainID, FromContractAddress, ToChainID and Method are compared")
	r.Assume("the leaf is SHA-256(0x00 ‖ request value) (RFC 6962 leaf hash); a transaction's leaves are what NativeService.GetCrossHashes returns after a successful Invoke, which the ledger appends to the block's cross-state tree")
	r.Require("accepted_imports", nRounds/3)
	r.Require("accepted_imports_with_event_log_disabled", nRounds/20)
	r.Require("accepted_from:vote", nRounds/6)
	r.Require("accepted_from:ripple", nRounds/12)
	r.Require("accepted_from:eth", nRounds/40)
	r.Require("accepted_from:bsc", nRounds/40)
	r.Require("evm_import_refused:eth", nRounds/60)
	r.Require("evm_import_refused:bsc", nRounds/60)
	r.Require("deciding_call_failed", nRounds/8)
	r.Require("deciding_call_failed:dest-unregistered", nRounds/40)
	r.Require("deciding_call_failed:dest-blacklisted", nRounds/40)
	r.Require("deciding_call_failed:replay", nRounds/40)
	r.Require("deciding_call_failed:malformed", nRounds/40)
	r.Require("undecided_votes", nRounds)
	r.Require("votes_after_release", nRounds/4)
	for name := range destRouters {
		r.Require("accepted_to:"+name, 1)
	}
}
