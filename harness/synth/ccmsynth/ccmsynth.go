// Package ccmsynth builds cross-chain-manager scenarios on top of kit/nat using only the REAL
// native-contract entry points: governance bootstrap, side-chain registration / approval / quit
// through side_chain_manager, black/white-listing through cross_chain_manager, validator-set
// (epoch) changes through node_manager, relayer registration through relayer_manager and
// vote-router imports ("ImportOuterTransfer"). Nothing here re-implements poly logic: parameter
// blobs are serialised field by field as the contracts' Deserialization reads them.
package ccmsynth

import (
	"bytes"
	"fmt"
	"math/big"
	"math/rand"
	"sort"

	"github.com/polynetwork/poly/common"
	"github.com/polynetwork/poly/common/config"
	scom "github.com/polynetwork/poly/native/service/cross_chain_manager/common"
	"github.com/polynetwork/poly/native/service/governance/node_manager"
	"github.com/polynetwork/poly/native/service/governance/side_chain_manager"
	"github.com/polynetwork/poly/native/service/utils"

	"verifharness/kit/nat"
	"verifharness/kit/pk"
)

// World is one contract universe with governance installed.
type World struct {
	E     *nat.Env
	Vals  []*pk.Key // current consensus validators (the harness' own bookkeeping of what it installed)
	Owner *pk.Key   // default side-chain owner

	// Wallets: validators (by public-key hex) whose pool entry was registered by a separate wallet
	// account, i.e. PeerPoolItem.Address != address derived from the node key (the normal situation
	// on a live network). Validators not listed registered themselves.
	Wallets map[string]*pk.Key

	lastDump  []nat.KV
	lastNonce uint32
}

// WalletOf returns the account that owns validator k's pool entry (k itself if self-registered).
func (w *World) WalletOf(k *pk.Key) *pk.Key {
	if x := w.Wallets[k.PubHex()]; x != nil {
		return x
	}
	return k
}

// WalletKeys lists the separate wallet accounts of the current validators (none of them is a
// consensus validator itself).
func (w *World) WalletKeys() []*pk.Key {
	var out []*pk.Key
	for _, v := range w.Vals {
		if x := w.Wallets[v.PubHex()]; x != nil {
			out = append(out, x)
		}
	}
	return out
}

// NewWorldWallets is NewWorld where validator i's genesis pool entry carries the address of
// wallets[i] (nil = its own key address) as the registered account.
func NewWorldWallets(netID uint32, vals, wallets []*pk.Key, owner *pk.Key) (*World, error) {
	config.EXTRA_INFO_HEIGHT_FORK_CHECK = false
	e := nat.New(netID)
	vb := pk.SetConfig(netID, vals)
	wm := map[string]*pk.Key{}
	for i, wk := range wallets {
		if wk != nil && i < len(vals) {
			vb.Peers[i].Address = wk.Addr.ToBase58()
			wm[vals[i].PubHex()] = wk
		}
	}
	sink := common.NewZeroCopySink(nil)
	vb.Serialization(sink)
	h := e.Height
	e.Height = 0
	rec := e.Call(utils.NodeManagerContractAddress, "initConfig", sink.Bytes())
	e.Height = h
	if !rec.Ok {
		return nil, fmt.Errorf("initConfig: %s", rec.Err)
	}
	e.Validators = vals
	return &World{E: e, Vals: append([]*pk.Key{}, vals...), Owner: owner, Wallets: wm}, nil
}

// NewWorld creates a universe on network id netID whose genesis validators are vals.
// config.EXTRA_INFO_HEIGHT_FORK_CHECK is switched off: native/service's init() turns it on, and
// then SideChain.Serialization reads ledger.DefLedger (nil under the direct driver). Off means
// "ExtraInfo is always serialised", i.e. the behaviour of every network after its fork height.
func NewWorld(netID uint32, vals []*pk.Key, owner *pk.Key) (*World, error) {
	config.EXTRA_INFO_HEIGHT_FORK_CHECK = false
	e := nat.New(netID)
	if err := e.InitGovernance(vals); err != nil {
		return nil, err
	}
	return &World{E: e, Vals: append([]*pk.Key{}, vals...), Owner: owner, Wallets: map[string]*pk.Key{}}, nil
}

// ---------------------------------------------------------------------------------------------
// side chain registry

// RegisterArgs serialises RegisterSideChainParam (written out by hand because poly's own
// Serialization consults ledger.DefLedger).
func RegisterArgs(owner common.Address, chainID, router uint64, name string, blocksToWait uint64, ccmc, extra []byte) []byte {
	sink := common.NewZeroCopySink(nil)
	sink.WriteVarBytes(owner[:])
	sink.WriteVarUint(chainID)
	sink.WriteVarUint(router)
	sink.WriteVarBytes([]byte(name))
	sink.WriteVarUint(blocksToWait)
	sink.WriteVarBytes(ccmc)
	sink.WriteVarBytes(extra)
	return sink.Bytes()
}

// ChainIDArgs serialises ChainidParam.
func ChainIDArgs(chainID uint64, addr common.Address) []byte {
	sink := common.NewZeroCopySink(nil)
	sink.WriteVarUint(chainID)
	sink.WriteVarBytes(addr[:])
	return sink.Bytes()
}

// ChainSpec describes a side chain to register.
type ChainSpec struct {
	ID           uint64
	Router       uint64
	Name         string
	BlocksToWait uint64
	CCMC         []byte
	Extra        []byte
	Owner        *pk.Key // default World.Owner
}

func (w *World) owner(s ChainSpec) *pk.Key {
	if s.Owner != nil {
		return s.Owner
	}
	return w.Owner
}

// Register sends registerSideChain signed by the owner.
func (w *World) Register(s ChainSpec) *nat.CallRecord {
	o := w.owner(s)
	btw := s.BlocksToWait
	if btw == 0 {
		btw = 1
	}
	name := s.Name
	if name == "" {
		name = fmt.Sprintf("chain%d", s.ID)
	}
	return w.E.Call(utils.SideChainManagerContractAddress, side_chain_manager.REGISTER_SIDE_CHAIN,
		RegisterArgs(o.Addr, s.ID, s.Router, name, btw, s.CCMC, s.Extra), pk.Single(o))
}

// ApproveRegister sends approveRegisterSideChain signed by v.
func (w *World) ApproveRegister(chainID uint64, v *pk.Key) *nat.CallRecord {
	return w.E.Call(utils.SideChainManagerContractAddress, side_chain_manager.APPROVE_REGISTER_SIDE_CHAIN,
		ChainIDArgs(chainID, v.Addr), pk.Single(v))
}

// Quit sends quitSideChain signed by owner.
func (w *World) Quit(chainID uint64, owner *pk.Key) *nat.CallRecord {
	if owner == nil {
		owner = w.Owner
	}
	return w.E.Call(utils.SideChainManagerContractAddress, side_chain_manager.QUIT_SIDE_CHAIN,
		ChainIDArgs(chainID, owner.Addr), pk.Single(owner))
}

// ApproveQuit sends approveQuitSideChain signed by v.
func (w *World) ApproveQuit(chainID uint64, v *pk.Key) *nat.CallRecord {
	return w.E.Call(utils.SideChainManagerContractAddress, side_chain_manager.APPROVE_QUIT_SIDE_CHAIN,
		ChainIDArgs(chainID, v.Addr), pk.Single(v))
}

// RegisterAndApprove registers the chain and lets every current validator approve, in order,
// until the registry shows it. Error if any step fails or the chain never appears.
func (w *World) RegisterAndApprove(s ChainSpec) error {
	if rec := w.Register(s); !rec.Ok {
		return fmt.Errorf("registerSideChain(%d): %s", s.ID, rec.Err)
	}
	for _, v := range w.Vals {
		if rec := w.ApproveRegister(s.ID, v); !rec.Ok {
			return fmt.Errorf("approveRegisterSideChain(%d): %s", s.ID, rec.Err)
		}
		if w.Registered(s.ID) {
			return nil
		}
	}
	return fmt.Errorf("chain %d not registered after all validators approved", s.ID)
}

// QuitAndApprove is the quit counterpart of RegisterAndApprove.
func (w *World) QuitAndApprove(chainID uint64, owner *pk.Key) error {
	if rec := w.Quit(chainID, owner); !rec.Ok {
		return fmt.Errorf("quitSideChain(%d): %s", chainID, rec.Err)
	}
	for _, v := range w.Vals {
		if rec := w.ApproveQuit(chainID, v); !rec.Ok {
			return fmt.Errorf("approveQuitSideChain(%d): %s", chainID, rec.Err)
		}
		if !w.Registered(chainID) {
			return nil
		}
	}
	return fmt.Errorf("chain %d still registered after all validators approved the quit", chainID)
}

// Registered reads the committed registry through the exported getter.
func (w *World) Registered(chainID uint64) bool {
	sc, err := side_chain_manager.GetSideChain(w.E.Service(), chainID)
	return err == nil && sc != nil
}

// SideChain returns the committed registry entry (nil if absent).
func (w *World) SideChain(chainID uint64) *side_chain_manager.SideChain {
	sc, _ := side_chain_manager.GetSideChain(w.E.Service(), chainID)
	return sc
}

// ---------------------------------------------------------------------------------------------
// black / white list

func blackArgs(chainID uint64) []byte {
	sink := common.NewZeroCopySink(nil)
	sink.WriteVarUint(chainID)
	return sink.Bytes()
}

// Black sends BlackChain signed by the current consensus operator multi-sig.
func (w *World) Black(chainID uint64) *nat.CallRecord {
	return w.E.Call(utils.CrossChainManagerContractAddress, scom.BLACK_CHAIN, blackArgs(chainID), nat.Operator(w.Vals))
}

// White sends WhiteChain signed by the current consensus operator multi-sig.
func (w *World) White(chainID uint64) *nat.CallRecord {
	return w.E.Call(utils.CrossChainManagerContractAddress, scom.WHITE_CHAIN, blackArgs(chainID), nat.Operator(w.Vals))
}

// BlackAs / WhiteAs: the same calls signed by an arbitrary signer (authorisation probes).
func (w *World) BlackAs(chainID uint64, sg pk.Signer) *nat.CallRecord {
	return w.E.Call(utils.CrossChainManagerContractAddress, scom.BLACK_CHAIN, blackArgs(chainID), sg)
}
func (w *World) WhiteAs(chainID uint64, sg pk.Signer) *nat.CallRecord {
	return w.E.Call(utils.CrossChainManagerContractAddress, scom.WHITE_CHAIN, blackArgs(chainID), sg)
}

// ---------------------------------------------------------------------------------------------
// validator set (epoch) changes through node_manager

func peerArgs(pubHex string, addr common.Address) []byte {
	sink := common.NewZeroCopySink(nil)
	sink.WriteString(pubHex)
	sink.WriteVarBytes(addr[:])
	return sink.Bytes()
}

// CommitDpos moves to the next epoch (height is advanced by one first: poly refuses two commits at
// one height). It is signed by the current consensus operator multi-sig; validator sets of more
// than 16 members have no representable multi-sig entry (MULTI_SIG_MAX_PUBKEY_SIZE), so there the
// other documented path is taken: anybody may commit once MaxBlockChangeView blocks have passed.
func (w *World) CommitDpos() error { return w.commitAs(w.Vals) }

func (w *World) commitAs(operatorOf []*pk.Key) error {
	w.E.Height++
	var first string
	if len(operatorOf) <= 16 {
		rec := w.E.Call(utils.NodeManagerContractAddress, node_manager.COMMIT_DPOS, nil, nat.Operator(operatorOf))
		if rec.Ok {
			return nil
		}
		first = rec.Err
	}
	w.E.Height += config.DefConfig.Genesis.VBFT.MaxBlockChangeView
	rec := w.E.Call(utils.NodeManagerContractAddress, node_manager.COMMIT_DPOS, nil, pk.Single(w.Vals[0]))
	if !rec.Ok {
		return fmt.Errorf("commitDpos: %s / %s", first, rec.Err)
	}
	return nil
}

// AddValidator: registerCandidate by k, approveCandidate by the current validators until the
// candidate is in the pool, commitDpos. Afterwards k is a consensus validator.
func (w *World) AddValidator(k *pk.Key) error { return w.AddValidatorBy(k, nil) }

// AddValidatorBy is AddValidator with the candidate registered by a separate wallet account
// (wallet nil = by the node key itself).
func (w *World) AddValidatorBy(k, wallet *pk.Key) error {
	reg := k
	if wallet != nil {
		reg = wallet
	}
	rec := w.E.Call(utils.NodeManagerContractAddress, node_manager.REGISTER_CANDIDATE, peerArgs(k.PubHex(), reg.Addr), pk.Single(reg))
	if !rec.Ok {
		return fmt.Errorf("registerCandidate: %s", rec.Err)
	}
	done := false
	for _, v := range w.Vals {
		rec := w.E.Call(utils.NodeManagerContractAddress, node_manager.APPROVE_CANDIDATE, peerArgs(k.PubHex(), v.Addr), pk.Single(v))
		if !rec.Ok {
			return fmt.Errorf("approveCandidate: %s", rec.Err)
		}
		if _, ok := w.poolStatus()[k.PubHex()]; ok {
			done = true
			break
		}
	}
	if !done {
		return fmt.Errorf("candidate never entered the pool")
	}
	if err := w.CommitDpos(); err != nil {
		return err
	}
	w.Vals = append(w.Vals, k)
	if wallet != nil {
		w.Wallets[k.PubHex()] = wallet
	} else {
		delete(w.Wallets, k.PubHex())
	}
	return w.checkVals()
}

// RemoveValidator: quitNode by k, commitDpos. Needs more than 4 peers.
func (w *World) RemoveValidator(k *pk.Key) error {
	own := w.WalletOf(k)
	rec := w.E.Call(utils.NodeManagerContractAddress, node_manager.QUIT_NODE, peerArgs(k.PubHex(), own.Addr), pk.Single(own))
	if !rec.Ok {
		return fmt.Errorf("quitNode: %s", rec.Err)
	}
	// the quitting node is no longer ConsensusStatus, so the operator multi-sig is that of the rest
	rest := []*pk.Key{}
	for _, v := range w.Vals {
		if v != k {
			rest = append(rest, v)
		}
	}
	if err := w.commitAs(rest); err != nil {
		return err
	}
	w.Vals = rest
	delete(w.Wallets, k.PubHex())
	return w.checkVals()
}

// poolStatus reads the current view's peer pool: pubkey hex -> status.
func (w *World) poolStatus() map[string]node_manager.Status {
	svc := w.E.Service()
	view, err := node_manager.GetView(svc)
	if err != nil {
		return nil
	}
	m, err := node_manager.GetPeerPoolMap(svc, view)
	if err != nil {
		return nil
	}
	out := map[string]node_manager.Status{}
	for k, v := range m.PeerPoolMap {
		out[k] = v.Status
	}
	return out
}

// ConsensusPubs lists the pubkeys (hex, sorted) that poly's committed state marks ConsensusStatus.
func (w *World) ConsensusPubs() []string {
	var out []string
	for k, st := range w.poolStatus() {
		if st == node_manager.ConsensusStatus {
			out = append(out, k)
		}
	}
	sort.Strings(out)
	return out
}

// checkVals verifies that the harness' bookkeeping of the validator set equals the committed one
// (a scenario-construction sanity check, not an oracle).
func (w *World) checkVals() error {
	var mine []string
	for _, v := range w.Vals {
		mine = append(mine, v.PubHex())
	}
	sort.Strings(mine)
	got := w.ConsensusPubs()
	if fmt.Sprint(mine) != fmt.Sprint(got) {
		return fmt.Errorf("validator bookkeeping mismatch: harness %d, chain %d", len(mine), len(got))
	}
	return nil
}

// ---------------------------------------------------------------------------------------------
// relayers (relayer_manager): register + approve

// IsRelayer reads the committed relayer record of addr.
func (w *World) IsRelayer(addr common.Address) bool {
	k := append(append([]byte{}, utils.RelayerManagerContractAddress[:]...), []byte("relayer")...)
	return w.E.GetRaw(append(k, addr[:]...)) != nil
}

// RegisterRelayers registers the addresses as relayers through registerRelayer /
// approveRegisterRelayer (apply ids are handed out by the contract starting at 0: pass the id this
// application will get).
func (w *World) RegisterRelayers(applicant *pk.Key, addrs []common.Address, applyID uint64) error {
	sink := common.NewZeroCopySink(nil)
	sink.WriteVarUint(uint64(len(addrs)))
	for _, a := range addrs {
		sink.WriteVarBytes(a[:])
	}
	sink.WriteVarBytes(applicant.Addr[:])
	rec := w.E.Call(utils.RelayerManagerContractAddress, "registerRelayer", sink.Bytes(), pk.Single(applicant))
	if !rec.Ok {
		return fmt.Errorf("registerRelayer: %s", rec.Err)
	}
	for _, v := range w.Vals {
		s := common.NewZeroCopySink(nil)
		s.WriteVarUint(applyID)
		s.WriteVarBytes(v.Addr[:])
		rec := w.E.Call(utils.RelayerManagerContractAddress, "approveRegisterRelayer", s.Bytes(), pk.Single(v))
		if !rec.Ok {
			return fmt.Errorf("approveRegisterRelayer: %s", rec.Err)
		}
		if len(addrs) > 0 && w.IsRelayer(addrs[0]) {
			return nil
		}
	}
	return fmt.Errorf("relayers not registered after all validators approved")
}

// ---------------------------------------------------------------------------------------------
// imports

// Import is one vote-router style ImportOuterTransfer call.
type Import struct {
	Source uint64
	Height uint32
	Param  *scom.MakeTxParam // serialised into Extra
	Extra  []byte            // used instead of Param when non-nil
	Proof  []byte
	Header []byte
}

// ExtraOf serialises a MakeTxParam.
func ExtraOf(p *scom.MakeTxParam) []byte {
	sink := common.NewZeroCopySink(nil)
	p.Serialization(sink)
	return sink.Bytes()
}

// Args builds the EntranceParam blob with the given relayer (voter) address.
func (im Import) Args(relayer common.Address) []byte {
	extra := im.Extra
	if extra == nil && im.Param != nil {
		extra = ExtraOf(im.Param)
	}
	p := &scom.EntranceParam{SourceChainID: im.Source, Height: im.Height, Proof: im.Proof, RelayerAddress: relayer[:],
		Extra: extra, HeaderOrCrossChainMsg: im.Header}
	sink := common.NewZeroCopySink(nil)
	p.Serialization(sink)
	return sink.Bytes()
}

// Vote submits the import as voter k (RelayerAddress = k's address, tx signed by k).
func (w *World) Vote(im Import, k *pk.Key) *nat.CallRecord {
	return w.E.Call(utils.CrossChainManagerContractAddress, scom.IMPORT_OUTER_TRANSFER_NAME, im.Args(k.Addr), pk.Single(k))
}

// VoteClaiming submits the import signed by signer but naming claimed as the relayer address.
func (w *World) VoteClaiming(im Import, claimed common.Address, signer *pk.Key) *nat.CallRecord {
	return w.E.Call(utils.CrossChainManagerContractAddress, scom.IMPORT_OUTER_TRANSFER_NAME, im.Args(claimed), pk.Single(signer))
}

// RandParam draws a MakeTxParam towards toChain with the given cross-chain id.
func RandParam(rng *rand.Rand, toChain uint64, crossID []byte) *scom.MakeTxParam {
	b := func(min, max int) []byte {
		x := make([]byte, min+rng.Intn(max-min+1))
		rng.Read(x)
		return x
	}
	methods := []string{"unlock", "lock", "", "add", "a-long-method-name-with-some-more-characters"}
	return &scom.MakeTxParam{TxHash: b(0, 40), CrossChainID: append([]byte{}, crossID...), FromContractAddress: b(0, 32),
		ToChainID: toChain, ToContractAddress: b(0, 32), Method: methods[rng.Intn(len(methods))], Args: b(0, 200)}
}

// ---------------------------------------------------------------------------------------------
// storage-key classification for the cross-chain-manager namespace (written from the documented
// layout: contract address ‖ tag ‖ parts)

// CCMKey builds contract ‖ tag ‖ parts for the cross-chain manager.
func CCMKey(tag string, parts ...[]byte) []byte {
	k := append([]byte{}, utils.CrossChainManagerContractAddress[:]...)
	k = append(k, []byte(tag)...)
	for _, p := range parts {
		k = append(k, p...)
	}
	return k
}

// U64 is the little-endian 8-byte form used in storage keys.
func U64(v uint64) []byte {
	sink := common.NewZeroCopySink(nil)
	sink.WriteUint64(v)
	return sink.Bytes()
}

// DoneKey is the done-marker key of (source chain, cross-chain id).
func DoneKey(source uint64, crossID []byte) []byte { return CCMKey(scom.DONE_TX, U64(source), crossID) }

// RequestKey is the outbound-request key of (destination chain, relay tx hash).
func RequestKey(to uint64, txHash []byte) []byte { return CCMKey(scom.REQUEST, U64(to), txHash) }

// HasPrefix reports whether a storage key lies under contract ‖ tag.
func HasPrefix(key []byte, tag string) bool { return bytes.HasPrefix(key, CCMKey(tag)) }

// ---------------------------------------------------------------------------------------------
// ripple side chain (vote-authenticated source router with asset binding)

// RippleExtra serialises RippleExtraInfo.
func RippleExtra(operator common.Address, sequence, quorum, signerNum uint64, pks [][]byte, reserve *big.Int) []byte {
	info := &side_chain_manager.RippleExtraInfo{Operator: operator, Sequence: sequence, Quorum: quorum, SignerNum: signerNum,
		Pks: pks, ReserveAmount: reserve}
	sink := common.NewZeroCopySink(nil)
	info.Serialization(sink)
	return sink.Bytes()
}

// RegisterAsset binds asset / lock-proxy addresses of a ripple chain (signed by its operator).
func (w *World) RegisterAsset(operator *pk.Key, chainID uint64, assetMap, lockProxyMap map[uint64][]byte) *nat.CallRecord {
	p := &side_chain_manager.RegisterAssetParam{OperatorAddress: operator.Addr, ChainId: chainID, AssetMap: assetMap, LockProxyMap: lockProxyMap}
	sink := common.NewZeroCopySink(nil)
	p.Serialization(sink)
	return w.E.Call(utils.SideChainManagerContractAddress, side_chain_manager.REGISTER_ASSET, sink.Bytes(), pk.Single(operator))
}

// ---------------------------------------------------------------------------------------------
// other vote-counting entry points

// AddSignature calls signature_manager.addSignature as k.
func (w *World) AddSignature(k *pk.Key, sideChainID uint64, subject, sig []byte) *nat.CallRecord {
	sink := common.NewZeroCopySink(nil)
	sink.WriteVarBytes(k.Addr[:])
	sink.WriteUint64(sideChainID)
	sink.WriteVarBytes(subject)
	sink.WriteVarBytes(sig)
	return w.E.Call(utils.SignatureManagerContractAddress, "addSignature", sink.Bytes(), pk.Single(k))
}

// QuorumEvents counts the "AddSignatureQuorum" notifications a call emitted.
func QuorumEvents(rec *nat.CallRecord) int {
	n := 0
	for _, ev := range rec.Notify {
		if ev.ContractAddress != utils.SignatureManagerContractAddress {
			continue
		}
		if st, ok := ev.States.([]interface{}); ok && len(st) > 0 {
			if s, ok := st[0].(string); ok && s == "AddSignatureQuorum" {
				n++
			}
		}
	}
	return n
}

// UpdateFee calls side_chain_manager.updateFee as k.
func (w *World) UpdateFee(k *pk.Key, chainID, view uint64, fee *big.Int) *nat.CallRecord {
	sink := common.NewZeroCopySink(nil)
	sink.WriteAddress(k.Addr)
	sink.WriteUint64(chainID)
	sink.WriteUint64(view)
	sink.WriteVarBytes(fee.Bytes())
	return w.E.Call(utils.SideChainManagerContractAddress, side_chain_manager.UPDATE_FEE, sink.Bytes(), pk.Single(k))
}

// Fee reads the committed fee record of a chain (view, fee).
func (w *World) Fee(chainID uint64) (uint64, *big.Int) {
	f, err := side_chain_manager.GetFee(w.E.Service(), chainID)
	if err != nil || f == nil {
		return 0, nil
	}
	return f.View, f.Fee
}

// QuitNodeOnly sends quitNode for k without committing the epoch (k becomes "quitting").
func (w *World) QuitNodeOnly(k *pk.Key) *nat.CallRecord {
	own := w.WalletOf(k)
	return w.E.Call(utils.NodeManagerContractAddress, node_manager.QUIT_NODE, peerArgs(k.PubHex(), own.Addr), pk.Single(own))
}

// ---------------------------------------------------------------------------------------------
// peer-pool members that are not (or no longer) consensus validators, without closing the epoch

// PoolStatusOf reads the committed pool status of k in the current view.
func (w *World) PoolStatusOf(k *pk.Key) (node_manager.Status, bool) {
	st, ok := w.poolStatus()[k.PubHex()]
	return st, ok
}

// RegisterCandidateOnly registers k (by wallet, nil = itself) and lets validators approve until it is
// in the pool with CandidateStatus; no commitDpos, so k is not a consensus validator.
func (w *World) RegisterCandidateOnly(k, wallet *pk.Key) error {
	reg := k
	if wallet != nil {
		reg = wallet
	}
	rec := w.E.Call(utils.NodeManagerContractAddress, node_manager.REGISTER_CANDIDATE, peerArgs(k.PubHex(), reg.Addr), pk.Single(reg))
	if !rec.Ok {
		return fmt.Errorf("registerCandidate: %s", rec.Err)
	}
	for _, v := range w.Vals {
		rec := w.E.Call(utils.NodeManagerContractAddress, node_manager.APPROVE_CANDIDATE, peerArgs(k.PubHex(), v.Addr), pk.Single(v))
		if !rec.Ok {
			return fmt.Errorf("approveCandidate: %s", rec.Err)
		}
		if st, ok := w.PoolStatusOf(k); ok && st == node_manager.CandidateStatus {
			return nil
		}
	}
	return fmt.Errorf("candidate never entered the pool")
}

// BlackNodeOnly lets validators blacklist pool member k (blackNode) until its status is BlackStatus.
// For a candidate this does not close the epoch.
func (w *World) BlackNodeOnly(k *pk.Key) error {
	for _, v := range w.Vals {
		sink := common.NewZeroCopySink(nil)
		sink.WriteVarUint(1)
		sink.WriteString(k.PubHex())
		sink.WriteVarBytes(v.Addr[:])
		rec := w.E.Call(utils.NodeManagerContractAddress, node_manager.BLACK_NODE, sink.Bytes(), pk.Single(v))
		if !rec.Ok {
			return fmt.Errorf("blackNode: %s", rec.Err)
		}
		if st, ok := w.PoolStatusOf(k); ok && st == node_manager.BlackStatus {
			return nil
		}
	}
	return fmt.Errorf("peer never blacklisted")
}
