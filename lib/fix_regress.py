#!/usr/bin/env python3
"""fix_regress.py — for every `fixed` entry of known_findings.json: revert that fix: commit in a scratch
worktree of /repo HEAD and run the property's quick check against it; the check must report the
violation again (exit 1). A fixed entry suppresses nothing."""
import json, os, subprocess, sys
V = os.path.dirname(os.path.dirname(os.path.abspath(__file__)))
seen, bad = set(), []
for k in json.load(open(os.path.join(V, "known_findings.json"))):
    if k["kind"] != "fixed" or (k["commit"], k["property"]) in seen: continue
    seen.add((k["commit"], k["property"]))
    wt = "/var/tmp/fixrev-%d" % os.getpid()
    subprocess.run(["git", "-C", "/repo", "worktree", "add", "--detach", "-q", wt, "HEAD"], check=True)
    try:
        r = subprocess.run(["git", "-C", wt, "revert", "--no-commit", k["commit"]], stdout=subprocess.PIPE, stderr=subprocess.STDOUT)
        if r.returncode != 0:
            print("%s %s REVERT-CONFLICT" % (k["property"], k["commit"])); bad.append(k["commit"]); continue
        env = dict(os.environ, VERIF_REPO=wt, VERIF_EVIDENCE_KEEP="1")
        p = subprocess.run([os.path.join(V, "check"), k["property"], "--tier", "quick"], env=env, cwd=V, stdout=subprocess.PIPE, stderr=subprocess.STDOUT)
        out = p.stdout.decode(errors="replace")
        keys = sorted(set(l.split("what=")[0].split("key=")[1].strip() for l in out.splitlines() if l.startswith("  key=")))[:3]
        ok = p.returncode == 1
        print("%s %s %s %s" % (k["property"], k["commit"], "fires-again" if ok else "SILENT(exit=%d)" % p.returncode, "; ".join(keys)[:160]), flush=True)
        if not ok: bad.append(k["commit"])
    finally:
        subprocess.run(["git", "-C", "/repo", "worktree", "remove", "--force", wt], stdout=subprocess.DEVNULL, stderr=subprocess.DEVNULL)
print("fixes=%d not-firing=%d %s" % (len(seen), len(bad), " ".join(bad)))
sys.exit(1 if bad else 0)
