// Package bls is a pure-Go, fail-closed stand-in for the cgo BLS binding
// (libbls384_256/mcl are not available in the verification sandbox).
// Keys and signatures are opaque byte strings; every verification fails.
package bls

import (
	"bytes"
	"encoding/hex"
	"errors"
	"io"
)

const (
	CurveFp254BNb = 0
	CurveFp382_1  = 1
	CurveFp382_2  = 2
	BLS12_381     = 5
)

var errStub = errors.New("bls stub: operation unavailable in verification build")

func Init(curve int) error { return nil }

type blob struct{ b []byte }

func (x *blob) ser() []byte { return append([]byte(nil), x.b...) }
func (x *blob) de(buf []byte, n int) error {
	if len(buf) != n {
		return errStub
	}
	x.b = append([]byte(nil), buf...)
	return nil
}

type ID struct{ v blob }

func (id *ID) Serialize() []byte               { return id.v.ser() }
func (id *ID) Deserialize(buf []byte) error     { return id.v.de(buf, 32) }
func (id *ID) GetLittleEndian() []byte          { return id.v.ser() }
func (id *ID) SetLittleEndian(buf []byte) error { id.v.b = append([]byte(nil), buf...); return nil }
func (id *ID) SerializeToHexStr() string        { return hex.EncodeToString(id.v.b) }
func (id *ID) DeserializeHexStr(s string) error {
	a, err := hex.DecodeString(s)
	if err != nil {
		return err
	}
	return id.Deserialize(a)
}
func (id *ID) IsEqual(rhs *ID) bool { return rhs != nil && bytes.Equal(id.v.b, rhs.v.b) }

type SecretKey struct{ v blob }

func (sec *SecretKey) Serialize() []byte               { return sec.v.ser() }
func (sec *SecretKey) Deserialize(buf []byte) error     { return sec.v.de(buf, 32) }
func (sec *SecretKey) GetLittleEndian() []byte          { return sec.v.ser() }
func (sec *SecretKey) SetLittleEndian(buf []byte) error { sec.v.b = append([]byte(nil), buf...); return nil }
func (sec *SecretKey) SerializeToHexStr() string        { return hex.EncodeToString(sec.v.b) }
func (sec *SecretKey) DeserializeHexStr(s string) error {
	a, err := hex.DecodeString(s)
	if err != nil {
		return err
	}
	return sec.Deserialize(a)
}
func (sec *SecretKey) IsEqual(rhs *SecretKey) bool { return rhs != nil && bytes.Equal(sec.v.b, rhs.v.b) }
func (sec *SecretKey) SetByCSPRNG()                { sec.v.b = make([]byte, 32) }
func (sec *SecretKey) Add(rhs *SecretKey)          {}
func (sec *SecretKey) GetMasterSecretKey(k int) (msk []SecretKey) {
	return make([]SecretKey, k)
}
func GetMasterPublicKey(msk []SecretKey) (mpk []PublicKey)        { return make([]PublicKey, len(msk)) }
func (sec *SecretKey) Set(msk []SecretKey, id *ID) error          { return errStub }
func (sec *SecretKey) Recover(secVec []SecretKey, idVec []ID) error { return errStub }
func (sec *SecretKey) GetPop() (sig *Sign)                        { return &Sign{} }
func (sec *SecretKey) GetPublicKey() (pub *PublicKey) {
	return &PublicKey{v: blob{b: make([]byte, 48)}}
}
func (sec *SecretKey) Sign(m string) (sig *Sign)        { return &Sign{v: blob{b: make([]byte, 96)}} }
func (sec *SecretKey) SignHash(hash []byte) (sig *Sign) { return &Sign{v: blob{b: make([]byte, 96)}} }

type PublicKey struct{ v blob }

func (pub *PublicKey) GetAddress() [20]byte { var a [20]byte; copy(a[:], pub.v.b); return a }
func (pub *PublicKey) Serialize() []byte    { return pub.v.ser() }
func (pub *PublicKey) Deserialize(buf []byte) error { return pub.v.de(buf, 48) }
func (pub *PublicKey) SerializeToHexStr() string    { return hex.EncodeToString(pub.v.b) }
func (pub *PublicKey) DeserializeHexStr(s string) error {
	a, err := hex.DecodeString(s)
	if err != nil {
		return err
	}
	return pub.Deserialize(a)
}
func (pub *PublicKey) IsEqual(rhs *PublicKey) bool { return rhs != nil && bytes.Equal(pub.v.b, rhs.v.b) }
func (pub *PublicKey) Add(rhs *PublicKey)          {}
func (pub *PublicKey) Sub(rhs *PublicKey)          {}
func (pub *PublicKey) Set(mpk []PublicKey, id *ID) error { return errStub }
func (pub *PublicKey) Recover(pubVec []PublicKey, idVec []ID) error { return errStub }

type Sign struct{ v blob }

func (sig *Sign) Serialize() []byte            { return sig.v.ser() }
func (sig *Sign) Deserialize(buf []byte) error { return sig.v.de(buf, 96) }
func (sig *Sign) SerializeToHexStr() string    { return hex.EncodeToString(sig.v.b) }
func (sig *Sign) DeserializeHexStr(s string) error {
	a, err := hex.DecodeString(s)
	if err != nil {
		return err
	}
	return sig.Deserialize(a)
}
func (sig *Sign) IsEqual(rhs *Sign) bool                      { return rhs != nil && bytes.Equal(sig.v.b, rhs.v.b) }
func (sig *Sign) Add(rhs *Sign)                               {}
func (sig *Sign) Recover(sigVec []Sign, idVec []ID) error     { return errStub }
func (sig *Sign) Verify(pub *PublicKey, m string) bool        { return false }
func (sig *Sign) VerifyPop(pub *PublicKey) bool               { return false }
func (sig *Sign) VerifyHash(pub *PublicKey, hash []byte) bool { return false }
func (sig *Sign) VerifyAggregateHashes(pubVec []PublicKey, hash [][]byte) bool { return false }

func DHKeyExchange(sec *SecretKey, pub *PublicKey) (out PublicKey) { return PublicKey{} }
func HashAndMapToSignature(buf []byte) *Sign                      { return &Sign{} }
func VerifyPairing(X *Sign, Y *Sign, pub *PublicKey) bool         { return false }
func SetRandFunc(randReader io.Reader)                            {}
