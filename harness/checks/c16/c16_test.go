// C16: block execution is deterministic — clock-skew differential re-execution and a call-site
// monitor for wall-clock / randomness APIs beneath NativeService.Invoke (see kit/detmon).
// This package only builds with the standard-library overlay (driver phase "overlay": true).
package c16

import (
	"fmt"
	"math/big"
	"math/rand"
	"testing"

	"verifharness/kit"
	"verifharness/kit/detmon"
	"verifharness/kit/pk"
	"verifharness/synth/ccmsynth"
	es "verifharness/synth/ethsynth"

	"github.com/polynetwork/poly/common"
	polyeth "github.com/polynetwork/poly/native/service/header_sync/eth"
	"github.com/polynetwork/poly/native/service/utils"
)

const day = int64(86400) * 1e9

func skews(r *kit.Run) []int64 {
	if r.Quick() {
		return []int64{400 * day, -400 * day, 0}
	}
	return []int64{400 * day, -400 * day, 3600e9, -3600e9, 30e9, -30e9, 3650 * day, 0}
}

func TestC16(t *testing.T) {
	r := kit.Start(t, "C16", "exploration")
	defer r.Finish()
	r.Rule("every native call of the workloads (governance, side-chain registry, relayers, vote-router imports, signature manager, fee updates, header sync + deposit imports of the eth / bsc / heco / hsc / pixie / bytom / msc / cosmos / ont / neo routers as available) is executed once per injected wall-clock skew on the same prior state and all executions are compared; distinct = (contract.method, outcome, #writes, #events) shapes + distinct call sites")
	r.Assume("reach is limited to the native entry points listed under native_entry_points_executed; code paths the workloads do not drive are not covered")
	r.Assume("time.Now/Since/Until and the global math/rand generator are observed through a standard-library overlay, crypto/rand through its exported Reader variable; math/rand/v2 and direct runtime clock reads are not observed")
	r.Assume("scheduling independence is not exercised separately: native contract execution is single-threaded in the workloads")
	m := detmon.Install(r, skews(r))
	defer m.Uninstall()
	polyeth.VerifSealBypass = true
	defer func() { polyeth.VerifSealBypass = false }()

	rounds := r.N(1, 6)
	for round := 0; round < rounds; round++ {
		govWorkload(t, r, r.Rand(fmt.Sprintf("gov/%d", round)))
		for _, name := range []string{"eth", "bsc", "heco", "hsc", "pixie", "bytom", "msc"} {
			evmWorkload(t, r, r.Rand(fmt.Sprintf("evm/%s/%d", name, round)), name, uint64(2000+round))
		}
		extraWorkloads(t, r, round)
	}
	m.Report()
	r.Eval(int(r.Get("executions_compared")))
	for k, v := range m.Entry {
		r.Distinct("entry", k)
		_ = v
	}
	r.Require("native_calls_monitored", 150)
	r.Require("successful_calls", 60)
	r.Require("failed_calls", 10)
	r.Sample(map[string]interface{}{"skews_ns": skews(r), "entry_points": m.Entry})
}

func note(r *kit.Run, rec interface {
}) {
}

// track classifies a call for the evidence.
func track(r *kit.Run, ok bool, method string, nw, nn int) {
	if ok {
		r.Count("successful_calls", 1)
	} else {
		r.Count("failed_calls", 1)
	}
	r.Distinct(method, ok, nw, nn)
}

func govWorkload(t *testing.T, r *kit.Run, rng *rand.Rand) {
	vals := pk.NewKeys(rng, 4+rng.Intn(4))
	owner := pk.NewKey(rng)
	w, err := ccmsynth.NewWorld(3, vals, owner)
	if err != nil {
		r.Inconclusive("gov world: " + err.Error())
		return
	}
	w.E.Record = true
	w.E.Height = 50
	// side chains of several routers (vote router needs no foreign data)
	for i, router := range []uint64{utils.VOTE_ROUTER, utils.VOTE_ROUTER, utils.ETH_ROUTER, utils.BSC_ROUTER, utils.COSMOS_ROUTER, utils.ONT_ROUTER} {
		spec := ccmsynth.ChainSpec{ID: uint64(10 + i), Router: router, Name: fmt.Sprintf("c%d", i), BlocksToWait: 1, CCMC: make([]byte, 20)}
		if err := w.RegisterAndApprove(spec); err != nil {
			r.Inconclusive("register: " + err.Error())
			return
		}
	}
	// relayers
	rel := pk.NewKeys(rng, 3)
	var addrs []common.Address
	for _, k := range rel {
		addrs = append(addrs, k.Addr)
	}
	if err := w.RegisterRelayers(owner, addrs, 0); err != nil {
		r.Count("gov_relayer_registration_failed", 1)
	}
	// vote-router imports: votes from validators and outsiders, repeats
	for i := 0; i < 6; i++ {
		cross := make([]byte, 8)
		rng.Read(cross)
		im := ccmsynth.Import{Source: 10, Height: uint32(100 + i), Param: ccmsynth.RandParam(rng, 11, cross)}
		for _, v := range w.Vals {
			w.Vote(im, v)
		}
		w.Vote(im, owner)     // outsider
		w.Vote(im, w.Vals[0]) // replay after release
	}
	// black / white
	w.Black(11)
	im := ccmsynth.Import{Source: 10, Height: 300, Param: ccmsynth.RandParam(rng, 11, []byte("blk"))}
	for _, v := range w.Vals {
		w.Vote(im, v)
	}
	w.White(11)
	for _, v := range w.Vals {
		w.Vote(im, v)
	}
	// validator set changes and epoch change
	nk := pk.NewKey(rng)
	if err := w.AddValidator(nk); err != nil {
		r.Count("gov_add_validator_failed", 1)
	}
	w.E.Height += 10
	if err := w.CommitDpos(); err != nil {
		r.Count("gov_commit_dpos_failed", 1)
	}
	if len(w.Vals) > 5 {
		w.RemoveValidator(w.Vals[len(w.Vals)-1])
		w.E.Height += 10
		w.CommitDpos()
	}
	// fee votes
	for _, v := range w.Vals {
		w.UpdateFee(v, 12, 0, big.NewInt(int64(1000+rng.Intn(5))))
	}
	// signatures collected by the signature manager
	subject := make([]byte, 40)
	rng.Read(subject)
	for _, v := range w.Vals {
		w.AddSignature(v, 12, subject, v.Sign(subject))
	}
	for _, rec := range w.E.Log {
		track(r, rec.Ok, rec.Method, len(rec.WriteSet), len(rec.Notify))
	}
}

func flavorOf(name string) *es.Flavor {
	for _, f := range append(append([]*es.Flavor{}, es.PoSAFlavors...), es.PoSAFlavorsB...) {
		if f.Name == name {
			return f
		}
	}
	return nil
}

const sealChainID = 56

// evmWorkload: register, trust root, a short chain with a fork, valid and invalid deposit imports.
func evmWorkload(t *testing.T, r *kit.Run, rng *rand.Rand, name string, chainID uint64) {
	e := es.NewEnv(rng, 3)
	e.Record = true
	const target = 900
	if err := e.RegisterSideChain(target, utils.ETH_ROUTER, "target", 1, make([]byte, 20), nil); err != nil {
		r.Inconclusive("register target: " + err.Error())
		return
	}
	var ccmc es.Addr
	rng.Read(ccmc[:])
	st := es.NewState(rng, ccmc, 5)
	p := es.RandTxParam(rng, target)
	slot := es.RandHash(rng)
	st.Commit(ccmc, slot, p.Serialize())
	root := st.Root()
	var heights []uint64
	if name == "eth" {
		if err := e.RegisterSideChain(chainID, utils.ETH_ROUTER, name, 1, ccmc[:], nil); err != nil {
			r.Inconclusive("register: " + err.Error())
			return
		}
		forks := es.ForksFor(e.NetID)
		g := es.NewRoot(rng, forks, 12000000, big.NewInt(1500000000000), 12000000)
		e.SyncGenesis(chainID, g.JSON())
		e.SyncGenesis(chainID, g.JSON()) // second installation attempt
		parent := g
		var second *es.Hdr
		for i := 0; i < 6; i++ {
			h := es.Child(rng, forks, parent, es.ChildOpt{Root: &root, Dt: uint64(10 + rng.Intn(5))})
			e.SyncHeaders(chainID, h.JSON())
			if i == 1 {
				second = parent
			}
			parent = h
			heights = append(heights, h.Number)
		}
		// a fork sibling and a header violating a rule
		if second != nil {
			f := es.Child(rng, forks, second, es.ChildOpt{Root: &root, Dt: 30})
			e.SyncHeaders(chainID, f.JSON())
		}
		bad := es.Child(rng, forks, parent, es.ChildOpt{Root: &root, Dt: 12})
		bad.Difficulty = new(big.Int).Add(bad.Difficulty, big.NewInt(1))
		e.SyncHeaders(chainID, bad.JSON())
	} else {
		f := flavorOf(name)
		if f == nil {
			r.Count("router_flavor_missing:"+name, 1)
			return
		}
		v := 1 + rng.Intn(4)
		c, gen := es.NewPoSAChain(rng, f, sealChainID, 1+rng.Intn(v), v, v, 6000000)
		if err := e.RegisterSideChain(chainID, f.Router, name, 1, ccmc[:], f.ExtraInfoJSONEpoch(sealChainID, c.Epoch)); err != nil {
			r.Inconclusive("register: " + err.Error())
			return
		}
		e.SyncGenesis(chainID, gen)
		e.SyncGenesis(chainID, gen)
		parent := c.M.Root
		for i := 0; i < 6; i++ {
			h := c.Next(rng, parent, es.HonestOpt{Root: &root})
			if h == nil {
				break
			}
			rec := e.SyncHeaders(chainID, h.JSON())
			if !rec.Ok {
				break
			}
			parent = c.M.Add(parent, h)
			heights = append(heights, h.Number)
		}
		// a header with a corrupted seal
		if h := c.Next(rng, parent, es.HonestOpt{Root: &root}); h != nil {
			h.Extra[len(h.Extra)-3] ^= 0x55
			e.SyncHeaders(chainID, h.JSON())
		}
	}
	if len(heights) >= 2 {
		pr := st.Prove(ccmc, slot)
		e.Import(chainID, uint32(heights[0]), pr.JSON(), p.Serialize())   // valid
		e.Import(chainID, uint32(heights[0]), pr.JSON(), p.Serialize())   // replay
		e.Import(chainID, uint32(heights[0])-50, pr.JSON(), p.Serialize()) // below the trust root
		bp := pr.Clone()
		q := es.RandTxParam(rng, target)
		e.Import(chainID, uint32(heights[1]), bp.JSON(), q.Serialize()) // message not committed
	}
	for _, rec := range e.Log {
		track(r, rec.Ok, name+":"+rec.Method, len(rec.WriteSet), len(rec.Notify))
	}
	r.Count("router_workload:"+name, 1)
}
