// Package kit is the shared runtime-monitoring plumbing of /verif: seeded PRNG, evidence
// accounting, violation / known-finding reporting and replay files.
//
// Every check is a Go test that does
//
//	r := kit.Start(t, "C03", "exploration")
//	defer r.Finish()
//
// and reports what its monitors observed through r. All methods are safe for concurrent use.
package kit

import (
	"crypto/sha256"
	"encoding/hex"
	"encoding/json"
	"fmt"
	"io/ioutil"
	"math/rand"
	"os"
	"path/filepath"
	"sort"
	"strconv"
	"strings"
	"sync"
	"testing"
	"time"
)

// Run accumulates what one execution of a check observed.
type Run struct {
	T     *testing.T
	ID    string
	Level string
	Tier  string
	Seed  int64

	mu          sync.Mutex
	start       time.Time
	evals       int64
	distinct    map[[12]byte]struct{}
	counters    map[string]int64
	samples     []interface{}
	maxSamples  int
	assumptions []string
	rule        string
	exhaustive  bool
	violations  int
	known       map[string]int
	requires    map[string]int64
	extra       map[string]interface{}
	findings    []finding
	replayN     int
	finished    bool
	inconcl     []string
	vioKeys     map[string]bool
	vioKeyN     map[string]int
}

type finding struct {
	Property string `json:"property"`
	Kind     string `json:"kind"`
	Key      string `json:"key"`
	What     string `json:"what"`
	Commit   string `json:"commit,omitempty"`
}

// VerifDir is /verif (overridable for vp-run snapshots through VERIF_DIR).
func VerifDir() string {
	if d := os.Getenv("VERIF_DIR"); d != "" {
		return d
	}
	return "/verif"
}

// Start begins a check run. Tier and seed come from VERIF_TIER / VERIF_SEED.
func Start(t *testing.T, id, level string) *Run {
	r := &Run{T: t, ID: id, Level: level, Tier: "quick", Seed: 1, start: time.Now(),
		distinct: map[[12]byte]struct{}{}, counters: map[string]int64{}, maxSamples: 6,
		known: map[string]int{}, requires: map[string]int64{}, extra: map[string]interface{}{},
		vioKeys: map[string]bool{}, vioKeyN: map[string]int{}}
	if v := os.Getenv("VERIF_TIER"); v == "thorough" {
		r.Tier = "thorough"
	}
	if v := os.Getenv("VERIF_SEED"); v != "" {
		if n, err := strconv.ParseInt(v, 10, 64); err == nil {
			r.Seed = n
		}
	}
	b, err := ioutil.ReadFile(filepath.Join(VerifDir(), "known_findings.json"))
	if err == nil {
		var all []finding
		if err := json.Unmarshal(b, &all); err != nil {
			t.Fatalf("known_findings.json: %v", err)
		}
		for _, f := range all {
			if f.Property == id {
				r.findings = append(r.findings, f)
			}
		}
	}
	return r
}

// Quick reports whether this is the quick tier.
func (r *Run) Quick() bool { return r.Tier != "thorough" }

// N picks a case count by tier.
func (r *Run) N(quick, thorough int) int {
	if r.Quick() {
		return quick
	}
	return thorough
}

// Rand returns a PRNG that is a function of (seed, stream) only.
func (r *Run) Rand(stream string) *rand.Rand {
	h := sha256.Sum256([]byte(fmt.Sprintf("%s/%d/%s", r.ID, r.Seed, stream)))
	var s int64
	for i := 0; i < 8; i++ {
		s = s<<8 | int64(h[i])
	}
	return rand.New(rand.NewSource(s))
}

// Eval counts n executed cases.
func (r *Run) Eval(n int) {
	r.mu.Lock()
	r.evals += int64(n)
	r.mu.Unlock()
}

// Distinct records a case fingerprint; distinct_nontrivial is the number of different keys seen.
func (r *Run) Distinct(parts ...interface{}) {
	h := sha256.Sum256([]byte(fmt.Sprint(parts...)))
	var k [12]byte
	copy(k[:], h[:12])
	r.mu.Lock()
	r.distinct[k] = struct{}{}
	r.mu.Unlock()
}

// Count adds n to a named observation counter (reported under coverage).
func (r *Run) Count(name string, n int) {
	r.mu.Lock()
	r.counters[name] += int64(n)
	r.mu.Unlock()
}

// Get returns a counter value.
func (r *Run) Get(name string) int64 {
	r.mu.Lock()
	defer r.mu.Unlock()
	return r.counters[name]
}

// Require declares that counter name must reach min by Finish, else the run is inconclusive.
func (r *Run) Require(name string, min int) {
	r.mu.Lock()
	r.requires[name] = int64(min)
	r.mu.Unlock()
}

// Sample keeps up to a handful of literal cases for the evidence file.
func (r *Run) Sample(v interface{}) {
	r.mu.Lock()
	if len(r.samples) < r.maxSamples {
		r.samples = append(r.samples, v)
	}
	r.mu.Unlock()
}

// Rule states how cases are generated and what makes them distinct.
func (r *Run) Rule(s string) { r.mu.Lock(); r.rule = s; r.mu.Unlock() }

// Exhaustive marks that a declared finite space was enumerated completely.
func (r *Run) Exhaustive(b bool) { r.mu.Lock(); r.exhaustive = b; r.mu.Unlock() }

// Assume records an assumption / trusted-base statement.
func (r *Run) Assume(s string) {
	r.mu.Lock()
	for _, a := range r.assumptions {
		if a == s {
			r.mu.Unlock()
			return
		}
	}
	r.assumptions = append(r.assumptions, s)
	r.mu.Unlock()
}

// Set stores an extra coverage key.
func (r *Run) Set(key string, v interface{}) { r.mu.Lock(); r.extra[key] = v; r.mu.Unlock() }

// Inconclusive marks the run as inconclusive (exit 2) with a reason.
func (r *Run) Inconclusive(why string) {
	r.mu.Lock()
	r.inconcl = append(r.inconcl, why)
	r.mu.Unlock()
}

// Violation reports an observed violation. key is a stable identifier of the failing input shape
// / call site / history (matched against known_findings.json); replay is any JSON-able value that
// lets a reader (and --replay) reproduce the case. Returns true if it was a new violation, false
// if it is a listed known finding.
func (r *Run) Violation(key, what string, replay interface{}) bool {
	r.mu.Lock()
	defer r.mu.Unlock()
	for _, f := range r.findings {
		if f.Kind == "known" && f.Key == key {
			if r.known[key] == 0 {
				fmt.Printf("KNOWN-FINDING: property=%s %s [key=%s] observed: %s\n", r.ID, f.What, key, oneLine(what))
			}
			r.known[key]++
			return false
		}
	}
	r.violations++
	// at most 3 reports per key and 120 reports in total, so that one noisy defect cannot hide a
	// different one; everything is still counted
	r.vioKeyN[key]++
	if r.vioKeyN[key] > 3 || r.replayN >= 120 {
		return true
	}
	r.vioKeys[key] = true
	r.replayN++
	dir := filepath.Join(VerifDir(), "replays")
	os.MkdirAll(dir, 0755)
	path := filepath.Join(dir, fmt.Sprintf("%s-%s-%d-%d.json", r.ID, r.Tier, r.Seed, r.replayN))
	doc := map[string]interface{}{"property": r.ID, "key": key, "what": what, "seed": r.Seed, "tier": r.Tier, "case": replay}
	b, err := json.MarshalIndent(doc, "", " ")
	if err != nil {
		b = []byte(fmt.Sprintf("{\"property\":%q,\"key\":%q,\"what\":%q,\"case\":%q}", r.ID, key, what, fmt.Sprintf("%+v", replay)))
	}
	ioutil.WriteFile(path, b, 0644)
	fmt.Printf("VIOLATION property=%s replay=%s\n", r.ID, path)
	fmt.Printf("  key=%s what=%s\n", key, oneLine(what))
	return true
}

func oneLine(s string) string {
	s = strings.Replace(s, "\n", " | ", -1)
	if len(s) > 600 {
		s = s[:600] + "…"
	}
	return s
}

// Violations returns the number of new (not known) violations so far.
func (r *Run) Violations() int { r.mu.Lock(); defer r.mu.Unlock(); return r.violations }

// Finish writes the evidence file and fails the test on violations / inconclusive runs.
func (r *Run) Finish() {
	r.mu.Lock()
	if r.finished {
		r.mu.Unlock()
		return
	}
	r.finished = true
	for name, min := range r.requires {
		if r.counters[name] < min {
			r.inconcl = append(r.inconcl, fmt.Sprintf("observed %s=%d < required %d", name, r.counters[name], min))
		}
	}
	// fixed findings that are listed but did not recur are fine; known findings that no longer
	// fire are reported as a note (not an error: the tree may have been repaired).
	for _, f := range r.findings {
		if f.Kind == "known" && r.known[f.Key] == 0 {
			fmt.Printf("NOTE: known finding not observed in this run: property=%s key=%s\n", r.ID, f.Key)
		}
	}
	cov := map[string]interface{}{}
	for k, v := range r.extra {
		cov[k] = v
	}
	names := make([]string, 0, len(r.counters))
	for k := range r.counters {
		names = append(names, k)
	}
	sort.Strings(names)
	obs := map[string]int64{}
	for _, k := range names {
		obs[k] = r.counters[k]
	}
	cov["observed"] = obs
	cov["evaluations"] = r.evals
	cov["distinct_nontrivial"] = len(r.distinct)
	cov["rule"] = r.rule
	if len(r.samples) == 0 {
		cov["samples"] = []interface{}{}
	} else {
		cov["samples"] = r.samples
	}
	cov["exhaustive"] = r.exhaustive
	kf := map[string]int{}
	for k, v := range r.known {
		kf[k] = v
	}
	cov["known_findings_matched"] = kf
	vk := map[string]int{}
	for k, v := range r.vioKeyN {
		vk[k] = v
	}
	cov["violations_by_key"] = vk
	verdict := "held"
	if r.violations > 0 {
		verdict = "violated"
	} else if len(r.inconcl) > 0 {
		verdict = "inconclusive"
	}
	cov["verdict"] = verdict
	if len(r.inconcl) > 0 {
		cov["inconclusive_reasons"] = r.inconcl
	}
	ev := map[string]interface{}{
		"property_id": r.ID, "tier": r.Tier, "seed": r.Seed, "level": r.Level,
		"coverage": cov, "assumptions": r.assumptions, "wall_s": time.Since(r.start).Seconds(),
		"violations": r.violations,
	}
	if r.assumptions == nil {
		ev["assumptions"] = []string{}
	}
	b, err := json.MarshalIndent(ev, "", " ")
	if err != nil {
		// a sample that cannot be marshalled must not lose the evidence
		cov["samples"] = []interface{}{fmt.Sprintf("%+v", r.samples)}
		b, _ = json.MarshalIndent(ev, "", " ")
	}
	dir := os.Getenv("VERIF_EVIDENCE_DIR")
	if dir == "" {
		dir = filepath.Join(VerifDir(), "evidence")
	}
	os.MkdirAll(dir, 0755)
	ioutil.WriteFile(filepath.Join(dir, r.ID+".json"), b, 0644)
	fmt.Printf("SUMMARY property=%s tier=%s seed=%d verdict=%s evaluations=%d distinct=%d violations=%d known=%d wall=%.1fs\n",
		r.ID, r.Tier, r.Seed, verdict, r.evals, len(r.distinct), r.violations, len(r.known), time.Since(r.start).Seconds())
	for _, k := range names {
		fmt.Printf("  observed %s=%d\n", k, r.counters[k])
	}
	inc := append([]string(nil), r.inconcl...)
	vio := r.violations
	r.mu.Unlock()
	for _, w := range inc {
		fmt.Printf("INCONCLUSIVE property=%s why=%s\n", r.ID, w)
	}
	if vio > 0 {
		r.T.Errorf("%d violation(s)", vio)
	} else if len(inc) > 0 {
		r.T.Errorf("inconclusive")
	}
}

// Hex is a convenience for samples / replays.
func Hex(b []byte) string { return hex.EncodeToString(b) }

// Catch runs f and converts a Go panic into an error string (nil = no panic).
func Catch(f func()) (panicked interface{}) {
	defer func() {
		if e := recover(); e != nil {
			panicked = e
		}
	}()
	f()
	return nil
}

// LastCase writes the case about to be executed to $VERIF_LASTCASE so that a process-fatal error
// (out of memory, checkptr, concurrent map write) still leaves the witness on disk.
func LastCase(id string, data []byte) {
	p := os.Getenv("VERIF_LASTCASE")
	if p == "" {
		return
	}
	ioutil.WriteFile(p, []byte(id+"\n"+hex.EncodeToString(data)+"\n"), 0644)
}
