#!/usr/bin/env python3
"""Regenerate /verif/harness/go.mod and go.sum from /repo/go.mod and /repo/go.sum.

The harness is the main module of every build; polynetwork/poly is replaced by /repo (so every
build compiles /repo's current working tree) and the cgo BLS binding by a pure-Go stub.
Idempotent: files are only rewritten when their content changes (keeps the build cache warm).
"""
import os, re, sys

VERIF = os.path.dirname(os.path.dirname(os.path.abspath(__file__)))
REPO = os.environ.get("VERIF_REPO", "/repo")
H = os.path.join(VERIF, "harness")

EXTRA_SUM = """github.com/anishathalye/porcupine v1.3.0 h1:yo51Niv8Tg0tAAn5XOG2UVvJXUregK4WFuLrBRoowP8=
github.com/anishathalye/porcupine v1.3.0/go.mod h1:WM0SsFjWNl2Y4BqHr/E/ll2yY1GY1jqn+W7Z/84Zoog=
"""


def write_if_changed(path, content):
    try:
        with open(path) as f:
            if f.read() == content:
                return
    except FileNotFoundError:
        pass
    with open(path, "w") as f:
        f.write(content)


def main():
    global H
    outdir = sys.argv[1] if len(sys.argv) > 1 else H
    stub = os.path.join(H, "stubs", "bls")
    gm = open(os.path.join(REPO, "go.mod")).read()
    m = re.search(r"^replace\s*\((.*?)^\)", gm, re.S | re.M)
    repl = m.group(1) if m else ""
    singles = re.findall(r"^replace\s+([^\(\n]+)$", gm, re.M)
    out = [
        "module verifharness",
        "",
        "go 1.14",
        "",
        "require (",
        "\tgithub.com/anishathalye/porcupine v1.3.0",
        "\tgithub.com/polynetwork/poly v0.0.0",
        ")",
        "",
        "replace github.com/polynetwork/poly => " + REPO,
        "",
        "replace github.com/harmony-one/bls => " + stub,
        "",
        "replace (" + repl + ")",
        "",
    ]
    for s in singles:
        out.append("replace " + s.strip())
    write_if_changed(os.path.join(outdir, "go.mod"), "\n".join(out) + "\n")
    gs = open(os.path.join(REPO, "go.sum")).read()
    if not gs.endswith("\n"):
        gs += "\n"
    write_if_changed(os.path.join(outdir, "go.sum"), gs + EXTRA_SUM)


if __name__ == "__main__":
    main()
