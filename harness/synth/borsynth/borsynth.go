// Package borsynth builds Polygon BOR light-client data that the real handler
// (native/service/header_sync/polygon) accepts: really sealed bor headers (secp256k1 seal in
// Extra, difficulty / delay by producer succession, producer sets announced by sprint-end headers)
// and heimdall span proofs (a real cosmos-sdk multistore with a "bor" store whose app hash is
// carried by a heimdall header signed by generated validators).
//
// The wire types and the producer-priority arithmetic exist only inside poly, so they are used
// here to ENCODE an honest chain (the same role hmsynth has for heimdall headers). Whether the
// honest chain is accepted is therefore not an independent verdict about proposer selection;
// verdicts built on this package must be differential (two headers that differ in one attribute).
package borsynth

import (
	"bytes"
	"crypto/ecdsa"
	"encoding/json"
	"fmt"
	"math/big"
	"math/rand"
	"sort"
	"strconv"
	"time"

	ecommon "github.com/ethereum/go-ethereum/common"
	"github.com/ethereum/go-ethereum/core/types"
	"github.com/ethereum/go-ethereum/crypto"
	"github.com/ethereum/go-ethereum/rlp"
	polyeth "github.com/polynetwork/poly/native/service/header_sync/eth"
	"github.com/polynetwork/poly/native/service/header_sync/polygon"
	ptypes "github.com/polynetwork/poly/native/service/header_sync/polygon/types"
	"github.com/tendermint/tendermint/crypto/merkle"
	"github.com/tendermint/tendermint/version"

	"verifharness/synth/hmsynth"
)

const (
	Vanity = 32
	Seal   = 65
)

// Producer is one bor block producer.
type Producer struct {
	Key   *ecdsa.PrivateKey
	Addr  ecommon.Address
	Pub   []byte // 65-byte uncompressed public key
	Power int64
	ID    uint64
}

// NewProducers derives n producers (powers 1..maxPower) from the PRNG.
func NewProducers(rng *rand.Rand, n int, maxPower int64, firstID uint64) []*Producer {
	out := make([]*Producer, 0, n)
	for len(out) < n {
		d := make([]byte, 32)
		rng.Read(d)
		k, err := crypto.ToECDSA(d)
		if err != nil {
			continue
		}
		out = append(out, &Producer{Key: k, Addr: crypto.PubkeyToAddress(k.PublicKey), Pub: crypto.FromECDSAPub(&k.PublicKey),
			Power: 1 + rng.Int63n(maxPower), ID: firstID + uint64(len(out))})
	}
	return out
}

// WithPower returns a copy of p with another voting power (same key).
func (p *Producer) WithPower(power int64) *Producer {
	q := *p
	q.Power = power
	return &q
}

// Validators converts producers to bor validators (zero priorities).
func Validators(ps []*Producer) []*polygon.Validator {
	out := make([]*polygon.Validator, len(ps))
	for i, p := range ps {
		out[i] = &polygon.Validator{ID: p.ID, Address: p.Addr, VotingPower: p.Power}
	}
	return out
}

// Announce is the producer list of a sprint-end header: 40 bytes (address, 20-byte big-endian
// power) per producer in ascending address order.
func Announce(ps []*Producer) []byte {
	s := append([]*Producer{}, ps...)
	sort.Slice(s, func(i, j int) bool { return bytes.Compare(s[i].Addr[:], s[j].Addr[:]) < 0 })
	var out []byte
	for _, p := range s {
		out = append(out, p.Addr[:]...)
		pw := make([]byte, 20)
		b := big.NewInt(p.Power).Bytes()
		copy(pw[20-len(b):], b)
		out = append(out, pw...)
	}
	return out
}

// Params are the consensus parameters of one bor chain (the side chain's ExtraInfo).
type Params struct {
	Sprint, Period, ProducerDelay, BackupMultiplier uint64
}

// ExtraInfo is the side-chain ExtraInfo JSON.
func (p Params) ExtraInfo(heimdallPolyChainID uint64) []byte {
	b, err := json.Marshal(polygon.ExtraInfo{Sprint: p.Sprint, Period: p.Period, ProducerDelay: p.ProducerDelay,
		BackupMultiplier: p.BackupMultiplier, HeimdallPolyChainID: heimdallPolyChainID})
	if err != nil {
		panic(err)
	}
	return b
}

// Node is one header of the modelled chain together with the producer snapshot that rules it.
type Node struct {
	H      *polyeth.Header
	Hash   ecommon.Hash
	Parent *Node
	Snap   *polygon.Snapshot // producer set (with priorities) in force for H
}

// Number is the block number.
func (n *Node) Number() uint64 { return n.H.Number.Uint64() }

// Chain is the builder's view of one bor chain.
type Chain struct {
	P       Params
	Keys    map[ecommon.Address]*Producer
	Genesis *Node
}

func reload(s *polygon.Snapshot) *polygon.Snapshot {
	// the contract keeps snapshots as JSON inside the stored header: go through the same encoding
	b, err := json.Marshal(s)
	if err != nil {
		panic(err)
	}
	out := &polygon.Snapshot{}
	if err := json.Unmarshal(b, out); err != nil {
		panic(err)
	}
	return out
}

func randHash(rng *rand.Rand) (h ecommon.Hash) { rng.Read(h[:]); return }

func blank(rng *rand.Rand, number, t uint64) *polyeth.Header {
	return &polyeth.Header{ParentHash: randHash(rng), UncleHash: types.CalcUncleHash(nil), Root: randHash(rng), TxHash: randHash(rng),
		ReceiptHash: randHash(rng), Difficulty: big.NewInt(1), Number: new(big.Int).SetUint64(number), GasLimit: 20000000,
		GasUsed: uint64(rng.Intn(1000000)), Time: t, Extra: make([]byte, Vanity+Seal)}
}

// NewChain makes a chain whose trusted header has the given number (a sprint start, so that no
// producer announcement is needed in it) and the given first producers; it returns the genesis
// argument of syncGenesisHeader.
func NewChain(rng *rand.Rand, p Params, number, t uint64, first []*Producer) (*Chain, []byte) {
	if number%p.Sprint != 0 {
		panic("borsynth: genesis number must be a sprint start")
	}
	c := &Chain{P: p, Keys: map[ecommon.Address]*Producer{}}
	c.Learn(first)
	h := blank(rng, number, t)
	rng.Read(h.Extra[:Vanity])
	snap := &polygon.Snapshot{Hash: h.Hash(), ValidatorSet: polygon.NewValidatorSet(Validators(first))}
	b, err := json.Marshal(polygon.HeaderWithOptionalSnap{Header: *h, Snapshot: snap})
	if err != nil {
		panic(err)
	}
	c.Genesis = &Node{H: h, Hash: h.Hash(), Snap: reload(snap)}
	return c, b
}

// Learn makes the keys of ps available for sealing.
func (c *Chain) Learn(ps []*Producer) {
	for _, p := range ps {
		c.Keys[p.Addr] = p
	}
}

func find(l []*polygon.Validator, a ecommon.Address) *polygon.Validator {
	for _, v := range l {
		if v.Address == a {
			return v
		}
	}
	return nil
}

// SnapFor is the producer snapshot ruling a child of parent: unchanged inside a sprint; at a
// sprint start the producers announced by the parent replace the set (powers of the old members
// are updated or zeroed, new members are added) and the proposer priority advances once.
func (c *Chain) SnapFor(parent *Node) *polygon.Snapshot {
	number := parent.Number() + 1
	if number%c.P.Sprint != 0 {
		return parent.Snap
	}
	ann := parent.H.Extra[Vanity : len(parent.H.Extra)-Seal]
	newVals, err := polygon.ParseValidators(ann)
	if err != nil {
		panic(err)
	}
	loaded := reload(parent.Snap).ValidatorSet
	loaded.TotalVotingPower() // the contract totals the stored set when it loads it, i.e. before the update below
	v := loaded.Copy()
	var changes []*polygon.Validator
	for _, ov := range v.Validators {
		if f := find(newVals, ov.Address); f != nil {
			ov.VotingPower = f.VotingPower
		} else {
			ov.VotingPower = 0
		}
		changes = append(changes, ov)
	}
	for _, nv := range newVals {
		if find(changes, nv.Address) == nil {
			changes = append(changes, nv)
		}
	}
	v.UpdateWithChangeSet(changes)
	v.IncrementProposerPriority(1)
	return reload(&polygon.Snapshot{ValidatorSet: v})
}

// Order lists the producers of a snapshot by succession: [0] is in turn, [1] the first backup ...
func Order(s *polygon.Snapshot) []ecommon.Address {
	vs := s.ValidatorSet.Validators
	out := make([]ecommon.Address, len(vs))
	for _, v := range vs {
		n, err := s.GetSignerSuccessionNumber(v.Address)
		if err != nil {
			panic(err)
		}
		out[n] = v.Address
	}
	return out
}

// IsSprintEnd reports whether a header with this number announces producers.
func (c *Chain) IsSprintEnd(number uint64) bool { return (number+1)%c.P.Sprint == 0 }

// Opt shapes one child header. The zero value gives the honest in-turn header at the earliest time.
type Opt struct {
	Succession int         // 0 = in turn, k = k-th backup (modulo the set size)
	Sealer     *Producer   // seal with this key instead (Succession still selects difficulty / delay)
	Announce   []*Producer // sprint-end header: the announced producers
	RawExtra   []byte      // explicit bytes between vanity and seal (overrides Announce)
	DiffDelta  int64       // added to the difficulty
	Early      uint64      // seconds BEFORE the earliest admissible time
	Late       uint64      // seconds after it
	BaseFee    *big.Int
}

// Next builds and seals a child of parent.
func (c *Chain) Next(rng *rand.Rand, parent *Node, o Opt) *Node {
	number := parent.Number() + 1
	snap := c.SnapFor(parent)
	order := Order(snap)
	succ := o.Succession % len(order)
	signer := order[succ]
	delay := c.P.Period
	if number%c.P.Sprint == 0 {
		delay = c.P.ProducerDelay
	}
	delay += uint64(succ) * c.P.BackupMultiplier
	if delay < c.P.Period {
		delay = c.P.Period
	}
	h := blank(rng, number, parent.H.Time+delay+o.Late-o.Early)
	h.ParentHash = parent.Hash
	h.Difficulty = big.NewInt(int64(len(order)-succ) + o.DiffDelta)
	h.BaseFee = o.BaseFee
	mid := o.RawExtra
	if mid == nil && o.Announce != nil {
		mid = Announce(o.Announce)
	}
	extra := make([]byte, Vanity, Vanity+len(mid)+Seal)
	rng.Read(extra)
	extra = append(extra, mid...)
	h.Extra = append(extra, make([]byte, Seal)...)
	key := o.Sealer
	if key == nil {
		key = c.Keys[signer]
		if key == nil {
			panic(fmt.Sprintf("borsynth: no key for producer %x", signer))
		}
	}
	SealHeader(h, key.Key)
	return &Node{H: h, Hash: h.Hash(), Parent: parent, Snap: snap}
}

// SealHash is bor's seal hash: keccak256(rlp(header fields with the extra data cut before the
// seal [, base fee])).
func SealHash(h *polyeth.Header) (out ecommon.Hash) {
	enc := []interface{}{h.ParentHash, h.UncleHash, h.Coinbase, h.Root, h.TxHash, h.ReceiptHash, h.Bloom, h.Difficulty, h.Number,
		h.GasLimit, h.GasUsed, h.Time, h.Extra[:len(h.Extra)-Seal], h.MixDigest, h.Nonce}
	if h.BaseFee != nil {
		enc = append(enc, h.BaseFee)
	}
	b, err := rlp.EncodeToBytes(enc)
	if err != nil {
		panic(err)
	}
	copy(out[:], crypto.Keccak256(b))
	return
}

// SealHeader writes key's signature of the seal hash into the last 65 bytes of Extra.
func SealHeader(h *polyeth.Header, key *ecdsa.PrivateKey) {
	sig, err := crypto.Sign(SealHash(h).Bytes(), key)
	if err != nil {
		panic(err)
	}
	copy(h.Extra[len(h.Extra)-Seal:], sig)
}

// Wire is one element of syncBlockHeader's header list.
func Wire(n *Node, proof []byte) []byte {
	b, err := json.Marshal(polygon.HeaderWithOptionalProof{Header: *n.H, Proof: proof})
	if err != nil {
		panic(err)
	}
	return b
}

// ---- heimdall side ----

// Span is a heimdall span record.
type Span struct {
	ID, Start, End uint64
	Producers      []*Producer // selected producers
	Validators     []*Producer // heimdall validator set recorded in the span (proposer = first)
	BorChainID     string
}

func hmVal(p *Producer) ptypes.HeimdallValidator {
	return ptypes.HeimdallValidator{ID: ptypes.ValidatorID(p.ID), StartEpoch: 1, Nonce: 1, VotingPower: p.Power, PubKey: string(p.Pub),
		Signer: string(p.Addr[:]), LastUpdated: "1"}
}

// Value is the record heimdall keeps for the span (amino, bare).
func (s *Span) Value() []byte {
	hs := ptypes.HeimdallSpan{ID: s.ID, StartBlock: s.Start, EndBlock: s.End, BorChainId: s.BorChainID}
	vals := s.Validators
	if len(vals) == 0 {
		vals = s.Producers
	}
	for _, p := range vals {
		v := hmVal(p)
		hs.ValidatorSet.Validators = append(hs.ValidatorSet.Validators, &v)
		hs.ValidatorSet.TotalVotingPower += p.Power
	}
	pr := hmVal(vals[0])
	hs.ValidatorSet.Proposer = &pr
	for _, p := range s.Producers {
		hs.SelectedProducers = append(hs.SelectedProducers, hmVal(p))
	}
	return ptypes.NewCDC().MustMarshalBinaryBare(hs)
}

// Key is the key of the span record in heimdall's "bor" store (prefix 0x36, decimal id).
func (s *Span) Key() []byte { return SpanKey(s.ID) }

// SpanKey is the store key of span id.
func SpanKey(id uint64) []byte {
	return append([]byte{0x36}, []byte(strconv.FormatUint(id, 10))...)
}

// Header builds a heimdall header at height with the given app hash, signed (honest precommits)
// by the validators whose index-order position is in signers.
func Header(chainID string, height int64, vs []*hmsynth.Val, nextHash, appHash []byte, signers map[int]bool) polygon.CosmosHeader {
	ord := hmsynth.Order(vs)
	set := hmsynth.Set(vs)
	h := ptypes.Header{
		Version: version.Consensus{Block: 10}, ChainID: chainID, Height: height, Time: time.Unix(1600000000+height*5, 0).UTC(),
		NumTxs: 1, TotalTxs: height,
		LastBlockID:    ptypes.BlockID{Hash: bytes.Repeat([]byte{1}, 32), PartsHeader: ptypes.PartSetHeader{Total: 1, Hash: bytes.Repeat([]byte{2}, 32)}},
		LastCommitHash: bytes.Repeat([]byte{3}, 32), DataHash: bytes.Repeat([]byte{4}, 32),
		ValidatorsHash: set.Hash(), NextValidatorsHash: nextHash, ConsensusHash: bytes.Repeat([]byte{5}, 32),
		AppHash: appHash, LastResultsHash: bytes.Repeat([]byte{7}, 32), EvidenceHash: bytes.Repeat([]byte{8}, 32),
		ProposerAddress: ord[0].Val.Address,
	}
	bid := ptypes.BlockID{Hash: h.Hash(), PartsHeader: ptypes.PartSetHeader{Total: 1, Hash: bytes.Repeat([]byte{9}, 32)}}
	pre := make([]*ptypes.CommitSig, len(ord))
	for i := range ord {
		if !signers[i] {
			continue
		}
		v := &ptypes.Vote{Type: ptypes.PrecommitType, Height: height, Round: 0, BlockID: bid, Timestamp: h.Time.Add(time.Duration(i+1) * time.Millisecond),
			ValidatorAddress: ord[i].Val.Address, ValidatorIndex: i}
		sig, err := ord[i].Priv.Sign(v.SignBytes(chainID))
		if err != nil {
			panic(err)
		}
		v.Signature = sig[:64]
		cs := ptypes.CommitSig(*v)
		pre[i] = &cs
	}
	var vl []*ptypes.Validator
	for _, v := range ord {
		vl = append(vl, v.Val.Copy())
	}
	return polygon.CosmosHeader{Header: h, Commit: &ptypes.Commit{BlockID: bid, Precommits: pre}, Valsets: vl}
}

// All is the signer selection "every validator".
func All(vs []*hmsynth.Val) map[int]bool {
	m := map[int]bool{}
	for i := range vs {
		m[i] = true
	}
	return m
}

// EncodeHeader is the wire form of a heimdall header (syncGenesisHeader / syncBlockHeader).
func EncodeHeader(h polygon.CosmosHeader) []byte { return ptypes.NewCDC().MustMarshalBinaryBare(h) }

// Proof is the wire form of a span proof carried by a sprint-end header.
func Proof(keyPath string, value []byte, proof *merkle.Proof, hdr polygon.CosmosHeader) []byte {
	return ptypes.NewCDC().MustMarshalBinaryBare(polygon.CosmosProof{Value: polygon.CosmosProofValue{Kp: keyPath, Value: value}, Proof: *proof, Header: hdr})
}
