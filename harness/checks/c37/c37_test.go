// C37: transaction-pool bookkeeping is consistent under concurrency.
//
// Pool level: G goroutines drive the real txnpool/common.TXPool; every client call is recorded at the
// client boundary {client, op, args, t_call, result, t_return} from one monotonic clock; each history
// is checked by porcupine against a sequential set model written from the property statement whose
// Step validates the nondeterministic outputs (GetTxPool). Server level: see server_test.go.
package c37

import (
	"fmt"
	"hash/fnv"
	"math/rand"
	"os"
	"runtime"
	"sort"
	"sync"
	"testing"
	"time"

	"github.com/anishathalye/porcupine"

	"verifharness/kit"
	"verifharness/kit/pk"

	pcom "github.com/polynetwork/poly/common"
	"github.com/polynetwork/poly/common/config"
	"github.com/polynetwork/poly/core/types"
	tc "github.com/polynetwork/poly/txnpool/common"
	vt "github.com/polynetwork/poly/validator/types"
)

const maxKeys = 64

// ---- sequential specification (written from the property statement) ---------------------------

type slot struct {
	present bool
	uid, h  uint32 // uid: unique id of the AddTxList call that wrote the entry; h: stateful height
}

type fullState [maxKeys]slot

const (
	opAdd = iota
	opDel
	opGet
	opStatus
	opCount
	opGetPool
	opUnverified
	opClean
	opRemain
	nOpKinds
)

var opNames = [...]string{"AddTxList", "DelTxList", "GetTransaction", "GetTxStatus", "GetTransactionCount",
	"GetTxPool", "GetUnverifiedTxs", "CleanTransactionList", "Remain"}

type opIn struct {
	Kind    int
	Key     int    // single-key ops
	UID, H  uint32 // Add: written value; GetTxPool/GetUnverifiedTxs: requested height
	ByCount bool
	Keys    []int // list ops
	MaxTx   int   // config MaxTxInBlock in force during the history
}

type ent struct {
	Key    int
	UID, H uint32
}

type opOut struct {
	Ok     bool
	UID, H uint32
	N      int
	Ents   []ent
	Old    []int
	Unv    []int
	Rem    []int
	Bad    string // malformed result (foreign / nil entry): never acceptable
}

func stepFull(st fullState, in *opIn, out *opOut) (bool, fullState) {
	if out.Bad != "" {
		return false, st
	}
	switch in.Kind {
	case opAdd:
		// the pool never holds two transactions with the same hash
		p := st[in.Key].present
		if out.Ok == p {
			return false, st
		}
		if !p {
			st[in.Key] = slot{true, in.UID, in.H}
		}
		return true, st
	case opDel:
		p := st[in.Key].present
		if out.Ok != p {
			return false, st
		}
		st[in.Key] = slot{}
		return true, st
	case opGet:
		return out.Ok == st[in.Key].present, st
	case opStatus:
		s := st[in.Key]
		if out.Ok != s.present {
			return false, st
		}
		if s.present && (out.UID != s.uid || out.H != s.h) {
			return false, st
		}
		return true, st
	case opCount:
		n := 0
		for i := range st {
			if st[i].present {
				n++
			}
		}
		return out.N == n, st
	case opGetPool:
		limit := int(^uint(0) >> 1)
		if in.ByCount && in.MaxTx > 0 {
			limit = in.MaxTx
		}
		// at most the configured number
		if len(out.Ents) > limit {
			return false, st
		}
		var seen [maxKeys]bool
		for _, e := range out.Ents {
			s := st[e.Key]
			// every handed-out entry is currently in the pool (the very entry that was added) and
			// verified at or after the requested height; no entry twice
			if seen[e.Key] || !s.present || s.uid != e.UID || s.h != e.H || s.h < in.H {
				return false, st
			}
			seen[e.Key] = true
		}
		var old [maxKeys]bool
		for _, k := range out.Old {
			s := st[k]
			// reported-old entries are in the pool and verified below the requested height
			if seen[k] || old[k] || !s.present || s.h >= in.H {
				return false, st
			}
			old[k] = true
		}
		if len(out.Ents) < limit {
			// the scan was not cut short by the count limit: all older ones are reported
			for k := range st {
				if st[k].present && st[k].h < in.H && !old[k] {
					return false, st
				}
			}
		}
		return true, st
	case opUnverified:
		var where [maxKeys]int // 1 verified 2 unverified 3 old
		var vh [maxKeys]uint32
		n := 0
		for _, e := range out.Ents {
			if where[e.Key] != 0 {
				return false, st
			}
			where[e.Key] = 1
			vh[e.Key] = e.H
			n++
		}
		for _, k := range out.Unv {
			if where[k] != 0 {
				return false, st
			}
			where[k] = 2
			n++
		}
		for _, k := range out.Old {
			if where[k] != 0 {
				return false, st
			}
			where[k] = 3
			n++
		}
		if n != len(in.Keys) {
			return false, st
		}
		for _, k := range in.Keys {
			s := st[k]
			switch {
			case !s.present:
				if where[k] != 2 {
					return false, st
				}
			case s.h < in.H:
				if where[k] != 3 {
					return false, st
				}
				st[k] = slot{} // handed back for re-verification
			default:
				if where[k] != 1 || vh[k] != s.h {
					return false, st
				}
			}
		}
		return true, st
	case opClean:
		// removes exactly the transactions of the committed block
		if !out.Ok {
			return false, st
		}
		for _, k := range in.Keys {
			st[k] = slot{}
		}
		return true, st
	case opRemain:
		var seen [maxKeys]bool
		for _, k := range out.Rem {
			if seen[k] || !st[k].present {
				return false, st
			}
			seen[k] = true
		}
		for k := range st {
			if st[k].present && !seen[k] {
				return false, st
			}
		}
		return true, fullState{}
	}
	return false, st
}

func describeOp(in *opIn, out *opOut) string {
	switch in.Kind {
	case opAdd:
		return fmt.Sprintf("Add(k%d,uid%d,h%d)->%v", in.Key, in.UID, in.H, out.Ok)
	case opDel:
		return fmt.Sprintf("Del(k%d)->%v", in.Key, out.Ok)
	case opGet:
		return fmt.Sprintf("Get(k%d)->%v", in.Key, out.Ok)
	case opStatus:
		return fmt.Sprintf("Status(k%d)->%v uid%d h%d", in.Key, out.Ok, out.UID, out.H)
	case opCount:
		return fmt.Sprintf("Count()->%d", out.N)
	case opGetPool:
		return fmt.Sprintf("GetTxPool(byCount=%v,h%d,max%d)->%v old%v", in.ByCount, in.H, in.MaxTx, out.Ents, out.Old)
	case opUnverified:
		return fmt.Sprintf("GetUnverified(%v,h%d)->ver%v unv%v old%v", in.Keys, in.H, out.Ents, out.Unv, out.Old)
	case opClean:
		return fmt.Sprintf("Clean(%v)->%v", in.Keys, out.Ok)
	case opRemain:
		return fmt.Sprintf("Remain()->%v", out.Rem)
	}
	return "?"
}

func model(partitioned bool) porcupine.Model {
	m := porcupine.Model{
		Init: func() interface{} { return fullState{} },
		Step: func(state, input, output interface{}) (bool, interface{}) {
			ok, ns := stepFull(state.(fullState), input.(*opIn), output.(*opOut))
			return ok, ns
		},
		Equal: func(a, b interface{}) bool { return a.(fullState) == b.(fullState) },
		Hash: func(s interface{}) uint64 {
			st := s.(fullState)
			h := fnv.New64a()
			var b [10]byte
			for i := range st {
				if st[i].present {
					b[0] = byte(i)
					b[1] = 1
					b[2], b[3], b[4], b[5] = byte(st[i].uid), byte(st[i].uid>>8), byte(st[i].uid>>16), byte(st[i].uid>>24)
					b[6], b[7], b[8], b[9] = byte(st[i].h), byte(st[i].h>>8), byte(st[i].h>>16), byte(st[i].h>>24)
					h.Write(b[:])
				}
			}
			return h.Sum64()
		},
		DescribeOperation: func(i, o interface{}) string { return describeOp(i.(*opIn), o.(*opOut)) },
	}
	if partitioned {
		// every operation of such a history touches exactly one key and the specification is a
		// product of independent per-key cells, so the history is linearizable iff each per-key
		// sub-history is (locality of linearizability).
		m.Partition = func(h []porcupine.Operation) [][]porcupine.Operation {
			by := map[int][]porcupine.Operation{}
			var keys []int
			for _, o := range h {
				k := o.Input.(*opIn).Key
				if _, ok := by[k]; !ok {
					keys = append(keys, k)
				}
				by[k] = append(by[k], o)
			}
			sort.Ints(keys)
			out := make([][]porcupine.Operation, 0, len(keys))
			for _, k := range keys {
				out = append(out, by[k])
			}
			return out
		}
	}
	return m
}

// ---- universe of transactions --------------------------------------------------------------------

type universe struct {
	txs   []*types.Transaction
	keyOf map[pcom.Uint256]int
}

func newUniverse(rng *rand.Rand, n int) *universe {
	u := &universe{keyOf: map[pcom.Uint256]int{}}
	for i := 0; i < n; i++ {
		code := make([]byte, 8+rng.Intn(24))
		rng.Read(code)
		tx := pk.MakeTx(0, rng.Uint32(), code)
		if _, dup := u.keyOf[tx.Hash()]; dup {
			i--
			continue
		}
		u.keyOf[tx.Hash()] = i
		u.txs = append(u.txs, tx)
	}
	return u
}

// ---- workload -----------------------------------------------------------------------------------------

type history struct {
	Variant string // "perkey" (single-key ops, partitioned) | "global" (all ops, whole-state model)
	K, G    int
	MaxTx   int
	Yield   int // percent of ops preceded by runtime.Gosched()
	Progs   [][]*opIn
}

func genHistory(rng *rand.Rand, idx int, variant string) *history {
	h := &history{Variant: variant}
	gs := []int{2, 3, 4, 6, 8, 12, 16}
	h.G = gs[rng.Intn(len(gs))]
	var total int
	if variant == "perkey" {
		ks := []int{8, 16, 32, 64}
		h.K = ks[rng.Intn(len(ks))]
		total = 200 + rng.Intn(201)
	} else {
		ks := []int{4, 8, 8, 12}
		h.K = ks[rng.Intn(len(ks))]
		total = 80 + rng.Intn(121)
	}
	mts := []int{0, 1, 2, 3, 5, 60000}
	h.MaxTx = mts[rng.Intn(len(mts))]
	h.Yield = []int{0, 0, 5, 30}[rng.Intn(4)]
	hot := 1 + rng.Intn(h.K) // skew towards a few hot keys
	pickKey := func() int {
		if rng.Intn(3) > 0 {
			return rng.Intn(hot)
		}
		return rng.Intn(h.K)
	}
	pickKeys := func(max int) []int {
		n := 1 + rng.Intn(max)
		if n > h.K {
			n = h.K
		}
		p := rng.Perm(h.K)[:n]
		return p
	}
	uid := uint32(idx)<<12 + 1
	h.Progs = make([][]*opIn, h.G)
	for i := 0; i < total; i++ {
		g := rng.Intn(h.G)
		in := &opIn{MaxTx: h.MaxTx}
		x := rng.Intn(100)
		if variant == "perkey" {
			switch {
			case x < 34:
				in.Kind, in.Key, in.UID, in.H = opAdd, pickKey(), uid, uint32(rng.Intn(6))
				uid++
			case x < 52:
				in.Kind, in.Key = opDel, pickKey()
			case x < 64:
				in.Kind, in.Key = opGet, pickKey()
			case x < 78:
				in.Kind, in.Key = opStatus, pickKey()
			case x < 89:
				in.Kind, in.Key, in.H = opUnverified, pickKey(), uint32(rng.Intn(6))
				in.Keys = []int{in.Key}
			default:
				in.Kind, in.Key = opClean, pickKey()
				in.Keys = []int{in.Key}
			}
		} else {
			switch {
			case x < 30:
				in.Kind, in.Key, in.UID, in.H = opAdd, pickKey(), uid, uint32(rng.Intn(6))
				uid++
			case x < 42:
				in.Kind, in.Key = opDel, pickKey()
			case x < 48:
				in.Kind, in.Key = opGet, pickKey()
			case x < 56:
				in.Kind, in.Key = opStatus, pickKey()
			case x < 62:
				in.Kind = opCount
			case x < 78:
				in.Kind, in.ByCount, in.H = opGetPool, rng.Intn(4) > 0, uint32(rng.Intn(6))
			case x < 87:
				in.Kind, in.H, in.Keys = opUnverified, uint32(rng.Intn(6)), pickKeys(4)
			case x < 95:
				in.Kind, in.Keys = opClean, pickKeys(4)
			default:
				in.Kind = opRemain
			}
		}
		h.Progs[g] = append(h.Progs[g], in)
	}
	return h
}

func statefulHeight(attrs []*tc.TXAttr) (uid, h uint32, ok bool) {
	var su, sh bool
	for _, a := range attrs {
		if a == nil {
			return 0, 0, false
		}
		if a.Type == vt.Stateless {
			uid, su = a.Height, true
		} else if a.Type == vt.Stateful {
			h, sh = a.Height, true
		}
	}
	return uid, h, su && sh
}

func execOp(pool *tc.TXPool, u *universe, in *opIn) *opOut {
	out := &opOut{}
	txsOf := func(keys []int) []*types.Transaction {
		l := make([]*types.Transaction, len(keys))
		for i, k := range keys {
			l[i] = u.txs[k]
		}
		return l
	}
	keyOf := func(tx *types.Transaction) int {
		if tx == nil {
			out.Bad = "nil transaction in result"
			return 0
		}
		k, ok := u.keyOf[tx.Hash()]
		if !ok {
			out.Bad = "transaction that was never added"
			return 0
		}
		return k
	}
	switch in.Kind {
	case opAdd:
		// the unique id of the write travels in the stateless attribute's height (unused by the pool)
		e := &tc.TXEntry{Tx: u.txs[in.Key], Attrs: []*tc.TXAttr{
			{Height: in.UID, Type: vt.Stateless}, {Height: in.H, Type: vt.Stateful}}}
		out.Ok = pool.AddTxList(e)
	case opDel:
		out.Ok = pool.DelTxList(u.txs[in.Key])
	case opGet:
		tx := pool.GetTransaction(u.txs[in.Key].Hash())
		out.Ok = tx != nil
		if tx != nil && tx.Hash() != u.txs[in.Key].Hash() {
			out.Bad = "GetTransaction returned another transaction"
		}
	case opStatus:
		s := pool.GetTxStatus(u.txs[in.Key].Hash())
		out.Ok = s != nil
		if s != nil {
			var ok bool
			out.UID, out.H, ok = statefulHeight(s.Attrs)
			if !ok || s.Hash != u.txs[in.Key].Hash() {
				out.Bad = "malformed status"
			}
		}
	case opCount:
		out.N = pool.GetTransactionCount()
	case opGetPool:
		es, old := pool.GetTxPool(in.ByCount, in.H)
		for _, e := range es {
			if e == nil {
				out.Bad = "nil entry"
				continue
			}
			uid, h, ok := statefulHeight(e.Attrs)
			if !ok {
				out.Bad = "malformed entry"
			}
			out.Ents = append(out.Ents, ent{keyOf(e.Tx), uid, h})
		}
		for _, t := range old {
			out.Old = append(out.Old, keyOf(t))
		}
	case opUnverified:
		res := pool.GetUnverifiedTxs(txsOf(in.Keys), in.H)
		if res == nil {
			out.Bad = "nil result"
			break
		}
		for _, v := range res.VerifiedTxs {
			if v == nil {
				out.Bad = "nil entry"
				continue
			}
			out.Ents = append(out.Ents, ent{Key: keyOf(v.Tx), H: v.Height})
		}
		for _, t := range res.UnverifiedTxs {
			out.Unv = append(out.Unv, keyOf(t))
		}
		for _, t := range res.OldTxs {
			out.Old = append(out.Old, keyOf(t))
		}
	case opClean:
		out.Ok = pool.CleanTransactionList(txsOf(in.Keys)) == nil
	case opRemain:
		for _, t := range pool.Remain() {
			out.Rem = append(out.Rem, keyOf(t))
		}
	}
	return out
}

type rec struct {
	client    int
	in        *opIn
	out       *opOut
	call, ret int64
}

// runHistory executes the programs concurrently on a fresh pool and returns the recorded history.
// record=false (race phase) skips nothing but the final bookkeeping; timestamps come from the
// process-wide monotonic clock (time.Since), which does not synchronise the goroutines.
func runHistory(u *universe, h *history) []rec {
	pool := &tc.TXPool{}
	pool.Init()
	config.DefConfig.Consensus.MaxTxInBlock = uint(h.MaxTx) // read by GetTxPool; set while no client runs
	t0 := time.Now()
	now := func() int64 { return int64(time.Since(t0)) }
	recs := make([][]rec, h.G)
	start := make(chan struct{})
	var wg sync.WaitGroup
	for g := 0; g < h.G; g++ {
		wg.Add(1)
		go func(g int) {
			defer wg.Done()
			prog := h.Progs[g]
			my := make([]rec, 0, len(prog))
			y := uint32(g*7919 + 13)
			<-start
			for _, in := range prog {
				if h.Yield > 0 {
					y = y*1664525 + 1013904223
					if int(y>>16)%100 < h.Yield {
						runtime.Gosched()
					}
				}
				c := now()
				out := execOp(pool, u, in)
				r := now()
				my = append(my, rec{g, in, out, c, r})
			}
			recs[g] = my
		}(g)
	}
	close(start)
	wg.Wait()
	var all []rec
	for _, l := range recs {
		all = append(all, l...)
	}
	// closing sequential observations by client 0: they pin down the final state (lost updates)
	for _, in := range []*opIn{{Kind: opCount, MaxTx: h.MaxTx}, {Kind: opGetPool, MaxTx: h.MaxTx}, {Kind: opRemain, MaxTx: h.MaxTx}} {
		if h.Variant == "perkey" {
			break
		}
		c := now()
		out := execOp(pool, u, in)
		all = append(all, rec{0, in, out, c, now()})
	}
	if h.Variant == "perkey" {
		for k := 0; k < h.K; k++ {
			in := &opIn{Kind: opStatus, Key: k, MaxTx: h.MaxTx}
			c := now()
			out := execOp(pool, u, in)
			all = append(all, rec{0, in, out, c, now()})
		}
	}
	return all
}

type jsonOp struct {
	Client    int    `json:"client"`
	Op        string `json:"op"`
	Call, Ret int64
}

func toJSON(recs []rec) []jsonOp {
	out := make([]jsonOp, len(recs))
	for i, r := range recs {
		out[i] = jsonOp{r.client, describeOp(r.in, r.out), r.call, r.ret}
	}
	sort.Slice(out, func(i, j int) bool { return out[i].Call < out[j].Call })
	return out
}

func checkHistory(r *kit.Run, h *history, recs []rec, timeout time.Duration) {
	ops := make([]porcupine.Operation, len(recs))
	overlap := 0
	for i, x := range recs {
		ops[i] = porcupine.Operation{ClientId: x.client, Input: x.in, Output: x.out, Call: x.call, Return: x.ret}
		if x.out.Bad != "" {
			r.Violation("pool-malformed-result:"+opNames[x.in.Kind], x.out.Bad+": "+describeOp(x.in, x.out), toJSON(recs))
		}
		r.Count("op_"+opNames[x.in.Kind], 1)
		switch x.in.Kind {
		case opAdd, opDel, opGet, opStatus:
			if x.out.Ok {
				r.Count("op_"+opNames[x.in.Kind]+"_true", 1)
			} else {
				r.Count("op_"+opNames[x.in.Kind]+"_false", 1)
			}
		case opGetPool:
			if len(x.out.Old) > 0 {
				r.Count("getpool_reported_old", 1)
			}
			if x.in.ByCount && x.in.MaxTx > 0 && len(x.out.Ents) == x.in.MaxTx {
				r.Count("getpool_hit_limit", 1)
			}
			if len(x.out.Ents) > 0 {
				r.Count("getpool_nonempty", 1)
			}
		case opUnverified:
			r.Count("unverified_verified", len(x.out.Ents))
			r.Count("unverified_unverified", len(x.out.Unv))
			r.Count("unverified_old", len(x.out.Old))
		case opRemain:
			if len(x.out.Rem) > 0 {
				r.Count("remain_nonempty", 1)
			}
		}
	}
	// how concurrent was the execution really (observation only)
	sorted := append([]rec(nil), recs...)
	sort.Slice(sorted, func(i, j int) bool { return sorted[i].call < sorted[j].call })
	var maxRet int64 = -1
	for _, x := range sorted {
		if x.call <= maxRet {
			overlap++
		}
		if x.ret > maxRet {
			maxRet = x.ret
		}
	}
	r.Count("ops_overlapping_an_earlier_op", overlap)
	res, info := porcupine.CheckOperationsVerbose(model(h.Variant == "perkey"), ops, timeout)
	r.Eval(1)
	switch res {
	case porcupine.Ok:
		r.Count("porcupine_ok_"+h.Variant, 1)
	case porcupine.Unknown:
		r.Count("porcupine_unknown", 1)
	case porcupine.Illegal:
		r.Count("porcupine_illegal", 1)
		// name the shape: kind of the earliest-returning operation that the longest partial
		// linearization could not place
		culprit := "?"
		var best []porcupine.Operation
		for _, part := range info.PartialLinearizationsOperations() {
			for _, lin := range part {
				if len(lin) > len(best) {
					best = lin
				}
			}
		}
		if h.Variant == "global" {
			in := map[*opIn]bool{}
			for _, o := range best {
				in[o.Input.(*opIn)] = true
			}
			var first *rec
			for i := range recs {
				if !in[recs[i].in] && (first == nil || recs[i].ret < first.ret) {
					first = &recs[i]
				}
			}
			if first != nil {
				culprit = opNames[first.in.Kind]
			}
		}
		r.Violation("pool-not-linearizable:"+h.Variant+":"+culprit,
			fmt.Sprintf("history of %d ops by %d goroutines over %d txs (MaxTxInBlock=%d) has no linearization in the sequential pool model; longest partial linearization %d ops",
				len(recs), h.G, h.K, h.MaxTx, len(best)),
			map[string]interface{}{"variant": h.Variant, "K": h.K, "G": h.G, "maxTx": h.MaxTx, "ops": toJSON(recs)})
	}
}

func histFingerprint(h *history) []interface{} {
	var kinds [nOpKinds]int
	n := 0
	for _, p := range h.Progs {
		for _, in := range p {
			kinds[in.Kind]++
			n++
		}
	}
	return []interface{}{h.Variant, h.K, h.G, h.MaxTx, h.Yield, n / 20, kinds[opAdd] / 8, kinds[opDel] / 8, kinds[opGetPool] / 4, kinds[opRemain]}
}

func poolHistories(r *kit.Run, nHist int, check bool) {
	rng := r.Rand("pool")
	u := newUniverse(rng, maxKeys)
	type job struct {
		h    *history
		recs []rec
	}
	jobs := make(chan job, 8)
	var wg sync.WaitGroup
	nCheckers := 3
	for i := 0; i < nCheckers; i++ {
		wg.Add(1)
		go func() {
			defer wg.Done()
			for j := range jobs {
				checkHistory(r, j.h, j.recs, 60*time.Second)
			}
		}()
	}
	for i := 0; i < nHist; i++ {
		variant := "perkey"
		if i%2 == 1 {
			variant = "global"
		}
		h := genHistory(rng, i, variant)
		recs := runHistory(u, h)
		r.Distinct(histFingerprint(h)...)
		r.Count("histories_"+variant, 1)
		if i < 2 {
			js := toJSON(recs)
			if len(js) > 12 {
				js = js[:12]
			}
			r.Sample(map[string]interface{}{"variant": h.Variant, "K": h.K, "G": h.G, "maxTx": h.MaxTx, "ops": len(recs), "first_ops": js})
		}
		if check {
			jobs <- job{h, recs}
		} else {
			r.Eval(1)
			for _, x := range recs {
				r.Count("op_"+opNames[x.in.Kind], 1)
				if x.out.Bad != "" {
					r.Violation("pool-malformed-result:"+opNames[x.in.Kind], x.out.Bad, toJSON(recs))
				}
			}
		}
	}
	close(jobs)
	wg.Wait()
}

func TestC37(t *testing.T) {
	r := kit.Start(t, "C37", "exploration")
	defer r.Finish()
	r.Rule("pool level: histories = (variant perkey|global, K txs 4..64, G 2..16 goroutines, MaxTxInBlock ∈ {0,1,2,3,5,60000}, yield rate, 80..400 ops drawn from the seeded PRNG with hot-key skew); each recorded history checked by porcupine against the sequential pool model (perkey partitioned by tx hash); distinct = (variant,K,G,MaxTx,yield,op-mix buckets). server level: scripted scenarios on a real TXPoolServer + actors with stub validators (see counters server_*)")
	r.Assume("GetUnverifiedTxs removes the entries it reports as old (the server re-submits them for verification); the model follows this")
	r.Assume("MaxTxInBlock = 0 means no count limit (the statement's 'configured number' applies when it is positive)")
	r.Assume("GetTxPool: an entry that is neither handed out nor reported old is acceptable only when the count limit was reached; completeness of the handed-out list is not demanded")
	r.Assume("porcupine v1.3.0 decides linearizability; result Unknown (timeout) is counted as inconclusive, never as a violation")
	nHist := r.N(2000, 200000)
	poolHistories(r, nHist, true)
	r.Require("porcupine_ok_perkey", nHist/2-nHist/50)
	r.Require("porcupine_ok_global", nHist/2-nHist/50)
	r.Require("getpool_reported_old", nHist/40)
	r.Require("getpool_hit_limit", nHist/40)
	r.Require("unverified_old", nHist/40)
	r.Require("remain_nonempty", nHist/40)
	r.Require("op_AddTxList_false", nHist/4)
	r.Require("ops_overlapping_an_earlier_op", nHist)
	if n := r.Get("porcupine_unknown"); n > int64(nHist/50) {
		r.Inconclusive(fmt.Sprintf("%d histories timed out in porcupine", n))
	}
	serverScenarios(r, false)
}

// TestC37Race is the same workload under the Go race detector (driver phase "race"): any race report
// in the log is turned into a violation by the driver.
func TestC37Race(t *testing.T) {
	if os.Getenv("VERIF_PHASE") != "race" && os.Getenv("VERIF_C37_RACE") == "" {
		t.Skip("race phase only")
	}
	r := kit.Start(t, "C37", "exploration")
	defer r.Finish()
	r.Rule("same generators as the main phase, run under -race (no porcupine in this phase); smaller counts")
	poolHistories(r, r.N(300, 20000), false)
}

// TestC37RaceServer: the server-level scenarios (without the capacity fill) under the race detector
// (driver phase "race-server").
func TestC37RaceServer(t *testing.T) {
	if os.Getenv("VERIF_PHASE") != "race-server" && os.Getenv("VERIF_C37_RACE") == "" {
		t.Skip("race-server phase only")
	}
	r := kit.Start(t, "C37", "exploration")
	defer r.Finish()
	r.Rule("server-level functional scenarios of the main phase (same generators, fewer rounds) under -race")
	r.Assume("in the race phases the actors are not stopped at the end of a scenario: PID.Stop goes through ontology-eventbus's lock-free mpsc system-message queue, which the detector flags (third-party code, unrelated to the pool)")
	serverScenarios(r, true)
}
