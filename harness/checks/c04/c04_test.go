// C04: native-contract parameters and persisted records round-trip canonically.
//
// Monitors (all over the real Serialization / Deserialization methods of poly):
//  1. decode(encode(v)) ≡ v and encode(decode(encode(v))) == encode(v) for every registered type;
//  2. map-bearing records: the same logical value rebuilt with other insertion orders / capacities
//     and encoded repeatedly always gives one byte string (Go randomises every map iteration);
//  3. hostile bytes (truncations, length-field substitutions, random strings) never panic or kill
//     the process (run in child processes with an address-space cap); inputs a decoder accepts
//     must themselves round-trip.
package c04

import (
	"bufio"
	"bytes"
	"encoding/binary"
	"encoding/json"
	"fmt"
	"io/ioutil"
	"math/big"
	"math/rand"
	"os"
	"os/exec"
	"path/filepath"
	"reflect"
	"regexp"
	"sort"
	"strconv"
	"strings"
	"sync"
	"testing"

	"github.com/polynetwork/poly/common"
	"github.com/polynetwork/poly/common/config"
	cstates "github.com/polynetwork/poly/core/states"
	"github.com/polynetwork/poly/native/service/cross_chain_manager/btc"
	ccmcom "github.com/polynetwork/poly/native/service/cross_chain_manager/common"
	"github.com/polynetwork/poly/native/service/cross_chain_manager/consensus_vote"
	"github.com/polynetwork/poly/native/service/cross_chain_manager/ripple"
	"github.com/polynetwork/poly/native/service/governance/neo3_state_manager"
	"github.com/polynetwork/poly/native/service/governance/node_manager"
	"github.com/polynetwork/poly/native/service/governance/relayer_manager"
	"github.com/polynetwork/poly/native/service/governance/replenish"
	"github.com/polynetwork/poly/native/service/governance/side_chain_manager"
	"github.com/polynetwork/poly/native/service/governance/signature_manager"
	hscom "github.com/polynetwork/poly/native/service/header_sync/common"
	"github.com/polynetwork/poly/native/service/header_sync/ont"
	nstates "github.com/polynetwork/poly/native/states"

	"verifharness/kit"
	"verifharness/kit/pk"
)

// ---- registry --------------------------------------------------------------------------------

type spec struct {
	name    string // pkg.Type
	file    string // anchored source file (relative to the poly tree)
	mk      func() interface{}
	fix     func(v interface{}, rng *rand.Rand) // constrain a generated value to the representable domain
	maps    bool                                // record contains a map (or an order-insensitive set)
	enc     func(v interface{}) ([]byte, error)
	dec     func(b []byte) (interface{}, error)
	norm    func(v interface{}) // normalisation applied to both sides before comparing
	permute func(v interface{}, rng *rand.Rand) interface{}
}

type ser1 interface {
	Serialization(sink *common.ZeroCopySink)
}
type ser2 interface {
	Serialization(sink *common.ZeroCopySink) error
}
type des1 interface {
	Deserialization(source *common.ZeroCopySource) error
}

func (s *spec) encode(v interface{}) ([]byte, error) {
	if s.enc != nil {
		return s.enc(v)
	}
	sink := common.NewZeroCopySink(nil)
	switch x := v.(type) {
	case ser1:
		x.Serialization(sink)
	case ser2:
		if err := x.Serialization(sink); err != nil {
			return nil, err
		}
	default:
		return nil, fmt.Errorf("%T has no Serialization", v)
	}
	return sink.Bytes(), nil
}

func (s *spec) decode(b []byte) (interface{}, error) {
	if s.dec != nil {
		return s.dec(b)
	}
	v := s.mk()
	d, ok := v.(des1)
	if !ok {
		return nil, fmt.Errorf("%T has no Deserialization", v)
	}
	// the decoders keep references into the input: give each its own copy
	err := d.Deserialization(common.NewZeroCopySource(append([]byte{}, b...)))
	return v, err
}

const (
	fCCM   = "native/service/cross_chain_manager/common/param.go"
	fHS    = "native/service/header_sync/common/param.go"
	fNMp   = "native/service/governance/node_manager/param.go"
	fNMs   = "native/service/governance/node_manager/states.go"
	fSCp   = "native/service/governance/side_chain_manager/param.go"
	fSCs   = "native/service/governance/side_chain_manager/states.go"
	fRM    = "native/service/governance/relayer_manager/param.go"
	fNeo3  = "native/service/governance/neo3_state_manager/param.go"
	fSigS  = "native/service/governance/signature_manager/states.go"
	fSigP  = "native/service/governance/signature_manager/param.go"
	fVote  = "native/service/cross_chain_manager/consensus_vote/states.go"
	fBtc   = "native/service/cross_chain_manager/btc/states.go"
	fNSt   = "native/states/contract.go"
	fCSt   = "core/states/storage_item.go"
	fRipS  = "native/service/cross_chain_manager/ripple/states.go"
	fRipP  = "native/service/cross_chain_manager/ripple/param.go"
	fRepl  = "native/service/governance/replenish/param.go"
	fOntSt = "native/service/header_sync/ont/states.go"
)

// rawItem is the value side of GenRawStorageItem / GetValueFromRawStorageItem.
type rawItem struct{ Value []byte }

func registry() []*spec {
	peerKeyFix := func(v interface{}, rng *rand.Rand) {
		switch x := v.(type) {
		case *node_manager.PeerPoolMap:
			for k, it := range x.PeerPoolMap {
				it.PeerPubkey = k
			}
		case *ont.ConsensusPeers:
			for k, it := range x.PeerMap {
				it.PeerPubkey = k
			}
		}
	}
	sortDesc := func(v interface{}) {
		x := v.(*ont.KeyHeights)
		l := append([]uint32{}, x.HeightList...)
		sort.Slice(l, func(i, j int) bool { return l[i] > l[j] })
		x.HeightList = l
	}
	return []*spec{
		// cross_chain_manager/common/param.go
		{name: "ccm.InitRedeemScriptParam", file: fCCM, mk: func() interface{} { return new(ccmcom.InitRedeemScriptParam) }},
		{name: "ccm.EntranceParam", file: fCCM, mk: func() interface{} { return new(ccmcom.EntranceParam) }},
		{name: "ccm.MakeTxParam", file: fCCM, mk: func() interface{} { return new(ccmcom.MakeTxParam) }},
		{name: "ccm.MakeTxParamWithSender", file: fCCM, mk: func() interface{} { return new(ccmcom.MakeTxParamWithSender) },
			enc: func(v interface{}) ([]byte, error) { return v.(*ccmcom.MakeTxParamWithSender).Serialization() },
			dec: func(b []byte) (interface{}, error) {
				v := new(ccmcom.MakeTxParamWithSender)
				return v, v.Deserialization(append([]byte{}, b...))
			}},
		{name: "ccm.MultiSignParam", file: fCCM, mk: func() interface{} { return new(ccmcom.MultiSignParam) }},
		{name: "ccm.ToMerkleValue", file: fCCM, mk: func() interface{} { return new(ccmcom.ToMerkleValue) }},
		{name: "ccm.BlackChainParam", file: fCCM, mk: func() interface{} { return new(ccmcom.BlackChainParam) }},
		// header_sync/common/param.go
		{name: "header_sync.SyncGenesisHeaderParam", file: fHS, mk: func() interface{} { return new(hscom.SyncGenesisHeaderParam) }},
		{name: "header_sync.SyncBlockHeaderParam", file: fHS, mk: func() interface{} { return new(hscom.SyncBlockHeaderParam) }},
		{name: "header_sync.SyncCrossChainMsgParam", file: fHS, mk: func() interface{} { return new(hscom.SyncCrossChainMsgParam) }},
		// node_manager
		{name: "node_manager.RegisterPeerParam", file: fNMp, mk: func() interface{} { return new(node_manager.RegisterPeerParam) }},
		{name: "node_manager.PeerParam", file: fNMp, mk: func() interface{} { return new(node_manager.PeerParam) }},
		{name: "node_manager.PeerListParam", file: fNMp, mk: func() interface{} { return new(node_manager.PeerListParam) }},
		{name: "node_manager.UpdateConfigParam", file: fNMp, mk: func() interface{} { return new(node_manager.UpdateConfigParam) }},
		{name: "node_manager.Status", file: fNMs, mk: func() interface{} { return new(node_manager.Status) }},
		{name: "node_manager.BlackListItem", file: fNMs, mk: func() interface{} { return new(node_manager.BlackListItem) }},
		{name: "node_manager.PeerPoolMap", file: fNMs, maps: true, fix: peerKeyFix, mk: func() interface{} { return new(node_manager.PeerPoolMap) }},
		{name: "node_manager.PeerPoolItem", file: fNMs, mk: func() interface{} { return new(node_manager.PeerPoolItem) }},
		{name: "node_manager.GovernanceView", file: fNMs, mk: func() interface{} { return new(node_manager.GovernanceView) }},
		{name: "node_manager.ConsensusSigns", file: fNMs, maps: true, mk: func() interface{} { return new(node_manager.ConsensusSigns) }},
		{name: "node_manager.Configuration", file: fNMs, mk: func() interface{} { return new(node_manager.Configuration) }},
		// side_chain_manager
		{name: "side_chain_manager.RegisterSideChainParam", file: fSCp, mk: func() interface{} { return new(side_chain_manager.RegisterSideChainParam) },
			fix: func(v interface{}, rng *rand.Rand) {
				if x := v.(*side_chain_manager.RegisterSideChainParam); x.BlocksToWait == 0 {
					x.BlocksToWait = 1
				}
			}},
		{name: "side_chain_manager.ChainidParam", file: fSCp, mk: func() interface{} { return new(side_chain_manager.ChainidParam) }},
		{name: "side_chain_manager.RegisterRedeemParam", file: fSCp, mk: func() interface{} { return new(side_chain_manager.RegisterRedeemParam) }},
		{name: "side_chain_manager.BtcTxParamDetial", file: fSCp, mk: func() interface{} { return new(side_chain_manager.BtcTxParamDetial) }},
		{name: "side_chain_manager.BtcTxParam", file: fSCp, mk: func() interface{} { return new(side_chain_manager.BtcTxParam) }},
		{name: "side_chain_manager.RegisterAssetParam", file: fSCp, maps: true, mk: func() interface{} { return new(side_chain_manager.RegisterAssetParam) }},
		{name: "side_chain_manager.AssetBind", file: fSCp, maps: true, mk: func() interface{} { return new(side_chain_manager.AssetBind) }},
		{name: "side_chain_manager.UpdateFeeParam", file: fSCp, mk: func() interface{} { return new(side_chain_manager.UpdateFeeParam) }},
		{name: "side_chain_manager.SideChain", file: fSCs, mk: func() interface{} { return new(side_chain_manager.SideChain) }},
		{name: "side_chain_manager.BindSignInfo", file: fSCs, maps: true, mk: func() interface{} { return new(side_chain_manager.BindSignInfo) }},
		{name: "side_chain_manager.ContractBinded", file: fSCs, mk: func() interface{} { return new(side_chain_manager.ContractBinded) }},
		{name: "side_chain_manager.Fee", file: fSCs, mk: func() interface{} { return new(side_chain_manager.Fee) }},
		{name: "side_chain_manager.FeeInfo", file: fSCs, maps: true, mk: func() interface{} { return new(side_chain_manager.FeeInfo) }},
		{name: "side_chain_manager.RippleExtraInfo", file: fSCs, mk: func() interface{} { return new(side_chain_manager.RippleExtraInfo) }},
		// relayer_manager
		{name: "relayer_manager.RelayerListParam", file: fRM, mk: func() interface{} { return new(relayer_manager.RelayerListParam) }},
		{name: "relayer_manager.ApproveRelayerParam", file: fRM, mk: func() interface{} { return new(relayer_manager.ApproveRelayerParam) }},
		// neo3_state_manager
		{name: "neo3_state_manager.StateValidatorListParam", file: fNeo3, mk: func() interface{} { return new(neo3_state_manager.StateValidatorListParam) }},
		{name: "neo3_state_manager.ApproveStateValidatorParam", file: fNeo3, mk: func() interface{} { return new(neo3_state_manager.ApproveStateValidatorParam) }},
		// signature_manager
		{name: "signature_manager.SigInfo", file: fSigS, maps: true, mk: func() interface{} { return new(signature_manager.SigInfo) }},
		{name: "signature_manager.AddSignatureParam", file: fSigP, mk: func() interface{} { return new(signature_manager.AddSignatureParam) }},
		// consensus_vote
		{name: "consensus_vote.VoteInfo", file: fVote, maps: true, mk: func() interface{} { return new(consensus_vote.VoteInfo) }},
		// btc
		{name: "btc.BtcProof", file: fBtc, mk: func() interface{} { return new(btc.BtcProof) }},
		{name: "btc.Utxos", file: fBtc, mk: func() interface{} { return new(btc.Utxos) }},
		{name: "btc.Utxo", file: fBtc, mk: func() interface{} { return new(btc.Utxo) }},
		{name: "btc.OutPoint", file: fBtc, mk: func() interface{} { return new(btc.OutPoint) }},
		{name: "btc.MultiSignInfo", file: fBtc, maps: true, mk: func() interface{} { return new(btc.MultiSignInfo) }},
		{name: "btc.Args", file: fBtc, mk: func() interface{} { return new(btc.Args) }},
		{name: "btc.BtcFromInfo", file: fBtc, mk: func() interface{} { return new(btc.BtcFromInfo) }},
		// native/states, core/states
		{name: "states.ContractInvokeParam", file: fNSt, mk: func() interface{} { return new(nstates.ContractInvokeParam) },
			fix: func(v interface{}, rng *rand.Rand) { v.(*nstates.ContractInvokeParam).Version = 0 }},
		{name: "core_states.StorageItem", file: fCSt, mk: func() interface{} { return new(cstates.StorageItem) },
			enc: func(v interface{}) ([]byte, error) {
				b := new(bytes.Buffer)
				err := v.(*cstates.StorageItem).Serialize(b)
				return b.Bytes(), err
			},
			dec: func(b []byte) (interface{}, error) {
				v := new(cstates.StorageItem)
				return v, v.Deserialize(bytes.NewBuffer(append([]byte{}, b...)))
			}},
		{name: "core_states.RawStorageItem", file: fCSt, mk: func() interface{} { return new(rawItem) },
			enc: func(v interface{}) ([]byte, error) { return cstates.GenRawStorageItem(v.(*rawItem).Value), nil },
			dec: func(b []byte) (interface{}, error) {
				val, err := cstates.GetValueFromRawStorageItem(append([]byte{}, b...))
				return &rawItem{Value: val}, err
			}},
		// beyond the anchored files (same mechanism, map-bearing or parameter records)
		{name: "ripple.MultisignInfo", file: fRipS, maps: true, mk: func() interface{} { return new(ripple.MultisignInfo) }},
		{name: "ripple.Signer", file: fRipS, mk: func() interface{} { return new(ripple.Signer) }},
		{name: "ripple.MultiSignParam", file: fRipP, mk: func() interface{} { return new(ripple.MultiSignParam) }},
		{name: "ripple.ReconstructTxParam", file: fRipP, mk: func() interface{} { return new(ripple.ReconstructTxParam) }},
		{name: "replenish.ReplenishTxParam", file: fRepl, mk: func() interface{} { return new(replenish.ReplenishTxParam) }},
		{name: "ont.Peer", file: fOntSt, mk: func() interface{} { return new(ont.Peer) }},
		{name: "ont.KeyHeights", file: fOntSt, maps: true, norm: sortDesc, mk: func() interface{} { return new(ont.KeyHeights) },
			permute: func(v interface{}, rng *rand.Rand) interface{} {
				l := append([]uint32{}, v.(*ont.KeyHeights).HeightList...)
				rng.Shuffle(len(l), func(i, j int) { l[i], l[j] = l[j], l[i] })
				return &ont.KeyHeights{HeightList: l}
			}},
		{name: "ont.ConsensusPeers", file: fOntSt, maps: true, fix: peerKeyFix, mk: func() interface{} { return new(ont.ConsensusPeers) }},
	}
}

var excluded = []string{
	"negative *big.Int amounts (Fee.Fee, FeeInfo values, UpdateFeeParam.Fee, RippleExtraInfo.ReserveAmount): the sign is not encoded",
	"nil nested pointers (ToMerkleValue.MakeTxParam, UpdateConfigParam.Configuration, BtcTxParam.Detial, Utxo.Op, *PeerPoolItem / *Peer map values, *big.Int): the encoders dereference them",
	"PeerPoolMap / ont.ConsensusPeers entries whose map key differs from the item's PeerPubkey: only the item is encoded",
	"RegisterSideChainParam.BlocksToWait == 0 and ContractInvokeParam.Version > 0: refused by the decoder as a rule of the contract",
	"ont.KeyHeights list order: the encoder sorts, the record is a descending multiset (compared as such)",
	"SideChain / RegisterSideChainParam.ExtraInfo before the extra-info fork height (left out of the encoding): run with config.EXTRA_INFO_HEIGHT_FORK_CHECK=false, i.e. the post-fork encoding",
}

// ---- reflective generator ---------------------------------------------------------------------

var bigIntPtr = reflect.TypeOf((*big.Int)(nil))

var edgeU64 = []uint64{0, 1, 0xfc, 0xfd, 0xfe, 0xff, 0x100, 0xffff, 0x10000, 0xffffffff, 0x100000000, 1<<63 - 1, 1 << 63, 1<<64 - 1}

func genUint(rng *rand.Rand, bits int) uint64 {
	var v uint64
	switch rng.Intn(4) {
	case 0:
		v = edgeU64[rng.Intn(len(edgeU64))]
	case 1:
		v = uint64(rng.Intn(300))
	default:
		v = rng.Uint64()
	}
	if bits < 64 {
		v &= 1<<uint(bits) - 1
	}
	return v
}

func genLen(rng *rand.Rand) int {
	switch rng.Intn(20) {
	case 0, 1, 2:
		return 0
	case 3:
		return []int{252, 253, 254, 255, 256, 300}[rng.Intn(6)]
	case 4:
		if rng.Intn(8) == 0 {
			return []int{65535, 65536, 70000}[rng.Intn(3)]
		}
		return 1
	case 5, 6:
		return []int{20, 32, 33, 64, 65}[rng.Intn(5)]
	}
	return 1 + rng.Intn(40)
}

func genBytes(rng *rand.Rand) []byte {
	n := genLen(rng)
	if n == 0 {
		if rng.Intn(2) == 0 {
			return nil
		}
		return []byte{}
	}
	b := make([]byte, n)
	rng.Read(b)
	if rng.Intn(6) == 0 {
		// bytes that look like length prefixes
		for i := 0; i < len(b) && i < 4; i++ {
			b[i] = []byte{0xfd, 0xfe, 0xff, 0x00}[rng.Intn(4)]
		}
	}
	return b
}

func genCount(rng *rand.Rand, mapLike bool) int {
	switch rng.Intn(12) {
	case 0:
		return 0
	case 1:
		return 1
	case 2:
		if mapLike {
			return 40
		}
		return []int{252, 253, 254, 300}[rng.Intn(4)]
	case 3, 4:
		return 10 + rng.Intn(31)
	}
	return 2 + rng.Intn(7)
}

// gctx is the generator state: forceN > 0 forces the size of the first collection (map or non-byte
// slice) met on the way down to exactly forceN entries; small keeps every element tiny (used with
// forced sizes so that a 65 536-entry record stays a few MB).
type gctx struct {
	rng    *rand.Rand
	forceN int
	skip   int
	small  bool
}

func (g *gctx) bytes() []byte {
	if g.small {
		b := make([]byte, g.rng.Intn(9))
		g.rng.Read(b)
		return b
	}
	return genBytes(g.rng)
}

func (g *gctx) count(mapLike bool) (int, bool) {
	if g.forceN > 0 && g.skip > 0 {
		g.skip--
	} else if g.forceN > 0 {
		n := g.forceN
		g.forceN = 0
		return n, true
	}
	if g.small {
		return g.rng.Intn(3), false
	}
	return genCount(g.rng, mapLike), false
}

func fill(v reflect.Value, g *gctx, depth int) {
	rng := g.rng
	t := v.Type()
	if t == bigIntPtr {
		b := g.bytes()
		if len(b) > 40 {
			b = b[:40]
		}
		v.Set(reflect.ValueOf(new(big.Int).SetBytes(b)))
		return
	}
	switch v.Kind() {
	case reflect.Bool:
		v.SetBool(rng.Intn(2) == 0)
	case reflect.Uint8:
		v.SetUint(genUint(rng, 8))
	case reflect.Uint16:
		v.SetUint(genUint(rng, 16))
	case reflect.Uint32:
		v.SetUint(genUint(rng, 32))
	case reflect.Uint64, reflect.Uint:
		v.SetUint(genUint(rng, 64))
	case reflect.Int64, reflect.Int:
		v.SetInt(int64(genUint(rng, 64)))
	case reflect.Int32:
		v.SetInt(int64(int32(genUint(rng, 32))))
	case reflect.String:
		v.SetString(string(g.bytes()))
	case reflect.Array:
		if t.Elem().Kind() == reflect.Uint8 {
			if rng.Intn(10) != 0 {
				b := make([]byte, v.Len())
				rng.Read(b)
				reflect.Copy(v, reflect.ValueOf(b))
			}
			return
		}
		for i := 0; i < v.Len(); i++ {
			fill(v.Index(i), g, depth+1)
		}
	case reflect.Slice:
		if t.Elem().Kind() == reflect.Uint8 {
			v.SetBytes(g.bytes())
			return
		}
		n, forced := g.count(false)
		if !forced && depth > 1 && n > 8 {
			n = n % 8
		}
		if n == 0 && rng.Intn(2) == 0 {
			return // nil slice
		}
		s := reflect.MakeSlice(t, n, n)
		for i := 0; i < n; i++ {
			fill(s.Index(i), g, depth+1)
		}
		v.Set(s)
	case reflect.Ptr:
		p := reflect.New(t.Elem())
		fill(p.Elem(), g, depth+1)
		v.Set(p)
	case reflect.Struct:
		for i := 0; i < v.NumField(); i++ {
			if t.Field(i).PkgPath != "" {
				continue
			}
			fill(v.Field(i), g, depth+1)
		}
	case reflect.Map:
		n, forced := g.count(true)
		if n == 0 && rng.Intn(2) == 0 {
			return // nil map
		}
		m := reflect.MakeMapWithSize(t, 0)
		for tries := 0; m.Len() < n && tries < 20*n+8; tries++ {
			k := reflect.New(t.Key()).Elem()
			fill(k, g, depth+1)
			if !forced && t.Key().Kind() == reflect.String && rng.Intn(3) == 0 {
				// near-identical keys: common prefix, differ in the last byte / by length
				k.SetString("peer" + string([]byte{byte(rng.Intn(4))}) + strings.Repeat("x", rng.Intn(3)))
			}
			if forced && t.Key().Kind() == reflect.String {
				// distinct by construction (random short keys would collide at 65 536 entries)
				k.SetString(fmt.Sprintf("%s%05x", k.String(), m.Len()))
			}
			e := reflect.New(t.Elem()).Elem()
			fill(e, g, depth+2)
			m.SetMapIndex(k, e)
		}
		v.Set(m)
	default:
		panic("c04 generator: unsupported kind " + v.Kind().String() + " in " + t.String())
	}
}

// rebuild deep-copies v; every map is re-created with a shuffled insertion order and another
// initial capacity, so bucket layout and iteration start differ from the original.
func rebuild(v reflect.Value, rng *rand.Rand) reflect.Value {
	t := v.Type()
	if t == bigIntPtr {
		if v.IsNil() {
			return v
		}
		return reflect.ValueOf(new(big.Int).Set(v.Interface().(*big.Int)))
	}
	switch v.Kind() {
	case reflect.Ptr:
		if v.IsNil() {
			return v
		}
		p := reflect.New(t.Elem())
		p.Elem().Set(rebuild(v.Elem(), rng))
		return p
	case reflect.Struct:
		o := reflect.New(t).Elem()
		for i := 0; i < v.NumField(); i++ {
			if t.Field(i).PkgPath != "" {
				continue
			}
			o.Field(i).Set(rebuild(v.Field(i), rng))
		}
		return o
	case reflect.Slice:
		if v.IsNil() {
			return v
		}
		o := reflect.MakeSlice(t, v.Len(), v.Len())
		for i := 0; i < v.Len(); i++ {
			o.Index(i).Set(rebuild(v.Index(i), rng))
		}
		return o
	case reflect.Map:
		if v.IsNil() {
			return v
		}
		keys := v.MapKeys()
		rng.Shuffle(len(keys), func(i, j int) { keys[i], keys[j] = keys[j], keys[i] })
		o := reflect.MakeMapWithSize(t, []int{0, 1, len(keys), 4 * len(keys), 100}[rng.Intn(5)])
		// optional churn: insert and delete foreign keys so that buckets have tombstones
		for _, k := range keys {
			o.SetMapIndex(k, rebuild(v.MapIndex(k), rng))
		}
		return o
	}
	return v
}

// equal compares two values of the same type: nil ≡ empty for slices and maps, big.Int by value.
func equal(a, b reflect.Value, path string) (bool, string) {
	t := a.Type()
	if t == bigIntPtr {
		if a.IsNil() || b.IsNil() {
			return a.IsNil() == b.IsNil(), path
		}
		return a.Interface().(*big.Int).Cmp(b.Interface().(*big.Int)) == 0, path
	}
	switch a.Kind() {
	case reflect.Ptr:
		if a.IsNil() || b.IsNil() {
			return a.IsNil() == b.IsNil(), path
		}
		return equal(a.Elem(), b.Elem(), path)
	case reflect.Struct:
		for i := 0; i < a.NumField(); i++ {
			if t.Field(i).PkgPath != "" {
				continue
			}
			if ok, p := equal(a.Field(i), b.Field(i), path+"."+t.Field(i).Name); !ok {
				return false, p
			}
		}
		return true, ""
	case reflect.Slice, reflect.Array:
		if a.Len() != b.Len() {
			return false, fmt.Sprintf("%s(len %d vs %d)", path, a.Len(), b.Len())
		}
		for i := 0; i < a.Len(); i++ {
			if ok, p := equal(a.Index(i), b.Index(i), fmt.Sprintf("%s[%d]", path, i)); !ok {
				return false, p
			}
		}
		return true, ""
	case reflect.Map:
		if a.Len() != b.Len() {
			return false, fmt.Sprintf("%s(map len %d vs %d)", path, a.Len(), b.Len())
		}
		for _, k := range a.MapKeys() {
			bv := b.MapIndex(k)
			if !bv.IsValid() {
				return false, fmt.Sprintf("%s[%v] missing", path, k)
			}
			if ok, p := equal(a.MapIndex(k), bv, fmt.Sprintf("%s[%v]", path, k)); !ok {
				return false, p
			}
		}
		return true, ""
	case reflect.Bool:
		return a.Bool() == b.Bool(), path
	case reflect.String:
		return a.String() == b.String(), path
	case reflect.Uint8, reflect.Uint16, reflect.Uint32, reflect.Uint64, reflect.Uint:
		return a.Uint() == b.Uint(), path
	case reflect.Int8, reflect.Int16, reflect.Int32, reflect.Int64, reflect.Int:
		return a.Int() == b.Int(), path
	}
	return reflect.DeepEqual(a.Interface(), b.Interface()), path
}

func (s *spec) gen(rng *rand.Rand) interface{} {
	v, _ := s.genN(rng, 0, 0)
	return v
}

// genN generates a value whose (skip+1)-th collection (map or non-byte slice, in field order,
// depth first) has exactly n entries (n > 0), all elements small. The second result tells whether
// the type has such a collection.
func (s *spec) genN(rng *rand.Rand, n, skip int) (interface{}, bool) {
	v := s.mk()
	g := &gctx{rng: rng, forceN: n, skip: skip, small: n > 0}
	fill(reflect.ValueOf(v).Elem(), g, 0)
	if n > 0 && g.forceN != 0 {
		return nil, false
	}
	if s.fix != nil {
		s.fix(v, rng)
	}
	return v, true
}

func (s *spec) same(a, b interface{}) (bool, string) {
	if s.norm != nil {
		a = rebuild(reflect.ValueOf(a), rand.New(rand.NewSource(1))).Interface()
		b = rebuild(reflect.ValueOf(b), rand.New(rand.NewSource(1))).Interface()
		s.norm(a)
		s.norm(b)
	}
	return equal(reflect.ValueOf(a), reflect.ValueOf(b), "")
}

func (s *spec) perm(v interface{}, rng *rand.Rand) interface{} {
	if s.permute != nil {
		return s.permute(v, rng)
	}
	return rebuild(reflect.ValueOf(v), rng).Interface()
}

// maxMapLen returns the largest map (or permutable list) size inside v.
func maxMapLen(v reflect.Value) int {
	switch v.Kind() {
	case reflect.Ptr:
		if v.IsNil() || v.Type() == bigIntPtr {
			return 0
		}
		return maxMapLen(v.Elem())
	case reflect.Struct:
		m := 0
		for i := 0; i < v.NumField(); i++ {
			if v.Type().Field(i).PkgPath != "" {
				continue
			}
			if x := maxMapLen(v.Field(i)); x > m {
				m = x
			}
		}
		return m
	case reflect.Map:
		return v.Len()
	case reflect.Slice:
		if v.Type().Elem().Kind() == reflect.Uint32 {
			return v.Len() // ont.KeyHeights
		}
	}
	return 0
}

func short(v interface{}) string {
	b, err := json.Marshal(v)
	if err != nil {
		return fmt.Sprintf("%+v", v)
	}
	if len(b) > 1500 {
		return string(b[:1500]) + "…"
	}
	return string(b)
}

// ---- the check --------------------------------------------------------------------------------

// reporter forwards at most 3 violations per stable key to the kit (which stops writing replays
// after 50 violations in total) and counts the rest.
type reporter struct {
	r    *kit.Run
	mu   sync.Mutex
	seen map[string]int
}

func (x *reporter) Violation(key, what string, replay interface{}) {
	x.mu.Lock()
	x.seen[key]++
	n := x.seen[key]
	x.mu.Unlock()
	x.r.Count("violations:"+key, 1)
	if n <= 3 {
		x.r.Violation(key, what, replay)
	}
}

func setup() {
	// post-fork encoding of side-chain records (ExtraInfo always written); avoids the global ledger
	config.EXTRA_INFO_HEIGHT_FORK_CHECK = false
}

func TestC04(t *testing.T) {
	if os.Getenv("C04_CHILD_TYPE") != "" {
		t.Skip("child mode")
	}
	r := kit.Start(t, "C04", "exploration")
	defer r.Finish()
	setup()
	rep := &reporter{r: r, seen: map[string]int{}}
	reg := registry()
	r.Rule("explicit registry of parameter / record types; values from a reflection-driven, boundary-biased generator constrained to each type's representable domain (var-uint edges, 0/252..256/65535+ byte lengths, nil vs empty, near-identical map keys, map sizes 0..40; then every collection of every type forced to 252/253/254/255/256 and 65535/65536 entries with small elements); " +
		"map-bearing records rebuilt in 8 insertion orders × capacities and encoded repeatedly; hostile inputs per type = every truncation, length/count-field substitutions {00,fd,fe,ff + wide values}, counts that make count*k wrap around 2^64 for k in 1..64 written over each located count field, appended bytes and random strings, decoded in child processes; " +
		"distinct = (type, shape of the value: lengths classes / map size) and (type, hostile class, outcome)")
	r.Assume("deep equality treats nil and empty slices / maps as the same value and compares big.Int by value")
	for _, e := range excluded {
		r.Assume("excluded by construction: " + e)
	}
	r.Assume("a decoder that needs more than the child's address-space cap (4 GiB) for an input of a few KiB counts as crashing; the cap makes the verdict independent of the machine's memory")
	r.Assume("an input accepted by a decoder is a value of the type and must itself round-trip (decode(encode(x)) ≡ x)")

	var names []string
	for _, s := range reg {
		names = append(names, s.name)
	}
	r.Set("types_covered", names)
	r.Set("types_covered_count", len(names))
	r.Set("excluded_values", excluded)
	r.Set("unregistered_types", unregistered(reg))

	nvals := r.N(300, 5000)
	orders := 8
	encsPer := r.N(4, 32)
	var wg1 sync.WaitGroup
	sem := make(chan struct{}, 12)
	for _, s0 := range reg {
		s := s0
		wg1.Add(1)
		sem <- struct{}{}
		go func() {
			defer func() { <-sem; wg1.Done() }()
			rng := r.Rand("values/" + s.name)
			okc := 0
			// after the ordinary values: collection sizes at the var-uint boundaries, for each of
			// the first three collections of the type (252..256 around 0xfd, 65535/65536 around 0xfe)
			type bsz struct{ n, skip int }
			var plan []bsz
			for skip := 0; skip < 3; skip++ {
				for _, n := range []int{252, 253, 254, 255, 256, 65535, 65536} {
					if n > 60000 && skip > 0 && r.Quick() {
						continue
					}
					plan = append(plan, bsz{n, skip})
				}
			}
			hasColl := false
			for i := 0; i < nvals+len(plan); i++ {
				var v interface{}
				forced := 0
				if i < nvals {
					v = s.gen(rng)
				} else {
					b := plan[i-nvals]
					var ok bool
					if v, ok = s.genN(rng, b.n, b.skip); !ok {
						continue // the type has no such collection
					}
					forced = b.n
					hasColl = true
				}
				r.Eval(1)
				var b0 []byte
				var err error
				if p := kit.Catch(func() { b0, err = s.encode(v) }); p != nil {
					rep.Violation("encode-panic:"+s.name, fmt.Sprint(p), short(v))
					continue
				}
				if err != nil {
					rep.Violation("encode-error:"+s.name, err.Error(), short(v))
					continue
				}
				var v1 interface{}
				if p := kit.Catch(func() { v1, err = s.decode(b0) }); p != nil {
					rep.Violation("decode-panic-on-honest:"+s.name, fmt.Sprint(p), kit.Hex(b0))
					continue
				}
				if err != nil {
					rep.Violation("honest-encoding-refused:"+s.name, err.Error(), map[string]string{"value": short(v), "bytes": kit.Hex(b0)})
					continue
				}
				if ok, where := s.same(v, v1); !ok {
					rep.Violation("roundtrip-differs:"+s.name, "decoded value differs at "+where, map[string]string{"value": short(v), "decoded": short(v1), "bytes": kit.Hex(b0)})
					continue
				}
				b1, err := s.encode(v1)
				if err != nil || !bytes.Equal(b0, b1) {
					rep.Violation("reencode-differs:"+s.name, fmt.Sprintf("err=%v", err), map[string]string{"first": kit.Hex(b0), "second": kit.Hex(b1)})
					continue
				}
				okc++
				if forced > 60000 {
					r.Count("boundary_64k_ok:"+s.name, 1)
					r.Count("boundary_64k_ok", 1)
				} else if forced > 0 {
					r.Count("boundary_size_ok:"+s.name, 1)
					r.Count("boundary_size_ok", 1)
					r.Count(fmt.Sprintf("boundary_size_ok:n=%d", forced), 1)
				}
				ml := maxMapLen(reflect.ValueOf(v))
				if forced > 0 {
					r.Distinct(s.name, "forced-size", forced)
				}
				r.Distinct(s.name, lenClass(len(b0)), ml)
				if s.maps {
					bad := false
					no, ne := orders, encsPer
					if ml > 1000 {
						no, ne = 2, 1
					}
					for o := 0; o < no && !bad; o++ {
						v2 := s.perm(v, rng)
						for e := 0; e < ne; e++ {
							b2, err := s.encode(v2)
							r.Eval(1)
							if err != nil || !bytes.Equal(b2, b0) {
								rep.Violation("map-order-dependent:"+s.name, fmt.Sprintf("the same logical record (largest map: %d entries) encoded to different bytes (insertion order %d, encoding %d) err=%v", ml, o, e, err),
									map[string]string{"value": short(v), "first": kit.Hex(b0), "other": kit.Hex(b2)})
								bad = true
								break
							}
						}
					}
					if !bad {
						r.Count("canonical_records", 1)
						if ml >= 3 {
							r.Count("canonical_records_3plus_entries", 1)
							r.Count("canonical3:"+s.name, 1)
						}
					}
				}
				if i == 7 && (s.name == "side_chain_manager.FeeInfo" || s.name == "ccm.EntranceParam" || s.name == "btc.MultiSignInfo") {
					r.Sample(map[string]string{"type": s.name, "value": short(v), "bytes": kit.Hex(b0)})
				}
			}
			r.Count("roundtrip_ok", okc)
			r.Count("roundtrip_ok:"+s.name, okc)
			r.Require("roundtrip_ok:"+s.name, nvals*9/10)
			if hasColl {
				r.Require("boundary_size_ok:"+s.name, 5)
				r.Require("boundary_64k_ok:"+s.name, 2)
			}
			if s.maps {
				r.Require("canonical3:"+s.name, nvals/4)
			}
		}()
	}
	wg1.Wait()

	r.Require("boundary_size_ok", 100)
	r.Require("boundary_size_ok:node_manager.PeerPoolMap", 5)

	hostileParent(r, rep, reg)
}

func lenClass(n int) string {
	switch {
	case n < 0xfd:
		return "<253"
	case n < 0x10000:
		return "<64k"
	}
	return ">=64k"
}

// unregistered lists Serialization receivers in the anchored files that the registry lacks
// (an observation for the evidence, not a verdict).
func unregistered(reg []*spec) []string {
	root := os.Getenv("VERIF_REPO")
	if root == "" {
		root = "/repo"
	}
	re := regexp.MustCompile(`(?m)^func \(\w+ \*(\w+)\) Seriali(?:zation|ze)\(`)
	have := map[string]bool{}
	files := map[string]bool{}
	for _, s := range reg {
		have[s.file+":"+s.name[strings.Index(s.name, ".")+1:]] = true
		files[s.file] = true
	}
	out := []string{}
	for f := range files {
		src, err := ioutil.ReadFile(filepath.Join(root, f))
		if err != nil {
			out = append(out, f+": unreadable")
			continue
		}
		for _, m := range re.FindAllStringSubmatch(string(src), -1) {
			if !have[f+":"+m[1]] {
				out = append(out, f+":"+m[1])
			}
		}
	}
	sort.Strings(out)
	return out
}

// ---- hostile inputs: parent side ---------------------------------------------------------------

type childResult struct {
	Type     string            `json:"type"`
	Cases    int               `json:"cases"`
	Rejected int               `json:"rejected"`
	Accepted int               `json:"accepted"`
	Stable   int               `json:"stable"`
	Next     int               `json:"next"`
	Panics   []childFinding    `json:"panics"`
	Unstable []childFinding    `json:"unstable"`
	PanicN   int               `json:"panic_n"`
	UnstabN  int               `json:"unstable_n"`
	Classes  map[string]int    `json:"classes"`
	Extra    map[string]string `json:"extra,omitempty"`
}

type childFinding struct {
	Class string `json:"class"`
	Input string `json:"input"`
	Msg   string `json:"msg"`
}

const childMemKB = 4 * 1024 * 1024

func hostileParent(r *kit.Run, rep *reporter, reg []*spec) {
	self := os.Getenv("VERIF_SELF")
	if self == "" {
		self = os.Args[0]
	}
	tmp := pk.TempDir("c04-hostile")
	defer os.RemoveAll(tmp)
	per := r.N(4000, 60000)
	maxDeaths := r.N(6, 8)
	jobs := make(chan *spec)
	var wg sync.WaitGroup
	report := rep.Violation
	worker := func() {
		defer wg.Done()
		for s := range jobs {
			start := 0
			deaths := 0
			for start < per && deaths < maxDeaths {
				last := filepath.Join(tmp, strings.Replace(s.name, ".", "_", -1)+".last")
				os.Remove(last)
				script := fmt.Sprintf("ulimit -v %d; exec \"$0\" \"$@\"", childMemKB)
				cmd := exec.Command("sh", "-c", script, self, "-test.run", "^TestC04HostileChild$", "-test.v", "-test.count", "1", "-test.timeout", "0")
				cmd.Env = append(os.Environ(), "C04_CHILD_TYPE="+s.name, "C04_CHILD_START="+strconv.Itoa(start), "C04_CHILD_N="+strconv.Itoa(per), "C04_CHILD_LAST="+last,
					"GOMAXPROCS=2", "GOGC=50")
				out, err := cmd.CombinedOutput()
				var res *childResult
				sc := bufio.NewScanner(bytes.NewReader(out))
				sc.Buffer(make([]byte, 1<<20), 1<<26)
				for sc.Scan() {
					line := sc.Text()
					if strings.HasPrefix(line, "C04R ") {
						res = &childResult{}
						if json.Unmarshal([]byte(line[5:]), res) != nil {
							res = nil
						}
					}
				}
				if res != nil {
					r.Eval(res.Cases)
					r.Count("hostile_cases", res.Cases)
					r.Count("hostile_rejected", res.Rejected)
					r.Count("hostile_accepted", res.Accepted)
					r.Count("hostile_accepted_and_stable", res.Stable)
					r.Count("hostile_cases:"+s.name, res.Cases)
					for c, cnt := range res.Classes {
						r.Distinct("hostile", s.name, c)
						if strings.HasPrefix(c, "wrapping-count") {
							r.Count("hostile_wrapping_count_cases", cnt)
							r.Count("hostile_wrapping_count_cases:"+s.name, cnt)
						}
					}
					for _, f := range res.Panics {
						report("decode-panic:"+s.name, fmt.Sprintf("%s input made the decoder panic: %s (%d such inputs in this run)", f.Class, f.Msg, res.PanicN),
							map[string]string{"type": s.name, "input": f.Input, "class": f.Class})
					}
					for _, f := range res.Unstable {
						report("accepted-input-not-stable:"+s.name, fmt.Sprintf("%s input was accepted but does not round-trip: %s", f.Class, f.Msg),
							map[string]string{"type": s.name, "input": f.Input, "class": f.Class})
					}
				}
				if res != nil && err == nil {
					break // child finished its whole range
				}
				// the child died: the last case on disk is the witness
				deaths++
				idx, class, input := readLast(last)
				why := firstFatal(string(out))
				if idx < 0 {
					r.Inconclusive(fmt.Sprintf("hostile child for %s failed without a last case: %v %s", s.name, err, why))
					break
				}
				r.Count("hostile_child_deaths", 1)
				report("decode-fatal:"+s.name, fmt.Sprintf("%s input killed the decoding process (%s) under a %d KiB address-space cap", class, why, childMemKB),
					map[string]string{"type": s.name, "input": input, "class": class, "error": why})
				start = idx + 1
			}
		}
	}
	nw := 12
	for i := 0; i < nw; i++ {
		wg.Add(1)
		go worker()
	}
	for _, s := range reg {
		jobs <- s
	}
	close(jobs)
	wg.Wait()
	r.Require("hostile_cases", len(reg)*per/2)
	r.Require("hostile_rejected", len(reg)*per/4)
	r.Require("hostile_accepted_and_stable", len(reg))
	r.Require("hostile_wrapping_count_cases", 4000)
	r.Require("hostile_wrapping_count_cases:btc.Utxos", 300)
	r.Require("hostile_wrapping_count_cases:node_manager.PeerPoolMap", 300)
}

func readLast(path string) (int, string, string) {
	b, err := ioutil.ReadFile(path)
	if err != nil {
		return -1, "", ""
	}
	parts := strings.SplitN(strings.TrimSpace(string(b)), " ", 3)
	if len(parts) != 3 {
		return -1, "", ""
	}
	i, err := strconv.Atoi(parts[0])
	if err != nil {
		return -1, "", ""
	}
	return i, parts[1], parts[2]
}

func firstFatal(out string) string {
	for _, l := range strings.Split(out, "\n") {
		if strings.HasPrefix(l, "fatal error:") || strings.HasPrefix(l, "runtime:") || strings.HasPrefix(l, "panic:") || strings.Contains(l, "out of memory") {
			return strings.TrimSpace(l)
		}
	}
	if len(out) > 200 {
		out = out[:200]
	}
	return strings.TrimSpace(out)
}

// ---- hostile inputs: child side -----------------------------------------------------------------

type hostileCase struct {
	class string
	data  []byte
}

var wideCounts = [][]byte{
	{0xfd, 0xff, 0xff}, {0xfe, 0xff, 0xff, 0xff, 0xff}, {0xfe, 0x00, 0x00, 0x00, 0x10}, {0xfe, 0x00, 0x00, 0x00, 0x01},
	{0xff, 0xff, 0xff, 0xff, 0xff, 0xff, 0xff, 0xff, 0xff}, {0xff, 0x00, 0x00, 0x00, 0x00, 0x01, 0x00, 0x00, 0x00}, {0xff, 0x00, 0x00, 0x00, 0x00, 0x00, 0x00, 0x00, 0x80},
	{0xff, 0xff, 0xff, 0xff, 0xff, 0xff, 0xff, 0xff, 0x7f}, {0xfe, 0xff, 0xff, 0xff, 0x7f}, {0xfe, 0x00, 0x00, 0x00, 0x80},
}

// hostileCases is a deterministic function of (type, seed, n).
func hostileCases(s *spec, rng *rand.Rand, n int) []hostileCase {
	var out, tail []hostileCase
	// Deterministic probes of every count / length field: a few honest encodings with an
	// astronomically large count spliced in at every position come first (such a count can only be
	// refused or make an allocation size check panic, it can never be allocated); the same
	// positions with a count of 2^31-1 (allocatable on paper, tens of GiB in practice) come last, so
	// that a decoder that dies on them does not hide the rest of its cases.
	for k := 0; k < 3; k++ {
		base, err := s.encode(s.gen(rng))
		if err != nil || len(base) > 300 {
			k--
			continue
		}
		for i := 0; i < len(base); i++ {
			for _, w := range [][]byte{{0xff, 0xff, 0xff, 0xff, 0xff, 0xff, 0xff, 0xff, 0xff}, {0xff, 0xff, 0xff, 0xff, 0xff, 0xff, 0xff, 0xff, 0x7f}} {
				out = append(out, hostileCase{"astronomic-count-spliced", append(append(append([]byte{}, base[:i]...), w...), base[i+1:]...)})
			}
			if k == 0 {
				tail = append(tail, hostileCase{"count-2^31-spliced", append(append(append([]byte{}, base[:i]...), 0xfe, 0xff, 0xff, 0xff, 0x7f), base[i+1:]...)})
			}
		}
	}
	if len(out) > n/4 {
		out = out[:n/4]
	}
	if len(tail) > n/8 {
		tail = tail[:n/8]
	}
	// Counts whose product with a small element size wraps around 2^64 (a "count * size <= bytes
	// left" plausibility bound computed in uint64 lets them through): for every element size k in
	// 1..64 the values ceil(2^64/k), +1 and twice that, written over the count field of each
	// collection of the type. The count field is located by encoding the same value with one and
	// with two entries (same generator stream): the first differing byte is the count. Such counts
	// are >= 2^58, so they can only be refused or trip an allocation size check, never be allocated.
	var ov []hostileCase
	for skip := 0; skip < 3; skip++ {
		sd := rng.Int63()
		v1, ok1 := s.genN(rand.New(rand.NewSource(sd)), 1, skip)
		v2, ok2 := s.genN(rand.New(rand.NewSource(sd)), 2, skip)
		if !ok1 || !ok2 {
			break
		}
		b1, e1 := s.encode(v1)
		b2, e2 := s.encode(v2)
		if e1 != nil || e2 != nil {
			continue
		}
		pos := 0
		for pos < len(b1) && pos < len(b2) && b1[pos] == b2[pos] {
			pos++
		}
		if pos >= len(b1) {
			continue
		}
		two64 := new(big.Int).Lsh(big.NewInt(1), 64)
		for k := int64(1); k <= 64; k++ {
			q := new(big.Int).Add(two64, big.NewInt(k-1))
			q.Div(q, big.NewInt(k)) // ceil(2^64/k)
			for _, c := range []*big.Int{q, new(big.Int).Add(q, big.NewInt(1)), new(big.Int).Lsh(q, 1), new(big.Int).Mul(q, big.NewInt(3))} {
				if c.Cmp(two64) >= 0 {
					continue
				}
				le := make([]byte, 8)
				binary.LittleEndian.PutUint64(le, c.Uint64())
				// the count as a fixed 8-byte field, and as a var-uint (0xff form) in place of a 1-byte count
				d := append([]byte{}, b1...)
				for len(d) < pos+8 {
					d = append(d, 0)
				}
				copy(d[pos:], le)
				ov = append(ov, hostileCase{"wrapping-count-overwritten", d})
				ov = append(ov, hostileCase{"wrapping-count-spliced", append(append(append([]byte{}, b1[:pos]...), append([]byte{0xff}, le...)...), b1[pos+1:]...)})
			}
		}
	}
	if len(ov) > n/2 {
		ov = ov[:n/2]
	}
	out = append(ov, out...)
	n -= len(tail)
	add := func(class string, d []byte) {
		if len(out) < n {
			out = append(out, hostileCase{class, d})
		}
	}
	for len(out) < n {
		base, err := s.encode(s.gen(rng))
		if err != nil {
			continue
		}
		if len(base) > 600 {
			// keep hostile inputs small: the point is the decoder, not the allocator of the input
			continue
		}
		// every truncation
		for i := 0; i < len(base); i++ {
			add("truncated", append([]byte{}, base[:i]...))
		}
		// substitutions at every position (first 64) and sampled later ones
		for i := 0; i < len(base); i++ {
			if i >= 64 && rng.Intn(8) != 0 {
				continue
			}
			for _, c := range []byte{0x00, 0x01, 0xfd, 0xfe, 0xff} {
				if base[i] == c {
					continue
				}
				d := append([]byte{}, base...)
				d[i] = c
				add("byte-substituted", d)
			}
			// a wide count spliced in place of the byte
			w := wideCounts[rng.Intn(len(wideCounts))]
			d := append(append(append([]byte{}, base[:i]...), w...), base[i+1:]...)
			add("wide-count-spliced", d)
			if rng.Intn(4) == 0 {
				// a wide count followed by nothing
				add("wide-count-then-eof", append(append([]byte{}, base[:i]...), w...))
			}
		}
		add("extended", append(append([]byte{}, base...), byte(rng.Intn(256))))
		add("extended", append(append([]byte{}, base...), genBytes(rng)...))
		for k := 0; k < 12; k++ {
			d := make([]byte, rng.Intn(48))
			rng.Read(d)
			add("random", d)
			if len(d) > 0 {
				d2 := append([]byte{}, d...)
				d2[rng.Intn(len(d2))] = []byte{0xfd, 0xfe, 0xff}[rng.Intn(3)]
				add("random-with-count-bytes", d2)
			}
		}
		add("empty", []byte{})
	}
	return append(out, tail...)
}

func TestC04HostileChild(t *testing.T) {
	name := os.Getenv("C04_CHILD_TYPE")
	if name == "" {
		return
	}
	setup()
	var s *spec
	for _, x := range registry() {
		if x.name == name {
			s = x
		}
	}
	if s == nil {
		t.Fatalf("unknown type %s", name)
	}
	start, _ := strconv.Atoi(os.Getenv("C04_CHILD_START"))
	n, _ := strconv.Atoi(os.Getenv("C04_CHILD_N"))
	seed, _ := strconv.ParseInt(os.Getenv("VERIF_SEED"), 10, 64)
	if seed == 0 {
		seed = 1
	}
	// same derivation as kit.Run.Rand, without starting a Run (the parent owns the evidence)
	rr := &kit.Run{ID: "C04", Seed: seed}
	rng := rr.Rand("hostile/" + s.name)
	cases := hostileCases(s, rng, n)
	lastPath := os.Getenv("C04_CHILD_LAST")
	var lf *os.File
	if lastPath != "" {
		lf, _ = os.OpenFile(lastPath, os.O_CREATE|os.O_RDWR, 0644)
	}
	res := &childResult{Type: s.name, Classes: map[string]int{}}
	flush := func() {
		b, _ := json.Marshal(res)
		fmt.Printf("\nC04R %s\n", b)
	}
	for i := start; i < len(cases); i++ {
		c := cases[i]
		if res.Cases > 0 && res.Cases%250 == 0 {
			flush() // cumulative; the parent keeps the last line, so work before a fatal error still counts
		}
		if lf != nil {
			rec := []byte(fmt.Sprintf("%d %s %s\n", i, c.class, kit.Hex(c.data)))
			lf.WriteAt(rec, 0)
			lf.Truncate(int64(len(rec)))
		}
		res.Cases++
		var v interface{}
		var err error
		if p := kit.Catch(func() { v, err = s.decode(c.data) }); p != nil {
			res.PanicN++
			res.Classes[c.class+"/panic"]++
			if len(res.Panics) < 3 {
				res.Panics = append(res.Panics, childFinding{c.class, kit.Hex(c.data), fmt.Sprint(p)})
				flush()
			}
			continue
		}
		if err != nil {
			res.Rejected++
			res.Classes[c.class+"/rejected"]++
			continue
		}
		res.Accepted++
		res.Classes[c.class+"/accepted"]++
		// an accepted input is a value of the type: it must round-trip
		var b1 []byte
		var v2 interface{}
		var e1, e2 error
		if p := kit.Catch(func() {
			b1, e1 = s.encode(v)
			if e1 == nil {
				v2, e2 = s.decode(b1)
			}
		}); p != nil {
			res.UnstabN++
			if len(res.Unstable) < 3 {
				res.Unstable = append(res.Unstable, childFinding{c.class, kit.Hex(c.data), fmt.Sprintf("re-encoding the accepted value panicked: %v", p)})
			}
			continue
		}
		if e1 != nil || e2 != nil {
			res.UnstabN++
			if len(res.Unstable) < 3 {
				res.Unstable = append(res.Unstable, childFinding{c.class, kit.Hex(c.data), fmt.Sprintf("accepted value: encode err=%v decode err=%v", e1, e2)})
			}
			continue
		}
		if ok, where := s.same(v, v2); !ok {
			res.UnstabN++
			if len(res.Unstable) < 3 {
				res.Unstable = append(res.Unstable, childFinding{c.class, kit.Hex(c.data), "accepted value changes on the next round trip at " + where})
			}
			continue
		}
		res.Stable++
	}
	res.Next = len(cases)
	flush()
}
