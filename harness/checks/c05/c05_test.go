// C05: p2p frames (p2pserver/message/types WriteMessage / ReadMessage) round-trip for all 16
// message kinds; wrong magic, checksum / length mismatch, oversize payload and unknown command are
// rejected; arbitrary streams never panic or kill the process.
//
// The checker builds and dissects frames itself (4-byte magic, 12-byte NUL-padded command, 4-byte
// length, 4-byte checksum, payload) and decides from the *corrupted frame alone* whether the
// property demands rejection; where it does not (e.g. "ping" corrupted into "pong": both are known
// commands with the same payload shape) nothing is asserted. Hostile payloads behind honest headers
// are decoded in a child process (shared executor of checks/c02).
package c05

import (
	"bufio"
	"bytes"
	"encoding/binary"
	"fmt"
	"io"
	"math/rand"
	"net"
	"reflect"
	"runtime"
	"strings"
	"testing"
	"testing/iotest"

	"verifharness/checks/c02"
	"verifharness/kit"

	"github.com/ontio/ontology-crypto/keypair"
	"github.com/polynetwork/poly/common"
	"github.com/polynetwork/poly/common/config"
	pc "github.com/polynetwork/poly/p2pserver/common"
	mt "github.com/polynetwork/poly/p2pserver/message/types"
)

const testMagic = 0x5aa5c3d1

func init() { config.DefConfig.P2PNode.NetworkMagic = testMagic }

// the 16 commands of the protocol
var kinds = []string{pc.VERSION_TYPE, pc.VERACK_TYPE, pc.GetADDR_TYPE, pc.ADDR_TYPE, pc.PING_TYPE, pc.PONG_TYPE, pc.GET_HEADERS_TYPE,
	pc.HEADERS_TYPE, pc.INV_TYPE, pc.GET_DATA_TYPE, pc.BLOCK_TYPE, pc.TX_TYPE, pc.CONSENSUS_TYPE, pc.GET_BLOCKS_TYPE, pc.NOT_FOUND_TYPE, pc.DISCONNECT_TYPE}

const hdrLen = 24

// ---------------------------------------------------------------------------------------------
// the checker's own view of a frame

func refChecksum(p []byte) [4]byte {
	d := c02.Dsha(p)
	var c [4]byte
	copy(c[:], d[:4])
	return c
}

func cmdField(cmd string) [12]byte {
	var f [12]byte
	copy(f[:], cmd)
	return f
}

func buildFrame(magic uint32, cmd [12]byte, length uint32, sum [4]byte, payload []byte) []byte {
	b := make([]byte, hdrLen, hdrLen+len(payload))
	binary.LittleEndian.PutUint32(b[0:], magic)
	copy(b[4:16], cmd[:])
	binary.LittleEndian.PutUint32(b[16:], length)
	copy(b[20:24], sum[:])
	return append(b, payload...)
}

func honestHeaderFrame(cmd string, payload []byte) []byte {
	return buildFrame(testMagic, cmdField(cmd), uint32(len(payload)), refChecksum(payload), payload)
}

func knownCmd(f []byte) bool {
	name := strings.TrimRight(string(f), "\x00")
	for _, k := range kinds {
		if k == name {
			return true
		}
	}
	return false
}

// mustReject decides, from the frame bytes alone, whether the property demands rejection.
// orig (optional) is the honest frame this one was derived from; it is only used when the node's
// checksum turned out not to be the reference sha256d (then "mismatch" = anything changed).
func mustReject(f []byte, orig []byte, refOK bool) string {
	if len(f) < hdrLen {
		return "truncated-header"
	}
	if binary.LittleEndian.Uint32(f[0:]) != testMagic {
		return "magic"
	}
	length := binary.LittleEndian.Uint32(f[16:])
	if length > pc.MAX_PAYLOAD_LEN {
		return "length-over-limit"
	}
	if uint64(len(f)-hdrLen) < uint64(length) {
		return "length-exceeds-data"
	}
	payload := f[hdrLen : hdrLen+int(length)]
	if refOK {
		if c := refChecksum(payload); !bytes.Equal(c[:], f[20:24]) {
			return "checksum"
		}
	} else if orig != nil {
		if !bytes.Equal(payload, orig[hdrLen:]) || !bytes.Equal(f[20:24], orig[20:24]) {
			return "checksum"
		}
	}
	if !knownCmd(f[4:16]) {
		return "unknown-command"
	}
	return ""
}

// ---------------------------------------------------------------------------------------------
// message generators: every generator returns the message and a comparison closure

type genMsg struct {
	kind string
	msg  mt.Message
	diff func(got mt.Message) string
	tx   *c02.TxSpec    // TX_TYPE only
	blk  *c02.BlockSpec // BLOCK_TYPE only
}

func hash(rng *rand.Rand) common.Uint256 {
	var h common.Uint256
	rng.Read(h[:])
	if rng.Intn(10) == 0 {
		h = common.Uint256{}
	}
	return h
}

var edges = []uint64{0, 1, 0xFC, 0xFD, 0xFFFF, 0x10000, 0xFFFFFFFF, 1 << 32, 1<<63 - 1, 1 << 63, 1<<64 - 1}

func u64(rng *rand.Rand) uint64 {
	if rng.Intn(3) == 0 {
		return edges[rng.Intn(len(edges))]
	}
	return rng.Uint64() >> uint(rng.Intn(64))
}

func deepDiff(want interface{}) func(mt.Message) string {
	return func(got mt.Message) string {
		if !reflect.DeepEqual(got, want) {
			return fmt.Sprintf("got %+v want %+v", got, want)
		}
		return ""
	}
}

func gen(rng *rand.Rand, kind string, pool []c02.PoolKey) genMsg {
	g := genMsg{kind: kind}
	switch kind {
	case pc.PING_TYPE:
		m := &mt.Ping{Height: u64(rng)}
		g.msg, g.diff = m, deepDiff(&mt.Ping{Height: m.Height})
	case pc.PONG_TYPE:
		m := &mt.Pong{Height: u64(rng)}
		g.msg, g.diff = m, deepDiff(&mt.Pong{Height: m.Height})
	case pc.VERACK_TYPE:
		m := &mt.VerACK{IsConsensus: rng.Intn(2) == 0}
		g.msg, g.diff = m, deepDiff(&mt.VerACK{IsConsensus: m.IsConsensus})
	case pc.GetADDR_TYPE:
		g.msg, g.diff = &mt.AddrReq{}, deepDiff(&mt.AddrReq{})
	case pc.DISCONNECT_TYPE:
		g.msg, g.diff = &mt.Disconnected{}, deepDiff(&mt.Disconnected{})
	case pc.NOT_FOUND_TYPE:
		m := &mt.NotFound{Hash: hash(rng)}
		g.msg, g.diff = m, deepDiff(&mt.NotFound{Hash: m.Hash})
	case pc.GET_DATA_TYPE:
		m := &mt.DataReq{DataType: common.InventoryType(rng.Intn(256)), Hash: hash(rng)}
		g.msg, g.diff = m, deepDiff(&mt.DataReq{DataType: m.DataType, Hash: m.Hash})
	case pc.GET_HEADERS_TYPE:
		m := &mt.HeadersReq{Len: uint8(rng.Intn(256)), HashStart: hash(rng), HashEnd: hash(rng)}
		c := *m
		g.msg, g.diff = m, deepDiff(&c)
	case pc.GET_BLOCKS_TYPE:
		m := &mt.BlocksReq{HeaderHashCount: uint8(rng.Intn(256)), HashStart: hash(rng), HashStop: hash(rng)}
		c := *m
		g.msg, g.diff = m, deepDiff(&c)
	case pc.VERSION_TYPE:
		m := &mt.Version{}
		m.P = mt.VersionPayload{Version: uint32(u64(rng)), Services: u64(rng), TimeStamp: int64(u64(rng)), SyncPort: uint16(u64(rng)), HttpInfoPort: uint16(u64(rng)),
			ConsPort: uint16(u64(rng)), Nonce: u64(rng), StartHeight: u64(rng), Relay: uint8(rng.Intn(256)), IsConsensus: rng.Intn(2) == 0}
		rng.Read(m.P.Cap[:])
		sv := make([]byte, []int{0, 1, 6, 0xFC, 0xFD, 0x100, 300}[rng.Intn(7)])
		for i := range sv {
			sv[i] = byte(0x20 + rng.Intn(0x5f))
		}
		m.P.SoftVersion = string(sv)
		c := *m
		g.msg, g.diff = m, deepDiff(&c)
	case pc.ADDR_TYPE:
		n := []int{0, 1, 2, 7, 63, 64}[rng.Intn(6)] // up to MAX_ADDR_NODE_CNT
		m := &mt.Addr{}
		for i := 0; i < n; i++ {
			a := pc.PeerAddr{Time: int64(u64(rng)), Services: u64(rng), Port: uint16(u64(rng)), ConsensusPort: uint16(u64(rng)), ID: u64(rng)}
			rng.Read(a.IpAddr[:])
			m.NodeAddrs = append(m.NodeAddrs, a)
		}
		want := append([]pc.PeerAddr{}, m.NodeAddrs...)
		g.msg = m
		g.diff = func(got mt.Message) string {
			x, ok := got.(*mt.Addr)
			if !ok {
				return fmt.Sprintf("type %T", got)
			}
			if len(x.NodeAddrs) != len(want) {
				return fmt.Sprintf("%d addresses, want %d", len(x.NodeAddrs), len(want))
			}
			for i := range want {
				if x.NodeAddrs[i] != want[i] {
					return fmt.Sprintf("address %d: %+v != %+v", i, x.NodeAddrs[i], want[i])
				}
			}
			return ""
		}
	case pc.INV_TYPE:
		n := []int{0, 1, 2, 9, 63, 64}[rng.Intn(6)] // up to MAX_INV_BLK_CNT
		m := &mt.Inv{}
		m.P.InvType = common.InventoryType(rng.Intn(256))
		for i := 0; i < n; i++ {
			m.P.Blk = append(m.P.Blk, hash(rng))
		}
		want := append([]common.Uint256{}, m.P.Blk...)
		it := m.P.InvType
		g.msg = m
		g.diff = func(got mt.Message) string {
			x, ok := got.(*mt.Inv)
			if !ok {
				return fmt.Sprintf("type %T", got)
			}
			if x.P.InvType != it || len(x.P.Blk) != len(want) {
				return fmt.Sprintf("type %d/%d, %d hashes want %d", x.P.InvType, it, len(x.P.Blk), len(want))
			}
			for i := range want {
				if x.P.Blk[i] != want[i] {
					return fmt.Sprintf("hash %d differs", i)
				}
			}
			return ""
		}
	case pc.TX_TYPE:
		s := c02.GenTx(rng, pool, 600)
		_, h := c02.UnsignedTx(s)
		g.msg = &mt.Trn{Txn: s.Build()}
		g.tx = s
		g.diff = func(got mt.Message) string {
			x, ok := got.(*mt.Trn)
			if !ok || x.Txn == nil {
				return fmt.Sprintf("type %T", got)
			}
			if f, w := c02.TxDiff(x.Txn, s); f != "" {
				return "tx field " + f + " " + w
			}
			if [32]byte(x.Txn.Hash()) != h {
				return "tx identity differs from sha256d(unsigned bytes)"
			}
			return ""
		}
	case pc.HEADERS_TYPE:
		n := rng.Intn(5)
		m := &mt.BlkHeader{}
		var specs []*c02.HeaderSpec
		for i := 0; i < n; i++ {
			s := c02.GenHeader(rng, pool, 300)
			specs = append(specs, s)
			m.BlkHdr = append(m.BlkHdr, s.Build())
		}
		g.msg = m
		g.diff = func(got mt.Message) string {
			x, ok := got.(*mt.BlkHeader)
			if !ok {
				return fmt.Sprintf("type %T", got)
			}
			if len(x.BlkHdr) != len(specs) {
				return fmt.Sprintf("%d headers, want %d", len(x.BlkHdr), len(specs))
			}
			for i, s := range specs {
				if f := c02.HeaderDiff(x.BlkHdr[i], s); f != "" {
					return fmt.Sprintf("header %d field %s", i, f)
				}
			}
			return ""
		}
	case pc.BLOCK_TYPE:
		hs := c02.GenHeader(rng, pool, 200)
		var txs []*c02.TxSpec
		for n := rng.Intn(5); n > 0; n-- {
			txs = append(txs, c02.GenTx(rng, pool, 200))
		}
		blk, bs := c02.BuildBlock(hs, txs)
		m := &mt.Block{Blk: blk, MerkleRoot: hash(rng)}
		mr := m.MerkleRoot
		g.msg = m
		g.blk = bs
		g.diff = func(got mt.Message) string {
			x, ok := got.(*mt.Block)
			if !ok || x.Blk == nil || x.Blk.Header == nil {
				return fmt.Sprintf("type %T", got)
			}
			if x.MerkleRoot != mr {
				return "merkle root differs"
			}
			if f := c02.HeaderDiff(x.Blk.Header, bs.Header); f != "" {
				return "block header field " + f
			}
			if len(x.Blk.Transactions) != len(bs.Txs) {
				return "tx count"
			}
			for i, s := range bs.Txs {
				if f, w := c02.TxDiff(x.Blk.Transactions[i], s); f != "" {
					return fmt.Sprintf("tx %d field %s %s", i, f, w)
				}
			}
			return ""
		}
	case pc.CONSENSUS_TYPE:
		k := pool[rng.Intn(len(pool))]
		m := &mt.Consensus{}
		m.Cons = mt.ConsensusPayload{Version: uint32(u64(rng)), PrevHash: hash(rng), Height: uint32(u64(rng)), BookkeeperIndex: uint16(u64(rng)),
			Timestamp: uint32(u64(rng)), Owner: k.Pub}
		m.Cons.Data = make([]byte, []int{0, 1, 0xFC, 0xFD, 400, 0x10000}[rng.Intn(6)])
		rng.Read(m.Cons.Data)
		m.Cons.Signature = make([]byte, []int{0, 64, 65, 70}[rng.Intn(4)])
		rng.Read(m.Cons.Signature)
		w := m.Cons
		g.msg = m
		g.diff = func(got mt.Message) string {
			x, ok := got.(*mt.Consensus)
			if !ok {
				return fmt.Sprintf("type %T", got)
			}
			c := x.Cons
			switch {
			case c.Version != w.Version, c.PrevHash != w.PrevHash, c.Height != w.Height, c.BookkeeperIndex != w.BookkeeperIndex, c.Timestamp != w.Timestamp:
				return "fixed fields differ"
			case !bytes.Equal(c.Data, w.Data):
				return "data differs"
			case !bytes.Equal(c.Signature, w.Signature):
				return "signature differs"
			case c.Owner == nil || !bytes.Equal(keypair.SerializePublicKey(c.Owner), k.Bytes):
				return "owner differs"
			}
			return ""
		}
	}
	return g
}

// ---------------------------------------------------------------------------------------------

type mon struct {
	r        *kit.Run
	pool     []c02.PoolKey
	refOK    bool
	hostile  []c02.Case
	hostileN int
	reported map[string]int
	// set when the size-limit probe found the limit not enforced: the cases that announce huge
	// lengths are then skipped (each would make the node allocate up to 4 GiB)
	limitBroken bool
}

func (m *mon) violationOnce(key, what string, replay interface{}) {
	if m.reported == nil {
		m.reported = map[string]int{}
	}
	m.reported[key]++
	m.r.Count("inputs_hitting:"+key, 1)
	if m.reported[key] == 1 {
		m.r.Violation(key, what, replay)
	}
}

func clip(b []byte, n int) []byte {
	if len(b) > n {
		return b[:n]
	}
	return b
}

// read runs the real ReadMessage on a byte stream (panics are caught and reported).
func (m *mon) read(stream []byte) (msg mt.Message, n uint32, err error, panicked bool) {
	p, site := c02.CatchSite(func() { msg, n, err = mt.ReadMessage(bytes.NewReader(stream)) })
	if p != nil {
		m.violationOnce("p2p-read-panic:"+site, fmt.Sprintf("ReadMessage panicked on a %d-byte stream: %v", len(stream), p), kit.Hex(clip(stream, 1<<16)))
		return nil, 0, nil, true
	}
	return
}

// write runs the real WriteMessage.
func (m *mon) write(g genMsg) ([]byte, bool) {
	sink := common.NewZeroCopySink(nil)
	var err error
	if p := kit.Catch(func() { err = mt.WriteMessage(sink, g.msg) }); p != nil {
		m.violationOnce("p2p-write-panic:"+g.kind, fmt.Sprint(p), nil)
		return nil, false
	}
	if err != nil {
		m.violationOnce("honest-message-write-error:"+g.kind, err.Error(), nil)
		return nil, false
	}
	return append([]byte{}, sink.Bytes()...), true
}

// roundTrip checks write-then-read of one message; it returns the honest frame.
func (m *mon) roundTrip(g genMsg) ([]byte, mt.Message, bool) {
	r := m.r
	frame, ok := m.write(g)
	r.Eval(1)
	if !ok {
		return nil, nil, false
	}
	if len(frame) < hdrLen {
		m.violationOnce("frame-shorter-than-header:"+g.kind, fmt.Sprintf("%d bytes", len(frame)), kit.Hex(frame))
		return nil, nil, false
	}
	payload := frame[hdrLen:]
	// the checker's reading of the header the node wrote
	if binary.LittleEndian.Uint32(frame[0:]) != testMagic || binary.LittleEndian.Uint32(frame[16:]) != uint32(len(payload)) || cmdField(g.kind) != cmdOf(frame) {
		m.violationOnce("written-header-inconsistent:"+g.kind, "magic / command / length written by WriteMessage do not describe the frame", kit.Hex(clip(frame, 4096)))
		return nil, nil, false
	}
	if c := refChecksum(payload); bytes.Equal(c[:], frame[20:24]) {
		r.Count("checksum_is_sha256d", 1)
	} else {
		r.Count("checksum_not_sha256d", 1)
		m.refOK = false
	}
	msg, n, err, pan := m.read(frame)
	if pan {
		return nil, nil, false
	}
	if err != nil {
		m.violationOnce("honest-frame-rejected:"+g.kind, fmt.Sprintf("%d-byte payload: %v", len(payload), err), kit.Hex(clip(frame, 4096)))
		return nil, nil, false
	}
	if int(n) != len(payload) {
		m.violationOnce("payload-size-misreported:"+g.kind, fmt.Sprintf("ReadMessage reported %d, payload has %d bytes", n, len(payload)), kit.Hex(clip(frame, 4096)))
		return nil, nil, false
	}
	if msg.CmdType() != g.kind {
		m.violationOnce("roundtrip-kind-changed:"+g.kind, "read back as "+msg.CmdType(), kit.Hex(clip(frame, 4096)))
		return nil, nil, false
	}
	if d := g.diff(msg); d != "" {
		m.violationOnce("roundtrip-message-changed:"+g.kind, d, kit.Hex(clip(frame, 4096)))
		return nil, nil, false
	}
	r.Count("roundtrip_"+g.kind, 1)
	return frame, msg, true
}

// sent is an honest frame together with the generator record that knows what was written.
type sent struct {
	frame []byte
	g     genMsg
}

// kept is a decoded message the caller still holds while further frames are read.
type kept struct {
	g     genMsg
	msg   mt.Message
	frame []byte
}

// retained applies the retention oracle: a message ReadMessage handed to the caller must still be
// the message that was written after any number of later ReadMessage calls (accepted or rejected
// frames alike) - the caller owns what it was given.
func (m *mon) retained(ks []kept, after string) (all bool) {
	all = true
	for _, k := range ks {
		m.r.Eval(1)
		if d := k.g.diff(k.msg); d != "" {
			m.violationOnce("retained-message-changed:"+k.g.kind, fmt.Sprintf("a %s message that compared equal right after ReadMessage differs after %s: %s", k.g.kind, after, d), kit.Hex(clip(k.frame, 4096)))
			all = false
			continue
		}
		sink := common.NewZeroCopySink(nil)
		if err := mt.WriteMessage(sink, k.msg); err != nil || !bytes.Equal(sink.Bytes(), k.frame) {
			m.violationOnce("retained-message-changed:"+k.g.kind, fmt.Sprintf("a %s message re-encodes differently after %s (err=%v)", k.g.kind, after, err), kit.Hex(clip(k.frame, 4096)))
			all = false
			continue
		}
		m.r.Count("retained_unchanged", 1)
	}
	return all
}

// reader shapes for the multi-frame streams
var readerModes = []string{"whole-buffer", "random-chunks", "one-byte", "pipe-segments", "bufio16-over-chunks"}

// chunkReader returns at most the next pre-drawn chunk size per Read call (sizes 1..40, so that
// 24-byte headers are regularly split).
type chunkReader struct {
	src  io.Reader
	next func() int
}

func (c *chunkReader) Read(p []byte) (int, error) {
	n := c.next()
	if n < len(p) {
		p = p[:n]
	}
	return c.src.Read(p)
}

// deliver wraps the stream in the named reader shape. finish releases what the shape holds.
func deliver(rng *rand.Rand, mode string, base *bytes.Reader, stream []byte) (io.Reader, func()) {
	sizes := make([]int, 64)
	for i := range sizes {
		sizes[i] = 1 + rng.Intn(40)
		if rng.Intn(6) == 0 {
			sizes[i] = 1 + rng.Intn(4000)
		}
	}
	at := 0
	next := func() int { at++; return sizes[at%len(sizes)] }
	switch mode {
	case "random-chunks":
		return &chunkReader{src: base, next: next}, func() {}
	case "one-byte":
		return iotest.OneByteReader(base), func() {}
	case "bufio16-over-chunks":
		return bufio.NewReaderSize(&chunkReader{src: base, next: next}, 16), func() {}
	case "pipe-segments":
		// a synchronous in-memory connection: the writer side sends the stream in segments that do
		// not line up with frame boundaries; every Read on the other side gets at most one segment
		pr, pw := net.Pipe()
		done := make(chan struct{})
		go func() {
			defer close(done)
			buf := make([]byte, 4000)
			for {
				n, err := base.Read(buf[:next()])
				if n > 0 {
					if _, werr := pw.Write(buf[:n]); werr != nil {
						return
					}
				}
				if err != nil {
					pw.Close()
					return
				}
			}
		}()
		return pr, func() { pr.Close(); <-done }
	}
	return base, func() {}
}

func cmdOf(frame []byte) [12]byte {
	var c [12]byte
	copy(c[:], frame[4:16])
	return c
}

func region(i int) string {
	switch {
	case i < 4:
		return "magic"
	case i < 16:
		return "command"
	case i < 20:
		return "length"
	case i < 24:
		return "checksum"
	}
	return "payload"
}

// judge feeds a frame derived from an honest one to ReadMessage and applies the rejection oracle.
func (m *mon) judge(kind string, f []byte, orig []byte, how string) {
	r := m.r
	why := mustReject(f, orig, m.refOK)
	msg, _, err, pan := m.read(f)
	r.Eval(1)
	if pan {
		return
	}
	if why != "" {
		if err == nil && msg != nil {
			m.violationOnce("bad-frame-accepted:"+why+":"+how, fmt.Sprintf("%s frame, %s: the frame must be rejected (%s) but was read as %q", kind, how, why, msg.CmdType()), kit.Hex(clip(f, 4096)))
			return
		}
		r.Count("rejected_"+why, 1)
	} else {
		// nothing demanded: still a valid frame by every rule of the property
		if err == nil {
			r.Count("undemanded_accepted", 1)
		} else {
			r.Count("undemanded_rejected", 1)
		}
	}
	r.Distinct("corrupt", kind, how, why, err == nil)
}

func (m *mon) corruptFrame(rng *rand.Rand, kind string, frame []byte, full bool, allValuesHeader bool, bigLen bool) {
	variants := func(b byte, v int) byte {
		switch v {
		case 0:
			return b + 1
		case 1:
			return b ^ 0x80
		}
		for {
			x := byte(rng.Intn(256))
			if x != b {
				return x
			}
		}
	}
	try := func(i int, nb byte, how string) {
		if nb == frame[i] {
			return
		}
		f := append([]byte{}, frame...)
		f[i] = nb
		m.judge(kind, f, frame, how)
	}
	// header bytes
	for i := 0; i < hdrLen; i++ {
		// the two high length bytes make ReadMessage allocate (and clear) up to 30 MB per case
		// before it notices the stream is short: only a few frames per kind pay for that
		if (i == 18 || i == 19) && (!bigLen || m.limitBroken) {
			continue
		}
		switch {
		case allValuesHeader && i != 18 && i != 19:
			for v := 0; v < 256; v++ {
				try(i, byte(v), "byte:"+region(i))
			}
		case full:
			for v := 0; v < 3; v++ {
				try(i, variants(frame[i], v), "byte:"+region(i))
			}
		default:
			if rng.Intn(4) == 0 {
				try(i, variants(frame[i], rng.Intn(3)), "byte:"+region(i))
			}
		}
	}
	// payload bytes
	n := len(frame) - hdrLen
	if n > 0 {
		if n <= 512 && full {
			for i := 0; i < n; i++ {
				try(hdrLen+i, variants(frame[hdrLen+i], rng.Intn(3)), "byte:payload")
			}
		} else {
			k := 96
			if !full {
				k = 24
			}
			for j := 0; j < k; j++ {
				i := rng.Intn(n)
				try(hdrLen+i, variants(frame[hdrLen+i], rng.Intn(3)), "byte:payload")
			}
		}
	}
	// a corruption that turns one known command into another known one with the same payload shape:
	// nothing is demanded by the property (documents the soundness decision, exercises that branch)
	if kind == pc.PING_TYPE || kind == pc.PONG_TYPE {
		f := append([]byte{}, frame...)
		if kind == pc.PING_TYPE {
			f[5] = 'o'
		} else {
			f[5] = 'i'
		}
		m.judge(kind, f, frame, "command-swap-ping-pong")
	}
	// truncations of the frame
	for _, p := range []int{0, 1, 3, 4, 15, 16, 23, 24, len(frame) - 1, hdrLen + n/2} {
		if p >= 0 && p < len(frame) {
			m.judge(kind, frame[:p], frame, "truncate")
		}
	}
	// length field consistent games: shorter / longer than the payload, payload appended / removed
	setLen := func(f []byte, l uint32) []byte {
		g := append([]byte{}, f...)
		binary.LittleEndian.PutUint32(g[16:], l)
		return g
	}
	m.judge(kind, setLen(frame, uint32(n)+1), frame, "length+1")
	m.judge(kind, append(setLen(frame, uint32(n)+1), byte(rng.Intn(256))), frame, "length+1-with-extra-byte")
	if n > 0 {
		m.judge(kind, setLen(frame, uint32(n)-1), frame, "length-1")
		m.judge(kind, setLen(frame, 0), frame, "length=0")
	}
	if !m.limitBroken {
		m.judge(kind, setLen(frame, pc.MAX_PAYLOAD_LEN+1), frame, "length=limit+1")
		m.judge(kind, setLen(frame, 0xFFFFFFFF), frame, "length=2^32-1")
	} else {
		m.r.Count("skipped_huge_length_cases", 2)
	}
	// magic
	for _, mg := range []uint32{0, testMagic + 1, testMagic ^ 0x80000000, config.GetNetworkMagic(config.NETWORK_ID_MAIN_NET), 0xFFFFFFFF} {
		if mg == testMagic {
			continue
		}
		f := append([]byte{}, frame...)
		binary.LittleEndian.PutUint32(f[0:], mg)
		m.judge(kind, f, frame, "magic")
	}
}

// ---------------------------------------------------------------------------------------------
// hostile payloads behind honest headers, random streams (child process)

func decoders() map[string]c02.DecodeFunc {
	return map[string]c02.DecodeFunc{
		"frame": func(data []byte) (bool, string) {
			msg, _, err := mt.ReadMessage(bytes.NewReader(data))
			if err != nil || msg == nil {
				return false, ""
			}
			return true, msg.CmdType()
		},
	}
}

func TestC05Child(t *testing.T) {
	if !c02.IsChild() {
		t.Skip("helper for RunIsolated")
	}
	if err := c02.ChildMain(decoders()); err != nil {
		t.Fatal(err)
	}
}

func (m *mon) addHostile(label string, frame []byte) {
	m.hostile = append(m.hostile, c02.Case{Kind: "frame", Label: label, Data: frame})
	if len(m.hostile) >= 20000 {
		m.flush()
	}
}

func (m *mon) flush() {
	r := m.r
	if len(m.hostile) == 0 {
		return
	}
	cases := m.hostile
	m.hostile = nil
	outs, err := c02.RunIsolated("TestC05Child", cases)
	if err != nil {
		r.Inconclusive("isolated executor: " + err.Error())
	}
	for i, o := range outs {
		c := cases[i]
		if o.Status == "" {
			r.Count("hostile_not_executed", 1)
			continue
		}
		r.Eval(1)
		m.hostileN++
		r.Count("hostile_"+o.Status, 1)
		r.Distinct("hostile", c.Label, o.Status, o.Site)
		switch o.Status {
		case "panic":
			m.violationOnce("p2p-read-panic:"+o.Site, fmt.Sprintf("ReadMessage panicked on a %d-byte stream (%s): %s", len(c.Data), c.Label, o.Detail),
				map[string]interface{}{"mutation": c.Label, "stream": kit.Hex(c.Data)})
		case "fatal":
			m.violationOnce("p2p-read-fatal:"+o.Site, fmt.Sprintf("ReadMessage killed the process (address space limited to %d KiB) on a %d-byte stream (%s): %s", c02.VLimitKB, len(c.Data), c.Label, o.Detail),
				map[string]interface{}{"mutation": c.Label, "stream": kit.Hex(c.Data)})
		case "ok":
			// a frame the node accepted must at least be acceptable by the checker's rules
			if why := mustReject(c.Data, nil, m.refOK); why != "" && m.refOK {
				m.violationOnce("bad-frame-accepted:"+why+":hostile", fmt.Sprintf("%s: accepted as %q", c.Label, o.Detail), map[string]interface{}{"mutation": c.Label, "stream": kit.Hex(clip(c.Data, 4096))})
			}
		}
	}
}

func leStamp(rng *rand.Rand, b []byte) []byte {
	out := append([]byte{}, b...)
	v := c02.RewriteValues[rng.Intn(len(c02.RewriteValues))]
	w := []int{2, 4, 8}[rng.Intn(3)]
	var x [8]byte
	binary.LittleEndian.PutUint64(x[:], v)
	off := 0
	if len(out) > 0 && rng.Intn(3) != 0 {
		off = rng.Intn(len(out))
	}
	for i := 0; i < w; i++ {
		if off+i < len(out) {
			out[off+i] = x[i]
		} else {
			out = append(out, x[i])
		}
	}
	return out
}

func (m *mon) hostilePayloads(rng *rand.Rand, kind string, payload []byte, pts []c02.Point, nMut int, rewrite bool) {
	for i := 0; i < nMut; i++ {
		var b []byte
		var class string
		if i%4 == 3 {
			b, class = leStamp(rng, payload), "le-stamp"
		} else {
			b, class = c02.Mutate(rng, payload)
		}
		m.addHostile(kind+":mut:"+class, honestHeaderFrame(kind, b))
	}
	if !rewrite {
		return
	}
	// boundary values in the leading count field (u8/u32/u64 depending on the kind)
	for _, v := range c02.RewriteValues {
		for _, w := range []int{4, 8} {
			for _, off := range []int{0, 1} {
				if len(payload) < off+w {
					continue
				}
				b := append([]byte{}, payload...)
				var x [8]byte
				binary.LittleEndian.PutUint64(x[:], v)
				copy(b[off:off+w], x[:w])
				m.addHostile(fmt.Sprintf("%s:lead-count:u%d@%d=%#x", kind, w*8, off, v), honestHeaderFrame(kind, b))
			}
		}
	}
	seen := map[string]int{}
	for _, p := range pts {
		if seen[p.Name] >= 2 {
			continue
		}
		seen[p.Name]++
		for _, v := range c02.RewriteValues {
			for _, long := range []bool{false, true} {
				b, ok := c02.Rewrite(payload, p, v, long)
				if !ok {
					continue
				}
				lab := fmt.Sprintf("%s:rewrite:%s=%#x", kind, p.Name, v)
				if long {
					lab += ":9-byte-form"
				}
				m.addHostile(lab, honestHeaderFrame(kind, b))
			}
		}
	}
}

func TestC05(t *testing.T) {
	if c02.IsChild() {
		t.Skip("child mode")
	}
	r := kit.Start(t, "C05", "exploration")
	defer r.Finish()
	r.Rule("all 16 message kinds with boundary-biased field values: WriteMessage→ReadMessage equality (field-wise); retention: decoded messages held by the caller are re-compared after later reads (the next messages, the corrupted frames, all remaining frames of 2-31-frame streams); the streams are written frame by frame into fresh sinks or all into one shared sink and delivered through five io.Reader shapes (whole buffer, random 1-40-byte chunks, one byte per Read, net.Pipe segments, 16-byte bufio over chunks); from every honest frame: single-byte corruptions (header: every byte × {+1, ^0x80, random} or all 255 values in thorough; payload: every byte if <=512 else sampled), truncations, length games, wrong magics; hand-built frames: unknown commands, payload at / above MAX_PAYLOAD_LEN; hostile payloads behind honest headers (mutations, count fields rewritten to boundary/huge values) and random streams decoded in a child process under ulimit -v; distinct = (kind, payload digest) or (kind, corruption class, demanded verdict, observed verdict) or (mutation label, outcome, panic site)")
	r.Assume("rejection is demanded exactly when the checker, looking at the corrupted frame alone, finds: magic != network magic, length > MAX_PAYLOAD_LEN, fewer payload bytes than announced, sha256d(payload)[:4] != header checksum, or a command field that is not one of the 16 NUL-padded command names; otherwise (e.g. ping↔pong) nothing is asserted")
	r.Assume("a payload of exactly MAX_PAYLOAD_LEN bytes is within the limit (must be accepted); Addr / Inv messages are generated with at most MAX_ADDR_NODE_CNT / MAX_INV_BLK_CNT entries (longer lists are truncated by design)")
	r.Assume(fmt.Sprintf("hostile streams are read with the address space limited to %d KiB; a process death is reported like a panic", c02.VLimitKB))
	m := &mon{r: r, refOK: true}
	rng := r.Rand("messages")
	m.pool = c02.KeyPool(rng, 14)

	perKind := r.N(200, 4000)
	fullCorrupt := r.N(25, 200)
	allValues := r.N(0, 6)
	nMut := r.N(6, 10)
	nRewrite := r.N(12, 150)
	// size limit first: a Version message whose payload is exactly MAX_PAYLOAD_LEN / one byte more
	m.sizeLimit(r.Rand("size-limit"))

	var frames []sent
	for _, kind := range kinds {
		var hold []kept // the last few decoded messages of this kind, still held by the "caller"
		for i := 0; i < perKind; i++ {
			g := gen(rng, kind, m.pool)
			frame, decoded, ok := m.roundTrip(g)
			if !ok {
				continue
			}
			hold = append(hold, kept{g: g, msg: decoded, frame: frame})
			if len(hold) > 4 {
				hold = hold[1:]
			}
			payload := frame[hdrLen:]
			d := c02.Dsha(payload)
			r.Distinct("msg", kind, len(payload), d[:8])
			if i == 0 && (kind == pc.VERSION_TYPE || kind == pc.TX_TYPE || kind == pc.ADDR_TYPE) {
				r.Sample(map[string]interface{}{"kind": kind, "frame": kit.Hex(clip(frame, 300))})
			}
			if len(frames) < 4000 {
				frames = append(frames, sent{frame: frame, g: g})
			}
			heavy := len(payload) > 4096
			if !heavy || i < fullCorrupt {
				m.corruptFrame(rng, kind, frame, i < fullCorrupt, i < allValues, i < r.N(2, 12))
			}
			// everything read since (the newer messages, the corrupted frames) must not have touched
			// the messages the caller still holds
			m.retained(hold, "later reads of honest and corrupted frames")
			// hostile payloads (child)
			var pts []c02.Point
			if i < nRewrite {
				var lb []byte
				if g.tx != nil {
					lb, pts = c02.LayoutTx(g.tx)
				} else if g.blk != nil {
					lb, pts = c02.LayoutBlock(g.blk)
				}
				if pts != nil && !bytes.HasPrefix(payload, lb) {
					r.Count("layout_mismatch", 1)
					pts = nil
				}
			}
			if !heavy {
				m.hostilePayloads(rng, kind, payload, pts, nMut, i < nRewrite)
			}
		}
		r.Require("roundtrip_"+kind, perKind)
	}

	// several frames on one stream: ALL frames are read first (the decoded messages are kept, as a
	// link's receive loop does), only then every kept message is compared with what was written
	nStreams := r.N(300, 3000)
	for i := 0; i < nStreams && len(frames) > 0; i++ {
		k := 2 + rng.Intn(5)
		if i%4 == 0 {
			k = 12 + rng.Intn(20)
		}
		var stream []byte
		var want []sent
		for j := 0; j < k; j++ {
			f := frames[rng.Intn(len(frames))]
			if i%3 == 1 && j > 0 {
				// a run of one kind with variable-length byte fields, later frames no larger than earlier ones
				for try := 0; try < 20 && (f.g.kind != want[0].g.kind || len(f.frame) > len(want[j-1].frame)); try++ {
					f = frames[rng.Intn(len(frames))]
				}
			}
			want = append(want, f)
			stream = append(stream, f.frame...)
		}
		// every other stream is produced the way a sender batches messages: all k messages are
		// written one after the other into ONE sink (the frames above were each written into a fresh one)
		writer := "fresh-sink-per-frame"
		if i%2 == 1 {
			writer = "one-shared-sink"
			sink := common.NewZeroCopySink(nil)
			wrote := true
			for j := range want {
				var err error
				if p := kit.Catch(func() { err = mt.WriteMessage(sink, want[j].g.msg) }); p != nil || err != nil {
					m.violationOnce("honest-message-write-error:shared-sink:"+want[j].g.kind, fmt.Sprintf("message %d of %d written into one sink: err=%v panic=%v", j, k, err, p), nil)
					wrote = false
					break
				}
			}
			if !wrote {
				continue
			}
			stream = append([]byte{}, sink.Bytes()...)
		}
		// the same byte stream is delivered through one of five io.Reader shapes: ReadMessage takes an
		// io.Reader, and a reader may return fewer bytes than asked for (a TCP connection does)
		base := bytes.NewReader(stream)
		mode := readerModes[i%len(readerModes)]
		rd, finish := deliver(rng, mode, base, stream)
		var got []kept
		okAll := true
		for j := 0; j < k; j++ {
			var msg mt.Message
			var err error
			if p := kit.Catch(func() { msg, _, err = mt.ReadMessage(rd) }); p != nil || err != nil || msg == nil {
				m.violationOnce("stream-frame-rejected:"+mode+":"+writer, fmt.Sprintf("honest frame %d of %d (%s, %s) read through a %s reader: err=%v panic=%v", j, k, want[j].g.kind, writer, mode, err, p), kit.Hex(clip(stream, 8192)))
				okAll = false
				break
			}
			got = append(got, kept{g: want[j].g, msg: msg, frame: want[j].frame})
		}
		if okAll {
			same := m.retained(got, fmt.Sprintf("reading the remaining frames of a %d-frame stream (%s reader)", k, mode))
			if _, _, err := mt.ReadMessage(rd); err == nil {
				m.violationOnce("stream-read-past-end:"+mode, "a message was returned from an exhausted stream", nil)
			} else if base.Len() != 0 {
				m.violationOnce("stream-not-consumed-exactly:"+mode, fmt.Sprintf("%d bytes never requested after %d frames", base.Len(), k), kit.Hex(clip(stream, 8192)))
			} else if same {
				r.Count("streams_ok", 1)
				r.Count("streams_ok_"+mode, 1)
				r.Count("streams_ok_"+writer, 1)
				r.Count("stream_frames_retained", k)
			}
			r.Distinct("stream", mode, writer, k, want[0].g.kind, want[k-1].g.kind, len(stream))
		}
		finish()
		r.Eval(1)
	}
	for _, mode := range readerModes {
		r.Require("streams_ok_"+mode, nStreams/len(readerModes)-1)
	}
	r.Require("streams_ok_one-shared-sink", nStreams/2-1)
	r.Require("streams_ok_fresh-sink-per-frame", nStreams/2-1)

	// unknown commands behind otherwise perfect headers
	ping := gen(rng, pc.PING_TYPE, m.pool)
	pingFrame, _ := m.write(ping)
	unknown := []string{"", "pin", "pingx", "PING", "Ping", "ping ", " ping", "getblock", "getheader", "headers2", "verac", "versionx", "tx\x01", "block\x00x", "abcdefghijkl", "pingpingping", "\x00ping", "inv\x00\x00\x00\x00\x00\x00\x00\x00\x01"}
	for i := 0; i < r.N(60, 600); i++ {
		n := 1 + rng.Intn(12)
		b := make([]byte, n)
		for j := range b {
			b[j] = byte('a' + rng.Intn(26))
		}
		unknown = append(unknown, string(b))
	}
	for _, u := range unknown {
		cf := cmdField(u)
		if knownCmd(cf[:]) || pingFrame == nil {
			continue
		}
		for _, k := range []string{pc.PING_TYPE, pc.GetADDR_TYPE} {
			var payload []byte
			if k == pc.PING_TYPE {
				payload = pingFrame[hdrLen:]
			}
			f := buildFrame(testMagic, cf, uint32(len(payload)), refChecksum(payload), payload)
			m.judge("unknown", f, nil, "unknown-command")
		}
	}

	// random streams
	for i := 0; i < r.N(3000, 60000); i++ {
		var s []byte
		switch i % 3 {
		case 0:
			s = make([]byte, rng.Intn(120))
			rng.Read(s)
		case 1:
			// right magic and a real command, everything else random
			body := make([]byte, rng.Intn(100))
			rng.Read(body)
			var sum [4]byte
			rng.Read(sum[:])
			s = buildFrame(testMagic, cmdField(kinds[rng.Intn(len(kinds))]), uint32(rng.Intn(200)), sum, body)
		default:
			// honest header around random payload
			body := make([]byte, rng.Intn(160))
			rng.Read(body)
			s = honestHeaderFrame(kinds[rng.Intn(len(kinds))], body)
		}
		m.addHostile([]string{"random-stream", "random-after-magic", "random-payload"}[i%3], s)
	}
	m.flush()
	r.Count("hostile_decodes", m.hostileN)

	r.Require("checksum_is_sha256d", 1)
	r.Require("rejected_magic", 1000)
	r.Require("rejected_checksum", 10000)
	r.Require("rejected_length-exceeds-data", 1000)
	r.Require("rejected_length-over-limit", 1000)
	r.Require("rejected_unknown-command", 1000)
	r.Require("rejected_truncated-header", 1000)
	r.Require("undemanded_accepted", 1)
	r.Require("streams_ok", nStreams)
	r.Require("retained_unchanged", r.N(10000, 200000))
	r.Require("at_limit_accepted", 1)
	r.Require("over_limit_rejected", 1)
	r.Require("hostile_decodes", r.N(30000, 700000))
	r.Require("hostile_ok", 100)
	r.Require("hostile_err", 10000)
}

func (m *mon) sizeLimit(rng *rand.Rand) {
	r := m.r
	for _, extra := range []int{0, 1} {
		g := gen(rng, pc.VERSION_TYPE, m.pool)
		v := g.msg.(*mt.Version)
		v.P.SoftVersion = ""
		probe, ok := m.write(genMsg{kind: g.kind, msg: v})
		if !ok {
			return
		}
		// grow the string until the payload has the wanted size (the length prefix grows too)
		want := pc.MAX_PAYLOAD_LEN + extra
		n := want - (len(probe) - hdrLen)
		var frame []byte
		for try := 0; try < 4; try++ {
			v.P.SoftVersion = strings.Repeat("v", n)
			frame, ok = m.write(genMsg{kind: g.kind, msg: v})
			if !ok {
				return
			}
			if len(frame)-hdrLen == want {
				break
			}
			n -= len(frame) - hdrLen - want
		}
		if len(frame)-hdrLen != want {
			r.Inconclusive("could not size a version message to the payload limit")
			return
		}
		r.Eval(1)
		r.Distinct("size-limit", extra)
		var ms runtime.MemStats
		runtime.ReadMemStats(&ms)
		before := ms.TotalAlloc
		msg, _, err, pan := m.read(frame)
		runtime.ReadMemStats(&ms)
		if pan {
			return
		}
		if extra == 0 {
			if err != nil {
				m.violationOnce("at-limit-frame-rejected", fmt.Sprintf("payload of exactly MAX_PAYLOAD_LEN=%d bytes: %v", pc.MAX_PAYLOAD_LEN, err), map[string]int{"payload": want})
			} else if got, ok := msg.(*mt.Version); !ok || got.P.SoftVersion != v.P.SoftVersion || got.P.Nonce != v.P.Nonce {
				m.violationOnce("roundtrip-message-changed:version:at-limit", "", map[string]int{"payload": want})
			} else {
				r.Count("at_limit_accepted", 1)
			}
		} else {
			if err == nil {
				m.limitBroken = true
				m.violationOnce("bad-frame-accepted:length-over-limit:real-payload", fmt.Sprintf("payload of MAX_PAYLOAD_LEN+1=%d bytes with a correct checksum was accepted", want), map[string]int{"payload": want})
			} else {
				r.Count("over_limit_rejected", 1)
				r.Count("obs_bytes_allocated_rejecting_over_limit", int(ms.TotalAlloc-before))
			}
		}
	}
}
