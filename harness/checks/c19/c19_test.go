// C19: side-chain trust roots are installed at most once.
//
// Per header-sync router the check registers a side chain of that router through the real
// side_chain_manager calls, installs a first genesis G1 through the real header-sync contract
// ("syncGenesisHeader") and then makes later installation attempts with G1 again or with a
// different genesis G2 that the router demonstrably accepts as a first genesis (proved at run time
// on a separate fresh universe). Oracle, from the property text only: a later attempt must leave
// the header-sync contract's storage namespace unchanged. A later attempt that returns success but
// changes nothing is recorded as "noop-success" and not judged (DESIGN §8).
package c19

import (
	"bytes"
	"crypto/sha256"
	"fmt"
	"math/rand"
	"sort"
	"testing"

	"github.com/polynetwork/poly/common"
	"github.com/polynetwork/poly/common/config"
	hscommon "github.com/polynetwork/poly/native/service/header_sync/common"
	"github.com/polynetwork/poly/native/service/utils"

	"verifharness/kit"
	"verifharness/kit/nat"
	"verifharness/kit/pk"
	"verifharness/synth/ccmsynth"
	gs "verifharness/synth/genesissynth"
)

// the genesis builders live in synth/genesissynth (shared with the C16/C17 workloads)
type gparams = gs.Params
type routerDef = gs.Router

func routers() []routerDef { return gs.Routers() }

// mainNetGate is the poly height from which utils.CheckRouterStartBlock admits hsc / bytom /
// harmony on main net.
const mainNetGate = 18823000

func syncArgs(chainID uint64, relayer common.Address, headers [][]byte) []byte {
	return gs.SyncArgs(chainID, relayer, headers)
}

func genesisArgs(chainID uint64, blob []byte) []byte { return gs.GenesisArgs(chainID, blob) }

// scenario is the shape of one universe: network id, number of poly validators, key seed.
type scenario struct {
	NetID     uint32
	NPolyVals int
	Seed      int64
}

func drawScenario(rng *rand.Rand) scenario {
	sc := scenario{NPolyVals: 4 + rng.Intn(4), Seed: rng.Int63(), NetID: config.NETWORK_ID_MAIN_NET}
	switch rng.Intn(4) {
	case 0:
		sc.NetID = config.NETWORK_ID_TEST_NET
	case 1:
		sc.NetID = config.NETWORK_ID_SOLO_NET
	}
	return sc
}

// polyHeight draws the poly block height of a sequence (main net: above the hsc/bytom gate).
func polyHeight(rng *rand.Rand, sc scenario) uint32 {
	if sc.NetID == config.NETWORK_ID_MAIN_NET {
		return mainNetGate + uint32(rng.Intn(5000000))
	}
	return 1 + uint32(rng.Intn(30000000))
}

// arena is one universe (governance installed through node_manager) that hosts the side chains of
// a batch of sequences: creating a universe costs ~0.1 s (LevelDB buffers), registering a chain
// ~1 ms. Every sequence and every G2-validity probe gets its own freshly registered chain id, so
// its light-client state starts empty; the namespace digest of the oracle spans all chains of the
// arena (a later attempt must not change any of them).
type arena struct {
	w    *ccmsynth.World
	sc   scenario
	next uint64
	rng  *rand.Rand
}

func newArena(sc scenario) (*arena, error) {
	krng := rand.New(rand.NewSource(sc.Seed))
	vals := pk.NewKeys(krng, sc.NPolyVals)
	owner := pk.NewKey(krng)
	w, err := ccmsynth.NewWorld(sc.NetID, vals, owner)
	if err != nil {
		return nil, err
	}
	return &arena{w: w, sc: sc, next: 2 + uint64(krng.Intn(900)), rng: krng}, nil
}

// newChain registers and approves a new side chain of router rd and returns its chain id.
func (a *arena) newChain(rd routerDef) (uint64, error) {
	id := a.next
	a.next += 1 + uint64(a.rng.Intn(7))
	ccmc := make([]byte, 20)
	a.rng.Read(ccmc)
	if err := a.w.RegisterAndApprove(ccmsynth.ChainSpec{ID: id, Router: rd.ID, Name: fmt.Sprintf("%s-%d", rd.Name, id), CCMC: ccmc, Extra: rd.Extra}); err != nil {
		return 0, err
	}
	return id, nil
}

func drawParams(rng *rand.Rand, rd routerDef) gparams {
	p := gparams{ValSeed: rng.Int63(), Salt: rng.Int63(), NVals: 1 + rng.Intn(9)}
	if rng.Intn(8) == 0 {
		p.NVals = 21
	}
	p.Height = rd.MinH
	if rng.Intn(4) != 0 {
		p.Height = rd.MinH + rd.HStep*uint64(rng.Int63n(int64(rd.SpanH)))
	}
	return p
}

var diffKinds = []string{"height", "validators", "nvals", "salt", "all"}

// derive returns the parameters of a later attempt of the given kind relative to the first genesis.
func derive(rng *rand.Rand, rd routerDef, p gparams, kind string) gparams {
	q := p
	newHeight := func() {
		for q.Height == p.Height {
			switch rng.Intn(3) {
			case 0:
				q.Height = p.Height + rd.HStep // the very next admissible height
			case 1:
				if p.Height >= rd.MinH+rd.HStep {
					q.Height = p.Height - rd.HStep
				}
			default:
				q.Height = rd.MinH + rd.HStep*uint64(rng.Int63n(int64(rd.SpanH)))
			}
		}
	}
	switch kind {
	case "same":
	case "height":
		newHeight()
	case "validators":
		q.ValSeed = rng.Int63()
	case "nvals":
		for q.NVals == p.NVals {
			q.NVals = 1 + rng.Intn(12)
		}
	case "salt":
		q.Salt = rng.Int63()
	case "chainid": // only the chain-id string inside the header differs (tendermint family)
		q.ChainTag = 1 + rng.Intn(1000)
	case "chainid-empty":
		q.ChainTag = -1
	default: // all
		newHeight()
		q.ValSeed = rng.Int63()
		q.Salt = rng.Int63()
		q.NVals = 1 + rng.Intn(12)
	}
	return q
}

type step struct {
	Pos     int    `json:"pos"`
	Kind    string `json:"kind"`
	Signer  string `json:"signer"`
	Params  gparams
	Genesis string `json:"genesis_hex"`
	PolyH   uint32 `json:"poly_height"`
	Ok      bool   `json:"ok"`
	Err     string `json:"err,omitempty"`
	Class   string `json:"class"`
	Before  string `json:"digest_before"`
	After   string `json:"digest_after"`
}

func blobID(b []byte) string { h := sha256.Sum256(b); return kit.Hex(h[:8]) }

func trunc(s string, n int) string {
	if len(s) > n {
		return s[:n] + "…"
	}
	return s
}

func TestC19(t *testing.T) {
	r := kit.Start(t, "C19", "exploration")
	defer r.Finish()
	r.Rule("per router × sequence: a universe per batch of sequences (net id ∈ {main,test,solo}, 4-7 poly validators installed through node_manager), per sequence a new " +
		"side chain of the router registered+approved through side_chain_manager at a drawn poly height, first genesis G1 (height on the router's epoch grid, 1-21 " +
		"validators, random roots; recorded blobs for zilliqa/zilliqalegacy/starcoin; in one third of the sequences a degenerate-but-accepted document: every field the light client does not need zero / empty, e.g. a tendermint header whose hash is nil) must succeed, then 2-4 later syncGenesisHeader attempts at advancing poly " +
		"heights, each G1 again or a G2 differing in {height, validators, #validators, other header fields, all; tendermint family also: only the chain-id string inside the header (another id / the empty string)}, signed by the consensus operator (1 in 6 only by the " +
		"chain owner); every G2 is first proved acceptable as a first genesis on another freshly registered chain of the same router; " +
		"distinct = (router, kind, signer, outcome class, position, net id, #validators bucket)")
	r.Assume("the header-sync contract's storage namespace (every key under utils.HeaderSyncContractAddress) is the light-client state of the property")
	r.Assume("a later installation that returns success and changes no storage (neo family) is recorded as noop-success, not judged (DESIGN §8)")
	r.Assume("'valid genesis' = a blob the same router accepts (and stores) as first genesis on a freshly registered chain in the same universe (checked at run time for every G2)")
	r.Assume("the harmony router is excluded: its BLS binding is replaced by a fail-closed stub in this sandbox")

	nseq := r.N(12, 200)
	batch := r.N(3, 10) // sequences per universe
	hs := utils.HeaderSyncContractAddress[:]
	var covered, uncovered []string
	uncovered = append(uncovered, "harmony (BLS stub, cannot be exercised)")
	vioSeen := map[string]int{}
	outcome := map[string]map[string]int{}

	for _, rd := range routers() {
		rd := rd
		rng := r.Rand("router/" + rd.Name)
		firstOK := 0
		setupErr := ""
		outcome[rd.Name] = map[string]int{}
		var ar *arena
		var sc scenario
		for seq := 0; seq < nseq; seq++ {
			if seq%batch == 0 || ar == nil {
				sc = drawScenario(rng)
				var err error
				if ar, err = newArena(sc); err != nil {
					ar = nil
					setupErr = fmt.Sprintf("universe %+v: %v", sc, err)
					r.Count("setup_failed:"+rd.Name, 1)
					continue
				}
				r.Count("universes", 1)
			}
			w := ar.w
			w.E.Height = polyHeight(rng, sc)
			p1 := drawParams(rng, rd)
			// one third of the sequences try a degenerate-but-well-formed first genesis (every field the
			// light client does not need left zero / empty) where the router's builder has such a variant
			// and the router accepts it; otherwise the ordinary document is installed
			var cands []gparams
			if seq%3 == 1 {
				pm := p1
				pm.Minimal = true
				gm, errm := rd.Build(pm)
				g0, err0 := rd.Build(p1)
				if errm == nil && err0 == nil && !bytes.Equal(gm, g0) {
					cands = append(cands, pm)
				}
			}
			cands = append(cands, p1)
			var g1 []byte
			var chainID uint64
			var empty string
			op := nat.Operator(w.Vals)
			installed := false
			for _, pc := range cands {
				g, err := rd.Build(pc)
				if err != nil {
					setupErr = fmt.Sprintf("build G1 %+v: %v", pc, err)
					break
				}
				cid, err := ar.newChain(rd)
				if err != nil {
					setupErr = fmt.Sprintf("register chain in %+v: %v", sc, err)
					break
				}
				e0 := w.E.Digest(hs)
				rec := w.E.Call(utils.HeaderSyncContractAddress, hscommon.SYNC_GENESIS_HEADER, genesisArgs(cid, g), op)
				stored := rec.Ok && w.E.Digest(hs) != e0
				if pc.Minimal {
					if !stored {
						r.Count("minimal_first_genesis_not_accepted:"+rd.Name, 1)
						continue
					}
					r.Count("first_minimal_ok:"+rd.Name, 1)
					r.Count("first_minimal_ok", 1)
				} else if !rec.Ok {
					setupErr = fmt.Sprintf("G1 refused %+v %+v: %s", sc, pc, rec.Err)
					break
				} else if !stored {
					// accepted but nothing stored: there is no trust root to protect, not a usable sequence
					setupErr = fmt.Sprintf("G1 accepted without storing anything %+v %+v", sc, pc)
					break
				}
				p1, g1, chainID, empty, installed = pc, g, cid, e0, true
				break
			}
			if !installed {
				r.Count("setup_failed:"+rd.Name, 1)
				continue
			}
			validCache := map[string]string{blobID(g1): ""} // blob id -> "" (valid as first genesis) or the refusal
			firstOK++
			r.Count("first_ok:"+rd.Name, 1)
			history := []step{{Pos: 0, Kind: "first", Signer: "operator", Params: p1, Genesis: kit.Hex(g1), PolyH: w.E.Height, Ok: true, Class: "installed", Before: empty, After: w.E.Digest(hs)}}

			// where the harness can build acceptable follow-up headers, two thirds of the sequences let the
			// light client advance before the later genesis attempts (not judged, only counted)
			if rd.Sync != nil && seq%3 != 2 {
				hdrs, err := rd.Sync(p1, rng)
				if err != nil {
					r.Count("header_sync_build_failed:"+rd.Name, 1)
				} else {
					w.E.Height += 1 + uint32(rng.Intn(3))
					b0 := w.E.Digest(hs)
					recS := w.E.Call(utils.HeaderSyncContractAddress, hscommon.SYNC_BLOCK_HEADER, syncArgs(chainID, w.Owner.Addr, hdrs), pk.Single(w.Owner))
					b1 := w.E.Digest(hs)
					st := step{Pos: 0, Kind: "header-sync", Signer: "owner-only", PolyH: w.E.Height, Ok: recS.Ok, Err: trunc(recS.Err, 400), Class: "header-sync", Before: b0, After: b1}
					for _, h := range hdrs {
						st.Genesis += kit.Hex(h) + " "
					}
					history = append(history, st)
					if recS.Ok && b1 != b0 {
						r.Count("header_sync_ok:"+rd.Name, 1)
					} else {
						r.Count("header_sync_failed:"+rd.Name, 1)
						r.Set("header_sync_failed_example:"+rd.Name, trunc(recS.Err, 400))
					}
				}
			}

			// later attempts: always one "same" and one different genesis, plus 0-2 more, shuffled
			kinds := []string{"same", diffKinds[rng.Intn(len(diffKinds))]}
			for n := rng.Intn(3); n > 0; n-- {
				if rng.Intn(4) == 0 {
					kinds = append(kinds, "same")
				} else {
					kinds = append(kinds, diffKinds[rng.Intn(len(diffKinds))])
				}
			}
			if rd.HasChainTag { // a genesis for the same poly chain that names another (or no) foreign chain id
				kinds = append(kinds, []string{"chainid", "chainid-empty"}[seq%2])
			}
			rng.Shuffle(len(kinds), func(i, j int) { kinds[i], kinds[j] = kinds[j], kinds[i] })

			for pos, kind := range kinds {
				p2 := derive(rng, rd, p1, kind)
				g2, err := rd.Build(p2)
				if err != nil {
					r.Count("g2_build_failed:"+rd.Name, 1)
					continue
				}
				if bytes.Equal(g2, g1) {
					kind = "same"
				} else if kind == "same" {
					r.Inconclusive("harness: builder of " + rd.Name + " is not a function of its parameters")
					continue
				}
				// G2 must itself be a valid first genesis (else a refusal in second position proves nothing)
				id := blobID(g2)
				why, known := validCache[id]
				if !known {
					// on a freshly registered chain of the same router in the same universe
					cid2, err := ar.newChain(rd)
					if err != nil {
						why = "register probe chain: " + err.Error()
					} else {
						e0 := w.E.Digest(hs)
						rec2 := w.E.Call(utils.HeaderSyncContractAddress, hscommon.SYNC_GENESIS_HEADER, genesisArgs(cid2, g2), op)
						if !rec2.Ok {
							why = "refused as first genesis: " + rec2.Err
						} else if w.E.Digest(hs) == e0 {
							why = "accepted as first genesis without storing anything"
						}
					}
					validCache[id] = why
				}
				if why != "" {
					r.Count("g2_invalid:"+rd.Name, 1)
					r.Set("g2_invalid_example:"+rd.Name, fmt.Sprintf("%s %+v: %s", kind, p2, trunc(why, 300)))
					continue
				}

				signer, sg := "operator", op
				if rng.Intn(6) == 0 {
					signer, sg = "owner-only", pk.Single(w.Owner)
				}
				w.E.Height += uint32(rng.Intn(4)) // later attempts come in later poly blocks
				w.E.Time += uint32(rng.Intn(100))
				dump0 := w.E.Dump(hs)
				d0 := w.E.Digest(hs)
				rec := w.E.Call(utils.HeaderSyncContractAddress, hscommon.SYNC_GENESIS_HEADER, genesisArgs(chainID, g2), sg)
				d1 := w.E.Digest(hs)
				class := "rejected"
				switch {
				case d1 != d0:
					class = "changed"
				case rec.Ok:
					class = "noop-success"
				}
				st := step{Pos: pos + 1, Kind: kind, Signer: signer, Params: p2, Genesis: kit.Hex(g2), PolyH: w.E.Height, Ok: rec.Ok, Err: trunc(rec.Err, 400),
					Class: class, Before: d0, After: d1}
				history = append(history, st)
				if rec.Panic != nil {
					r.Count("panics:"+rd.Name, 1)
				}

				r.Eval(1)
				nb := "few"
				if p2.NVals >= 8 {
					nb = "many"
				}
				r.Distinct(rd.Name, kind, signer, class, pos+1, sc.NetID, nb, p1.Minimal)
				if kind == "chainid" || kind == "chainid-empty" {
					r.Count("later_other_chain_id_string:"+rd.Name, 1)
				}
				if kind == "same" {
					r.Count("later_same:"+rd.Name, 1)
				} else {
					r.Count("later_diff:"+rd.Name, 1)
					if signer == "operator" {
						r.Count("later_diff_operator:"+rd.Name, 1)
					}
				}
				outcome[rd.Name][class]++
				switch class {
				case "rejected":
					r.Count("rejected:"+rd.Name, 1)
					r.Count("rejected", 1)
				case "noop-success":
					r.Count("noop_success:"+rd.Name, 1)
					r.Count("noop_success", 1)
				default:
					r.Count("changed:"+rd.Name, 1)
					key := "router:" + rd.Name + " second-genesis-changes-state"
					vioSeen[key]++
					if vioSeen[key] <= 2 { // one replay file per shape is enough; the rest is counted
						r.Violation(key,
							fmt.Sprintf("router %s chain %d: after a successful first genesis, attempt #%d (%s genesis, signed by %s, returned ok=%v %s) changed the header-sync state %s -> %s: %v",
								rd.Name, chainID, pos+1, kind, signer, rec.Ok, trunc(rec.Err, 120), d0, d1, nat.Diff(dump0, w.E.Dump(hs))),
							map[string]interface{}{"router": rd.Name, "router_id": rd.ID, "net_id": sc.NetID, "chain_id": chainID, "side_chain_extra": string(rd.Extra),
								"poly_validators": sc.NPolyVals, "universe_seed": sc.Seed, "sequence": history, "diff": nat.Diff(dump0, w.E.Dump(hs)),
								"method": hscommon.SYNC_GENESIS_HEADER, "contract": kit.Hex(hs)})
					}
				}
				if seq == 0 && pos == 0 && (rd.Name == "eth" || rd.Name == "cosmos" || rd.Name == "neo" || rd.Name == "btc" || rd.Name == "ont" || rd.Name == "zilliqa") {
					r.Sample(map[string]interface{}{"router": rd.Name, "net_id": sc.NetID, "first": p1, "later": p2, "kind": kind, "signer": signer,
						"ok": rec.Ok, "err": trunc(rec.Err, 160), "class": class, "genesis_len": len(g2), "genesis_head_hex": trunc(kit.Hex(g2), 96)})
				}
			}
		}
		if firstOK > 0 {
			covered = append(covered, rd.Name)
			r.Count("routers_covered", 1)
		} else {
			uncovered = append(uncovered, rd.Name+" ("+trunc(setupErr, 300)+")")
		}
		if setupErr != "" {
			r.Set("setup_failed_example:"+rd.Name, trunc(setupErr, 400))
		}
		// vacuity guards per router: every sequence installed a first genesis, and the monitor saw
		// both a repeated and a different valid genesis reach the contract with operator authority
		r.Require("first_ok:"+rd.Name, nseq)
		r.Require("later_same:"+rd.Name, nseq/2)
		r.Require("later_diff:"+rd.Name, nseq/2)
		r.Require("later_diff_operator:"+rd.Name, 1)
		if rd.Sync != nil {
			r.Require("header_sync_ok:"+rd.Name, nseq/3)
		}
		if rd.HasChainTag {
			r.Require("later_other_chain_id_string:"+rd.Name, nseq/3)
		}
	}
	sort.Strings(covered)
	r.Set("routers_covered", covered)
	r.Set("routers_uncovered", uncovered)
	classes := map[string]string{}
	for name, m := range outcome {
		classes[name] = fmt.Sprintf("rejected=%d noop-success=%d changed=%d", m["rejected"], m["noop-success"], m["changed"])
	}
	r.Set("outcome_by_router", classes)
	r.Require("routers_covered", 20)
	r.Require("first_minimal_ok", nseq)
	r.Require("first_minimal_ok:heimdall", 1)
	r.Require("rejected", 10*nseq)
}
