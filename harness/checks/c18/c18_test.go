// C18: privileged native operations require the right witness.
//
// A table of privileged methods x signer combinations is run against the REAL contracts through
// kit/nat with really signed transactions (tx.GetSignatureAddresses derives the addresses). The
// oracle only judges what the property states: a call that does NOT carry the required address
// among its signature addresses must fail and leave the contract storage digest unchanged; with
// the witness the outcome is only counted (vacuity guards demand that each method was also seen
// succeeding). The calling-context rule is exercised through a tiny scripted contract registered
// into native.Contracts under three fresh addresses.
package c18

import (
	"bytes"
	"encoding/binary"
	"encoding/json"
	"fmt"
	"math/big"
	"math/rand"
	"sort"
	"strings"
	"testing"

	"github.com/btcsuite/btcd/chaincfg/chainhash"
	"github.com/btcsuite/btcd/wire"
	ecommon "github.com/ethereum/go-ethereum/common"
	etypes "github.com/ethereum/go-ethereum/core/types"
	"github.com/polynetwork/poly/common"
	"github.com/polynetwork/poly/core/types"
	"github.com/polynetwork/poly/native"
	"github.com/polynetwork/poly/native/event"
	ccom "github.com/polynetwork/poly/native/service/cross_chain_manager/common"
	"github.com/polynetwork/poly/native/service/governance/neo3_state_manager"
	"github.com/polynetwork/poly/native/service/governance/node_manager"
	"github.com/polynetwork/poly/native/service/governance/relayer_manager"
	"github.com/polynetwork/poly/native/service/governance/side_chain_manager"
	"github.com/polynetwork/poly/native/service/header_sync/bsc"
	hcom "github.com/polynetwork/poly/native/service/header_sync/common"
	"github.com/polynetwork/poly/native/service/header_sync/eth"
	"github.com/polynetwork/poly/native/service/header_sync/heco"
	"github.com/polynetwork/poly/native/service/header_sync/hsc"
	"github.com/polynetwork/poly/native/service/utils"

	"verifharness/kit"
	"verifharness/kit/nat"
	"verifharness/kit/pk"
)

// ---------------------------------------------------------------------------------------------
// the tiny scripted contract

var probeAddrs = [3]common.Address{mkAddr(0xC1), mkAddr(0xC2), mkAddr(0xC3)}

func mkAddr(b byte) common.Address {
	var a common.Address
	for i := range a {
		a[i] = b
	}
	a[0], a[19] = 0x18, 0x18
	return a
}

// program of one probe invocation
type probeProg struct {
	Queries []common.Address
	Call    *probeCall
	Fail    bool // return an error after answering
}
type probeCall struct {
	Target  common.Address
	Method  string
	Args    []byte
	Swallow bool // ignore the callee's error
}

func (p *probeProg) encode() []byte {
	s := common.NewZeroCopySink(nil)
	s.WriteVarUint(uint64(len(p.Queries)))
	for _, q := range p.Queries {
		s.WriteBytes(q[:])
	}
	s.WriteBool(p.Fail)
	s.WriteBool(p.Call != nil)
	if p.Call != nil {
		s.WriteBytes(p.Call.Target[:])
		s.WriteString(p.Call.Method)
		s.WriteVarBytes(p.Call.Args)
		s.WriteBool(p.Call.Swallow)
	}
	return s.Bytes()
}

func decodeProg(b []byte) (*probeProg, error) {
	src := common.NewZeroCopySource(b)
	n, eof := src.NextVarUint()
	if eof || n > 64 {
		return nil, fmt.Errorf("probe: bad program")
	}
	p := &probeProg{}
	for i := uint64(0); i < n; i++ {
		a, eof := src.NextAddress()
		if eof {
			return nil, fmt.Errorf("probe: bad query")
		}
		p.Queries = append(p.Queries, a)
	}
	p.Fail, eof = src.NextBool()
	has, eof2 := src.NextBool()
	if eof || eof2 {
		return nil, fmt.Errorf("probe: bad flags")
	}
	if has {
		c := &probeCall{}
		c.Target, eof = src.NextAddress()
		var e2, e3 bool
		c.Method, e2 = src.NextString()
		c.Args, e3 = src.NextVarBytes()
		c.Swallow, _ = src.NextBool()
		if eof || e2 || e3 {
			return nil, fmt.Errorf("probe: bad call")
		}
		p.Call = c
	}
	return p, nil
}

// probeHandler answers CheckWitness queries before and after an optional nested call.
func probeHandler(s *native.NativeService) ([]byte, error) {
	p, err := decodeProg(s.GetInput())
	if err != nil {
		return utils.BYTE_FALSE, err
	}
	me := s.CurrentContext()
	ask := func() string {
		out := make([]byte, len(p.Queries))
		for i, q := range p.Queries {
			out[i] = '0'
			if s.CheckWitness(q) {
				out[i] = '1'
			}
		}
		return string(out)
	}
	pre := ask()
	calleeErr := ""
	if p.Call != nil {
		_, err := s.NativeCall(p.Call.Target, p.Call.Method, p.Call.Args)
		if err != nil {
			if !p.Call.Swallow {
				return utils.BYTE_FALSE, fmt.Errorf("probe: nested call failed: %v", err)
			}
			calleeErr = "swallowed"
		}
	}
	post := ask()
	s.AddNotify(&event.NotifyEventInfo{ContractAddress: me, States: []interface{}{"probe", pre, post, calleeErr}})
	if p.Fail {
		return utils.BYTE_FALSE, fmt.Errorf("probe: asked to fail")
	}
	return utils.BYTE_TRUE, nil
}

func init() {
	for _, a := range probeAddrs {
		native.Contracts[a] = func(s *native.NativeService) { s.Register("probe", probeHandler) }
	}
}

// ---------------------------------------------------------------------------------------------

type combo struct {
	name    string
	signers []pk.Signer
}

func addrsOf(sg []pk.Signer) []common.Address {
	var out []common.Address
	for _, s := range sg {
		out = append(out, s.Address())
	}
	return out
}

func has(as []common.Address, a common.Address) bool {
	for _, x := range as {
		if x == a {
			return true
		}
	}
	return false
}

type ctx struct {
	r      *kit.Run
	rng    *rand.Rand
	e      *nat.Env
	cons   []*pk.Key // current consensus validators
	cands  []*pk.Key // admitted candidates that become consensus members at the next epoch change
	last   *pk.Key   // node key admitted last
	spare  []*pk.Key // node keys for candidates
	owner  *pk.Key
	other  *pk.Key // unrelated key
	other2 *pk.Key
	nextID uint64
	round  int
	oldOps []pk.Signer // operator signers of earlier epochs
	// the check's OWN bookkeeping of what decides "due" (never read back from the contract):
	lastView   uint32 // view number seen last
	viewHeight uint32 // block height of the call that made the view number advance last (initConfig: 0)
	maxBCV     uint32 // MaxBlockChangeView in force: genesis value, then the value of each successful updateConfig
}

// operator recomputes the operator address independently of node_manager.GetCurConOperator: the multi-signature
// address of the current consensus keys with m = n-(n-1)/3 (the threshold is computed here, not by poly), and
// cross-checks it against types.AddressFromBookkeepers.
func (c *ctx) operator() common.Address {
	n := len(c.cons)
	a, err := types.AddressFromMultiPubKeys(pk.Pubs(pk.SortKeys(c.cons)), n-(n-1)/3)
	if err != nil {
		panic(err)
	}
	if b, _ := types.AddressFromBookkeepers(pk.Pubs(c.cons)); b != a {
		c.r.Violation("operator:address-from-bookkeepers-differs-from-multisig-of-two-thirds", fmt.Sprintf("n=%d", n), nil)
	}
	return a
}

func (c *ctx) opSigner() pk.Signer { return nat.Operator(c.cons) }

// operatorCombos: who signs a call that only the operator may make.
func (c *ctx) operatorCombos() []combo {
	k := pk.SortKeys(c.cons)
	n := len(k)
	m := n - (n-1)/3
	sh := append([]*pk.Key{}, k...)
	c.rng.Shuffle(n, func(i, j int) { sh[i], sh[j] = sh[j], sh[i] })
	var singles []pk.Signer
	for _, x := range k {
		singles = append(singles, pk.Single(x))
	}
	cs := []combo{
		{"nobody", nil},
		{"unrelated-key", []pk.Signer{pk.Single(c.other)}},
		{"one-validator", []pk.Signer{pk.Single(k[c.rng.Intn(n)])}},
		{"every-validator-individually", singles},
		{"same-keys-m-1", []pk.Signer{pk.Multi(k, m-1)}},
		{"strict-subset-multisig", []pk.Signer{pk.Multi(k[:n-1], (n-1)-(n-2)/3)}},
		{"superset-multisig", []pk.Signer{pk.Multi(append(append([]*pk.Key{}, k...), c.other), m)}},
		{"owner-key", []pk.Signer{pk.Single(c.owner)}},
		{"owner+unrelated", []pk.Signer{pk.Single(c.owner), pk.Single(c.other)}},
	}
	if m+1 <= n {
		cs = append(cs, combo{"same-keys-m+1", []pk.Signer{pk.Multi(k, m+1)}})
	}
	for i, old := range c.oldOps {
		cs = append(cs, combo{fmt.Sprintf("operator-of-earlier-epoch-%d", i), []pk.Signer{old}})
	}
	c.rng.Shuffle(len(cs), func(i, j int) { cs[i], cs[j] = cs[j], cs[i] })
	// combinations carrying the operator come last (a success may consume the precondition)
	cs = append(cs,
		combo{"operator", []pk.Signer{pk.Multi(k, m)}},
		combo{"operator-keys-listed-in-other-order", []pk.Signer{pk.Multi(sh, m)}},
		combo{"operator+unrelated", []pk.Signer{pk.Single(c.other), pk.Multi(k, m)}})
	return cs
}

// ownerCombos: who signs a call that names address `named` (key nk) as the required witness.
func (c *ctx) ownerCombos(nk *pk.Key) []combo {
	u := c.other
	if u == nk {
		u = c.other2
	}
	var val *pk.Key
	for _, v := range c.cons {
		if v != nk {
			val = v
		}
	}
	cs := []combo{
		{"nobody", nil},
		{"unrelated-key", []pk.Signer{pk.Single(u)}},
		{"one-validator", []pk.Signer{pk.Single(val)}},
		{"operator", []pk.Signer{c.opSigner()}},
		{"1-of-2-multisig-containing-the-named-key", []pk.Signer{pk.Multi([]*pk.Key{nk, u}, 1)}},
		{"2-of-2-multisig-containing-the-named-key", []pk.Signer{pk.Multi([]*pk.Key{nk, u}, 2)}},
		{"two-unrelated", []pk.Signer{pk.Single(u), pk.Single(val)}},
	}
	c.rng.Shuffle(len(cs), func(i, j int) { cs[i], cs[j] = cs[j], cs[i] })
	cs = append(cs, combo{"named-address", []pk.Signer{pk.Single(nk)}}, combo{"named+unrelated", []pk.Signer{pk.Single(u), pk.Single(nk)}})
	return cs
}

// try makes one call and judges it. allowedWithout: the statement allows success without the witness.
func (c *ctx) try(class, name string, contract common.Address, method string, args []byte, required common.Address, cb combo, allowedWithout bool) *nat.CallRecord {
	before := c.e.Digest(nil)
	var rec *nat.CallRecord
	sa := addrsOf(cb.signers)
	if c.rng.Intn(4) == 0 { // a quarter of the calls with bare signer addresses (no signatures attached)
		rec = c.e.CallAs(contract, method, args, sa...)
	} else {
		rec = c.e.Call(contract, method, args, cb.signers...)
		got, _ := rec.Tx.GetSignatureAddresses()
		if len(got) != len(sa) {
			c.r.Violation("tx:signature-addresses-differ", fmt.Sprintf("%s: tx yields %d signature addresses, signers %d", name, len(got), len(sa)), nil)
		}
	}
	if method == "updateConfig" && rec.Ok {
		p := new(node_manager.UpdateConfigParam)
		if err := p.Deserialization(common.NewZeroCopySource(args)); err == nil {
			c.maxBCV = p.Configuration.MaxBlockChangeView
		}
	}
	if method == "commitDpos" {
		c.view()
	}
	witnessed := has(sa, required)
	c.r.Eval(1)
	c.r.Distinct(class, name, cb.name, witnessed, rec.Ok, allowedWithout)
	replay := map[string]interface{}{"method": name, "signers": cb.name, "required": required.ToHexString(), "signature_addresses": fmt.Sprint(sa),
		"args": kit.Hex(args), "height": c.e.Height, "validators": len(c.cons), "error": rec.Err}
	switch {
	case witnessed:
		if rec.Ok {
			c.r.Count("accepted_with_witness", 1)
			c.r.Count("accepted_with_witness:"+name, 1)
		} else {
			c.r.Count("failed_despite_witness", 1)
		}
	case allowedWithout:
		c.r.Count("without_witness_but_allowed", 1)
		if rec.Ok {
			c.r.Count("without_witness_but_allowed_ok:"+name, 1)
		}
	case rec.Ok && strings.HasPrefix(cb.name, "non-consensus-set"):
		c.r.Violation(class+":"+name+":succeeds-with-witness-of-non-consensus-set",
			fmt.Sprintf("%s succeeded signed by the multi-signature of [%s]; the operator is the multi-signature of the %d consensus validators only (%s)", name, cb.name, len(c.cons), required.ToHexString()), replay)
	case rec.Ok:
		c.r.Violation(class+":"+name+":succeeds-without-required-witness",
			fmt.Sprintf("%s succeeded signed by [%s] although the required %s address %s is not among the signature addresses", name, cb.name, class, required.ToHexString()), replay)
	default:
		c.r.Count("rejected_without_witness", 1)
		c.r.Count("rejected_without_witness:"+class, 1)
		c.r.Count("rejected:"+cb.name, 1)
		if after := c.e.Digest(nil); after != before {
			c.r.Violation(class+":"+name+":rejected-call-changed-state", fmt.Sprintf("%s signed by [%s] failed but the storage digest changed", name, cb.name), replay)
		}
	}
	return rec
}

func must(rec *nat.CallRecord, what string) {
	if !rec.Ok {
		panic(fmt.Sprintf("setup: %s failed: %s", what, rec.Err))
	}
}

func (c *ctx) quorum() int { return (2*len(c.cons) + 2) / 3 }

// approveAll lets validators approve until the call count reaches the quorum.
func (c *ctx) approveAll(contract common.Address, method string, mk func(a common.Address) []byte) {
	for i := 0; i < c.quorum(); i++ {
		v := c.cons[i]
		must(c.e.Call(contract, method, mk(v.Addr), pk.Single(v)), method)
	}
}

func scParam(id, router uint64, owner common.Address, name string) []byte {
	s := common.NewZeroCopySink(nil)
	(&side_chain_manager.RegisterSideChainParam{Address: owner, ChainId: id, Router: router, Name: name, BlocksToWait: 1, CCMCAddress: []byte{1, 2, 3}, ExtraInfo: []byte("{}")}).Serialization(s)
	return s.Bytes()
}
func chainidParam(id uint64, a common.Address) []byte {
	s := common.NewZeroCopySink(nil)
	(&side_chain_manager.ChainidParam{Chainid: id, Address: a}).Serialization(s)
	return s.Bytes()
}
func peerParam(key string, a common.Address) []byte {
	s := common.NewZeroCopySink(nil)
	(&node_manager.PeerParam{PeerPubkey: key, Address: a}).Serialization(s)
	return s.Bytes()
}
func peerListParam(keys []string, a common.Address) []byte {
	s := common.NewZeroCopySink(nil)
	(&node_manager.PeerListParam{PeerPubkeyList: keys, Address: a}).Serialization(s)
	return s.Bytes()
}
func relayerList(as []common.Address, a common.Address) []byte {
	s := common.NewZeroCopySink(nil)
	(&relayer_manager.RelayerListParam{AddressList: as, Address: a}).Serialization(s)
	return s.Bytes()
}
func relayerApprove(id uint64, a common.Address) []byte {
	s := common.NewZeroCopySink(nil)
	(&relayer_manager.ApproveRelayerParam{ID: id, Address: a}).Serialization(s)
	return s.Bytes()
}
func svList(svs []string, a common.Address) []byte {
	s := common.NewZeroCopySink(nil)
	(&neo3_state_manager.StateValidatorListParam{StateValidators: svs, Address: a}).Serialization(s)
	return s.Bytes()
}
func svApprove(id uint64, a common.Address) []byte {
	s := common.NewZeroCopySink(nil)
	(&neo3_state_manager.ApproveStateValidatorParam{ID: id, Address: a}).Serialization(s)
	return s.Bytes()
}

func (c *ctx) freshID() uint64 { c.nextID++; return c.nextID }

// registerChain registers a side chain through the real request + approval path.
func (c *ctx) registerChain(router uint64, owner *pk.Key) uint64 {
	id := c.freshID()
	must(c.e.Call(utils.SideChainManagerContractAddress, "registerSideChain", scParam(id, router, owner.Addr, fmt.Sprintf("chain%d", id)), pk.Single(owner)), "registerSideChain")
	c.approveAll(utils.SideChainManagerContractAddress, "approveRegisterSideChain", func(a common.Address) []byte { return chainidParam(id, a) })
	if sc, _ := side_chain_manager.GetSideChain(c.e.Service(), id); sc == nil {
		panic("setup: side chain not registered after a quorum of approvals")
	}
	return id
}

// admit brings a new node key into the pool as a candidate owned by owner.
func (c *ctx) admit(node, owner *pk.Key) {
	s := common.NewZeroCopySink(nil)
	(&node_manager.RegisterPeerParam{PeerPubkey: node.PubHex(), Address: owner.Addr}).Serialization(s)
	must(c.e.Call(utils.NodeManagerContractAddress, "registerCandidate", s.Bytes(), pk.Single(owner)), "registerCandidate")
	c.approveAll(utils.NodeManagerContractAddress, "approveCandidate", func(a common.Address) []byte { return peerParam(node.PubHex(), a) })
	c.cands = append(c.cands, node)
	c.last = node
}

// drop forgets a candidate that asked to quit or was blacklisted (it leaves at the next epoch change).
func (c *ctx) drop(k *pk.Key) {
	for i, x := range c.cands {
		if x == k {
			c.cands = append(c.cands[:i], c.cands[i+1:]...)
			return
		}
	}
}

func (c *ctx) spareKey() *pk.Key {
	if len(c.spare) == 0 {
		c.spare = pk.NewKeys(c.rng, 8)
	}
	k := c.spare[0]
	c.spare = c.spare[1:]
	return k
}

// view returns the current view NUMBER as the contract reports it together with the height of the last view change
// as the check itself recorded it (the height of the call after which the view number had advanced). The height
// the contract stores is only compared and counted, never used to decide what is due.
func (c *ctx) view() *node_manager.GovernanceView {
	v, err := node_manager.GetGovernanceView(c.e.Service())
	if err != nil {
		panic(err)
	}
	if v.View != c.lastView {
		c.lastView = v.View
		c.viewHeight = c.e.Height
		c.r.Count("view_changes_recorded_by_the_check", 1)
		if v.Height != c.e.Height {
			c.r.Count("stored_view_height_differs_from_height_of_the_view_change", 1)
		}
	}
	return &node_manager.GovernanceView{View: v.View, Height: c.viewHeight, TxHash: v.TxHash}
}

// commitBy makes a commitDpos that the setup needs and records the view change.
func (c *ctx) commitBy(sg pk.Signer, what string) {
	must(c.e.Call(utils.NodeManagerContractAddress, "commitDpos", nil, sg), what)
	c.view()
}

// overdueWindow: the judged shape "a stranger is refused before the epoch is due, the operator changes the epoch at h1,
// a stranger must still be refused at every height below h1+MaxBlockChangeView - also at heights that lie beyond
// (height of the previous view change)+MaxBlockChangeView". Uses only initConfig, one operator commit and the check's own numbers.
func (c *ctx) overdueWindow() {
	r := c.r
	stranger := combo{"unrelated-key", []pk.Signer{pk.Single(c.other)}}
	nobody := combo{"nobody", nil}
	for rep := 0; rep < 3; rep++ {
		max := uint64(c.maxBCV)
		gv := c.view()
		prev := uint64(gv.Height)
		if max > 1 {
			c.commitAt("window/before-due", gv, max, 1+uint64(c.rng.Int63n(int64(max-1))), stranger)
		}
		// operator changes the epoch before it is due (or, with MaxBlockChangeView 1, one block after the last change)
		d1 := uint64(1)
		if max > 2 {
			d1 = 1 + uint64(c.rng.Int63n(int64(max-1)))
		}
		c.e.Height = gv.Height + uint32(d1)
		c.commitBy(c.opSigner(), "commitDpos(operator) at h1")
		gv = c.view()
		h1 := uint64(gv.Height)
		if h1 != prev+d1 {
			panic("bookkeeping: view height not advanced by the operator's commit")
		}
		// heights H with prev+max <= H < h1+max, i.e. delta (from h1) in [max-d1, max-1]
		lo := int64(max) - int64(d1)
		if lo < 0 {
			lo = 0
		}
		for _, d := range []uint64{uint64(lo), max - 1, uint64(lo) + uint64(c.rng.Int63n(int64(max)-lo))} {
			for _, cb := range []combo{stranger, nobody} {
				rec := c.commitAt("window/after-operator-commit", gv, max, d, cb)
				r.Count("not_due_commit_without_operator_beyond_previous_epoch_deadline", 1)
				if rec.Ok {
					gv = c.view()
				}
			}
		}
		// and from the first due height on anybody may
		c.commitAt("window/due", gv, max, max, stranger)
		c.view()
	}
}

// ---------------------------------------------------------------------------------------------
// genesis payloads

type routerCase struct {
	name   string
	router uint64
	valid  func(rng *rand.Rand) []byte // nil: no cheap valid genesis known, garbage payloads only
}

func ethLikeExtra(rng *rand.Rand, nval int) ([]byte, []ecommon.Address) {
	extra := make([]byte, 32)
	var vs []ecommon.Address
	for i := 0; i < nval; i++ {
		var a ecommon.Address
		rng.Read(a[:])
		vs = append(vs, a)
		extra = append(extra, a[:]...)
	}
	return append(extra, make([]byte, 65)...), vs
}

func jsonOrPanic(v interface{}) []byte {
	b, err := json.Marshal(v)
	if err != nil {
		panic(err)
	}
	return b
}

func routers() []routerCase {
	ethHdr := func(rng *rand.Rand, extra []byte) eth.Header {
		h := eth.Header{Difficulty: big.NewInt(int64(1000 + rng.Intn(1000))), Number: big.NewInt(int64(200 + rng.Intn(1000))), GasLimit: 8000000, Time: 1600000000, Extra: extra}
		rng.Read(h.ParentHash[:])
		rng.Read(h.Root[:])
		return h
	}
	return []routerCase{
		{"btc", utils.BTC_ROUTER, func(rng *rand.Rand) []byte {
			var prev, mr chainhash.Hash
			rng.Read(prev[:])
			rng.Read(mr[:])
			h := wire.NewBlockHeader(1, &prev, &mr, 0x1d00ffff, rng.Uint32())
			var buf bytes.Buffer
			h.Serialize(&buf)
			ht := make([]byte, 4)
			binary.BigEndian.PutUint32(ht, uint32(1000+rng.Intn(1000)))
			return append(buf.Bytes(), ht...)
		}},
		{"eth", utils.ETH_ROUTER, func(rng *rand.Rand) []byte { return jsonOrPanic(ethHdr(rng, []byte("verif"))) }},
		{"bsc", utils.BSC_ROUTER, func(rng *rand.Rand) []byte {
			extra, vs := ethLikeExtra(rng, 3)
			h := etypes.Header{Difficulty: big.NewInt(2), Number: big.NewInt(int64(200 + rng.Intn(100))), GasLimit: 8000000, Time: 1600000000, Extra: extra}
			return jsonOrPanic(bsc.GenesisHeader{Header: h, PrevValidators: []bsc.HeightAndValidators{{Height: big.NewInt(0), Validators: vs}}})
		}},
		{"heco", utils.HECO_ROUTER, func(rng *rand.Rand) []byte {
			extra, vs := ethLikeExtra(rng, 3)
			return jsonOrPanic(heco.GenesisHeader{Header: ethHdr(rng, extra), PrevValidators: []heco.HeightAndValidators{{Height: big.NewInt(0), Validators: vs}}})
		}},
		{"hsc", utils.HSC_ROUTER, func(rng *rand.Rand) []byte {
			extra, vs := ethLikeExtra(rng, 3)
			return jsonOrPanic(hsc.GenesisHeader{Header: ethHdr(rng, extra), PrevValidators: []hsc.HeightAndValidators{{Height: big.NewInt(0), Validators: vs}}})
		}},
		{"ont", utils.ONT_ROUTER, nil}, {"neo", utils.NEO_ROUTER, nil}, {"cosmos", utils.COSMOS_ROUTER, nil},
		{"quorum", utils.QUORUM_ROUTER, nil}, {"zilliqa-legacy", utils.ZILLIQA_LEGACY_ROUTER, nil}, {"msc", utils.MSC_ROUTER, nil},
		{"neo3-legacy", utils.NEO3_LEGACY_ROUTER, nil}, {"okex", utils.OKEX_ROUTER, nil}, {"neo3", utils.NEO3_ROUTER, nil},
		{"heimdall", utils.POLYGON_HEIMDALL_ROUTER, nil}, {"bor", utils.POLYGON_BOR_ROUTER, nil}, {"zilliqa", utils.ZILLIQA_ROUTER, nil},
		{"starcoin", utils.STARCOIN_ROUTER, nil}, {"pixiechain", utils.PIXIECHAIN_ROUTER, nil}, {"bytom", utils.BYTOM_ROUTER, nil},
		{"harmony(bls-stub)", utils.HARMONY_ROUTER, nil},
	}
}

func genesisParam(id uint64, payload []byte) []byte {
	s := common.NewZeroCopySink(nil)
	(&hcom.SyncGenesisHeaderParam{ChainID: id, GenesisHeader: payload}).Serialization(s)
	return s.Bytes()
}

func garbage(rng *rand.Rand) []byte {
	switch rng.Intn(4) {
	case 0:
		return nil
	case 1:
		return []byte("{}")
	case 2:
		b := make([]byte, 84)
		rng.Read(b)
		return b
	}
	b := make([]byte, 1+rng.Intn(200))
	rng.Read(b)
	return b
}

// ---------------------------------------------------------------------------------------------

func (c *ctx) operatorMethods(phase string) {
	r := c.r
	op := c.operator()
	if phase == "genesis-epoch" {
		// MaxBlockChangeView as installed by initConfig (which accepts any value: 100, 1 or 2 here)
		c.commitCases("genesis-config")
	}
	// --- SyncGenesisHeader of every buildable router through the header_sync entrance
	for _, rt := range routers() {
		if phase == "after-epoch" && rt.valid == nil && c.rng.Intn(3) != 0 {
			continue
		}
		id := c.registerChain(rt.router, c.owner)
		installed := func(id uint64) bool {
			return c.e.GetRaw(utils.ConcatKey(utils.HeaderSyncContractAddress, []byte(hcom.GENESIS_HEADER), utils.GetUint64Bytes(id))) != nil
		}
		leaked := false
		for _, cb := range c.operatorCombos() {
			if leaked && !has(addrsOf(cb.signers), op) {
				continue // one report per router and round is enough
			}
			var payload []byte
			kind := "garbage"
			if rt.valid != nil {
				payload, kind = rt.valid(c.rng), "wellformed"
			} else {
				payload = garbage(c.rng)
			}
			name := "syncGenesisHeader/" + rt.name
			rec := c.try("operator", name, utils.HeaderSyncContractAddress, hcom.SYNC_GENESIS_HEADER, genesisParam(id, payload), op, cb, false)
			r.Count("genesis_calls_"+kind, 1)
			if rec.Ok && !has(addrsOf(cb.signers), op) {
				leaked = true
			}
			if rec.Ok {
				r.Count("genesis_installed:"+rt.name, 1)
				r.Count("genesis_installed_with_"+kind+"_payload:"+rt.name, 1)
				id = c.registerChain(rt.router, c.owner) // next combination gets a chain without a trust root
			} else if installed(id) && !has(addrsOf(cb.signers), op) {
				r.Violation("operator:"+name+":trust-root-stored-by-rejected-call", "genesis header present after a rejected call signed by "+cb.name, nil)
			}
		}
	}
	// --- UpdateConfig
	for _, cb := range c.operatorCombos() {
		cfg := &node_manager.Configuration{BlockMsgDelay: 5000 + uint32(c.rng.Intn(100)), HashMsgDelay: 5000 + uint32(c.rng.Intn(100)),
			PeerHandshakeTimeout: 10 + uint32(c.rng.Intn(5)), MaxBlockChangeView: 10000 + uint32(c.rng.Intn(50))}
		s := common.NewZeroCopySink(nil)
		(&node_manager.UpdateConfigParam{Configuration: cfg}).Serialization(s)
		c.try("operator", "updateConfig", utils.NodeManagerContractAddress, "updateConfig", s.Bytes(), op, cb, false)
	}
	// --- BlackChain / WhiteChain
	target := c.registerChain(utils.ETH_ROUTER, c.owner)
	for _, method := range []string{ccom.BLACK_CHAIN, ccom.WHITE_CHAIN, ccom.BLACK_CHAIN} {
		for _, cb := range c.operatorCombos() {
			s := common.NewZeroCopySink(nil)
			(&ccom.BlackChainParam{ChainID: target}).Serialization(s)
			wasBlack, _ := ccom.CheckIfChainBlacked(c.e.Service(), target)
			rec := c.try("operator", method, utils.CrossChainManagerContractAddress, method, s.Bytes(), op, cb, false)
			isBlack, _ := ccom.CheckIfChainBlacked(c.e.Service(), target)
			if !rec.Ok && wasBlack != isBlack {
				r.Violation("operator:"+method+":blacklist-flag-changed-by-rejected-call", "signed by "+cb.name, nil)
			}
			if rec.Ok && isBlack != (method == ccom.BLACK_CHAIN) {
				r.Count("black_white_success_without_flag_change", 1)
			}
		}
	}
	// --- CommitDpos before / when it is due, with the configuration in force now (>= 10000 after updateConfig)
	c.commitCases("configured")
	// --- boundary configurations of MaxBlockChangeView installed by the operator
	c.commitBoundaries()
}

const maxU32 = uint64(4294967295)

// commitCases runs the due / not-due matrix against the MaxBlockChangeView in force.
func (c *ctx) commitCases(label string) {
	r := c.r
	for _, due := range []int{-1, 0, -1, 1} {
		for _, cb := range c.operatorCombos() {
			if cfg, err := node_manager.GetConfig(c.e.Service()); err == nil && cfg.MaxBlockChangeView != c.maxBCV {
				r.Count("stored_MaxBlockChangeView_differs_from_last_accepted_updateConfig", 1)
			}
			gv := c.view()
			mbcv := uint64(c.maxBCV)
			room := maxU32 - uint64(gv.Height) // heights are uint32
			var delta uint64
			switch due {
			case -1:
				delta = mbcv - 1 // last height at which it is not due
				if mbcv > 1 && c.rng.Intn(3) != 0 {
					delta = 1 + uint64(c.rng.Int63n(int64(mbcv-1)))
				}
			case 0:
				delta = mbcv
			default:
				delta = mbcv + 1 + uint64(c.rng.Intn(1000))
			}
			if delta > room {
				delta = room
			}
			if has(addrsOf(cb.signers), c.operator()) && delta > 1<<30 {
				delta = 1 + uint64(c.rng.Intn(1000)) // keep the view height low: later cases need room above it
			}
			c.commitAt(label, gv, mbcv, delta, cb)
		}
	}
	_ = r
}

// commitAt tries commitDpos `delta` blocks after the last view change.
func (c *ctx) commitAt(label string, gv *node_manager.GovernanceView, mbcv, delta uint64, cb combo) *nat.CallRecord {
	r := c.r
	op := c.operator()
	c.e.Height = gv.Height + uint32(delta)
	isDue := delta >= mbcv // the statement's rule, computed without wrap-around
	name := "commitDpos/not-due"
	if isDue {
		name = "commitDpos/due"
	}
	rec := c.try("operator", name, utils.NodeManagerContractAddress, "commitDpos", nil, op, cb, isDue)
	r.Distinct("commit", label, mbcv == 1, mbcv == 2, mbcv > 1<<31, delta == 0, delta == mbcv-1, delta == mbcv, uint64(gv.Height)+mbcv > maxU32, cb.name, rec.Ok)
	after := c.view()
	if rec.Ok && after.View != gv.View+1 {
		r.Count("commit_ok_without_view_change", 1)
	}
	if !rec.Ok && after.View != gv.View {
		r.Violation("operator:commitDpos:view-changed-by-rejected-call", "signed by "+cb.name, nil)
	}
	witnessed := has(addrsOf(cb.signers), op)
	if rec.Ok && !isDue {
		r.Count("early_commit_by_operator_ok", 1)
	}
	if rec.Ok && isDue && !witnessed {
		r.Count("due_commit_without_operator_ok", 1)
	}
	if !witnessed && !isDue {
		r.Count("not_due_commit_without_operator:"+label, 1)
		if uint64(gv.Height)+mbcv > maxU32 {
			r.Count("not_due_commit_without_operator_where_viewheight+max_exceeds_uint32", 1)
		}
		if delta == mbcv-1 {
			r.Count("not_due_commit_without_operator_at_last_not_due_height", 1)
		}
	}
	return rec
}

// commitBoundaries: the operator installs boundary values of MaxBlockChangeView (updateConfig accepts
// anything >= 10000 up to 2^32-1) and non-operators try to force the epoch change.
func (c *ctx) commitBoundaries() {
	r := c.r
	setMax := func(v uint32) {
		cfg := &node_manager.Configuration{BlockMsgDelay: 5000, HashMsgDelay: 5000, PeerHandshakeTimeout: 10, MaxBlockChangeView: v}
		s := common.NewZeroCopySink(nil)
		(&node_manager.UpdateConfigParam{Configuration: cfg}).Serialization(s)
		must(c.e.Call(utils.NodeManagerContractAddress, "updateConfig", s.Bytes(), c.opSigner()), "updateConfig(boundary)")
		c.maxBCV = v
	}
	// a regular epoch change by the operator at a moderate height first (view height > 0)
	gv := c.view()
	c.e.Height = gv.Height + 100 + uint32(c.rng.Intn(100))
	c.commitBy(c.opSigner(), "commitDpos(operator)")
	gv = c.view()
	vh := uint64(gv.Height)
	values := []uint64{maxU32, maxU32 - 1, maxU32 - vh + uint64(c.rng.Intn(3)), maxU32 - vh + 1, maxU32 - vh, maxU32 - vh - 1, 1 << 31, (1 << 31) + vh, 10000}
	var nonOp []combo
	for _, cb := range c.operatorCombos() {
		if !has(addrsOf(cb.signers), c.operator()) {
			nonOp = append(nonOp, cb)
		}
	}
	for _, v := range values {
		if v < 10000 || v > maxU32 {
			continue
		}
		setMax(uint32(v))
		r.Count("boundary_configs_installed", 1)
		room := maxU32 - vh
		deltas := []uint64{1, 50, v - 1, v, v + 1, room, room - 1, v / 2, maxU32 - v, maxU32 - v + 1}
		for _, d := range deltas {
			if d == 0 || d > room {
				continue
			}
			if d >= v && vh+d > maxU32-1000000 {
				continue // a due commit may succeed and would leave no room above the new view height
			}
			for i := 0; i < 3; i++ {
				cb := nonOp[c.rng.Intn(len(nonOp))]
				if i == 0 {
					cb = combo{"unrelated-key", []pk.Signer{pk.Single(c.other)}}
				}
				rec := c.commitAt(fmt.Sprintf("boundary"), gv, v, d, cb)
				if rec.Ok { // allowed only when due: a new view began, continue from it
					gv = c.view()
					vh = uint64(gv.Height)
					room = maxU32 - vh
					if room < 2 {
						return
					}
				}
			}
		}
	}
	// back to an ordinary configuration, operator commit at the next height
	setMax(10000 + uint32(c.rng.Intn(50)))
	if uint64(c.view().Height) < maxU32-10 {
		c.e.Height = c.view().Height + 1
		c.commitBy(c.opSigner(), "commitDpos(operator)")
	}
}

type ownerCase struct {
	name     string
	contract common.Address
	method   string
	named    *pk.Key
	prepare  func() []byte // (re)creates a state in which the call succeeds when witnessed; returns the arguments
	reusable bool          // a success does not consume the precondition
}

func (c *ctx) ownerMethods() {
	o := c.owner
	nm, sc, rl, n3 := utils.NodeManagerContractAddress, utils.SideChainManagerContractAddress, utils.RelayerManagerContractAddress, utils.Neo3StateManagerContractAddress
	approver := c.cons[c.rng.Intn(len(c.cons))]
	regPeer := func(k *pk.Key, owner common.Address) []byte {
		s := common.NewZeroCopySink(nil)
		(&node_manager.RegisterPeerParam{PeerPubkey: k.PubHex(), Address: owner}).Serialization(s)
		return s.Bytes()
	}
	relayerAddr := func() []common.Address { return []common.Address{pk.NewKey(c.rng).Addr} }
	cases := []ownerCase{
		{"registerCandidate", nm, "registerCandidate", o, func() []byte { return regPeer(c.spareKey(), o.Addr) }, false},
		{"unRegisterCandidate", nm, "unRegisterCandidate", o, func() []byte {
			k := c.spareKey()
			must(c.e.Call(nm, "registerCandidate", regPeer(k, o.Addr), pk.Single(o)), "registerCandidate")
			return peerParam(k.PubHex(), o.Addr)
		}, false},
		{"quitNode", nm, "quitNode", o, func() []byte {
			k := c.spareKey()
			c.admit(k, o)
			return peerParam(k.PubHex(), o.Addr)
		}, false},
		{"registerSideChain", sc, "registerSideChain", o, func() []byte { return scParam(c.freshID(), utils.ETH_ROUTER, o.Addr, "x") }, false},
		{"updateSideChain", sc, "updateSideChain", o, func() []byte {
			id := c.registerChain(utils.ETH_ROUTER, o)
			return scParam(id, utils.BSC_ROUTER, o.Addr, "updated")
		}, true},
		{"quitSideChain", sc, "quitSideChain", o, func() []byte { return chainidParam(c.registerChain(utils.ETH_ROUTER, o), o.Addr) }, true},
		{"registerRelayer", rl, "registerRelayer", o, func() []byte { return relayerList(relayerAddr(), o.Addr) }, true},
		{"RemoveRelayer", rl, "RemoveRelayer", o, func() []byte { return relayerList(relayerAddr(), o.Addr) }, true},
		{"registerStateValidator", n3, "registerStateValidator", o, func() []byte { return svList([]string{pk.NewKey(c.rng).PubHex()}, o.Addr) }, true},
		{"removeStateValidator", n3, "removeStateValidator", o, func() []byte { return svList([]string{pk.NewKey(c.rng).PubHex()}, o.Addr) }, true},
		// approvals: the approver's own witness
		{"approveCandidate", nm, "approveCandidate", approver, func() []byte {
			k := c.spareKey()
			must(c.e.Call(nm, "registerCandidate", regPeer(k, o.Addr), pk.Single(o)), "registerCandidate")
			return peerParam(k.PubHex(), approver.Addr)
		}, true},
		{"blackNode", nm, "blackNode", approver, func() []byte {
			k := c.spareKey()
			c.admit(k, o)
			return peerListParam([]string{k.PubHex()}, approver.Addr)
		}, true},
		{"whiteNode", nm, "whiteNode", approver, func() []byte {
			k := c.spareKey()
			c.admit(k, o)
			c.approveAll(nm, "blackNode", func(a common.Address) []byte { return peerListParam([]string{k.PubHex()}, a) })
			c.drop(k)
			return peerParam(k.PubHex(), approver.Addr)
		}, true},
		{"approveRegisterSideChain", sc, "approveRegisterSideChain", approver, func() []byte {
			id := c.freshID()
			must(c.e.Call(sc, "registerSideChain", scParam(id, utils.ETH_ROUTER, o.Addr, "y"), pk.Single(o)), "registerSideChain")
			return chainidParam(id, approver.Addr)
		}, true},
		{"approveUpdateSideChain", sc, "approveUpdateSideChain", approver, func() []byte {
			id := c.registerChain(utils.ETH_ROUTER, o)
			must(c.e.Call(sc, "updateSideChain", scParam(id, utils.BSC_ROUTER, o.Addr, "upd"), pk.Single(o)), "updateSideChain")
			return chainidParam(id, approver.Addr)
		}, true},
		{"approveQuitSideChain", sc, "approveQuitSideChain", approver, func() []byte {
			id := c.registerChain(utils.ETH_ROUTER, o)
			must(c.e.Call(sc, "quitSideChain", chainidParam(id, o.Addr), pk.Single(o)), "quitSideChain")
			return chainidParam(id, approver.Addr)
		}, true},
		{"approveRegisterRelayer", rl, "approveRegisterRelayer", approver, func() []byte {
			rec := c.e.Call(rl, "registerRelayer", relayerList(relayerAddr(), o.Addr), pk.Single(o))
			must(rec, "registerRelayer")
			return relayerApprove(notified(rec, "putRelayerApply"), approver.Addr)
		}, true},
		{"approveRemoveRelayer", rl, "approveRemoveRelayer", approver, func() []byte {
			rec := c.e.Call(rl, "RemoveRelayer", relayerList(relayerAddr(), o.Addr), pk.Single(o))
			must(rec, "RemoveRelayer")
			return relayerApprove(notified(rec, "putRelayerRemove"), approver.Addr)
		}, true},
		{"approveRegisterStateValidator", n3, "approveRegisterStateValidator", approver, func() []byte {
			rec := c.e.Call(n3, "registerStateValidator", svList([]string{pk.NewKey(c.rng).PubHex()}, o.Addr), pk.Single(o))
			must(rec, "registerStateValidator")
			return svApprove(notified(rec, "putStateValidatorApply"), approver.Addr)
		}, true},
		{"approveRemoveStateValidator", n3, "approveRemoveStateValidator", approver, func() []byte {
			rec := c.e.Call(n3, "removeStateValidator", svList([]string{pk.NewKey(c.rng).PubHex()}, o.Addr), pk.Single(o))
			must(rec, "removeStateValidator")
			return svApprove(notified(rec, "putStateValidatorRemove"), approver.Addr)
		}, true},
	}
	for _, oc := range cases {
		class := "owner"
		if oc.named == approver {
			class = "approver"
		}
		var args []byte
		valid := false
		for _, cb := range c.ownerCombos(oc.named) {
			if !valid {
				args = oc.prepare()
				valid = true
			}
			rec := c.try(class, oc.name, oc.contract, oc.method, args, oc.named.Addr, cb, false)
			if rec.Ok && !oc.reusable {
				valid = false
			}
			if rec.Ok && oc.name == "quitNode" {
				c.drop(c.last)
			}
		}
	}
}

func notified(rec *nat.CallRecord, name string) uint64 {
	for _, n := range rec.Notify {
		if st, ok := n.States.([]interface{}); ok && len(st) == 2 {
			if s, ok := st[0].(string); ok && s == name {
				if id, ok := st[1].(uint64); ok {
					return id
				}
			}
		}
	}
	panic("setup: no " + name + " notification")
}

// nonConsensusSets: while the pool holds members that are not consensus validators (an approved candidate, a
// candidate that asked to quit, a blacklisted candidate - all before the next epoch change) the operator is still the
// multi-signature of the consensus validators alone: operator-only calls witnessed by the multi-signature of
// validators + such members must fail.
func (c *ctx) nonConsensusSets() (sets []combo) {
	r := c.r
	nm := utils.NodeManagerContractAddress
	cand := c.spareKey()
	c.admit(cand, c.owner)
	quitting := c.spareKey()
	c.admit(quitting, c.owner)
	must(c.e.Call(nm, "quitNode", peerParam(quitting.PubHex(), c.owner.Addr), pk.Single(c.owner)), "quitNode(candidate)")
	c.drop(quitting)
	black := c.spareKey()
	c.admit(black, c.owner)
	c.approveAll(nm, "blackNode", func(a common.Address) []byte { return peerListParam([]string{black.PubHex()}, a) })
	c.drop(black)
	with := func(extra ...*pk.Key) []pk.Signer {
		ks := append(append([]*pk.Key{}, c.cons...), extra...)
		return []pk.Signer{pk.OperatorSigner(pk.SortKeys(ks))}
	}
	sets = []combo{
		{"non-consensus-set: validators + one approved candidate", with(cand)},
		{"non-consensus-set: validators + all approved candidates", with(c.cands...)},
		{"non-consensus-set: validators + candidate that asked to quit", with(quitting)},
		{"non-consensus-set: validators + blacklisted candidate", with(black)},
		{"non-consensus-set: every pool member", with(append(append([]*pk.Key{}, c.cands...), quitting, black)...)},
	}
	op := c.operator()
	opCombo := combo{"operator (consensus validators only)", []pk.Signer{c.opSigner()}}
	run := func(name string, contract common.Address, method string, args func() []byte) {
		for _, cb := range append(append([]combo{}, sets...), opCombo) {
			rec := c.try("operator", name, contract, method, args(), op, cb, false)
			if cb.name == opCombo.name && rec.Ok {
				r.Count("accepted_from_consensus_only_operator_while_non_consensus_members_in_pool", 1)
			}
			if cb.name != opCombo.name && !rec.Ok {
				r.Count("rejected_witness_of_non_consensus_set", 1)
			}
		}
	}
	run("updateConfig", nm, "updateConfig", func() []byte {
		s := common.NewZeroCopySink(nil)
		(&node_manager.UpdateConfigParam{Configuration: &node_manager.Configuration{BlockMsgDelay: 5000, HashMsgDelay: 5000, PeerHandshakeTimeout: 10,
			MaxBlockChangeView: 10000 + uint32(c.rng.Intn(50))}}).Serialization(s)
		return s.Bytes()
	})
	target := c.registerChain(utils.ETH_ROUTER, c.owner)
	for _, method := range []string{ccom.BLACK_CHAIN, ccom.WHITE_CHAIN} {
		run(method, utils.CrossChainManagerContractAddress, method, func() []byte {
			s := common.NewZeroCopySink(nil)
			(&ccom.BlackChainParam{ChainID: target}).Serialization(s)
			return s.Bytes()
		})
	}
	ethRouter := routers()[1]
	gid := c.registerChain(ethRouter.router, c.owner)
	run("syncGenesisHeader/"+ethRouter.name, utils.HeaderSyncContractAddress, hcom.SYNC_GENESIS_HEADER, func() []byte { return genesisParam(gid, ethRouter.valid(c.rng)) })
	return sets
}

// ---------------------------------------------------------------------------------------------
// calling-context rule

func (c *ctx) contextCases(n int) {
	r := c.r
	k1, k2, k3 := c.owner, c.other, c.other2
	queries := []common.Address{k1.Addr, k2.Addr, k3.Addr, probeAddrs[0], probeAddrs[1], probeAddrs[2], common.ADDRESS_EMPTY, utils.NodeManagerContractAddress}
	qname := []string{"signer-candidate-1", "signer-candidate-2", "never-signs", "probeA", "probeB", "probeC", "empty-address", "node-manager"}
	for i := 0; i < n; i++ {
		depth := 1 + c.rng.Intn(3)
		chain := make([]common.Address, depth)
		for d := range chain {
			chain[d] = probeAddrs[c.rng.Intn(3)]
		}
		var signers []pk.Signer
		if c.rng.Intn(2) == 0 {
			signers = append(signers, pk.Single(k1))
		}
		if c.rng.Intn(3) == 0 {
			signers = append(signers, pk.Single(k2))
		}
		sa := addrsOf(signers)
		// innermost first
		var prog *probeProg
		for d := depth - 1; d >= 0; d-- {
			p := &probeProg{Queries: queries}
			if prog != nil {
				p.Call = &probeCall{Target: chain[d+1], Method: "probe", Args: prog.encode()}
			}
			prog = p
		}
		rec := c.e.Call(chain[0], "probe", prog.encode(), signers...)
		r.Eval(1)
		pattern := ""
		for _, a := range chain {
			pattern += string('A' + byte(indexOf(a)))
		}
		r.Distinct("context", pattern, len(signers))
		if !rec.Ok {
			r.Violation("context:probe-call-failed", rec.Err, nil)
			continue
		}
		// expected answers written from the rule: signer, or the immediately calling contract
		// each probe notifies once, after its nested call returned: order = innermost ... outermost
		var notes [][]interface{}
		for _, nt := range rec.Notify {
			if st, ok := nt.States.([]interface{}); ok && len(st) == 4 && st[0] == "probe" {
				notes = append(notes, st)
			}
		}
		if len(notes) != depth {
			r.Violation("context:probe-notifications-missing", fmt.Sprintf("depth %d, %d notifications", depth, len(notes)), nil)
			continue
		}
		for idx, st := range notes {
			d := depth - 1 - idx
			want := make([]byte, len(queries))
			for qi, q := range queries {
				want[qi] = '0'
				if has(sa, q) || (d >= 1 && q == chain[d-1]) {
					want[qi] = '1'
				}
			}
			for _, phase := range []int{1, 2} {
				got := st[phase].(string)
				r.Count("context_answers_checked", len(queries))
				if got != string(want) {
					for qi := range queries {
						if got[qi] != want[qi] {
							r.Violation(fmt.Sprintf("context:checkwitness(%s)-wrong-at-depth-%d", qname[qi], d),
								fmt.Sprintf("call chain %s, %d signers, depth %d (%s the nested call): CheckWitness(%s) = %c, rule says %c", pattern, len(signers), d,
									map[int]string{1: "before", 2: "after"}[phase], qname[qi], got[qi], want[qi]),
								map[string]interface{}{"chain": pattern, "signers": len(signers), "depth": d, "got": got, "want": string(want)})
						}
					}
				} else if phase == 1 {
					if d >= 1 {
						r.Count("context_caller_recognised_at_depth>=1", 1)
					} else {
						r.Count("context_entry_level_checked", 1)
					}
				}
			}
		}
	}
	// a real contract as callee: owner-only method naming the probe contract as the owner
	nm := utils.NodeManagerContractAddress
	reg := func(k *pk.Key, owner common.Address) []byte {
		s := common.NewZeroCopySink(nil)
		(&node_manager.RegisterPeerParam{PeerPubkey: k.PubHex(), Address: owner}).Serialization(s)
		return s.Bytes()
	}
	A, B := probeAddrs[0], probeAddrs[1]
	type rc struct {
		name   string
		prog   *probeProg
		entry  common.Address
		expect bool // success allowed by the rule
	}
	kA, kB, kC := c.spareKey(), c.spareKey(), c.spareKey()
	inner := &probeProg{Call: &probeCall{Target: nm, Method: "registerCandidate", Args: reg(kB, A)}}
	rcs := []rc{
		{"A->registerCandidate(owner=A)", &probeProg{Call: &probeCall{Target: nm, Method: "registerCandidate", Args: reg(kA, A)}}, A, true},
		{"A->B->registerCandidate(owner=A)", &probeProg{Call: &probeCall{Target: B, Method: "probe", Args: inner.encode()}}, A, false},
		{"A->registerCandidate(owner=B)", &probeProg{Call: &probeCall{Target: nm, Method: "registerCandidate", Args: reg(kC, B)}}, A, false},
	}
	for _, x := range rcs {
		before := c.e.Digest(nil)
		rec := c.e.Call(x.entry, "probe", x.prog.encode(), pk.Single(c.other))
		r.Eval(1)
		r.Distinct("context-real-callee", x.name, rec.Ok)
		switch {
		case rec.Ok && !x.expect:
			r.Violation("context:owner-check-passes-for-non-immediate-caller", x.name+" succeeded", nil)
		case rec.Ok:
			r.Count("context_real_callee_accepts_immediate_caller", 1)
		case !x.expect:
			r.Count("context_real_callee_rejects_other_contract", 1)
			if c.e.Digest(nil) != before {
				r.Violation("context:rejected-nested-call-changed-state", x.name, nil)
			}
		default:
			r.Count("context_real_callee_rejected_immediate_caller", 1)
		}
	}
	// direct, unsigned: naming a contract address as owner does not help
	rec := c.e.Call(nm, "registerCandidate", reg(c.spareKey(), A))
	r.Eval(1)
	if rec.Ok {
		r.Violation("context:owner-check-passes-for-contract-address-without-call", "registerCandidate(owner=probeA) sent directly and unsigned succeeded", nil)
	} else {
		r.Count("context_real_callee_rejects_other_contract", 1)
	}
	// LATENT (recorded, not judged): a caller that swallows the error of a failed nested call. No contract of the
	// tree does that (NativeCall has no caller in poly), so no transaction can reach it.
	failing := &probeProg{Fail: true}
	mid := &probeProg{Queries: []common.Address{A, B}, Call: &probeCall{Target: probeAddrs[2], Method: "probe", Args: failing.encode(), Swallow: true}}
	outer := &probeProg{Call: &probeCall{Target: B, Method: "probe", Args: mid.encode()}}
	rec = c.e.Call(A, "probe", outer.encode())
	if rec.Ok {
		for _, nt := range rec.Notify {
			if st, ok := nt.States.([]interface{}); ok && len(st) == 4 && st[0] == "probe" && st[3] == "swallowed" {
				// inside B called by A: rule says CheckWitness(A)=1, CheckWitness(B)=0 before and after
				if st[2].(string) != "10" {
					r.Count("latent_context_stack_not_restored_after_failed_nested_call", 1)
					if r.Get("latent_sample") == 0 {
						r.Count("latent_sample", 1)
						r.Sample(map[string]interface{}{"latent": "A->B->C, C fails, B swallows the error: inside B afterwards CheckWitness(A),CheckWitness(B) = " + st[2].(string) + " (rule: 10); unreachable by transactions: no contract calls NativeCall"})
					}
				} else {
					r.Count("context_stack_restored_after_failed_nested_call", 1)
				}
			}
		}
	}
}

func indexOf(a common.Address) int {
	for i, p := range probeAddrs {
		if p == a {
			return i
		}
	}
	return -1
}

// ---------------------------------------------------------------------------------------------

func TestC18(t *testing.T) {
	r := kit.Start(t, "C18", "exploration")
	defer r.Finish()
	r.Rule("rounds over fresh contract universes with 5..8 (thorough ..10) validators; per round the full table: operator-only methods " +
		"(syncGenesisHeader of 21 routers through the header_sync entrance with well-formed genesis for btc/eth/bsc/heco/hsc and garbage otherwise, updateConfig, BlackChain, WhiteChain, " +
		"commitDpos at not-due / last-not-due / first-due / due heights with MaxBlockChangeView from initConfig (100, 1, 2), from a regular updateConfig and from boundary values installed by the operator (2^32-1, 2^32-2, 2^32-1-viewHeight+{-1,0,1,2}, 2^31, 2^31+viewHeight, 10000; heights up to 2^32-1)) x 12-14 signer combinations, 20 owner/approver methods x 9 combinations, then an epoch change that changes " +
		"the validator set and the operator table again (with the earlier operator as an extra signer), plus calling-context programs (A->B->C nestings of a scripted contract, " +
		"real contract as callee). 3/4 of the calls carry real signatures. Distinct = (class, method, signer combination, witnessed, outcome)")
	rounds := r.N(3, 300)
	for round := 0; round < rounds; round++ {
		rng := r.Rand(fmt.Sprintf("round-%d", round))
		n := 5 + rng.Intn(4)
		if !r.Quick() {
			n = 5 + rng.Intn(6)
		}
		if round < 4 {
			n = 5 + round
		}
		keys := pk.NewKeys(rng, n+3)
		c := &ctx{r: r, rng: rng, e: nat.New(5), cons: keys[:n], owner: keys[n], other: keys[n+1], other2: keys[n+2], nextID: 100, round: round}
		genesisMax := []uint32{100, 1, 2}[round%3]
		vb := pk.SetConfig(5, c.cons)
		vb.MaxBlockChangeView = genesisMax
		sink := common.NewZeroCopySink(nil)
		vb.Serialization(sink)
		c.e.Height = 0
		if rec := c.e.Call(utils.NodeManagerContractAddress, "initConfig", sink.Bytes()); !rec.Ok {
			r.Inconclusive("initConfig: " + rec.Err)
			return
		}
		c.e.Height = 1
		c.e.Validators = c.cons
		c.lastView, c.viewHeight, c.maxBCV = 1, 0, genesisMax
		r.Count(fmt.Sprintf("rounds_with_genesis_MaxBlockChangeView=%d", genesisMax), 1)
		func() {
			vBefore := r.Violations()
			defer func() {
				if p := recover(); p != nil {
					if r.Violations() > vBefore {
						r.Count("rounds_abandoned_after_a_violation", 1) // the violation already says why the setup could not go on
						return
					}
					r.Inconclusive(fmt.Sprintf("round %d: %v", round, p))
				}
			}()
			c.overdueWindow()
			c.operatorMethods("genesis-epoch")
			c.ownerMethods()
			c.contextCases(r.N(25, 40))
			// ---- pool members that are not consensus validators do not belong to the operator
			sets := c.nonConsensusSets()
			// ---- epoch change with a changed validator set: the operator address changes
			old := c.opSigner()
			gv := c.view()
			c.e.Height = gv.Height + 1
			for _, cb := range sets { // not due, and these signers are not the operator
				c.try("operator", "commitDpos/not-due", utils.NodeManagerContractAddress, "commitDpos", nil, c.operator(), cb, false)
			}
			c.commitBy(old, "commitDpos witnessed by the multi-signature of the consensus validators (the operator)")
			r.Count("accepted_from_consensus_only_operator_while_non_consensus_members_in_pool", 1)
			c.cons = append(c.cons, c.cands...)
			c.cands = nil
			if pm, err := node_manager.GetPeerPoolMap(c.e.Service(), c.view().View); err != nil || len(pm.PeerPoolMap) != len(c.cons) {
				panic(fmt.Sprintf("bookkeeping of the validator set is off: %d members expected, pool %v %v", len(c.cons), pm, err))
			}
			if old.Address() == c.operator() {
				r.Inconclusive("operator address did not change with the validator set")
			}
			c.oldOps = append(c.oldOps, old)
			r.Count("epoch_changes_with_new_operator", 1)
			c.operatorMethods("after-epoch")
		}()
		c.e.Store.Close()
		r.Count("rounds", 1)
	}
	for _, rt := range []string{"btc", "eth", "bsc", "heco", "hsc"} {
		r.Require("genesis_installed:"+rt, rounds)
	}
	for _, m := range []string{"updateConfig", "BlackChain", "WhiteChain", "commitDpos/not-due", "registerCandidate", "unRegisterCandidate", "quitNode",
		"registerSideChain", "updateSideChain", "quitSideChain", "registerRelayer", "RemoveRelayer", "registerStateValidator", "removeStateValidator",
		"approveCandidate", "blackNode", "whiteNode", "approveRegisterSideChain", "approveUpdateSideChain", "approveQuitSideChain",
		"approveRegisterRelayer", "approveRemoveRelayer", "approveRegisterStateValidator", "approveRemoveStateValidator"} {
		r.Require("accepted_with_witness:"+m, rounds)
	}
	r.Require("rejected_without_witness:operator", rounds*300)
	r.Require("rejected_without_witness:owner", rounds*60)
	r.Require("rejected_without_witness:approver", rounds*60)
	r.Require("due_commit_without_operator_ok", rounds*4)
	r.Require("not_due_commit_without_operator_beyond_previous_epoch_deadline", rounds*12)
	r.Require("view_changes_recorded_by_the_check", rounds*10)
	r.Require("boundary_configs_installed", rounds*2*8)
	r.Require("not_due_commit_without_operator:boundary", rounds*2*60)
	r.Require("not_due_commit_without_operator_where_viewheight+max_exceeds_uint32", rounds*2*30)
	r.Require("not_due_commit_without_operator_at_last_not_due_height", rounds*10)
	r.Require("not_due_commit_without_operator:genesis-config", rounds*5)
	r.Require("early_commit_by_operator_ok", rounds*2)
	r.Require("context_caller_recognised_at_depth>=1", rounds*10)
	r.Require("context_real_callee_accepts_immediate_caller", rounds)
	r.Require("context_real_callee_rejects_other_contract", rounds*3)
	r.Require("epoch_changes_with_new_operator", rounds)
	r.Require("rejected_witness_of_non_consensus_set", rounds*20)
	r.Require("accepted_from_consensus_only_operator_while_non_consensus_members_in_pool", rounds*5)
	var names []string
	for _, rt := range routers() {
		names = append(names, rt.name)
	}
	sort.Strings(names)
	r.Set("routers", names)
	r.Assume("only one direction is judged: without the required address among the transaction's signature addresses the call must fail and leave the storage digest unchanged; " +
		"a failure WITH the witness is not a violation (garbage genesis payloads fail for other reasons), vacuity guards demand a witnessed success per method")
	r.Assume("operator address = multi-signature address of the current consensus validators' keys with m = n-(n-1)/3, recomputed by the check from its own bookkeeping of the validator set (and cross-checked with types.AddressFromBookkeepers)")
	r.Assume("members of the pool that never were consensus validators of the current epoch (approved candidates, also after asking to quit or being blacklisted) are not part of the operator; " +
		"a consensus validator that asked to quit (still in office, but no longer counted by poly) is not used to build a must-fail case")
	r.Assume("the height of the last epoch change and MaxBlockChangeView are the check's own bookkeeping (height of the call after which the view number advanced; genesis value / last accepted updateConfig), " +
		"the values the contract stores are only compared and counted")
	r.Assume("commitDpos without the operator is allowed exactly when height - height_of_last_view_change >= MaxBlockChangeView (read with node_manager.GetConfig)")
	r.Assume("a caller that swallows the error of a failed nested call (impossible for transactions on this tree: nothing calls NativeCall) is recorded as latent, not judged")
	r.Assume("not covered: RegisterAsset / UpdateFee / AddSignature / vote import (listed in DESIGN, outside this task's method list)")
}
