// scripts.go: directed scenarios. They only choose WHICH operations run; every operation is judged
// by the same reference model as in random histories.
package govmodel

import (
	"fmt"

	"github.com/polynetwork/poly/common"
)

func ownerN(i int) func(g *Gen) *Actor {
	return func(g *Gen) *Actor { return g.W.Owners[i%len(g.W.Owners)] }
}

func regChain(id uint64, owner func(g *Gen) *Actor) Step {
	return OpStep(func(g *Gen) *Op {
		a := owner(g)
		return &Op{Kind: KRegisterSideChain, Actor: a, Chain: g.chainContent(id, a)}
	})
}
func updChain(id uint64, owner func(g *Gen) *Actor) Step {
	return OpStep(func(g *Gen) *Op {
		a := owner(g)
		c := g.chainContent(id, a)
		c.Name = "upd-" + c.Name // always different from any registration content
		return &Op{Kind: KUpdateSideChain, Actor: a, Chain: c}
	})
}
func quitChain(id uint64, owner func(g *Gen) *Actor) Step {
	return OpStep(func(g *Gen) *Op { return &Op{Kind: KQuitSideChain, Actor: owner(g), ID: id} })
}
func idStr(id uint64) func(*Gen) string { return Const(fmt.Sprint(id)) }

func relayers(g *Gen, idx ...int) []common.Address {
	var out []common.Address
	for _, i := range idx {
		out = append(out, g.W.RelayerU[i])
	}
	return out
}

// capture stores a request id at the time the step runs.
type capture struct{ v string }

func (c *capture) grab(method string) Step {
	return func(g *Gen) []*Op { c.v = fmt.Sprint(g.M.NextID[method] - 1); return nil }
}
func (c *capture) get() func(*Gen) string { return func(*Gen) string { return c.v } }

// candidate key used by scenarios: the first node key outside the genesis pool.
func candKey(g *Gen) *Actor { return g.W.Nodes[g.W.N0] }

// SecondRoundScripts: for every request type: request, approval round (applied), make a
// re-application observable, then a full second approval round WITHOUT a fresh request.
func SecondRoundScripts() []Script {
	var out []Script
	// side chain: quit
	out = append(out, Script{Name: "side_chain-quit-second-round", Steps: []Step{
		regChain(1, ownerN(0)), RoundStep(KApproveRegisterSC, idStr(1), "first-round"),
		quitChain(1, ownerN(0)), RoundStep(KApproveQuitSC, idStr(1), "first-round"),
		regChain(1, ownerN(1)), RoundStep(KApproveRegisterSC, idStr(1), "re-register"),
		RoundStep(KApproveQuitSC, idStr(1), "second-round/applied-earlier"),
	}, Tail: 10})
	// side chain: register
	out = append(out, Script{Name: "side_chain-register-second-round", Steps: []Step{
		regChain(2, ownerN(0)), RoundStep(KApproveRegisterSC, idStr(2), "first-round"),
		quitChain(2, ownerN(0)), RoundStep(KApproveQuitSC, idStr(2), "first-round"),
		RoundStep(KApproveRegisterSC, idStr(2), "second-round/applied-earlier"),
	}, Tail: 10})
	// side chain: update
	out = append(out, Script{Name: "side_chain-update-second-round", Steps: []Step{
		regChain(3, ownerN(2)), RoundStep(KApproveRegisterSC, idStr(3), "first-round"),
		updChain(3, ownerN(2)), RoundStep(KApproveUpdateSC, idStr(3), "first-round"),
		quitChain(3, ownerN(2)), RoundStep(KApproveQuitSC, idStr(3), "first-round"),
		regChain(3, ownerN(2)), RoundStep(KApproveRegisterSC, idStr(3), "re-register"),
		RoundStep(KApproveUpdateSC, idStr(3), "second-round/applied-earlier"),
	}, Tail: 10})
	// relayer: remove
	{
		var rem capture
		out = append(out, Script{Name: "relayer-remove-second-round", Steps: []Step{
			OpStep(func(g *Gen) *Op { return &Op{Kind: KRegisterRelayer, Actor: g.W.Owners[0], Addrs: relayers(g, 0, 1)} }),
			RoundStep(KApproveRegRelayer, LastID(KApproveRegRelayer), "first-round"),
			OpStep(func(g *Gen) *Op { return &Op{Kind: KRemoveRelayer, Actor: g.W.Owners[0], Addrs: relayers(g, 0)} }),
			rem.grab(KApproveRemRelayer),
			RoundStep(KApproveRemRelayer, rem.get(), "first-round"),
			OpStep(func(g *Gen) *Op { return &Op{Kind: KRegisterRelayer, Actor: g.W.Owners[1], Addrs: relayers(g, 0)} }),
			RoundStep(KApproveRegRelayer, LastID(KApproveRegRelayer), "re-register"),
			RoundStep(KApproveRemRelayer, rem.get(), "second-round/applied-earlier"),
		}, Tail: 10})
	}
	// relayer: register
	{
		var reg capture
		out = append(out, Script{Name: "relayer-register-second-round", Steps: []Step{
			OpStep(func(g *Gen) *Op { return &Op{Kind: KRegisterRelayer, Actor: g.W.Owners[0], Addrs: relayers(g, 2, 3)} }),
			reg.grab(KApproveRegRelayer),
			RoundStep(KApproveRegRelayer, reg.get(), "first-round"),
			OpStep(func(g *Gen) *Op { return &Op{Kind: KRemoveRelayer, Actor: g.W.Owners[0], Addrs: relayers(g, 2, 3)} }),
			RoundStep(KApproveRemRelayer, LastID(KApproveRemRelayer), "first-round"),
			RoundStep(KApproveRegRelayer, reg.get(), "second-round/applied-earlier"),
		}, Tail: 10})
	}
	// neo3 state validators: register / remove
	{
		var reg, rem capture
		out = append(out, Script{Name: "neo3-register-second-round", Steps: []Step{
			OpStep(func(g *Gen) *Op {
				return &Op{Kind: KRegisterSV, Actor: g.W.Owners[0], List: []string{g.W.SVU[0], g.W.SVU[1]}}
			}),
			reg.grab(KApproveRegSV),
			RoundStep(KApproveRegSV, reg.get(), "first-round"),
			OpStep(func(g *Gen) *Op { return &Op{Kind: KRemoveSV, Actor: g.W.Owners[0], List: []string{g.W.SVU[0]}} }),
			RoundStep(KApproveRemSV, LastID(KApproveRemSV), "first-round"),
			RoundStep(KApproveRegSV, reg.get(), "second-round/applied-earlier"),
		}, Tail: 10})
		out = append(out, Script{Name: "neo3-remove-second-round", Steps: []Step{
			OpStep(func(g *Gen) *Op { return &Op{Kind: KRegisterSV, Actor: g.W.Owners[0], List: []string{g.W.SVU[2]}} }),
			RoundStep(KApproveRegSV, LastID(KApproveRegSV), "first-round"),
			OpStep(func(g *Gen) *Op { return &Op{Kind: KRemoveSV, Actor: g.W.Owners[0], List: []string{g.W.SVU[2]}} }),
			rem.grab(KApproveRemSV),
			RoundStep(KApproveRemSV, rem.get(), "first-round"),
			OpStep(func(g *Gen) *Op { return &Op{Kind: KRegisterSV, Actor: g.W.Owners[1], List: []string{g.W.SVU[2]}} }),
			RoundStep(KApproveRegSV, LastID(KApproveRegSV), "re-register"),
			RoundStep(KApproveRemSV, rem.get(), "second-round/applied-earlier"),
		}, Tail: 10})
	}
	// validator candidacy
	out = append(out, Script{Name: "candidate-second-round", Steps: []Step{
		OpStep(func(g *Gen) *Op {
			return &Op{Kind: KRegisterCandidate, Actor: g.W.Owners[0], Node: candKey(g).Key.PubHex()}
		}),
		RoundStep(KApproveCandidate, func(g *Gen) string { return candKey(g).Key.PubHex() }, "first-round"),
		EpochStep(),
		OpStep(func(g *Gen) *Op { return &Op{Kind: KQuitNode, Actor: g.W.Owners[0], Node: candKey(g).Key.PubHex()} }),
		EpochStep(),
		RoundStep(KApproveCandidate, func(g *Gen) string { return candKey(g).Key.PubHex() }, "second-round/applied-earlier"),
	}, Tail: 10})
	return out
}

// ReturningScripts: the "consumed" rule on SECOND incarnations: the same key / chain id / relayer /
// state validator goes through request -> approval -> removal twice; after the second removal a full
// approval round of the second request (no fresh one) must change nothing.
func ReturningScripts() []Script {
	var out []Script
	key := func(g *Gen) string { return candKey(g).Key.PubHex() }
	regCand := func(k func(g *Gen) string, owner func(g *Gen) *Actor) Step {
		return OpStep(func(g *Gen) *Op {
			return &Op{Kind: KRegisterCandidate, Actor: owner(g), Node: k(g), Tag: "returning-key"}
		})
	}
	quit := func(k func(g *Gen) string, owner func(g *Gen) *Actor) Step {
		return OpStep(func(g *Gen) *Op { return &Op{Kind: KQuitNode, Actor: owner(g), Node: k(g)} })
	}
	// a candidate that already owns a peer index comes back and leaves again
	out = append(out, Script{Name: "candidate-returning-second-round", Steps: []Step{
		regCand(key, ownerN(0)), RoundStep(KApproveCandidate, key, "first-incarnation"), EpochStep(),
		quit(key, ownerN(0)), EpochStep(),
		regCand(key, ownerN(0)), RoundStep(KApproveCandidate, key, "second-incarnation"), EpochStep(),
		quit(key, ownerN(0)), EpochStep(),
		RoundStep(KApproveCandidate, key, "returning/applied-earlier"),
		EpochStep(),
		regCand(key, ownerN(1)), RoundStep(KApproveCandidate, key, "third-incarnation"),
	}, Tail: 10})
	// a genesis validator (index assigned by initConfig) quits, returns, quits
	gen0 := func(g *Gen) string { return g.W.Nodes[0].Key.PubHex() }
	self0 := func(g *Gen) *Actor { return g.W.Nodes[0] }
	out = append(out, Script{Name: "genesis-validator-returning-second-round", MinN: 5, Steps: []Step{
		quit(gen0, self0), EpochStep(),
		regCand(gen0, self0), RoundStep(KApproveCandidate, gen0, "first-incarnation-as-candidate"), EpochStep(),
		quit(gen0, self0), EpochStep(),
		RoundStep(KApproveCandidate, gen0, "returning/applied-earlier"),
	}, Tail: 10})
	// side chain: register, quit, register again, update, quit again, then rounds of all three old requests
	out = append(out, Script{Name: "side_chain-returning-second-round", Steps: []Step{
		regChain(1, ownerN(0)), RoundStep(KApproveRegisterSC, idStr(1), "first-incarnation"),
		updChain(1, ownerN(0)), RoundStep(KApproveUpdateSC, idStr(1), "first-incarnation"),
		quitChain(1, ownerN(0)), RoundStep(KApproveQuitSC, idStr(1), "first-incarnation"),
		regChain(1, ownerN(1)), RoundStep(KApproveRegisterSC, idStr(1), "second-incarnation"),
		updChain(1, ownerN(1)), RoundStep(KApproveUpdateSC, idStr(1), "second-incarnation"),
		quitChain(1, ownerN(1)), RoundStep(KApproveQuitSC, idStr(1), "second-incarnation"),
		RoundStep(KApproveRegisterSC, idStr(1), "returning/applied-earlier"),
		RoundStep(KApproveUpdateSC, idStr(1), "returning/applied-earlier"),
		regChain(1, ownerN(2)), RoundStep(KApproveRegisterSC, idStr(1), "third-incarnation"),
		RoundStep(KApproveQuitSC, idStr(1), "returning/applied-earlier"),
		RoundStep(KApproveUpdateSC, idStr(1), "returning/applied-earlier"),
	}, Tail: 10})
	// side chain: an update request and a quit request pending together; each approval consumes its
	// own request only, so after the chain id returns neither old request can be applied again
	out = append(out, Script{Name: "side_chain-quit-while-update-pending", Steps: []Step{
		regChain(1, ownerN(0)), RoundStep(KApproveRegisterSC, idStr(1), "first-incarnation"),
		updChain(1, ownerN(0)), quitChain(1, ownerN(0)),
		RoundStep(KApproveQuitSC, idStr(1), "quit-with-update-pending"),
		regChain(1, ownerN(1)), RoundStep(KApproveRegisterSC, idStr(1), "second-incarnation"),
		RoundStep(KApproveQuitSC, idStr(1), "returning/applied-earlier"),
	}, Tail: 10})
	out = append(out, Script{Name: "side_chain-update-while-quit-pending", Steps: []Step{
		regChain(2, ownerN(0)), RoundStep(KApproveRegisterSC, idStr(2), "first-incarnation"),
		quitChain(2, ownerN(0)), updChain(2, ownerN(0)),
		RoundStep(KApproveUpdateSC, idStr(2), "update-with-quit-pending"),
		RoundStep(KApproveUpdateSC, idStr(2), "second-round/applied-earlier"),
		RoundStep(KApproveQuitSC, idStr(2), "quit-after-update"),
		regChain(2, ownerN(1)), RoundStep(KApproveRegisterSC, idStr(2), "second-incarnation"),
		RoundStep(KApproveQuitSC, idStr(2), "returning/applied-earlier"),
		RoundStep(KApproveUpdateSC, idStr(2), "returning/applied-earlier"),
	}, Tail: 10})
	// relayer: admitted, removed, admitted again, removed again; rounds of the second-incarnation ids
	{
		var reg2, rem2 capture
		out = append(out, Script{Name: "relayer-returning-second-round", Steps: []Step{
			OpStep(func(g *Gen) *Op { return &Op{Kind: KRegisterRelayer, Actor: g.W.Owners[0], Addrs: relayers(g, 4)} }),
			RoundStep(KApproveRegRelayer, LastID(KApproveRegRelayer), "first-incarnation"),
			OpStep(func(g *Gen) *Op { return &Op{Kind: KRemoveRelayer, Actor: g.W.Owners[0], Addrs: relayers(g, 4)} }),
			RoundStep(KApproveRemRelayer, LastID(KApproveRemRelayer), "first-incarnation"),
			OpStep(func(g *Gen) *Op { return &Op{Kind: KRegisterRelayer, Actor: g.W.Owners[1], Addrs: relayers(g, 4)} }),
			reg2.grab(KApproveRegRelayer),
			RoundStep(KApproveRegRelayer, reg2.get(), "second-incarnation"),
			OpStep(func(g *Gen) *Op { return &Op{Kind: KRemoveRelayer, Actor: g.W.Owners[1], Addrs: relayers(g, 4)} }),
			rem2.grab(KApproveRemRelayer),
			RoundStep(KApproveRemRelayer, rem2.get(), "second-incarnation"),
			RoundStep(KApproveRegRelayer, reg2.get(), "returning/applied-earlier"),
			OpStep(func(g *Gen) *Op { return &Op{Kind: KRegisterRelayer, Actor: g.W.Owners[2], Addrs: relayers(g, 4)} }),
			RoundStep(KApproveRegRelayer, LastID(KApproveRegRelayer), "third-incarnation"),
			RoundStep(KApproveRemRelayer, rem2.get(), "returning/applied-earlier"),
		}, Tail: 10})
	}
	// NEO3 state validator: added, removed, added again, removed again
	{
		var reg2, rem2 capture
		sv := func(g *Gen) []string { return []string{g.W.SVU[3]} }
		out = append(out, Script{Name: "neo3-returning-second-round", Steps: []Step{
			OpStep(func(g *Gen) *Op { return &Op{Kind: KRegisterSV, Actor: g.W.Owners[0], List: sv(g)} }),
			RoundStep(KApproveRegSV, LastID(KApproveRegSV), "first-incarnation"),
			OpStep(func(g *Gen) *Op { return &Op{Kind: KRemoveSV, Actor: g.W.Owners[0], List: sv(g)} }),
			RoundStep(KApproveRemSV, LastID(KApproveRemSV), "first-incarnation"),
			OpStep(func(g *Gen) *Op { return &Op{Kind: KRegisterSV, Actor: g.W.Owners[1], List: sv(g)} }),
			reg2.grab(KApproveRegSV),
			RoundStep(KApproveRegSV, reg2.get(), "second-incarnation"),
			OpStep(func(g *Gen) *Op { return &Op{Kind: KRemoveSV, Actor: g.W.Owners[1], List: sv(g)} }),
			rem2.grab(KApproveRemSV),
			RoundStep(KApproveRemSV, rem2.get(), "second-incarnation"),
			RoundStep(KApproveRegSV, reg2.get(), "returning/applied-earlier"),
			OpStep(func(g *Gen) *Op { return &Op{Kind: KRegisterSV, Actor: g.W.Owners[2], List: sv(g)} }),
			RoundStep(KApproveRegSV, LastID(KApproveRegSV), "third-incarnation"),
			RoundStep(KApproveRemSV, rem2.get(), "returning/applied-earlier"),
		}, Tail: 10})
	}
	return out
}

// OverlappingScripts: two pending requests name the same relayer / state validator. Both are approved (the
// second one changes nothing visible when it is applied), the subject is then removed / re-admitted by a regular
// request, and a later approval round of the SECOND request (no fresh one) must change nothing.
func OverlappingScripts() []Script {
	var out []Script
	type fam struct {
		name                   string
		reg, rem, apReg, apRem string
		mk                     func(g *Gen, kind string, who int) *Op
	}
	fams := []fam{
		{"relayer", KRegisterRelayer, KRemoveRelayer, KApproveRegRelayer, KApproveRemRelayer,
			func(g *Gen, kind string, who int) *Op {
				return &Op{Kind: kind, Actor: g.W.Owners[who], Addrs: relayers(g, 5), Tag: "overlapping-request"}
			}},
		{"neo3", KRegisterSV, KRemoveSV, KApproveRegSV, KApproveRemSV,
			func(g *Gen, kind string, who int) *Op {
				return &Op{Kind: kind, Actor: g.W.Owners[who], List: []string{g.W.SVU[4]}, Tag: "overlapping-request"}
			}},
	}
	for _, f := range fams {
		f := f
		req := func(kind string, who int) Step { return OpStep(func(g *Gen) *Op { return f.mk(g, kind, who) }) }
		{
			var a, b capture
			out = append(out, Script{Name: f.name + "-overlapping-register-requests", Steps: []Step{
				req(f.reg, 0), a.grab(f.apReg), req(f.reg, 1), b.grab(f.apReg),
				RoundStep(f.apReg, a.get(), "overlap/first-request"),
				RoundStep(f.apReg, b.get(), "overlap/second-request-adds-nothing"),
				req(f.rem, 0), RoundStep(f.apRem, LastID(f.apRem), "overlap/regular-removal"),
				RoundStep(f.apReg, b.get(), "overlap/applied-earlier"),
				RoundStep(f.apReg, a.get(), "overlap/applied-earlier"),
			}, Tail: 8})
		}
		{
			var a, b capture
			out = append(out, Script{Name: f.name + "-overlapping-remove-requests", Steps: []Step{
				req(f.reg, 0), RoundStep(f.apReg, LastID(f.apReg), "overlap/admit"),
				req(f.rem, 0), a.grab(f.apRem), req(f.rem, 1), b.grab(f.apRem),
				RoundStep(f.apRem, a.get(), "overlap/first-request"),
				RoundStep(f.apRem, b.get(), "overlap/second-request-removes-nothing"),
				req(f.reg, 2), RoundStep(f.apReg, LastID(f.apReg), "overlap/regular-re-admission"),
				RoundStep(f.apRem, b.get(), "overlap/applied-earlier"),
				RoundStep(f.apRem, a.get(), "overlap/applied-earlier"),
			}, Tail: 8})
		}
	}
	return out
}

// ThresholdScripts: for each approval-gated method one request followed by approvals in an order
// that keeps the count one below the threshold as long as possible (validators interleaved with
// outsiders, repeat approvers, approvals of the same id under another method and of another id
// under the same method), then the decisive approval.
func ThresholdScripts() []Script {
	walk := func(method string, req func(g *Gen) string, others func(g *Gen, fresh []*Actor) []*Op) Step {
		return func(g *Gen) []*Op {
			var vals []*Actor
			for _, mem := range g.members(StCons) {
				if a := g.actorOfNode(mem.Str); a != nil {
					vals = append(vals, a)
				}
			}
			g.Rng.Shuffle(len(vals), func(i, j int) { vals[i], vals[j] = vals[j], vals[i] })
			t := Threshold(len(vals))
			mk := func(a *Actor, cls string) *Op {
				o := g.approveOp(method, req(g), "walk")
				o.Actor, o.Tag = a, "walk/"+cls
				return o
			}
			var ops []*Op
			for i := 0; i < t-1; i++ {
				ops = append(ops, mk(vals[i], "validator"))
				if g.pct(40) {
					ops = append(ops, mk(vals[g.Rng.Intn(i+1)], "repeat"))
				}
			}
			for _, x := range g.W.Outsiders {
				ops = append(ops, mk(x, "outsider"))
			}
			for _, x := range g.W.Owners {
				ops = append(ops, mk(x, "owner-outsider"))
			}
			for _, a := range g.W.Nodes[g.W.N0:] {
				ops = append(ops, mk(a, "non-consensus-node"))
			}
			if others != nil {
				// validators that have not approved the request under test, fewer than a quorum of them
				fresh := vals[t-1:]
				if len(fresh) > t-1 {
					fresh = fresh[:t-1]
				}
				ops = append(ops, others(g, fresh)...)
			}
			for i := t - 1; i < len(vals); i++ {
				ops = append(ops, mk(vals[i], "validator"))
			}
			return ops
		}
	}
	// approvals of the same id under other methods / other ids under the same method by validators that
	// have NOT approved the request under test: they must not help.
	cross := func(specs ...[2]string) func(g *Gen, fresh []*Actor) []*Op {
		return func(g *Gen, fresh []*Actor) []*Op {
			var ops []*Op
			for _, sp := range specs {
				for _, a := range fresh {
					o := g.approveOp(sp[0], sp[1], "cross")
					o.Actor, o.Tag = a, "cross/other-method-or-id"
					ops = append(ops, o)
				}
			}
			return ops
		}
	}
	var out []Script
	out = append(out, Script{Name: "threshold-side_chain", Steps: []Step{
		// chain 0 and 1 registered requests pending at once; update and quit of chain 0 requested later
		regChain(0, ownerN(0)), regChain(1, ownerN(1)),
		walk(KApproveRegisterSC, idStr(0), cross([2]string{KApproveRegisterSC, "1"}, [2]string{KApproveQuitSC, "0"}, [2]string{KApproveUpdateSC, "0"})),
		updChain(0, ownerN(0)), quitChain(0, ownerN(0)),
		walk(KApproveUpdateSC, idStr(0), cross([2]string{KApproveQuitSC, "0"})),
		walk(KApproveQuitSC, idStr(0), cross([2]string{KApproveUpdateSC, "0"})),
	}, Tail: 15})
	out = append(out, Script{Name: "threshold-relayer-neo3", Steps: []Step{
		OpStep(func(g *Gen) *Op { return &Op{Kind: KRegisterRelayer, Actor: g.W.Owners[0], Addrs: relayers(g, 0, 1)} }),
		OpStep(func(g *Gen) *Op { return &Op{Kind: KRegisterRelayer, Actor: g.W.Owners[1], Addrs: relayers(g, 2)} }),
		OpStep(func(g *Gen) *Op { return &Op{Kind: KRemoveRelayer, Actor: g.W.Owners[1], Addrs: relayers(g, 0)} }),
		OpStep(func(g *Gen) *Op { return &Op{Kind: KRegisterSV, Actor: g.W.Owners[0], List: []string{g.W.SVU[0]}} }),
		OpStep(func(g *Gen) *Op { return &Op{Kind: KRemoveSV, Actor: g.W.Owners[0], List: []string{g.W.SVU[0]}} }),
		walk(KApproveRegRelayer, Const("0"), cross([2]string{KApproveRegRelayer, "1"}, [2]string{KApproveRemRelayer, "0"}, [2]string{KApproveRegSV, "0"})),
		walk(KApproveRemRelayer, Const("0"), cross([2]string{KApproveRegRelayer, "1"})),
		walk(KApproveRegSV, Const("0"), cross([2]string{KApproveRemSV, "0"})),
		walk(KApproveRemSV, Const("0"), nil),
	}, Tail: 15})
	out = append(out, Script{Name: "candidate-second-applicant-while-partially-approved", Steps: []Step{
		OpStep(func(g *Gen) *Op {
			return &Op{Kind: KRegisterCandidate, Actor: g.W.Owners[0], Node: candKey(g).Key.PubHex()}
		}),
		func(g *Gen) []*Op {
			ops := g.Round(KApproveCandidate, candKey(g).Key.PubHex(), "partial-round", false)
			return ops[:Threshold(len(ops))-1]
		},
		OpStep(func(g *Gen) *Op {
			return &Op{Kind: KRegisterCandidate, Actor: g.W.Owners[1], Node: candKey(g).Key.PubHex(), Tag: "second-applicant"}
		}),
		OpStep(func(g *Gen) *Op {
			return &Op{Kind: KUnRegisterCandidate, Actor: g.W.Owners[1], Node: candKey(g).Key.PubHex(), Tag: "by-other"}
		}),
		OpStep(func(g *Gen) *Op {
			return &Op{Kind: KRegisterCandidate, Actor: candKey(g), Node: candKey(g).Key.PubHex(), Tag: "second-applicant"}
		}),
		RoundStep(KApproveCandidate, func(g *Gen) string { return candKey(g).Key.PubHex() }, "rest-of-round"),
	}, Tail: 10})
	out = append(out, Script{Name: "threshold-node", Extra: 1, Steps: []Step{
		OpStep(func(g *Gen) *Op {
			return &Op{Kind: KRegisterCandidate, Actor: g.W.Owners[0], Node: g.W.Nodes[g.W.N0].Key.PubHex()}
		}),
		OpStep(func(g *Gen) *Op {
			return &Op{Kind: KRegisterCandidate, Actor: g.W.Owners[1], Node: g.W.Nodes[g.W.N0+1].Key.PubHex()}
		}),
		walk(KApproveCandidate, func(g *Gen) string { return g.W.Nodes[g.W.N0].Key.PubHex() },
			func(g *Gen, fresh []*Actor) []*Op {
				return cross([2]string{KApproveCandidate, g.W.Nodes[g.W.N0+1].Key.PubHex()}, [2]string{KWhiteNode, g.W.Nodes[g.W.N0].Key.PubHex()})(g, fresh)
			}),
		EpochStep(),
		OpStep(func(g *Gen) *Op { return &Op{Kind: KAdvance, Delta: 1} }),
		// blacklist the member admitted above (N0+1 active members now), then white-list it again
		walk(KBlackNode, func(g *Gen) string { return g.W.Nodes[g.W.N0].Key.PubHex() }, nil),
		OpStep(func(g *Gen) *Op { return &Op{Kind: KAdvance, Delta: 1} }),
		walk(KWhiteNode, func(g *Gen) string { return g.W.Nodes[g.W.N0].Key.PubHex() }, nil),
	}, Tail: 15})
	return out
}

// HostileScripts: non-canonical spellings of public keys through the real entry points.
func HostileScripts() []Script {
	var out []Script
	for vi, vname := range []string{"upper", "mixed", "uncompressed"} {
		v := vi + 1
		spell := func(g *Gen, a *Actor) string { return g.W.variants[a.Key.PubHex()][v] }
		// a spelling variant of a key that already sits in the pool applies for candidacy and is approved
		out = append(out, Script{Name: "variant-of-pool-member-" + vname, Hostile: true, Steps: []Step{
			OpStep(func(g *Gen) *Op {
				return &Op{Kind: KRegisterCandidate, Actor: g.W.Owners[0], Node: spell(g, g.W.Nodes[0]), Tag: "variant-of-member"}
			}),
			RoundStep(KApproveCandidate, func(g *Gen) string { return spell(g, g.W.Nodes[0]) }, "variant"),
			EpochStep(),
		}, Tail: 12})
		// a blacklisted key applies again under another spelling
		out = append(out, Script{Name: "variant-of-blacklisted-key-" + vname, Hostile: true, MinN: 5, Steps: []Step{
			RoundStep(KBlackNode, func(g *Gen) string { return g.W.Nodes[1].Key.PubHex() }, "blacklist"),
			OpStep(func(g *Gen) *Op {
				return &Op{Kind: KRegisterCandidate, Actor: g.W.Owners[1], Node: spell(g, g.W.Nodes[1]), Tag: "variant-of-blacklisted"}
			}),
			RoundStep(KApproveCandidate, func(g *Gen) string { return spell(g, g.W.Nodes[1]) }, "variant"),
			OpStep(func(g *Gen) *Op { return &Op{Kind: KAdvance, Delta: 1} }),
			EpochStep(),
		}, Tail: 12})
		// a candidate applies under a variant spelling from the start (no duplicate expected), then the canonical one
		out = append(out, Script{Name: "variant-first-then-canonical-" + vname, Hostile: true, Steps: []Step{
			OpStep(func(g *Gen) *Op {
				return &Op{Kind: KRegisterCandidate, Actor: g.W.Owners[2], Node: spell(g, candKey(g)), Tag: "variant-fresh"}
			}),
			RoundStep(KApproveCandidate, func(g *Gen) string { return spell(g, candKey(g)) }, "variant"),
			OpStep(func(g *Gen) *Op {
				return &Op{Kind: KRegisterCandidate, Actor: g.W.Owners[2], Node: candKey(g).Key.PubHex(), Tag: "canonical-after-variant"}
			}),
			RoundStep(KApproveCandidate, func(g *Gen) string { return candKey(g).Key.PubHex() }, "canonical"),
			EpochStep(),
		}, Tail: 12})
	}
	return out
}

// RegistryScripts: side-chain registry scenarios with non-owners trying every path.
const maxChainID = uint64(18446744073709551615)

func RegistryScripts() []Script {
	other := func(g *Gen) *Actor { return g.W.Outsiders[0] }
	naming := func(kind string, id uint64, signer, named func(g *Gen) *Actor) Step {
		return OpStep(func(g *Gen) *Op {
			o := &Op{Kind: kind, Actor: signer(g), Named: named(g), ID: id, Tag: "by-other-naming-owner"}
			if kind == KUpdateSideChain || kind == KRegisterSideChain {
				o.Chain = g.chainContent(id, named(g))
				o.Chain.Name = "evil-" + o.Chain.Name
			}
			return o
		})
	}
	stale := Script{Name: "registry-stale-update-then-registration", Steps: []Step{
		// the owner asks for an update, then quits; the update request stays pending after the removal;
		// somebody else asks to register the free id; validators approve the old update, then the registration
		regChain(0, ownerN(0)), RoundStep(KApproveRegisterSC, idStr(0), "first-round"),
		updChain(0, ownerN(0)),
		quitChain(0, ownerN(0)), RoundStep(KApproveQuitSC, idStr(0), "quit-round"),
		regChain(0, ownerN(1)),
		RoundStep(KApproveUpdateSC, idStr(0), "pending-update-of-removed-chain"),
		RoundStep(KApproveRegisterSC, idStr(0), "registration-of-free-id"),
	}, Tail: 10}
	// same as `stale`, but the SAME owner applies again: a pending registration coexists with a chain registered to its applicant
	staleSame := Script{Name: "registry-stale-update-then-registration-by-the-same-owner", Steps: []Step{
		regChain(1, ownerN(2)), RoundStep(KApproveRegisterSC, idStr(1), "first-round"),
		updChain(1, ownerN(2)),
		quitChain(1, ownerN(2)), RoundStep(KApproveQuitSC, idStr(1), "quit-round"),
		regChain(1, ownerN(2)),
		RoundStep(KApproveUpdateSC, idStr(1), "pending-update-of-removed-chain"),
		RoundStep(KApproveRegisterSC, idStr(1), "registration-of-id-registered-to-the-applicant"),
		RoundStep(KApproveRegisterSC, idStr(1), "registration-of-id-registered-to-the-applicant/again"),
	}, Tail: 10}
	// a second requester files a request for an id whose request is pending and partially approved
	partial := func(method string, id uint64, tag string) Step {
		return func(g *Gen) []*Op {
			ops := g.Round(method, fmt.Sprint(id), tag, false)
			t := Threshold(len(ops))
			if t-1 < len(ops) {
				ops = ops[:t-1]
			}
			return ops
		}
	}
	swap := Script{Name: "registry-second-requester-while-partially-approved", Steps: []Step{
		regChain(2, ownerN(0)), partial(KApproveRegisterSC, 2, "partial-round"),
		regChain(2, ownerN(1)), regChain(2, other), // other applicants for the pending id
		RoundStep(KApproveRegisterSC, idStr(2), "rest-of-round"),
		updChain(2, ownerN(0)), partial(KApproveUpdateSC, 2, "partial-round"),
		updChain(2, ownerN(1)), naming(KUpdateSideChain, 2, other, ownerN(0)), // non-owners while an update is pending
		RoundStep(KApproveUpdateSC, idStr(2), "rest-of-round"),
		quitChain(2, ownerN(0)), partial(KApproveQuitSC, 2, "partial-round"),
		quitChain(2, ownerN(1)),
		RoundStep(KApproveQuitSC, idStr(2), "rest-of-round"),
	}, Tail: 10}
	// the owner himself replaces his pending update after part of the quorum approved the first version
	ownerSwap := Script{Name: "registry-owner-replaces-update-while-partially-approved", Steps: []Step{
		regChain(3, ownerN(0)), RoundStep(KApproveRegisterSC, idStr(3), "first-round"),
		updChain(3, ownerN(0)), partial(KApproveUpdateSC, 3, "partial-round"),
		OpStep(func(g *Gen) *Op {
			a := g.W.Owners[0]
			c := g.chainContent(3, a)
			c.Name, c.CCMC = "replaced-"+c.Name, []byte{0xee, 0xee}
			return &Op{Kind: KUpdateSideChain, Actor: a, Chain: c, Tag: "owner-replaces-pending-update"}
		}),
		RoundStep(KApproveUpdateSC, idStr(3), "rest-of-round"),
	}, Tail: 5}
	return []Script{stale, staleSame, swap, ownerSwap, {Name: "registry-non-owner-paths", Steps: []Step{
		regChain(maxChainID, ownerN(0)),
		regChain(maxChainID, ownerN(1)), // second request for the same id while pending
		RoundStep(KApproveRegisterSC, idStr(maxChainID), "first-round"),
		regChain(maxChainID, ownerN(1)), // request for a registered id
		RoundStep(KApproveRegisterSC, idStr(maxChainID), "round-after-refused-request"),
		updChain(maxChainID, other), naming(KUpdateSideChain, maxChainID, other, ownerN(0)), updChain(maxChainID, ownerN(1)),
		RoundStep(KApproveUpdateSC, idStr(maxChainID), "round-without-owner-request"),
		quitChain(maxChainID, other), naming(KQuitSideChain, maxChainID, other, ownerN(0)), quitChain(maxChainID, ownerN(1)),
		RoundStep(KApproveQuitSC, idStr(maxChainID), "round-without-owner-request"),
		updChain(maxChainID, ownerN(0)),
		RoundStep(KApproveUpdateSC, idStr(maxChainID), "owner-update"),
		quitChain(maxChainID, ownerN(0)),
		RoundStep(KApproveQuitSC, idStr(maxChainID), "owner-quit"),
	}, Tail: 20}}
}
