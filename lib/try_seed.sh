#!/bin/bash
# try_seed.sh <patch.diff> <ID> [ID...]  — apply a seeded change to a scratch worktree of /repo HEAD and run
# the given checks (quick tier) against it through VERIF_REPO; prints exit codes. Env: TIER, VERIF_SEED.
set -u
patch=$(readlink -f "$1"); shift
wt=/var/tmp/try-$$
git -C /repo worktree add --detach -q "$wt" HEAD || exit 3
trap 'git -C /repo worktree remove --force "$wt" >/dev/null 2>&1' EXIT
if ! git -C "$wt" apply "$patch"; then echo "PATCH-DOES-NOT-APPLY $patch"; exit 4; fi
cd /verif
for id in "$@"; do
  out=$(VERIF_REPO="$wt" VERIF_EVIDENCE_KEEP=1 ./check "$id" --tier "${TIER:-quick}" 2>&1)
  rc=$?
  echo "$out" | grep -E "^  key=|^INCONCLUSIVE|^BUILD-FAILED" | cut -c1-220 | sort | uniq -c | head -6
  echo "== $id exit=$rc"
done
