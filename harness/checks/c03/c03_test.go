// C03: transaction root == reference Bitcoin-style double-SHA-256 Merkle root.
package c03

import (
	"bytes"
	"crypto/sha256"
	"fmt"
	"sync"
	"testing"

	"verifharness/kit"

	"github.com/polynetwork/poly/common"
	"verifharness/kit/pk"
	"github.com/polynetwork/poly/core/types"
)

func dsha(b []byte) [32]byte {
	a := sha256.Sum256(b)
	return sha256.Sum256(a[:])
}

// refRoot is written from the property statement, recursively, sharing no code with poly.
func refRoot(hs [][32]byte) [32]byte {
	if len(hs) == 0 {
		return [32]byte{}
	}
	if len(hs) == 1 {
		return hs[0]
	}
	var next [][32]byte
	for i := 0; i < len(hs); i += 2 {
		l := hs[i]
		r := l
		if i+1 < len(hs) {
			r = hs[i+1]
		}
		next = append(next, dsha(append(append([]byte{}, l[:]...), r[:]...)))
	}
	return refRoot(next)
}

func TestC03(t *testing.T) {
	r := kit.Start(t, "C03", "exploration")
	defer r.Finish()
	r.Rule("every list length n in the declared range × content shapes {random, all-equal, last-two-equal, sequential}; distinct = (n, shape, root); blocks: honest block decodes, root off by one bit / reordered txs refused; RebuildMerkleRoot after the block hash was taken and the tx list then filled / emptied / extended / shortened")
	rng := r.Rand("roots")
	maxN := r.N(1100, 4100)
	sizes := []int{}
	for n := 0; n <= maxN; n++ {
		sizes = append(sizes, n)
	}
	if !r.Quick() {
		for k := uint(12); k <= 14; k++ {
			for d := -1; d <= 1; d++ {
				sizes = append(sizes, (1<<k)+d)
			}
		}
		sizes = append(sizes, 20000)
	}
	for _, n := range sizes {
		for shape := 0; shape < 4; shape++ {
			hs := make([][32]byte, n)
			for i := range hs {
				switch shape {
				case 0:
					rng.Read(hs[i][:])
				case 1:
					hs[i] = [32]byte{7}
				case 2:
					rng.Read(hs[i][:])
					if i == n-1 && n >= 2 {
						hs[i] = hs[i-1]
					}
				case 3:
					hs[i] = sha256.Sum256([]byte(fmt.Sprint(i)))
				}
			}
			in := make([]common.Uint256, n)
			for i := range hs {
				in[i] = common.Uint256(hs[i])
			}
			got := common.ComputeMerkleRoot(in)
			want := refRoot(hs)
			r.Eval(1)
			r.Distinct(n, shape, want)
			if [32]byte(got) != want {
				r.Violation("root-mismatch", fmt.Sprintf("n=%d shape=%d got %x want %x", n, shape, got[:], want[:]),
					map[string]interface{}{"n": n, "shape": shape})
			}
			if n == 5 && shape == 3 {
				r.Sample(map[string]interface{}{"n": n, "shape": "sequential", "root": kit.Hex(want[:])})
			}
		}
	}
	r.Count("sizes", len(sizes))
	// Concurrent callers on private lists (p2p block decoding and the consensus proposer compute
	// roots at the same time in a node): every call must still return the reference root.
	{
		workers, per := 8, r.N(300, 6000)
		type bad struct {
			n         int
			got, want [32]byte
			pan       interface{}
		}
		bads := make(chan bad, workers*per)
		var wg sync.WaitGroup
		for w := 0; w < workers; w++ {
			wg.Add(1)
			go func(w int) {
				defer wg.Done()
				lr := r.Rand(fmt.Sprintf("conc/%d", w))
				for i := 0; i < per; i++ {
					n := lr.Intn(40)
					hs := make([][32]byte, n)
					in := make([]common.Uint256, n)
					for j := range hs {
						lr.Read(hs[j][:])
						in[j] = common.Uint256(hs[j])
					}
					want := refRoot(hs)
					var got common.Uint256
					p := kit.Catch(func() { got = common.ComputeMerkleRoot(in) })
					if p != nil || [32]byte(got) != want {
						bads <- bad{n, [32]byte(got), want, p}
					}
				}
			}(w)
		}
		wg.Wait()
		close(bads)
		r.Eval(workers * per)
		r.Count("concurrent_root_computations", workers*per)
		for b := range bads {
			r.Violation("root-mismatch-under-concurrent-callers", fmt.Sprintf("n=%d got %x want %x panic=%v (%d goroutines computing roots of private lists concurrently)", b.n, b.got[:], b.want[:], b.pan, workers),
				map[string]interface{}{"n": b.n, "goroutines": workers})
		}
	}
	// Block level: RebuildMerkleRoot and Deserialization agree with the reference.
	nb := r.N(150, 1500)
	for i := 0; i < nb; i++ {
		ntx := rng.Intn(12)
		if i%10 == 0 {
			ntx = 17 + rng.Intn(40)
		}
		blk := &types.Block{Header: &types.Header{Height: uint32(i + 1), ConsensusPayload: []byte{1}}}
		var hs [][32]byte
		for j := 0; j < ntx; j++ {
			code := make([]byte, 1+rng.Intn(40))
			rng.Read(code)
			tx := pk.MakeTx(0, rng.Uint32(), code)
			blk.Transactions = append(blk.Transactions, tx)
			h := tx.Hash()
			hs = append(hs, [32]byte(h))
		}
		blk.RebuildMerkleRoot()
		want := refRoot(hs)
		r.Eval(1)
		r.Distinct("block", ntx, want)
		if [32]byte(blk.Header.TransactionsRoot) != want {
			r.Violation("rebuild-mismatch", fmt.Sprintf("ntx=%d", ntx), kit.Hex(blk.ToArray()))
			continue
		}
		raw := blk.ToArray()
		b2, err := types.BlockFromRawBytes(append([]byte{}, raw...))
		if err != nil {
			r.Violation("honest-block-refused", fmt.Sprintf("ntx=%d err=%v", ntx, err), kit.Hex(raw))
			continue
		}
		if !bytes.Equal(b2.ToArray(), raw) {
			r.Violation("block-roundtrip", fmt.Sprintf("ntx=%d", ntx), kit.Hex(raw))
		}
		r.Count("honest_blocks_accepted", 1)
		// one bit off in the committed root => refused
		bad := *blk.Header
		bad.TransactionsRoot[rng.Intn(32)] ^= 1 << uint(rng.Intn(8))
		raw2 := (&types.Block{Header: &bad, Transactions: blk.Transactions}).ToArray()
		if _, err := types.BlockFromRawBytes(raw2); err == nil {
			r.Violation("wrong-root-accepted", fmt.Sprintf("ntx=%d", ntx), kit.Hex(raw2))
		} else {
			r.Count("wrong_root_refused", 1)
		}
		// reordering two different txs changes the reference root => refused
		if ntx >= 2 {
			txs := append([]*types.Transaction{}, blk.Transactions...)
			a, b := 0, 1+rng.Intn(ntx-1)
			txs[a], txs[b] = txs[b], txs[a]
			hs2 := append([][32]byte{}, hs...)
			hs2[a], hs2[b] = hs2[b], hs2[a]
			if refRoot(hs2) != want {
				raw3 := (&types.Block{Header: blk.Header, Transactions: txs}).ToArray()
				if _, err := types.BlockFromRawBytes(raw3); err == nil {
					r.Violation("reordered-accepted", fmt.Sprintf("ntx=%d swap %d,%d", ntx, a, b), kit.Hex(raw3))
				} else {
					r.Count("reordered_refused", 1)
				}
			}
		}
		// RebuildMerkleRoot commits the block's *current* transaction list, also when the block's
		// hash was taken earlier (logging, map key, signing a template) and the list changed afterwards
		tb := &types.Block{Header: &types.Header{Height: uint32(i + 1), ConsensusPayload: []byte{2}}}
		var cur [][32]byte
		how := []string{"template-filled-after-hash", "emptied-after-hash", "extended-after-hash", "shortened-after-hash"}[i%4]
		switch how {
		case "template-filled-after-hash":
			tb.RebuildMerkleRoot()
			tb.Hash()
			tb.Transactions = append([]*types.Transaction{}, blk.Transactions...)
			cur = hs
		case "emptied-after-hash":
			tb.Transactions = append([]*types.Transaction{}, blk.Transactions...)
			tb.RebuildMerkleRoot()
			tb.Header.Hash()
			tb.Transactions = nil
		case "extended-after-hash":
			tb.Transactions = append([]*types.Transaction{}, blk.Transactions...)
			tb.RebuildMerkleRoot()
			tb.Hash()
			extra := pk.MakeTx(0, rng.Uint32(), []byte{byte(i), 0x51})
			tb.Transactions = append(tb.Transactions, extra)
			cur = append(append([][32]byte{}, hs...), [32]byte(extra.Hash()))
		case "shortened-after-hash":
			tb.Transactions = append([]*types.Transaction{}, blk.Transactions...)
			tb.RebuildMerkleRoot()
			tb.Hash()
			if ntx > 0 {
				tb.Transactions = tb.Transactions[:ntx-1]
				cur = hs[:ntx-1]
			}
		}
		tb.RebuildMerkleRoot()
		r.Eval(1)
		r.Distinct("rebuild-after-hash", how, len(cur), refRoot(cur))
		if got, want2 := [32]byte(tb.Header.TransactionsRoot), refRoot(cur); got != want2 {
			r.Violation("rebuild-mismatch:"+how, fmt.Sprintf("block hash taken, transaction list then changed to %d txs, RebuildMerkleRoot left root %x, reference root %x", len(cur), got[:], want2[:]),
				map[string]interface{}{"how": how, "ntx_before": ntx, "ntx_after": len(cur)})
		} else {
			r.Count("rebuild_after_hash_ok", 1)
			r.Count("rebuild_"+how, 1)
		}
	}
	r.Require("rebuild_after_hash_ok", nb/2)
	r.Require("honest_blocks_accepted", nb/2)
	r.Require("wrong_root_refused", nb/2)
	r.Assume("SHA-256 from the Go standard library is the reference hash")
}
