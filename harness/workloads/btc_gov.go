package workloads

import (
	"math/big"
	"math/rand"

	"verifharness/kit"
	"verifharness/kit/nat"
	"verifharness/kit/pk"

	"github.com/btcsuite/btcd/btcec"
	"github.com/btcsuite/btcd/chaincfg"
	"github.com/btcsuite/btcd/txscript"
	"github.com/btcsuite/btcutil"
	"github.com/polynetwork/poly/common"
	scm "github.com/polynetwork/poly/native/service/governance/side_chain_manager"
	"github.com/polynetwork/poly/native/service/utils"
)

// BtcGov: the BTC-vault governance calls of side_chain_manager that are authenticated by the
// redeem script's own keys: registerRedeem (binding one vault to SEVERAL target chains, with
// fewer / exactly / more signatures than the script's threshold, in one or several calls, and a
// version bump) and setBtcTxParam (same signature shapes).
func BtcGov(r *kit.Run, rng *rand.Rand, pal *Palette) {
	e := nat.New(3)
	e.Record = true
	if err := e.InitGovernance(pk.NewKeys(rng, 4)); err != nil {
		r.Count("workload_setup_failed:btcgov", 1)
		return
	}
	e.Height = 30
	net := &chaincfg.TestNet3Params
	n := 3 + rng.Intn(3)
	m := 2 + rng.Intn(n-2)
	var privs []*btcec.PrivateKey
	var addrs []*btcutil.AddressPubKey
	for i := 0; i < n; i++ {
		d := make([]byte, 32)
		rng.Read(d)
		d[0] = byte(i + 1)
		priv, pub := btcec.PrivKeyFromBytes(btcec.S256(), d)
		a, err := btcutil.NewAddressPubKey(pub.SerializeCompressed(), net)
		if err != nil {
			r.Count("workload_setup_failed:btcgov", 1)
			return
		}
		privs = append(privs, priv)
		addrs = append(addrs, a)
	}
	redeem, err := txscript.MultiSigScript(addrs, m)
	if err != nil {
		r.Count("workload_setup_failed:btcgov", 1)
		return
	}
	redeemChain := pal.Chain(1)
	sign := func(hash []byte, who []int) [][]byte {
		var out [][]byte
		for _, i := range who {
			s, err := privs[i].Sign(hash)
			if err == nil {
				out = append(out, s.Serialize())
			}
		}
		return out
	}
	call := func(method string, args []byte) *nat.CallRecord {
		return e.CallAs(utils.SideChainManagerContractAddress, method, args)
	}
	regRedeem := func(target uint64, contract []byte, ver uint64, who []int) *nat.CallRecord {
		p := &scm.RegisterRedeemParam{RedeemChainID: redeemChain, ContractChainID: target, Redeem: redeem, CVersion: ver, ContractAddress: contract}
		msg := append([]byte{}, redeem...)
		msg = append(msg, utils.GetUint64Bytes(p.RedeemChainID)...)
		msg = append(msg, p.ContractAddress...)
		msg = append(msg, utils.GetUint64Bytes(p.ContractChainID)...)
		msg = append(msg, utils.GetUint64Bytes(p.CVersion)...)
		p.Signs = sign(btcutil.Hash160(msg), who)
		sink := common.NewZeroCopySink(nil)
		p.Serialization(sink)
		return call("registerRedeem", sink.Bytes())
	}
	all := rng.Perm(n)
	t1, t2 := pal.Chain(2), pal.Chain(3)
	if t2 == t1 {
		t2 = t1 + 1
	}
	c1, c2 := pal.Blob(rng, 20), pal.Blob(rng, 20)
	// target 1: all signatures at once (more than the threshold)
	regRedeem(t1, c1, 0, all)
	// target 2: one signature short, then the rest in a second call (together more than m)
	regRedeem(t2, c2, 0, all[:m-1])
	regRedeem(t2, c2, 0, all[m-1:])
	// version bump for target 1 with exactly m signatures, and a stale version
	regRedeem(t1, pal.Blob(rng, 20), 1, all[:m])
	regRedeem(t1, c1, 0, all[:m])
	// setBtcTxParam: more than m signatures, then a new version in two steps
	setParam := func(ver, fee, minChange uint64, who []int) *nat.CallRecord {
		p := &scm.BtcTxParam{Redeem: redeem, RedeemChainId: redeemChain, Detial: &scm.BtcTxParamDetial{PVersion: ver, FeeRate: fee, MinChange: minChange}}
		msg := append([]byte{}, redeem...)
		msg = append(msg, utils.GetUint64Bytes(redeemChain)...)
		msg = append(msg, utils.GetUint64Bytes(fee)...)
		msg = append(msg, utils.GetUint64Bytes(minChange)...)
		msg = append(msg, utils.GetUint64Bytes(ver)...)
		p.Sigs = sign(btcutil.Hash160(msg), who)
		sink := common.NewZeroCopySink(nil)
		p.Serialization(sink)
		return call("setBtcTxParam", sink.Bytes())
	}
	setParam(0, 10, 3000, all)
	setParam(1, 12, 4000, all[:m-1])
	setParam(1, 12, 4000, all[m-1:])
	setParam(1, 12, 4000, all[:1]) // signatures already enough
	// the same key signs twice with two different valid encodings (a signature and its (r, N-s) twin),
	// in both orders and mixed with other signers: which of the two ends up in the stored tally must
	// not depend on anything but the transaction
	twin := func(hash []byte, i int) [][]byte {
		sg, err := privs[i].Sign(hash)
		if err != nil {
			return nil
		}
		// Signature.Serialize canonicalises S, which would undo the twin: encode DER by hand
		return [][]byte{sg.Serialize(), derSig(sg.R, new(big.Int).Sub(btcec.S256().N, sg.S))}
	}
	for k := 0; k < 8; k++ {
		target := t2 + 10 + uint64(k)
		contract := pal.Blob(rng, 20)
		p := &scm.RegisterRedeemParam{RedeemChainID: redeemChain, ContractChainID: target, Redeem: redeem, CVersion: 0, ContractAddress: contract}
		msg := append([]byte{}, redeem...)
		msg = append(msg, utils.GetUint64Bytes(p.RedeemChainID)...)
		msg = append(msg, p.ContractAddress...)
		msg = append(msg, utils.GetUint64Bytes(p.ContractChainID)...)
		msg = append(msg, utils.GetUint64Bytes(p.CVersion)...)
		h := btcutil.Hash160(msg)
		var sigs [][]byte
		for _, i := range all[:1+k%m] {
			tw := twin(h, i)
			if k%2 == 1 && len(tw) == 2 {
				tw[0], tw[1] = tw[1], tw[0]
			}
			sigs = append(sigs, tw...)
		}
		p.Signs = sigs
		sink := common.NewZeroCopySink(nil)
		p.Serialization(sink)
		call("registerRedeem", sink.Bytes())
		r.Count("btcgov_same_key_signs_twice", 1)
	}
	// two DIFFERENT requests whose signature tallies are addressed by the same bytes: the tally key of
	// setBtcTxParam is rk ‖ chain ‖ varuint(ver) ‖ varuint(fee) ‖ varuint(minChange), that of
	// registerRedeem rk ‖ chain ‖ contract address ‖ target chain id. With a min-change >= 2^32 the
	// parameter record ends in 0xff ‖ 8 bytes, so a binding to target chain == minChange with the
	// 3-byte contract address {ver, fee, 0xff} names the same bytes. One signer signs the parameter
	// change only, the others the binding only.
	mc := uint64(1)<<32 + uint64(rng.Intn(1<<20))
	fee := uint64(1 + rng.Intn(200))
	setParam(2, fee, mc, all[:1])
	rec := regRedeem(mc, []byte{2, byte(fee), 0xff}, 0, all[1:m])
	if rec.Ok && len(rec.Notify) > 0 {
		r.Count("btcgov_binding_applied_with_signatures_given_for_another_request", 1)
	}
	r.Count("btcgov_cross_request_tally_probe", 1)
	for _, rec := range e.Log {
		Track(r, rec.Ok, "btcgov:"+rec.Method, len(rec.WriteSet), len(rec.Notify))
	}
	r.Count("router_workload:btcgov", 1)
}

func derInt(v *big.Int) []byte {
	b := v.Bytes()
	if len(b) == 0 {
		b = []byte{0}
	}
	if b[0]&0x80 != 0 {
		b = append([]byte{0}, b...)
	}
	return append([]byte{0x02, byte(len(b))}, b...)
}

// derSig is the DER encoding of (r, s) without any canonicalisation of s.
func derSig(r, s *big.Int) []byte {
	body := append(derInt(r), derInt(s)...)
	return append([]byte{0x30, byte(len(body))}, body...)
}
