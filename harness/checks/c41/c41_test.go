// C41: VBFT round decisions count distinct participants.
//
// The real BlockPool (consensus/vbft/block_pool.go) sits on a Server that carries exactly what the
// pool reads from it (see consensus/vbft/export_verif.go: config, participant config built by the real
// buildParticipantConfig, peer pool built by the real NewPeerPool/addPeer/peerConnected). Message
// histories with duplicates, equivocation, empty-block votes and commit messages carrying endorser
// signatures are delivered through newBlockProposal / newBlockEndorsement / newBlockCommitment; after
// every delivery endorseDone / commitDone are queried and judged against sets of DISTINCT participants
// that the oracle derives from the delivered messages alone.
package c41

import (
	"bytes"
	"fmt"
	"math/rand"
	"sort"
	"testing"

	"github.com/ontio/ontology-crypto/keypair"

	"verifharness/kit"
	"verifharness/kit/pk"

	"github.com/polynetwork/poly/common"
	"github.com/polynetwork/poly/common/config"
	"github.com/polynetwork/poly/consensus/vbft"
	vconfig "github.com/polynetwork/poly/consensus/vbft/config"
	"github.com/polynetwork/poly/core/types"
)

type vote struct {
	P     uint32
	Empty bool
}

// oracle bookkeeping for one block number
type tally struct {
	ne            map[uint32]map[uint32]bool // proposer -> participants that expressed non-empty support
	empty         map[uint32]bool            // participants with any empty vote
	emptyFor      map[uint32]map[uint32]bool // proposer -> participants with an empty vote for it
	commit        map[uint32]map[uint32]bool // proposer -> signers named in commit msgs (committer + listed endorsers)
	sigs          map[string]map[string]bool // "X|P|empty" -> signature blobs delivered for it
	said          map[uint32]map[vote]bool   // participant -> everything it (or a commit on its behalf) expressed
	effect        map[uint32]bool            // participant has at least one expression inside an effective message
	firstProposal map[uint32]*vbft.VerifPoolProposal
	committers    map[uint32]bool // committers whose first commit msg was delivered
}

func newTally() *tally {
	return &tally{ne: map[uint32]map[uint32]bool{}, empty: map[uint32]bool{}, emptyFor: map[uint32]map[uint32]bool{},
		commit: map[uint32]map[uint32]bool{}, sigs: map[string]map[string]bool{}, said: map[uint32]map[vote]bool{},
		effect: map[uint32]bool{}, firstProposal: map[uint32]*vbft.VerifPoolProposal{}, committers: map[uint32]bool{}}
}

func put(m map[uint32]map[uint32]bool, k, v uint32) {
	if m[k] == nil {
		m[k] = map[uint32]bool{}
	}
	m[k][v] = true
}

func (t *tally) express(x, p uint32, empty bool, sig []byte, effective bool) {
	if empty {
		t.empty[x] = true
		put(t.emptyFor, p, x)
	} else {
		put(t.ne, p, x)
	}
	k := fmt.Sprintf("%d|%d|%v", x, p, empty)
	if t.sigs[k] == nil {
		t.sigs[k] = map[string]bool{}
	}
	t.sigs[k][string(sig)] = true
	if t.said[x] == nil {
		t.said[x] = map[vote]bool{}
	}
	t.said[x][vote{p, empty}] = true
	if effective {
		t.effect[x] = true
	}
}

func sig(x, p uint32, empty bool, variant int) []byte {
	return []byte(fmt.Sprintf("sig|x=%d|p=%d|empty=%v|v=%d", x, p, empty, variant))
}

type msg struct {
	Kind    string // proposal | endorse | commit
	Blk     uint32
	From    uint32
	P       uint32
	Empty   bool
	Variant int
	Listed  []uint32 // commit: endorsers whose signatures the message carries
}

func (m msg) String() string {
	switch m.Kind {
	case "proposal":
		return fmt.Sprintf("proposal(blk%d by %d v%d)", m.Blk, m.P, m.Variant)
	case "endorse":
		return fmt.Sprintf("endorse(blk%d %d->%d empty=%v)", m.Blk, m.From, m.P, m.Empty)
	}
	return fmt.Sprintf("commit(blk%d %d->%d empty=%v listed=%v v%d)", m.Blk, m.From, m.P, m.Empty, m.Listed, m.Variant)
}

type world struct {
	r      *kit.Run
	N, C   uint32
	ids    []uint32
	keys   map[uint32]*pk.Key
	byPub  map[string]uint32
	pool   *vbft.VerifPool
	blk    uint32
	tal    map[uint32]*tally
	script []string
	shape  string
}

func proposalMsg(blk, p uint32, variant int) *vbft.VerifPoolProposal {
	return &vbft.VerifPoolProposal{Block: &vbft.Block{
		Block:      &types.Block{Header: &types.Header{Height: blk, SigData: [][]byte{sig(p, p, false, variant)}}},
		EmptyBlock: &types.Block{Header: &types.Header{Height: blk, SigData: [][]byte{sig(p, p, true, variant)}}},
		Info:       &vconfig.VbftBlockInfo{Proposer: p},
	}}
}

// deliver hands m to the pool exactly like Server.processMsgEvent does and folds it into the tally.
func (w *world) deliver(m msg) {
	t := w.tal[m.Blk]
	if t == nil {
		t = newTally()
		w.tal[m.Blk] = t
	}
	w.script = append(w.script, m.String())
	switch m.Kind {
	case "proposal":
		pm := proposalMsg(m.Blk, m.P, m.Variant)
		err := w.pool.NewProposal(pm)
		if t.firstProposal[m.P] == nil {
			t.firstProposal[m.P] = pm
		}
		// the proposer's own signature is its endorsement of its proposal
		t.express(m.P, m.P, false, sig(m.P, m.P, false, m.Variant), true)
		if err != nil {
			w.r.Count("proposal_rejected", 1)
		} else {
			w.r.Count("proposal_accepted", 1)
		}
	case "endorse":
		em := &vbft.VerifPoolEndorse{Endorser: m.From, EndorsedProposer: m.P, BlockNum: m.Blk, EndorseForEmpty: m.Empty,
			EndorserSig: sig(m.From, m.P, m.Empty, 0)}
		if err := w.pool.NewEndorse(em); err != nil {
			w.r.Count("endorse_rejected", 1)
		}
		t.express(m.From, m.P, m.Empty, em.EndorserSig, true)
		w.r.Count("endorse_delivered", 1)
	case "commit":
		cm := &vbft.VerifPoolCommit{Committer: m.From, BlockProposer: m.P, BlockNum: m.Blk, CommitForEmpty: m.Empty,
			EndorsersSig: map[uint32][]byte{}, CommitterSig: sig(m.From, m.P, m.Empty, 100+m.Variant)}
		cm.CommitBlockHash = common.Uint256{byte(m.P), byte(m.Variant), 1}
		if m.Empty {
			cm.CommitBlockHash[2] = 2
		}
		for _, e := range m.Listed {
			cm.EndorsersSig[e] = sig(e, m.P, m.Empty, 200+m.Variant)
		}
		first := !t.committers[m.From]
		t.committers[m.From] = true
		if err := w.pool.NewCommit(cm); err != nil {
			w.r.Count("commit_rejected", 1)
		}
		put(t.commit, m.P, m.From)
		t.express(m.From, m.P, m.Empty, cm.CommitterSig, first)
		for _, e := range m.Listed {
			put(t.commit, m.P, e)
			t.express(e, m.P, m.Empty, cm.EndorsersSig[e], first)
		}
		w.r.Count("commit_delivered", 1)
		if len(m.Listed) > 0 {
			w.r.Count("commit_with_endorser_sigs", 1)
		}
	}
}

func (w *world) members(s map[uint32]bool) int {
	n := 0
	for x := range s {
		if w.keys[x] != nil {
			n++
		}
	}
	return n
}

type obs struct {
	eP     uint32
	eEmpty bool
	eDone  bool
	cP     uint32
	cEmpty bool
	cDone  bool
}

func (w *world) observe(blk uint32) obs {
	var o obs
	o.eP, o.eEmpty, o.eDone = w.pool.EndorseDone(blk, w.C)
	o.cP, o.cEmpty, o.cDone = w.pool.CommitDone(blk, w.C, w.N)
	return o
}

func (w *world) replay() interface{} {
	return map[string]interface{}{"N": w.N, "C": w.C, "ids": w.ids, "block": w.blk, "shape": w.shape, "messages": w.script}
}

// judge applies the statement to one observation.
func (w *world) judge(blk uint32, o obs) {
	t := w.tal[blk]
	if t == nil {
		t = newTally()
	}
	w.r.Eval(1)
	N, C := int(w.N), int(w.C)
	f := (N - 1) / 3
	if o.eDone {
		if !o.eEmpty {
			w.r.Count("endorse_done_nonempty", 1)
			if n := len(t.ne[o.eP]); n <= C {
				w.r.Violation("endorse-done-with-too-few-distinct-endorsers", fmt.Sprintf("N=%d C=%d blk=%d: endorseDone for proposer %d but only %d distinct participants endorsed it (need > %d)", N, C, blk, o.eP, n, C), w.replay())
			} else if n == C+1 {
				w.r.Count("endorse_done_at_exact_threshold", 1)
			}
		} else {
			w.r.Count("endorse_done_empty", 1)
			if n := len(t.empty); n <= C {
				w.r.Violation("endorse-done-empty-with-too-few-distinct-voters", fmt.Sprintf("N=%d C=%d blk=%d: endorseDone(empty) but only %d distinct participants voted empty (need > %d)", N, C, blk, n, C), w.replay())
			}
		}
	} else {
		w.r.Count("endorse_not_done", 1)
	}
	if o.cDone {
		w.r.Count("commit_done", 1)
		signers := len(t.commit[o.cP])
		endorsers := len(t.ne[o.cP])
		bySigners := signers >= N-f-1
		byEndorsers := endorsers > N-1-C
		switch {
		case !bySigners && !byEndorsers:
			w.r.Violation("commit-done-with-too-few-distinct-supporters", fmt.Sprintf("N=%d C=%d blk=%d: commitDone for proposer %d with %d distinct signers in commit msgs (need >= %d) and %d distinct endorsers (need > %d)", N, C, blk, o.cP, signers, N-f-1, endorsers, N-1-C), w.replay())
		case bySigners:
			w.r.Count("commit_done_by_commit_signers", 1)
			if signers == N-f-1 {
				w.r.Count("commit_done_at_exact_threshold", 1)
			}
			if w.members(t.commit[o.cP]) < N-f-1 && !(w.members(t.ne[o.cP]) > N-1-C) {
				w.r.Count("commit_done_only_when_counting_nonmember_ids", 1)
			}
		default:
			w.r.Count("commit_done_by_endorsers", 1)
		}
		if o.cEmpty {
			w.r.Count("commit_done_for_empty", 1)
			if n := len(t.empty); n <= C {
				w.r.Violation("commit-done-empty-with-too-few-distinct-voters", fmt.Sprintf("N=%d C=%d blk=%d: commit decided for the empty block with %d distinct empty voters (need > %d)", N, C, blk, n, C), w.replay())
			}
		}
		w.seal(blk, t, o)
	} else {
		w.r.Count("commit_not_done", 1)
	}
}

// seal: the block sealed for the decided proposal carries exactly one signature per distinct
// supporting participant.
func (w *world) seal(blk uint32, t *tally, o obs) {
	pm := t.firstProposal[o.cP]
	if pm == nil {
		w.r.Count("seal_skipped_no_proposal", 1)
		return
	}
	// the server seals the proposal's block in place; work on a copy so the history goes on unchanged
	hdr := *pm.Block.Block.Header
	hdr.SigData = append([][]byte{}, hdr.SigData...)
	ehdr := *pm.Block.EmptyBlock.Header
	ehdr.SigData = append([][]byte{}, ehdr.SigData...)
	b := &vbft.Block{Block: &types.Block{Header: &hdr}, EmptyBlock: &types.Block{Header: &ehdr}, Info: pm.Block.Info}
	if err := w.pool.AddSignatures(b, o.cEmpty); err != nil {
		w.r.Count("seal_error", 1)
		return
	}
	w.r.Count("sealed", 1)
	h := &hdr
	if o.cEmpty {
		h = &ehdr
	}
	if len(h.Bookkeepers) != len(h.SigData) {
		w.r.Violation("seal-bookkeepers-sigdata-length", fmt.Sprintf("%d bookkeepers, %d signatures", len(h.Bookkeepers), len(h.SigData)), w.replay())
		return
	}
	seen := map[uint32]bool{}
	for i, bk := range h.Bookkeepers {
		id, ok := w.byPub[string(keypair.SerializePublicKey(bk))]
		if !ok {
			w.r.Violation("seal-unknown-bookkeeper", "bookkeeper key of no participant", w.replay())
			continue
		}
		if seen[id] {
			w.r.Violation("seal-participant-twice", fmt.Sprintf("N=%d C=%d blk=%d proposer %d empty=%v: participant %d has two signatures in the sealed block", w.N, w.C, blk, o.cP, o.cEmpty, id), w.replay())
		}
		seen[id] = true
		if i == 0 {
			want := pm.Block.Block.Header.SigData[0]
			if o.cEmpty {
				want = pm.Block.EmptyBlock.Header.SigData[0]
			}
			if id != o.cP || !bytes.Equal(h.SigData[0], want) {
				w.r.Violation("seal-first-is-not-proposer", fmt.Sprintf("first bookkeeper %d, proposer %d", id, o.cP), w.replay())
			}
			continue
		}
		k := fmt.Sprintf("%d|%d|%v", id, o.cP, o.cEmpty)
		if !t.sigs[k][string(h.SigData[i])] {
			w.r.Violation("seal-signature-of-non-supporter", fmt.Sprintf("N=%d C=%d blk=%d: sealed block for proposer %d empty=%v carries for participant %d the blob %q, which no delivered message gave for that participant and proposal", w.N, w.C, blk, o.cP, o.cEmpty, id, h.SigData[i]), w.replay())
		}
	}
	// every participant that only ever supported exactly this decision (and did so in a message the
	// pool had to take) is present
	for x, votes := range t.said {
		if x == o.cP || w.keys[x] == nil || !t.effect[x] {
			continue
		}
		if len(votes) == 1 && votes[vote{o.cP, o.cEmpty}] {
			w.r.Count("seal_unambiguous_supporters", 1)
			if !seen[x] {
				w.r.Violation("seal-supporter-missing", fmt.Sprintf("N=%d C=%d blk=%d: participant %d only ever supported proposer %d empty=%v but has no signature in the sealed block", w.N, w.C, blk, x, o.cP, o.cEmpty), w.replay())
			}
		}
	}
	if len(seen) > 1 {
		w.r.Count("sealed_with_endorser_sigs", 1)
	}
}

func newWorld(r *kit.Run, rng *rand.Rand) *world {
	n := 4 + rng.Intn(7)
	keys := pk.NewKeys(rng, n)
	peers := make([]*config.VBFTPeerInfo, n)
	w := &world{r: r, N: uint32(n), keys: map[uint32]*pk.Key{}, byPub: map[string]uint32{}, tal: map[uint32]*tally{}}
	sparse := rng.Intn(3) == 0
	used := map[uint32]bool{}
	for i, k := range keys {
		id := uint32(i + 1)
		if sparse {
			for {
				id = 1 + uint32(rng.Intn(200))
				if !used[id] {
					break
				}
			}
		}
		used[id] = true
		w.ids = append(w.ids, id)
		w.keys[id] = k
		w.byPub[string(k.PubBytes())] = id
		peers[i] = &config.VBFTPeerInfo{Index: id, PeerPubkey: k.PubHex(), Address: k.Addr.ToBase58()}
	}
	vb := &config.VBFTConfig{BlockMsgDelay: 10000, HashMsgDelay: 10000, PeerHandshakeTimeout: 10, MaxBlockChangeView: 100}
	cc, err := vconfig.GenesisChainConfig(vb, peers, uint32(rng.Intn(1000)))
	if err != nil {
		panic(err)
	}
	cc.C = uint32((n - 1) / 3)
	if rng.Intn(5) == 0 && cc.C > 0 {
		cc.C = uint32(rng.Intn(int(cc.C)))
	}
	w.C = cc.C
	chained := uint32(rng.Intn(1000))
	vrf := make([]byte, 64)
	rng.Read(vrf)
	prev := &vbft.Block{Block: &types.Block{Header: &types.Header{Height: chained}}, Info: &vconfig.VbftBlockInfo{Proposer: w.ids[0], VrfValue: vrf}}
	part, err := vbft.VerifBuildParticipantConfig(w.ids[0], chained+1, prev, cc)
	if err != nil {
		r.Inconclusive("buildParticipantConfig: " + err.Error())
		return nil
	}
	var connected []uint32
	for _, id := range w.ids {
		if rng.Intn(4) > 0 {
			connected = append(connected, id)
		}
	}
	w.pool, err = vbft.VerifNewPool(w.ids[rng.Intn(n)], cc, part, connected, chained, prev)
	if err != nil {
		r.Inconclusive("pool: " + err.Error())
		return nil
	}
	w.blk = chained + 1
	return w
}

func subset(rng *rand.Rand, ids []uint32, k int) []uint32 {
	p := rng.Perm(len(ids))
	if k > len(ids) {
		k = len(ids)
	}
	out := make([]uint32, k)
	for i := 0; i < k; i++ {
		out[i] = ids[p[i]]
	}
	sort.Slice(out, func(i, j int) bool { return out[i] < out[j] })
	return out
}

// history generators ------------------------------------------------------------------------------

// boundary: only `k` distinct participants ever support proposer P (non-empty) — with k one below a
// threshold — but they do it loudly: duplicates, several message kinds, commit msgs listing each other.
func (w *world) genBoundary(rng *rand.Rand) []msg {
	N, C := int(w.N), int(w.C)
	f := (N - 1) / 3
	var k int
	which := rng.Intn(3)
	switch which {
	case 0:
		k, w.shape = C, "boundary-endorse(C)"
	case 1:
		k, w.shape = N-f-2, "boundary-commit-signers(N-f-2)"
	default:
		k, w.shape = N-1-C, "boundary-commit-endorsers(N-1-C)"
	}
	if k < 1 {
		k = 1
	}
	S := subset(rng, w.ids, k)
	P := S[rng.Intn(len(S))]
	var ms []msg
	ms = append(ms, msg{Kind: "proposal", Blk: w.blk, P: P})
	total := 10 + rng.Intn(30)
	for i := 0; i < total; i++ {
		x := S[rng.Intn(len(S))]
		switch rng.Intn(5) {
		case 0:
			ms = append(ms, msg{Kind: "proposal", Blk: w.blk, P: P, Variant: rng.Intn(2)})
		case 1, 2:
			ms = append(ms, msg{Kind: "endorse", Blk: w.blk, From: x, P: P})
		default:
			if which == 0 {
				// commit messages would bring the commit path in; keep this family about endorsements
				ms = append(ms, msg{Kind: "endorse", Blk: w.blk, From: x, P: P})
			} else {
				ms = append(ms, msg{Kind: "commit", Blk: w.blk, From: x, P: P, Listed: subset(rng, S, rng.Intn(len(S)+1)), Variant: rng.Intn(2)})
			}
		}
		// noise that must not count: other block number, other proposer
		if rng.Intn(4) == 0 {
			y := w.ids[rng.Intn(len(w.ids))]
			ms = append(ms, msg{Kind: "endorse", Blk: w.blk + 1, From: y, P: P})
		}
	}
	return ms
}

func (w *world) genRandom(rng *rand.Rand) []msg {
	w.shape = "random"
	nProp := 1 + rng.Intn(3)
	props := subset(rng, w.ids, nProp)
	emptyBias := rng.Intn(4) == 0
	var ms []msg
	total := 10 + rng.Intn(50)
	for i := 0; i < total; i++ {
		blk := w.blk
		if rng.Intn(10) == 0 {
			blk++
		}
		x := w.ids[rng.Intn(len(w.ids))]
		P := props[rng.Intn(len(props))]
		if rng.Intn(3) > 0 {
			P = props[0] // a favourite so that thresholds are actually crossed
		}
		empty := rng.Intn(6) == 0
		if emptyBias {
			empty = rng.Intn(2) == 0
		}
		switch y := rng.Intn(10); {
		case y < 2:
			ms = append(ms, msg{Kind: "proposal", Blk: blk, P: P, Variant: rng.Intn(5) / 4})
		case y < 6:
			ms = append(ms, msg{Kind: "endorse", Blk: blk, From: x, P: P, Empty: empty})
		default:
			listed := subset(rng, w.ids, rng.Intn(len(w.ids)))
			if rng.Intn(8) == 0 {
				listed = append(listed, 900+uint32(rng.Intn(3))) // an id that is no participant at all
			}
			if rng.Intn(3) == 0 {
				listed = nil
			}
			ms = append(ms, msg{Kind: "commit", Blk: blk, From: x, P: P, Empty: empty, Listed: listed, Variant: rng.Intn(5) / 4})
		}
		if len(ms) > 1 && rng.Intn(5) == 0 { // late duplicate of an earlier message
			ms = append(ms, ms[rng.Intn(len(ms))])
		}
	}
	return ms
}

// honest: one proposal, endorsements trickle in from distinct participants, then commits.
func (w *world) genHonest(rng *rand.Rand) []msg {
	w.shape = "honest"
	order := subset(rng, w.ids, len(w.ids))
	rng.Shuffle(len(order), func(i, j int) { order[i], order[j] = order[j], order[i] })
	P := order[0]
	empty := rng.Intn(5) == 0
	ms := []msg{{Kind: "proposal", Blk: w.blk, P: P}}
	var endorsed []uint32
	for _, x := range order[1:] {
		ms = append(ms, msg{Kind: "endorse", Blk: w.blk, From: x, P: P, Empty: empty})
		endorsed = append(endorsed, x)
		if rng.Intn(3) == 0 {
			ms = append(ms, ms[len(ms)-1])
		}
	}
	for _, x := range order[1:] {
		if rng.Intn(2) == 0 {
			ms = append(ms, msg{Kind: "commit", Blk: w.blk, From: x, P: P, Empty: empty, Listed: subset(rng, endorsed, rng.Intn(len(endorsed)+1))})
		}
	}
	return ms
}

func TestC41(t *testing.T) {
	r := kit.Start(t, "C41", "exploration")
	defer r.Finish()
	r.Rule("worlds: N 4..10, C = (N-1)/3 (sometimes smaller), contiguous or sparse peer ids, random connected subset, participant config from the real buildParticipantConfig; histories per world: 'boundary' (exactly threshold-1 distinct supporters who repeat themselves through proposals / endorsements / commit msgs listing each other, plus noise for the next block), 'random' (1..3 competing proposers, equivocating proposals, empty votes, commit msgs carrying endorser signatures incl. non-member ids, late duplicates), 'honest'; after every delivery (and again after an immediate duplicate delivery) endorseDone / commitDone for the round and the next round are judged; distinct = (shape, N, C, outcome pattern)")
	r.Assume("a participant 'supports' proposal P when any delivered message says so: P's own proposal, an endorsement, a commit message by it, or its signature listed in somebody's commit message (the pool cannot and does not verify signatures; the server verifies the sender's before delivery, listed endorser signatures are never verified anywhere)")
	r.Assume("empty-block endorsements are counted across proposers (endorseDone for empty => more than C distinct participants voted empty); a commit decision for the empty block needs more than C distinct empty voters (weakest reading)")
	r.Assume("commit msgs for P are counted for P whether or not they are for the empty block, as the statement speaks of 'the same proposal'")
	r.Assume("the Server under the pool is minimal: only Index, config, currentParticipantConfig, peerPool, chainStore height are populated — exactly the fields BlockPool and Server.isEndorser read; sealing is observed through addSignaturesToBlockLocked (setBlockSealed additionally needs a ledger)")
	rng := r.Rand("c41")
	nWorlds := r.N(1500, 480000)
	for wi := 0; wi < nWorlds; wi++ {
		w := newWorld(r, rng)
		if w == nil {
			return
		}
		var ms []msg
		switch wi % 5 {
		case 0, 1:
			ms = w.genBoundary(rng)
		case 2, 3:
			ms = w.genRandom(rng)
		default:
			ms = w.genHonest(rng)
		}
		pattern := [4]bool{}
		for _, m := range ms {
			w.deliver(m)
			for _, blk := range []uint32{w.blk, w.blk + 1} {
				o := w.observe(blk)
				w.judge(blk, o)
				if blk == w.blk {
					pattern[0] = pattern[0] || o.eDone
					pattern[1] = pattern[1] || o.cDone
					pattern[2] = pattern[2] || (o.eDone && o.eEmpty)
					pattern[3] = pattern[3] || (o.cDone && o.cEmpty)
				}
			}
			// an immediate duplicate of the same message never changes a decision
			if rng.Intn(3) == 0 {
				before := w.observe(m.Blk)
				w.deliver(m)
				after := w.observe(m.Blk)
				w.r.Count("immediate_duplicates", 1)
				if before.eDone != after.eDone || before.cDone != after.cDone {
					w.r.Violation("duplicate-changed-a-decision", fmt.Sprintf("N=%d C=%d: redelivering %s changed endorseDone %v->%v / commitDone %v->%v", w.N, w.C, m, before.eDone, after.eDone, before.cDone, after.cDone), w.replay())
				}
				w.judge(m.Blk, after)
			}
		}
		r.Distinct(w.shape, w.N, w.C, pattern)
		if wi < 3 {
			s := w.script
			if len(s) > 12 {
				s = s[:12]
			}
			r.Sample(map[string]interface{}{"shape": w.shape, "N": w.N, "C": w.C, "ids": w.ids, "messages_head": s, "endorse_done": pattern[0], "commit_done": pattern[1]})
		}
	}
	r.Require("endorse_done_nonempty", nWorlds)
	r.Require("endorse_done_empty", nWorlds/20)
	r.Require("endorse_not_done", nWorlds)
	r.Require("endorse_done_at_exact_threshold", nWorlds/10)
	r.Require("commit_done_by_commit_signers", nWorlds/2)
	r.Require("commit_done_by_endorsers", nWorlds/50)
	r.Require("commit_done_at_exact_threshold", nWorlds/20)
	r.Require("commit_not_done", nWorlds)
	r.Require("commit_with_endorser_sigs", nWorlds)
	r.Require("sealed_with_endorser_sigs", nWorlds/4)
	r.Require("seal_unambiguous_supporters", nWorlds/2)
	r.Require("immediate_duplicates", nWorlds)
	r.Require("proposal_rejected", nWorlds/20)
}
