package workloads

import (
	"fmt"
	"math/rand"

	"verifharness/kit"
	"verifharness/kit/nat"
	"verifharness/kit/pk"
	"verifharness/synth/ccmsynth"
	gs "verifharness/synth/genesissynth"

	hscommon "github.com/polynetwork/poly/native/service/header_sync/common"
	"github.com/polynetwork/poly/native/service/utils"
)

// GenesisAll: for every header-sync router with a genesis builder (all but harmony) register a side
// chain through side_chain_manager, install a first trust root (operator-signed
// syncGenesisHeader), let the light client advance where follow-up headers can be built (cosmos,
// ont: syncBlockHeader), and make a second installation attempt (alternately the same genesis and
// a different valid one). Everything goes through kit/nat, so the cross-cutting monitors see the
// genesis paths of all routers. No verdicts here (C19 judges these sequences).
func GenesisAll(r *kit.Run, rng *rand.Rand, pal *Palette) {
	vals := pk.NewKeys(rng, 4+rng.Intn(3))
	owner := pk.NewKey(rng)
	w, err := ccmsynth.NewWorld(3, vals, owner)
	if err != nil {
		r.Count("workload_setup_failed:genesis-world", 1)
		return
	}
	w.E.Record = true
	w.E.Height = 60 + uint32(rng.Intn(1000))
	op := nat.Operator(w.Vals)
	seen := map[uint64]bool{}
	for i, rd := range gs.Routers() {
		from := len(w.E.Log)
		id := pal.Chain(uint64(3000 + i))
		for seen[id] || id == 0 {
			id += 1000003
		}
		seen[id] = true
		fail := func(why string) {
			r.Count("workload_setup_failed:"+rd.Name, 1)
			r.Set("workload_setup_failed_example:"+rd.Name, why)
		}
		ccmc := make([]byte, 20)
		rng.Read(ccmc)
		p1 := rd.Draw(rng)
		g1, err := rd.Build(p1)
		if err != nil {
			fail("build: " + err.Error())
			continue
		}
		if err := w.RegisterAndApprove(ccmsynth.ChainSpec{ID: id, Router: rd.ID, Name: fmt.Sprintf("%s-%d", rd.Name, i), CCMC: ccmc, Extra: rd.Extra}); err != nil {
			fail("register: " + err.Error())
		} else {
			first := w.E.Call(utils.HeaderSyncContractAddress, hscommon.SYNC_GENESIS_HEADER, gs.GenesisArgs(id, g1), op)
			if !first.Ok {
				fail("first genesis refused: " + first.Err)
			} else {
				r.Count("router_workload:genesis:"+rd.Name, 1)
			}
			if first.Ok && rd.Sync != nil {
				if hdrs, err := rd.Sync(p1, rng); err == nil {
					w.E.Height++
					rec := w.E.Call(utils.HeaderSyncContractAddress, hscommon.SYNC_BLOCK_HEADER, gs.SyncArgs(id, owner.Addr, hdrs), pk.Single(owner))
					if rec.Ok {
						r.Count("router_workload:genesis-header-sync:"+rd.Name, 1)
					}
				}
			}
			if first.Ok && rd.Probe != nil {
				if hdrs, err := rd.Probe(p1, rng); err == nil {
					w.E.Height++
					w.E.Call(utils.HeaderSyncContractAddress, hscommon.SYNC_BLOCK_HEADER, gs.SyncArgs(id, owner.Addr, hdrs), pk.Single(owner))
					r.Count("router_workload:genesis-header-probe:"+rd.Name, 1)
				}
			}
			// second installation attempt
			w.E.Height++
			g2 := g1
			if rng.Intn(2) == 0 {
				p2 := rd.Draw(rng)
				if b, err := rd.Build(p2); err == nil {
					g2 = b
				}
			}
			w.E.Call(utils.HeaderSyncContractAddress, hscommon.SYNC_GENESIS_HEADER, gs.GenesisArgs(id, g2), op)
			// and one by somebody who is not the operator
			w.E.Call(utils.HeaderSyncContractAddress, hscommon.SYNC_GENESIS_HEADER, gs.GenesisArgs(id, g2), pk.Single(owner))
		}
		for _, rec := range w.E.Log[from:] {
			Track(r, rec.Ok, "genesis:"+rd.Name+":"+rec.Method, len(rec.WriteSet), len(rec.Notify))
		}
	}
}
