#!/usr/bin/env python3
"""Generate /verif/MANIFEST.json from checks.json (single source of truth) and validate it."""
import json, os, subprocess, sys
VERIF = os.path.dirname(os.path.dirname(os.path.abspath(__file__)))
sys.path.insert(0, os.path.join(VERIF, "lib"))
import driver
reg = driver.registry()
props = [json.loads(l) for l in open(os.path.join(VERIF, "properties.jsonl"))]
ids = [p["id"] for p in props]
hooks_commits = []
hp = os.path.join(VERIF, "MANIFEST.hooks")
if os.path.exists(hp):
    for l in open(hp):
        l = l.strip()
        if l and not l.startswith("#"):
            hooks_commits.append(l.split()[0])
m = {
    "version": 1,
    "setup_cmd": "./check --setup",
    "hooks": {
        "guard": "verif",
        "enable": "go test -tags verif (the harness module /verif/harness replaces github.com/polynetwork/poly by /repo; every check is built by ./check with -tags verif)",
        "baseline_off_cmd": "./lib/baseline_off.sh",
        "source_commits": hooks_commits,
        "add_only": True,
    },
    "engines": [
        {"name": "go-harness", "path": "harness", "serves_properties": sorted(reg["checks"].keys()),
         "kind_free_text": "Go test binaries (module verifharness, poly replaced by /repo) running the real poly code under generated / hostile workloads with reference-model monitors, invariant hooks, crash injection, the Go race detector and porcupine; driven by lib/driver.py"}
    ],
    "checks": [],
    "not_applicable": [],
    "notes": "Technique family: runtime monitoring and sanitizers. Every verdict is 'held on the executions described in the evidence file'. See DESIGN.md.",
}
for pid in ids:
    if pid in reg["checks"]:
        c = reg["checks"][pid]
        e = {
            "property_id": pid,
            "quick_cmd": "./check %s --tier quick" % pid,
            "thorough_cmd": "./check %s --tier thorough" % pid,
            "evidence_file": "/verif/evidence/%s.json" % pid,
            "replay_cmd_template": "./check %s --replay {path}" % pid,
            "engine": "go-harness",
            "level_claimed": {"category": c["level"], "text": c["text"], "design_ref": c.get("design_ref", "DESIGN.md §3 " + pid)},
            "level_note": c["note"],
            "technique": c["technique"],
        }
        m["checks"].append(e)
    else:
        reason = reg.get("not_applicable", {}).get(pid, "check not built yet in this round (planned, see DESIGN.md §3)")
        m["not_applicable"].append({"property_id": pid, "reason": reason})
json.dump(m, open(os.path.join(VERIF, "MANIFEST.json"), "w"), indent=1)
sys.exit(subprocess.call([sys.executable, os.path.join(VERIF, "lib", "validate.py"), "/root/.vp/MANIFEST.schema.json", os.path.join(VERIF, "MANIFEST.json")]))
