// Recorded genesis data copied literally from the repo's own tests
// (native/service/header_sync/zilliqa/header_sync_test.go TestSyncGenesisHeader — identical in
// zilliqalegacy — and native/service/header_sync/starcoin/header_sync_test.go).
package genesissynth

// zilTxBlockJSON / zilDsBlockJSON: recorded Zilliqa tx block 1 / DS block 1.
const zilTxBlockJSON = "{\"BlockHash\":[56,40,135,50,178,230,126,194,104,230,177,166,241,195,181,119,72,230,177,102,171,121,58,163,41,139,18,92,138,231,108,39],\"Cosigs\":{\"CS1\":{\"R\":79461090997780129048034156976579207017607593312295382854180954812611062499786,\"S\":91742597770497613815760351313815911030151335677216474693626678776993533665077},\"B1\":[true,true,true,true,true,true,true,false,false,false],\"CS2\":{\"R\":22513373955460225598459727159582327633978685137898384968505490930737451385826,\"S\":69259600331273345477024713698850194580163873601064291944707625774006410868491},\"B2\":[true,true,false,true,true,true,true,true,false,false]},\"Timestamp\":1614851084113383,\"BlockHeader\":{\"BlockHeaderBase\":{\"Version\":1,\"CommitteeHash\":[144,78,35,242,84,150,244,171,215,191,207,200,228,18,4,75,188,156,242,96,234,28,171,227,90,127,173,150,197,48,76,231],\"PrevHash\":[25,71,113,139,67,29,37,221,101,194,38,247,159,62,10,156,201,106,148,136,153,218,179,66,41,147,222,241,73,74,156,149]},\"GasLimit\":90000,\"GasUsed\":0,\"Rewards\":0,\"BlockNum\":1,\"HashSet\":{\"StateRootHash\":[171,57,165,166,188,170,165,153,119,109,69,231,171,86,24,230,64,155,13,154,233,104,156,53,214,30,42,57,70,180,219,46],\"DeltaHash\":[0,0,0,0,0,0,0,0,0,0,0,0,0,0,0,0,0,0,0,0,0,0,0,0,0,0,0,0,0,0,0,0],\"MbInfoHash\":[59,61,191,206,53,105,23,193,9,0,195,32,41,52,29,157,182,192,2,221,165,75,6,239,121,24,166,25,78,63,43,201]},\"NumTxs\":0,\"MinerPubKey\":\"0x02105342331FCD7CA95648DF8C5373C596982544F35E90849B1E619DFC59F03D48\",\"DSBlockNum\":1}}"

const zilDsBlockJSON = "{\"BlockHash\":[110,156,68,14,64,80,203,185,47,33,51,251,33,253,134,144,165,106,177,248,40,162,95,175,149,198,226,104,42,133,141,147],\"Cosigs\":{\"CS1\":{\"R\":82378159645007731822019453933480162750953116703416061439006821187696821549829,\"S\":76062990255435928402343339335249009291551400166495738641213601543709385329901},\"B1\":[true,true,true,false,true,true,true,true,false,false],\"CS2\":{\"R\":93854453672214038567945187798065701969482439716186198113435402044731863802032,\"S\":99194416943091049405554646407147384870804679504363691825129226286226313434999},\"B2\":[true,true,true,true,true,true,false,false,true,false]},\"Timestamp\":1614851053611705,\"BlockHeader\":{\"BlockHeaderBase\":{\"Version\":2,\"CommitteeHash\":[168,148,171,148,251,117,232,182,248,255,95,207,117,54,148,68,162,158,59,213,12,56,135,233,222,70,197,78,138,205,243,168],\"PrevHash\":[15,0,233,211,23,83,0,252,40,120,18,210,1,237,207,191,203,129,101,128,150,6,84,85,149,191,83,112,12,82,70,72]},\"DsDifficulty\":5,\"Difficulty\":3,\"LeaderPubKey\":\"0x02105342331FCD7CA95648DF8C5373C596982544F35E90849B1E619DFC59F03D48\",\"BlockNum\":1,\"EpochNum\":1,\"GasPrice\":\"2000000000\",\"SwInfo\":{\"ZilliqaMajorVersion\":0,\"ZilliqaMinorVersion\":0,\"ZilliqaFixVersion\":0,\"ZilliqaUpgradeDS\":0,\"ZilliqaCommit\":0,\"ScillaMajorVersion\":0,\"ScillaMinorVersion\":0,\"ScillaFixVersion\":0,\"ScillaUpgradeDS\":0,\"ScillaCommit\":0},\"PoWDSWinners\":{\"0x0374A5CA5D76BEE5A1DE132AE72184AB084D23EC7A4867CCD562C58405BBB663E2\":{\"IpAddress\":3672036406,\"ListenPortHost\":33133,\"HostName\":\"\"}},\"RemoveDSNodePubKeys\":null,\"DSBlockHashSet\":{\"ShadingHash\":\"0VOZ8Rwe5L9/H5LD5FtSOWf9XK5dSilsYmSbzoF7Bjo=\",\"ReservedField\":[0,0,0,0,0,0,0,0,0,0,0,0,0,0,0,0,0,0,0,0,0,0,0,0,0,0,0,0,0,0,0,0,0,0,0,0,0,0,0,0,0,0,0,0,0,0,0,0,0,0,0,0,0,0,0,0,0,0,0,0,0,0,0,0,0,0,0,0,0,0,0,0,0,0,0,0,0,0,0,0,0,0,0,0,0,0,0,0,0,0,0,0,0,0,0,0,0,0,0,0,0,0,0,0,0,0,0,0,0,0,0,0,0,0,0,0,0,0,0,0,0,0,0,0,0,0,0,0]},\"GovDSShardVotesMap\":{}},\"PrevDSHash\":\"0000000000000000000000000000000000000000000000000000000000000000\"}"

// zilInitComm: the recorded initial DS committee (public keys) of the same test.
var zilInitComm = []string{
	"02105342331FCD7CA95648DF8C5373C596982544F35E90849B1E619DFC59F03D48",
	"021D439D1CCCAE17C3D6E855BC78E96438C808D16D1CBF8D7ABD391E41CEE9B1BF",
	"021EDDE95598F5F59708D2E728E00EDB2ECF278C16BD389384320B1AF998DCC2FD",
	"02445FE498E7FBB240BDF9185EB5E7642AF1AF36852D1E132E198A222FBAC617A0",
	"0256EC4BC62FB56C83A3F6160E67499A9E381CF7A613EBF34B9ECDB9E64171DDF4",
	"0264D991762D81DD6557BCB33EC8AA3F621B4CB790852F2231C864921387B76862",
	"027A00916BDD3CF954ED13A0494BFB73FF95BF28C54004F2749F1A8E8CC1AB5B3D",
	"0297C693FBEBAF397CBDE616F605920EF70D7F6E5EC8DD82E71AE1E812E5E0B303",
	"02AE5ADF63E9161000713987B5EBB490B5E6B57CF5B7F9799B4AB907BA19D468F6",
	"0374A5CA5D76BEE5A1DE132AE72184AB084D23EC7A4867CCD562C58405BBB663E2",
}

// stcMainHeaderJSON: recorded Starcoin main-net genesis (block 0) header + block info.
const stcMainHeaderJSON = `
	{
	"header":{
      "block_hash": "0x80848150abee7e9a3bfe9542a019eb0b8b01f124b63b011f9c338fdb935c417d",
      "parent_hash": "0xb82a2c11f2df62bf87c2933d0281e5fe47ea94d5f0049eec1485b682df29529a",
      "timestamp": "1621311100863",
      "number": "0",
      "author": "0x00000000000000000000000000000001",
      "author_auth_key": null,
      "txn_accumulator_root": "0x43609d52fdf8e4a253c62dfe127d33c77e1fb4afdefb306d46ec42e21b9103ae",
      "block_accumulator_root": "0x414343554d554c41544f525f504c414345484f4c4445525f4841534800000000",
      "state_root": "0x61125a3ab755b993d72accfea741f8537104db8e022098154f3a66d5c23e828d",
      "gas_used": "0",
      "difficulty": "0xb1ec37",
      "body_hash": "0x7564db97ee270a6c1f2f73fbf517dc0777a6119b7460b7eae2890d1ce504537b",
      "chain_id": 1,
      "nonce": 0,
      "extra": "0x00000000"
	  },
	"block_info": {"block_id":"0x80848150abee7e9a3bfe9542a019eb0b8b01f124b63b011f9c338fdb935c417d","total_difficulty":"0xb1ec37","txn_accumulator_info":{"accumulator_root":"0x43609d52fdf8e4a253c62dfe127d33c77e1fb4afdefb306d46ec42e21b9103ae","frozen_subtree_roots":["0x43609d52fdf8e4a253c62dfe127d33c77e1fb4afdefb306d46ec42e21b9103ae"],"num_leaves":1,"num_nodes":1},"block_accumulator_info":{"accumulator_root":"0x80848150abee7e9a3bfe9542a019eb0b8b01f124b63b011f9c338fdb935c417d","frozen_subtree_roots":["0x80848150abee7e9a3bfe9542a019eb0b8b01f124b63b011f9c338fdb935c417d"],"num_leaves":1,"num_nodes":1}}
	}
	`

// stcHeader2810118JSON: recorded Starcoin main-net header 2810118 + block info.
const stcHeader2810118JSON = `
	{
	"header":{
      "block_hash":"0xa382474d0fd1270f7f98f2bdbd17deaffb14a69d7ba8fd060a032e723f997b4b","parent_hash":"0x56e33b25775930e49bd5b053828818540cc16794e22e51ad7133dd93cc753416","timestamp":"1637063088165","number":"2810118","author":"0x46a1d0101f491147902e9e00305107ed","author_auth_key":null,"txn_accumulator_root":"0x21188c34f41b7d8e8098ffd2917a4fd768a0dbdfb03d100af09d7bc108d0f607","block_accumulator_root":"0x4fe2c130d01b498cd6f4b203ec2978ef18906e12ee92dcf6da564d7e54a0c630","state_root":"0xbe5d2327c8ff2c81645b7426af0a402979aee3ac2168541209f3806c54e4d607","gas_used":"0","difficulty":"0x0ce776b7","body_hash":"0xc01e0329de6d899348a8ef4bd51db56175b3fa0988e57c3dcec8eaf13a164d97","chain_id":1,"nonce":1249902865,"extra":"0x643b0000"
	  },
	"block_info": {
		"block_id":"0xa382474d0fd1270f7f98f2bdbd17deaffb14a69d7ba8fd060a032e723f997b4b","total_difficulty":"0x016e13d46f2504","txn_accumulator_info":{"accumulator_root":"0x21188c34f41b7d8e8098ffd2917a4fd768a0dbdfb03d100af09d7bc108d0f607","frozen_subtree_roots":["0xa4dba8845b26b2d14a98ccdfce763a5d7fd598b28a307109625ca8c327f6863a","0x3f4762e7947ed99f7af5ffceaa5b27fad11f98e843ac2a25937c7df0ba72c476","0x7d42e56e2bd204cf4fcf06340f3565613e023ef1016b9887c0a1d73e3cd52172","0xd6ee4ab637f153d64b68e3c4e01f6c4a3808d89cdfd2fed440eeb4913ad035d7","0x4141c4f928bc79a39bffbb5e0f30e4358c485d20cf2bd5e4f9473675cdf7350b","0x559cdaadc80aa3ea952a97e1a9f35d2f100020c7d8c310e3dd6c031da532affc","0x4e6206723bd972efa6e20f24192c4021e86e6ecacb685eec03ce4363bd0509bf","0xadf487bfecfe47f150903cb2bda761592913c489e23b8a8ef59b3fcc29176020","0x5376506c2c5a596328bc02e2c3e1d8e245fa2363c2dd9499bdef7a33ce3808cb"],"num_leaves":2908805,"num_nodes":5817601},"block_accumulator_info":{"accumulator_root":"0x282d6399a2581f3319207c17bdeeefdd3066a908a7c0c0c81541b3527c4a7f47","frozen_subtree_roots":["0xf8bd5bf064d3295dfcd18899919fb76deba13435797102903b5e2c817f23e099","0x989f9921a48ee826d5c88bceddfe8c97ea5f63f2107c36513e323fb67a9a3a51","0xecc267cad7de2dcf12177784e4afc95999cc56c2372956c9e8c799bb767de897","0xe240472400b85fa7f96364b8b096626aec651cf10ba6b7b507a825a3ebaf5274","0xfedf95d099efcf4b83f1d5b8761776ad5b251696ca9b6515371679a3ce4abc86","0x7cb5e799a4cee5fa800fb34d838956f379d94c5da834fc8260e23ef98c549a5c","0x8e0573d64279adbe420800592d21cb4fa344a9b6aa28aff98ac1319965098f47","0x14fdd335c7761a9745f45803a1e999d3f184cd9001de124714b6d51ba44670c5","0xbf31be9c20023ffa0d32bea18c31e0e15abbb52c4a7af24e3a38829089084018","0xa382474d0fd1270f7f98f2bdbd17deaffb14a69d7ba8fd060a032e723f997b4b"],"num_leaves":2810119,"num_nodes":5620228}
	  }
	}
	`
